(* C14 — the generic parse tree is lossless. Statements proved here: what the
   checker lossless_b (evaluated on every real tree) means, and the model's
   whitespace-skipping bookkeeping. The round trip as a theorem about the byte
   level model for ALL inputs is model_roundtrip below (whitespace-skipping
   mode; the Layout-rule mode is decided by the checker on real trees). *)
From RV Require Properties.C02.
From RV Require Import Model.LR Model.LRBytes Model.CompareBytes Spec.TreeCheck Spec.SpanCheck Spec.Validators Proofs.Lossless Proofs.RoundTrip.

Theorem lossless_checker_meaning : forall inp t,
  lossless_b inp t = true ->
  leaves t = [] \/
  exists lf, last (leaves t) lf = lf /\ In lf (leaves t) /\
             flat_map leaf_text (leaves t) = firstn (p_off (sp_end (snd lf))) inp.
Proof. exact lossless_b_meaning. Qed.
Print Assumptions lossless_checker_meaning.

Theorem skip_stores_whitespace_run : forall inp mt cx,
  let n := ws_len mt (p_off (cx_pos cx)) in
  (n = 0 -> skip inp mt cx = mkCtx (cx_pos cx) (cx_span cx) None (cx_state cx)) /\
  (0 < n -> cx_layout (skip inp mt cx) = Some (p_off (cx_pos cx), n) /\
            p_off (cx_pos (skip inp mt cx)) = p_off (cx_pos cx) + length (sub inp (p_off (cx_pos cx), n)) /\
            cx_span (skip inp mt cx) = cx_span cx /\ cx_state (skip inp mt cx) = cx_state cx).
Proof. exact skip_spec. Qed.
Print Assumptions skip_stores_whitespace_run.

(* The round trip as a THEOREM about the byte-level model (whitespace skipping
   or none, no Layout rule): for every grammar/table passing sound_b, every
   input and every measured recognizer table satisfying mt_ok_b, the tree the
   model returns is lossless, every stored layout is a maximal whitespace run,
   and (erasing spans) it is a derivation tree from the start symbol. *)
Theorem model_roundtrip : forall g T inp mt cfg fuel t,
  wf_grammar_b g = true -> sound_b g T = true -> mt_ok_b inp mt = true -> bc_has_layout cfg = false ->
  bparse g T inp mt fuel cfg = BOk t ->
  lossless_b inp (resolve inp t) = true /\
  (bc_skip_ws cfg = true -> layout_is_ws_b mt (resolve inp t) = true) /\
  valid_tree g (erase t) /\ root g (erase t) = g_start g.
Proof.
  intros g T inp mt cfg fuel t Hwf Hs Hm Hl H.
  exact (proj2 (model_tree_ok_main g T inp mt cfg Hwf Hs (mt_ok_b_spec inp mt Hm) Hl fuel t H)).
Qed.
Print Assumptions model_roundtrip.

Example lossless_nonvacuous :
  lossless_b [97; 10; 32; 98]
    (RNode 1 (mkSpan (mkPos 0 1 0) (mkPos 4 2 2)) None
       [RLeaf 1 (mkSpan (mkPos 0 1 0) (mkPos 1 1 1)) None [97];
        RLeaf 2 (mkSpan (mkPos 3 2 1) (mkPos 4 2 2)) (Some [10; 32]) [98]]) = true.
Proof. vm_compute. reflexivity. Qed.

(* Non-vacuity of model_roundtrip: the real table of S: 'a' B 'c'; B: EMPTY|'b';
   on the input "a c" with its measured recognizer table *)
Example model_roundtrip_nonvacuous :
  let inp := [97; 32; 99] in
  let mt := [(0, (0, [(1, 1)])); (1, (1, [])); (2, (0, [(3, 1)])); (3, (0, [(0, 0)]))] in
  let cfg := mkCfg false true true false in
  mt_ok_b inp mt = true /\ sound_b C02.ex_g C02.ex_T = true /\
  match bparse C02.ex_g C02.ex_T inp mt 30 cfg with
  | BOk t => lossless_b inp (resolve inp t) && spans_ok_b inp (resolve inp t) = true
  | _ => False
  end.
Proof. vm_compute. repeat split; reflexivity. Qed.
