(* C14 — the generic parse tree is lossless. Statements proved here: what the
   checker lossless_b (evaluated on every real tree) means, and the model's
   whitespace-skipping bookkeeping. The round trip as a theorem about the byte
   level model for ALL inputs is in Proofs/RoundTrip.v when present (see
   DESIGN.md: partial). *)
From RV Require Import Model.LR Model.LRBytes Model.CompareBytes Spec.TreeCheck Spec.SpanCheck Proofs.Lossless.

Theorem lossless_checker_meaning : forall inp t,
  lossless_b inp t = true ->
  leaves t = [] \/
  exists lf, last (leaves t) lf = lf /\ In lf (leaves t) /\
             flat_map leaf_text (leaves t) = firstn (p_off (sp_end (snd lf))) inp.
Proof. exact lossless_b_meaning. Qed.
Print Assumptions lossless_checker_meaning.

Theorem skip_stores_whitespace_run : forall inp mt cx,
  let n := ws_len mt (p_off (cx_pos cx)) in
  (n = 0 -> skip inp mt cx = mkCtx (cx_pos cx) (cx_span cx) None (cx_state cx)) /\
  (0 < n -> cx_layout (skip inp mt cx) = Some (p_off (cx_pos cx), n) /\
            p_off (cx_pos (skip inp mt cx)) = p_off (cx_pos cx) + length (sub inp (p_off (cx_pos cx), n)) /\
            cx_span (skip inp mt cx) = cx_span cx /\ cx_state (skip inp mt cx) = cx_state cx).
Proof. exact skip_spec. Qed.
Print Assumptions skip_stores_whitespace_run.

Example lossless_nonvacuous :
  lossless_b [97; 10; 32; 98]
    (RNode 1 (mkSpan (mkPos 0 1 0) (mkPos 4 2 2)) None
       [RLeaf 1 (mkSpan (mkPos 0 1 0) (mkPos 1 1 1)) None [97];
        RLeaf 2 (mkSpan (mkPos 3 2 1) (mkPos 4 2 2)) (Some [10; 32]) [98]]) = true.
Proof. vm_compute. reflexivity. Qed.
