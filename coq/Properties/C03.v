(* C03 — the GLR forest contains exactly the derivation trees of the input.
   Only statements here; proofs are in Proofs/Forest.v, Proofs/Enumerate.v,
   Proofs/Elide.v.

   PROVED (unbounded, for every forest value = every acyclic SPPF):
     forest_index_bijection, build_fuel_irrelevant, unfold_fuel_irrelevant;
     elide_canonical, tree_eq_mod_rn_equiv, forest_eq_mod_rn_sound;
     the oracle: all_trees_sound / all_trees_complete / all_trees_NoDup,
     oracle_exact (with the per-input certificate saturated_b),
     oracle_memo_exact (the memoised evaluation computes the same values),
     saturated_bounds_height; the scope tests: acyclic_b_sound, eps_unamb_b_sound.
   NOT PROVED: that the RNGLR reducer/shifter of glr/parser.rs puts every
   derivation into the forest exactly once.  That half is decided by running
   the real parser against the oracle above (gen/c03.py). *)
From Coq Require Import Permutation.
From RV Require Import Model.Forest Spec.Elide Spec.Enumerate Proofs.Forest Proofs.Enumerate Proofs.Elide Proofs.Acyclic.

Theorem forest_index_bijection : forall F : forest,
  length (enum_forest F) = forest_solutions F /\
  (forall i, tree_at F i =
             match nth_error (enum_forest F) i with Some x => Some (FDone x) | None => None end) /\
  (forall i, forest_solutions F <= i -> tree_at F i = None) /\
  (forall i, get_tree F i = None <-> forest_solutions F <= i) /\
  (forall fuel, forest_solutions F < fuel ->
                iter_collect fuel F 0 = (map FDone (enum_forest F), true)) /\
  (forall k, fst (iter_next F k) = None -> iter_next F k = (None, k)) /\
  (forest_distinct_b F = true -> NoDup (enum_forest F)).
Proof. exact forest_index_bijection_main. Qed.
Print Assumptions forest_index_bijection.

Theorem build_fuel_irrelevant : forall fuel t i x,
  depth t <= fuel -> nth_error (enum t) i = Some x -> build fuel t i = FDone x.
Proof. exact build_spec. Qed.
Print Assumptions build_fuel_irrelevant.

Theorem unfold_fuel_irrelevant : forall G fuel F,
  unfold_forest G fuel = Some F -> unfold_forest G (S fuel) = Some F.
Proof. exact unfold_forest_mono. Qed.
Print Assumptions unfold_fuel_irrelevant.

Theorem elide_canonical :
  (forall t, elide (elide t) = elide t) /\
  (forall t, yield (elide t) = yield t) /\
  (forall g t, root g (elide t) = root g t) /\
  (forall t1 t2, tree_eq_mod_rn t1 t2 <-> rn_eq t1 t2).
Proof. exact (conj elide_idem (conj elide_yield (conj elide_root elide_canonical_iff))). Qed.
Print Assumptions elide_canonical.

Theorem tree_eq_mod_rn_equiv :
  (forall t, tree_eq_mod_rn t t) /\
  (forall t1 t2, tree_eq_mod_rn t1 t2 -> tree_eq_mod_rn t2 t1) /\
  (forall t1 t2 t3, tree_eq_mod_rn t1 t2 -> tree_eq_mod_rn t2 t3 -> tree_eq_mod_rn t1 t3) /\
  (forall t1 t2, tree_eq_mod_rn_b t1 t2 = true <-> tree_eq_mod_rn t1 t2).
Proof.
  exact (conj tree_eq_mod_rn_refl (conj tree_eq_mod_rn_sym (conj tree_eq_mod_rn_trans tree_eq_mod_rn_b_spec))).
Qed.
Print Assumptions tree_eq_mod_rn_equiv.

Theorem forest_eq_mod_rn_sound : forall l1 l2,
  forest_eq_mod_rn_b l1 l2 = true -> Permutation (map elide l1) (map elide l2).
Proof. intros l1 l2 H. apply multiset_eqb_perm. exact H. Qed.
Print Assumptions forest_eq_mod_rn_sound.

Theorem all_trees_sound : forall h g X w t, In t (all_trees h g X w) ->
  valid_tree g t /\ root g t = X /\ yield t = w /\ height t <= h.
Proof. exact all_trees_sound_h. Qed.
Print Assumptions all_trees_sound.

Theorem all_trees_complete : forall h g X w t,
  valid_tree g t -> root g t = X -> yield t = w -> height t <= h -> In t (all_trees h g X w).
Proof. intros h g X w t Hv Hr Hy Hh. subst. apply all_trees_complete_h; assumption. Qed.
Print Assumptions all_trees_complete.

Theorem all_trees_NoDup : forall h g X w, NoDup (all_trees h g X w).
Proof. exact all_trees_NoDup_h. Qed.
Print Assumptions all_trees_NoDup.

(* with the certificate, the list is exactly the set of derivation trees of w
   from the start symbol, each once: its length is the number of distinct
   derivation trees, and it is non-empty iff w is a sentence *)
Theorem oracle_exact : forall h h' g w, h <= h' -> saturated_b h g w = true ->
  (forall t, In t (all_trees h' g (g_start g) w) <->
             (valid_tree g t /\ root g t = g_start g /\ yield t = w)) /\
  NoDup (all_trees h' g (g_start g) w) /\
  (all_trees h' g (g_start g) w <> [] <-> sentence g w).
Proof. exact oracle_exact_main. Qed.
Print Assumptions oracle_exact.

(* the memoised evaluation used by the check computes the same values *)
Theorem oracle_memo_exact : forall h g X w,
  oracle_m h g X w = (saturated_b h g w, all_trees (S h) g X w).
Proof. exact oracle_m_eq. Qed.
Print Assumptions oracle_memo_exact.

Theorem saturated_bounds_height : forall h g w, saturated_b h g w = true ->
  forall t, valid_tree g t -> (exists pre post, w = pre ++ yield t ++ post) -> height t <= h.
Proof. exact saturated_height. Qed.
Print Assumptions saturated_bounds_height.

Theorem eps_unamb_b_sound : forall g, eps_unamb_b g = true ->
  forall t1 t2, valid_tree g t1 -> valid_tree g t2 -> yield t1 = [] -> yield t2 = [] ->
                root g t1 = root g t2 -> t1 = t2.
Proof. exact eps_unamb_sound. Qed.
Print Assumptions eps_unamb_b_sound.

(* Non-vacuity: the REAL SPPF dumped for  E: E 'a' E | E 'b' E | 'c';  on the
   input  c a c b c  (two roots, shared sub-forests). *)
Definition ex_G := mkGForest
  [GNonTerm 2 [0; 6; 7]; GNonTerm 1 [1; 3; 4]; GNonTerm 3 [2]; GTerm 3; GTerm 1; GNonTerm 3 [5];
   GTerm 3; GTerm 2; GNonTerm 3 [8]; GTerm 3; GNonTerm 1 [1; 3; 9]; GNonTerm 2 [4; 10; 7]; GTerm 2]
  [[1]; [2]; [3]; [4]; [5]; [6]; [7]; [8]; [9]; [11]; [12]]
  [0; 10].
Definition ex_g := mkGrammar
  [mkTerm 100 ANone None; mkTerm 10 ANone (Some 1); mkTerm 10 ANone (Some 1); mkTerm 10 ANone (Some 1)] 3
  [mkProd 5 [6] 10 ANone false false; mkProd 6 [6; 1; 6] 10 ANone false false;
   mkProd 6 [6; 2; 6] 10 ANone false false; mkProd 6 [3] 10 ANone false false] None 6.

Example forest_index_bijection_nonvacuous :
  exists F, unfold_auto ex_G = Some F /\ forest_solutions F = 2 /\ forest_distinct_b F = true /\
    tree_at F 1 = Some (FDone (Node 1 [Node 3 [Leaf 3]; Leaf 1; Node 2 [Node 3 [Leaf 3]; Leaf 2; Node 3 [Leaf 3]]])) /\
    tree_at F 2 = None /\
    saturated_b 4 ex_g [3; 1; 3; 2; 3] = true /\
    forest_eq_mod_rn_b (enum_forest F) (all_trees 4 ex_g 6 [3; 1; 3; 2; 3]) = true.
Proof. eexists. vm_compute. repeat split; reflexivity. Qed.

(* FINDING (key forest-missing-tree), kernel-checked on the data dumped from the
   REAL parser:  S: A A A;  A: EMPTY | 'b' A;  input  b b b.  The grammar is in
   scope (acyclic, one derivation of the empty string per symbol), the real
   forest unfolds to 9 trees, all of them derivations, while the certified
   oracle has 10 derivation trees: the forest misses  S(A(b A(b A(b A()))))
   (glr/parser.rs 573-606 folds right-nulled solutions of one production that
   differ in length although they are different derivations). *)
Definition fw_g := mkGrammar [mkTerm 100 ANone None; mkTerm 10 ANone (Some 1); mkTerm 10 ANone (Some 1)] 4
  [mkProd 4 [5] 10 ANone false false; mkProd 5 [6; 6; 6] 10 ANone false false;
   mkProd 6 [] 10 ANone false false; mkProd 6 [2; 6] 10 ANone false false] None 5.
Definition fw_G := mkGForest
  [GNonTerm 1 [0; 5; 6]; GNonTerm 3 [1; 2]; GTerm 2; GNonTerm 3 [3; 4]; GTerm 2; GNonTerm 2 []; GNonTerm 2 [];
   GNonTerm 3 [7; 8]; GTerm 2; GNonTerm 2 []; GNonTerm 1 [9; 10; 6]; GNonTerm 2 []; GNonTerm 3 [11; 2]; GTerm 2;
   GNonTerm 1 [12; 14; 6]; GNonTerm 3 [1; 13]; GNonTerm 2 []; GNonTerm 3 [15; 4]; GTerm 2; GNonTerm 1 [12; 16; 17];
   GNonTerm 2 []; GNonTerm 3 [18; 19]; GTerm 2; GNonTerm 3 [20; 8]; GTerm 2; GNonTerm 1 [9; 21; 17];
   GNonTerm 3 [11; 13]; GNonTerm 1 [9; 22; 24]; GNonTerm 3 [11; 23]; GNonTerm 3 [3; 19]; GNonTerm 2 [];
   GNonTerm 1 [12; 25; 24]; GNonTerm 3 [15; 19]; GNonTerm 1 [0; 26; 24]; GNonTerm 3 [27; 8]; GTerm 2;
   GNonTerm 1 [9; 28; 29]; GNonTerm 2 []; GNonTerm 3 [30; 23]; GTerm 2]
  [[1]; [2]; [3]; [4]; [5]; [6]; [7]; [8]; [9]; [11]; [12]; [13]; [15]; [16]; [17]; [18]; [20]; [21]; [22]; [23];
   [24]; [26]; [28]; [29]; [30]; [32]; [34]; [35]; [37]; [38]; [39]]
  [0; 10; 14; 19; 25; 27; 31; 33; 36].

Example glr_forest_incomplete_witness :
  exists F, unfold_auto fw_G = Some F /\
    wf_grammar_b fw_g = true /\ acyclic_b fw_g = true /\ eps_unamb_b fw_g = true /\
    saturated_b 6 fw_g [2; 2; 2] = true /\
    forest_solutions F = 9 /\ length (all_trees 6 fw_g (g_start fw_g) [2; 2; 2]) = 10 /\
    forallb (fun t => rn_derivation_b fw_g t [2; 2; 2]) (enum_forest F) = true /\
    tree_memb (elide (Node 1 [Node 3 [Leaf 2; Node 3 [Leaf 2; Node 3 [Leaf 2; Node 2 []]]]; Node 2 []; Node 2 []]))
              (map elide (enum_forest F)) = false.
Proof. eexists. vm_compute. repeat split; reflexivity. Qed.

(* scope test: acyclic_b = true excludes cyclic derivations A =>+ A *)
Theorem acyclic_b_sound : forall g, acyclic_b g = true ->
  forall t t', valid_tree g t -> desc t' t -> root g t' = root g t -> yield t' = yield t -> False.
Proof. exact acyclic_b_sound_main. Qed.
Print Assumptions acyclic_b_sound.

(* ------------------------------------------------------------------ *)
(* The TABLE side of C03: the nondeterministic LR machine over the real
   multi-action, right-nulled table (Model/NLR.v: every action of a cell is a
   move; a right-nulled reduction completes its node with the derivations of the
   empty string of the nullable tail).  For every grammar and every table that
   passes the boolean [sound_rn_b] (evaluated on the REAL LALR_RN table of every
   generated grammar), EVERY accepting run returns a derivation tree of the
   consumed input: no run of the table - hence no tree a GLR parser can assemble
   from it by following its actions - is outside the set of derivation trees. *)
From RV Require Import Model.LR Model.NLR Spec.ValidatorsRN Proofs.SoundRN Proofs.CompleteRN.

Theorem nlr_sound : forall g T partial w t k,
  wf_grammar_b g = true -> sound_rn_b g T = true ->
  nrun g T partial (init 0 w) t k ->
  valid_tree g t /\ root g t = g_start g /\ yield t = firstn k w /\ k <= length w /\
  (partial = false -> ~ In STOP w -> k = length w).
Proof. exact nlr_sound_top. Qed.
Print Assumptions nlr_sound.

(* the executable enumeration of accepting runs lists only accepting runs, and all
   of them when no run was cut by the fuel *)
Theorem nruns_exact : forall g T partial fuel c t k,
  (In (t, k) (nruns g T partial fuel c) -> nrun g T partial c t k) /\
  (nruns_cut g T partial fuel c = false -> nrun g T partial c t k -> In (t, k) (nruns g T partial fuel c)).
Proof. exact nruns_exact_main. Qed.
Print Assumptions nruns_exact.

(* corollary used by the check: every tree the enumeration returns for a real table that
   validates is a derivation tree of the whole input (full parse, no STOP inside) *)
Corollary nparse_derivations : forall g T fuel w t k,
  wf_grammar_b g = true -> sound_rn_b g T = true -> ~ In STOP w ->
  In (t, k) (nparse g T false fuel w) ->
  valid_tree g t /\ root g t = g_start g /\ yield t = w.
Proof. exact nparse_derivations_main. Qed.
Print Assumptions nparse_derivations.

(* ... and conversely (for every table that also passes [complete_rn_b]): every derivation tree
   of a sentence is returned by some accepting run over its yield. *)
Theorem nlr_complete : forall g T t,
  wf_grammar_b g = true -> complete_rn_b g T = true ->
  valid_tree g t -> root g t = g_start g ->
  nrun g T false (init 0 (yield t)) t (length (yield t)).
Proof. exact nlr_complete_top. Qed.
Print Assumptions nlr_complete.

(* Together: the accepting runs of the nondeterministic machine over the REAL table are
   EXACTLY the derivation trees of the input.  What remains unproved for C03 is only that
   glr/parser.rs enumerates these runs (each once, up to the sharing of its forest). *)
Theorem nlr_exact : forall g T w t,
  wf_grammar_b g = true -> sound_rn_b g T = true -> complete_rn_b g T = true -> ~ In STOP w ->
  (nrun g T false (init 0 w) t (length w) <->
   valid_tree g t /\ root g t = g_start g /\ yield t = w).
Proof. exact nlr_exact_main. Qed.
Print Assumptions nlr_exact.

(* what the boolean rn_complete_b (evaluated on every real LALR_RN table) states: the table is
   RIGHT-NULLED - an item whose remaining symbols all derive the empty string reduces, with the
   length of what is before the dot, on each of its lookaheads.  glr/parser.rs relies on it (it
   does not re-apply reductions of length 0 over a new edge). *)
From RV Require Import Proofs.SafeRN.
Theorem rn_reductions_present : forall g T s st it a,
  rn_complete_b g T = true -> get_state T s = Some st -> In it (s_items st) ->
  is_aug_prod g (i_prod it) = false ->
  (forall X, In X (skipn (i_pos it) (rhs g (i_prod it))) -> In X (eps_ok_syms g)) ->
  In a (i_follow it) ->
  In (Reduce (i_prod it) (i_pos it)) (cell T s a).
Proof. exact rn_complete_meaning. Qed.
Print Assumptions rn_reductions_present.
