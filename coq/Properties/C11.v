(* C11 — the part of "generated code compiles" that is logic: the names the generator invents must be
   distinct. Choice names of one rule become enum variants and action function names
   (`<rule>_<choice>`), so two equal names make rustc reject the actions file (E0428).
   Model: Model/Names.v (grammar/types/mod.rs:448-474). Proofs: Proofs/Names.v.
   Everything else about C11 (rustc acceptance) is measured by gen/c11.py, level "other". *)
From RV Require Import Model.Names Proofs.Names.
From Coq Require Import Permutation.

(* The full statement "for every list of choice names and every HashMap iteration order the
   de-duplicated names are pairwise distinct" is FALSE of the faithful model: *)
Theorem choice_names_unique_refuted :
  exists order cs, NoDup order /\ (forall n, In n order <-> In n cs) /\ ~ NoDup (make_unique order cs).
Proof.
  exists ["X"; "X1"]%string, ["X"; "X"; "X1"]%string. split; [|split].
  - apply nodup_b_spec. vm_compute. reflexivity.
  - intros n. simpl. tauto.
  - intros H. apply nodup_b_spec in H. vm_compute in H. discriminate.
Qed.
Print Assumptions choice_names_unique_refuted.

(* KnownClass: some name that occurs more than once is a proper prefix of another name of the
   same rule. Outside it the result is duplicate-free for EVERY iteration order. *)
Definition KnownClass (cs : list string) : Prop := prefix_clash_b cs = true.

Theorem choice_names_unique_known : forall order cs,
  NoDup order -> (forall n, In n order <-> In n cs) ->
  ~ KnownClass cs -> NoDup (make_unique order cs).
Proof.
  intros order cs Hnd Hset Hk. apply choice_names_unique_known_main; [exact Hnd|exact Hset|].
  unfold KnownClass in Hk. destruct (prefix_clash_b cs); [exfalso; apply Hk; reflexivity|reflexivity].
Qed.
Print Assumptions choice_names_unique_known.

(* Inside the class the result also depends on the HashMap iteration order (F8, second half):
   [X; X; X1; X1] gives X11 X12 X13 X14-style names in one order and X1 X2 X11 X12 in the other. *)
Theorem choice_names_order_dependent :
  exists o1 o2 cs, Permutation o1 o2 /\ NoDup o1 /\ (forall n, In n o1 <-> In n cs) /\
                   make_unique o1 cs <> make_unique o2 cs.
Proof.
  exists ["X"; "X1"]%string, ["X1"; "X"]%string, ["X"; "X"; "X1"; "X1"]%string.
  split; [apply perm_swap|]. split; [apply nodup_b_spec; vm_compute; reflexivity|].
  split; [intros n; simpl; tauto|]. vm_compute. discriminate.
Qed.
Print Assumptions choice_names_order_dependent.

(* the witness of the refutation is in the class, and the class is decidable (KnownClass_b) *)
Example c11_nonvacuous :
  prefix_clash_b ["X"; "X"; "X1"]%string = true /\
  prefix_clash_b ["B"; "B"; "C"; "Empty"; "C"]%string = false /\
  make_unique ["Empty"; "C"; "B"]%string ["B"; "B"; "C"; "Empty"; "C"]%string
    = ["B1"; "B2"; "C1"; "Empty"; "C2"]%string /\
  make_unique ["X"; "X1"]%string ["X"; "X"; "X1"]%string = ["X1"; "X2"; "X1"]%string /\
  make_unique ["X"; "X1"]%string ["X"; "X"; "X1"; "X1"]%string = ["X11"; "X2"; "X12"; "X13"]%string /\
  make_unique ["X1"; "X"]%string ["X"; "X"; "X1"; "X1"]%string = ["X1"; "X2"; "X11"; "X12"]%string /\
  dec 12 = "12"%string.
Proof. vm_compute. repeat split; reflexivity. Qed.
