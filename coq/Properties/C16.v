(* C16 — the compiler is total: any grammar text gives a parser or a diagnostic.
   Statements about the grammar-builder model (Model/Builder.v mirrors rustemo-compiler/src/grammar/builder.rs at
   9193ac3 and the int_const action); the text parser, table construction and code generation are explored by
   gen/c16.py.  Only statements here; proofs are in Proofs/Builder*.v. *)
From Coq Require Import String NArith List.
From RV Require Import Model.Builder Spec.BuilderSpec Proofs.BuilderPanic Proofs.BuilderTotal Proofs.BuilderFuel
     Proofs.BuilderRegress.
Import ListNotations.
Local Open Scope string_scope.

(* builder_no_panic : forall file, build_grammar file <> BPanic _   is still FALSE:
   S: A {4294967296}; terminals A: 'a';   panics in int_const (rustemo_actions.rs:22) while the file is parsed *)
Theorem builder_no_panic_refuted :
  ast_shape_b w_int_overflow = true /\ KnownPanicClass w_int_overflow /\
  build_grammar rust_ident_ok w_int_overflow = BPanic PIntConst.
Proof. unfold KnownPanicClass. vm_compute. repeat split; reflexivity. Qed.
Print Assumptions builder_no_panic_refuted.

(* ... and that is the only one: outside the class (an integer literal above u32::MAX somewhere in the file) the
   builder never panics, whatever check_identifier answers. KnownPanicClass f  <->  negb (ints_ok f) = true. *)
Theorem builder_no_panic_known : forall ident_ok f,
  ast_shape_b f = true -> ~ KnownPanicClass f -> forall p, build_grammar ident_ok f <> BPanic p.
Proof.
  intros ident_ok f Hs Hk p. apply builder_no_panic_known_main; [exact Hs|].
  unfold KnownPanicClass, known_panic_class_b in Hk. destruct (cls_int_overflow f); [exfalso; apply Hk; reflexivity|reflexivity].
Qed.
Print Assumptions builder_no_panic_known.

Theorem known_panic_class_decidable : forall f, {KnownPanicClass f} + {~ KnownPanicClass f}.
Proof.
  intros f. unfold KnownPanicClass. destruct (known_panic_class_b f); [left; reflexivity|right; discriminate].
Qed.
Print Assumptions known_panic_class_decidable.

(* the panic of the class is int_const and nothing else *)
Theorem known_class_panic_site : forall ident_ok f p,
  ast_shape_b f = true -> build_grammar ident_ok f = BPanic p -> p = PIntConst.
Proof.
  intros ident_ok f p Hs H. destruct (cls_int_overflow f) eqn:E.
  - unfold build_grammar in H. unfold cls_int_overflow in E. rewrite E in H. inversion H; reflexivity.
  - exfalso. eapply builder_no_panic_known_main; eauto.
Qed.
Print Assumptions known_class_panic_site.

(* the fuel given to mark_reachable_symbols always suffices: every file gives a grammar, an error or that panic *)
Theorem builder_total : forall ident_ok f, build_grammar ident_ok f <> BOutOfFuel.
Proof. exact builder_total_main. Qed.
Print Assumptions builder_total.

(* Regression: the former witnesses of builder_no_panic_refuted now get diagnostics (Proofs/BuilderRegress.v) *)
Example former_panic_witnesses :
  build_grammar rust_ident_ok w_terminals_only = BError ENoRules /\
  build_grammar rust_ident_ok w_greedy = BError EGreedy /\
  build_grammar rust_ident_ok w_group = BError EGroup /\
  build_grammar rust_ident_ok w_group_rep = BError EGroup /\
  build_grammar rust_ident_ok w_modifiers = BError EModifiers /\
  build_grammar rust_ident_ok w_dup_terminal = BError (EDupTerminal "A") /\
  build_grammar rust_ident_ok w_helper_clash = BError (EHelperClash "AOpt" "A").
Proof. vm_compute. repeat split; reflexivity. Qed.

(* Non-vacuity: a file with sugar, separators, inline strings, meta-data and a Layout rule is outside the class
   and the model builds its grammar. *)
Definition ex_file : file :=
  mkFile (Some [mkRule None "S" [PMRight] [mkProduction [nref "A" (Some (mkRep OneOrMore (Some ["B"])));
                                                          ARef (mkRef (Some (GStr "c")) (Some (mkRep ZeroOrMore None)));
                                                          APlain "x" (mkRef (Some (GName "E")) (Some (mkRep Optional None)))] [PMPrio 5%N];
                                            mkProduction [nref "EMPTY" None] []];
                mkRule None "E" [] [mkProduction [nref "A" None; nref "E" None] [PMLeft]; mkProduction [nref "B" None] []];
                mkRule None "Layout" [] [mkProduction [nref "C" (Some (mkRep ZeroOrMore None))] []]])
         (Some [tA; tB; tC]).

Example builder_no_panic_known_nonvacuous :
  ast_shape_b ex_file = true /\ known_panic_class_b ex_file = false /\
  match build_grammar rust_ident_ok ex_file with
  | BDone g => length (bg_prods g) = 15 /\ length (bg_nonterms g) = 10
  | _ => False
  end.
Proof. vm_compute. repeat split; reflexivity. Qed.
