(* C06 — lexical ambiguity is resolved in the documented order of strategies.
   Statements only; proofs in Proofs/Lexer.v.

   Code side (Model/SortTerms.v, Model/Lexer.v):
     sort_flags ms terms     = LRTable::sort_terminals for the expected
                               terminals of one state (stable sort + finish flags)
     token_iter mlen sorted  = StringLexer's TokenIterator run to exhaustion
     lr_pick / glr_pick      = the filters of LRParser::next_token /
                               GlrParser::find_lookaheads
     lex_lr  ms lm terms mlen    = lr_pick lm (token_iter mlen (sort_flags ms terms))
     lex_glr ms lm go terms mlen = glr_pick lm go (token_iter mlen (sort_flags ms terms))
   Documentation side (Spec/LexSpec.v): select.
   [mlen] (measured match length per terminal) is universally quantified: the
   recognizers are not modelled; the only hypothesis on them is str_len_ok_b
   (a matching string recognizer matches its own length), measured by the check.

   The full statement holds since the repair of finding
   priority-group-finish-flag (TokenIterator stops at the end of a priority
   group also when the group's last terminal does not match); before it the
   statement was refuted by the witness f1_terms / f1_mlen below (now a
   regression example). The only side condition left is range_ok_b (finding
   strlen-sort-key-range, strlen_range_refuted). *)
From Coq Require Import Permutation Sorted.
From RV Require Import Model.SortTerms Spec.LexSpec Proofs.Lexer.

(* ---- the sort ---------------------------------------------------- *)

(* the model's sort is a permutation, sorted by the key (descending), stable *)
Theorem sort_stable_spec : forall ms terms,
  let key := fun x : nat * term => term_key ms (snd x) in
  let sorted := ssort key terms in
  Permutation terms sorted /\
  StronglySorted (fun a b => (key b <= key a)%N) sorted /\
  (forall k, filter (fun x => (key x =? k)%N) sorted = filter (fun x => (key x =? k)%N) terms).
Proof. exact sort_stable_spec_main. Qed.
Print Assumptions sort_stable_spec.

(* and any sorted arrangement that keeps equal keys in their original order is
   that list: whatever stable algorithm slice::sort_by uses, this is its result *)
Theorem sort_unique : forall (key : nat * term -> N) terms l',
  StronglySorted (fun a b => (key b <= key a)%N) l' ->
  (forall k, filter (fun x => (key x =? k)%N) l' = filter (fun x => (key x =? k)%N) terms) ->
  l' = ssort key terms.
Proof. intros key terms l'. exact (ssortN_unique key terms l'). Qed.
Print Assumptions sort_unique.

(* finish flags: most-specific string recognizers, and the element in front
   of every change of priority *)
Theorem sort_flags_spec : forall ms terms,
  let sorted := ssort (fun x : nat * term => term_key ms (snd x)) terms in
  length (sort_flags ms terms) = length sorted /\
  forall i x, nth_error sorted i = Some x ->
    nth_error (sort_flags ms terms) i =
    Some (fst x, (ms && is_str (snd x)) ||
                 match nth_error sorted (i + 1) with
                 | Some y => negb (t_prio (snd y) =? t_prio (snd x))
                 | None => false
                 end).
Proof. exact sort_flags_spec_main. Qed.
Print Assumptions sort_flags_spec.

(* a dumped table that passes sorted_ok_b has, in every state, exactly the
   model's list for the terminals with a non-empty cell, in grammar order *)
Theorem sorted_ok_states : forall g ms T st,
  sorted_ok_b g ms T = true -> In st (t_states T) ->
  exists terms,
    collect_terms g 0 (s_actions st) = Some terms /\
    s_sorted st = sort_flags ms terms /\
    StronglySorted lt (map fst terms) /\
    (forall idx t, In (idx, t) terms <->
       nth_error (g_terms g) idx = Some t /\
       exists c, nth_error (s_actions st) idx = Some c /\ c <> []).
Proof.
  intros g ms T st H Hin. destruct (sorted_ok_state g ms T st H Hin) as [terms [Hc Hs]].
  exists terms. split; [exact Hc|split; [exact Hs|split]].
  - exact (proj1 (collect_terms_order g (s_actions st) 0 terms Hc)).
  - intros idx t. rewrite (collect_terms_in g (s_actions st) 0 terms Hc idx t).
    rewrite Nat.sub_0_r. split; [tauto|]. intros H0. split; [apply Nat.le_0_l|exact H0].
Qed.
Print Assumptions sorted_ok_states.

(* ---- the rule ------------------------------------------------------- *)

Theorem lexer_lr_spec : forall ms lm terms mlen,
  range_ok_b ms terms = true -> str_len_ok_b terms mlen = true ->
  hd_error (select mlen (mkLexFlags ms lm true) terms) = lex_lr ms lm terms mlen.
Proof. exact lexer_lr_spec_main. Qed.
Print Assumptions lexer_lr_spec.

Theorem lexer_glr_spec : forall ms lm go terms mlen,
  range_ok_b ms terms = true -> str_len_ok_b terms mlen = true ->
  select mlen (mkLexFlags ms lm go) terms = lex_glr ms lm go terms mlen.
Proof. exact lexer_glr_spec_main. Qed.
Print Assumptions lexer_glr_spec.

(* in terms of a dumped table: what LRParser::next_token computes from the
   state's sorted_terminals (Model/LRBytes.v next_token) *)
Theorem lexer_lr_table : forall g ms T st lm mlen,
  sorted_ok_b g ms T = true -> In st (t_states T) ->
  exists terms,
    collect_terms g 0 (s_actions st) = Some terms /\
    (range_ok_b ms terms = true -> str_len_ok_b terms mlen = true ->
     hd_error (select mlen (mkLexFlags ms lm true) terms) =
     lr_pick lm (token_iter mlen (s_sorted st))).
Proof.
  intros g ms T st lm mlen H Hin. destruct (sorted_ok_state g ms T st H Hin) as [terms [Hc Hs]].
  exists terms. split; [exact Hc|]. rewrite Hs. apply lexer_lr_spec_main.
Qed.
Print Assumptions lexer_lr_table.

(* regression: the former witness A: /ab/ {15}; B: /zz/ {15}; C: /abc/; input
   "abc" (in the former known class) now yields A *)
Definition f1_terms : list (nat * term) :=
  [(1, mkTerm 15 ANone None); (2, mkTerm 15 ANone None); (3, mkTerm 10 ANone None)].
Definition f1_mlen (t : nat) : option nat :=
  match t with 1 => Some 2 | 3 => Some 3 | _ => None end.
Example f1_regression :
  known_class_b true f1_terms f1_mlen = true /\
  select f1_mlen (mkLexFlags true true true) f1_terms = [(1, 2)] /\
  lex_lr true true f1_terms f1_mlen = Some (1, 2) /\
  lex_glr true false false f1_terms f1_mlen = [(1, 2)].
Proof. vm_compute. repeat split; reflexivity. Qed.

(* ---- the range side condition is needed (finding strlen-sort-key-range) *)

(* a 1000-byte string recognizer of priority 10 beats a regex of priority 11;
   an empty string recognizer is not preferred over a regex *)
Theorem strlen_range_refuted :
  (exists terms mlen, str_len_ok_b terms mlen = true /\ known_class_b true terms mlen = false /\
     hd_error (select mlen (mkLexFlags true true true) terms) = Some (2, 1000) /\
     lex_lr true true terms mlen = Some (1, 1000)) /\
  (exists terms mlen, str_len_ok_b terms mlen = true /\ known_class_b true terms mlen = false /\
     hd_error (select mlen (mkLexFlags true true true) terms) = Some (2, 0) /\
     lex_lr true true terms mlen = Some (1, 1)).
Proof.
  split.
  - exists [(1, mkTerm 10 ANone (Some 1000)); (2, mkTerm 11 ANone None)],
           (fun t => match t with 1 => Some 1000 | 2 => Some 1000 | _ => None end).
    vm_compute. repeat split; reflexivity.
  - exists [(1, mkTerm 10 ANone None); (2, mkTerm 10 ANone (Some 0))],
           (fun t => match t with 1 => Some 1 | 2 => Some 0 | _ => None end).
    vm_compute. repeat split; reflexivity.
Qed.
Print Assumptions strlen_range_refuted.

(* ---- non-vacuity ---------------------------------------------------- *)

(* 'if' / 'iff' / /[a-z]+/ {5} / /[a-z]+x?/ on "iffy": hypotheses hold, several
   terminals match, two priority levels, the rule picks 'iff' with most
   specific on and the longest regex of priority 10 with it off *)
Example known_nonvacuous :
  let terms := [(1, mkTerm 10 ANone (Some 2)); (2, mkTerm 10 ANone (Some 3));
                (3, mkTerm 5 ANone None); (4, mkTerm 10 ANone None)] in
  let mlen := fun t => match t with 1 => Some 2 | 2 => Some 3 | 3 => Some 4 | 4 => Some 4 | _ => None end in
  range_ok_b true terms = true /\ str_len_ok_b terms mlen = true /\
  known_class_b true terms mlen = false /\ known_class_b false terms mlen = false /\
  lex_lr true true terms mlen = Some (2, 3) /\
  lex_lr false true terms mlen = Some (4, 4) /\
  lex_glr false false false terms mlen = [(1, 2); (2, 3); (4, 4)] /\
  sort_flags true terms = [(2, true); (1, true); (4, true); (3, false)].
Proof. vm_compute. repeat split; reflexivity. Qed.
