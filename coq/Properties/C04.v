(* C04 - the LR table is a faithful core-preserving compression of canonical LR(1).
   Statements only; proofs are in Proofs/Canon.v and Proofs/Compress.v.

   compress_b g C T is evaluated (vm_compute) on the real LALR, LALR_PAGER and LALR_RN tables
   (GLR algorithm, no shift preferences: unresolved cells) of every generated grammar, with
   C = the reference canonical LR(1) automaton [canonical g fuel] of Spec/Canonical.v. *)
From RV Require Import Spec.Canonical Proofs.Canon Proofs.Compress.

(* the checker is sound: a table that passes is a compression of C in the sense of the
   property's first sentence (relation R; h^-1(t) = { c | R c t }) *)
Theorem compress_sound : forall g C T, compress_b g C T = true -> Compresses g C T.
Proof. exact compress_sound_main. Qed.
Print Assumptions compress_sound.

(* (i) the representation is total on the reachable canonical states (onto is clause cb_onto) *)
Theorem compresses_total : forall g C T R, Compresses_by g C T R ->
  forall c, creach g C c -> exists t, R c t.
Proof. exact compresses_total_main. Qed.
Print Assumptions compresses_total.

(* every lookahead the table uses is an LALR(1) lookahead: it is a lookahead of the same item
   in a canonical state with the same core *)
Theorem lookaheads_are_lalr : forall g C T R, Compresses_by g C T R ->
  forall t p i a, t_item_la T t p i a ->
  exists c, R c t /\ In (p, i, a) (c_items C c) /\ same_core C T c t.
Proof. exact lookaheads_are_lalr_main. Qed.
Print Assumptions lookaheads_are_lalr.

(* no reduction is invented: a full-length reduce comes from a complete canonical item with that
   lookahead; a shorter one exists only with a right-nulled table, from position rn[p] on, the
   skipped suffix is nullable and the lookahead is a canonical lookahead of that item *)
Theorem no_invented_reduce : forall g C T R, Compresses_by g C T R ->
  forall t a p len, In (Reduce p len) (cell T t a) ->
  (len = length (rhs g p) /\ exists c, R c t /\ In (p, len, a) (c_items C c)) \/
  (len < length (rhs g p) /\ exists rn k, t_rn T = Some rn /\ nth_error rn p = Some k /\ k <= len /\
     nullable_seq g (skipn len (rhs g p)) /\
     exists c, R c t /\ In (p, len, a) (c_items C c)).
Proof. exact no_invented_reduce_main. Qed.
Print Assumptions no_invented_reduce.

(* LALR / LALR_PAGER: the table reduces by p on a in t exactly when one of the canonical states
   t stands for does *)
Theorem reduce_iff : forall g C T R, Compresses_by g C T R ->
  forall t a p, t_rn T = None -> t < length (t_states T) ->
  (In (Reduce p (length (rhs g p))) (cell T t a) <->
   is_aug_prod g p = false /\ exists c, R c t /\ In (p, length (rhs g p), a) (c_items C c)).
Proof. exact reduce_iff_main. Qed.
Print Assumptions reduce_iff.

(* an LALR(1) grammar compiles without conflicts under every (non right-nulled) table type:
   if merging ALL same-core canonical states yields no cell with two actions, no cell of T has two *)
Theorem lalr_grammar_no_conflict : forall g C T R, Compresses_by g C T R ->
  t_rn T = None -> lalr_conflict_free g C -> forall t a, length (cell T t a) <= 1.
Proof. exact lalr_grammar_no_conflict_main. Qed.
Print Assumptions lalr_grammar_no_conflict.

(* the executable LALR(1) test used by the check is sound *)
Theorem lalr_test_sound : forall g C, lalr_conflict_free_b g C = true -> lalr_conflict_free g C.
Proof. exact lalr_conflict_free_b_sound. Qed.
Print Assumptions lalr_test_sound.

(* what gen/c04.py evaluates, end to end *)
Theorem lalr_checked_no_conflict : forall g C T,
  compress_b g C T = true -> lalr_conflict_free_b g C = true -> t_rn T = None ->
  forall t a, length (cell T t a) <= 1.
Proof.
  intros g C T Hc Hl Hrn. destruct (compress_sound_main g C T Hc) as [R HR].
  exact (lalr_grammar_no_conflict_main g C T R HR Hrn (lalr_conflict_free_b_sound g C Hl)).
Qed.
Print Assumptions lalr_checked_no_conflict.

(* our nullable fixpoint (used for the right-nulled lengths) computes nullability *)
Theorem nullable_set_correct : forall g N, nullable_set g = Some N ->
  forall X, In X N <-> nullable_sym g X.
Proof. exact nullable_set_spec. Qed.
Print Assumptions nullable_set_correct.

(* nullable_sym (inductive, used by rn_least and FIRST) is: derives the empty string *)
Theorem nullable_sym_tree : forall g X,
  nullable_sym g X <-> exists t, valid_tree g t /\ root g t = X /\ yield t = [].
Proof. exact nullable_sym_tree_main. Qed.
Print Assumptions nullable_sym_tree.

(* The reference construction: whenever it returns an automaton (None = out of fuel), that
   automaton is the canonical LR(1) automaton of g in the sense of [is_canonical]:
   - state 0 is exactly the closure of {[AUG -> . start, STOP]} (state 1 that of the Layout
     start item when the grammar has a Layout rule); closure = LEAST set closed under the
     LR(1) closure rule, with FIRST/nullable defined inductively from the grammar alone;
   - for every state c and symbol X: if some item of c has X after the dot, goto(c, X) is a
     state whose items are exactly the closure of the advanced items; otherwise there is no
     transition on X;
   - every state is reachable from a root;
   and its states are pairwise distinct as item SETS. *)
Theorem canon_is_canonical : forall g fuel C, canonical g fuel = Some C ->
  is_canonical g C /\
  (forall c1 c2, c1 < c_n C -> c2 < c_n C ->
     (forall x, In x (c_items C c1) <-> In x (c_items C c2)) -> c1 = c2).
Proof.
  intros g fuel C H. split; [exact (canon_is_canonical_main g fuel C H)|exact (canon_states_distinct_main g fuel C H)].
Qed.
Print Assumptions canon_is_canonical.

(* what one evaluation of the check establishes for one real table *)
Theorem c04_validated : forall g fuel C T,
  canonical g fuel = Some C -> compress_b g C T = true -> is_canonical g C /\ Compresses g C T.
Proof.
  intros g fuel C T H1 H2. split; [exact (canon_is_canonical_main g fuel C H1)|exact (compress_sound_main g C T H2)].
Qed.
Print Assumptions c04_validated.

(* our FIRST fixpoint computes FIRST (given a correct nullable set) *)
Theorem first_table_correct : forall g N F,
  (forall X, In X N <-> nullable_sym g X) -> first_table g N = Some F ->
  forall X a, In a (fst_of F X) <-> first_sym g X a.
Proof. intros g N F HN H. exact (first_table_spec g N HN F H). Qed.
Print Assumptions first_table_correct.

(* Non-vacuity on real tables: Dragon book 4.55 (LALR but not SLR; 14 canonical states are
   compressed to 10) and a right-nulled table. *)
(* S: L Ta R | R; L: Tb R | Tc; R: L; terminals Ta: 'a'; Tb: 'b'; Tc: 'c'; Td: 'd'; , table type LALR *)
Definition ex_g := mkGrammar [mkTerm 100 ANone (None); mkTerm 10 ANone (Some 1); mkTerm 10 ANone (Some 1);
  mkTerm 10 ANone (Some 1); mkTerm 10 ANone (Some 1)] 5 [mkProd 6 [7] 10 ANone false false; mkProd 7 [8; 1; 9]
  10 ANone false false; mkProd 7 [9] 10 ANone false false; mkProd 8 [2; 9] 10 ANone false false; mkProd 8 [3]
  10 ANone false false; mkProd 9 [8] 10 ANone false false] (None) 7.
Definition ex_T := mkTable [mkState 6 [mkItem 0 0 [0]; mkItem 1 0 [0]; mkItem 2 0 [0]; mkItem 3 0 [0; 1];
  mkItem 4 0 [0; 1]; mkItem 5 0 [0]] [[]; []; [Shift 1]; [Shift 2]; []] [None; None; Some 3; Some 4; Some 5]
  [(2, true); (3, true)] [(2, 10); (3, 10)]; mkState 2 [mkItem 3 1 [0; 1]; mkItem 5 0 [0; 1]; mkItem 3 0 [0;
  1]; mkItem 4 0 [0; 1]] [[]; []; [Shift 1]; [Shift 2]; []] [None; None; None; Some 6; Some 7] [(2, true); (3,
  true)] [(2, 10); (3, 10)]; mkState 3 [mkItem 4 1 [0; 1]] [[Reduce 4 1]; [Reduce 4 1]; []; []; []] [None;
  None; None; None; None] [(0, true); (1, true)] []; mkState 7 [mkItem 0 1 [0]] [[Accept]; []; []; []; []]
  [None; None; None; None; None] [(0, false)] []; mkState 8 [mkItem 1 1 [0]; mkItem 5 1 [0]] [[Reduce 5 1];
  [Shift 8]; []; []; []] [None; None; None; None; None] [(0, true); (1, true)] [(1, 10)]; mkState 9 [mkItem 2
  1 [0]] [[Reduce 2 1]; []; []; []; []] [None; None; None; None; None] [(0, false)] []; mkState 8 [mkItem 5 1
  [0; 1]] [[Reduce 5 1]; [Reduce 5 1]; []; []; []] [None; None; None; None; None] [(0, true); (1, true)] [];
  mkState 9 [mkItem 3 2 [0; 1]] [[Reduce 3 2]; [Reduce 3 2]; []; []; []] [None; None; None; None; None] [(0,
  true); (1, true)] []; mkState 1 [mkItem 1 2 [0]; mkItem 5 0 [0]; mkItem 3 0 [0]; mkItem 4 0 [0]] [[]; [];
  [Shift 1]; [Shift 2]; []] [None; None; None; Some 6; Some 9] [(2, true); (3, true)] [(2, 10); (3, 10)];
  mkState 9 [mkItem 1 3 [0]] [[Reduce 1 3]; []; []; []; []] [None; None; None; None; None] [(0, false)] []]
  (None) [[0]; [1]; [2]; [3]; [4]; [5]; [2; 3]; [2; 3]; [2; 3]; [2; 3]] (None).

Example c04_nonvacuous :
  exists C, canonical ex_g 100 = Some C /\ compress_b ex_g C ex_T = true /\
            lalr_conflict_free_b ex_g C = true /\ c_n C = 14 /\ length (t_states ex_T) = 10.
Proof. eexists. split; [vm_compute; reflexivity|]. vm_compute. repeat split; reflexivity. Qed.

(* S: Ta A B; A: EMPTY | Tb; B: EMPTY | Tc; terminals Ta: 'a'; Tb: 'b'; Tc: 'c'; , table type LALR_RN *)
Definition ex_rn_g := mkGrammar [mkTerm 100 ANone (None); mkTerm 10 ANone (Some 1); mkTerm 10 ANone (Some
  1); mkTerm 10 ANone (Some 1)] 5 [mkProd 5 [6] 10 ANone false false; mkProd 6 [1; 7; 8] 10 ANone false false;
  mkProd 7 [] 10 ANone false false; mkProd 7 [2] 10 ANone false false; mkProd 8 [] 10 ANone false false;
  mkProd 8 [3] 10 ANone false false] (None) 6.
Definition ex_rn_T := mkTable [mkState 5 [mkItem 0 0 [0]; mkItem 1 0 [0]] [[]; [Shift 1]; []; []] [None;
  None; Some 2; None; None] [(1, true)] [(1, 10)]; mkState 1 [mkItem 1 1 [0]; mkItem 2 0 [0; 3]; mkItem 3 0
  [0; 3]] [[Reduce 1 1; Reduce 2 0]; []; [Shift 3]; [Reduce 2 0]] [None; None; None; Some 4; None] [(0, true);
  (2, true); (3, true)] [(2, 10)]; mkState 6 [mkItem 0 1 [0]] [[Accept]; []; []; []] [None; None; None; None;
  None] [(0, false)] []; mkState 2 [mkItem 3 1 [0; 3]] [[Reduce 3 1]; []; []; [Reduce 3 1]] [None; None; None;
  None; None] [(0, true); (3, true)] []; mkState 7 [mkItem 1 2 [0]; mkItem 4 0 [0]; mkItem 5 0 [0]] [[Reduce 1
  2; Reduce 4 0]; []; []; [Shift 5]] [None; None; None; None; Some 6] [(0, true); (3, true)] [(3, 10)];
  mkState 3 [mkItem 5 1 [0]] [[Reduce 5 1]; []; []; []] [None; None; None; None; None] [(0, false)] [];
  mkState 8 [mkItem 1 3 [0]] [[Reduce 1 3]; []; []; []] [None; None; None; None; None] [(0, false)] []] (None)
  [[0]; [1]; [2]; [3]; [4]; [1]; [1]; [2; 4]; [3; 4]] (Some [1; 1; 0; 1; 0; 1]).

Example c04_nonvacuous_rn :
  exists C, canonical ex_rn_g 100 = Some C /\ compress_b ex_rn_g C ex_rn_T = true /\
            In (Reduce 1 1) (cell ex_rn_T 1 0) /\ length (rhs ex_rn_g 1) = 3.
Proof. eexists. split; [vm_compute; reflexivity|]. vm_compute. repeat split; try reflexivity. left; reflexivity. Qed.
