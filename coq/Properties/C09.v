(* C09 — the grammar the compiler analyses is the grammar the user wrote.
   Statements about Model/Builder.v (`build_grammar`, a literal mirror of GrammarBuilder, tied to the code by
   gen/c09.py) over ALL grammar-file ASTs and every answer of check_identifier.
   Only statements here; proofs are in Proofs/Builder*.v, Proofs/Sugar*.v. *)
From Coq Require Import String NArith List.
From RV Require Import Spec.Grammar Model.Builder Spec.BuilderSpec Proofs.Builder Proofs.BuilderC09 Proofs.SugarLang
     Proofs.BuilderSugarMain Proofs.BuilderRegress.
Import ListNotations.
Local Open Scope string_scope.

(* index allocation across interleaved helper rules: production i is at position i *)
Theorem prod_index_is_position : forall ident_ok f g,
  build_grammar ident_ok f = BDone g -> forall i p, nth_error (bg_prods g) i = Some p -> op_idx p = i.
Proof. exact prod_index_is_position_main. Qed.
Print Assumptions prod_index_is_position.

(* the start symbol is the nonterminal named like the first rule *)
Theorem start_is_first_rule : forall ident_ok f g r0 rest,
  build_grammar ident_ok f = BDone g -> f_rules f = Some (r0 :: rest) ->
  exists o, In o (bg_nonterms g) /\ on_name o = r_name r0 /\ bg_start g = bg_empty g + on_idx o.
Proof. exact start_is_first_rule_main. Qed.
Print Assumptions start_is_first_rule.

(* the non-helper productions, in order, are exactly the alternatives in order; each carries the alternative's
   assignments in order with EMPTY references removed, every sugared reference replaced by the helper's name
   (M: inline string -> terminal declared with that string) *)
Theorem alt_one_production : forall ident_ok f g,
  build_grammar ident_ok f = BDone g ->
  alt_coords (bg_prods g) = rules_coords 0 (file_rules f) /\
  exists M,
    (forall s tn i, sm_get s M = Some (tn, i) ->
                    exists t, In t (bg_terms g) /\ ot_rec t = Some (RStr s) /\ ot_name t = tn /\ ot_idx t = i) /\
    forall p i j, In p (bg_prods g) -> op_origin p = OAlt i j ->
      exists r alt, nth_error (file_rules f) i = Some r /\ nth_error (r_rhs r) j = Some alt /\
        op_ntidx p = j /\
        map (fun x => Some x) (combine (op_assign p) (op_syms p)) = map (spec_assign M) (alt_assigns alt).
Proof. exact alt_one_production_main. Qed.
Print Assumptions alt_one_production.

(* an inline 'lit' has the index of a terminal declared with that literal *)
Theorem inline_string_resolves : forall ident_ok f g,
  build_grammar ident_ok f = BDone g ->
  forall p k lit i, In p (bg_prods g) ->
    nth_error (op_syms p) k = Some (GStr lit) -> nth_error (op_rhs p) k = Some i ->
    exists t, In t (bg_terms g) /\ ot_idx t = i /\ ot_rec t = Some (RStr lit).
Proof. exact inline_string_resolves_main. Qed.
Print Assumptions inline_string_resolves.

(* priority, kind, nops, nopse, associativity and user keys: the production's own value, else the rule's, else the
   default (associativity: the production's own left / right if it gives either key, else the rule's) *)
Theorem meta_inheritance : forall ident_ok f g,
  build_grammar ident_ok f = BDone g ->
  forall p i j, In p (bg_prods g) -> op_origin p = OAlt i j ->
    exists r alt, nth_error (file_rules f) i = Some r /\ nth_error (r_rhs r) j = Some alt /\
      let own := pmeta_map (pr_meta alt) in
      let rm := pmeta_map (r_meta r) in
      op_prio p = spec_prio own rm /\ op_kind p = spec_kind own rm /\
      op_nops p = spec_nops own rm /\ op_nopse p = spec_nopse own rm /\
      op_assoc p = spec_assoc own rm /\
      (forall k, ~ In k reserved_keys -> sm_get k (op_meta p) = inherit_get own rm k).
Proof. exact meta_inheritance_main. Qed.
Print Assumptions meta_inheritance.

(* one name, one symbol: all identical uses `X op` are the reference GName (X ++ suffix) (alt_one_production)
   and therefore the same helper symbol *)
Theorem helper_shared : forall ident_ok f g,
  build_grammar ident_ok f = BDone g ->
  forall p q k k' n i i', In p (bg_prods g) -> In q (bg_prods g) ->
    nth_error (op_syms p) k = Some (GName n) -> nth_error (op_rhs p) k = Some i ->
    nth_error (op_syms q) k' = Some (GName n) -> nth_error (op_rhs q) k' = Some i' ->
    i = i'.
Proof. exact helper_shared_main. Qed.
Print Assumptions helper_shared.

(* sugar_language (full since 8b45135 / 5a1b817): on EVERY successful build, every use `X op [Sep]` (op one of ? * +)
   in every alternative is, at its position in the alternative's production, the helper symbol N named X1 / X0 / XOpt, and
     - sugar_doc:  N has EXACTLY the documented productions (N: N [Sep] X | X;  N: X | EMPTY;  N: X1 | EMPTY with X1 as
       before) with the separator of THIS use, no other production has N on its left, X / Sep being the symbols
       the names resolve to;
     - sugar_lang: N derives exactly  X ([Sep] X)*  /  eps | X ([Sep] X)*  /  eps | X   (Spec.Grammar derivation trees).
   M maps an inline string to the terminal declared with it. *)
Theorem sugar_language : forall ident_ok f g,
  build_grammar ident_ok f = BDone g ->
  exists M,
    (forall s tn i, sm_get s M = Some (tn, i) ->
                    exists t, In t (bg_terms g) /\ ot_rec t = Some (RStr s) /\ ot_name t = tn /\ ot_idx t = i) /\
    forall p i j r alt k a op,
      In p (bg_prods g) -> op_origin p = OAlt i j ->
      nth_error (file_rules f) i = Some r -> nth_error (r_rhs r) j = Some alt ->
      nth_error (alt_assigns alt) k = Some a -> sr_rep (assign_ref a) = Some op ->
      exists b N, use_base M (assign_ref a) = Some b /\
                  nth_error (op_syms p) k = Some (GName (nt_name b (rep_op op))) /\
                  nth_error (op_rhs p) k = Some N /\
                  sugar_doc g N b (rep_op op) (use_sep (assign_ref a)) /\
                  sugar_lang g N b (rep_op op) (use_sep (assign_ref a)).
Proof.
  intros ident_ok f g H. destruct (sugar_language_main ident_ok f g H) as [M [HM Huse]]. exists M. split; [exact HM|].
  intros p i j r alt k a op H1 H2 H3 H4 H5 H6. destruct (Huse p i j r alt k a op H1 H2 H3 H4 H5 H6) as [b [N [G1 [G2 [G3 G4]]]]].
  exists b, N. repeat split; try assumption. apply sugar_doc_lang. exact G4.
Qed.
Print Assumptions sugar_language.

(* the generic part: a nonterminal with the documented productions has the documented language *)
Theorem sugar_expansion_languages : forall g,
  (forall N X sep, one_or_more_prods g N X sep -> forall w, derives g N w <-> seplist g X sep w) /\
  (forall N X, optional_prods g N X -> forall w, derives g N w <-> (w = [] \/ derives g X w)) /\
  (forall N0 N1 X sep, zero_or_more_prods g N0 N1 -> one_or_more_prods g N1 X sep ->
                       forall w, derives g N0 w <-> (w = [] \/ seplist g X sep w)).
Proof.
  intros g. split; [exact (plus_language g)|split; [exact (optional_language g)|exact (star_language g)]].
Qed.
Print Assumptions sugar_expansion_languages.

(* Regression: the former refutation witnesses (F4, associativity) on the repaired builder *)
Example former_refutations :
  build_grammar rust_ident_ok f4_file = BError (ESepConflict "A") /\
  build_grammar rust_ident_ok f4_star_file = BError (ESepConflict "A") /\
  build_grammar rust_ident_ok w_helper_rule = BError (EHelperClash "A1" "A") /\
  match build_grammar rust_ident_ok assoc_file with
  | BDone g => map op_assoc (bg_prods g) = [ANone; ALeft; ARight]
  | _ => False
  end.
Proof. vm_compute. repeat split; reflexivity. Qed.

(* Non-vacuity: a file with every construct builds; its 15 productions carry the expected data. *)
Definition ex_file : file :=
  mkFile (Some [mkRule None "S" [PMRight; PMUser "doc" (CStr "x")]
                  [mkProduction [ARef (mkRef (Some (GName "A")) (Some (mkRep OneOrMore (Some ["B"]))));
                                 ARef (mkRef (Some (GStr "c")) (Some (mkRep ZeroOrMore None)));
                                 APlain "x" (mkRef (Some (GName "E")) (Some (mkRep Optional None)))] [PMPrio 5%N];
                   mkProduction [ARef (mkRef (Some (GName "EMPTY")) None)] []];
                mkRule None "E" [] [mkProduction [ARef (mkRef (Some (GName "A")) None); ABool "more" (mkRef (Some (GName "E")) None)] [PMLeft];
                                    mkProduction [ARef (mkRef (Some (GStr "b")) None)] []];
                mkRule None "Layout" [] [mkProduction [ARef (mkRef (Some (GName "C")) (Some (mkRep ZeroOrMore None)))] []]])
         (Some [mkTermRule None "A" (Some (RStr "a")) []; mkTermRule None "B" (Some (RStr "b")) [TMPrio 15%N; TMLeft];
                mkTermRule None "C" (Some (RStr "c")) []]).

Example c09_nonvacuous :
  match build_grammar rust_ident_ok ex_file with
  | BDone g =>
      map op_idx (bg_prods g) = seq 0 15 /\
      alt_coords (bg_prods g) = [(0, 0); (0, 1); (1, 0); (1, 1); (2, 0)] /\
      map op_rhs (bg_prods g) = [[7]; [13]; [8; 10; 11]; [8; 2; 1]; [1]; [9; 3]; [3]; [9]; []; [12]; []; []; [1; 12]; [2]; [10]] /\
      map op_assoc (bg_prods g) = [ANone; ANone; ARight; ANone; ANone; ANone; ANone; ANone; ANone; ANone; ANone; ARight; ALeft; ANone; ANone]
  | _ => False
  end.
Proof. vm_compute. repeat split; reflexivity. Qed.
