(* C12 — syntax errors point at the first offending token; sentences never
   error. LR half, token level, for every validated table.
   Proved: an error at token k means the offending token cannot continue ANY
   sentence starting with the tokens before it (no late acceptance of a bad
   token is hidden: nothing after token k was looked at); the end-of-input
   case; sentences never error (C01); the expected list is non-empty.
   the k tokens before the error are a viable prefix (no LATE detection):
   error_prefix_viable; both halves together: error_is_first_offender. The real
   LR and GLR runtimes are additionally compared with an Earley viable-prefix
   oracle in gen/c12.py. *)
From RV Require Import Model.LR Spec.Validators Proofs.Sound Proofs.Complete Proofs.ErrorPos Proofs.Viable.
From RV Require Properties.C01.

Theorem error_no_continuation : forall g T fuel w k ex,
  wf_grammar_b g = true -> complete_b g T = true ->
  parse g T false fuel w = Err k ex ->
  (k < length w -> forall v, ~ sentence g (firstn (S k) w ++ v)) /\
  (k = length w -> ~ sentence g w).
Proof. intros g T fuel w k ex Hwf Hc H. exact (error_no_continuation_main g T Hwf Hc fuel w k ex H). Qed.
Print Assumptions error_no_continuation.

Theorem sentence_never_errors : forall g T w fuel k ex,
  wf_grammar_b g = true -> complete_b g T = true -> sentence g w ->
  parse g T false fuel w <> Err k ex.
Proof. exact C01.sentence_never_errors. Qed.
Print Assumptions sentence_never_errors.

Theorem expected_nonempty : forall g T partial w fuel k ex,
  sound_b g T = true -> has_actions_b T = true ->
  parse g T partial fuel w = Err k ex -> ex <> [].
Proof. intros g T partial w fuel k ex Hs Ha H. exact (expected_nonempty_main g T Hs Ha partial w fuel k ex H). Qed.
Print Assumptions expected_nonempty.

(* the error index never exceeds the input length and is where the run stopped *)
Theorem error_index_in_range : forall g T partial fuel w k ex,
  sound_b g T = true ->
  parse g T partial fuel w = Err k ex -> k <= length w.
Proof. intros g T partial fuel w k ex Hs H. exact (error_index_in_range_main g T Hs partial w fuel k ex H). Qed.
Print Assumptions error_index_in_range.

(* no LATE detection: the k tokens before the error are a viable prefix (they
   begin some sentence), for every table passing sound_b and viable_b (all
   symbols productive, every closure item justified by an earlier item of its
   state, no empty state) *)
Theorem error_prefix_viable : forall g T partial fuel w k ex,
  wf_grammar_b g = true -> sound_b g T = true -> viable_b g T = true ->
  parse g T partial fuel w = Err k ex ->
  exists v, sentence g (firstn k w ++ v).
Proof.
  intros g T partial fuel w k ex Hwf Hs Hv H.
  exact (error_prefix_viable_main g T Hwf Hs Hv partial fuel w k ex H).
Qed.
Print Assumptions error_prefix_viable.

(* both halves: the error index is exactly the first token that cannot
   continue any sentence beginning with the tokens before it *)
Theorem error_is_first_offender : forall g T fuel w k ex,
  wf_grammar_b g = true -> sound_b g T = true -> complete_b g T = true -> viable_b g T = true ->
  parse g T false fuel w = Err k ex ->
  (exists v, sentence g (firstn k w ++ v)) /\
  (k < length w -> forall v, ~ sentence g (firstn (S k) w ++ v)) /\
  (k = length w -> ~ sentence g w).
Proof.
  intros g T fuel w k ex Hwf Hs Hc Hv H. split.
  - exact (error_prefix_viable_main g T Hwf Hs Hv false fuel w k ex H).
  - exact (error_no_continuation_main g T Hwf Hc fuel w k ex H).
Qed.
Print Assumptions error_is_first_offender.

Example c12_nonvacuous :
  parse C02.ex_g C02.ex_T false 20 [1; 1] = Err 1 [2; 3] /\ has_actions_b C02.ex_T = true /\
  viable_b C02.ex_g C02.ex_T = true /\ complete_b C02.ex_g C02.ex_T = true.
Proof. vm_compute. repeat split; reflexivity. Qed.

(* ------------------------------------------------------------------ *)
(* The GLR side at the level of the TABLE (Model/NLR.v, the nondeterministic LR
   machine over the multi-action right-nulled table; [nreach]: a prefix of a run).
   For every table passing sound_rn_b, complete_rn_b and viable_b (evaluated on
   the REAL LALR_RN tables, gen/c12.py): the token counts some run can reach are
   EXACTLY the lengths of the viable prefixes of the input.  So no head of a GLR
   parser following the table gets past a non-viable prefix (no late detection)
   and some head consumes every viable prefix (no early death): the furthest
   frontier is the first token that cannot continue any sentence.
   NOT proved: that glr/parser.rs explores the runs of its table (decided by the
   Earley oracle on the real parser's error positions). *)
From RV Require Import Model.NLR Spec.ValidatorsRN Proofs.ViableRN.

Theorem glr_heads_viable : forall g T partial w c,
  wf_grammar_b g = true -> sound_rn_b g T = true -> viable_b g T = true ->
  nreach g T partial (init 0 w) c -> exists v, sentence g (firstn (c_pos c) w ++ v).
Proof. exact nlr_prefix_viable_top. Qed.
Print Assumptions glr_heads_viable.

Theorem glr_viable_prefix_reached : forall g T w k v,
  wf_grammar_b g = true -> complete_rn_b g T = true ->
  k <= length w -> sentence g (firstn k w ++ v) ->
  exists c, nreach g T false (init 0 w) c /\ c_pos c = k.
Proof. exact nlr_viable_reached_top. Qed.
Print Assumptions glr_viable_prefix_reached.

Theorem glr_positions_exact : forall g T w k,
  wf_grammar_b g = true -> sound_rn_b g T = true -> complete_rn_b g T = true -> viable_b g T = true ->
  ((exists c, nreach g T false (init 0 w) c /\ c_pos c = k) <->
   (k <= length w /\ exists v, sentence g (firstn k w ++ v))).
Proof. exact nlr_positions_exact. Qed.
Print Assumptions glr_positions_exact.
