(* C05 — conflicts resolve by the documented priority / associativity /
   prefer-shift rules.

   Model/Resolve.v mirrors LRTable::calculate_reductions (table/mod.rs:758-908)
   cell by cell; Spec/ResolveSpec.v is the documented decision table [decide];
   [decide_impl] is [decide] with the terminal-level associativity flipped.
   Only statements here; proofs are in Proofs/Resolve.v.

   Two parts of the property are FALSE of the faithful model (and of the real
   compiler, see gen/c05.py which replays the witnesses on it):
     * terminal-level associativity is read the wrong way round
       (sr_cell_spec_refuted / sr_cell_spec_known, key terminal-assoc-inverted);
     * "resolving never aborts the compiler": a cell holding a Shift and a
       reduction that receives a winning reduction hits assert!(actions.len() == 1)
       (resolve_no_panic_refuted / resolve_no_panic_known, key three-way-assert). *)
From RV Require Import Model.Resolve Spec.ResolveSpec Proofs.Resolve.

(* ---- shift/reduce: what the code computes, for every priority, flag and cell ---- *)

(* A cell holding exactly one Shift/Accept receives Reduce(p,len): the result is the
   documented table applied to the terminal associativity flipped. *)
Theorem sr_cell_impl : forall g cfg maxprio a p len prod_len pr tm sh sprio,
  get_prod g p = Some pr -> nth_error (g_terms g) a = Some tm ->
  is_shiftlike sh = true -> shift_prio maxprio a sh = Some sprio ->
  add_reduce g cfg maxprio a p len prod_len [sh] =
  MDone (apply_decision
           (decide_impl (p_prio pr) sprio (p_assoc pr) (t_assoc tm) (rhs_is_empty pr)
                        (rs_prefer_shifts cfg) (rs_prefer_shifts_over_empty cfg) (p_nops pr) (p_nopse pr))
           sh (Reduce p len)).
Proof. exact sr_cell_impl_main. Qed.
Print Assumptions sr_cell_impl.

(* The property as documented holds for every conflict that is not decided by a
   terminal-level associativity. *)
Theorem sr_cell_spec_known : forall g cfg maxprio a p len prod_len pr tm sh sprio,
  get_prod g p = Some pr -> nth_error (g_terms g) a = Some tm ->
  is_shiftlike sh = true -> shift_prio maxprio a sh = Some sprio ->
  term_assoc_decides_b (p_prio pr) sprio (t_assoc tm) = false ->
  add_reduce g cfg maxprio a p len prod_len [sh] =
  MDone (apply_decision
           (decide (p_prio pr) sprio (p_assoc pr) (t_assoc tm) (rhs_is_empty pr)
                   (rs_prefer_shifts cfg) (rs_prefer_shifts_over_empty cfg) (p_nops pr) (p_nopse pr))
           sh (Reduce p len)).
Proof. exact sr_cell_spec_known_main. Qed.
Print Assumptions sr_cell_spec_known.

(* ... and fails for EVERY conflict that is: terminal `left`/`reduce` keeps the shift,
   terminal `right`/`shift` keeps the reduction. *)
Theorem sr_cell_spec_class_differs : forall g cfg maxprio a p len prod_len pr tm sh sprio,
  get_prod g p = Some pr -> nth_error (g_terms g) a = Some tm ->
  is_shiftlike sh = true -> shift_prio maxprio a sh = Some sprio ->
  term_assoc_decides_b (p_prio pr) sprio (t_assoc tm) = true ->
  add_reduce g cfg maxprio a p len prod_len [sh] <>
  MDone (apply_decision
           (decide (p_prio pr) sprio (p_assoc pr) (t_assoc tm) (rhs_is_empty pr)
                   (rs_prefer_shifts cfg) (rs_prefer_shifts_over_empty cfg) (p_nops pr) (p_nopse pr))
           sh (Reduce p len)) /\
  add_reduce g cfg maxprio a p len prod_len [sh] =
  MDone (match t_assoc tm with ALeft => [sh] | _ => [Reduce p len] end).
Proof. exact sr_cell_class_differs_main. Qed.
Print Assumptions sr_cell_spec_class_differs.

(* witness: state 4, terminal '+' of the real table of  E: E '+' E | 'n';  '+' {left}
   (ex_g1 / ex_T1 below): the documentation prescribes the reduction, the cell keeps the shift *)
Definition ex_g1 := mkGrammar [mkTerm 100 ANone (None); mkTerm 10 ALeft (Some 1); mkTerm 10 ANone (Some 1)] 3
  [mkProd 4 [5] 10 ANone false false; mkProd 5 [5; 1; 5] 10 ANone false false; mkProd 5 [2] 10 ANone false false] (None) 5.
Definition ex_T1 := mkTable
  [mkState 4 [mkItem 0 0 [0]; mkItem 1 0 [0; 1]; mkItem 2 0 [0; 1]] [[]; []; [Shift 1]] [None; None; Some 2] [(2, true)] [(2, 10)];
   mkState 2 [mkItem 2 1 [0; 1]] [[Reduce 2 1]; [Reduce 2 1]; []] [None; None; None] [(0, true); (1, true)] [];
   mkState 5 [mkItem 0 1 [0]; mkItem 1 1 [0; 1]] [[Accept]; [Shift 3]; []] [None; None; None] [(0, true); (1, true)] [(1, 10)];
   mkState 1 [mkItem 1 2 [0; 1]; mkItem 1 0 [0; 1]; mkItem 2 0 [0; 1]] [[]; []; [Shift 1]] [None; None; Some 4] [(2, true)] [(2, 10)];
   mkState 5 [mkItem 1 3 [0; 1]; mkItem 1 1 [0; 1]] [[Reduce 1 3]; [Shift 3]; []] [None; None; None] [(0, true); (1, true)] [(1, 10)]]
  (None) [[0]; [1]; [2]; [3]; [2]; [2]] (None).
Definition ex_cfg_lr := mkRS false true false.

Theorem sr_cell_spec_refuted : exists g cfg maxprio a p len prod_len pr tm sh sprio,
  get_prod g p = Some pr /\ nth_error (g_terms g) a = Some tm /\
  is_shiftlike sh = true /\ shift_prio maxprio a sh = Some sprio /\
  add_reduce g cfg maxprio a p len prod_len [sh] <>
  MDone (apply_decision
           (decide (p_prio pr) sprio (p_assoc pr) (t_assoc tm) (rhs_is_empty pr)
                   (rs_prefer_shifts cfg) (rs_prefer_shifts_over_empty cfg) (p_nops pr) (p_nopse pr))
           sh (Reduce p len)).
Proof.
  exists ex_g1, ex_cfg_lr, [(1, 10)], 1, 1, 3, 3,
         (mkProd 5 [5; 1; 5] 10 ANone false false), (mkTerm 10 ALeft (Some 1)), (Shift 3), 10.
  vm_compute. repeat split; discriminate.
Qed.
Print Assumptions sr_cell_spec_refuted.

(* the keywords (lang/rustemo_actions.rs: left = reduce, right = shift) *)
Theorem sr_prod_keyword : forall g cfg maxprio a p len prod_len pr tm sh sprio k,
  get_prod g p = Some pr -> nth_error (g_terms g) a = Some tm ->
  is_shiftlike sh = true -> shift_prio maxprio a sh = Some sprio ->
  p_prio pr = sprio -> t_assoc tm = ANone -> p_assoc pr = assoc_of_keyword k ->
  add_reduce g cfg maxprio a p len prod_len [sh] =
  MDone (match k with KwLeft | KwReduce => [Reduce p len] | KwRight | KwShift => [sh] end).
Proof. exact sr_prod_keyword_main. Qed.
Print Assumptions sr_prod_keyword.

Theorem sr_term_keyword : forall g cfg maxprio a p len prod_len pr tm sh sprio k,
  get_prod g p = Some pr -> nth_error (g_terms g) a = Some tm ->
  is_shiftlike sh = true -> shift_prio maxprio a sh = Some sprio ->
  p_prio pr = sprio -> t_assoc tm = assoc_of_keyword k ->
  add_reduce g cfg maxprio a p len prod_len [sh] =
  MDone (match k with KwLeft | KwReduce => [sh] | KwRight | KwShift => [Reduce p len] end).
Proof. exact sr_term_keyword_main. Qed.
Print Assumptions sr_term_keyword.

(* the same for a cell that already holds reductions next to its one Shift/Accept *)
Theorem sr_cell_general : forall g cfg maxprio a p len prod_len acts pr tm sh sprio,
  get_prod g p = Some pr -> nth_error (g_terms g) a = Some tm ->
  filter is_shiftlike acts = [sh] -> shift_prio maxprio a sh = Some sprio ->
  add_reduce g cfg maxprio a p len prod_len acts =
  match decide_impl (p_prio pr) sprio (p_assoc pr) (t_assoc tm) (rhs_is_empty pr)
                    (rs_prefer_shifts cfg) (rs_prefer_shifts_over_empty cfg) (p_nops pr) (p_nopse pr) with
  | KeepShift => MDone acts
  | KeepReduce =>
      if length acts =? 1 then MDone [Reduce p len]
      else MPanic (if p_prio pr =? sprio then 821 else 851)
  | KeepBoth => rr_step g cfg pr (Reduce p len) prod_len acts (filter is_reduce acts)
  end.
Proof. exact add_reduce_one_shift. Qed.
Print Assumptions sr_cell_general.

(* ---- reduce/reduce ---- *)

Theorem rr_cell_impl : forall g cfg maxprio a p len prod_len acts pr tm,
  get_prod g p = Some pr -> nth_error (g_terms g) a = Some tm ->
  acts <> [] -> reduces_wf g acts ->
  add_reduce g cfg maxprio a p len prod_len acts =
  MDone (apply_rr (decide_rr (p_prio pr) (map (action_prio g) acts) (rs_glr cfg))
                  (0 <? prod_len) acts (Reduce p len)).
Proof. exact rr_cell_impl_main. Qed.
Print Assumptions rr_cell_impl.

(* strictly lower priority than every reduction in the cell: dropped; strictly higher:
   replaces them all; otherwise GLR keeps everything and LR keeps non-empty over empty *)
Theorem rr_cell_spec : forall g cfg maxprio a p len prod_len acts pr tm,
  get_prod g p = Some pr -> nth_error (g_terms g) a = Some tm ->
  acts <> [] -> reduces_wf g acts ->
  ((forall x, In x acts -> p_prio pr < action_prio g x) ->
     add_reduce g cfg maxprio a p len prod_len acts = MDone acts) /\
  ((forall x, In x acts -> action_prio g x < p_prio pr) ->
     add_reduce g cfg maxprio a p len prod_len acts = MDone [Reduce p len]) /\
  ((exists x, In x acts /\ action_prio g x <= p_prio pr) ->
   (exists x, In x acts /\ p_prio pr <= action_prio g x) ->
     add_reduce g cfg maxprio a p len prod_len acts =
     MDone (if rs_glr cfg then acts ++ [Reduce p len]
            else
              let kept := filter (fun x => negb (is_empty_reduction x)) acts in
              if (0 <? prod_len) || (match kept with [] => true | _ => false end)
              then kept ++ [Reduce p len] else kept)).
Proof. exact rr_cell_cases_main. Qed.
Print Assumptions rr_cell_spec.

(* ---- the shift priority ---- *)

(* max_prior_for_term[a] (as computed by group_per_next_symbol from the items of the
   state) is the maximum priority of the productions having terminal a right after the
   dot; there is no entry iff no item has a after its dot *)
Theorem shift_prio_is_max : forall g items a,
  a < g_nterm g ->
  match alookup a (maxprio_of_items g items) with
  | None => forall it, In it items -> symbol_at_position g it <> Some a
  | Some m =>
      (exists it pr, In it items /\ symbol_at_position g it = Some a /\
                     get_prod g (i_prod it) = Some pr /\ p_prio pr = m) /\
      (forall it pr, In it items -> symbol_at_position g it = Some a ->
                     get_prod g (i_prod it) = Some pr -> p_prio pr <= m)
  end.
Proof. intros g items a Ha. exact (shift_prio_is_max_main g items a Ha). Qed.
Print Assumptions shift_prio_is_max.

(* ---- resolution only removes candidates ---- *)

Theorem resolve_subset : forall g cfg maxprio a p len prod_len acts acts',
  add_reduce g cfg maxprio a p len prod_len acts = MDone acts' ->
  forall x, In x acts' -> In x acts \/ x = Reduce p len.
Proof. exact add_reduce_subset. Qed.
Print Assumptions resolve_subset.

(* ---- "resolving never aborts the compiler" ---- *)

(* FALSE: the real items of state 1 of  S: E; E: E '+' E | X | Y; X: 'a' '+'?; Y: 'a' {15};
   (GLR, LALR_RN): cell '+' is [Shift 6; Reduce 5 1] when Reduce 8 1 of priority 15 arrives *)
Definition ex_g5 := mkGrammar [mkTerm 100 ANone (None); mkTerm 10 ANone (Some 1); mkTerm 10 ANone (Some 1)] 7
  [mkProd 4 [5] 10 ANone false false; mkProd 5 [6] 10 ANone false false; mkProd 6 [6; 1; 6] 10 ANone false false;
   mkProd 6 [7] 10 ANone false false; mkProd 6 [9] 10 ANone false false; mkProd 7 [2; 8] 10 ANone false false;
   mkProd 8 [1] 10 ANone false false; mkProd 8 [] 10 ANone false false; mkProd 9 [2] 15 ANone false false] (None) 5.
Definition ex_cfg_glr := mkRS false false true.

Theorem resolve_no_panic_refuted : exists g cfg maxprio a p len prod_len acts,
  cell_wf_b g maxprio a p acts = true /\
  add_reduce g cfg maxprio a p len prod_len acts = MPanic 851.
Proof.
  exists ex_g5, ex_cfg_glr, [(1, 10)], 1, 8, 1, 1, [Shift 6; Reduce 5 1].
  vm_compute. split; reflexivity.
Qed.
Print Assumptions resolve_no_panic_refuted.

(* outside the three-way class no cell that the table construction can produce panics *)
Theorem resolve_no_panic_known : forall g cfg maxprio a p len prod_len acts,
  cell_wf_b g maxprio a p acts = true ->
  three_way_b g maxprio a p acts = false ->
  exists acts', add_reduce g cfg maxprio a p len prod_len acts = MDone acts'.
Proof. exact no_panic_known_main. Qed.
Print Assumptions resolve_no_panic_known.

(* inside it every cell panics, at one of the two asserts *)
Theorem three_way_panics : forall g cfg maxprio a p len prod_len acts,
  cell_wf_b g maxprio a p acts = true ->
  three_way_b g maxprio a p acts = true ->
  add_reduce g cfg maxprio a p len prod_len acts = MPanic 821 \/
  add_reduce g cfg maxprio a p len prod_len acts = MPanic 851.
Proof. exact three_way_panics_main. Qed.
Print Assumptions three_way_panics.

(* the panic! at line 869 is dead; every panic is one of these sites, for arbitrary input *)
Theorem resolve_panic_sites : forall g cfg maxprio a p len prod_len acts s,
  add_reduce g cfg maxprio a p len prod_len acts = MPanic s ->
  In s [765; 782; 796; 805; 821; 851; 867].
Proof. exact panic_sites_main. Qed.
Print Assumptions resolve_panic_sites.

(* state level: starting from the cells calc_states leaves (one Shift per terminal after a dot),
   with max_prior_for_term computed from the items, a state whose items pass the checker
   state_wf_b (productions exist, lookaheads are terminals, at most one complete augmented item,
   no explicit STOP; evaluated on every state of every real dump by gen/c05.py) can only abort
   at the three-way assert *)
Theorem state_panic_only_three_way : forall g cfg rn st real s,
  state_wf_b g rn st = true ->
  calc_reductions_state g cfg rn st (maxprio_of_items g (s_items st)) (init_cells g st real) = RPanic s ->
  s = 821 \/ s = 851.
Proof. exact state_panic_only_three_way_main. Qed.
Print Assumptions state_panic_only_three_way.

(* ---- non-vacuity on real dumps ---- *)

(* the model reproduces every cell and max_prior_for_term of the real table ex_T1 *)
Example resolve_ok_nonvacuous : resolve_ok_b ex_g1 ex_cfg_lr ex_T1 = true.
Proof. vm_compute. reflexivity. Qed.

(* the real table of the F5 grammar without its priority (the real compile of ex_g5 panics
   and leaves no table); on its state 1 the model panics at the same assert *)
Definition ex_T5 := mkTable
  [mkState 4 [mkItem 0 0 [0]; mkItem 1 0 [0]; mkItem 2 0 [0; 1]; mkItem 3 0 [0; 1]; mkItem 4 0 [0; 1]; mkItem 5 0 [0; 1]; mkItem 8 0 [0; 1]] [[]; []; [Shift 1]] [None; None; Some 2; Some 3; Some 4; None; Some 5] [(2, true)] [(2, 10)];
   mkState 2 [mkItem 5 1 [0; 1]; mkItem 8 1 [0; 1]; mkItem 6 0 [0; 1]; mkItem 7 0 [0; 1]] [[Reduce 5 1; Reduce 8 1; Reduce 7 0]; [Shift 6; Reduce 5 1; Reduce 8 1; Reduce 7 0]; []] [None; None; None; None; None; Some 7; None] [(0, true); (1, true)] [(1, 10)];
   mkState 5 [mkItem 0 1 [0]] [[Accept]; []; []] [None; None; None; None; None; None; None] [(0, false)] [];
   mkState 6 [mkItem 1 1 [0]; mkItem 2 1 [0; 1]] [[Reduce 1 1]; [Shift 8]; []] [None; None; None; None; None; None; None] [(0, true); (1, true)] [(1, 10)];
   mkState 7 [mkItem 3 1 [0; 1]] [[Reduce 3 1]; [Reduce 3 1]; []] [None; None; None; None; None; None; None] [(0, true); (1, true)] [];
   mkState 9 [mkItem 4 1 [0; 1]] [[Reduce 4 1]; [Reduce 4 1]; []] [None; None; None; None; None; None; None] [(0, true); (1, true)] [];
   mkState 1 [mkItem 6 1 [0; 1]] [[Reduce 6 1]; [Reduce 6 1]; []] [None; None; None; None; None; None; None] [(0, true); (1, true)] [];
   mkState 8 [mkItem 5 2 [0; 1]] [[Reduce 5 2]; [Reduce 5 2]; []] [None; None; None; None; None; None; None] [(0, true); (1, true)] [];
   mkState 1 [mkItem 2 2 [0; 1]; mkItem 2 0 [0; 1]; mkItem 3 0 [0; 1]; mkItem 4 0 [0; 1]; mkItem 5 0 [0; 1]; mkItem 8 0 [0; 1]] [[]; []; [Shift 1]] [None; None; None; Some 9; Some 4; None; Some 5] [(2, true)] [(2, 10)];
   mkState 6 [mkItem 2 3 [0; 1]; mkItem 2 1 [0; 1]] [[Reduce 2 3]; [Shift 8; Reduce 2 3]; []] [None; None; None; None; None; None; None] [(0, true); (1, true)] [(1, 10)]]
  (None) [[0]; [1]; [2]; [3]; [2]; [2]; [2]; [2]; [1; 3]; [2]] (Some [1; 1; 3; 1; 1; 1; 1; 0; 1]).

Example three_way_real_state :
  first_panic ex_g5 ex_cfg_glr (t_rn ex_T5) (t_states ex_T5) 0 = Some (1, 851) /\
  three_way_b ex_g5 [(1, 10)] 1 8 [Shift 6; Reduce 5 1] = true /\
  forallb (state_wf_b ex_g5 (t_rn ex_T5)) (t_states ex_T5) = true /\
  forallb (state_wf_b ex_g1 (t_rn ex_T1)) (t_states ex_T1) = true.
Proof. vm_compute. repeat split; reflexivity. Qed.
