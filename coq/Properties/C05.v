(* C05 — conflicts resolve by the documented priority / associativity /
   prefer-shift rules.

   Model/Resolve.v mirrors LRTable::calculate_reductions (table/mod.rs, /repo HEAD
   757ab19, i.e. with the repairs 3487517 — terminal-level associativity — and
   a50fbd6 — no assert when a reduction overrides a shift in a cell that already
   holds a reduction) cell by cell; Spec/ResolveSpec.v is the documented decision
   table [decide]. Only statements here; proofs are in Proofs/Resolve.v.
   All theorems are full statements: nothing is refuted any more; the former
   counterexamples are kept below as regression Examples on the real tables the
   repaired compiler produces. *)
From RV Require Import Model.Resolve Spec.ResolveSpec Proofs.Resolve.

(* ---- shift/reduce: for every priority, flag and cell ---- *)

(* A cell holding exactly one Shift/Accept [sh] receives Reduce(p,len): the result is
   exactly what the documented table prescribes: higher priority wins; on equal priority
   the associativity decides, the terminal's overriding the production's, left keeps the
   reduction and right keeps the shift; otherwise prefer_shifts / prefer_shifts_over_empty
   keep the shift unless nops / nopse; otherwise both stay. Accept competes with
   DEFAULT_PRIORITY, a Shift with max_prior_for_term. *)
Theorem sr_cell_spec : forall g cfg maxprio a p len prod_len pr tm sh sprio,
  get_prod g p = Some pr -> nth_error (g_terms g) a = Some tm ->
  is_shiftlike sh = true -> shift_prio maxprio a sh = Some sprio ->
  add_reduce g cfg maxprio a p len prod_len [sh] =
  MDone (apply_decision
           (decide (p_prio pr) sprio (p_assoc pr) (t_assoc tm) (rhs_is_empty pr)
                   (rs_prefer_shifts cfg) (rs_prefer_shifts_over_empty cfg) (p_nops pr) (p_nopse pr))
           sh (Reduce p len)).
Proof. exact sr_cell_spec_main. Qed.
Print Assumptions sr_cell_spec.

(* the keywords (lang/rustemo_actions.rs: left = reduce, right = shift), on productions ... *)
Theorem sr_prod_keyword : forall g cfg maxprio a p len prod_len pr tm sh sprio k,
  get_prod g p = Some pr -> nth_error (g_terms g) a = Some tm ->
  is_shiftlike sh = true -> shift_prio maxprio a sh = Some sprio ->
  p_prio pr = sprio -> t_assoc tm = ANone -> p_assoc pr = assoc_of_keyword k ->
  add_reduce g cfg maxprio a p len prod_len [sh] =
  MDone (match k with KwLeft | KwReduce => [Reduce p len] | KwRight | KwShift => [sh] end).
Proof. exact sr_prod_keyword_main. Qed.
Print Assumptions sr_prod_keyword.

(* ... and on terminals, whatever the production says *)
Theorem sr_term_keyword : forall g cfg maxprio a p len prod_len pr tm sh sprio k,
  get_prod g p = Some pr -> nth_error (g_terms g) a = Some tm ->
  is_shiftlike sh = true -> shift_prio maxprio a sh = Some sprio ->
  p_prio pr = sprio -> t_assoc tm = assoc_of_keyword k ->
  add_reduce g cfg maxprio a p len prod_len [sh] =
  MDone (match k with KwLeft | KwReduce => [Reduce p len] | KwRight | KwShift => [sh] end).
Proof. exact sr_term_keyword_main. Qed.
Print Assumptions sr_term_keyword.

(* a cell that already holds reductions next to its one Shift/Accept: the shift wins and
   the cell is unchanged; or the reduction wins, the Shift/Accept is removed and the
   reductions of the cell meet the new one in the reduce/reduce step; or nothing decides
   and the whole cell meets the new one in the reduce/reduce step *)
Theorem sr_cell_general : forall g cfg maxprio a p len prod_len acts pr tm sh sprio,
  get_prod g p = Some pr -> nth_error (g_terms g) a = Some tm ->
  filter is_shiftlike acts = [sh] -> shift_prio maxprio a sh = Some sprio ->
  add_reduce g cfg maxprio a p len prod_len acts =
  match decide (p_prio pr) sprio (p_assoc pr) (t_assoc tm) (rhs_is_empty pr)
               (rs_prefer_shifts cfg) (rs_prefer_shifts_over_empty cfg) (p_nops pr) (p_nopse pr) with
  | KeepShift => MDone acts
  | KeepReduce =>
      rr_step g cfg pr (Reduce p len) prod_len (filter is_reduce acts) (filter is_reduce acts)
  | KeepBoth => rr_step g cfg pr (Reduce p len) prod_len acts (filter is_reduce acts)
  end.
Proof. exact add_reduce_one_shift. Qed.
Print Assumptions sr_cell_general.

(* three-way conflict won by the incoming reduction: same result as for the cell of
   reductions alone (rr_cell_spec then says what that is) *)
Theorem sr_three_way : forall g cfg maxprio a p len prod_len acts pr tm sh sprio,
  get_prod g p = Some pr -> nth_error (g_terms g) a = Some tm ->
  filter is_shiftlike acts = [sh] -> shift_prio maxprio a sh = Some sprio ->
  decide (p_prio pr) sprio (p_assoc pr) (t_assoc tm) (rhs_is_empty pr)
         (rs_prefer_shifts cfg) (rs_prefer_shifts_over_empty cfg) (p_nops pr) (p_nopse pr) = KeepReduce ->
  filter is_reduce acts <> [] ->
  add_reduce g cfg maxprio a p len prod_len acts =
  add_reduce g cfg maxprio a p len prod_len (filter is_reduce acts).
Proof. exact sr_three_way_main. Qed.
Print Assumptions sr_three_way.

(* ---- reduce/reduce ---- *)

Theorem rr_cell_impl : forall g cfg maxprio a p len prod_len acts pr tm,
  get_prod g p = Some pr -> nth_error (g_terms g) a = Some tm ->
  acts <> [] -> reduces_wf g acts ->
  add_reduce g cfg maxprio a p len prod_len acts =
  MDone (apply_rr (decide_rr (p_prio pr) (map (action_prio g) acts) (rs_glr cfg))
                  (0 <? prod_len) acts (Reduce p len)).
Proof. exact rr_cell_impl_main. Qed.
Print Assumptions rr_cell_impl.

(* strictly lower priority than every reduction in the cell: dropped; strictly higher:
   replaces them all; otherwise GLR keeps everything and LR keeps non-empty over empty *)
Theorem rr_cell_spec : forall g cfg maxprio a p len prod_len acts pr tm,
  get_prod g p = Some pr -> nth_error (g_terms g) a = Some tm ->
  acts <> [] -> reduces_wf g acts ->
  ((forall x, In x acts -> p_prio pr < action_prio g x) ->
     add_reduce g cfg maxprio a p len prod_len acts = MDone acts) /\
  ((forall x, In x acts -> action_prio g x < p_prio pr) ->
     add_reduce g cfg maxprio a p len prod_len acts = MDone [Reduce p len]) /\
  ((exists x, In x acts /\ action_prio g x <= p_prio pr) ->
   (exists x, In x acts /\ p_prio pr <= action_prio g x) ->
     add_reduce g cfg maxprio a p len prod_len acts =
     MDone (if rs_glr cfg then acts ++ [Reduce p len]
            else
              let kept := filter (fun x => negb (is_empty_reduction x)) acts in
              if (0 <? prod_len) || (match kept with [] => true | _ => false end)
              then kept ++ [Reduce p len] else kept)).
Proof. exact rr_cell_cases_main. Qed.
Print Assumptions rr_cell_spec.

(* ---- the shift priority ---- *)

(* max_prior_for_term[a] (as computed by group_per_next_symbol from the items of the
   state) is the maximum priority of the productions having terminal a right after the
   dot; there is no entry iff no item has a after its dot *)
Theorem shift_prio_is_max : forall g items a,
  a < g_nterm g ->
  match alookup a (maxprio_of_items g items) with
  | None => forall it, In it items -> symbol_at_position g it <> Some a
  | Some m =>
      (exists it pr, In it items /\ symbol_at_position g it = Some a /\
                     get_prod g (i_prod it) = Some pr /\ p_prio pr = m) /\
      (forall it pr, In it items -> symbol_at_position g it = Some a ->
                     get_prod g (i_prod it) = Some pr -> p_prio pr <= m)
  end.
Proof. intros g items a Ha. exact (shift_prio_is_max_main g items a Ha). Qed.
Print Assumptions shift_prio_is_max.

(* ---- resolution only removes candidates ---- *)

Theorem resolve_subset : forall g cfg maxprio a p len prod_len acts acts',
  add_reduce g cfg maxprio a p len prod_len acts = MDone acts' ->
  forall x, In x acts' -> In x acts \/ x = Reduce p len.
Proof. exact add_reduce_subset. Qed.
Print Assumptions resolve_subset.

(* ---- resolving never aborts the compiler ---- *)

(* For every cell the table construction can produce — cell_wf_b: the production and the
   terminal exist, the cell holds at most one Shift/Accept (the assert!(shifts.len() <= 1)),
   a Shift has its entry in max_prior_for_term, the reductions already in the cell name
   existing productions — add_reduce returns a cell. *)
Theorem resolve_no_panic : forall g cfg maxprio a p len prod_len acts,
  cell_wf_b g maxprio a p acts = true ->
  exists acts', add_reduce g cfg maxprio a p len prod_len acts = MDone acts'.
Proof. exact no_panic_main. Qed.
Print Assumptions resolve_no_panic.

(* for arbitrary (also ill-formed) input every panic is one of these five sites; the
   panic!("This should not happen") on a non-Reduce action (P_NOT_REDUCE) is dead code *)
Theorem resolve_panic_sites : forall g cfg maxprio a p len prod_len acts s,
  add_reduce g cfg maxprio a p len prod_len acts = MPanic s ->
  In s [P_PROD; P_TERM; P_SHIFTS; P_MAXPRIO; P_RPROD].
Proof. exact panic_sites_main. Qed.
Print Assumptions resolve_panic_sites.

(* each of the five is reachable when the corresponding clause of cell_wf_b is dropped, so
   none of the hypotheses of resolve_no_panic is superfluous *)
Definition ex_gs := mkGrammar [mkTerm 100 ANone None; mkTerm 10 ANone (Some 1)] 3
  [mkProd 3 [4] 10 ANone false false; mkProd 4 [1] 10 ANone false false] None 4.
Theorem resolve_no_panic_hypotheses_needed :
  add_reduce ex_gs (mkRS false true false) [] 1 7 1 1 [] = MPanic P_PROD /\
  add_reduce ex_gs (mkRS false true false) [] 5 1 1 1 [] = MPanic P_TERM /\
  add_reduce ex_gs (mkRS false true false) [(1, 10)] 1 1 1 1 [Shift 2; Shift 3] = MPanic P_SHIFTS /\
  add_reduce ex_gs (mkRS false true false) [] 1 1 1 1 [Shift 2] = MPanic P_MAXPRIO /\
  add_reduce ex_gs (mkRS false true false) [] 1 1 1 1 [Reduce 9 1] = MPanic P_RPROD.
Proof. vm_compute. repeat split; reflexivity. Qed.
Print Assumptions resolve_no_panic_hypotheses_needed.

(* state level: starting from the cells calc_states leaves (one Shift per terminal after a dot),
   with max_prior_for_term computed from the items, calculate_reductions completes every state
   whose items pass the checker state_wf_b (productions exist, lookaheads are terminals, at most
   one complete augmented item, no explicit STOP; evaluated on every state of every real dump by
   gen/c05.py) *)
Theorem state_no_panic : forall g cfg rn st real,
  state_wf_b g rn st = true ->
  exists cells,
    calc_reductions_state g cfg rn st (maxprio_of_items g (s_items st)) (init_cells g st real) = RDone cells.
Proof. exact state_no_panic_main. Qed.
Print Assumptions state_no_panic.

(* ---- regression examples: the former counterexamples on the repaired compiler's real tables ---- *)

(* E: E '+' E | 'n';  '+' {left}  (LR, LALR_PAGER): state 4, terminal '+' now holds the reduction *)
Definition ex_g1 := mkGrammar [mkTerm 100 ANone (None); mkTerm 10 ALeft (Some 1); mkTerm 10 ANone (Some 1)] 3
  [mkProd 4 [5] 10 ANone false false; mkProd 5 [5; 1; 5] 10 ANone false false; mkProd 5 [2] 10 ANone false false] (None) 5.
Definition ex_T1 := mkTable
  [mkState 4 [mkItem 0 0 [0]; mkItem 1 0 [0; 1]; mkItem 2 0 [0; 1]] [[]; []; [Shift 1]] [None; None; Some 2] [(2, true)] [(2, 10)];
   mkState 2 [mkItem 2 1 [0; 1]] [[Reduce 2 1]; [Reduce 2 1]; []] [None; None; None] [(0, true); (1, true)] [];
   mkState 5 [mkItem 0 1 [0]; mkItem 1 1 [0; 1]] [[Accept]; [Shift 3]; []] [None; None; None] [(0, true); (1, true)] [(1, 10)];
   mkState 1 [mkItem 1 2 [0; 1]; mkItem 1 0 [0; 1]; mkItem 2 0 [0; 1]] [[]; []; [Shift 1]] [None; None; Some 4] [(2, true)] [(2, 10)];
   mkState 5 [mkItem 1 3 [0; 1]; mkItem 1 1 [0; 1]] [[Reduce 1 3]; [Reduce 1 3]; []] [None; None; None] [(0, true); (1, true)] [(1, 10)]]
  (None) [[0]; [1]; [2]; [3]; [2]; [2]] (None).
Definition ex_cfg_lr := mkRS false true false.

Example terminal_left_keeps_reduction :
  resolve_ok_b ex_g1 ex_cfg_lr ex_T1 = true /\
  forallb (state_wf_b ex_g1 (t_rn ex_T1)) (t_states ex_T1) = true /\
  add_reduce ex_g1 ex_cfg_lr [(1, 10)] 1 1 3 3 [Shift 3] = MDone [Reduce 1 3].
Proof. vm_compute. repeat split; reflexivity. Qed.

(* S: E; E: E '+' E | X | Y; X: 'a' '+'?; Y: 'a' {15};  (GLR, LALR_RN; DESIGN.md §9 F5): in state 1
   the cell of '+' is [Shift 6; Reduce 5 1] when Reduce 8 1 of priority 15 arrives; the compile used
   to abort, now the Shift is removed and Reduce 8 1 replaces the lower-priority reduction *)
Definition ex_g5 := mkGrammar [mkTerm 100 ANone (None); mkTerm 10 ANone (Some 1); mkTerm 10 ANone (Some 1)] 7
  [mkProd 4 [5] 10 ANone false false; mkProd 5 [6] 10 ANone false false; mkProd 6 [6; 1; 6] 10 ANone false false;
   mkProd 6 [7] 10 ANone false false; mkProd 6 [9] 10 ANone false false; mkProd 7 [2; 8] 10 ANone false false;
   mkProd 8 [1] 10 ANone false false; mkProd 8 [] 10 ANone false false; mkProd 9 [2] 15 ANone false false] (None) 5.
Definition ex_cfg_glr := mkRS false false true.
Definition ex_T5 := mkTable
  [mkState 4 [mkItem 0 0 [0]; mkItem 1 0 [0]; mkItem 2 0 [0; 1]; mkItem 3 0 [0; 1]; mkItem 4 0 [0; 1]; mkItem 5 0 [0; 1]; mkItem 8 0 [0; 1]] [[]; []; [Shift 1]] [None; None; Some 2; Some 3; Some 4; None; Some 5] [(2, true)] [(2, 15)];
   mkState 2 [mkItem 5 1 [0; 1]; mkItem 8 1 [0; 1]; mkItem 6 0 [0; 1]; mkItem 7 0 [0; 1]] [[Reduce 8 1]; [Reduce 8 1]; []] [None; None; None; None; None; Some 7; None] [(0, true); (1, true)] [(1, 10)];
   mkState 5 [mkItem 0 1 [0]] [[Accept]; []; []] [None; None; None; None; None; None; None] [(0, false)] [];
   mkState 6 [mkItem 1 1 [0]; mkItem 2 1 [0; 1]] [[Reduce 1 1]; [Shift 8]; []] [None; None; None; None; None; None; None] [(0, true); (1, true)] [(1, 10)];
   mkState 7 [mkItem 3 1 [0; 1]] [[Reduce 3 1]; [Reduce 3 1]; []] [None; None; None; None; None; None; None] [(0, true); (1, true)] [];
   mkState 9 [mkItem 4 1 [0; 1]] [[Reduce 4 1]; [Reduce 4 1]; []] [None; None; None; None; None; None; None] [(0, true); (1, true)] [];
   mkState 1 [mkItem 6 1 [0; 1]] [[Reduce 6 1]; [Reduce 6 1]; []] [None; None; None; None; None; None; None] [(0, true); (1, true)] [];
   mkState 8 [mkItem 5 2 [0; 1]] [[Reduce 5 2]; [Reduce 5 2]; []] [None; None; None; None; None; None; None] [(0, true); (1, true)] [];
   mkState 1 [mkItem 2 2 [0; 1]; mkItem 2 0 [0; 1]; mkItem 3 0 [0; 1]; mkItem 4 0 [0; 1]; mkItem 5 0 [0; 1]; mkItem 8 0 [0; 1]] [[]; []; [Shift 1]] [None; None; None; Some 9; Some 4; None; Some 5] [(2, true)] [(2, 15)];
   mkState 6 [mkItem 2 3 [0; 1]; mkItem 2 1 [0; 1]] [[Reduce 2 3]; [Shift 8; Reduce 2 3]; []] [None; None; None; None; None; None; None] [(0, true); (1, true)] [(1, 10)]]
  (None) [[0]; [1]; [2]; [3]; [2]; [2]; [2]; [2]; [1; 3]; [2]] (Some [1; 1; 3; 1; 1; 1; 1; 0; 1]).

Example three_way_resolved :
  resolve_ok_b ex_g5 ex_cfg_glr ex_T5 = true /\
  forallb (state_wf_b ex_g5 (t_rn ex_T5)) (t_states ex_T5) = true /\
  add_reduce ex_g5 ex_cfg_glr [(1, 10)] 1 8 1 1 [Shift 6; Reduce 5 1] = MDone [Reduce 8 1].
Proof. vm_compute. repeat split; reflexivity. Qed.

(* S: S A | 'a'; A: EMPTY | 'b';  (LR, prefer_shifts_over_empty off): the unresolved Accept/Reduce
   cell [Accept; Reduce 3 0] of state 2 is what the model computes (the compiler now reports it) *)
Definition ex_ga := mkGrammar [mkTerm 100 ANone (None); mkTerm 10 ANone (Some 1); mkTerm 10 ANone (Some 1)] 4
  [mkProd 4 [5] 10 ANone false false; mkProd 5 [5; 6] 10 ANone false false; mkProd 5 [1] 10 ANone false false;
   mkProd 6 [] 10 ANone false false; mkProd 6 [2] 10 ANone false false] (None) 5.
Definition ex_Ta := mkTable
  [mkState 4 [mkItem 0 0 [0]; mkItem 1 0 [0; 2]; mkItem 2 0 [0; 2]] [[]; [Shift 1]; []] [None; None; Some 2; None] [(1, true)] [(1, 10)];
   mkState 1 [mkItem 2 1 [0; 2]] [[Reduce 2 1]; []; [Reduce 2 1]] [None; None; None; None] [(0, true); (2, true)] [];
   mkState 5 [mkItem 0 1 [0]; mkItem 1 1 [0; 2]; mkItem 3 0 [0; 2]; mkItem 4 0 [0; 2]] [[Accept; Reduce 3 0]; []; [Shift 3; Reduce 3 0]] [None; None; None; Some 4] [(0, true); (2, true)] [(2, 10)];
   mkState 2 [mkItem 4 1 [0; 2]] [[Reduce 4 1]; []; [Reduce 4 1]] [None; None; None; None] [(0, true); (2, true)] [];
   mkState 6 [mkItem 1 2 [0; 2]] [[Reduce 1 2]; []; [Reduce 1 2]] [None; None; None; None] [(0, true); (2, true)] []]
  (None) [[0]; [1]; [2]; [3]; [1]; [1]; [2; 3]] (None).

Example accept_reduce_conflict_kept :
  resolve_ok_b ex_ga (mkRS false false false) ex_Ta = true /\
  forallb (state_wf_b ex_ga (t_rn ex_Ta)) (t_states ex_Ta) = true.
Proof. vm_compute. split; reflexivity. Qed.
