(* C17 — generation is deterministic and identical through the command line and the API.
   Statements only; proofs in Proofs/Cli.v and Proofs/HashOrder.v.

   Model/CliGen.v is generated from main.rs / settings.rs on every run (gen/cli_translate.py);
   the theorems below are therefore re-checked against the current sources.  Domain: `cli`
   is the full clap struct — every flag, every Option<bool>, every enum option; strings, paths
   and string vectors are symbolic naturals, so the statements hold for all their values too.
   `ev` is the process environment (OUT_DIR, CARGO_MANIFEST_DIR, RUSTEMO_TRACE). *)
From Coq Require Import Permutation.
From RV Require Import Util Model.Cli Model.CliGen Spec.CliSpec Model.HashOrder Proofs.Cli Proofs.HashOrder.

(* The command line builds exactly the settings that the documented API calls build
   (one call per option, in the order of `rcomp --help`), panics included. *)
Theorem cli_equals_api : forall ev c, settings_of_cli ev c = settings_of_api ev (api_of c).
Proof. exact cli_equals_api_main. Qed.
Print Assumptions cli_equals_api.

(* The API itself is what its documentation says, for every state and every call. *)
Theorem setters_as_documented : forall ev call s, gen_apply ev call s = spec_apply ev call s.
Proof. exact setters_as_documented_main. Qed.
Print Assumptions setters_as_documented.

Theorem default_as_documented : forall ev, gen_default ev = spec_default ev.
Proof. exact default_as_documented_main. Qed.
Print Assumptions default_as_documented.

(* The only command lines that make rcomp panic while building its settings. *)
Theorem cli_panics_iff : forall ev c site,
  settings_of_cli ev c = SPanic site <->
  (site = P_grammar_order_off_under_lr /\ c_parser_algo c = LR /\
   c_lexical_disamb_grammar_order c = Some false).
Proof. exact cli_panics_iff_main. Qed.
Print Assumptions cli_panics_iff.

(* No flag is wired to the wrong or to a negated setting ... *)
Theorem cli_flags_effective : forall ev c s,
  settings_of_cli ev c = SOk s -> effective_always ev c s.
Proof. exact cli_effective_always_main. Qed.
Print Assumptions cli_flags_effective.

(* ... except that --prefer-shifts, --no-shifts-over-empty and --table-type are applied before
   --parser-algo and are overwritten by it under GLR.  Known class: parser_algo = GLR. *)
Definition ShadowedByGlr (c : cli) : Prop := c_parser_algo c = GLR.

Theorem cli_shift_table_effective_known : forall ev c s,
  settings_of_cli ev c = SOk s -> ~ ShadowedByGlr c -> effective_shift_table c s.
Proof.
  intros ev c s H Hk. apply (cli_effective_shift_table_main ev c s H).
  unfold ShadowedByGlr in Hk. destruct (c_parser_algo c); [reflexivity|contradiction Hk; reflexivity].
Qed.
Print Assumptions cli_shift_table_effective_known.

Definition w_env := mkEnv None None false.
Definition w_cli_glr_shifts : cli :=
  mkCli false false false false 1 None None true false LALR GLR GFunctions LexDefault STR_str BDefault false
        None None None false false false false STRS_empty 0.

Theorem cli_shift_table_effective_refuted : exists ev c s,
  settings_of_cli ev c = SOk s /\ c_prefer_shifts c = true /\ s_prefer_shifts s = false /\
  c_table_type c = LALR /\ s_table_type s = LALR_RN.
Proof. exists w_env, w_cli_glr_shifts. eexists. vm_compute. repeat split; reflexivity. Qed.
Print Assumptions cli_shift_table_effective_refuted.

(* the same settings ARE expressible through the API (call order): *)
Example api_can_prefer_shifts_under_glr :
  exists s, settings_of_api w_env [C_parser_algo GLR; C_prefer_shifts true; C_table_type LALR] = SOk s /\
            s_prefer_shifts s = true /\ s_table_type s = LALR.
Proof. eexists. vm_compute. repeat split; reflexivity. Qed.

(* ---- the only iteration over a hash collection: make_choices_name_unique ---------------- *)
Definition IndexClash (choices : list name) : Prop := index_clash_b choices = true.

Theorem hash_order_irrelevant_known : forall choices p1 p2,
  Permutation p1 p2 -> ~ IndexClash choices -> mcnu p1 choices = mcnu p2 choices.
Proof.
  intros choices p1 p2 HP Hk. apply hash_order_irrelevant_main; [exact HP|].
  unfold IndexClash in Hk. apply not_true_is_false. exact Hk.
Qed.
Print Assumptions hash_order_irrelevant_known.

(* X = [10], X1 = [10; 1]:  choices X, X, X1, X1 (kinds {X} {X} {X1} {X1} of one rule) *)
Definition w_X : name := [10].
Definition w_X1 : name := [10; 1].
Definition w_choices : list name := [w_X; w_X; w_X1; w_X1].

Theorem hash_order_irrelevant_refuted : exists choices p1 p2,
  Permutation p1 p2 /\ NoDup p1 /\ (forall a, In a p1 <-> In a choices) /\
  mcnu p1 choices <> mcnu p2 choices.
Proof.
  exists w_choices, [w_X; w_X1], [w_X1; w_X]. split; [apply perm_swap|]. split.
  - constructor; [cbn; intros [H|[]]; discriminate H|]. constructor; [intros []|constructor].
  - split.
    + intros a. cbn. tauto.
    + intros H. vm_compute in H. discriminate H.
Qed.
Print Assumptions hash_order_irrelevant_refuted.

Example hash_witness_classified :
  index_clash_b w_choices = true /\
  mcnu [w_X; w_X1] w_choices = [[10; 1; 1]; [10; 2]; [10; 1; 2]; [10; 1; 3]] /\
  mcnu [w_X1; w_X] w_choices = [[10; 1]; [10; 2]; [10; 1; 1]; [10; 1; 2]].
Proof. vm_compute. repeat split; reflexivity. Qed.

(* Non-vacuity: `rcomp --parser-algo glr --lexical-disamb-grammar-order=false -f g` and a
   clash-free duplicated-kind list. *)
Example c17_nonvacuous :
  (exists s, settings_of_cli w_env
     (mkCli true false false false 1 None None false false LALR_PAGER GLR GFunctions LexDefault STR_str
            BDefault false None None (Some false) false false false false STRS_empty 0) = SOk s /\
     s_force s = true /\ s_table_type s = LALR_RN /\ s_lexical_disamb_grammar_order s = false) /\
  index_clash_b [[10]; [10]; [11]; [11]; [12]] = false /\
  mcnu [[10]; [11]; [12]] [[10]; [10]; [11]; [11]; [12]] = [[10; 1]; [10; 2]; [11; 1]; [11; 2]; [12]].
Proof. split; [eexists; vm_compute; repeat split; reflexivity|vm_compute; split; reflexivity]. Qed.
