(* C13 — spans and positions faithfully locate every tree node in the input.
   Statements only; proofs in Proofs/Position.v.
   The span statements themselves (token value = slice at its span, ordered
   non-overlapping leaf spans, node span = hull of children, empty node
   zero-width between its neighbours) are the boolean [spans_ok_b] of
   Spec/SpanCheck.v, evaluated on every tree the REAL parser returns. *)
From RV Require Import Model.LR Model.LRBytes Model.CompareBytes Spec.SpanCheck Spec.Validators Proofs.Position Proofs.RoundTrip.

(* line = 1 + newlines before the offset, column = bytes since the line start,
   preserved by str::position_after over any slice inside the input ... *)
Theorem position_after_ok : forall inp p n,
  pos_ok_b inp p = true -> p_off p + n <= length inp ->
  pos_ok_b inp (position_after (sub inp (p_off p, n)) p) = true.
Proof. exact position_after_ok_main. Qed.
Print Assumptions position_after_ok.

(* ... hence for every chain of consecutive slices starting anywhere correct
   (the parser only ever advances by whitespace runs and token lengths) *)
Theorem positions_chain_ok : forall inp lens p,
  pos_ok_b inp p = true -> p_off p + list_sum lens <= length inp ->
  pos_ok_b inp (advance inp p lens) = true.
Proof. exact positions_chain_ok_main. Qed.
Print Assumptions positions_chain_ok.

Theorem start_position_ok : forall inp, pos_ok_b inp start_pos = true.
Proof. exact start_pos_ok. Qed.
Print Assumptions start_position_ok.

(* meaning of the ordering part of spans_ok_b: consecutive leaves / empty
   nodes do not overlap and each interval is well-formed *)
Theorem spans_ordered : forall l prev,
  mono_b prev l = true ->
  (forall i lo hi, nth_error l i = Some (lo, hi) -> prev <= lo /\ lo <= hi) /\
  (forall i lo1 hi1 lo2 hi2, nth_error l i = Some (lo1, hi1) -> nth_error l (S i) = Some (lo2, hi2) -> hi1 <= lo2).
Proof. intros l prev H. split; [exact (mono_b_spec l prev H)|exact (mono_b_adjacent l prev H)]. Qed.
Print Assumptions spans_ordered.

(* The span statement as a THEOREM about the byte-level model of the LR runtime
   (string lexer with whitespace skipping or none, no Layout rule): every tree
   the model returns passes the same checker that is evaluated on the real
   trees — for all grammars and tables passing sound_b, all inputs, all
   measured recognizer tables satisfying mt_ok_b (matches and whitespace runs
   lie inside the input, whitespace runs are maximal). *)
Theorem model_spans_ok : forall g T inp mt cfg fuel t,
  wf_grammar_b g = true -> sound_b g T = true -> mt_ok_b inp mt = true -> bc_has_layout cfg = false ->
  bparse g T inp mt fuel cfg = BOk t ->
  spans_ok_b inp (resolve inp t) = true.
Proof.
  intros g T inp mt cfg fuel t Hwf Hs Hm Hl H.
  exact (proj1 (model_tree_ok_main g T inp mt cfg Hwf Hs (mt_ok_b_spec inp mt Hm) Hl fuel t H)).
Qed.
Print Assumptions model_spans_ok.

(* Non-vacuity: "a\n b" — position after "a\n" then " b" *)
Example positions_nonvacuous :
  let inp := [97; 10; 32; 98] in
  advance inp start_pos [2; 2] = mkPos 4 2 2 /\ pos_ok_b inp (mkPos 4 2 2) = true /\
  spans_ok_b inp (RNode 1 (mkSpan (mkPos 0 1 0) (mkPos 4 2 2)) None
     [RLeaf 1 (mkSpan (mkPos 0 1 0) (mkPos 1 1 1)) None [97];
      RNode 2 (mkSpan (mkPos 1 1 1) (mkPos 1 1 1)) None [];
      RLeaf 2 (mkSpan (mkPos 3 2 1) (mkPos 4 2 2)) (Some [10; 32]) [98]]) = true.
Proof. vm_compute. repeat split; reflexivity. Qed.
