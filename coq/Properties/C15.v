(* C15 — parsing is total. Statement proved here: the LR runtime model (token
   level, default lexer) never reaches any of the places where the Rust code
   indexes, unwraps or splits out of range, for EVERY table passing [safe_b],
   every input, every fuel, with or without partial parsing.
   Not proved (see DESIGN.md): termination (reduce_acyclic_b is a sufficient
   per-table condition; the real runs are under a watchdog). *)
From RV Require Import Model.LR Model.Compare Spec.Validators Proofs.Sound Proofs.Safe Proofs.Terminate.
From RV Require Properties.C02.

Theorem lr_no_panic : forall g T partial fuel w n,
  wf_grammar_b g = true -> safe_b g T = true ->
  parse g T partial fuel w <> Panic n.
Proof. intros g T partial fuel w n Hwf Hs. exact (lr_no_panic_main g T Hs partial w fuel n). Qed.
Print Assumptions lr_no_panic.

(* the same for ANY lexer (a user-supplied one may answer with token kinds the
   state does not expect, zero-length tokens, anything computed from the whole
   configuration): never a panic; an unexpected kind surfaces as the error
   result ErrNoAction. The default lexer is an instance. *)
Theorem lr_any_lexer_no_panic : forall g T (lex : conf -> tok) fuel w n,
  wf_grammar_b g = true -> safe_b g T = true ->
  run_lex g T lex fuel (init 0 w) <> Panic n.
Proof. intros g T lex fuel w n Hwf Hs. exact (lr_any_lexer_no_panic_main g T Hs lex w fuel n). Qed.
Print Assumptions lr_any_lexer_no_panic.

Theorem default_lexer_is_an_instance : forall g T partial fuel c,
  run_lex g T (default_lex T partial) fuel c = run g T partial fuel c.
Proof. intros g T partial fuel c. exact (run_lex_default g T partial fuel c). Qed.
Print Assumptions default_lexer_is_an_instance.

(* termination (full parsing, default lexer, token level): if the table passes
   reduce_acyclic_b, the run finishes within the fuel the checks use,
   (4+|w|)*(4+2*states) turns; so the outcome is Ok or an error, never a panic
   and never "still running". Tables that fail reduce_acyclic_b are the
   recorded finding lr-reduce-cycle. *)
Theorem lr_terminates : forall g T w,
  wf_grammar_b g = true -> safe_b g T = true -> reduce_acyclic_b g T = true ->
  parse g T false (fuel_for T w) w <> OutOfFuel.
Proof. intros g T w Hwf Hs Ha. exact (lr_terminates_main g T Hs Ha w). Qed.
Print Assumptions lr_terminates.

Theorem lr_total : forall g T w,
  wf_grammar_b g = true -> safe_b g T = true -> reduce_acyclic_b g T = true ->
  (exists t k, parse g T false (fuel_for T w) w = Ok t k) \/
  (exists k ex, parse g T false (fuel_for T w) w = Err k ex) \/
  parse g T false (fuel_for T w) w = ErrNoAction.
Proof.
  intros g T w Hwf Hs Ha.
  pose proof (lr_terminates_main g T Hs Ha w) as Ht.
  pose proof (fun n => lr_no_panic_main g T Hs false w (fuel_for T w) n) as Hp.
  destruct (parse g T false (fuel_for T w) w) as [t k|k ex| |n|]; eauto.
  - exfalso. eapply Hp. reflexivity.
  - exfalso. apply Ht. reflexivity.
Qed.
Print Assumptions lr_total.

Example lr_no_panic_nonvacuous :
  safe_b C02.ex_g C02.ex_T = true /\ reduce_acyclic_b C02.ex_g C02.ex_T = true.
Proof. vm_compute. split; reflexivity. Qed.

(* ------------------------------------------------------------------ *)
(* GLR side at the level of the TABLE (Model/NLR.v): for every multi-action
   right-nulled table passing [safe_rn_b] (evaluated on the REAL LALR_RN tables,
   gen/c15.py), from any configuration a run of the nondeterministic machine can
   reach, NO action of the cell panics (stack underflow, undefined goto, builder
   underflow, empty result, nullable tail without an empty derivation).
   NOT proved: the graph-structured-stack code of glr/parser.rs itself (decided by
   the real parser under catch_unwind + watchdog on garbage input). *)
From RV Require Import Model.NLR Spec.ValidatorsRN Proofs.ViableRN Proofs.SafeRN.

Theorem nlr_no_panic : forall g T partial w c s stk a real act n,
  wf_grammar_b g = true -> safe_rn_b g T = true ->
  nreach g T partial (init 0 w) c ->
  c_stk c = s :: stk -> next_tok T partial s (c_inp c) = Tok a real ->
  In act (cell T s a) -> act_step g T c a real act <> Done (Panic n).
Proof. exact nlr_no_panic_top. Qed.
Print Assumptions nlr_no_panic.
