(* C08 — the generated parser source encodes exactly the computed table.
   Only statements here; proofs are in Proofs/Encode.v. The encodings and decoders are
   Model/Encode.v (arrays.rs / functions.rs of the generator). *)
From RV Require Import Model.Encode Proofs.Encode.

(* Arrays layout: for every table satisfying the (checked) shape hypotheses the generator does not
   panic, and decoding its nested arrays answers every in-range action query with exactly the
   stored cell (padding `Error` never leaks), every goto query with the stored goto (undefined ones
   are the documented `unwrap()` panic), every expected-token query with sorted_terminals. *)
Theorem arrays_roundtrip : forall nterm nnonterm T,
  enc_wf_b nterm nnonterm T = true ->
  exists E, encode_arrays T = GVal E /\
    (forall s a, s < nstates T -> a < nterm ->
       dec_arrays_actions E s a = GVal (map EAct (cell T s a))) /\
    (forall s n, s < nstates T -> n < nnonterm ->
       dec_arrays_goto E s n = match goto T s n with Some x => GVal x | None => GPanic site_goto_unwrap end) /\
    (forall s, s < nstates T -> dec_tokens (ea_tokens E) s = GVal (sorted T s)).
Proof. intros nterm nnonterm T H. exact (arrays_roundtrip_main nterm nnonterm T H). Qed.
Print Assumptions arrays_roundtrip.

(* Functions layout: one match arm per non-empty cell, the catch-all `vec![]` arm exists whenever
   some cell is empty, undefined gotos hit `goto_invalid` / the catch-all panic arm. *)
Theorem functions_roundtrip : forall nterm nnonterm T,
  enc_wf_b nterm nnonterm T = true ->
  exists E, encode_functions nterm T = GVal E /\
    (forall s a, s < nstates T -> a < nterm ->
       dec_functions_actions E s a = GVal (map EAct (cell T s a))) /\
    (forall s n, s < nstates T -> n < nnonterm ->
       dec_functions_goto E s n = match goto T s n with Some x => GVal x | None => GPanic site_goto_invalid end) /\
    (forall s, s < nstates T -> dec_tokens (ef_tokens E) s = GVal (sorted T s)).
Proof. intros nterm nnonterm T H. exact (functions_roundtrip_main nterm nnonterm T H). Qed.
Print Assumptions functions_roundtrip.

(* Both layouts answer every query identically (gotos: same value, or both panic). *)
Theorem layouts_agree : forall nterm nnonterm T,
  enc_wf_b nterm nnonterm T = true ->
  exists EA EF, encode_arrays T = GVal EA /\ encode_functions nterm T = GVal EF /\
    (forall s a, s < nstates T -> a < nterm -> dec_arrays_actions EA s a = dec_functions_actions EF s a) /\
    (forall s n, s < nstates T -> n < nnonterm ->
       gen_val (dec_arrays_goto EA s n) = gen_val (dec_functions_goto EF s n)) /\
    (forall s, s < nstates T -> dec_tokens (ea_tokens EA) s = dec_tokens (ef_tokens EF) s).
Proof. intros nterm nnonterm T H. exact (layouts_agree_main nterm nnonterm T H). Qed.
Print Assumptions layouts_agree.

(* enum_order: the ProdKind discriminant of a production is its rank among the productions that
   are neither AUG's nor AUGL's; the numbering is a bijection that preserves production order,
   total on ordinary productions and undefined on the augmented ones. (State, TokenKind and
   NonTermKind list every index in order, so their discriminant is the index itself.) *)
Theorem prodkind_roundtrip : forall g p d, prodkind_index g p = Some d <-> prod_of_kind g d = Some p.
Proof. intros g p d. exact (prodkind_roundtrip_main g p d). Qed.
Print Assumptions prodkind_roundtrip.

Theorem prodkind_total : forall g p pr,
  get_prod g p = Some pr ->
  (is_special g pr = false -> exists d, prodkind_index g p = Some d) /\
  (is_special g pr = true -> prodkind_index g p = None).
Proof.
  intros g p pr H. split; intros Hs.
  - exact (prodkind_total_main g p pr H Hs).
  - exact (prodkind_special_main g p pr H Hs).
Qed.
Print Assumptions prodkind_total.

Theorem prodkind_order : forall g d1 d2 p1 p2,
  prod_of_kind g d1 = Some p1 -> prod_of_kind g d2 = Some p2 -> d1 < d2 -> p1 < p2.
Proof. intros g d1 d2 p1 p2. exact (prodkind_order_main g d1 d2 p1 p2). Qed.
Print Assumptions prodkind_order.

(* Non-vacuity: the real table dumped for  S: 'a' B 'c'; B: EMPTY | 'b';  (LALR_PAGER) satisfies the
   hypothesis; its encodings exist, differ in shape and both round-trip. *)
Definition ex_g := mkGrammar [mkTerm 100 ANone None; mkTerm 10 ANone (Some 1); mkTerm 10 ANone (Some 1); mkTerm 10 ANone (Some 1)] 4
  [mkProd 5 [6] 10 ANone false false; mkProd 6 [1; 7; 3] 10 ANone false false;
   mkProd 7 [] 10 ANone false false; mkProd 7 [2] 10 ANone false false] None 6.
Definition ex_T := mkTable
  [mkState 5 [mkItem 0 0 [0]; mkItem 1 0 [0]] [[]; [Shift 1]; []; []] [None; None; Some 2; None] [(1, true)] [(1, 10)];
   mkState 1 [mkItem 1 1 [0]; mkItem 2 0 [3]; mkItem 3 0 [3]] [[]; []; [Shift 3]; [Reduce 2 0]] [None; None; None; Some 4] [(2, true); (3, true)] [(2, 10)];
   mkState 6 [mkItem 0 1 [0]] [[Accept]; []; []; []] [None; None; None; None] [(0, false)] [];
   mkState 2 [mkItem 3 1 [3]] [[]; []; []; [Reduce 3 1]] [None; None; None; None] [(3, true)] [];
   mkState 7 [mkItem 1 2 [0]] [[]; []; []; [Shift 5]] [None; None; None; None] [(3, true)] [(3, 10)];
   mkState 3 [mkItem 1 3 [0]] [[Reduce 1 3]; []; []; []] [None; None; None; None] [(0, false)] []]
  None [[0]; [1]; [2]; [3]; [4]; [1]; [1]; [2; 4]] None.

Example c08_nonvacuous :
  enc_wf_b 4 4 ex_T = true /\
  roundtrip_arrays_b 4 4 ex_T = true /\ roundtrip_functions_b 4 4 ex_T = true /\
  option_map (fun E => nth 1 (nth 1 (ea_actions E) []) []) (gen_val (encode_arrays ex_T)) = Some [EErr] /\
  option_map (fun E => nth 3 (nth 1 (ea_actions E) []) []) (gen_val (encode_arrays ex_T)) = Some [EAct (Reduce 2 0)] /\
  option_map (fun E => nth_error (ef_gotos E) 2) (gen_val (encode_functions 4 ex_T)) = Some (Some GotoInvalid) /\
  prodkinds ex_g = [1; 2; 3] /\ reduce_kinds_b ex_g ex_T = true.
Proof. vm_compute. repeat split; reflexivity. Qed.
