(* C18 — regenerating actions preserves user edits and only adds what is missing.
   Statements only; proofs are in Proofs/Regen.v.  Model: Model/Regen.v mirrors
   rustemo-compiler/src/generator/actions/mod.rs (generate_parser_actions, as of commit
   4a0de5f: every generated type is guarded by its own name); vocabulary: Spec/RegenSpec.v.

   All statements quantify over every existing file `e` (hence over every edit history that
   led to it) and every generator output `gen` (hence every grammar, also a changed one).
   `wf_gen_b` states what the proofs need from production.rs (generated items carry the
   names they are looked up by); it is evaluated on the real generator output of every
   grammar of a run. *)
From RV Require Import Util Model.Regen Spec.RegenSpec Proofs.Regen.

(* Known class (decidable: a boolean function): the generator's own output for the grammar
   contains one name twice. *)
Definition GenDup (gen : genout) : Prop := gen_dup_b (g_groups gen) = true.

(* Every existing item is kept, in place, untouched; what is appended comes from the
   generator's output for the grammar.  Unconditional. *)
Theorem regen_prefix : forall e gen,
  exists added, regen false (Some e) gen = e ++ added /\ incl added (flat (g_groups gen)).
Proof.
  intros e gen. exists (Proofs.Regen.added e (g_groups gen)).
  split; [apply regen_prefix_main|apply added_incl_main].
Qed.
Print Assumptions regen_prefix.

(* With `force`, or when no file exists, the result does not depend on the old file. *)
Theorem regen_forced : forall existing gen, regen true existing gen = regen false None gen.
Proof. exact regen_forced_main. Qed.
Print Assumptions regen_forced.

(* "appends exactly the types and action functions that are missing for the current grammar",
   in generation order. *)
Theorem regen_adds_missing : forall e gen,
  wf_gen_b (g_groups gen) = true ->
  regen false (Some e) gen = e ++ missing e (g_groups gen).
Proof. exact regen_adds_missing_main. Qed.
Print Assumptions regen_adds_missing.

(* After regeneration every item generated for the grammar is present. *)
Theorem regen_complete : forall e gen i,
  wf_gen_b (g_groups gen) = true ->
  In i (flat (g_groups gen)) -> present (regen false (Some e) gen) i = true.
Proof. exact regen_complete_main. Qed.
Print Assumptions regen_complete.

(* A second regeneration changes nothing. *)
Theorem regen_idempotent : forall e gen,
  wf_gen_b (g_groups gen) = true ->
  regen false (Some (regen false (Some e) gen)) gen = regen false (Some e) gen.
Proof. exact regen_idempotent_main. Qed.
Print Assumptions regen_idempotent.

(* "never duplicates an item": still false of the faithful model when the generator itself
   emits one name twice; true outside that class. *)
Theorem regen_no_dup_known : forall e gen,
  wf_gen_b (g_groups gen) = true -> ~ GenDup gen ->
  NoDupNames e -> NoDupNames (regen false (Some e) gen).
Proof.
  intros e gen Hwf Hg. apply regen_no_dup_main; [exact Hwf|].
  unfold GenDup in Hg. apply not_true_is_false. exact Hg.
Qed.
Print Assumptions regen_no_dup_known.

(* ---- witnesses.  names:  A=1 a=2 B=3 b=4 C=5 c=6 S=7 SC2=8 s_a=9 s_c2=10 s_c=11
                            Input=12 Ctx=13 Token=14 *)
Definition w_header : list ritem :=
  [mkR KOther 0 100; mkR KOther 0 101; mkR KType 12 102; mkR KType 13 103; mkR KType 14 104].
Definition w_struct := mkR KStruct 8 120.
Definition w_enum := mkR KEnum 7 121.

(* the generator emits one function name twice
   (S: A {X} | B {X} | C {X1};  gives s_x1, s_x2, s_x1) — regenerating over a file that lacks
   them appends both.  names: S=7 s_x1=9 s_x2=10 *)
Definition w_gen_dup : genout := mkGen w_header
  [GNonterm [w_enum] [(9, mkR KFn 9 130); (10, mkR KFn 10 131); (9, mkR KFn 9 132)]].

Theorem regen_no_dup_refuted : exists e gen,
  wf_gen_b (g_groups gen) = true /\ NoDupNames e /\ ~ NoDupNames (regen false (Some e) gen).
Proof.
  exists w_header, w_gen_dup. split; [vm_compute; reflexivity|]. split.
  - apply nodup_names_b_spec. vm_compute. reflexivity.
  - intros H. apply nodup_names_b_spec in H. vm_compute in H. discriminate.
Qed.
Print Assumptions regen_no_dup_refuted.

Example gendup_witness_classified : gen_dup_b (g_groups w_gen_dup) = true.
Proof. vm_compute. reflexivity. Qed.

(* ---- regression: the former defect F10 (repaired by /repo commit 4a0de5f).
   Grammar  S: A | B A | C;  terminals A: /a/; B: /b/; C: /c/;  the rule S needs the choice
   struct SC2 and the enum S. *)
Definition w_gen : genout := mkGen w_header
  [GTerm 1 (mkR KType 1 110) 2 (mkR KFn 2 111);
   GTerm 3 (mkR KType 3 112) 4 (mkR KFn 4 113);
   GTerm 5 (mkR KType 5 114) 6 (mkR KFn 6 115);
   GNonterm [w_struct; w_enum]
     [(9, mkR KFn 9 122); (10, mkR KFn 10 123); (11, mkR KFn 11 124)]].
Definition w_fresh : list ritem := regen false None w_gen.
Definition drop (x : ritem) (l : list ritem) := filter (fun i => negb (ritem_eqb i x)) l.
Definition w_no_enum := drop w_enum w_fresh.
Definition w_no_struct := drop w_struct w_fresh.

(* only the enum deleted: exactly the enum comes back (it used to bring a second SC2) *)
Example f10_enum_deleted_regression :
  regen false (Some w_no_enum) w_gen = w_no_enum ++ [w_enum] /\
  nodup_names_b (regen false (Some w_no_enum) w_gen) = true.
Proof. vm_compute. split; reflexivity. Qed.

(* only the choice struct deleted: it comes back (it used to stay missing) *)
Example f10_struct_deleted_regression :
  regen false (Some w_no_struct) w_gen = w_no_struct ++ [w_struct] /\
  present (regen false (Some w_no_struct) w_gen) w_struct = true.
Proof. vm_compute. split; reflexivity. Qed.

(* Non-vacuity: the user deleted the function s_a and the enum S (but kept SC2), turned the
   alias B into a struct with another body, rewrote the body of c, put an import first and an
   impl last.  Regeneration appends exactly S and s_a after the untouched file. *)
Definition ex_user : list ritem :=
  [mkR KOther 0 900] ++
  map (fun i => if ritem_eqb i (mkR KType 3 112) then mkR KStruct 3 901
                else if ritem_eqb i (mkR KFn 6 115) then mkR KFn 6 902 else i)
      (drop w_enum (drop (mkR KFn 9 122) w_fresh))
  ++ [mkR KOther 0 903].

Example c18_nonvacuous :
  wf_gen_b (g_groups w_gen) = true /\ gen_dup_b (g_groups w_gen) = false /\
  nodup_names_b ex_user = true /\
  regen false (Some ex_user) w_gen = ex_user ++ [w_enum; mkR KFn 9 122] /\
  missing ex_user (g_groups w_gen) = [w_enum; mkR KFn 9 122].
Proof. vm_compute. repeat split; reflexivity. Qed.
