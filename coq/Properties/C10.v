(* C10 — the default AST carries every content token in input order: the vector-shaped part.
   Model: Model/DefaultBuilder.v (generator/actions/production.rs:344-419). Proofs:
   Proofs/DefaultBuilder.v. Only the generated Vec actions are modelled (partial); the statement
   over all type shapes is explored on the real generated builders by gen/c10.py, which also ties
   this model to the real code (build_vec of the derivation = the real vector, every run). *)
From RV Require Import Model.DefaultBuilder Proofs.DefaultBuilder Model.DefaultAst Proofs.DefaultAst.

(* Repetition rules yield vectors in input order: for EVERY derivation of a vector rule — left
   recursive, right recursive or mixed, with the single-element or the EMPTY base, of any length —
   the generated actions return exactly the elements in input order (each once, and the action
   never reaches its unreachable arm). *)
Theorem vec_in_order : forall t, build_vec t = BVal (elems t).
Proof. intros t. exact (build_vec_main t). Qed.
Print Assumptions vec_in_order.

(* Regression: before commit efbb959 the right-recursive alternative also pushed, and this
   derivation of `@vec A: B A | B;` on input `1 2 3` built [3; 2; 1] (DESIGN.md §9, F3). *)
Example c10_nonvacuous :
  build_vec (VRight 1 (VRight 2 (VOne 3))) = BVal [1; 2; 3] /\
  build_vec (VLeft (VLeft (VOne 1) 2) 3) = BVal [1; 2; 3] /\
  build_vec (VLeft (VLeft VEmpty 1) 2) = BVal [1; 2] /\
  build_vec (VRight 1 (VLeft (VRight 2 (VOne 3)) 4)) = BVal [1; 2; 3; 4].
Proof. vm_compute. repeat split; reflexivity. Qed.

(* The general shape of the property over Model/DefaultAst.v (all value shapes the generator emits:
   token value, struct, enum variant, Option, Box, Vec): the value built for ANY derivation tree holds
   exactly the content tokens of the input, in input order, each once — provided every production
   action keeps the literals of its arguments in order (the per-action obligation) ... *)
Theorem ast_tokens_compositional :
  forall act, (forall p args, lits (act p args) = args_lits args) ->
  forall t, match build act t with Some a => lits a | None => [] end = content t.
Proof. intros act Hact t. exact (build_content_main act Hact t). Qed.
Print Assumptions ast_tokens_compositional.

(* ... and every action body get_action_body writes (struct of the content arguments, enum variant
   of a struct / a (boxed) reference / nothing, plain (boxed) reference, Some(..) / None of an optional
   rule, vec![], vec![x], push, insert(0, ..)) meets that obligation whenever the argument list fits
   the kind. Partial: that the type deduction (generator/actions/mod.rs) always picks a fitting kind,
   and that no-content terminals are exactly the dropped arguments, is NOT modelled — it is what
   gen/c10.py explores on the real generated builders. *)
Theorem std_actions_keep_order_partial :
  forall k args, fits k args = true -> lits (std_action k args) = args_lits args.
Proof. intros k args Hf. exact (std_action_main k args Hf). Qed.
Print Assumptions std_actions_keep_order_partial.

(* The two combined, with an executable hypothesis: for any assignment of action-body kinds to
   productions and any derivation tree in which every node's argument list fits its kind, the value
   the generated actions build holds exactly the content tokens of the input, in input order. *)
Theorem ast_tokens_in_order_partial :
  forall kinds t, well_kinded kinds t = true ->
  match build (fun p => std_action (kinds p)) t with Some a => lits a | None => [] end = content t.
Proof. intros kinds t Hwk. exact (build_std_content_main kinds t Hwk). Qed.
Print Assumptions ast_tokens_in_order_partial.

(* non-vacuity: `S: 'k' A? B*;  A: num;  B: num | '-';` shaped tree, keyword without content *)
Example c10_ast_nonvacuous :
  let act p := std_action (match p with
                           | 0 => KStruct | 1 => KSomeOf (KRef false) | 2 => KNone
                           | 3 => KVecPush false | 4 => KVecEmpty | 5 => KVariantRef 0 false
                           | _ => KPlain 1 end) in
  let t := DNode 0 [DLeaf false 9; DNode 1 [DLeaf true 1];
                    DNode 3 [DNode 3 [DNode 4 []; DNode 5 [DLeaf true 2]]; DNode 6 [DLeaf false 8]]] in
  build act t = Some (AStruct [ASome (ALit 1); AVec [AVariant 0 (Some (ALit 2)); AVariant 1 None]])
  /\ content t = [1; 2]
  /\ well_kinded (fun p => match p with
                           | 0 => KStruct | 1 => KSomeOf (KRef false) | 2 => KNone
                           | 3 => KVecPush false | 4 => KVecEmpty | 5 => KVariantRef 0 false
                           | _ => KPlain 1 end) t = true.
Proof. vm_compute. repeat split; reflexivity. Qed.
