(* C10 — the default AST carries every content token in input order: the vector-shaped part.
   Model: Model/DefaultBuilder.v (generator/actions/production.rs:344-419). Proofs:
   Proofs/DefaultBuilder.v. Only the generated Vec actions are modelled (partial); the statement
   over all type shapes is explored on the real generated builders by gen/c10.py, which also ties
   this model to the real code (build_vec of the derivation = the real vector, every run). *)
From RV Require Import Model.DefaultBuilder Proofs.DefaultBuilder.

(* Repetition rules yield vectors in input order: for EVERY derivation of a vector rule — left
   recursive, right recursive or mixed, with the single-element or the EMPTY base, of any length —
   the generated actions return exactly the elements in input order (each once, and the action
   never reaches its unreachable arm). *)
Theorem vec_in_order : forall t, build_vec t = BVal (elems t).
Proof. intros t. exact (build_vec_main t). Qed.
Print Assumptions vec_in_order.

(* Regression: before commit efbb959 the right-recursive alternative also pushed, and this
   derivation of `@vec A: B A | B;` on input `1 2 3` built [3; 2; 1] (DESIGN.md §9, F3). *)
Example c10_nonvacuous :
  build_vec (VRight 1 (VRight 2 (VOne 3))) = BVal [1; 2; 3] /\
  build_vec (VLeft (VLeft (VOne 1) 2) 3) = BVal [1; 2; 3] /\
  build_vec (VLeft (VLeft VEmpty 1) 2) = BVal [1; 2] /\
  build_vec (VRight 1 (VLeft (VRight 2 (VOne 3)) 4)) = BVal [1; 2; 3; 4].
Proof. vm_compute. repeat split; reflexivity. Qed.
