(* C01 — a deterministic LR parser accepts exactly the language of its grammar.
   Stated for every grammar/table pair passing the verified checkers; the
   checkers are evaluated on the real table of every generated grammar.
   Only statements here; proofs are in Proofs/Sound.v and Proofs/Complete.v. *)
From RV Require Import Model.LR Spec.Validators Spec.TreeCheck Proofs.Sound Proofs.Complete.
From RV Require Properties.C02.

(* every sentence is accepted, and the tree returned is the derivation tree *)
Theorem lr_complete : forall g T t,
  wf_grammar_b g = true -> complete_b g T = true ->
  valid_tree g t -> root g t = g_start g ->
  exists fuel, parse g T false fuel (yield t) = Ok t (length (yield t)).
Proof. intros g T t Hwf Hc Hv Hr. exact (lr_complete_main g T Hwf Hc t Hv Hr). Qed.
Print Assumptions lr_complete.

Theorem c01_iff : forall g T w,
  wf_grammar_b g = true -> sound_b g T = true -> complete_b g T = true -> ~ In STOP w ->
  ((exists fuel t k, parse g T false fuel w = Ok t k) <-> sentence g w).
Proof.
  intros g T w Hwf Hs Hc Hno. split.
  - intros [fuel [t [k H]]].
    destruct (lr_sound_main g T Hwf Hs false fuel w t k H) as [Hv [Hr [Hy [_ Hk]]]].
    specialize (Hk eq_refl Hno). subst k. rewrite firstn_all in Hy. exists t. tauto.
  - intros [t [Hv [Hr Hy]]]. destruct (lr_complete_main g T Hwf Hc t Hv Hr) as [fuel H].
    subst w. eauto.
Qed.
Print Assumptions c01_iff.

(* a sentence never produces an error (whatever the fuel) *)
Theorem sentence_never_errors : forall g T w fuel k ex,
  wf_grammar_b g = true -> complete_b g T = true -> sentence g w ->
  parse g T false fuel w <> Err k ex.
Proof.
  intros g T w fuel k ex Hwf Hc [t [Hv [Hr Hy]]] Herr.
  destruct (lr_complete_main g T Hwf Hc t Hv Hr) as [fuel' H]. subst w.
  unfold parse in *.
  assert (H1 := run_mono g T false fuel _ _ Herr ltac:(discriminate) (fuel + fuel') ltac:(lia)).
  assert (H2 := run_mono g T false fuel' _ _ H ltac:(discriminate) (fuel + fuel') ltac:(lia)).
  congruence.
Qed.
Print Assumptions sentence_never_errors.

(* a grammar whose table validates (no disambiguation took effect) is unambiguous *)
Theorem lr_unique : forall g T t1 t2,
  wf_grammar_b g = true -> complete_b g T = true ->
  valid_tree g t1 -> valid_tree g t2 ->
  root g t1 = g_start g -> root g t2 = g_start g -> yield t1 = yield t2 -> t1 = t2.
Proof.
  intros g T t1 t2 Hwf Hc Hv1 Hv2 Hr1 Hr2 Hy.
  destruct (lr_complete_main g T Hwf Hc t1 Hv1 Hr1) as [f1 H1].
  destruct (lr_complete_main g T Hwf Hc t2 Hv2 Hr2) as [f2 H2].
  rewrite <- Hy in H2. unfold parse in *.
  assert (A1 := run_mono g T false f1 _ _ H1 ltac:(discriminate) (f1 + f2) ltac:(lia)).
  assert (A2 := run_mono g T false f2 _ _ H2 ltac:(discriminate) (f1 + f2) ltac:(lia)).
  congruence.
Qed.
Print Assumptions lr_unique.

(* Non-vacuity on the real table of  S: 'a' B 'c'; B: EMPTY | 'b';  *)
Example c01_nonvacuous :
  wf_grammar_b C02.ex_g = true /\ sound_b C02.ex_g C02.ex_T = true /\ complete_b C02.ex_g C02.ex_T = true /\
  derivation_b C02.ex_g (Node 1 [Leaf 1; Node 3 [Leaf 2]; Leaf 3]) [1; 2; 3] = true.
Proof. vm_compute. repeat split; reflexivity. Qed.
