(* C02 — every successful LR parse yields a valid derivation tree of the
   consumed input; partial parsing refines full parsing.
   Only statements here; proofs are in Proofs/Sound.v. *)
From RV Require Import Model.LR Spec.Validators Spec.TreeCheck Proofs.Sound.

Theorem lr_sound : forall g T partial fuel w t k,
  wf_grammar_b g = true -> sound_b g T = true ->
  parse g T partial fuel w = Ok t k ->
  valid_tree g t /\ root g t = g_start g /\ yield t = firstn k w /\ k <= length w /\
  (partial = false -> ~ In STOP w -> k = length w).
Proof. intros g T partial fuel w t k Hwf Hs H. exact (lr_sound_main g T Hwf Hs partial fuel w t k H). Qed.
Print Assumptions lr_sound.

Theorem partial_refines : forall g T fuel w t k,
  parse g T false fuel w = Ok t k -> parse g T true fuel w = Ok t k.
Proof. intros g T fuel w t k H. exact (partial_refines_main g T fuel (init 0 w) t k H). Qed.
Print Assumptions partial_refines.

Theorem derivation_oracle_sound : forall g t w,
  derivation_b g t w = true -> valid_tree g t /\ root g t = g_start g /\ yield t = w.
Proof. intros g t w H. apply derivation_b_spec. exact H. Qed.
Print Assumptions derivation_oracle_sound.

(* Non-vacuity: the real table dumped for  S: 'a' B 'c'; B: EMPTY | 'b';
   (LALR_PAGER) satisfies the hypotheses and the model accepts "a c". *)
Definition ex_g := mkGrammar [mkTerm 100 ANone None; mkTerm 10 ANone (Some 1); mkTerm 10 ANone (Some 1); mkTerm 10 ANone (Some 1)] 4
  [mkProd 5 [6] 10 ANone false false; mkProd 6 [1; 7; 3] 10 ANone false false;
   mkProd 7 [] 10 ANone false false; mkProd 7 [2] 10 ANone false false] None 6.
Definition ex_T := mkTable
  [mkState 5 [mkItem 0 0 [0]; mkItem 1 0 [0]] [[]; [Shift 1]; []; []] [None; None; Some 2; None] [(1, true)] [(1, 10)];
   mkState 1 [mkItem 1 1 [0]; mkItem 2 0 [3]; mkItem 3 0 [3]] [[]; []; [Shift 3]; [Reduce 2 0]] [None; None; None; Some 4] [(2, true); (3, true)] [(2, 10)];
   mkState 6 [mkItem 0 1 [0]] [[Accept]; []; []; []] [None; None; None; None] [(0, false)] [];
   mkState 2 [mkItem 3 1 [3]] [[]; []; []; [Reduce 3 1]] [None; None; None; None] [(3, true)] [];
   mkState 7 [mkItem 1 2 [0]] [[]; []; []; [Shift 5]] [None; None; None; None] [(3, true)] [(3, 10)];
   mkState 3 [mkItem 1 3 [0]] [[Reduce 1 3]; []; []; []] [None; None; None; None] [(0, false)] []]
  None [[0]; [1]; [2]; [3]; [4]; [1]; [1]; [2; 4]] None.

Example lr_sound_nonvacuous :
  wf_grammar_b ex_g = true /\ sound_b ex_g ex_T = true /\
  parse ex_g ex_T false 20 [1; 3] = Ok (Node 1 [Leaf 1; Node 2 []; Leaf 3]) 2.
Proof. vm_compute. repeat split; reflexivity. Qed.
