(* C07 — LR and GLR parsers built from the same deterministic grammar agree.
   Only statements here; proofs are in Proofs/Elide.v.

   PROVED: the comparison relation ("equal except that trailing children
   deriving the empty string may be elided", positions and token values
   included) is an equivalence decided by the normal form aelide, and it
   refines the relation on plain derivation trees, which identifies exactly
   the trees related by dropping trailing empty children (elide_canonical in
   Properties/C03.v).  With lr_unique (Properties/C01.v) the LR tree is THE
   derivation tree.
   NOT PROVED: that the GLR runtime returns that tree; decided by running both
   real runtimes on the same inputs (gen/c07.py). *)
From RV Require Import Spec.Elide Proofs.Elide.

Theorem atree_eq_mod_rn_equiv :
  (forall t, atree_eq_mod_rn t t) /\
  (forall t1 t2, atree_eq_mod_rn t1 t2 -> atree_eq_mod_rn t2 t1) /\
  (forall t1 t2 t3, atree_eq_mod_rn t1 t2 -> atree_eq_mod_rn t2 t3 -> atree_eq_mod_rn t1 t3) /\
  (forall t1 t2, atree_eq_mod_rn_b t1 t2 = true <-> atree_eq_mod_rn t1 t2).
Proof. exact atree_eq_mod_rn_equiv_main. Qed.
Print Assumptions atree_eq_mod_rn_equiv.

Theorem aelide_canonical :
  (forall t, aelide (aelide t) = aelide t) /\
  (forall t, erase (aelide t) = elide (erase t)) /\
  (forall t1 t2, atree_eq_mod_rn t1 t2 -> tree_eq_mod_rn (erase t1) (erase t2)) /\
  (forall t1 t2, tree_eq_mod_rn t1 t2 -> yield t1 = yield t2) /\
  (forall g t1 t2, tree_eq_mod_rn t1 t2 -> root g t1 = root g t2).
Proof.
  exact (conj aelide_idem (conj erase_aelide (conj atree_eq_mod_rn_erase
          (conj tree_eq_mod_rn_yield tree_eq_mod_rn_root)))).
Qed.
Print Assumptions aelide_canonical.

(* Non-vacuity:  S: 'a' A B; A: EMPTY | 'b'; B: EMPTY | 'c';  input "a": the LR
   tree has both empty children, a right-nulled GLR tree may have none. *)
Example atree_eq_mod_rn_nonvacuous :
  atree_eq_mod_rn_b
    (ANode 1 [0;1;0;1;1;1] [ALeaf 1 [0;1;0;1;1;1;97]; ANode 2 [1;1;1;1;1;1] []; ANode 4 [1;1;1;1;1;1] []])
    (ANode 1 [0;1;0;1;1;1] [ALeaf 1 [0;1;0;1;1;1;97]]) = true /\
  atree_eq_mod_rn_b
    (ANode 1 [0;1;0;1;1;1] [ALeaf 1 [0;1;0;1;1;1;97]; ANode 2 [1;1;1;1;1;1] []; ANode 4 [1;1;1;1;1;1] []])
    (ANode 1 [0;1;0;2;1;2] [ALeaf 1 [0;1;0;1;1;1;97]]) = false.
Proof. vm_compute. split; reflexivity. Qed.

(* ------------------------------------------------------------------ *)
(* Agreement of the two TABLES (unbounded): for one grammar, an LR table passing
   sound_b/complete_b and a multi-action right-nulled table passing
   sound_rn_b/complete_rn_b (both booleans are evaluated on the REAL LALR_PAGER and
   LALR_RN tables of every generated grammar, gen/c07.py):
   (1) if the LR machine returns Ok t, the nondeterministic machine over the GLR
       table accepts, and EVERY accepting run returns exactly t (one solution);
   (2) if some run of the GLR machine accepts with t, the LR machine returns Ok t;
   (3) if the LR machine reports an error, no run of the GLR machine accepts.
   NOT proved: that glr/parser.rs enumerates the runs of its table (exploration). *)
From RV Require Import Model.LR Model.NLR Spec.Validators Spec.ValidatorsRN Proofs.Agree.

Theorem tables_agree : forall g Tlr Trn w,
  wf_grammar_b g = true -> sound_b g Tlr = true -> complete_b g Tlr = true ->
  sound_rn_b g Trn = true -> complete_rn_b g Trn = true -> ~ In STOP w ->
  (forall fuel t k, parse g Tlr false fuel w = Ok t k ->
     nrun g Trn false (init 0 w) t (length w) /\
     (forall t' k', nrun g Trn false (init 0 w) t' k' -> t' = t /\ k' = length w)) /\
  (forall t k, nrun g Trn false (init 0 w) t k -> exists fuel, parse g Tlr false fuel w = Ok t (length w)) /\
  (forall fuel k ex t' k', parse g Tlr false fuel w = Err k ex -> ~ nrun g Trn false (init 0 w) t' k').
Proof. exact tables_agree_main. Qed.
Print Assumptions tables_agree.
