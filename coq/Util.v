(* Small list utilities shared by the development (Coq 8.16 stdlib only). *)
From Coq Require Export List Arith Bool Lia PeanoNat.
Export ListNotations.

Definition memb (a : nat) (l : list nat) : bool := existsb (Nat.eqb a) l.

Lemma memb_In a l : memb a l = true <-> In a l.
Proof.
  unfold memb. rewrite existsb_exists. split.
  - intros [x [Hx He]]. apply Nat.eqb_eq in He. subst. exact Hx.
  - intros H. exists a. split; [exact H | apply Nat.eqb_refl].
Qed.

Lemma memb_false a l : memb a l = false <-> ~ In a l.
Proof.
  rewrite <- memb_In. destruct (memb a l); split; intros H; try congruence; try discriminate.
Qed.

Definition subsetb (l1 l2 : list nat) : bool := forallb (fun a => memb a l2) l1.

Lemma subsetb_spec l1 l2 : subsetb l1 l2 = true <-> (forall a, In a l1 -> In a l2).
Proof.
  unfold subsetb. rewrite forallb_forall. split; intros H a Ha.
  - apply memb_In. apply H. exact Ha.
  - apply memb_In. apply H. exact Ha.
Qed.

(* indexed lists *)
Definition indexed {A} (l : list A) : list (nat * A) := combine (seq 0 (length l)) l.

Lemma In_combine_seq {A} (l : list A) : forall k i x,
  In (i, x) (combine (seq k (length l)) l) <-> (k <= i /\ nth_error l (i - k) = Some x).
Proof.
  induction l as [|y l IH]; intros k i x; simpl.
  - split; [tauto|]. intros [_ H]. destruct (i - k); discriminate.
  - rewrite IH. split.
    + intros [H | [Hk Hn]].
      * inversion H; subst. split; [lia|]. rewrite Nat.sub_diag. reflexivity.
      * split; [lia|]. replace (i - k) with (S (i - S k)) by lia. exact Hn.
    + intros [Hk Hn]. destruct (Nat.eq_dec i k) as [->|Hne].
      * rewrite Nat.sub_diag in Hn. simpl in Hn. inversion Hn. left; reflexivity.
      * right. split; [lia|]. replace (i - k) with (S (i - S k)) in Hn by lia. exact Hn.
Qed.

Lemma In_indexed {A} (l : list A) i x : In (i, x) (indexed l) <-> nth_error l i = Some x.
Proof.
  unfold indexed. rewrite In_combine_seq. rewrite Nat.sub_0_r. split; [tauto|]. intros; split; [lia|assumption].
Qed.

Lemma nth_error_nth_default {A} (l : list A) i d x : nth_error l i = Some x -> nth i l d = x.
Proof. revert i; induction l; destruct i; simpl; intros; try discriminate; [congruence|auto]. Qed.

Lemma nth_In_nonempty {A} (l : list (list A)) i x : In x (nth i l []) -> nth_error l i = Some (nth i l []).
Proof.
  revert i; induction l as [|y l IH]; destruct i; simpl; intros H; try contradiction; auto.
Qed.

Lemma firstn_S_nth_error {A} (l : list A) i x :
  nth_error l i = Some x -> firstn (S i) l = firstn i l ++ [x].
Proof.
  revert i; induction l as [|y l IH]; destruct i; simpl; intros H; try discriminate.
  - inversion H; reflexivity.
  - f_equal. apply IH. exact H.
Qed.

Lemma nth_error_skipn {A} (l : list A) n i : nth_error (skipn n l) i = nth_error l (n + i).
Proof. revert l; induction n; destruct l; simpl; auto. destruct i; reflexivity. Qed.

Lemma hd_error_skipn {A} (l : list A) n : hd_error (skipn n l) = nth_error l n.
Proof.
  rewrite <- (Nat.add_0_r n) at 2. rewrite <- nth_error_skipn. destruct (skipn n l); reflexivity.
Qed.

Lemma In_firstn_In {A} (l : list A) n x : In x (firstn n l) -> In x l.
Proof.
  revert l; induction n; destruct l; simpl; intros H; try contradiction.
  destruct H as [H|H]; [left; exact H|right; apply IHn; exact H].
Qed.

Lemma skipn_skipn {A} (x y : nat) (l : list A) : skipn x (skipn y l) = skipn (y + x) l.
Proof.
  revert l; induction y as [|y IH]; intros l; simpl; [reflexivity|].
  destruct l as [|a l]; [rewrite skipn_nil; reflexivity|apply IH].
Qed.

Lemma nth_error_firstn_lt {A} (l : list A) : forall n i, i < n -> nth_error (firstn n l) i = nth_error l i.
Proof.
  induction l as [|x l IH]; intros n i H.
  - rewrite firstn_nil. reflexivity.
  - destruct n; [lia|]. destruct i; simpl; [reflexivity|]. apply IH. lia.
Qed.
