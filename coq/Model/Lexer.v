(* Default string lexer and the parser-side lexical filters
   (rustemo/src/lexer.rs: StringLexer::skip 81-96, TokenIterator 99-151,
    next_tokens 153-183; rustemo/src/lr/parser.rs 214-245 longest match;
    rustemo/src/glr/parser.rs 339-375).

   The recognizers themselves (string prefix test, anchored regex, STOP at end
   of input) are NOT modelled: their measured behaviour on the run's inputs is
   a parameter [mlen : terminal -> option length] (DESIGN.md §4, "external
   behaviour as section variables"), as is the length of the whitespace run. *)
From RV Require Export Model.Table.

(* TokenIterator::next, iterated to exhaustion: recognizers are tried in the
   order of [sorted]; once a recognizer that MATCHED carried finish = true, no
   further recognizer is tried; once something has matched, passing a
   finish-flagged recognizer that does NOT match stops the iteration too (the
   end of a priority group is honoured also when the group's last terminal
   does not match). Result: (kind, match length) in yield order. *)
Fixpoint token_iter_from (mlen : nat -> option nat) (matched : bool) (sorted : list (nat * bool))
  : list (nat * nat) :=
  match sorted with
  | [] => []
  | (t, fin) :: rest =>
      match mlen t with
      | Some n => (t, n) :: (if fin then [] else token_iter_from mlen true rest)
      | None => if matched && fin then [] else token_iter_from mlen matched rest
      end
  end.

Definition token_iter (mlen : nat -> option nat) (sorted : list (nat * bool)) : list (nat * nat) :=
  token_iter_from mlen false sorted.

Definition max_len (toks : list (nat * nat)) : nat :=
  fold_left (fun m '(_, n) => Nat.max m n) toks 0.

(* LRParser::next_token's choice among the lexer's candidates *)
Definition lr_pick (longest : bool) (toks : list (nat * nat)) : option (nat * nat) :=
  if longest then
    match toks with
    | [] => None
    | [x] => Some x
    | _ => hd_error (filter (fun '(_, n) => n =? max_len toks) toks)
    end
  else hd_error toks.

(* GlrParser::find_lookaheads' choice: every survivor is followed *)
Definition glr_pick (longest grammar_order : bool) (toks : list (nat * nat)) : list (nat * nat) :=
  let l1 := if longest then
              match toks with
              | [] | [_] => toks
              | _ => filter (fun '(_, n) => n =? max_len toks) toks
              end
            else toks in
  if grammar_order then firstn 1 l1 else l1.
