(* The nondeterministic LR machine a GLR parser explores: every action of a
   multi-action cell is a possible move; reductions may be right-nulled
   (Reduce p len with len <= |rhs p|: the elided trailing children are the
   derivations of the empty string of the nullable tail, [eps_trees]).

   rustemo/src/glr/parser.rs explores these moves with a graph-structured
   stack; the SET of accepting runs of this machine is what its forest has to
   contain (Properties/C03.v: nlr_sound - every accepting run returns a
   derivation tree of the consumed input - for every table that passes
   [sound_rn_b]).  [nruns] enumerates the accepting runs (fuel = longest run
   considered) and is compared with the real forest in gen/c03.py. *)
From RV Require Export Model.LR Spec.Enumerate.

Definition P_EPS := 8.   (* nullable tail without a derivation of the empty string *)

Definition act_step (g : grammar) (T : table) (c : conf) (a : nat) (real : bool) (act : action) : sres :=
  match act with
  | Shift s' =>
      Next (mkConf (s' :: c_stk c) (Leaf a :: c_trs c)
                   (if real then tl (c_inp c) else c_inp c)
                   (if real then S (c_pos c) else c_pos c))
  | Reduce p len =>
      if length (c_stk c) <=? len then Done (Panic P_POP)
      else
        let stk' := skipn len (c_stk c) in
        match stk' with
        | [] => Done (Panic P_POP)
        | from :: _ =>
            match goto T from (lhs g p - g_nterm g) with
            | None => Done (Panic P_GOTO)
            | Some s' =>
                if length (c_trs c) <? len then Done (Panic P_BUILDER)
                else
                  match eps_trees g (skipn len (rhs g p)) with
                  | None => Done (Panic P_EPS)
                  | Some ts =>
                      Next (mkConf (s' :: stk')
                                   (Node p (rev (firstn len (c_trs c)) ++ ts) :: skipn len (c_trs c))
                                   (c_inp c) (c_pos c))
                  end
            end
        end
  | Accept =>
      match c_trs c with
      | t :: _ => Done (Ok t (c_pos c))
      | [] => Done (Panic P_RESULT)
      end
  end.

(* an accepting run from c returning tree t after consuming k tokens *)
Inductive nrun (g : grammar) (T : table) (partial : bool) : conf -> tree -> nat -> Prop :=
| NR_next c s stk a real act c' t k :
    c_stk c = s :: stk -> next_tok T partial s (c_inp c) = Tok a real ->
    In act (cell T s a) -> act_step g T c a real act = Next c' ->
    nrun g T partial c' t k -> nrun g T partial c t k
| NR_done c s stk a real act t k :
    c_stk c = s :: stk -> next_tok T partial s (c_inp c) = Tok a real ->
    In act (cell T s a) -> act_step g T c a real act = Done (Ok t k) ->
    nrun g T partial c t k.

(* all accepting runs of at most [fuel] moves, in the order of the cells *)
Fixpoint nruns (g : grammar) (T : table) (partial : bool) (fuel : nat) (c : conf) : list (tree * nat) :=
  match fuel with
  | 0 => []
  | S f =>
      match c_stk c with
      | [] => []
      | s :: _ =>
          match next_tok T partial s (c_inp c) with
          | NoTok => []
          | Tok a real =>
              flat_map (fun act =>
                          match act_step g T c a real act with
                          | Next c' => nruns g T partial f c'
                          | Done (Ok t k) => [(t, k)]
                          | Done _ => []
                          end) (cell T s a)
          end
      end
  end.

(* some run does not finish within the fuel (the enumeration may be incomplete) *)
Fixpoint nruns_cut (g : grammar) (T : table) (partial : bool) (fuel : nat) (c : conf) : bool :=
  match fuel with
  | 0 => true
  | S f =>
      match c_stk c with
      | [] => false
      | s :: _ =>
          match next_tok T partial s (c_inp c) with
          | NoTok => false
          | Tok a real =>
              existsb (fun act =>
                         match act_step g T c a real act with
                         | Next c' => nruns_cut g T partial f c'
                         | Done _ => false
                         end) (cell T s a)
          end
      end
  end.

Definition nparse (g : grammar) (T : table) (partial : bool) (fuel : nat) (w : list nat) : list (tree * nat) :=
  nruns g T partial fuel (init 0 w).
