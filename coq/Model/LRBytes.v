(* Byte-level model of the LR runtime with the default string lexer, positions,
   spans, layout (whitespace skipping and a Layout rule parsed by a nested LR
   parser with the SliceBuilder).

   Mirrors rustemo/src/lr/parser.rs (ParseStack 55-112, next_token 198-291,
   parse / parse_with_context 293-419), lr/context.rs, lr/builder.rs
   (TreeBuilder 86-110, SliceBuilder 126-171), lexer.rs (skip, TokenIterator),
   input.rs (position_after 105-125).

   Not modelled: the recognizers and `char::is_whitespace`. Their measured
   behaviour on the run's input is the parameter [mt : mtable]:
   offset -> (length of the whitespace run, [(terminal, match length)]). *)
From RV Require Export Model.Table Model.Lexer Model.LR.

Record pos := mkPos { p_off : nat; p_line : nat; p_col : nat }.
Record span := mkSpan { sp_start : pos; sp_end : pos }.
Definition slice := (nat * nat)%type.   (* (start offset, length) in the input *)

Definition NL : nat := 10.

(* rposition of a newline, as the number of bytes after it *)
Fixpoint last_nl_tail (l : list nat) (acc : option nat) : option nat :=
  match l with
  | [] => acc
  | c :: r => last_nl_tail r (if c =? NL then Some (length r) else acc)
  end.

(* str::position_after (input.rs 105-125) for a slice given as its bytes *)
Definition position_after (bytes : list nat) (p : pos) : pos :=
  let n := length bytes in
  let nls := length (filter (fun c => c =? NL) bytes) in
  mkPos (p_off p + n) (p_line p + nls)
        (match last_nl_tail bytes None with Some k => k | None => p_col p + n end).

Definition sub (inp : list nat) (s : slice) : list nat := firstn (snd s) (skipn (fst s) inp).

Definition mtable := list (nat * (nat * list (nat * nat))).

Definition mt_lookup (mt : mtable) (off : nat) : nat * list (nat * nat) :=
  match find (fun e => fst e =? off) mt with
  | Some (_, r) => r
  | None => (0, [])
  end.
Definition ws_len (mt : mtable) (off : nat) : nat := fst (mt_lookup mt off).
Definition match_len (mt : mtable) (off t : nat) : option nat :=
  match find (fun e => fst e =? t) (snd (mt_lookup mt off)) with
  | Some (_, n) => Some n
  | None => None
  end.

Inductive btree :=
| BLeaf (kind : nat) (sp : span) (layout : option slice) (value : slice)
| BNode (prod : nat) (sp : span) (layout : option slice) (cs : list btree).

Definition btree_layout (t : btree) : option slice :=
  match t with BLeaf _ _ l _ => l | BNode _ _ l _ => l end.

Record ctxt := mkCtx {
  cx_pos : pos;
  cx_span : span;
  cx_layout : option slice;
  cx_state : nat
}.

Record token := mkTok { tk_kind : nat; tk_val : slice; tk_span : span }.

Inductive bout :=
| BOk (t : btree)
| BOkSlice (s : option slice)
| BErr (p : pos) (exp : list nat)
| BErrNoAction
| BPanic (site : nat)
| BOutOfFuel.

Record bcfg := mkCfg {
  bc_partial : bool;
  bc_skip_ws : bool;
  bc_longest : bool;
  bc_has_layout : bool
}.

Section Run.
Variable g : grammar.
Variable T : table.
Variable inp : list nat.
Variable mt : mtable.

Definition sorted_of (s : nat) : list (nat * bool) :=
  match get_state T s with Some st => s_sorted st | None => [] end.

(* StringLexer::skip *)
Definition skip (cx : ctxt) : ctxt :=
  let n := ws_len mt (p_off (cx_pos cx)) in
  if 0 <? n then
    let sl := (p_off (cx_pos cx), n) in
    mkCtx (position_after (sub inp sl) (cx_pos cx)) (cx_span cx) (Some sl) (cx_state cx)
  else mkCtx (cx_pos cx) (cx_span cx) None (cx_state cx).

Definition mk_token (p : pos) (kn : nat * nat) : token :=
  let sl := (p_off p, snd kn) in
  mkTok (fst kn) sl (mkSpan p (position_after (sub inp sl) p)).

Inductive tokres := TOk (t : token) | TErr (p : pos) (exp : list nat) | TPanic (site : nat).

(* result of running the layout parser on the context *)
Definition layres := (option (option slice) * ctxt)%type.  (* (Ok(slice) | Err, context after) *)

(* LRParser::next_token; [nfuel] bounds the "layout parsed, try again" loop *)
Fixpoint next_token (nfuel : nat) (cfg : bcfg) (layp : option (ctxt -> layres)) (cx : ctxt)
  : option (tokres * ctxt) :=   (* None = out of fuel *)
  match nfuel with
  | 0 => None
  | S nf =>
      let cx1 := if bc_skip_ws cfg then skip cx else cx in
      let sorted := sorted_of (cx_state cx1) in
      let toks := token_iter (match_len mt (p_off (cx_pos cx1))) sorted in
      match lr_pick (bc_longest cfg) toks with
      | Some kn => Some (TOk (mk_token (cx_pos cx1) kn), cx1)
      | None =>
          let fallback (cx2 : ctxt) :=
            let exp := map fst (sorted_of (cx_state cx2)) in
            if bc_partial cfg && memb STOP exp then
              Some (TOk (mkTok STOP (p_off (cx_pos cx2), 0) (cx_span cx2)), cx2)
            else Some (TErr (cx_pos cx2) exp, cx2) in
          (* layout is parsed only if none was parsed since the last shift (layout_ahead is None) *)
          match (match cx_layout cx1 with None => layp | Some _ => None end), t_layout T with
          | Some lp, Some ls =>
              let cur := cx_state cx1 in
              let '(r, cx2) := lp (mkCtx (cx_pos cx1) (cx_span cx1) (cx_layout cx1) ls) in
              (* state and span are saved before and restored after the layout parser runs *)
              let cx3 := mkCtx (cx_pos cx2) (cx_span cx1) (cx_layout cx2) cur in
              match r with
              | Some (Some sl) =>
                  if 0 <? snd sl then
                    (* layout is parsed at most once before a token: the retry has no layout parser *)
                    next_token nf cfg None (mkCtx (cx_pos cx3) (cx_span cx3) (Some sl) cur)
                  else fallback cx3
              | _ => fallback cx3
              end
          | Some _, None => Some (TPanic 7, cx1)  (* default_layout().unwrap() *)
          | None, _ => fallback cx1
          end
      end
  end.

Record bconf := mkBConf {
  b_stk : list (nat * span);   (* ParseStack, top first *)
  b_trs : list btree;          (* TreeBuilder.res_stack, top first *)
  b_slice : option slice;      (* SliceBuilder.slice *)
  b_cx : ctxt;
  b_tok : token                (* next_token *)
}.


Inductive bsres := BNext (c : bconf) | BDone (o : bout) (cx : ctxt).

(* one turn of the loop in parse_with_context; [lex] is next_token already
   supplied with fuel, configuration and layout parser *)
Definition bstep (islayout : bool) (lex : ctxt -> option (tokres * ctxt)) (c : bconf) : option bsres :=
  match b_stk c with
  | [] => Some (BDone (BPanic P_EMPTY_STACK) (b_cx c))
  | (s, _) :: _ =>
      match cell T s (tk_kind (b_tok c)) with
      | [] => Some (BDone BErrNoAction (b_cx c))
      | Shift s' :: _ =>
          let cx := b_cx c in
          let newp := position_after (sub inp (tk_val (b_tok c))) (cx_pos cx) in
          let sp := mkSpan (cx_pos cx) newp in
          let cx1 := mkCtx newp sp None s' in   (* layout consumed by the shifted token *)
          let leaf := BLeaf (tk_kind (b_tok c)) (tk_span (b_tok c)) (cx_layout cx) (tk_val (b_tok c)) in
          match lex cx1 with
          | None => None
          | Some (TErr p ex, cx2) => Some (BDone (BErr p ex) cx2)
          | Some (TPanic n, cx2) => Some (BDone (BPanic n) cx2)
          | Some (TOk tk, cx2) =>
              Some (BNext (mkBConf ((s', sp) :: b_stk c) (leaf :: b_trs c) (b_slice c) cx2 tk))
          end
      | Reduce p len :: _ =>
          if length (b_stk c) <=? len then Some (BDone (BPanic P_POP) (b_cx c))
          else
            let removed := firstn len (b_stk c) in   (* top first: last pushed first *)
            let stk' := skipn len (b_stk c) in
            match stk' with
            | [] => Some (BDone (BPanic P_POP) (b_cx c))
            | (from, _) :: _ =>
                let cx := b_cx c in
                let sp :=
                  match removed with
                  | [] => mkSpan (sp_end (cx_span cx)) (sp_end (cx_span cx))
                  | (_, lastsp) :: _ =>
                      mkSpan (sp_start (snd (last removed (0, lastsp)))) (sp_end lastsp)
                  end in
                match goto T from (lhs g p - g_nterm g) with
                | None => Some (BDone (BPanic P_GOTO) (b_cx c))
                | Some s' =>
                    if (negb islayout) && (length (b_trs c) <? len) then Some (BDone (BPanic P_BUILDER) (b_cx c))
                    else
                      let children := rev (firstn len (b_trs c)) in
                      let lay := match children with [] => None | ch :: _ => btree_layout ch end in
                      let node := BNode p sp lay children in
                      let trs' := if islayout then b_trs c else node :: skipn len (b_trs c) in
                      let sl' := if islayout
                                 then Some (p_off (sp_start sp), p_off (sp_end sp) - p_off (sp_start sp))
                                 else b_slice c in
                      (* context span is the node span only during push/reduce_action *)
                      let cx1 := mkCtx (cx_pos cx) (cx_span cx) (cx_layout cx) s' in
                      match lex cx1 with
                      | None => None
                      | Some (TErr pe ex, cx2) => Some (BDone (BErr pe ex) cx2)
                      | Some (TPanic n, cx2) => Some (BDone (BPanic n) cx2)
                      | Some (TOk tk, cx2) =>
                          let cx3 := mkCtx (cx_pos cx2) (cx_span cx2) (cx_layout cx) (cx_state cx2) in
                          Some (BNext (mkBConf ((s', sp) :: stk') trs' sl' cx3 tk))
                      end
                end
            end
      | Accept :: _ =>
          if islayout then Some (BDone (BOkSlice (b_slice c)) (b_cx c))
          else
            match b_trs c with
            | t :: _ => Some (BDone (BOk t) (b_cx c))
            | [] => Some (BDone (BPanic P_RESULT) (b_cx c))
            end
      end
  end.

Fixpoint bloop (fuel : nat) (islayout : bool) (lex : ctxt -> option (tokres * ctxt)) (c : bconf)
  : bout * ctxt :=
  match fuel with
  | 0 => (BOutOfFuel, b_cx c)
  | S f =>
      match bstep islayout lex c with
      | None => (BOutOfFuel, b_cx c)
      | Some (BDone o cx) => (o, cx)
      | Some (BNext c') => bloop f islayout lex c'
      end
  end.

(* parse_with_context: fresh stack from the context, first token, loop *)
Definition bparse_ctx (fuel : nat) (islayout : bool) (lex : ctxt -> option (tokres * ctxt))
           (start : nat) (cx : ctxt) : bout * ctxt :=
  match lex cx with
  | None => (BOutOfFuel, cx)
  | Some (TErr p ex, cx1) => (BErr p ex, cx1)
  | Some (TPanic n, cx1) => (BPanic n, cx1)
  | Some (TOk tk, cx1) =>
      bloop fuel islayout lex (mkBConf [(start, cx_span cx)] [] None cx1 tk)
  end.

(* the layout parser: same definition, start = layout state, partial = true,
   no layout parser of its own, SliceBuilder *)
Definition layout_parser (fuel : nat) (cfg : bcfg) (cx : ctxt) : layres :=
  let lcfg := mkCfg true (bc_skip_ws cfg) (bc_longest cfg) false in
  match t_layout T with
  | None => (None, cx)
  | Some ls =>
      let '(o, cx') := bparse_ctx fuel true (next_token 1 lcfg None) ls cx in
      match o with
      | BOkSlice s => (Some s, cx')
      | _ => (None, cx')
      end
  end.

Definition start_pos : pos := mkPos 0 1 0.

Definition bparse (fuel : nat) (cfg : bcfg) : bout :=
  let layp := if bc_has_layout cfg then Some (layout_parser fuel cfg) else None in
  let cx0 := mkCtx start_pos (mkSpan start_pos start_pos) None 0 in
  fst (bparse_ctx fuel false (next_token fuel cfg layp) 0 cx0).

End Run.
