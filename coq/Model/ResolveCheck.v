(* Oracle check of real table cells against the DOCUMENTED rules (Spec/ResolveSpec.v),
   not against the model of the code: for every (state, terminal) on which exactly
   two candidate actions compete -- one Shift and one reduction, or two reductions --
   the cell the documentation prescribes is computed with [decide] / [decide_rr] and
   compared with the real (dumped) cell. Used by gen/c05.py on every real dump.
   The priority of the shift is taken from the items (maxprio_of_items, proved to be
   the maximum by shift_prio_is_max), not from the dump. No proofs in this file. *)
From RV Require Export Model.Resolve Spec.ResolveSpec.

(* the item contributes Reduce(prod, position) in calculate_reductions *)
Definition reducing_b (g : grammar) (rn : option (list nat)) (it : item) : bool :=
  match get_prod g (i_prod it) with
  | Some pr =>
      match item_reducing rn it (length (p_rhs pr)) with
      | MDone b => b && negb (is_aug_lhs g (p_lhs pr))
      | MPanic _ => false
      end
  | None => false
  end.

(* the item contributes Accept *)
Definition accepting_b (g : grammar) (it : item) : bool :=
  match get_prod g (i_prod it) with
  | Some pr => is_aug_lhs g (p_lhs pr) && (i_pos it =? length (p_rhs pr))
  | None => false
  end.

Definition candidates (g : grammar) (rn : option (list nat)) (st : state) (a : nat) : list item :=
  filter (fun it => reducing_b g rn it && memb a (i_follow it)) (s_items st).

(* number of candidate actions of the cell before resolution *)
Definition ncandidates (g : grammar) (rn : option (list nat)) (st : state) (a : nat) : nat :=
  length (candidates g rn st a) +
  (if memb a (next_syms g st) then 1 else 0) +
  (if (a =? STOP) && existsb (accepting_b g) (s_items st) then 1 else 0).

(* 0 = not a two-candidate conflict (or Accept involved)
   1 = shift/reduce, real cell is the documented one
   3 = shift/reduce, real cell differs
   4 = lookup failure (malformed dump)
   5 = reduce/reduce, real cell is the documented one
   6 = reduce/reduce, real cell differs *)
Definition doc_cell_code (g : grammar) (cfg : rsettings) (rn : option (list nat)) (st : state) (a : nat) : nat :=
  let real := nth a (s_actions st) [] in
  let has_shift := memb a (next_syms g st) in
  let has_accept := (a =? STOP) && existsb (accepting_b g) (s_items st) in
  if has_accept then 0
  else
    match candidates g rn st a with
    | [it] =>
        if has_shift then
          match get_prod g (i_prod it), nth_error (g_terms g) a,
                alookup a (maxprio_of_items g (s_items st)) with
          | Some pr, Some tm, Some sprio =>
              let d := decide (p_prio pr) sprio (p_assoc pr) (t_assoc tm) (rhs_is_empty pr)
                              (rs_prefer_shifts cfg) (rs_prefer_shifts_over_empty cfg)
                              (p_nops pr) (p_nopse pr) in
              let expected := apply_decision d (Shift (shift_target real)) (Reduce (i_prod it) (i_pos it)) in
              if list_eqb action_eqb real expected then 1 else 3
          | _, _, _ => 4
          end
        else 0
    | [it1; it2] =>
        if has_shift then 0
        else
          match get_prod g (i_prod it1), get_prod g (i_prod it2) with
          | Some pr1, Some pr2 =>
              let r1 := Reduce (i_prod it1) (i_pos it1) in
              let r2 := Reduce (i_prod it2) (i_pos it2) in
              let expected := apply_rr (decide_rr (p_prio pr2) [p_prio pr1] (rs_glr cfg))
                                       (0 <? length (p_rhs pr2)) [r1] r2 in
              if list_eqb action_eqb real expected then 5 else 6
          | _, _ => 4
          end
    | _ => 0
    end.

Definition doc_report (g : grammar) (cfg : rsettings) (T : table) : list (list nat) :=
  map (fun st => map (doc_cell_code g cfg (t_rn T) st) (seq 0 (g_nterm g))) (t_states T).

(* number of candidates per cell, for the coverage figures *)
Definition cand_report (g : grammar) (T : table) : list (list nat) :=
  map (fun st => map (ncandidates g (t_rn T) st) (seq 0 (g_nterm g))) (t_states T).
