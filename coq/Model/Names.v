(* Choice-name de-duplication of the default AST types:
   rustemo-compiler/src/grammar/types/mod.rs:448-474 (Choice::make_choices_name_unique).

     let mut name_counts: HashMap<String, usize> = ...count every name...;
     name_counts.iter().filter(|&(_, count)| *count > 1).for_each(|(name, _)| {
         choices.iter_mut().filter(|c| c.name == *name).enumerate()
                .for_each(|(idx, c)| c.name.push_str(&(idx + 1).to_string()));
     });

   The counts are taken once, before any renaming; the renaming loop runs over the HashMap in
   its (unspecified) iteration order and compares against the CURRENT names. The iteration
   order is the explicit argument `order` (a duplicate-free list of the distinct names).
   Executable definitions only; lemmas are in Proofs/Names.v. *)
From Coq Require Export String Ascii Decimal DecimalString DecimalNat.
From RV Require Export Util.

(* `(idx + 1).to_string()` *)
Definition dec (n : nat) : string := NilEmpty.string_of_uint (Nat.to_uint n).

Definition count_name (n : string) (cs : list string) : nat := length (filter (String.eqb n) cs).

Definition duplicated (cs : list string) (n : string) : bool := 1 <? count_name n cs.

(* one pass of the inner loop for `name`; k = number of choices already renamed in this pass *)
Fixpoint rename_from (name : string) (k : nat) (cs : list string) : list string :=
  match cs with
  | [] => []
  | c :: r => if String.eqb c name then (c ++ dec (S k))%string :: rename_from name (S k) r
              else c :: rename_from name k r
  end.

Definition make_unique (order : list string) (cs : list string) : list string :=
  fold_left (fun acc n => rename_from n 0 acc) (filter (duplicated cs) order) cs.

(* ------------------------------------------------------------------ decidable helpers *)
Definition mem_str (x : string) (l : list string) : bool := existsb (String.eqb x) l.

Fixpoint nodup_b (l : list string) : bool :=
  match l with
  | [] => true
  | x :: r => negb (mem_str x r) && nodup_b r
  end.

Fixpoint is_prefix (a b : string) : bool :=
  match a, b with
  | EmptyString, _ => true
  | String x a', String y b' => Ascii.eqb x y && is_prefix a' b'
  | String _ _, EmptyString => false
  end.

Definition proper_prefixb (a b : string) : bool := is_prefix a b && negb (String.eqb a b).

(* the known class of inputs on which the de-duplication can produce equal names: some name that
   occurs more than once is a proper prefix of another name of the same rule (X, X, X1) *)
Definition prefix_clash_b (cs : list string) : bool :=
  existsb (fun n => duplicated cs n && existsb (proper_prefixb n) cs) cs.

(* what the loop computes when no clash interferes: position-wise, every occurrence of a
   duplicated name gets its 1-based rank among the occurrences of that name *)
Fixpoint ranked (D seen cs : list string) : list string :=
  match cs with
  | [] => []
  | c :: r => (if mem_str c D then (c ++ dec (S (count_name c seen)))%string else c) :: ranked D (c :: seen) r
  end.
