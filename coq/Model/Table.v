(* Plain-data view of rustemo-compiler's LRTable as dumped by the `verif` hook
   (rustemo-compiler/src/table/verif.rs): states with items + lookaheads,
   action cells in stored order, gotos, sorted terminals with finish flags. *)
From RV Require Export Spec.Grammar.

Inductive action := Shift (s : nat) | Reduce (p len : nat) | Accept.

Record item := mkItem { i_prod : nat; i_pos : nat; i_follow : list nat }.

Record state := mkState {
  s_sym : nat;                        (* LRState.symbol *)
  s_items : list item;                (* LRState.items, in stored order *)
  s_actions : list (list action);     (* LRState.actions, indexed by terminal *)
  s_gotos : list (option nat);        (* LRState.gotos, indexed by nonterminal *)
  s_sorted : list (nat * bool);       (* LRState.sorted_terminals *)
  s_maxprio : list (nat * nat)        (* LRState.max_prior_for_term *)
}.

Record table := mkTable {
  t_states : list state;
  t_layout : option nat;              (* LRTable.layout_state *)
  t_first : list (list nat);          (* LRTable.first_sets, indexed by symbol *)
  t_rn : option (list nat)            (* LRTable.production_rn_lengths *)
}.

Definition get_state (T : table) (s : nat) : option state := nth_error (t_states T) s.

(* ParserDefinition::actions(state, token): the cell, empty when no action *)
Definition cell (T : table) (s a : nat) : list action :=
  match get_state T s with
  | Some st => nth a (s_actions st) []
  | None => []
  end.

(* ParserDefinition::goto(state, nonterm); None = the generated code panics *)
Definition goto (T : table) (s n : nat) : option nat :=
  match get_state T s with
  | Some st => match nth_error (s_gotos st) n with Some o => o | None => None end
  | None => None
  end.

(* ParserDefinition::expected_token_kinds(state) without the finish flags *)
Definition expected (T : table) (s : nat) : list nat :=
  match get_state T s with
  | Some st => map fst (s_sorted st)
  | None => []
  end.

Definition action_eqb (x y : action) : bool :=
  match x, y with
  | Shift a, Shift b => a =? b
  | Reduce p l, Reduce q m => (p =? q) && (l =? m)
  | Accept, Accept => true
  | _, _ => false
  end.

Lemma action_eqb_eq x y : action_eqb x y = true <-> x = y.
Proof.
  destruct x, y; simpl; try (split; [discriminate | intros H; inversion H]).
  - rewrite Nat.eqb_eq. split; [intros ->; reflexivity | intros H; inversion H; reflexivity].
  - rewrite andb_true_iff, !Nat.eqb_eq. split; [intros [-> ->]; reflexivity | intros H; inversion H; auto].
  - split; auto.
Qed.

(* all outgoing transitions (symbol, target) of a state *)
Definition shifts_of (a : nat) (acts : list action) : list (nat * nat) :=
  flat_map (fun x => match x with Shift s' => [(a, s')] | _ => [] end) acts.

Definition gotos_of (nterm n : nat) (o : option nat) : list (nat * nat) :=
  match o with Some s' => [(nterm + n, s')] | None => [] end.

Definition trans_list (nterm : nat) (st : state) : list (nat * nat) :=
  flat_map (fun '(a, acts) => shifts_of a acts) (indexed (s_actions st)) ++
  flat_map (fun '(n, o) => gotos_of nterm n o) (indexed (s_gotos st)).

Definition find_item (st : state) (p i : nat) : option item :=
  find (fun it => (i_prod it =? p) && (i_pos it =? i)) (s_items st).

Definition has_itemb (st : state) (p i : nat) : bool :=
  match find_item st p i with Some _ => true | None => false end.
