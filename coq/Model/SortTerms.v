(* Executable mirror of LRTable::sort_terminals
   (rustemo-compiler/src/table/mod.rs 910-962).

   For every state: the terminals with a non-empty action cell, in index
   order, are sorted with Rust's `sort_by` (a STABLE sort) by the key
       term.prio * 1000 + (most_specific ? byte length of a string recognizer : 0)
   in DESCENDING order; then the finish flags are computed by one left-to-right
   pass: finish = most_specific && string recognizer; in addition the element
   pushed just before a change of priority gets its flag or-ed with true.

   `sort_by` itself is a library function; it is modelled by a stable insertion
   sort. Proofs/Lexer.v proves that a stable sort by a key is unique
   (sort_unique), so any stable sort gives this list; that Rust's is one is
   checked by the correspondence [sorted_ok_b] on every real dump.

   Not modelled: u32 wrap-around of the key (needs a string recognizer of
   about 4e9 bytes; terminal priorities are at most 100). *)
From Coq Require Export NArith.
From RV Require Export Model.Table Model.Lexer.

Notation entry := (nat * term)%type (only parsing).   (* (terminal index, Terminal data) *)

(* the closure `term_prio` of sort_terminals (u32 arithmetic; binary numbers so
   that the model can be evaluated on real dumps: STOP has priority 100) *)
Definition term_key (ms : bool) (t : term) : N :=
  (N.of_nat (t_prio t) * 1000 +
   (if ms then match t_strlen t with Some n => N.of_nat n | None => 0 end else 0))%N.

Definition is_str (t : term) : bool :=
  match t_strlen t with Some _ => true | None => false end.

(* stable sort, descending by [key]: an element is moved in front of the
   elements that followed it originally only if its key is strictly larger *)
Section StableSort.
  Variable A : Type.
  Variable key : A -> N.

  Fixpoint insert_desc (x : A) (l : list A) : list A :=
    match l with
    | [] => [x]
    | y :: r => if (key x <? key y)%N then y :: insert_desc x r else x :: l
    end.

  Definition ssort (l : list A) : list A := fold_right insert_desc [] l.
End StableSort.
Arguments insert_desc {A}.
Arguments ssort {A}.

(* state.actions.iter().enumerate().filter(non-empty).map(term_by_index):
   None = the index panic of term_by_index (cell vector longer than the
   terminal vector) *)
Fixpoint collect_terms (g : grammar) (idx : nat) (cells : list (list action)) : option (list entry) :=
  match cells with
  | [] => Some []
  | c :: r =>
      match c with
      | [] => collect_terms g (idx + 1) r
      | _ :: _ =>
          match nth_error (g_terms g) idx, collect_terms g (idx + 1) r with
          | Some t, Some l => Some ((idx, t) :: l)
          | _, _ => None
          end
      end
  end.

(* the "Calculate finish flags" loop, literally: accumulator = the vector
   built so far (most recent element first) and last_prio *)
Definition flag_step (ms : bool) (acc : list (nat * bool) * option nat) (x : entry)
  : list (nat * bool) * option nat :=
  let '(out, last_prio) := acc in
  let finish := ms && is_str (snd x) in
  let last_finish := match last_prio with
                     | Some p => negb (t_prio (snd x) =? p)
                     | None => false
                     end in
  let out' := match out with
              | (t, f) :: r => (t, f || last_finish) :: r
              | [] => []
              end in
  ((fst x, finish) :: out', Some (t_prio (snd x))).

Definition finish_flags (ms : bool) (l : list entry) : list (nat * bool) :=
  rev (fst (fold_left (flag_step ms) l ([], None))).

(* sort + flags for the expected terminals of one state *)
Definition sort_flags (ms : bool) (terms : list entry) : list (nat * bool) :=
  finish_flags ms (ssort (fun x => term_key ms (snd x)) terms).

Definition sort_terminals (g : grammar) (ms : bool) (st : state) : option (list (nat * bool)) :=
  match collect_terms g 0 (s_actions st) with
  | Some terms => Some (sort_flags ms terms)
  | None => None
  end.

Definition sorted_eqb (a b : list (nat * bool)) : bool :=
  (length a =? length b) &&
  forallb (fun '((t, f), (t', f')) => (t =? t') && Bool.eqb f f') (combine a b).

(* correspondence boolean evaluated on real dumps: the dumped
   LRState.sorted_terminals of every state is exactly the model's result *)
Definition sorted_ok_b (g : grammar) (ms : bool) (T : table) : bool :=
  forallb (fun st => match sort_terminals g ms st with
                     | Some l => sorted_eqb l (s_sorted st)
                     | None => false
                     end) (t_states T).

(* the lexer pipelines of the two runtimes on the expected terminals of a
   state: sort_terminals, then TokenIterator, then the parser-side filter *)
Definition lex_lr (ms lm : bool) (terms : list entry) (mlen : nat -> option nat) : option (nat * nat) :=
  lr_pick lm (token_iter mlen (sort_flags ms terms)).

Definition lex_glr (ms lm go : bool) (terms : list entry) (mlen : nat -> option nat) : list (nat * nat) :=
  glr_pick lm go (token_iter mlen (sort_flags ms terms)).
