(* The generated actions of a vector-shaped rule (SymbolTypeKind::Vec), as written by
   rustemo-compiler/src/generator/actions/production.rs:344-419 (after commit efbb959) for a rule

       @vec A: A B | B;        (left recursive)      or      @vec A: B A | B;   (right recursive)
       (optionally with an EMPTY alternative)

   For a two-field choice [a; b] (fields in right-hand-side order) the generated body is

       let right_recursive = b.ref_type == nonterminal.name;
       if right_recursive { (a_i, b_i) = (b_i, a_i) }            // a_i is the vector
       if right_recursive { a_i.insert(0, b_i) } else { a_i.push(b_i) };  a_i

   (with `Box::new(b_i)` when the element type is boxed): the element is appended for the
   left-recursive alternative and inserted at the front for the right-recursive one, because
   there the recursive part holds the elements that FOLLOW in the input.
   Single-field choice: vec![a]; EMPTY: vec![]. Elements are opaque here (their own values are
   built by other actions); `nat` stands for an element value.
   Executable definitions only; lemmas are in Proofs/DefaultBuilder.v. *)
From RV Require Export Util.

(* derivation trees of a vector rule A over elements B *)
Inductive vtree :=
| VEmpty                          (* A: EMPTY *)
| VOne (x : nat)                  (* A: B *)
| VLeft (t : vtree) (x : nat)     (* A: A B *)
| VRight (x : nat) (t : vtree).   (* A: B A *)

(* the elements in input order (the yield of the tree, element-wise) *)
Fixpoint elems (t : vtree) : list nat :=
  match t with
  | VEmpty => []
  | VOne x => [x]
  | VLeft t x => elems t ++ [x]
  | VRight x t => x :: elems t
  end.

(* a field of the two-field choice: either the recursive reference (its value is a vector) or an element *)
Inductive field := FVec (v : list nat) | FElem (x : nat).

Inductive bres := BVal (v : list nat) | BPanic (site : nat).

(* the generated two-field action `[a, b] => ...`. `right_recursive` is "the second field is the
   recursive reference". A choice with two elements or two vectors is not a Vec-kind rule
   (get_type_kind never produces it): site 1. *)
Definition vec_action2 (a b : field) : bres :=
  match a, b with
  | FVec v, FElem x => BVal (v ++ [x])      (* not right recursive: a_i = a; a_i.push(b_i) *)
  | FElem x, FVec v => BVal (x :: v)        (* right recursive: a_i = b; a_i.insert(0, b_i) *)
  | _, _ => BPanic 1
  end.

Fixpoint build_vec (t : vtree) : bres :=
  match t with
  | VEmpty => BVal []
  | VOne x => BVal [x]
  | VLeft t x => match build_vec t with BVal v => vec_action2 (FVec v) (FElem x) | BPanic k => BPanic k end
  | VRight x t => match build_vec t with BVal v => vec_action2 (FElem x) (FVec v) | BPanic k => BPanic k end
  end.
