(* Model of rustemo's shared packed parse forest and of tree extraction
   (rustemo/src/glr/gss.rs):

     SPPFTree (289-310), SPPFTree::solutions (317-325), Parent::solutions (504-510),
     Tree::children (568-597), Tree::build / build_inner (600-634),
     Tree::find_tree_root (639-659), Forest::get_tree / solutions (700-713),
     ForestIterator::next (803-809); TreeBuilder (lr/builder.rs 66-110).

   The Rust value is a graph of Rc pointers.  All functions modelled here are
   pure recursive functions of the pointed-to structure (sharing is not
   observable by them; only [ambiguities] looks at pointer identity and is not
   modelled), so the model value is the unfolding of that graph: the nested
   inductive type [sppf].  A value of an inductive type is acyclic by
   construction; the dumped graph (node/parent ids) is turned into such a value
   by the fuelled Gallina function [unfold_forest] below, which answers [None]
   on a dangling id or on a cycle (fuel exhausted).

   Not modelled: usize overflow of products/sums of solution counts (nat is
   unbounded; the check requires every reported count to be below 2^63),
   spans, layout and token values carried by the nodes (they are copied
   unchanged by [build_inner]; C13 compares them). *)
From RV Require Export Spec.Grammar Spec.TreeCheck.

(* SPPFTree: a Parent link is represented by its [possibilities] vector. *)
Inductive sppf :=
| STerm (kind : nat)
| SNonTerm (prod : nat) (children : list (list sppf))
| SEmpty.

Definition parent := list sppf.     (* Parent.possibilities *)
Definition forest := list sppf.     (* Forest.results *)

Definition list_prod (l : list nat) : nat := fold_right Nat.mul 1 l.

(* SPPFTree::solutions / Parent::solutions *)
Fixpoint solutions (t : sppf) : nat :=
  match t with
  | STerm _ => 1
  | SNonTerm _ cs => list_prod (map (fun ps => list_sum (map solutions ps)) cs)
  | SEmpty => 0
  end.

Definition parent_solutions (ps : parent) : nat := list_sum (map solutions ps).

(* Forest::solutions *)
Definition forest_solutions (F : forest) : nat := list_sum (map solutions F).

(* Tree::find_tree_root: walk the roots subtracting their solution counts.
   [None] = empty slice, or index out of bounds. *)
Fixpoint find_tree_root (roots : list sppf) (tree_idx : nat) : option (sppf * nat) :=
  match roots with
  | [] => None
  | r :: rest =>
      if solutions r <=? tree_idx then find_tree_root rest (tree_idx - solutions r)
      else Some (r, tree_idx)
  end.

(* Forest::get_tree: a Tree is the pair (root, idx). *)
Definition get_tree (F : forest) (idx : nat) : option (sppf * nat) := find_tree_root F idx.

(* outcomes of the partial operations *)
Inductive fres (A : Type) :=
| FDone (a : A)
| FPanic (site : nat)
| FOutOfFuel.
Arguments FDone {A} a.
Arguments FPanic {A} site.
Arguments FOutOfFuel {A}.

Definition F_DIVZERO := 1.   (* tree_idx / factor, tree_idx %= factor with factor = 0 *)
Definition F_EXPECT := 2.    (* find_tree_root(..).expect("Tree index must be valid.") *)
Definition F_SPLIT := 3.     (* TreeBuilder::reduce_action: res_stack.len() - prod_len / split_off *)
Definition F_RESULT := 4.    (* TreeBuilder::get_result: pop().unwrap() *)

(* Tree::children on a NonTerm: mixed-radix decoding; the weight of a child is
   the product of the solution counts of its later siblings. The closure runs
   child by child, so the first failing child decides the panic. *)
Fixpoint children_go (cs : list parent) (tree_idx : nat) : fres (list (sppf * nat)) :=
  match cs with
  | [] => FDone []
  | c :: rest =>
      let factor := list_prod (map parent_solutions rest) in
      if factor =? 0 then FPanic F_DIVZERO
      else
        match find_tree_root c (tree_idx / factor) with
        | None => FPanic F_EXPECT
        | Some rt =>
            match children_go rest (tree_idx mod factor) with
            | FDone l => FDone (rt :: l)
            | FPanic s => FPanic s
            | FOutOfFuel => FOutOfFuel
            end
        end
  end.

Definition children (t : sppf) (idx : nat) : fres (list (sppf * nat)) :=
  match t with
  | SNonTerm _ cs => children_go cs idx
  | _ => FDone []
  end.

(* TreeBuilder: res_stack, top first *)
Definition shift_action (st : list tree) (kind : nat) : list tree := Leaf kind :: st.

Definition reduce_action (st : list tree) (p : nat) (n : nat) : fres (list tree) :=
  if length st <? n then FPanic F_SPLIT
  else FDone (Node p (rev (firstn n st)) :: skipn n st).

Fixpoint fold_build (bi : sppf -> nat -> list tree -> fres (list tree))
         (chs : list (sppf * nat)) (st : list tree) : fres (list tree) :=
  match chs with
  | [] => FDone st
  | (c, i) :: rest =>
      match bi c i st with
      | FDone st' => fold_build bi rest st'
      | o => o
      end
  end.

(* Tree::build_inner; the recursion follows the Rc structure, fuel bounds its depth *)
Fixpoint build_inner (fuel : nat) (t : sppf) (idx : nat) (st : list tree) : fres (list tree) :=
  match fuel with
  | 0 => FOutOfFuel
  | S f =>
      match t with
      | STerm k => FDone (shift_action st k)
      | SEmpty => FDone st
      | SNonTerm p _ =>
          match children t idx with
          | FDone chs =>
              match fold_build (build_inner f) chs st with
              | FDone st' => reduce_action st' p (length chs)
              | o => o
              end
          | FPanic s => FPanic s
          | FOutOfFuel => FOutOfFuel
          end
      end
  end.

(* Tree::build with a fresh TreeBuilder *)
Definition build (fuel : nat) (t : sppf) (idx : nat) : fres tree :=
  match build_inner fuel t idx [] with
  | FDone (r :: _) => FDone r
  | FDone [] => FPanic F_RESULT
  | FPanic s => FPanic s
  | FOutOfFuel => FOutOfFuel
  end.

Fixpoint depth (t : sppf) : nat :=
  match t with
  | SNonTerm _ cs => S (list_max (map (fun ps => list_max (map depth ps)) cs))
  | _ => 1
  end.

Definition build_auto (t : sppf) (idx : nat) : fres tree := build (depth t) t idx.

(* get_tree(i).map(|t| t.build(TreeBuilder)) *)
Definition tree_at (F : forest) (idx : nat) : option (fres tree) :=
  match get_tree F idx with
  | Some (r, j) => Some (build_auto r j)
  | None => None
  end.

(* ForestIterator::next: state = tree_idx *)
Definition iter_next (F : forest) (tree_idx : nat) : option (sppf * nat) * nat :=
  match get_tree F tree_idx with
  | Some t => (Some t, S tree_idx)
  | None => (None, tree_idx)
  end.

(* collect(): trees built in iteration order; the boolean says the iterator
   returned None (true) as opposed to fuel running out (false) *)
Fixpoint iter_collect (fuel : nat) (F : forest) (tree_idx : nat) : list (fres tree) * bool :=
  match fuel with
  | 0 => ([], false)
  | S f =>
      match iter_next F tree_idx with
      | (Some (r, j), i') =>
          let (l, fin) := iter_collect f F i' in (build_auto r j :: l, fin)
      | (None, _) => ([], true)
      end
  end.

(* ------------------------------------------------------------------ *)
(* Specification-side enumeration: all trees of a forest in index order. *)

(* cartesian product, first component most significant *)
Fixpoint cart {A} (ls : list (list A)) : list (list A) :=
  match ls with
  | [] => [[]]
  | l :: rest => flat_map (fun x => map (cons x) (cart rest)) l
  end.

Fixpoint enum (t : sppf) : list tree :=
  match t with
  | STerm k => [Leaf k]
  | SNonTerm p cs => map (Node p) (cart (map (fun ps => flat_map enum ps) cs))
  | SEmpty => []
  end.

Definition enum_parent (ps : parent) : list tree := flat_map enum ps.
Definition enum_forest (F : forest) : list tree := flat_map enum F.

(* ------------------------------------------------------------------ *)
(* Hypothesis of the no-duplicates theorem, as a boolean: in every possibility
   list (and in the root list) two different possibilities never denote the
   same tree. *)
Definition tree_memb (x : tree) (l : list tree) : bool := existsb (tree_eqb x) l.

Definition disjoint_b (l1 l2 : list tree) : bool := forallb (fun x => negb (tree_memb x l2)) l1.

Fixpoint pairwise_disjoint_b (ls : list (list tree)) : bool :=
  match ls with
  | [] => true
  | l :: rest => forallb (disjoint_b l) rest && pairwise_disjoint_b rest
  end.

Fixpoint distinct_poss_b (t : sppf) : bool :=
  match t with
  | SNonTerm _ cs =>
      forallb (fun ps => pairwise_disjoint_b (map enum ps) && forallb distinct_poss_b ps) cs
  | _ => true
  end.

Definition forest_distinct_b (F : forest) : bool :=
  pairwise_disjoint_b (map enum F) && forallb distinct_poss_b F.

(* ------------------------------------------------------------------ *)
(* The dumped graph (rustemo/src/glr/gss/verif.rs: NODE / PARENT / ROOTS lines)
   and its unfolding into an [sppf] value. *)
Inductive gnode :=
| GTerm (kind : nat)
| GNonTerm (prod : nat) (parents : list nat)
| GEmpty.

Record gforest := mkGForest {
  gf_nodes : list gnode;          (* indexed by node id *)
  gf_parents : list (list nat);   (* indexed by parent id: node ids of the possibilities *)
  gf_roots : list nat             (* node ids *)
}.

Fixpoint map_opt {A B} (f : A -> option B) (l : list A) : option (list B) :=
  match l with
  | [] => Some []
  | x :: xs =>
      match f x with
      | None => None
      | Some y => match map_opt f xs with None => None | Some ys => Some (y :: ys) end
      end
  end.

Fixpoint unfold_node (G : gforest) (fuel : nat) (id : nat) : option sppf :=
  match fuel with
  | 0 => None
  | S f =>
      match nth_error (gf_nodes G) id with
      | None => None
      | Some (GTerm k) => Some (STerm k)
      | Some GEmpty => Some SEmpty
      | Some (GNonTerm p pids) =>
          match map_opt (fun pid =>
                           match nth_error (gf_parents G) pid with
                           | None => None
                           | Some nids => map_opt (unfold_node G f) nids
                           end) pids with
          | None => None
          | Some cs => Some (SNonTerm p cs)
          end
      end
  end.

Definition unfold_forest (G : gforest) (fuel : nat) : option forest :=
  map_opt (unfold_node G fuel) (gf_roots G).

(* a path in an acyclic graph visits each node at most once *)
Definition unfold_auto (G : gforest) : option forest :=
  unfold_forest G (S (length (gf_nodes G))).
