(* Boolean comparisons evaluated by gen/c03.py: the REAL forest of the GLR parser
   against the accepting runs of the nondeterministic machine over the REAL table
   (a table-based judge next to the grammar-based oracle all_trees). *)
From RV Require Export Model.NLR Spec.Elide Spec.ValidatorsRN.

Fixpoint dedup_trees (l : list tree) : list tree :=
  match l with
  | [] => []
  | x :: r => if existsb (tree_eqb x) r then dedup_trees r else x :: dedup_trees r
  end.

(* [enumeration complete within the fuel; real forest = set of run results, modulo elision;
    real acceptance = some run accepts] *)
Definition c03_nlr_b (g : grammar) (T : table) (fuel : nat) (w : list nat)
           (real_ok : bool) (real : list tree) : list bool :=
  let rs := dedup_trees (map fst (nparse g T false fuel w)) in
  [ negb (nruns_cut g T false fuel (init 0 w));
    forest_eq_mod_rn_b rs real;
    Bool.eqb real_ok (match rs with [] => false | _ => true end) ].

Definition c03_table_b (g : grammar) (T : table) : list bool :=
  [ sound_rn_b g T; complete_rn_b g T; rn_complete_b g T ].
