(* The two encodings of the LR table in the generated parser source, as data, and the
   decoders the generated `impl ParserDefinition` runs on them.

   Mirrors rustemo-compiler/src/generator/arrays.rs:41-172 (nested static arrays padded with
   `Error` / `None`), generator/functions.rs:33-222 (one `fn action_..` per state with one match
   arm per non-empty cell and a catch-all returning `vec![]`; one `fn goto_..` per state with a
   catch-all panic, `goto_invalid` for states without gotos), generator/mod.rs:249-296
   (action_to_syntax) and table/mod.rs:1099-1114 (max_actions / max_recognizers).

   Every Rust index / unwrap / usize subtraction / panic!() of the modelled code is a `GPanic site`
   gen. Executable definitions only; lemmas are in Proofs/Encode.v. *)
From RV Require Export Model.Table.

Inductive gen (A : Type) := GVal (x : A) | GPanic (site : nat).
Arguments GVal {A} x.
Arguments GPanic {A} site.

Definition site_index : nat := 1.         (* slice / array index out of bounds *)
Definition site_goto_unwrap : nat := 2.   (* arrays.rs: `gotos[state][nonterm].unwrap()` on None *)
Definition site_goto_invalid : nat := 3.  (* functions.rs: `goto_invalid` / the catch-all panic arm *)
Definition site_sub_overflow : nat := 4.  (* `repeat_n(.., max - len)`: usize subtraction overflow *)
Definition site_max_unwrap : nat := 5.    (* `.max().unwrap()` over a table without states *)
Definition site_no_arm : nat := 6.        (* a `match` without a matching arm (rustc rejects it) *)

(* rustemo::Action<State, ProdKind> of the runtime: the compiler's three actions plus `Error` *)
Inductive eaction := EAct (a : action) | EErr.

Definition gen_val {A} (o : gen A) : option A :=
  match o with GVal x => Some x | GPanic _ => None end.

Fixpoint map_gen {A B} (f : A -> gen B) (l : list A) : gen (list B) :=
  match l with
  | [] => GVal []
  | x :: r =>
      match f x with
      | GPanic k => GPanic k
      | GVal y => match map_gen f r with
                 | GPanic k => GPanic k
                 | GVal ys => GVal (y :: ys)
                 end
      end
  end.

Definition list_max (l : list nat) : nat := fold_right Nat.max 0 l.

Definition is_nil {A} (l : list A) : bool := match l with [] => true | _ => false end.

(* LRTable::max_actions *)
Definition state_max_actions (st : state) : nat := list_max (map (@length action) (s_actions st)).
Definition max_actions (T : table) : gen nat :=
  match t_states T with
  | [] => GPanic site_max_unwrap
  | sts => GVal (list_max (map state_max_actions sts))
  end.

(* LRTable::max_recognizers: the number of non-empty cells of a state, maximised *)
Definition nonempty_count (st : state) : nat :=
  length (filter (fun c => negb (is_nil c)) (s_actions st)).
Definition max_recognizers (T : table) : gen nat :=
  match t_states T with
  | [] => GPanic site_max_unwrap
  | sts => GVal (list_max (map nonempty_count sts))
  end.

(* `xs.chain(repeat_n(d, n - xs.len()))` *)
Definition pad {A} (n : nat) (d : A) (l : list A) : gen (list A) :=
  if length l <=? n then GVal (l ++ repeat d (n - length l)) else GPanic site_sub_overflow.

(* ------------------------------------------------------------------ arrays layout *)
Record enc_arrays := mkEncArrays {
  ea_actions : list (list (list eaction));      (* [[[Action; MAX_ACTIONS]; TERMINAL_COUNT]; STATE_COUNT] *)
  ea_gotos : list (list (option nat));          (* [[Option<State>; NONTERMINAL_COUNT]; STATE_COUNT] *)
  ea_tokens : list (list (option (nat * bool))) (* [[Option<(TokenKind, bool)>; MAX_RECOGNIZERS]; STATE_COUNT] *)
}.

Definition encode_tokens (mr : nat) (T : table) : gen (list (list (option (nat * bool)))) :=
  map_gen (fun st => pad mr None (map Some (s_sorted st))) (t_states T).

Definition encode_arrays (T : table) : gen enc_arrays :=
  match max_actions T with
  | GPanic k => GPanic k
  | GVal ma =>
      match max_recognizers T with
      | GPanic k => GPanic k
      | GVal mr =>
          match map_gen (fun st => map_gen (fun c => pad ma EErr (map EAct c)) (s_actions st))
                            (t_states T) with
          | GPanic k => GPanic k
          | GVal acts =>
              match encode_tokens mr T with
              | GPanic k => GPanic k
              | GVal toks => GVal (mkEncArrays acts (map s_gotos (t_states T)) toks)
              end
          end
      end
  end.

(* `.take_while(|a| !matches!(a, Action::Error))` *)
Fixpoint take_while_noerr (l : list eaction) : list eaction :=
  match l with
  | [] => []
  | EErr :: _ => []
  | x :: r => x :: take_while_noerr r
  end.

(* `.map_while(|t| *t)` *)
Fixpoint map_while_some {A} (l : list (option A)) : list A :=
  match l with
  | Some x :: r => x :: map_while_some r
  | _ => []
  end.

Definition dec_arrays_actions (E : enc_arrays) (s a : nat) : gen (list eaction) :=
  match nth_error (ea_actions E) s with
  | None => GPanic site_index
  | Some row => match nth_error row a with
                | None => GPanic site_index
                | Some c => GVal (take_while_noerr c)
                end
  end.

Definition dec_arrays_goto (E : enc_arrays) (s n : nat) : gen nat :=
  match nth_error (ea_gotos E) s with
  | None => GPanic site_index
  | Some row => match nth_error row n with
                | None => GPanic site_index
                | Some None => GPanic site_goto_unwrap
                | Some (Some x) => GVal x
                end
  end.

Definition dec_tokens (toks : list (list (option (nat * bool)))) (s : nat) : gen (list (nat * bool)) :=
  match nth_error toks s with
  | None => GPanic site_index
  | Some row => GVal (map_while_some row)
  end.

(* ------------------------------------------------------------------ functions layout *)
Record actfn := mkActFn {
  af_arms : list (nat * list eaction);   (* `TK::X => Vec::from(&[..])`, in terminal order *)
  af_catch : bool                        (* `_ => vec![]` present *)
}.
Inductive gotofn :=
| GotoInvalid                            (* the shared `goto_invalid` *)
| GotoFn (arms : list (nat * nat)).      (* `NonTermKind::X => State::Y` arms, then `_ => panic!(..)` *)

Record enc_functions := mkEncFunctions {
  ef_actions : list actfn;
  ef_gotos : list gotofn;
  ef_tokens : list (list (option (nat * bool)))
}.

Definition nonempty_cells (st : state) : list (nat * list action) :=
  filter (fun '(_, c) => negb (is_nil c)) (indexed (s_actions st)).

Definition encode_actfn (nterm : nat) (st : state) : actfn :=
  let arms := map (fun '(t, c) => (t, map EAct c)) (nonempty_cells st) in
  mkActFn arms (length arms <? nterm).

Definition goto_arms (st : state) : list (nat * nat) :=
  flat_map (fun '(n, o) => match o with Some s' => [(n, s')] | None => [] end) (indexed (s_gotos st)).

Definition is_some {A} (o : option A) : bool := match o with Some _ => true | None => false end.

Definition encode_gotofn (st : state) : gotofn :=
  if existsb is_some (s_gotos st) then GotoFn (goto_arms st) else GotoInvalid.

Definition encode_functions (nterm : nat) (T : table) : gen enc_functions :=
  match max_recognizers T with
  | GPanic k => GPanic k
  | GVal mr =>
      match encode_tokens mr T with
      | GPanic k => GPanic k
      | GVal toks => GVal (mkEncFunctions (map (encode_actfn nterm) (t_states T))
                                        (map encode_gotofn (t_states T)) toks)
      end
  end.

Fixpoint assoc_nat {B} (k : nat) (l : list (nat * B)) : option B :=
  match l with
  | [] => None
  | (k', v) :: r => if k' =? k then Some v else assoc_nat k r
  end.

Definition dec_functions_actions (E : enc_functions) (s a : nat) : gen (list eaction) :=
  match nth_error (ef_actions E) s with
  | None => GPanic site_index
  | Some f => match assoc_nat a (af_arms f) with
              | Some body => GVal body
              | None => if af_catch f then GVal [] else GPanic site_no_arm
              end
  end.

Definition dec_functions_goto (E : enc_functions) (s n : nat) : gen nat :=
  match nth_error (ef_gotos E) s with
  | None => GPanic site_index
  | Some GotoInvalid => GPanic site_goto_invalid
  | Some (GotoFn arms) => match assoc_nat n arms with
                          | Some x => GVal x
                          | None => GPanic site_goto_invalid
                          end
  end.

(* ------------------------------------------------------------------ what the table says *)
Definition sorted (T : table) (s : nat) : list (nat * bool) :=
  match get_state T s with Some st => s_sorted st | None => [] end.

Definition nstates (T : table) : nat := length (t_states T).

(* hypotheses of the round trip theorems, evaluated on every real table by the check *)
Definition enc_wf_b (nterm nnonterm : nat) (T : table) : bool :=
  negb (is_nil (t_states T)) &&
  forallb (fun st => (length (s_actions st) =? nterm) && (length (s_gotos st) =? nnonterm) &&
                     (length (s_sorted st) <=? list_max (map nonempty_count (t_states T))))
          (t_states T).

(* ------------------------------------------------------------------ boolean comparisons (correspondence) *)
Definition eaction_eqb (x y : eaction) : bool :=
  match x, y with
  | EAct a, EAct b => action_eqb a b
  | EErr, EErr => true
  | _, _ => false
  end.

Fixpoint list_eqb {A} (eqb : A -> A -> bool) (l1 l2 : list A) : bool :=
  match l1, l2 with
  | [], [] => true
  | x :: r1, y :: r2 => eqb x y && list_eqb eqb r1 r2
  | _, _ => false
  end.

Definition option_eqb {A} (eqb : A -> A -> bool) (x y : option A) : bool :=
  match x, y with
  | Some a, Some b => eqb a b
  | None, None => true
  | _, _ => false
  end.

Definition tokflag_eqb (x y : nat * bool) : bool := (fst x =? fst y) && Bool.eqb (snd x) (snd y).

Definition tokens_eqb := list_eqb (list_eqb (option_eqb tokflag_eqb)).

Definition enc_arrays_eqb (x y : enc_arrays) : bool :=
  list_eqb (list_eqb (list_eqb eaction_eqb)) (ea_actions x) (ea_actions y) &&
  list_eqb (list_eqb (option_eqb Nat.eqb)) (ea_gotos x) (ea_gotos y) &&
  tokens_eqb (ea_tokens x) (ea_tokens y).

Definition actfn_eqb (x y : actfn) : bool :=
  list_eqb (fun a b => (fst a =? fst b) && list_eqb eaction_eqb (snd a) (snd b)) (af_arms x) (af_arms y) &&
  Bool.eqb (af_catch x) (af_catch y).

Definition gotofn_eqb (x y : gotofn) : bool :=
  match x, y with
  | GotoInvalid, GotoInvalid => true
  | GotoFn a, GotoFn b => list_eqb (fun p q => (fst p =? fst q) && (snd p =? snd q)) a b
  | _, _ => false
  end.

Definition enc_functions_eqb (x y : enc_functions) : bool :=
  list_eqb actfn_eqb (ef_actions x) (ef_actions y) &&
  list_eqb gotofn_eqb (ef_gotos x) (ef_gotos y) &&
  tokens_eqb (ef_tokens x) (ef_tokens y).

(* the source text of PARSER_DEFINITION read back from the generated file = the model's encoding *)
Definition arrays_source_matches (T : table) (src : enc_arrays) : bool :=
  match encode_arrays T with GVal E => enc_arrays_eqb E src | GPanic _ => false end.
Definition functions_source_matches (nterm : nat) (T : table) (src : enc_functions) : bool :=
  match encode_functions nterm T with GVal E => enc_functions_eqb E src | GPanic _ => false end.

(* executable round trip over all in-range queries (run on the real tables as a cross-check of the
   theorems' reading; the theorems do not depend on it) *)
Definition gen_eqb {A} (eqb : A -> A -> bool) (x y : gen A) : bool :=
  match x, y with
  | GVal a, GVal b => eqb a b
  | GPanic i, GPanic j => i =? j
  | _, _ => false
  end.

Definition goto_expect (site : nat) (T : table) (s n : nat) : gen nat :=
  match goto T s n with Some x => GVal x | None => GPanic site end.

Definition roundtrip_arrays_b (nterm nnonterm : nat) (T : table) : bool :=
  match encode_arrays T with
  | GPanic _ => false
  | GVal E =>
      forallb (fun s =>
        forallb (fun a => gen_eqb (list_eqb eaction_eqb) (dec_arrays_actions E s a)
                                      (GVal (map EAct (cell T s a)))) (seq 0 nterm) &&
        forallb (fun n => gen_eqb Nat.eqb (dec_arrays_goto E s n) (goto_expect site_goto_unwrap T s n))
                (seq 0 nnonterm) &&
        gen_eqb (list_eqb tokflag_eqb) (dec_tokens (ea_tokens E) s) (GVal (sorted T s)))
        (seq 0 (nstates T))
  end.

Definition roundtrip_functions_b (nterm nnonterm : nat) (T : table) : bool :=
  match encode_functions nterm T with
  | GPanic _ => false
  | GVal E =>
      forallb (fun s =>
        forallb (fun a => gen_eqb (list_eqb eaction_eqb) (dec_functions_actions E s a)
                                      (GVal (map EAct (cell T s a)))) (seq 0 nterm) &&
        forallb (fun n => gen_eqb Nat.eqb (dec_functions_goto E s n) (goto_expect site_goto_invalid T s n))
                (seq 0 nnonterm) &&
        gen_eqb (list_eqb tokflag_eqb) (dec_tokens (ef_tokens E) s) (GVal (sorted T s)))
        (seq 0 (nstates T))
  end.

(* ------------------------------------------------------------------ ProdKind numbering
   base.rs:196-214: `ProdKind` lists grammar.productions(), i.e. every production whose
   nonterminal is neither AUG nor AUGL, in production order; the discriminant of a production is
   its position in that list. *)
Definition is_special (g : grammar) (pr : prod) : bool :=
  (p_lhs pr =? g_aug g) ||
  match g_layout g with Some _ => p_lhs pr =? g_augl g | None => false end.

Definition prodkinds (g : grammar) : list nat :=
  map fst (filter (fun '(_, pr) => negb (is_special g pr)) (indexed (g_prods g))).

Fixpoint index_of (x : nat) (l : list nat) : option nat :=
  match l with
  | [] => None
  | y :: r => if y =? x then Some 0 else option_map S (index_of x r)
  end.

Definition prodkind_index (g : grammar) (p : nat) : option nat := index_of p (prodkinds g).
Definition prod_of_kind (g : grammar) (d : nat) : option nat := nth_error (prodkinds g) d.

(* every Reduce stored in the table names a production that has a ProdKind variant
   (action_to_syntax would otherwise emit an identifier that does not exist) *)
Definition reduce_kinds_b (g : grammar) (T : table) : bool :=
  forallb (fun st => forallb (fun c => forallb (fun a =>
    match a with Reduce p _ => is_some (prodkind_index g p) | _ => true end) c) (s_actions st)) (t_states T).
