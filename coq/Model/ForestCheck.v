(* Executable verdict functions evaluated (vm_compute) by gen/c03.py and
   gen/c07.py on terms printed from the REAL parser's results.  No proofs
   here; every function is a conjunction of booleans whose meaning is given by
   the theorems of Properties/C03.v and Properties/C07.v. *)
From RV Require Export Model.Forest Spec.Elide Spec.Enumerate.

Fixpoint trees_eqb (l1 l2 : list tree) : bool :=
  match l1, l2 with
  | [], [] => true
  | x :: xs, y :: ys => tree_eqb x y && trees_eqb xs ys
  | _, _ => false
  end.

Definition fres_tree_eqb (r : fres tree) (t : tree) : bool :=
  match r with FDone x => tree_eqb x t | _ => false end.

Fixpoint fres_trees_eqb (rs : list (fres tree)) (ts : list tree) : bool :=
  match rs, ts with
  | [], [] => true
  | r :: rs', t :: ts' => fres_tree_eqb r t && fres_trees_eqb rs' ts'
  | _, _ => false
  end.

(* Model vs. real forest.  [real] are the trees the real Forest::get_tree(i)
   .build(TreeBuilder) returned for i = 0 .. length real - 1 (all of them when
   [full]), [n] is the real Forest::solutions().
   answers: [graph unfolds (acyclic, no dangling id);
             model solutions = real solutions;
             model get_tree(i).build() = real tree i, for every listed i;
             model enum = real trees (when full) / real trees are a prefix of it;
             model get_tree(n) = get_tree(n+1) = None;
             model iteration = real trees in order (when full);
             no possibility list holds two possibilities denoting the same tree] *)
Definition c03_model_b (G : gforest) (n : nat) (real : list tree) (full : bool) : list bool :=
  match unfold_auto G with
  | None => [false; false; false; false; false; false; false]
  | Some F =>
      [ true;
        forest_solutions F =? n;
        forallb (fun it => match tree_at F (fst it) with
                           | Some r => fres_tree_eqb r (snd it)
                           | None => false
                           end) (indexed real);
        if full then trees_eqb (enum_forest F) real
        else trees_eqb (firstn (length real) (enum_forest F)) real;
        match tree_at F n, tree_at F (S n) with None, None => true | _, _ => false end;
        if full then
          match iter_collect (S n) F 0 with
          | (rs, true) => fres_trees_eqb rs real
          | _ => false
          end
        else true;
        forest_distinct_b F ]
  end.

(* Real forest vs. the verified oracle.  [ok] = the real parser succeeded.
   answers: [certificate: the height bound h loses nothing on w;
             real success iff the oracle has a derivation tree;
             real solutions >= number of derivation trees (no tree missing by count);
             real solutions <= number of derivation trees (no extra tree by count);
             multiset of real trees = multiset of derivation trees, modulo elision (when full);
             every real tree is, modulo elision, a derivation tree of w] *)
Definition c03_oracle_b (g : grammar) (h : nat) (w : list nat) (ok : bool) (n : nat)
           (real : list tree) (full : bool) : list bool :=
  let (sat, ts) := oracle_m h g (g_start g) w in
  [ sat;
    Bool.eqb ok (match ts with [] => false | _ => true end);
    length ts <=? n;
    n <=? length ts;
    if full then forest_eq_mod_rn_b real ts else true;
    forallb (fun t => rn_derivation_b g t w) real ].

(* the same verdicts by the plain (unmemoised) enumerator; used for cross-checking *)
Definition c03_oracle_plain_b (g : grammar) (h : nat) (w : list nat) (ok : bool) (n : nat)
           (real : list tree) (full : bool) : list bool :=
  let ts := all_trees (S h) g (g_start g) w in
  [ saturated_b h g w;
    Bool.eqb ok (match ts with [] => false | _ => true end);
    length ts <=? n;
    n <=? length ts;
    if full then forest_eq_mod_rn_b real ts else true;
    forallb (fun t => rn_derivation_b g t w) real ].

Definition c03_scope_b (g : grammar) : list bool :=
  [ wf_grammar_b g; acyclic_b g; if acyclic_b g then eps_unamb_b g else false ].

(* C07: the LR tree and the GLR tree, annotated with spans and token values.
   answers: [equal modulo elision, annotations included;
             equal modulo elision, annotations of EMPTY nodes blanked;
             equal modulo elision as plain derivation trees] *)
Definition c07_compare_b (lr glr : atree) : list bool :=
  [ atree_eq_mod_rn_b lr glr;
    atree_eq_mod_rn_b (blank_empty lr) (blank_empty glr);
    tree_eq_mod_rn_b (erase lr) (erase glr) ].
