(* Model of the actions-file regeneration,
   rustemo-compiler/src/generator/actions/mod.rs:61-202 (generate_parser_actions).

   An actions file is the list of its top level items as syn::parse_file returns them.
   Of an item the generator looks at exactly two things: which syn::Item variant it is
   (Enum / Struct / Type / Fn / anything else) and, for the first four, the identifier.
   Everything else of the item (attributes, generics, fields, body ...) is opaque to it
   and is represented by one natural number (the identity of the token stream).
   Names are interned as natural numbers.

   Executable definitions only; lemmas are in Proofs/Regen.v. *)
From RV Require Import Util.

Inductive rkind := KEnum | KStruct | KType | KFn | KOther.

Record ritem := mkR { r_kind : rkind; r_name : nat; r_body : nat }.

Definition rkind_eqb (a b : rkind) : bool :=
  match a, b with
  | KEnum, KEnum | KStruct, KStruct | KType, KType | KFn, KFn | KOther, KOther => true
  | _, _ => false
  end.

Definition ritem_eqb (a b : ritem) : bool :=
  rkind_eqb (r_kind a) (r_kind b) && Nat.eqb (r_name a) (r_name b) && Nat.eqb (r_body a) (r_body b).

Fixpoint ritems_eqb (a b : list ritem) : bool :=
  match a, b with
  | [], [] => true
  | x :: a', y :: b' => ritem_eqb x y && ritems_eqb a' b'
  | _, _ => false
  end.

(* mod.rs:105-136.  Two sets, `type_names` and `action_names`; the match inserts the
   identifier of Enum, Struct and Type items into the first and of Fn items into the
   second; every other item variant is skipped.  The sets are only ever asked
   `contains`, so a list with membership is an exact model of the BTreeSet. *)
Definition collect_step (acc : list nat * list nat) (it : ritem) : list nat * list nat :=
  match r_kind it with
  | KEnum => (r_name it :: fst acc, snd acc)
  | KStruct => (r_name it :: fst acc, snd acc)
  | KFn => (fst acc, r_name it :: snd acc)
  | KType => (r_name it :: fst acc, snd acc)
  | KOther => acc
  end.

Definition collect (items : list ritem) : list nat * list nat :=
  fold_left collect_step items ([], []).

(* What the generator would emit for the grammar, in emission order (mod.rs:143-190).

   GTerm: one per terminal with content that is reachable (mod.rs:148).  The type alias is
   guarded by `type_names.contains(&terminal.name)` (mod.rs:152), the action function by
   `action_names.contains(&to_snake_case(&terminal.name))` (mod.rs:158-159).

   GNonterm: one per reachable nonterminal (mod.rs:171).  Every type generated for the
   nonterminal (choice structs, the Option alias, the enum ...: production.rs:163-313) is
   guarded by ITS OWN identifier: `type_name` is the ident of an Enum / Struct / Type item and
   None for any other item; the item is pushed iff `type_name.is_none_or(|n| !type_names
   .contains(&n))` (mod.rs:173-187; before commit 4a0de5f one test on the nonterminal's name
   guarded all of them).  Every action function is guarded by its own name (mod.rs:190-197).
   The lookup keys of terminals and actions are kept separate from the items so that the
   model does not assume they coincide with the item names. *)
Inductive group :=
| GTerm (tkey : nat) (ty : ritem) (akey : nat) (act : ritem)
| GNonterm (types : list ritem) (acts : list (nat * ritem)).

(* g_header: the items of a freshly created file (mod.rs:75-101: the `use` lines,
   `Input`, `Ctx`, `Token`). *)
Record genout := mkGen { g_header : list ritem; g_groups : list group }.

(* mod.rs:71-102: the existing file is parsed iff it exists and `force` is off. *)
Definition start_ast (force : bool) (existing : option (list ritem)) (header : list ritem)
  : list ritem :=
  match existing with
  | Some items => if force then header else items
  | None => header
  end.

(* `ast.items.push(..)` is `acc ++ [..]`.  `tn`/`an` are the two sets, computed once,
   before anything is pushed (they are never updated while generating). *)
(* mod.rs:176-184: is the generated type `t` pushed? *)
Definition type_guard (tn : list nat) (t : ritem) : bool :=
  match r_kind t with
  | KEnum | KStruct | KType => negb (memb (r_name t) tn)
  | KFn | KOther => true
  end.

Definition emit_group (tn an : list nat) (acc : list ritem) (g : group) : list ritem :=
  match g with
  | GTerm tkey ty akey act =>
      let acc1 := if memb tkey tn then acc else acc ++ [ty] in
      if memb akey an then acc1 else acc1 ++ [act]
  | GNonterm types acts =>
      let acc1 := fold_left (fun a t => if type_guard tn t then a ++ [t] else a) types acc in
      fold_left (fun a ka => if memb (fst ka) an then a else a ++ [snd ka]) acts acc1
  end.

Definition regen (force : bool) (existing : option (list ritem)) (gen : genout) : list ritem :=
  let ast := start_ast force existing (g_header gen) in
  let names := collect ast in
  fold_left (emit_group (fst names) (snd names)) (g_groups gen) ast.
