(* Settings of the compiler and the calls that build them
   (rustemo-compiler/src/settings.rs:80-364; main.rs:12-173).

   This file is written by hand: the record, the environment, the vocabulary of API calls and
   the DOCUMENTED meaning of every setter (`spec_apply`, from the doc comments in settings.rs).
   Model/CliGen.v is GENERATED from main.rs and settings.rs by gen/cli_translate.py on every
   run: the clap `Cli` struct, the setter chain of `main()`, `Settings::default()` and the body
   of every setter as the code has it (`gen_apply`).

   Strings, paths and string vectors are symbolic (natural numbers).  Executable definitions only. *)
From RV Require Import Util.

Definition path := nat.
Definition str := nat.
Definition strs := nat.

Inductive parser_algo := LR | GLR.
Inductive table_type := LALR | LALR_PAGER | LALR_RN.
Inductive lexer_type := LexDefault | LexCustom.
Inductive builder_type := BDefault | BGeneric | BCustom.
Inductive gen_table_type := GArrays | GFunctions.

(* settings.rs:81-113, field for field *)
Record settings := mkSettings {
  s_out_dir_root : option path;
  s_out_dir_actions_root : option path;
  s_root_dir : option path;
  s_prefer_shifts : bool;
  s_prefer_shifts_over_empty : bool;
  s_table_type : table_type;
  s_parser_algo : parser_algo;
  s_print_table : bool;
  s_exclude : strs;
  s_actions : bool;
  s_trace : bool;
  s_lexer_type : lexer_type;
  s_builder_type : builder_type;
  s_builder_loc_info : bool;
  s_generator_table_type : gen_table_type;
  s_input_type : str;
  s_lexical_disamb_most_specific : bool;
  s_lexical_disamb_longest_match : bool;
  s_lexical_disamb_grammar_order : bool;
  s_partial_parse : bool;
  s_skip_ws : bool;
  s_force : bool;
  s_force_explicit : bool;
  s_dot : bool;
  s_fancy_regex : bool
}.

(* what Settings::default() and Settings::trace read from the process environment *)
Record env := mkEnv {
  e_out_dir : option path;          (* OUT_DIR *)
  e_manifest_dir : option path;     (* CARGO_MANIFEST_DIR *)
  e_trace : bool                    (* RUSTEMO_TRACE is set *)
}.

(* symbolic constants *)
Definition STR_str : str := 0.      (* the literal "str" *)
Definition STRS_empty : strs := 0.  (* vec![] *)

(* a panic!() of a setter is an outcome, never a default *)
Inductive psite :=
| P_actions_in_source_tree_non_default_builder   (* settings.rs:201 *)
| P_grammar_order_off_under_lr.                  (* settings.rs:303 *)

Inductive outcome := SOk (s : settings) | SPanic (site : psite).

(* functional record update, one per field *)
Definition set_out_dir_root s v := mkSettings v (s_out_dir_actions_root s) (s_root_dir s) (s_prefer_shifts s) (s_prefer_shifts_over_empty s) (s_table_type s) (s_parser_algo s) (s_print_table s) (s_exclude s) (s_actions s) (s_trace s) (s_lexer_type s) (s_builder_type s) (s_builder_loc_info s) (s_generator_table_type s) (s_input_type s) (s_lexical_disamb_most_specific s) (s_lexical_disamb_longest_match s) (s_lexical_disamb_grammar_order s) (s_partial_parse s) (s_skip_ws s) (s_force s) (s_force_explicit s) (s_dot s) (s_fancy_regex s).
Definition set_out_dir_actions_root s v := mkSettings (s_out_dir_root s) v (s_root_dir s) (s_prefer_shifts s) (s_prefer_shifts_over_empty s) (s_table_type s) (s_parser_algo s) (s_print_table s) (s_exclude s) (s_actions s) (s_trace s) (s_lexer_type s) (s_builder_type s) (s_builder_loc_info s) (s_generator_table_type s) (s_input_type s) (s_lexical_disamb_most_specific s) (s_lexical_disamb_longest_match s) (s_lexical_disamb_grammar_order s) (s_partial_parse s) (s_skip_ws s) (s_force s) (s_force_explicit s) (s_dot s) (s_fancy_regex s).
Definition set_root_dir s v := mkSettings (s_out_dir_root s) (s_out_dir_actions_root s) v (s_prefer_shifts s) (s_prefer_shifts_over_empty s) (s_table_type s) (s_parser_algo s) (s_print_table s) (s_exclude s) (s_actions s) (s_trace s) (s_lexer_type s) (s_builder_type s) (s_builder_loc_info s) (s_generator_table_type s) (s_input_type s) (s_lexical_disamb_most_specific s) (s_lexical_disamb_longest_match s) (s_lexical_disamb_grammar_order s) (s_partial_parse s) (s_skip_ws s) (s_force s) (s_force_explicit s) (s_dot s) (s_fancy_regex s).
Definition set_prefer_shifts s v := mkSettings (s_out_dir_root s) (s_out_dir_actions_root s) (s_root_dir s) v (s_prefer_shifts_over_empty s) (s_table_type s) (s_parser_algo s) (s_print_table s) (s_exclude s) (s_actions s) (s_trace s) (s_lexer_type s) (s_builder_type s) (s_builder_loc_info s) (s_generator_table_type s) (s_input_type s) (s_lexical_disamb_most_specific s) (s_lexical_disamb_longest_match s) (s_lexical_disamb_grammar_order s) (s_partial_parse s) (s_skip_ws s) (s_force s) (s_force_explicit s) (s_dot s) (s_fancy_regex s).
Definition set_prefer_shifts_over_empty s v := mkSettings (s_out_dir_root s) (s_out_dir_actions_root s) (s_root_dir s) (s_prefer_shifts s) v (s_table_type s) (s_parser_algo s) (s_print_table s) (s_exclude s) (s_actions s) (s_trace s) (s_lexer_type s) (s_builder_type s) (s_builder_loc_info s) (s_generator_table_type s) (s_input_type s) (s_lexical_disamb_most_specific s) (s_lexical_disamb_longest_match s) (s_lexical_disamb_grammar_order s) (s_partial_parse s) (s_skip_ws s) (s_force s) (s_force_explicit s) (s_dot s) (s_fancy_regex s).
Definition set_table_type s v := mkSettings (s_out_dir_root s) (s_out_dir_actions_root s) (s_root_dir s) (s_prefer_shifts s) (s_prefer_shifts_over_empty s) v (s_parser_algo s) (s_print_table s) (s_exclude s) (s_actions s) (s_trace s) (s_lexer_type s) (s_builder_type s) (s_builder_loc_info s) (s_generator_table_type s) (s_input_type s) (s_lexical_disamb_most_specific s) (s_lexical_disamb_longest_match s) (s_lexical_disamb_grammar_order s) (s_partial_parse s) (s_skip_ws s) (s_force s) (s_force_explicit s) (s_dot s) (s_fancy_regex s).
Definition set_parser_algo s v := mkSettings (s_out_dir_root s) (s_out_dir_actions_root s) (s_root_dir s) (s_prefer_shifts s) (s_prefer_shifts_over_empty s) (s_table_type s) v (s_print_table s) (s_exclude s) (s_actions s) (s_trace s) (s_lexer_type s) (s_builder_type s) (s_builder_loc_info s) (s_generator_table_type s) (s_input_type s) (s_lexical_disamb_most_specific s) (s_lexical_disamb_longest_match s) (s_lexical_disamb_grammar_order s) (s_partial_parse s) (s_skip_ws s) (s_force s) (s_force_explicit s) (s_dot s) (s_fancy_regex s).
Definition set_print_table s v := mkSettings (s_out_dir_root s) (s_out_dir_actions_root s) (s_root_dir s) (s_prefer_shifts s) (s_prefer_shifts_over_empty s) (s_table_type s) (s_parser_algo s) v (s_exclude s) (s_actions s) (s_trace s) (s_lexer_type s) (s_builder_type s) (s_builder_loc_info s) (s_generator_table_type s) (s_input_type s) (s_lexical_disamb_most_specific s) (s_lexical_disamb_longest_match s) (s_lexical_disamb_grammar_order s) (s_partial_parse s) (s_skip_ws s) (s_force s) (s_force_explicit s) (s_dot s) (s_fancy_regex s).
Definition set_exclude s v := mkSettings (s_out_dir_root s) (s_out_dir_actions_root s) (s_root_dir s) (s_prefer_shifts s) (s_prefer_shifts_over_empty s) (s_table_type s) (s_parser_algo s) (s_print_table s) v (s_actions s) (s_trace s) (s_lexer_type s) (s_builder_type s) (s_builder_loc_info s) (s_generator_table_type s) (s_input_type s) (s_lexical_disamb_most_specific s) (s_lexical_disamb_longest_match s) (s_lexical_disamb_grammar_order s) (s_partial_parse s) (s_skip_ws s) (s_force s) (s_force_explicit s) (s_dot s) (s_fancy_regex s).
Definition set_actions s v := mkSettings (s_out_dir_root s) (s_out_dir_actions_root s) (s_root_dir s) (s_prefer_shifts s) (s_prefer_shifts_over_empty s) (s_table_type s) (s_parser_algo s) (s_print_table s) (s_exclude s) v (s_trace s) (s_lexer_type s) (s_builder_type s) (s_builder_loc_info s) (s_generator_table_type s) (s_input_type s) (s_lexical_disamb_most_specific s) (s_lexical_disamb_longest_match s) (s_lexical_disamb_grammar_order s) (s_partial_parse s) (s_skip_ws s) (s_force s) (s_force_explicit s) (s_dot s) (s_fancy_regex s).
Definition set_trace s v := mkSettings (s_out_dir_root s) (s_out_dir_actions_root s) (s_root_dir s) (s_prefer_shifts s) (s_prefer_shifts_over_empty s) (s_table_type s) (s_parser_algo s) (s_print_table s) (s_exclude s) (s_actions s) v (s_lexer_type s) (s_builder_type s) (s_builder_loc_info s) (s_generator_table_type s) (s_input_type s) (s_lexical_disamb_most_specific s) (s_lexical_disamb_longest_match s) (s_lexical_disamb_grammar_order s) (s_partial_parse s) (s_skip_ws s) (s_force s) (s_force_explicit s) (s_dot s) (s_fancy_regex s).
Definition set_lexer_type s v := mkSettings (s_out_dir_root s) (s_out_dir_actions_root s) (s_root_dir s) (s_prefer_shifts s) (s_prefer_shifts_over_empty s) (s_table_type s) (s_parser_algo s) (s_print_table s) (s_exclude s) (s_actions s) (s_trace s) v (s_builder_type s) (s_builder_loc_info s) (s_generator_table_type s) (s_input_type s) (s_lexical_disamb_most_specific s) (s_lexical_disamb_longest_match s) (s_lexical_disamb_grammar_order s) (s_partial_parse s) (s_skip_ws s) (s_force s) (s_force_explicit s) (s_dot s) (s_fancy_regex s).
Definition set_builder_type s v := mkSettings (s_out_dir_root s) (s_out_dir_actions_root s) (s_root_dir s) (s_prefer_shifts s) (s_prefer_shifts_over_empty s) (s_table_type s) (s_parser_algo s) (s_print_table s) (s_exclude s) (s_actions s) (s_trace s) (s_lexer_type s) v (s_builder_loc_info s) (s_generator_table_type s) (s_input_type s) (s_lexical_disamb_most_specific s) (s_lexical_disamb_longest_match s) (s_lexical_disamb_grammar_order s) (s_partial_parse s) (s_skip_ws s) (s_force s) (s_force_explicit s) (s_dot s) (s_fancy_regex s).
Definition set_builder_loc_info s v := mkSettings (s_out_dir_root s) (s_out_dir_actions_root s) (s_root_dir s) (s_prefer_shifts s) (s_prefer_shifts_over_empty s) (s_table_type s) (s_parser_algo s) (s_print_table s) (s_exclude s) (s_actions s) (s_trace s) (s_lexer_type s) (s_builder_type s) v (s_generator_table_type s) (s_input_type s) (s_lexical_disamb_most_specific s) (s_lexical_disamb_longest_match s) (s_lexical_disamb_grammar_order s) (s_partial_parse s) (s_skip_ws s) (s_force s) (s_force_explicit s) (s_dot s) (s_fancy_regex s).
Definition set_generator_table_type s v := mkSettings (s_out_dir_root s) (s_out_dir_actions_root s) (s_root_dir s) (s_prefer_shifts s) (s_prefer_shifts_over_empty s) (s_table_type s) (s_parser_algo s) (s_print_table s) (s_exclude s) (s_actions s) (s_trace s) (s_lexer_type s) (s_builder_type s) (s_builder_loc_info s) v (s_input_type s) (s_lexical_disamb_most_specific s) (s_lexical_disamb_longest_match s) (s_lexical_disamb_grammar_order s) (s_partial_parse s) (s_skip_ws s) (s_force s) (s_force_explicit s) (s_dot s) (s_fancy_regex s).
Definition set_input_type s v := mkSettings (s_out_dir_root s) (s_out_dir_actions_root s) (s_root_dir s) (s_prefer_shifts s) (s_prefer_shifts_over_empty s) (s_table_type s) (s_parser_algo s) (s_print_table s) (s_exclude s) (s_actions s) (s_trace s) (s_lexer_type s) (s_builder_type s) (s_builder_loc_info s) (s_generator_table_type s) v (s_lexical_disamb_most_specific s) (s_lexical_disamb_longest_match s) (s_lexical_disamb_grammar_order s) (s_partial_parse s) (s_skip_ws s) (s_force s) (s_force_explicit s) (s_dot s) (s_fancy_regex s).
Definition set_lexical_disamb_most_specific s v := mkSettings (s_out_dir_root s) (s_out_dir_actions_root s) (s_root_dir s) (s_prefer_shifts s) (s_prefer_shifts_over_empty s) (s_table_type s) (s_parser_algo s) (s_print_table s) (s_exclude s) (s_actions s) (s_trace s) (s_lexer_type s) (s_builder_type s) (s_builder_loc_info s) (s_generator_table_type s) (s_input_type s) v (s_lexical_disamb_longest_match s) (s_lexical_disamb_grammar_order s) (s_partial_parse s) (s_skip_ws s) (s_force s) (s_force_explicit s) (s_dot s) (s_fancy_regex s).
Definition set_lexical_disamb_longest_match s v := mkSettings (s_out_dir_root s) (s_out_dir_actions_root s) (s_root_dir s) (s_prefer_shifts s) (s_prefer_shifts_over_empty s) (s_table_type s) (s_parser_algo s) (s_print_table s) (s_exclude s) (s_actions s) (s_trace s) (s_lexer_type s) (s_builder_type s) (s_builder_loc_info s) (s_generator_table_type s) (s_input_type s) (s_lexical_disamb_most_specific s) v (s_lexical_disamb_grammar_order s) (s_partial_parse s) (s_skip_ws s) (s_force s) (s_force_explicit s) (s_dot s) (s_fancy_regex s).
Definition set_lexical_disamb_grammar_order s v := mkSettings (s_out_dir_root s) (s_out_dir_actions_root s) (s_root_dir s) (s_prefer_shifts s) (s_prefer_shifts_over_empty s) (s_table_type s) (s_parser_algo s) (s_print_table s) (s_exclude s) (s_actions s) (s_trace s) (s_lexer_type s) (s_builder_type s) (s_builder_loc_info s) (s_generator_table_type s) (s_input_type s) (s_lexical_disamb_most_specific s) (s_lexical_disamb_longest_match s) v (s_partial_parse s) (s_skip_ws s) (s_force s) (s_force_explicit s) (s_dot s) (s_fancy_regex s).
Definition set_partial_parse s v := mkSettings (s_out_dir_root s) (s_out_dir_actions_root s) (s_root_dir s) (s_prefer_shifts s) (s_prefer_shifts_over_empty s) (s_table_type s) (s_parser_algo s) (s_print_table s) (s_exclude s) (s_actions s) (s_trace s) (s_lexer_type s) (s_builder_type s) (s_builder_loc_info s) (s_generator_table_type s) (s_input_type s) (s_lexical_disamb_most_specific s) (s_lexical_disamb_longest_match s) (s_lexical_disamb_grammar_order s) v (s_skip_ws s) (s_force s) (s_force_explicit s) (s_dot s) (s_fancy_regex s).
Definition set_skip_ws s v := mkSettings (s_out_dir_root s) (s_out_dir_actions_root s) (s_root_dir s) (s_prefer_shifts s) (s_prefer_shifts_over_empty s) (s_table_type s) (s_parser_algo s) (s_print_table s) (s_exclude s) (s_actions s) (s_trace s) (s_lexer_type s) (s_builder_type s) (s_builder_loc_info s) (s_generator_table_type s) (s_input_type s) (s_lexical_disamb_most_specific s) (s_lexical_disamb_longest_match s) (s_lexical_disamb_grammar_order s) (s_partial_parse s) v (s_force s) (s_force_explicit s) (s_dot s) (s_fancy_regex s).
Definition set_force s v := mkSettings (s_out_dir_root s) (s_out_dir_actions_root s) (s_root_dir s) (s_prefer_shifts s) (s_prefer_shifts_over_empty s) (s_table_type s) (s_parser_algo s) (s_print_table s) (s_exclude s) (s_actions s) (s_trace s) (s_lexer_type s) (s_builder_type s) (s_builder_loc_info s) (s_generator_table_type s) (s_input_type s) (s_lexical_disamb_most_specific s) (s_lexical_disamb_longest_match s) (s_lexical_disamb_grammar_order s) (s_partial_parse s) (s_skip_ws s) v (s_force_explicit s) (s_dot s) (s_fancy_regex s).
Definition set_force_explicit s v := mkSettings (s_out_dir_root s) (s_out_dir_actions_root s) (s_root_dir s) (s_prefer_shifts s) (s_prefer_shifts_over_empty s) (s_table_type s) (s_parser_algo s) (s_print_table s) (s_exclude s) (s_actions s) (s_trace s) (s_lexer_type s) (s_builder_type s) (s_builder_loc_info s) (s_generator_table_type s) (s_input_type s) (s_lexical_disamb_most_specific s) (s_lexical_disamb_longest_match s) (s_lexical_disamb_grammar_order s) (s_partial_parse s) (s_skip_ws s) (s_force s) v (s_dot s) (s_fancy_regex s).
Definition set_dot s v := mkSettings (s_out_dir_root s) (s_out_dir_actions_root s) (s_root_dir s) (s_prefer_shifts s) (s_prefer_shifts_over_empty s) (s_table_type s) (s_parser_algo s) (s_print_table s) (s_exclude s) (s_actions s) (s_trace s) (s_lexer_type s) (s_builder_type s) (s_builder_loc_info s) (s_generator_table_type s) (s_input_type s) (s_lexical_disamb_most_specific s) (s_lexical_disamb_longest_match s) (s_lexical_disamb_grammar_order s) (s_partial_parse s) (s_skip_ws s) (s_force s) (s_force_explicit s) v (s_fancy_regex s).
Definition set_fancy_regex s v := mkSettings (s_out_dir_root s) (s_out_dir_actions_root s) (s_root_dir s) (s_prefer_shifts s) (s_prefer_shifts_over_empty s) (s_table_type s) (s_parser_algo s) (s_print_table s) (s_exclude s) (s_actions s) (s_trace s) (s_lexer_type s) (s_builder_type s) (s_builder_loc_info s) (s_generator_table_type s) (s_input_type s) (s_lexical_disamb_most_specific s) (s_lexical_disamb_longest_match s) (s_lexical_disamb_grammar_order s) (s_partial_parse s) (s_skip_ws s) (s_force s) (s_force_explicit s) (s_dot s) v.

(* the public builder-style API of Settings (settings.rs:166-371) *)
Inductive setter_call :=
| C_root_dir (p : path)
| C_out_dir_root (p : path)
| C_out_dir_actions_root (p : path)
| C_in_source_tree
| C_actions_in_source_tree
| C_exclude (x : strs)
| C_prefer_shifts (b : bool)
| C_prefer_shifts_over_empty (b : bool)
| C_table_type (t : table_type)
| C_parser_algo (a : parser_algo)
| C_lexer_type (l : lexer_type)
| C_builder_type (b : builder_type)
| C_builder_loc_info (b : bool)
| C_generator_table_type (g : gen_table_type)
| C_input_type (i : str)
| C_lexical_disamb_most_specific (b : bool)
| C_lexical_disamb_longest_match (b : bool)
| C_lexical_disamb_grammar_order (b : bool)
| C_fancy_regex (b : bool)
| C_print_table (b : bool)
| C_partial_parse (b : bool)
| C_skip_ws (b : bool)
| C_actions (b : bool)
| C_trace (b : bool)
| C_force (b : bool)
| C_dot (b : bool).

(* Settings::default() as documented (settings.rs:115-153): output goes to OUT_DIR when run
   from cargo; LR with LALR_PAGER tables; shifts preferred over empty reductions only; all three
   lexical strategies on; whitespace skipped; actions generated and OVERWRITTEN. *)
Definition spec_default (ev : env) : settings :=
  mkSettings (e_out_dir ev) (e_out_dir ev) (e_manifest_dir ev)
    false true LALR_PAGER LR false STRS_empty true false
    LexDefault BDefault false GFunctions STR_str
    true true true false true
    true false false false.

(* The documented meaning of each setter (doc comments settings.rs:161-371). *)
Definition spec_actions_in_source_tree (s : settings) : outcome :=
  (* "only available for the default builder type"; actions next to the grammar; an existing
     file is kept unless force was requested explicitly *)
  match s_builder_type s with
  | BDefault =>
      let s1 := set_out_dir_actions_root s None in
      SOk (if s_force_explicit s1 then s1 else set_force s1 false)
  | _ => SPanic P_actions_in_source_tree_non_default_builder
  end.

Definition spec_apply (ev : env) (c : setter_call) (s : settings) : outcome :=
  match c with
  | C_root_dir p => SOk (set_root_dir s (Some p))
  | C_out_dir_root p => SOk (set_out_dir_root s (Some p))
  | C_out_dir_actions_root p => SOk (set_out_dir_actions_root s (Some p))
  | C_in_source_tree =>
      (* parser next to the grammar, and the actions too if the default builder is used *)
      let s1 := set_out_dir_root s None in
      match s_builder_type s1 with
      | BDefault => spec_actions_in_source_tree s1
      | _ => SOk s1
      end
  | C_actions_in_source_tree => spec_actions_in_source_tree s
  | C_exclude x => SOk (set_exclude s x)
  | C_prefer_shifts b => SOk (set_prefer_shifts s b)
  | C_prefer_shifts_over_empty b => SOk (set_prefer_shifts_over_empty s b)
  | C_table_type t => SOk (set_table_type s t)
  | C_parser_algo a =>
      (* GLR: right-nulled tables, no shift preference at all, grammar order off *)
      match a with
      | LR => SOk (set_parser_algo s LR)
      | GLR =>
          SOk (set_parser_algo
                 (set_lexical_disamb_grammar_order
                    (set_prefer_shifts_over_empty (set_prefer_shifts (set_table_type s LALR_RN) false) false)
                    false) GLR)
      end
  | C_lexer_type l => SOk (set_lexer_type s l)
  | C_builder_type b => SOk (set_builder_type s b)
  | C_builder_loc_info b => SOk (set_builder_loc_info s b)
  | C_generator_table_type g => SOk (set_generator_table_type s g)
  | C_input_type i => SOk (set_input_type s i)
  | C_lexical_disamb_most_specific b => SOk (set_lexical_disamb_most_specific s b)
  | C_lexical_disamb_longest_match b => SOk (set_lexical_disamb_longest_match s b)
  | C_lexical_disamb_grammar_order b =>
      (* "Can't disable grammar order strategy for LR." *)
      match s_parser_algo s, b with
      | LR, false => SPanic P_grammar_order_off_under_lr
      | _, _ => SOk (set_lexical_disamb_grammar_order s b)
      end
  | C_fancy_regex b => SOk (set_fancy_regex s b)
  | C_print_table b => SOk (set_print_table s b)
  | C_partial_parse b => SOk (set_partial_parse s b)
  | C_skip_ws b => SOk (set_skip_ws s b)
  | C_actions b => SOk (set_actions s b)
  | C_trace b => SOk (set_trace s (if b then true else e_trace ev))
  | C_force b => SOk (set_force_explicit (set_force s b) true)
  | C_dot b => SOk (set_dot s b)
  end.

(* a chain of builder calls; a panic stops it *)
Fixpoint run_calls (ap : setter_call -> settings -> outcome) (calls : list setter_call) (s : settings)
  : outcome :=
  match calls with
  | [] => SOk s
  | c :: rest =>
      match ap c s with
      | SOk s1 => run_calls ap rest s1
      | SPanic site => SPanic site
      end
  end.
