(* Token-level model of rustemo's LR runtime
   (rustemo/src/lr/parser.rs: next_token 198-291, parse_with_context 307-419,
    ParseStack::pop_states 95-112; rustemo/src/lr/builder.rs TreeBuilder 86-110).

   The input is the sequence of token kinds (each terminal matches only
   itself; the byte-level instance with the real lexer is Model/LRBytes.v).
   Every place where the Rust code indexes, unwraps or splits is an explicit
   [Panic site] outcome; loops take fuel and [OutOfFuel] is distinguished. *)
From RV Require Export Model.Table.

Inductive outcome :=
| Ok (t : tree) (consumed : nat)
| Err (k : nat) (exp : list nat)      (* error at token index k, expected kinds *)
| ErrNoAction                       (* no action for the lookahead: "Can't continue in state" *)
| Panic (site : nat)
| OutOfFuel.

(* Panic sites *)
Definition P_EMPTY_STACK := 1.   (* ParseStack::state: last().unwrap() *)
Definition P_POP := 3.           (* pop_states: split_off / last().unwrap() *)
Definition P_GOTO := 4.          (* goto undefined *)
Definition P_BUILDER := 5.       (* TreeBuilder split_off *)
Definition P_RESULT := 6.        (* get_result: pop().unwrap() *)

Record conf := mkConf {
  c_stk : list nat;        (* LR stack, top first *)
  c_trs : list tree;       (* TreeBuilder.res_stack, top first *)
  c_inp : list nat;        (* remaining token kinds *)
  c_pos : nat              (* tokens consumed *)
}.

Inductive tok := Tok (a : nat) (real : bool) | NoTok.

(* LRParser::next_token at token level. [real = false] is the synthetic STOP of
   partial parsing, or STOP recognised at the end of the input. *)
Definition next_tok (T : table) (partial : bool) (s : nat) (inp : list nat) : tok :=
  let exp := expected T s in
  match inp with
  | [] => if memb STOP exp then Tok STOP false else NoTok
  | a :: _ =>
      if memb a exp then Tok a true
      else if partial && memb STOP exp then Tok STOP false
      else NoTok
  end.

Inductive sres := Next (c : conf) | Done (o : outcome).

Definition step (g : grammar) (T : table) (partial : bool) (c : conf) : sres :=
  match c_stk c with
  | [] => Done (Panic P_EMPTY_STACK)
  | s :: _ =>
      match next_tok T partial s (c_inp c) with
      | NoTok => Done (Err (c_pos c) (expected T s))
      | Tok a real =>
          match cell T s a with
          | [] => Done ErrNoAction
          | Shift s' :: _ =>
              Next (mkConf (s' :: c_stk c) (Leaf a :: c_trs c)
                           (if real then tl (c_inp c) else c_inp c)
                           (if real then S (c_pos c) else c_pos c))
          | Reduce p len :: _ =>
              if length (c_stk c) <=? len then Done (Panic P_POP)
              else
                let stk' := skipn len (c_stk c) in
                match stk' with
                | [] => Done (Panic P_POP)
                | from :: _ =>
                    match goto T from (lhs g p - g_nterm g) with
                    | None => Done (Panic P_GOTO)
                    | Some s' =>
                        if length (c_trs c) <? len then Done (Panic P_BUILDER)
                        else Next (mkConf (s' :: stk')
                                          (Node p (rev (firstn len (c_trs c))) :: skipn len (c_trs c))
                                          (c_inp c) (c_pos c))
                    end
                end
          | Accept :: _ =>
              match c_trs c with
              | t :: _ => Done (Ok t (c_pos c))
              | [] => Done (Panic P_RESULT)
              end
          end
      end
  end.

Fixpoint run (g : grammar) (T : table) (partial : bool) (fuel : nat) (c : conf) : outcome :=
  match fuel with
  | 0 => OutOfFuel
  | S fuel' =>
      match step g T partial c with
      | Done o => o
      | Next c' => run g T partial fuel' c'
      end
  end.

Definition init (start : nat) (w : list nat) : conf := mkConf [start] [] w 0.

Definition parse (g : grammar) (T : table) (partial : bool) (fuel : nat) (w : list nat) : outcome :=
  run g T partial fuel (init 0 w).

Definition parses (g : grammar) (T : table) (partial : bool) (w : list nat) (t : tree) (c : nat) : Prop :=
  exists fuel, parse g T partial fuel w = Ok t c.

(* ---- the same loop with an ARBITRARY lexer (C15: user-supplied lexers that may
   return token kinds the current state does not expect). The lexer is any
   function of the whole configuration; [real] says whether the token consumes
   input. With no action for the lookahead the loop returns the error result
   "Can't continue in state ..." (ErrNoAction). ---------------------------- *)
Definition step_lex (g : grammar) (T : table) (lex : conf -> tok) (c : conf) : sres :=
  match c_stk c with
  | [] => Done (Panic P_EMPTY_STACK)
  | s :: _ =>
      match lex c with
      | NoTok => Done (Err (c_pos c) (expected T s))
      | Tok a real =>
          match cell T s a with
          | [] => Done ErrNoAction
          | Shift s' :: _ =>
              Next (mkConf (s' :: c_stk c) (Leaf a :: c_trs c)
                           (if real then tl (c_inp c) else c_inp c)
                           (if real then S (c_pos c) else c_pos c))
          | Reduce p len :: _ =>
              if length (c_stk c) <=? len then Done (Panic P_POP)
              else
                let stk' := skipn len (c_stk c) in
                match stk' with
                | [] => Done (Panic P_POP)
                | from :: _ =>
                    match goto T from (lhs g p - g_nterm g) with
                    | None => Done (Panic P_GOTO)
                    | Some s' =>
                        if length (c_trs c) <? len then Done (Panic P_BUILDER)
                        else Next (mkConf (s' :: stk')
                                          (Node p (rev (firstn len (c_trs c))) :: skipn len (c_trs c))
                                          (c_inp c) (c_pos c))
                    end
                end
          | Accept :: _ =>
              match c_trs c with
              | t :: _ => Done (Ok t (c_pos c))
              | [] => Done (Panic P_RESULT)
              end
          end
      end
  end.

Fixpoint run_lex (g : grammar) (T : table) (lex : conf -> tok) (fuel : nat) (c : conf) : outcome :=
  match fuel with
  | 0 => OutOfFuel
  | S fuel' =>
      match step_lex g T lex c with
      | Done o => o
      | Next c' => run_lex g T lex fuel' c'
      end
  end.

(* the default lexer as an instance *)
Definition default_lex (T : table) (partial : bool) (c : conf) : tok :=
  match c_stk c with
  | [] => NoTok
  | s :: _ => next_tok T partial s (c_inp c)
  end.
