(* Executable mirror of the per-state part of LRTable::calculate_reductions
   (rustemo-compiler/src/table/mod.rs, fn calculate_reductions, /repo HEAD 757ab19
   i.e. after the fixes 3487517 and a50fbd6) and of the priority bookkeeping of
   LRState::group_per_next_symbol.

   Every index / assert! / panic! of the Rust code is an explicit [MPanic site]
   / [RPanic site] outcome with a symbolic site:
     P_PROD        self.grammar.productions[item.prod]
     P_CELL0       state.actions[TermIndex(0)]
     P_TERM        self.grammar.symbol_to_term(follow_symbol)
     P_CELL        state.actions[follow_term.idx]
     P_SHIFTS      assert!(shifts.len() <= 1)
     P_MAXPRIO     state.max_prior_for_term[&follow_term.idx]
     P_RPROD       self.grammar.productions[*prod]  (priority of an existing reduction)
     P_NOT_REDUCE  panic!("This should not happen. Got {other:?}")
     P_RN          prod_rn_lengths[prod]            (rn_len stored in the item)
   The two assert!(actions.len() == 1) of the original code are gone (a50fbd6): a
   reduction that wins against the Shift/Accept now removes it with retain and goes
   through the reduce/reduce step together with the reductions already in the cell.
   No proofs in this file. *)
From RV Require Export Model.Table.

Definition DEFAULT_PRIORITY : nat := 10.

(* panic sites *)
Definition P_PROD : nat := 1.
Definition P_CELL0 : nat := 2.
Definition P_TERM : nat := 3.
Definition P_CELL : nat := 4.
Definition P_SHIFTS : nat := 5.
Definition P_MAXPRIO : nat := 6.
Definition P_RPROD : nat := 7.
Definition P_NOT_REDUCE : nat := 8.
Definition P_RN : nat := 9.

(* The three settings calculate_reductions reads. *)
Record rsettings := mkRS {
  rs_prefer_shifts : bool;
  rs_prefer_shifts_over_empty : bool;
  rs_glr : bool                      (* settings.parser_algo is GLR *)
}.

Inductive mres (A : Type) := MDone (x : A) | MPanic (site : nat).
Arguments MDone {A} x.
Arguments MPanic {A} site.

Inductive rres := RDone (cells : list (list action)) | RPanic (site : nat).

(* matches!(x, Action::Shift(_) | Action::Accept) *)
Definition is_shiftlike (x : action) : bool :=
  match x with Shift _ => true | Accept => true | Reduce _ _ => false end.

(* matches!(x, Action::Reduce(..)) *)
Definition is_reduce (x : action) : bool :=
  match x with Reduce _ _ => true | _ => false end.

(* matches!(x, Action::Reduce(_, len) if *len == 0) *)
Definition is_empty_reduce (x : action) : bool :=
  match x with Reduce _ 0 => true | _ => false end.

(* BTreeMap<TermIndex, Priority> as an association list sorted by key *)
Fixpoint alookup (k : nat) (m : list (nat * nat)) : option nat :=
  match m with
  | [] => None
  | (k', v) :: rest => if k =? k' then Some v else alookup k rest
  end.

(* entry(k): and_modify to the max of the old value and prio, or_insert prio *)
Fixpoint bt_upsert (k v : nat) (m : list (nat * nat)) : list (nat * nat) :=
  match m with
  | [] => [(k, v)]
  | (k', v') :: rest =>
      if k <? k' then (k, v) :: m
      else if k =? k' then (k', Nat.max v' v) :: rest
      else (k', v') :: bt_upsert k v rest
  end.

(* LRItem::symbol_at_position *)
Definition symbol_at_position (g : grammar) (it : item) : option nat :=
  match get_prod g (i_prod it) with
  | Some pr => nth_error (p_rhs pr) (i_pos it)
  | None => None
  end.

(* the max_prior_for_term part of group_per_next_symbol: items in stored order *)
Definition maxprio_step (g : grammar) (m : list (nat * nat)) (it : item) : list (nat * nat) :=
  match get_prod g (i_prod it) with
  | Some pr =>
      match nth_error (p_rhs pr) (i_pos it) with
      | Some x => if x <? g_nterm g then bt_upsert x (p_prio pr) m else m
      | None => m
      end
  | None => m
  end.

Definition maxprio_of_items (g : grammar) (items : list item) : list (nat * nat) :=
  fold_left (maxprio_step g) items [].

(* ------------------------------------------------------------------ *)
(* The conflict resolution of one action cell.                          *)

(* match (&prod.assoc, &follow_term.assoc): the arms in source order *)
Inductive arm := ArmReduce | ArmShift | ArmPrefer.

Definition assoc_arm (pa ta : assoc) : arm :=
  match pa, ta with
  | ALeft, ANone => ArmReduce
  | _, ALeft => ArmReduce
  | ARight, ANone => ArmShift
  | _, ARight => ArmShift
  | ANone, ANone => ArmPrefer
  end.

(* priority the existing Shift / Accept competes with *)
Definition shift_prio (maxprio : list (nat * nat)) (a : nat) (shift : action) : option nat :=
  match shift with
  | Accept => Some DEFAULT_PRIORITY
  | _ => alookup a maxprio
  end.

Definition rhs_is_empty (pr : prod) : bool :=
  match p_rhs pr with [] => true | _ => false end.

(* actions.retain(|x| !matches!(x, Action::Shift(_) | Action::Accept)) *)
Definition drop_shifts (acts : list action) : list action :=
  filter (fun x => negb (is_shiftlike x)) acts.

(* the shift/reduce part: returns the cell after a possible retain, and should_reduce *)
Definition sr_step (cfg : rsettings) (pr : prod) (tm : term) (maxprio : list (nat * nat))
           (a : nat) (acts shifts : list action) : mres (list action * bool) :=
  match shifts with
  | [] => MDone (acts, true)
  | shift :: _ =>
      match shift_prio maxprio a shift with
      | None => MPanic P_MAXPRIO
      | Some sprio =>
          match Nat.compare (p_prio pr) sprio with
          | Lt => MDone (acts, false)
          | Eq =>
              match assoc_arm (p_assoc pr) (t_assoc tm) with
              | ArmReduce => MDone (drop_shifts acts, true)
              | ArmShift => MDone (acts, false)
              | ArmPrefer =>
                  let empty := rhs_is_empty pr in
                  let prod_pse := empty && rs_prefer_shifts_over_empty cfg && negb (p_nopse pr) in
                  let prod_ps := negb empty && rs_prefer_shifts cfg && negb (p_nops pr) in
                  MDone (acts, negb (prod_pse || prod_ps))
              end
          | Gt => MDone (drop_shifts acts, true)
          end
      end
  end.

(* the priorities of the reductions already in the cell *)
Fixpoint reduces_prio (g : grammar) (rs : list action) : mres (list nat) :=
  match rs with
  | [] => MDone []
  | x :: rest =>
      match x with
      | Reduce q _ =>
          match get_prod g q with
          | None => MPanic P_RPROD
          | Some qr =>
              match reduces_prio g rest with
              | MDone l => MDone (p_prio qr :: l)
              | MPanic s => MPanic s
              end
          end
      | _ => MPanic P_NOT_REDUCE
      end
  end.

(* the reduce/reduce part, entered when should_reduce *)
Definition rr_step (g : grammar) (cfg : rsettings) (pr : prod) (new_reduce : action)
           (prod_len : nat) (acts reduces : list action) : mres (list action) :=
  match reduces with
  | [] => MDone (acts ++ [new_reduce])
  | _ =>
      match reduces_prio g reduces with
      | MPanic s => MPanic s
      | MDone prios =>
          if forallb (fun x => p_prio pr <? x) prios then MDone acts
          else if forallb (fun x => x <? p_prio pr) prios then
            MDone (filter (fun x => negb (is_reduce x)) acts ++ [new_reduce])
          else if rs_glr cfg then MDone (acts ++ [new_reduce])
          else
            let acts' := filter (fun x => negb (is_empty_reduce x)) acts in
            if (0 <? prod_len) || (match acts' with [] => true | _ => false end)
            then MDone (acts' ++ [new_reduce])
            else MDone acts'
      end
  end.

(* one (reducing item, follow terminal) pair: cell [acts] of terminal [a] receives
   Reduce(p, len); prod_len is item.prod_len *)
Definition add_reduce (g : grammar) (cfg : rsettings) (maxprio : list (nat * nat)) (a : nat)
           (p len prod_len : nat) (acts : list action) : mres (list action) :=
  match get_prod g p with
  | None => MPanic P_PROD
  | Some pr =>
      match nth_error (g_terms g) a with
      | None => MPanic P_TERM
      | Some tm =>
          let new_reduce := Reduce p len in
          match acts with
          | [] => MDone [new_reduce]
          | _ =>
              let '(shifts, reduces) := partition is_shiftlike acts in
              if 1 <? length shifts then MPanic P_SHIFTS
              else
                match sr_step cfg pr tm maxprio a acts shifts with
                | MPanic s => MPanic s
                | MDone (acts1, should_reduce) =>
                    if should_reduce then rr_step g cfg pr new_reduce prod_len acts1 reduces
                    else MDone acts1
                end
          end
      end
  end.

(* ------------------------------------------------------------------ *)
(* The loops of calculate_reductions for one state.                     *)

Fixpoint set_nth {A : Type} (n : nat) (x : A) (l : list A) : list A :=
  match l, n with
  | [], _ => []
  | _ :: t, 0 => x :: t
  | h :: t, S n' => h :: set_nth n' x t
  end.

(* for follow_symbol in item.follow.borrow().iter() — BTreeSet, ascending; the dumped
   follow list is in that order *)
Fixpoint apply_follows (g : grammar) (cfg : rsettings) (maxprio : list (nat * nat))
         (p len prod_len : nat) (fs : list nat) (cells : list (list action)) : rres :=
  match fs with
  | [] => RDone cells
  | f :: fs' =>
      match nth_error (g_terms g) f with
      | None => RPanic P_TERM
      | Some _ =>
          match nth_error cells f with
          | None => RPanic P_CELL
          | Some acts =>
              match add_reduce g cfg maxprio f p len prod_len acts with
              | MPanic s => RPanic s
              | MDone acts' => apply_follows g cfg maxprio p len prod_len fs' (set_nth f acts' cells)
              end
          end
      end
  end.

(* LRItem::is_reducing; rn_len is production_rn_lengths[prod] when the table is LALR_RN *)
Definition item_reducing (rn : option (list nat)) (it : item) (prod_len : nat) : mres bool :=
  match rn with
  | None => MDone (i_pos it =? prod_len)
  | Some l =>
      match nth_error l (i_prod it) with
      | None => MPanic P_RN
      | Some r => MDone ((i_pos it =? prod_len) || (r <=? i_pos it))
      end
  end.

Definition is_aug_lhs (g : grammar) (x : nat) : bool :=
  (x =? g_aug g) || (match g_layout g with Some _ => x =? g_augl g | None => false end).

Fixpoint reduce_items (g : grammar) (cfg : rsettings) (rn : option (list nat))
         (maxprio : list (nat * nat)) (items : list item) (cells : list (list action)) : rres :=
  match items with
  | [] => RDone cells
  | it :: rest =>
      match get_prod g (i_prod it) with
      | None => RPanic P_PROD
      | Some pr =>
          let prod_len := length (p_rhs pr) in
          match item_reducing rn it prod_len with
          | MPanic s => RPanic s
          | MDone false => reduce_items g cfg rn maxprio rest cells
          | MDone true =>
              if is_aug_lhs g (p_lhs pr) then
                if i_pos it =? prod_len then
                  match cells with
                  | [] => RPanic P_CELL0
                  | c0 :: cs => reduce_items g cfg rn maxprio rest ((c0 ++ [Accept]) :: cs)
                  end
                else reduce_items g cfg rn maxprio rest cells
              else
                match apply_follows g cfg maxprio (i_prod it) (i_pos it) prod_len (i_follow it) cells with
                | RPanic s => RPanic s
                | RDone cells' => reduce_items g cfg rn maxprio rest cells'
                end
          end
      end
  end.

Definition calc_reductions_state (g : grammar) (cfg : rsettings) (rn : option (list nat))
           (st : state) (maxprio : list (nat * nat)) (init : list (list action)) : rres :=
  reduce_items g cfg rn maxprio (s_items st) init.

(* ------------------------------------------------------------------ *)
(* The cells before calculate_reductions runs (calc_states):
   Accept pre-seeded when STOP literally follows a dot, then one Shift per
   terminal that follows a dot. The Shift target is not recomputed here: it is
   read off the real final cell (0 when the real cell holds no Shift any more,
   in which case the model must have removed the Shift as well). *)

Definition next_syms (g : grammar) (st : state) : list nat :=
  flat_map (fun it => match symbol_at_position g it with Some x => [x] | None => [] end) (s_items st).

Definition is_shift (x : action) : bool := match x with Shift _ => true | _ => false end.

Definition shift_target (acts : list action) : nat :=
  match find is_shift acts with
  | Some (Shift t) => t
  | _ => 0
  end.

Definition init_cell (g : grammar) (st : state) (real : list (list action)) (a : nat) : list action :=
  if memb a (next_syms g st) then
    let tgt := shift_target (nth a real []) in
    if a =? STOP then [Accept; Shift tgt] else [Shift tgt]
  else [].

Definition init_cells (g : grammar) (st : state) (real : list (list action)) : list (list action) :=
  map (init_cell g st real) (seq 0 (g_nterm g)).

(* ------------------------------------------------------------------ *)
(* Correspondence with a real dump.                                     *)

Fixpoint list_eqb {A : Type} (eqb : A -> A -> bool) (l1 l2 : list A) : bool :=
  match l1, l2 with
  | [], [] => true
  | x :: t1, y :: t2 => eqb x y && list_eqb eqb t1 t2
  | _, _ => false
  end.

Definition cells_eqb : list (list action) -> list (list action) -> bool :=
  list_eqb (list_eqb action_eqb).

Definition natpair_eqb (x y : nat * nat) : bool := (fst x =? fst y) && (snd x =? snd y).

Definition maxprio_ok_b (g : grammar) (st : state) : bool :=
  list_eqb natpair_eqb (maxprio_of_items g (s_items st)) (s_maxprio st).

(* per state: 0 = the model reproduces the real cells and max priorities,
   1 = cells differ, 2 = max_prior_for_term differs, 1000 + site = the model panics *)
Definition resolve_state_code (g : grammar) (cfg : rsettings) (rn : option (list nat)) (st : state) : nat :=
  if negb (maxprio_ok_b g st) then 2
  else
    match calc_reductions_state g cfg rn st (s_maxprio st) (init_cells g st (s_actions st)) with
    | RDone cells => if cells_eqb cells (s_actions st) then 0 else 1
    | RPanic site => 1000 + site
    end.

Definition resolve_report (g : grammar) (cfg : rsettings) (T : table) : list nat :=
  map (resolve_state_code g cfg (t_rn T)) (t_states T).

Definition resolve_ok_b (g : grammar) (cfg : rsettings) (T : table) : bool :=
  forallb (fun c => c =? 0) (resolve_report g cfg T).

(* Should the real compiler panic in calculate_reductions there is no dump of the table.
   The states, items and lookaheads do not depend on priorities or associativities, so
   they can be taken from the dump [T0] of the same grammar text with the meta-data
   removed; the priorities come from the (dumped) annotated grammar [g] through
   maxprio_of_items. First state, in state order, on which the model panics, with the site. *)
Fixpoint first_panic (g : grammar) (cfg : rsettings) (rn : option (list nat))
         (sts : list state) (idx : nat) : option (nat * nat) :=
  match sts with
  | [] => None
  | st :: rest =>
      match calc_reductions_state g cfg rn st (maxprio_of_items g (s_items st))
                                  (init_cells g st (s_actions st)) with
      | RPanic site => Some (idx, site)
      | RDone _ => first_panic g cfg rn rest (S idx)
      end
  end.

Definition resolve_panic_site (g : grammar) (cfg : rsettings) (T0 : table) : nat :=
  match first_panic g cfg (t_rn T0) (t_states T0) 0 with
  | Some (_, site) => site
  | None => 0
  end.
