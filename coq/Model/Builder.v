(* Model of the grammar front end: the AST produced by the grammar-of-grammars
   parser (rustemo-compiler/src/lang/rustemo_actions.rs) and GrammarBuilder
   (rustemo-compiler/src/grammar/builder.rs), mirrored literally:

     try_from_file            81-156   build_grammar
     collect_terminals       158-219   collect_terminals / build_matches
     extract_productions_... 221-360   extract_rules / do_rule / do_alts / do_assigns
     create_aug_nt_and_...   362-391   create_aug
     desugar_regex           395-485   desugar
     resolve_inline_...      494-528   resolve_inline
     resolve_references      530-585   resolve_refs
     create_optional/one/zero 587-703  create_optional / create_one / create_zero
     check_identifier        705-715   parameter ident_ok (syn::parse_str::<Ident>)
     mark_reachable_symbols  718-747   mark_reachable (explicit fuel)
     int_const (actions:22)            ints_ok

   (state of /repo at 9193ac3: name-clash, separator, group / modifier / greedy diagnostics; own
   associativity wins over the rule's)

   BTreeMap<String,_> is a list sorted by key (String.ltb is the byte order
   Rust uses), insertion overwrites. Every unwrap / expect / assert! / todo! /
   index of the modelled code is a BPanic outcome; every err! a BError.
   Executable definitions only; proofs are in Proofs/Builder.v. *)
From Coq Require Import String Ascii NArith DecimalString.
From RV Require Import Util Spec.Grammar.

(* ------------------------------------------------------------------ AST *)
Inductive constval := CInt (n : N) | CFloat (s : string) | CBool (b : bool) | CStr (s : string).

Inductive pmeta :=
| PMLeft | PMReduce | PMRight | PMShift | PMDynamic | PMNops | PMNopse
| PMPrio (n : N) | PMUser (k : string) (v : constval) | PMKind (k : string).

Inductive tmeta :=
| TMPrefer | TMFinish | TMNoFinish | TMLeft | TMReduce | TMRight | TMShift | TMDynamic
| TMPrio (n : N) | TMUser (k : string) (v : constval).

Inductive gsym := GName (n : string) | GStr (s : string).

Inductive repop :=
| ZeroOrMore | ZeroOrMoreGreedy | OneOrMore | OneOrMoreGreedy | Optional | OptionalGreedy.

Record repetition := mkRep { rep_op : repop; rep_mods : option (list string) }.

(* sr_sym = None: a parenthesised group (its contents are never read by the builder) *)
Record symref := mkRef { sr_sym : option gsym; sr_rep : option repetition }.

Inductive assignment :=
| APlain (n : string) (r : symref)
| ABool (n : string) (r : symref)
| ARef (r : symref).

Record production := mkProduction { pr_assigns : list assignment; pr_meta : list pmeta }.

Record rule := mkRule {
  r_annot : option string; r_name : string; r_meta : list pmeta; r_rhs : list production }.

Inductive recognizer := RStr (s : string) | RRegex (s : string).

Record termrule := mkTermRule {
  tr_annot : option string; tr_name : string; tr_rec : option recognizer; tr_meta : list tmeta }.

Record file := mkFile { f_rules : option (list rule); f_terms : option (list termrule) }.

(* ------------------------------------------------------------------ BTreeMap<String, A> *)
Section SMap.
  Variable A : Type.
  Definition smap := list (string * A).

  Fixpoint sm_get (k : string) (m : smap) : option A :=
    match m with
    | [] => None
    | (k', v) :: r => if String.eqb k k' then Some v else sm_get k r
    end.

  Fixpoint sm_insert (k : string) (v : A) (m : smap) : smap :=
    match m with
    | [] => [(k, v)]
    | (k', v') :: r =>
        if String.eqb k k' then (k, v) :: r
        else if String.ltb k k' then (k, v) :: (k', v') :: r
        else (k', v') :: sm_insert k v r
    end.

  Fixpoint sm_remove (k : string) (m : smap) : smap :=
    match m with
    | [] => []
    | (k', v) :: r => if String.eqb k k' then sm_remove k r else (k', v) :: sm_remove k r
    end.

  (* entry(k).and_modify(f): the value of an existing key is changed in place *)
  Fixpoint sm_update (k : string) (f : A -> A) (m : smap) : smap :=
    match m with
    | [] => []
    | (k', v) :: r => if String.eqb k k' then (k', f v) :: r else (k', v) :: sm_update k f r
    end.

  Definition sm_mem (k : string) (m : smap) : bool :=
    match sm_get k m with Some _ => true | None => false end.
End SMap.
Arguments sm_get {A}. Arguments sm_insert {A}. Arguments sm_remove {A}. Arguments sm_mem {A}. Arguments sm_update {A}.

(* ------------------------------------------------------------------ semantic actions that build maps *)
Definition pmeta_entry (m : pmeta) : string * constval :=
  match m with
  | PMLeft | PMReduce => ("left"%string, CBool true)
  | PMRight | PMShift => ("right"%string, CBool true)
  | PMDynamic => ("dynamic"%string, CBool true)
  | PMNops => ("nops"%string, CBool true)
  | PMNopse => ("nopse"%string, CBool true)
  | PMPrio n => ("priority"%string, CInt n)
  | PMUser k v => (k, v)
  | PMKind k => ("kind"%string, CStr k)
  end.

Definition tmeta_entry (m : tmeta) : string * constval :=
  match m with
  | TMPrefer => ("prefer"%string, CBool true)
  | TMFinish => ("finish"%string, CBool true)
  | TMNoFinish => ("finish"%string, CBool false)
  | TMLeft | TMReduce => ("left"%string, CBool true)
  | TMRight | TMShift => ("right"%string, CBool true)
  | TMDynamic => ("dynamic"%string, CBool true)
  | TMPrio n => ("priority"%string, CInt n)
  | TMUser k v => (k, v)
  end.

(* prod_meta_datas_c1: metas.extend(meta) — later entries overwrite *)
Definition meta_map (es : list (string * constval)) : smap constval :=
  fold_left (fun m e => sm_insert (fst e) (snd e) m) es [].

Definition pmeta_map (ms : list pmeta) : smap constval := meta_map (map pmeta_entry ms).
Definition tmeta_map (ms : list tmeta) : smap constval := meta_map (map tmeta_entry ms).

(* int_const: token.value.parse::<u32>().unwrap() *)
Definition u32_max : N := 4294967295%N.
Definition constval_ok (v : constval) : bool :=
  match v with CInt n => N.leb n u32_max | _ => true end.
Definition pmeta_ok (m : pmeta) : bool :=
  match m with PMPrio n => N.leb n u32_max | PMUser _ v => constval_ok v | _ => true end.
Definition tmeta_ok (m : tmeta) : bool :=
  match m with TMPrio n => N.leb n u32_max | TMUser _ v => constval_ok v | _ => true end.
Definition rule_ints_ok (r : rule) : bool :=
  forallb pmeta_ok (r_meta r) && forallb (fun p => forallb pmeta_ok (pr_meta p)) (r_rhs r).
Definition ints_ok (f : file) : bool :=
  match f_rules f with Some rs => forallb rule_ints_ok rs | None => true end &&
  match f_terms f with Some ts => forallb (fun t => forallb tmeta_ok (tr_meta t)) ts | None => true end.

(* ------------------------------------------------------------------ builder data *)
Record termdata := mkTermData {
  td_idx : nat; td_name : string; td_prio : N; td_assoc : assoc;
  td_rec : option recognizer; td_has_content : bool }.

Record ntdata := mkNtData {
  nd_idx : nat; nd_name : string; nd_annot : option string; nd_prods : list nat }.

(* ResolvingSymbolIndex / ResolvingAssignment *)
Record rassign := mkRAssign {
  ra_name : option string; ra_index : option nat; ra_sym : gsym; ra_bool : bool }.

(* where a production comes from (ghost: not part of the Rust data, never compared) *)
Inductive origin := OAug | OAlt (rule_pos alt_pos : nat) | OHelper.

Record proddata := mkProdData {
  pd_idx : nat; pd_nt : nat; pd_ntidx : nat; pd_kind : option string;
  pd_rhs : list rassign; pd_assoc : assoc; pd_prio : N; pd_nops : bool; pd_nopse : bool;
  pd_meta : smap constval; pd_origin : origin }.

Record bstate := mkBState {
  s_terms : smap termdata;
  s_matches : smap (string * nat);
  s_nts : smap ntdata;
  s_prods : list proddata;
  s_next_t : nat; s_next_nt : nat; s_next_p : nat;
  s_rule_names : list string;            (* rule_names: BTreeSet of the rules given in the grammar *)
  s_seps : smap (option string) }.       (* helper_separators: separator each X1 helper was created with *)

Definition set_rule_names (st : bstate) (names : list string) : bstate :=
  mkBState (s_terms st) (s_matches st) (s_nts st) (s_prods st) (s_next_t st) (s_next_nt st) (s_next_p st)
           names (s_seps st).

Definition set_seps (st : bstate) (seps : smap (option string)) : bstate :=
  mkBState (s_terms st) (s_matches st) (s_nts st) (s_prods st) (s_next_t st) (s_next_nt st) (s_next_p st)
           (s_rule_names st) seps.

Inductive berror :=
| ETermPrio                        (* "Priority must be <=99." *)
| EIdent (n : string)              (* "Can't use '..' as a valid Rust identifier." *)
| EUndefTermSugar (s : string)     (* "Terminal ".." is not defined in the terminals section." (desugar_regex) *)
| EUndefTerm (s : string)          (* "Terminal ".." used in production .. is not defined ..." *)
| EUnexisting (n : string)         (* "Unexisting symbol '..' in production ..." *)
| EInfiniteRec (n : string)        (* "Infinite recursion on symbol '..' ..." *)
| ENoRules                         (* "The grammar must have at least one rule." *)
| EDupTerminal (n : string)        (* "Terminal '..' is defined more than once." *)
| EReservedRule (n : string)       (* "'..' is a reserved name and can't be used for a rule." *)
| EReservedRef (n : string)        (* "'..' is a reserved name and can't be referenced in production ..." *)
| ERuleTerminal (n : string)       (* "'..' is defined both as a rule and as a terminal." *)
| EGroup                           (* "Parenthesized groups are not implemented." *)
| EModifiers                       (* "Only a single separator modifier is supported." *)
| EHelperClash (h b : string)      (* "The name 'h' is needed for the rule generated for a repetition of 'b' ..." *)
| ESepConflict (b : string)        (* "Repetitions of 'b' are used with different separators." *)
| EGreedy.                         (* "Greedy repetition operators (*!, +!, ?!) are not implemented." *)

Inductive bpanic :=
| PIntConst        (* rustemo_actions.rs:22  int_const: parse::<u32>().unwrap() *)
| PRules0          (* builder.rs:106 rules[0] (the parser never yields an empty vector) *)
| PNoAug           (* builder.rs:121 nonterminals.get("AUG").unwrap() *)
| PNoStart         (* builder.rs:126 nonterminals.get(start_rule_name).unwrap() *)
| PGroupExpect     (* desugar_regex: gsymref.gsymbol.as_ref().unwrap() (after the is_none() diagnostic) *)
| PGroupUnwrap     (* extract_productions_and_symbols: gsymbol.unwrap() *)
| PStrNotCreated   (* builder.rs:574 panic!("terminal .. not created ..") *)
| PUnresolved      (* grammar/mod.rs:301 res_symbol: Unresolved symbol *)
| PReachStart      (* builder.rs:744 nonterminals[start] *)
| PReachProd       (* builder.rs:732 grammar.productions[*prod] *)
| PReachNonterm.   (* grammar/mod.rs:442 symbol_to_nonterm: nonterminals[..] *)

Inductive res (A : Type) := ROk (a : A) | RErr (e : berror) | RPanic (p : bpanic) | RFuel.
Arguments ROk {A}. Arguments RErr {A}. Arguments RPanic {A}. Arguments RFuel {A}.

Definition bind {A B} (r : res A) (f : A -> res B) : res B :=
  match r with ROk a => f a | RErr e => RErr e | RPanic p => RPanic p | RFuel => RFuel end.
Notation "'do' x <- r ; k" := (bind r (fun x => k)) (at level 200, x pattern, r at level 100, k at level 200).

(* ------------------------------------------------------------------ plain output data (what the hook dumps) *)
Record oterm := mkOTerm {
  ot_idx : nat; ot_name : string; ot_prio : N; ot_assoc : assoc;
  ot_rec : option recognizer; ot_has_content : bool; ot_reachable : bool }.

Record ononterm := mkONonterm {
  on_idx : nat; on_name : string; on_annot : option string; on_reachable : bool; on_prods : list nat }.

Record oprod := mkOProd {
  op_idx : nat; op_nt : nat; op_ntidx : nat; op_prio : N; op_assoc : assoc;
  op_nops : bool; op_nopse : bool; op_kind : option string;
  op_rhs : list nat;                       (* resolved symbol indexes *)
  op_assign : list (option string * bool); (* assignment names and ?= flags *)
  op_meta : smap constval;                 (* remaining (user) meta-data *)
  op_syms : list gsym;                     (* ghost: the references after desugaring, before resolution *)
  op_origin : origin }.                    (* ghost *)

Record bgrammar := mkBGrammar {
  bg_terms : list oterm; bg_nonterms : list ononterm; bg_prods : list oprod;
  bg_empty : nat; bg_aug : nat; bg_augl : option nat; bg_start : nat }.

Inductive bresult := BDone (g : bgrammar) | BError (e : berror) | BPanic (p : bpanic) | BOutOfFuel.

(* ------------------------------------------------------------------ helpers *)
Definition lower_ascii (c : ascii) : ascii :=
  let n := nat_of_ascii c in
  if (65 <=? n) && (n <=? 90) then ascii_of_nat (n + 32) else c.
Fixpoint lower (s : string) : string :=
  match s with EmptyString => EmptyString | String c r => String (lower_ascii c) (lower r) end.

Definition default_prio : N := 10%N.

Definition resolving (n : string) : rassign := mkRAssign None None (GName n) false.

Definition mk_helper_prod (idx nt ntidx : nat) (rhs : list rassign) : proddata :=
  mkProdData idx nt ntidx None rhs ANone default_prio false false [] OHelper.

Section Builder.
  (* check_identifier: syn::parse_str::<syn::Ident>(name).is_ok() *)
  Variable ident_ok : string -> bool.

  Definition check_identifier (n : string) : res unit :=
    if ident_ok n then ROk tt else RErr (EIdent n).

  (* -------------------------------------------------------------- collect_terminals (158-206) *)
  Definition term_prio (m : smap constval) : res N :=
    match sm_get "priority"%string m with
    | Some (CInt p) => if N.ltb 99 p then RErr ETermPrio else ROk p
    | _ => ROk default_prio
    end.

  Definition term_assoc (m : smap constval) : assoc :=
    if sm_mem "left"%string m then ALeft
    else if sm_mem "right"%string m then ARight else ANone.

  Definition term_has_content (r : option recognizer) : bool :=
    match r with Some (RStr _) => false | Some (RRegex _) => true | None => true end.

  Fixpoint collect_terminals (ts : list termrule) (terms : smap termdata) (next_t : nat)
    : res (smap termdata * nat) :=
    match ts with
    | [] => ROk (terms, next_t)
    | t :: rest =>
        let idx := next_t in
        do _ <- check_identifier (tr_name t);
        do _ <- (if sm_mem (tr_name t) terms then RErr (EDupTerminal (tr_name t)) else ROk tt);
        let m := tmeta_map (tr_meta t) in
        do prio <- term_prio m;
        let td := mkTermData idx (tr_name t) prio (term_assoc m) (tr_rec t) (term_has_content (tr_rec t)) in
        collect_terminals rest (sm_insert (tr_name t) td terms) (S next_t)
    end.

  (* 208-215: for terminal in self.terminals.values() (key order) *)
  Definition build_matches (terms : smap termdata) : smap (string * nat) :=
    fold_left (fun m kv =>
                 match td_rec (snd kv) with
                 | Some (RStr s) => sm_insert s (td_name (snd kv), td_idx (snd kv)) m
                 | _ => m
                 end) terms [].

  (* -------------------------------------------------------------- create_* (362-391, 587-703) *)
  Definition create_aug (st : bstate) (nt_name rhs_rule : string) : bstate :=
    let nt_idx := s_next_nt st in
    let p_idx := s_next_p st in
    mkBState (s_terms st) (s_matches st)
             (sm_insert nt_name (mkNtData nt_idx nt_name None [p_idx]) (s_nts st))
             (s_prods st ++ [mkProdData p_idx nt_idx 0 None [resolving rhs_rule] ANone default_prio false false [] OAug])
             (s_next_t st) (S nt_idx) (S p_idx) (s_rule_names st) (s_seps st).

  (* the three helpers allocate one nonterminal index and two production indexes, append two
     productions to the alternative's desugar list and insert the nonterminal *)
  Definition create_helper (st : bstate) (dps : list proddata) (name : string) (annot : option string)
             (rhs0 rhs1 : list rassign) : bstate * list proddata :=
    let nt_idx := s_next_nt st in
    let p0 := s_next_p st in
    let p1 := S p0 in
    (mkBState (s_terms st) (s_matches st)
              (sm_insert name (mkNtData nt_idx name annot [p0; p1]) (s_nts st))
              (s_prods st) (s_next_t st) (S nt_idx) (S p1) (s_rule_names st) (s_seps st),
     dps ++ [mk_helper_prod p0 nt_idx 0 rhs0; mk_helper_prod p1 nt_idx 1 rhs1]).

  Definition create_optional st dps (name ref_name : string) :=
    create_helper st dps name None [resolving ref_name] [].

  Definition create_one st dps (name ref_name : string) (modifier : option string) :=
    create_helper st dps name (Some "vec"%string)
      (match modifier with
       | None => [resolving name; resolving ref_name]
       | Some sep => [resolving name; resolving sep; resolving ref_name]
       end)
      [resolving ref_name].

  Definition create_zero st dps (name one_name : string) :=
    create_helper st dps name (Some "vec"%string) [resolving one_name] [].

  (* -------------------------------------------------------------- desugar_regex (395-485) *)
  Definition helper_suffix (op : repop) : string :=
    match op with
    | ZeroOrMore => "0" | ZeroOrMoreGreedy => "0Greedy"
    | OneOrMore => "1" | OneOrMoreGreedy => "1Greedy"
    | Optional => "Opt" | OptionalGreedy => "OptGreedy"
    end%string.
  Definition nt_name (name : string) (op : repop) : string := String.append name (helper_suffix op).

  (* which helper rules a repetition operator needs *)
  Definition helper_used (op helper_op : repop) : bool :=
    match op, helper_op with
    | ZeroOrMore, OneOrMore | OneOrMore, OneOrMore | ZeroOrMore, ZeroOrMore | Optional, Optional => true
    | _, _ => false
    end.

  (* for helper_op in [OneOrMore, ZeroOrMore, Optional]: the generated name must be free *)
  Fixpoint helper_clash (st : bstate) (ref_type : string) (op : repop) (hops : list repop) : res unit :=
    match hops with
    | [] => ROk tt
    | h :: rest =>
        let hn := nt_name ref_type h in
        if helper_used op h && (existsb (String.eqb hn) (s_rule_names st) || sm_mem hn (s_terms st))
        then RErr (EHelperClash hn ref_type)
        else helper_clash st ref_type op rest
    end.

  Definition opt_str_eqb (a b : option string) : bool :=
    match a, b with
    | Some x, Some y => String.eqb x y
    | None, None => true
    | _, _ => false
    end.

  (* all uses of X+ / X* must agree on the separator (the helper X1 is shared) *)
  Definition sep_check (st : bstate) (ref_type : string) (op : repop) (modifier : option string) : res bstate :=
    match op with
    | ZeroOrMore | OneOrMore =>
        let one_name := nt_name ref_type OneOrMore in
        match sm_get one_name (s_seps st) with
        | Some existing => if opt_str_eqb existing modifier then ROk st else RErr (ESepConflict ref_type)
        | None => ROk (set_seps st (sm_insert one_name modifier (s_seps st)))
        end
    | _ => ROk st
    end.

  Definition desugar (st : bstate) (dps : list proddata) (r : symref)
    : res (bstate * list proddata * option gsym) :=
    match sr_sym r with
    | None => RErr EGroup
    | Some _ =>
    match sr_rep r with
    | None => ROk (st, dps, sr_sym r)
    | Some op =>
        do modifier <- match rep_mods op with
                       | Some ms => match ms with [m] => ROk (Some m) | _ => RErr EModifiers end
                       | None => ROk None
                       end;
        do ref_type <- match sr_sym r with
                       | None => RPanic PGroupExpect
                       | Some (GName n) => ROk n
                       | Some (GStr s) => match sm_get s (s_matches st) with
                                          | Some (tname, _) => ROk tname
                                          | None => RErr (EUndefTermSugar s)
                                          end
                       end;
        do _ <- helper_clash st ref_type (rep_op op) [OneOrMore; ZeroOrMore; Optional];
        do st <- sep_check st ref_type (rep_op op) modifier;
        match rep_op op with
        | ZeroOrMore =>
            let one_name := nt_name ref_type OneOrMore in
            let '(st1, dps1) := if sm_mem one_name (s_nts st) then (st, dps)
                                else create_one st dps one_name ref_type modifier in
            let name := nt_name ref_type ZeroOrMore in
            let '(st2, dps2) := if sm_mem name (s_nts st1) then (st1, dps1)
                                else create_zero st1 dps1 name one_name in
            ROk (st2, dps2, Some (GName name))
        | OneOrMore =>
            let name := nt_name ref_type OneOrMore in
            let '(st1, dps1) := if sm_mem name (s_nts st) then (st, dps)
                                else create_one st dps name ref_type modifier in
            ROk (st1, dps1, Some (GName name))
        | Optional =>
            let name := nt_name ref_type Optional in
            let '(st1, dps1) := if sm_mem name (s_nts st) then (st, dps)
                                else create_optional st dps name ref_type in
            ROk (st1, dps1, Some (GName name))
        | OneOrMoreGreedy | ZeroOrMoreGreedy | OptionalGreedy => RErr EGreedy
        end
    end
    end.

  (* -------------------------------------------------------------- one alternative's RHS (264-311) *)
  Definition is_empty_ref (a : assignment) : bool :=
    match a with
    | ARef r => match sr_sym r with Some (GName n) => String.eqb n "EMPTY" | _ => false end
    | _ => false
    end.

  Definition do_assign (st : bstate) (dps : list proddata) (a : assignment)
    : res (bstate * list proddata * rassign) :=
    match a with
    | APlain n r | ABool n r =>
        do _ <- check_identifier n;
        do (st1, dps1, sym) <- desugar st dps r;
        match sym with
        | Some s => ROk (st1, dps1, mkRAssign (Some n) None s (match a with ABool _ _ => true | _ => false end))
        | None => RPanic PGroupUnwrap
        end
    | ARef r =>
        do (st1, dps1, sym) <- desugar st dps r;
        match sym with
        | Some s => ROk (st1, dps1, mkRAssign None None s false)
        | None => RPanic PGroupUnwrap
        end
    end.

  Fixpoint do_assigns (st : bstate) (dps : list proddata) (asg : list assignment)
    : res (bstate * list proddata * list rassign) :=
    match asg with
    | [] => ROk (st, dps, [])
    | a :: rest =>
        if is_empty_ref a then do_assigns st dps rest
        else
          do (st1, dps1, ra) <- do_assign st dps a;
          do (st2, dps2, ras) <- do_assigns st1 dps1 rest;
          ROk (st2, dps2, ra :: ras)
    end.

  (* -------------------------------------------------------------- meta-data (316-343) *)
  (* a production that gives left or right itself inherits neither associativity key of the rule *)
  Definition assoc_key (k : string) : bool := String.eqb k "left" || String.eqb k "right".
  Definition inherit_meta (own rule_meta : smap constval) : smap constval :=
    let own_assoc := sm_mem "left"%string own || sm_mem "right"%string own in
    fold_left (fun m kv => if own_assoc && assoc_key (fst kv) then m
                           else if sm_mem (fst kv) m then m else sm_insert (fst kv) (snd kv) m) rule_meta own.

  Definition meta_prio (m : smap constval) : N :=
    match sm_get "priority"%string m with Some (CInt p) => p | _ => default_prio end.
  Definition meta_kind (m : smap constval) : option string :=
    match sm_get "kind"%string m with Some (CStr k) => Some k | _ => None end.
  Definition meta_assoc (m : smap constval) : assoc :=
    if sm_mem "right"%string m then ARight else if sm_mem "left"%string m then ALeft else ANone.
  Definition meta_rest (m : smap constval) : smap constval :=
    sm_remove "nopse"%string (sm_remove "nops"%string (sm_remove "right"%string (sm_remove "left"%string
      (sm_remove "kind"%string (sm_remove "priority"%string m))))).

  (* -------------------------------------------------------------- one rule (244-357) *)
  Definition add_prod_to_nt (nts : smap ntdata) (name : string) (nt_idx : nat) (annot : option string) (p : nat)
    : smap ntdata :=
    match sm_get name nts with
    | Some _ => sm_update name (fun nt => mkNtData (nd_idx nt) (nd_name nt) (nd_annot nt) (nd_prods nt ++ [p])) nts
    | None => sm_insert name (mkNtData nt_idx name annot [p]) nts
    end.

  Definition do_alt (st : bstate) (rpos : nat) (r : rule) (rmeta : smap constval) (nt_idx ntidx : nat) (alt : production)
    : res bstate :=
    let prod_idx := s_next_p st in
    let st0 := mkBState (s_terms st) (s_matches st) (s_nts st) (s_prods st) (s_next_t st) (s_next_nt st) (S prod_idx)
                        (s_rule_names st) (s_seps st) in
    do (st1, dps, rhs) <- do_assigns st0 [] (pr_assigns alt);
    let m := inherit_meta (pmeta_map (pr_meta alt)) rmeta in
    do _ <- match meta_kind m with Some k => check_identifier k | None => ROk tt end;
    let np := mkProdData prod_idx nt_idx ntidx (meta_kind m) rhs (meta_assoc m) (meta_prio m)
                         (sm_mem "nops"%string m) (sm_mem "nopse"%string m) (meta_rest m) (OAlt rpos ntidx) in
    ROk (mkBState (s_terms st1) (s_matches st1)
                  (add_prod_to_nt (s_nts st1) (r_name r) nt_idx (r_annot r) prod_idx)
                  (s_prods st1 ++ np :: dps)
                  (s_next_t st1) (s_next_nt st1) (s_next_p st1) (s_rule_names st1) (s_seps st1)).

  Fixpoint do_alts (st : bstate) (rpos : nat) (r : rule) (rmeta : smap constval) (nt_idx ntidx : nat)
           (alts : list production) : res bstate :=
    match alts with
    | [] => ROk st
    | alt :: rest =>
        do st1 <- do_alt st rpos r rmeta nt_idx ntidx alt;
        do_alts st1 rpos r rmeta nt_idx (S ntidx) rest
    end.

  Definition do_rule (st : bstate) (rpos : nat) (r : rule) : res bstate :=
    do _ <- check_identifier (r_name r);
    do _ <- (if existsb (String.eqb (r_name r)) ["EMPTY"; "AUG"; "AUGL"]%string then RErr (EReservedRule (r_name r)) else ROk tt);
    do _ <- (if sm_mem (r_name r) (s_terms st) then RErr (ERuleTerminal (r_name r)) else ROk tt);
    let '(nt_idx, st0) :=
      match sm_get (r_name r) (s_nts st) with
      | Some nt => (nd_idx nt, st)
      | None => (s_next_nt st,
                 mkBState (s_terms st) (s_matches st) (s_nts st) (s_prods st) (s_next_t st) (S (s_next_nt st)) (s_next_p st)
                          (s_rule_names st) (s_seps st))
      end in
    do_alts st0 rpos r (pmeta_map (r_meta r)) nt_idx 0 (r_rhs r).

  Fixpoint do_rules (st : bstate) (rpos : nat) (rs : list rule) : res bstate :=
    match rs with
    | [] => ROk st
    | r :: rest => do st1 <- do_rule st rpos r; do_rules st1 (S rpos) rest
    end.

  (* extract_productions_and_symbols (221-360) *)
  Definition extract_rules (st : bstate) (rs : list rule) : res bstate :=
    match rs with
    | [] => RPanic PRules0
    | r0 :: _ =>
        let st1 := mkBState (s_terms st) (s_matches st)
                            (sm_insert "EMPTY"%string (mkNtData (s_next_nt st) "EMPTY"%string None []) (s_nts st))
                            (s_prods st) (s_next_t st) (S (s_next_nt st)) (s_next_p st) (s_rule_names st) (s_seps st) in
        let st2 := create_aug st1 "AUG"%string (r_name r0) in
        let st3 := match find (fun r => String.eqb (lower (r_name r)) "layout") rs with
                   | Some lr => create_aug st2 "AUGL"%string (r_name lr)
                   | None => st2
                   end in
        do_rules (set_rule_names st3 (map r_name rs)) 0 rs
    end.

  (* -------------------------------------------------------------- resolve_inline_terminals (494-528) *)
  Fixpoint resolve_inline_rhs (matches : smap (string * nat)) (rhs : list rassign) : res (list rassign) :=
    match rhs with
    | [] => ROk []
    | a :: rest =>
        do a1 <- match ra_sym a with
                 | GStr m => match sm_get m matches with
                             | Some (_, idx) => ROk (mkRAssign (ra_name a) (Some idx) (ra_sym a) (ra_bool a))
                             | None => RErr (EUndefTerm m)
                             end
                 | GName _ => ROk a
                 end;
        do rest1 <- resolve_inline_rhs matches rest;
        ROk (a1 :: rest1)
    end.

  Definition set_rhs (p : proddata) (rhs : list rassign) : proddata :=
    mkProdData (pd_idx p) (pd_nt p) (pd_ntidx p) (pd_kind p) rhs (pd_assoc p) (pd_prio p) (pd_nops p) (pd_nopse p)
               (pd_meta p) (pd_origin p).

  Fixpoint resolve_inline (matches : smap (string * nat)) (ps : list proddata) : res (list proddata) :=
    match ps with
    | [] => ROk []
    | p :: rest =>
        do rhs <- resolve_inline_rhs matches (pd_rhs p);
        do rest1 <- resolve_inline matches rest;
        ROk (set_rhs p rhs :: rest1)
    end.

  (* -------------------------------------------------------------- resolve_references (530-585) *)
  Definition resolve_sym (terms : smap termdata) (nts : smap ntdata) (rhs_len prod_nt : nat) (s : gsym) : res nat :=
    match s with
    | GName n =>
        match sm_get n terms with
        | Some t => ROk (td_idx t)
        | None =>
            (* the augmented non-terminals are internal (builder.rs resolve_references, /repo 2d9436f) *)
            if existsb (String.eqb n) ["AUG"; "AUGL"]%string then RErr (EReservedRef n) else
            match sm_get n nts with
            | None => RErr (EUnexisting n)
            | Some nt =>
                if (rhs_len =? 1) && (nd_idx nt =? prod_nt) then RErr (EInfiniteRec n)
                else ROk (nd_idx nt + length terms)
            end
        end
    | GStr n =>
        match sm_get n terms with
        | Some t => ROk (td_idx t)
        | None => RPanic PStrNotCreated
        end
    end.

  Fixpoint resolve_refs_rhs terms nts (rhs_len prod_nt : nat) (rhs : list rassign) : res (list rassign) :=
    match rhs with
    | [] => ROk []
    | a :: rest =>
        do a1 <- match ra_index a with
                 | Some _ => ROk a
                 | None => do i <- resolve_sym terms nts rhs_len prod_nt (ra_sym a);
                           ROk (mkRAssign (ra_name a) (Some i) (ra_sym a) (ra_bool a))
                 end;
        do rest1 <- resolve_refs_rhs terms nts rhs_len prod_nt rest;
        ROk (a1 :: rest1)
    end.

  Fixpoint resolve_refs terms nts (ps : list proddata) : res (list proddata) :=
    match ps with
    | [] => ROk []
    | p :: rest =>
        do rhs <- resolve_refs_rhs terms nts (length (pd_rhs p)) (pd_nt p) (pd_rhs p);
        do rest1 <- resolve_refs terms nts rest;
        ROk (set_rhs p rhs :: rest1)
    end.

  (* -------------------------------------------------------------- final vectors (116-149) *)
  (* terms.sort() / nonterms.sort(): Ord is by idx; stable insertion sort *)
  Section Sort.
    Variable A : Type.
    Variable key : A -> nat.
    Fixpoint insert_sorted (x : A) (l : list A) : list A :=
      match l with
      | [] => [x]
      | y :: r => if key x <? key y then x :: y :: r else y :: insert_sorted x r
      end.
    Definition sort_by (l : list A) : list A := fold_left (fun acc x => insert_sorted x acc) l [].
  End Sort.
  Arguments sort_by {A}.

  (* rhs_symbols(): res_symbol unwraps the index *)
  Fixpoint rhs_symbols (rhs : list rassign) : res (list nat) :=
    match rhs with
    | [] => ROk []
    | a :: rest =>
        match ra_index a with
        | None => RPanic PUnresolved
        | Some i => do r <- rhs_symbols rest; ROk (i :: r)
        end
    end.

  Fixpoint all_rhs_symbols (ps : list proddata) : res (list (list nat)) :=
    match ps with
    | [] => ROk []
    | p :: rest => do s <- rhs_symbols (pd_rhs p); do r <- all_rhs_symbols rest; ROk (s :: r)
    end.

  (* -------------------------------------------------------------- mark_reachable_symbols (718-747) *)
  (* nts: the sorted nonterminal VECTOR (positional indexing, as the Rust code does);
     rhss: rhs symbols per production position; marks: visited productions, reachable nonterminal
     positions, reachable terminal positions *)
  Record marks := mkMarks { m_visited : list nat; m_nts : list nat; m_terms : list nat }.

  Section Reach.
    Variable term_len : nat.
    Variable nts : list ntdata.
    Variable rhss : list (list nat).
    Variable rec : nat -> marks -> res marks.    (* mark_reachable on the nonterminal at a position *)

    Fixpoint reach_syms (syms : list nat) (mk : marks) : res marks :=
      match syms with
      | [] => ROk mk
      | s :: rest =>
          if term_len <=? s then
            do mk1 <- rec (s - term_len) mk;
            reach_syms rest mk1
          else reach_syms rest (mkMarks (m_visited mk) (m_nts mk) (s :: m_terms mk))
      end.

    Fixpoint reach_prods (ps : list nat) (mk : marks) : res marks :=
      match ps with
      | [] => ROk mk
      | p :: rest =>
          if memb p (m_visited mk) then reach_prods rest mk
          else
            match nth_error rhss p with
            | None => RPanic PReachProd
            | Some syms =>
                do mk1 <- reach_syms syms (mkMarks (p :: m_visited mk) (m_nts mk) (m_terms mk));
                reach_prods rest mk1
            end
      end.
  End Reach.

  Fixpoint mark_reachable (fuel : nat) (term_len : nat) (nts : list ntdata) (rhss : list (list nat))
           (pos : nat) (mk : marks) : res marks :=
    match fuel with
    | 0 => RFuel
    | S f =>
        match nth_error nts pos with
        | None => RPanic PReachNonterm
        | Some nt =>
            reach_prods term_len rhss (mark_reachable f term_len nts rhss) (nd_prods nt)
                        (mkMarks (m_visited mk) (pos :: m_nts mk) (m_terms mk))
        end
    end.

  (* -------------------------------------------------------------- try_from_file (81-156) *)
  Definition stop_term : termdata := mkTermData 0 "STOP"%string 100%N ANone None false.
  (* `..Default::default()`: has_content false, no recognizer *)

  Definition oprod_of (p : proddata) (syms : list nat) : oprod :=
    mkOProd (pd_idx p) (pd_nt p) (pd_ntidx p) (pd_prio p) (pd_assoc p) (pd_nops p) (pd_nopse p) (pd_kind p)
            syms (map (fun a => (ra_name a, ra_bool a)) (pd_rhs p)) (pd_meta p) (map ra_sym (pd_rhs p)) (pd_origin p).

  Definition terms_phase (f : file) : res (smap termdata * nat) :=
    let terms0 := sm_insert "STOP"%string stop_term [] in
    match f_terms f with
    | Some ts => collect_terminals ts terms0 1
    | None => ROk (terms0, 1)
    end.

  Definition initial_state (f : file) (terms : smap termdata) (next_t : nat) : bstate :=
    mkBState terms (match f_terms f with Some _ => build_matches terms | None => [] end) [] [] next_t 0 0 [] [].

  Definition rules_phase (f : file) (st0 : bstate) : res bstate :=
    match f_rules f with
    | Some rs => extract_rules st0 rs
    | None => RErr ENoRules
    end.

  Definition start_name (f : file) : string :=
    match f_rules f with Some (r0 :: _) => r_name r0 | _ => EmptyString end.

  Definition resolve_phase (st1 : bstate) : res (list proddata) :=
    do ps1 <- resolve_inline (s_matches st1) (s_prods st1);
    resolve_refs (s_terms st1) (s_nts st1) ps1.

  Definition assemble (st1 : bstate) (ps2 : list proddata) (start_nm : string) : res bgrammar :=
    let term_len := length (s_terms st1) in
    do aug <- match sm_get "AUG"%string (s_nts st1) with
              | Some nt => ROk (term_len + nd_idx nt) | None => RPanic PNoAug end;
    let augl := match sm_get "AUGL"%string (s_nts st1) with
                | Some nt => Some (term_len + nd_idx nt) | None => None end in
    do start <- match sm_get start_nm (s_nts st1) with
                | Some nt => ROk (term_len + nd_idx nt) | None => RPanic PNoStart end;
    let tvec := sort_by td_idx (map snd (s_terms st1)) in
    let nvec := sort_by nd_idx (map snd (s_nts st1)) in
    (* mark_reachable_symbols *)
    do rhss <- all_rhs_symbols ps2;
    do mk <- match nth_error nvec (start - term_len) with
             | None => RPanic PReachStart
             | Some _ => mark_reachable (S (S (length ps2))) term_len nvec rhss (start - term_len) (mkMarks [] [] [])
             end;
    ROk (mkBGrammar
           (map (fun it => let t := snd it in
                           mkOTerm (td_idx t) (td_name t) (td_prio t) (td_assoc t) (td_rec t) (td_has_content t)
                                   (memb (fst it) (m_terms mk))) (indexed tvec))
           (map (fun it => let n := snd it in
                           mkONonterm (nd_idx n) (nd_name n) (nd_annot n) (memb (fst it) (m_nts mk)) (nd_prods n))
                (indexed nvec))
           (map (fun pr => oprod_of (fst pr) (snd pr)) (combine ps2 rhss))
           term_len aug augl start).

  Definition build_res (f : file) : res bgrammar :=
    do (terms, next_t) <- terms_phase f;
    do st1 <- rules_phase f (initial_state f terms next_t);
    do ps2 <- resolve_phase st1;
    assemble st1 ps2 (start_name f).

  Definition build_grammar (f : file) : bresult :=
    if negb (ints_ok f) then BPanic PIntConst else
    match build_res f with
    | ROk g => BDone g
    | RErr e => BError e
    | RPanic p => BPanic p
    | RFuel => BOutOfFuel
    end.
End Builder.
Arguments sort_by {A}. Arguments insert_sorted {A}.

(* ------------------------------------------------------------------ check_identifier, concretely *)
(* syn::parse_str::<Ident>: names matched by the grammar's Name regex [a-zA-Z_][a-zA-Z0-9_.]*
   are identifiers unless they contain '.', are "_" or are Rust keywords (strict or reserved). *)
Definition rust_keywords : list string :=
  ["abstract"; "as"; "async"; "await"; "become"; "box"; "break"; "const"; "continue"; "crate"; "do"; "dyn";
   "else"; "enum"; "extern"; "false"; "final"; "fn"; "for"; "if"; "impl"; "in"; "let"; "loop"; "macro";
   "match"; "mod"; "move"; "mut"; "override"; "priv"; "pub"; "ref"; "return"; "Self"; "self"; "static";
   "struct"; "super"; "trait"; "true"; "try"; "type"; "typeof"; "unsafe"; "unsized"; "use"; "virtual";
   "where"; "while"; "yield"]%string.

Fixpoint has_dot (s : string) : bool :=
  match s with
  | EmptyString => false
  | String c r => (nat_of_ascii c =? 46) || has_dot r
  end.

Definition rust_ident_ok (s : string) : bool :=
  negb (has_dot s) && negb (String.eqb s "_") && negb (existsb (String.eqb s) rust_keywords) &&
  negb (String.eqb s "").

(* ------------------------------------------------------------------ flat text of a result (same lines as the hook's dump) *)
Definition nat_str (n : nat) : string := NilEmpty.string_of_uint (Nat.to_uint n).
Definition N_str (n : N) : string := NilEmpty.string_of_uint (N.to_uint n).

Definition hex_digit (n : nat) : ascii :=
  ascii_of_nat (if n <? 10 then 48 + n else 87 + n).
Fixpoint hex (s : string) : string :=
  match s with
  | EmptyString => EmptyString
  | String c r => let n := nat_of_ascii c in String (hex_digit (n / 16)) (String (hex_digit (n mod 16)) (hex r))
  end.
Definition hex_or_dash (s : string) : string := match s with EmptyString => "-"%string | _ => hex s end.

Definition sp (a b : string) : string := String.append a (String " "%char b).
Fixpoint spaced (l : list string) : string :=
  match l with
  | [] => EmptyString
  | [x] => x
  | x :: r => sp x (spaced r)
  end.

Definition assoc_str (a : assoc) : string :=
  match a with ANone => "N" | ALeft => "L" | ARight => "R" end%string.
Definition bool_str (b : bool) : string := if b then "1"%string else "0"%string.
Definition constval_str (v : constval) : string :=
  match v with
  | CInt n => String.append "I" (N_str n)
  | CFloat _ => "F"%string
  | CBool b => String.append "B" (bool_str b)
  | CStr s => String.append "S" (hex_or_dash s)
  end.

Definition term_line (t : oterm) : string :=
  spaced ["TERM"%string; nat_str (ot_idx t); ot_name t; N_str (ot_prio t); assoc_str (ot_assoc t);
          match ot_rec t with Some (RStr _) => "S" | Some (RRegex _) => "R" | None => "-" end%string;
          match ot_rec t with Some (RStr s) => hex_or_dash s | Some (RRegex s) => hex_or_dash s | None => "-"%string end;
          bool_str (ot_has_content t); bool_str (ot_reachable t)].

Definition nonterm_line (n : ononterm) : string :=
  spaced (["NONTERM"%string; nat_str (on_idx n); on_name n; bool_str (on_reachable n)] ++ map nat_str (on_prods n)).

Definition prod_lines (nterm : nat) (p : oprod) : list string :=
  [spaced (["PROD"%string; nat_str (op_idx p); nat_str (op_nt p + nterm); nat_str (op_ntidx p); N_str (op_prio p);
            assoc_str (op_assoc p); bool_str (op_nops p); bool_str (op_nopse p);
            match op_kind p with Some k => k | None => "-"%string end; nat_str (length (op_rhs p))]
           ++ map nat_str (op_rhs p));
   spaced (["PRODASSIGN"%string; nat_str (op_idx p)]
           ++ map (fun a => String.append (match fst a with Some n => n | None => "-"%string end)
                                          (String ":"%char (bool_str (snd a)))) (op_assign p));
   spaced (["PRODMETA"%string; nat_str (op_idx p)]
           ++ map (fun kv => String.append (fst kv) (String "="%char (constval_str (snd kv)))) (op_meta p))].

Definition error_line (e : berror) : string :=
  match e with
  | ETermPrio => "ERROR term-priority"
  | EIdent n => String.append "ERROR invalid-identifier " n
  | EUndefTermSugar s => String.append "ERROR undefined-terminal-sugar " (hex_or_dash s)
  | EUndefTerm s => String.append "ERROR undefined-terminal " (hex_or_dash s)
  | EUnexisting n => String.append "ERROR undefined-symbol " n
  | EInfiniteRec n => String.append "ERROR infinite-recursion " n
  | ENoRules => "ERROR no-rules"
  | EDupTerminal n => String.append "ERROR duplicate-terminal " n
  | EReservedRule n => String.append "ERROR reserved-rule-name " n
  | EReservedRef n => String.append "ERROR reserved-reference " n
  | ERuleTerminal n => String.append "ERROR rule-and-terminal " n
  | EGroup => "ERROR groups"
  | EModifiers => "ERROR modifiers"
  | EHelperClash h b => String.append "ERROR helper-name-clash " (String.append h (String " "%char b))
  | ESepConflict b => String.append "ERROR separator-conflict " b
  | EGreedy => "ERROR greedy"
  end%string.

Definition panic_line (p : bpanic) : string :=
  match p with
  | PIntConst => "PANIC int_const"
  | PRules0 => "PANIC rules0"
  | PNoAug => "PANIC no-aug"
  | PNoStart => "PANIC no-start"
  | PGroupExpect => "PANIC group-expect"
  | PGroupUnwrap => "PANIC group-unwrap"
  | PStrNotCreated => "PANIC str-not-created"
  | PUnresolved => "PANIC unresolved"
  | PReachStart => "PANIC reach-start"
  | PReachProd => "PANIC reach-prod"
  | PReachNonterm => "PANIC reach-nonterm"
  end%string.

Definition dump_lines (r : bresult) : list string :=
  match r with
  | BDone g =>
      let nterm := length (bg_terms g) in
      ["OK"%string] ++ map term_line (bg_terms g) ++ map nonterm_line (bg_nonterms g)
      ++ flat_map (prod_lines nterm) (bg_prods g)
      ++ [spaced ["SPECIAL"%string; nat_str (bg_empty g); "0"%string; nat_str (bg_aug g);
                  match bg_augl g with Some a => nat_str a | None => "-1"%string end; nat_str (bg_start g)]]
  | BError e => [error_line e]
  | BPanic p => [panic_line p]
  | BOutOfFuel => ["OUTOFFUEL"%string]
  end.
