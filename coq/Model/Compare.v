(* Executable comparison of model outcomes with the outcomes observed on the
   real runtime (leg C): evaluated by vm_compute in generated case files. *)
From RV Require Import Spec.Grammar Spec.TreeCheck Model.LR.

Definition set_eqb (l1 l2 : list nat) : bool := subsetb l1 l2 && subsetb l2 l1.

Definition outcome_eqb (o1 o2 : outcome) : bool :=
  match o1, o2 with
  | Ok t1 k1, Ok t2 k2 => tree_eqb t1 t2 && (k1 =? k2)
  | Err k1 e1, Err k2 e2 => (k1 =? k2) && set_eqb e1 e2
  | ErrNoAction, ErrNoAction => true
  | Panic s1, Panic s2 => s1 =? s2
  | OutOfFuel, OutOfFuel => true
  | _, _ => false
  end.

Definition fuel_for (T : table) (w : list nat) : nat :=
  (4 + length w) * (4 + 2 * length (t_states T)).

Definition parse_auto (g : grammar) (T : table) (partial : bool) (w : list nat) : outcome :=
  parse g T partial (fuel_for T w) w.

(* the two custom lexers of the harness (harness/src/custom.rs) at token level *)
Definition lex_all (c : conf) : tok :=
  match c_inp c with
  | [] => Tok STOP false
  | a :: _ => Tok a true
  end.

Definition lex_foreign (g : grammar) (T : table) (c : conf) : tok :=
  match c_stk c with
  | [] => NoTok
  | s :: _ =>
      match find (fun t => negb (memb t (expected T s))) (seq 0 (g_nterm g)) with
      | Some t => Tok t false
      | None => NoTok
      end
  end.

Definition run_lex_auto (g : grammar) (T : table) (lex : conf -> tok) (w : list nat) : outcome :=
  run_lex g T lex (fuel_for T w) (init 0 w).
