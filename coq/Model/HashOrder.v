(* Model of Choice::make_choices_name_unique (rustemo-compiler/src/grammar/types/mod.rs:448-474),
   the only place of the compiler that ITERATES over a hash collection (HashMap<String, usize>).
   The iteration order of the map is a parameter: `order` lists the keys in the order the
   iterator yields them.  Names are character lists; the characters '0'..'9' are the numbers 0..9.
   Executable definitions only. *)
From RV Require Import Util.

Definition name := list nat.

Fixpoint name_eqb (a b : name) : bool :=
  match a, b with
  | [], [] => true
  | x :: a', y :: b' => Nat.eqb x y && name_eqb a' b'
  | _, _ => false
  end.

(* usize::to_string *)
Fixpoint digits_aux (fuel n : nat) (acc : list nat) : list nat :=
  match fuel with
  | 0 => acc
  | S f => let acc' := (n mod 10) :: acc in
           if n / 10 =? 0 then acc' else digits_aux f (n / 10) acc'
  end.

Definition digits (n : nat) : list nat := digits_aux (S n) n [].

(* mod.rs:465-471   choices.iter_mut().filter(|c| c.name == *name).enumerate()
                       .for_each(|(idx, c)| c.name.push_str(&(idx + 1).to_string()))
   the filter looks at the CURRENT names (earlier renamings are visible) *)
Fixpoint renum (nm : name) (idx : nat) (choices : list name) : list name :=
  match choices with
  | [] => []
  | c :: r => if name_eqb c nm then (c ++ digits (S idx)) :: renum nm (S idx) r
              else c :: renum nm idx r
  end.

(* mod.rs:453-459   name_counts, computed before any renaming *)
Definition count (nm : name) (choices : list name) : nat := length (filter (name_eqb nm) choices).

Definition step (choices0 : list name) (chs : list name) (nm : name) : list name :=
  if 1 <? count nm choices0 then renum nm 0 chs else chs.

(* mod.rs:461-472   name_counts.iter().filter(count > 1).for_each(rename) *)
Definition mcnu (order : list name) (choices : list name) : list name :=
  fold_left (step choices) order choices.

(* known class: two different duplicated names a, b such that a followed by an index that the
   renaming can produce is b  (e.g. X, X, X1, X1) *)
Definition collide (a b : name) (n : nat) : bool :=
  existsb (fun k => name_eqb (a ++ digits k) b) (seq 1 n).

Definition index_clash_b (choices : list name) : bool :=
  existsb (fun a => existsb (fun b =>
    (1 <? count a choices) && (1 <? count b choices) && negb (name_eqb a b)
    && collide a b (length choices)) choices) choices.
