(* Executable comparison of byte-level model outcomes with the outcomes
   observed on the real runtime. *)
From RV Require Import Model.LR Model.LRBytes Model.Compare Spec.TreeCheck.

Inductive rtree :=
| RLeaf (kind : nat) (sp : span) (layout : option (list nat)) (value : list nat)
| RNode (prod : nat) (sp : span) (layout : option (list nat)) (cs : list rtree).

Inductive rout := ROk (t : rtree) | RErr (p : pos) (exp : list nat) | RErrNoAction | RPanic (site : nat) | RTimeout.

Definition pos_eqb (a b : pos) : bool :=
  (p_off a =? p_off b) && (p_line a =? p_line b) && (p_col a =? p_col b).
Definition span_eqb (a b : span) : bool :=
  pos_eqb (sp_start a) (sp_start b) && pos_eqb (sp_end a) (sp_end b).

Definition layout_eqb (inp : list nat) (m : option slice) (r : option (list nat)) : bool :=
  match m, r with
  | None, None => true
  | Some sl, Some bs => list_eqb (sub inp sl) bs
  | _, _ => false
  end.

Fixpoint btree_eqb (inp : list nat) (m : btree) (r : rtree) : bool :=
  match m, r with
  | BLeaf k sp l v, RLeaf k' sp' l' v' =>
      (k =? k') && span_eqb sp sp' && layout_eqb inp l l' && list_eqb (sub inp v) v'
  | BNode p sp l cs, RNode p' sp' l' cs' =>
      (p =? p') && span_eqb sp sp' && layout_eqb inp l l' &&
      (fix go (l1 : list btree) (l2 : list rtree) : bool :=
         match l1, l2 with
         | [], [] => true
         | x :: xs, y :: ys => btree_eqb inp x y && go xs ys
         | _, _ => false
         end) cs cs'
  | _, _ => false
  end.

Definition bout_eqb (inp : list nat) (m : bout) (r : rout) : bool :=
  match m, r with
  | BOk t, ROk t' => btree_eqb inp t t'
  | BErr p ex, RErr p' ex' => pos_eqb p p' && set_eqb ex ex'
  | BErrNoAction, RErrNoAction => true
  | BPanic n, RPanic n' => n =? n'
  | BOutOfFuel, RTimeout => true
  | _, _ => false
  end.

Definition bfuel (T : table) (inp : list nat) : nat :=
  (4 + length inp) * (4 + 2 * length (t_states T)).

Definition bparse_auto (g : grammar) (T : table) (inp : list nat) (mt : mtable) (cfg : bcfg) : bout :=
  bparse g T inp mt (bfuel T inp) cfg.
