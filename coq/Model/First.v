(* FIRST of a symbol sequence over a FIRST table
   (rustemo-compiler/src/table/mod.rs `firsts`, 1380-1408): non-EMPTY firsts of
   each symbol while the symbols are nullable; EMPTY if all are. Sets are lists
   here (membership semantics); the order-exact version is Model/Gen.v. *)
From RV Require Export Model.Table.

Definition first_of (F : list (list nat)) (x : nat) : list nat := nth x F [].

Fixpoint firsts (e : nat) (F : list (list nat)) (syms : list nat) : list nat :=
  match syms with
  | [] => [e]
  | x :: rest =>
      let fx := first_of F x in
      let ne := filter (fun a => negb (a =? e)) fx in
      if memb e fx then ne ++ firsts e F rest else ne
  end.

Lemma firsts_nil e F : firsts e F [] = [e].
Proof. reflexivity. Qed.

Lemma firsts_cons e F x rest a :
  In a (firsts e F (x :: rest)) <->
  (a <> e /\ In a (first_of F x)) \/ (In e (first_of F x) /\ In a (firsts e F rest)).
Proof.
  simpl. destruct (memb e (first_of F x)) eqn:E.
  - apply memb_In in E. rewrite in_app_iff, filter_In. split.
    + intros [[Hin Hne]|H]; [left|right; tauto].
      apply negb_true_iff, Nat.eqb_neq in Hne. tauto.
    + intros [[Hne Hin]|[_ H]]; [left|right; exact H].
      split; [exact Hin|]. apply negb_true_iff, Nat.eqb_neq. exact Hne.
  - apply memb_false in E. rewrite filter_In. split.
    + intros [Hin Hne]. left. apply negb_true_iff, Nat.eqb_neq in Hne. tauto.
    + intros [[Hne Hin]|[H _]]; [|contradiction].
      split; [exact Hin|]. apply negb_true_iff, Nat.eqb_neq. exact Hne.
Qed.
