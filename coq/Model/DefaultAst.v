(* The shapes of value the generated default actions build (generator/actions/production.rs:225-419):
   a token value (String / ValLoc<String>), a struct of the content fields in right-hand-side order,
   an enum variant wrapping its payload (Plain variants carry nothing), Option (Some / None for the
   EMPTY alternative), Box (recursive references), Vec (push / insert(0, ..)).
   `lits` is the sequence of token values in the order derived `Debug` prints them (fields in
   declaration order = right-hand-side order, vector elements first to last).
   Executable definitions only; lemmas are in Proofs/DefaultAst.v. *)
From RV Require Export Util.

Inductive aval :=
| ALit (v : nat)                      (* token value *)
| AStruct (fs : list aval)            (* struct / tuple-variant payload: content fields in rhs order *)
| AVariant (c : nat) (p : option aval)(* enum variant c, Plain when p = None *)
| ASome (x : aval) | ANone            (* Option *)
| ABox (x : aval)
| AVec (xs : list aval).

Fixpoint lits (a : aval) : list nat :=
  match a with
  | ALit v => [v]
  | AStruct fs => flat_map lits fs
  | AVariant _ (Some p) => lits p
  | AVariant _ None => []
  | ASome x => lits x
  | ANone => []
  | ABox x => lits x
  | AVec xs => flat_map lits xs
  end.

(* derivation trees: a leaf is a token (with or without content), a node is a production applied
   to its children in input order *)
Inductive dtree :=
| DLeaf (content : bool) (v : nat)
| DNode (p : nat) (ch : list dtree).

Fixpoint content (t : dtree) : list nat :=
  match t with
  | DLeaf true v => [v]
  | DLeaf false _ => []
  | DNode _ ch => flat_map content ch
  end.

(* what a generated action receives for one right-hand-side position: nothing for a terminal
   without content (get_action_args drops it), the child's value otherwise *)
Definition args_lits (args : list (option aval)) : list nat :=
  flat_map (fun a => match a with Some x => lits x | None => [] end) args.

(* the builder: token action for content leaves, production action `act p` on the child values *)
Section Build.
  Variable act : nat -> list (option aval) -> aval.
  Fixpoint build (t : dtree) : option aval :=
    match t with
    | DLeaf true v => Some (ALit v)
    | DLeaf false _ => None
    | DNode p ch => Some (act p (map build ch))
    end.
End Build.

(* the action bodies get_action_body writes, by kind of the rule / choice *)
Definition present (args : list (option aval)) : list aval :=
  flat_map (fun a => match a with Some x => [x] | None => [] end) args.

Inductive akind :=
| KStruct                 (* Struct { f1, f2, .. } of the content args in order *)
| KVariantStruct (c : nat)(* Enum::C(Struct { .. }) *)
| KVariantRef (c : nat) (boxed : bool)   (* Enum::C(x) / Enum::C(Box::new(x)) *)
| KPlain (c : nat)        (* Enum::C *)
| KRef (boxed : bool)     (* x / Box::new(x) *)
| KSomeOf (k : akind)     (* optional rule: Some(<k>) *)
| KNone                   (* EMPTY alternative of an optional rule *)
| KVecEmpty | KVecOne (boxed : bool) | KVecPush (boxed : bool) | KVecInsert (boxed : bool).

Definition bx (boxed : bool) (x : aval) := if boxed then ABox x else x.

(* ill-kinded argument lists (never produced by the type deduction) give ANone *)
Fixpoint std_action (k : akind) (args : list (option aval)) : aval :=
  match k with
  | KStruct => AStruct (present args)
  | KVariantStruct c => AVariant c (Some (AStruct (present args)))
  | KVariantRef c b => match present args with [x] => AVariant c (Some (bx b x)) | _ => ANone end
  | KPlain c => AVariant c None
  | KRef b => match present args with [x] => bx b x | _ => ANone end
  | KSomeOf k => ASome (std_action k args)
  | KNone => ANone
  | KVecEmpty => AVec []
  | KVecOne b => match present args with [x] => AVec [bx b x] | _ => ANone end
  | KVecPush b => match present args with [AVec v; x] => AVec (v ++ [bx b x]) | _ => ANone end
  | KVecInsert b => match present args with [x; AVec v] => AVec (bx b x :: v) | _ => ANone end
  end.

(* the argument list fits the kind (what get_type_kind guarantees for the choice) *)
Fixpoint fits (k : akind) (args : list (option aval)) : bool :=
  match k with
  | KStruct | KVariantStruct _ => true
  | KVariantRef _ _ | KRef _ | KVecOne _ => match present args with [_] => true | _ => false end
  | KPlain _ | KNone | KVecEmpty => match present args with [] => true | _ => false end
  | KSomeOf k => fits k args
  | KVecPush _ => match present args with [AVec _; _] => true | _ => false end
  | KVecInsert _ => match present args with [_; AVec _] => true | _ => false end
  end.

(* every node of the tree applies an action body whose argument list fits its kind *)
Fixpoint well_kinded (kinds : nat -> akind) (t : dtree) : bool :=
  match t with
  | DLeaf _ _ => true
  | DNode p ch => fits (kinds p) (map (build (fun p => std_action (kinds p))) ch)
                  && forallb (well_kinded kinds) ch
  end.
