(* Verified boolean oracle: is this tree a derivation tree of the grammar?
   Used to judge trees returned by the REAL parser and witnesses produced by
   the searches, so that neither the model under test nor the Python driver is
   trusted for the verdict. *)
From RV Require Import Spec.Grammar.

Definition list_eqb (l1 l2 : list nat) : bool :=
  (length l1 =? length l2) && forallb (fun '(a, b) => a =? b) (combine l1 l2).

Lemma list_eqb_eq l1 : forall l2, list_eqb l1 l2 = true <-> l1 = l2.
Proof.
  unfold list_eqb. induction l1 as [|a l1 IH]; destruct l2 as [|b l2]; simpl;
    try (split; [discriminate|intros H; inversion H]); [tauto|].
  specialize (IH l2). split.
  - intros H. apply andb_true_iff in H. destruct H as [Hl H]. apply andb_true_iff in H.
    destruct H as [Hab H]. apply Nat.eqb_eq in Hab. subst b. f_equal. apply IH.
    apply andb_true_iff. split; assumption.
  - intros H. inversion H; subst. destruct IH as [_ IH]. specialize (IH eq_refl).
    apply andb_true_iff in IH. destruct IH as [Hl Hf].
    apply andb_true_iff. split; [exact Hl|]. apply andb_true_iff. split; [apply Nat.eqb_refl|exact Hf].
Qed.

Fixpoint valid_tree_b (g : grammar) (t : tree) : bool :=
  match t with
  | Leaf a => (0 <? a) && (a <? g_nterm g)
  | Node p cs =>
      match get_prod g p with
      | Some pr => list_eqb (map (root g) cs) (p_rhs pr) && forallb (valid_tree_b g) cs
      | None => false
      end
  end.

Lemma valid_tree_b_spec g t : valid_tree_b g t = true <-> valid_tree g t.
Proof.
  induction t as [a | p cs IH] using tree_ind'; simpl.
  - rewrite andb_true_iff, !Nat.ltb_lt. split.
    + intros H. constructor. exact H.
    + intros H. inversion H. assumption.
  - split.
    + destruct (get_prod g p) as [pr|] eqn:Hp; [|discriminate].
      rewrite andb_true_iff, list_eqb_eq, forallb_forall. intros [Hr Hc].
      econstructor; [exact Hp|exact Hr|]. rewrite Forall_forall in *. intros x Hx.
      apply IH; auto.
    + intros H. inversion H as [|p' pr cs' Hp Hr Hc]; subst. rewrite Hp.
      rewrite andb_true_iff, list_eqb_eq, forallb_forall. split; [exact Hr|].
      rewrite Forall_forall in *. intros x Hx. apply IH; auto.
Qed.

Fixpoint tree_eqb (t1 t2 : tree) : bool :=
  match t1, t2 with
  | Leaf a, Leaf b => a =? b
  | Node p cs, Node q ds =>
      (p =? q) &&
      (fix go (l1 l2 : list tree) : bool :=
         match l1, l2 with
         | [], [] => true
         | x :: xs, y :: ys => tree_eqb x y && go xs ys
         | _, _ => false
         end) cs ds
  | _, _ => false
  end.

Lemma tree_eqb_eq t1 : forall t2, tree_eqb t1 t2 = true <-> t1 = t2.
Proof.
  induction t1 as [a | p cs IH] using tree_ind'; destruct t2 as [b | q ds]; simpl;
    try (split; [discriminate|intros H; inversion H]).
  - rewrite Nat.eqb_eq. split; [intros ->; reflexivity|intros H; inversion H; reflexivity].
  - rewrite andb_true_iff, Nat.eqb_eq.
    assert (Hgo : forall ds,
      (fix go (l1 l2 : list tree) : bool :=
         match l1, l2 with
         | [], [] => true
         | x :: xs, y :: ys => tree_eqb x y && go xs ys
         | _, _ => false
         end) cs ds = true <-> cs = ds).
    { induction cs as [|x xs IHxs]; intros [|y ys]; try (split; [discriminate|intros H; inversion H]); [tauto|].
      inversion IH as [|? ? Hx Hxs]; subst. rewrite andb_true_iff, Hx, (IHxs Hxs).
      split; [intros [-> ->]; reflexivity|intros H; inversion H; auto]. }
    rewrite Hgo. split; [intros [-> ->]; reflexivity|intros H; inversion H; auto].
Qed.

(* the whole verdict for one (tree, consumed prefix) pair *)
Definition derivation_b (g : grammar) (t : tree) (w : list nat) : bool :=
  valid_tree_b g t && (root g t =? g_start g) && list_eqb (yield t) w.

Lemma derivation_b_spec g t w :
  derivation_b g t w = true <-> valid_tree g t /\ root g t = g_start g /\ yield t = w.
Proof.
  unfold derivation_b. rewrite !andb_true_iff, valid_tree_b_spec, Nat.eqb_eq, list_eqb_eq. tauto.
Qed.

Lemma derivation_b_sentence g t w : derivation_b g t w = true -> sentence g w.
Proof. intros H. apply derivation_b_spec in H. exists t. exact H. Qed.
