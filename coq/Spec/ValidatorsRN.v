(* Soundness conditions for a table whose cells may hold SEVERAL actions and
   whose reductions may be RIGHT-NULLED (LALR_RN tables of the GLR parser,
   rustemo-compiler/src/table/mod.rs: production_rn_lengths): Reduce p len with
   len <= |rhs p| and a nullable tail.  Evaluated on the real dumped table of
   every grammar compiled for GLR (gen/c03.py). *)
From RV Require Export Spec.Validators Spec.Enumerate.

Definition action_ok_rn_b (g : grammar) (T : table) (st : state) (a : nat) (act : action) : bool :=
  match act with
  | Shift _ => 0 <? a
  | Reduce p len =>
      (* that the tail skipn len (rhs g p) is nullable is not needed for soundness: the machine
         completes the node with [eps_trees] of the tail and stops (P_EPS) when there is none *)
      has_itemb st p len && (len <=? length (rhs g p)) &&
      (g_nterm g <? lhs g p)
  | Accept =>
      (a =? 0) &&
      (has_itemb st 0 1 ||
       (match g_layout g with Some _ => has_itemb st 1 1 | None => false end))
  end.

Definition sound_state_rn_b (g : grammar) (T : table) (s : nat) (st : state) : bool :=
  forallb (item_wf_b g) (s_items st) &&
  (if is_start_state T s then forallb (fun it => i_pos it =? 0) (s_items st) else true) &&
  forallb (start_item_ok_b g T s) (s_items st) &&
  forallb (trans_ok_b g T st) (trans_list (g_nterm g) st) &&
  forallb (fun '(a, acts) => forallb (action_ok_rn_b g T st a) acts) (indexed (s_actions st)).

Definition sound_rn_b (g : grammar) (T : table) : bool :=
  shape_b g T &&
  forallb (fun '(s, st) => sound_state_rn_b g T s st) (indexed (t_states T)).

(* ---- completeness conditions for multi-action cells: the action an item with
   its lookahead prescribes must be AMONG the actions of the cell --------------- *)
Definition find_shift (acts : list action) : option nat :=
  match find (fun x => match x with Shift _ => true | _ => false end) acts with
  | Some (Shift s') => Some s'
  | _ => None
  end.

Definition target_rn (g : grammar) (st : state) (X : nat) : option nat :=
  if X <? g_nterm g then find_shift (nth X (s_actions st) [])
  else
    match nth_error (s_gotos st) (X - g_nterm g) with
    | Some (Some s') => Some s'
    | _ => None
    end.

Definition has_action (acts : list action) (x : action) : bool := existsb (action_eqb x) acts.

Definition complete_item_rn_b (g : grammar) (T : table) (st : state) (it : item) : bool :=
  let p := i_prod it in
  let i := i_pos it in
  let L := i_follow it in
  match nth_error (rhs g p) i with
  | Some X =>
      (match target_rn g st X with
       | None => false
       | Some s' =>
           match get_state T s' with
           | None => false
           | Some st' =>
               match find_item st' p (S i) with
               | Some it' => subsetb L (i_follow it')
               | None => false
               end
           end
       end) &&
      (if X <? g_nterm g then true
       else closure_ok_b g T st X (skipn (S i) (rhs g p)) L)
  | None =>
      if is_aug_prod g p then has_action (nth 0 (s_actions st) []) Accept
      else forallb (fun a => has_action (nth a (s_actions st) []) (Reduce p i)) L
  end.

Definition complete_rn_b (g : grammar) (T : table) : bool :=
  shape_b g T && first_closed_b g T && start_item_b T &&
  forallb (fun st => forallb (complete_item_rn_b g T st) (s_items st)) (t_states T).

(* ---- panic-freedom conditions for the nondeterministic machine (C15, GLR side):
   gotos defined, no reduction by an augmented production, and the tail a
   right-nulled reduction elides consists of symbols that have a derivation of
   the empty string (computed once per grammar) --------------------------------- *)
(* symbols with a derivation of the empty string of height <= i, by rounds (each round
   looks only at the symbols of the round before, so the height bound is exact) *)
Definition nul_round (g : grammar) (N : list nat) : list nat :=
  N ++ map p_lhs (filter (fun pr => forallb (fun x => memb x N) (p_rhs pr)) (g_prods g)).

Fixpoint nul_iter (g : grammar) (i : nat) : list nat :=
  match i with
  | 0 => []
  | S k => nul_round g (nul_iter g k)
  end.

Definition eps_ok_syms (g : grammar) : list nat := nodup Nat.eq_dec (nul_iter g (eps_bound g)).

Definition rn_tails_b (g : grammar) (E : list nat) (st : state) : bool :=
  forallb (fun acts =>
             forallb (fun act => match act with
                                 | Reduce p len => forallb (fun X => memb X E) (skipn len (rhs g p))
                                 | _ => true
                                 end) acts) (s_actions st).

Definition safe_rn_b (g : grammar) (T : table) : bool :=
  sound_rn_b g T &&
  (let E := eps_ok_syms g in
   forallb (fun st => goto_ok_b g st && no_aug_reduce_b g st && rn_tails_b g E st) (t_states T)).

(* ---- the right-nulled reductions themselves (what makes a table a RIGHT-NULLED table,
   Scott & Johnstone: an item whose remaining symbols are all nullable reduces on its
   lookaheads, at EVERY such position).  Not needed for nlr_exact (the machine may reduce the
   empty tail explicitly), but the RNGLR algorithm of glr/parser.rs relies on it: it never
   re-applies reductions of length 0 over a new edge. ---------------------------------- *)
Definition rn_complete_state_b (g : grammar) (E : list nat) (st : state) : bool :=
  forallb (fun it =>
             let p := i_prod it in
             let i := i_pos it in
             if is_aug_prod g p then true
             else if forallb (fun X => memb X E) (skipn i (rhs g p))
                  then forallb (fun a => has_action (nth a (s_actions st) []) (Reduce p i)) (i_follow it)
                  else true) (s_items st).

Definition rn_complete_b (g : grammar) (T : table) : bool :=
  let E := eps_ok_syms g in forallb (rn_complete_state_b g E) (t_states T).
