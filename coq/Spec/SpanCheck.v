(* Verified-by-construction boolean statements of C13 / C14 about a tree the
   REAL parser returned (rtree) and the input bytes: evaluated on every real
   tree, independent of the runtime model. *)
From RV Require Import Model.LR Model.LRBytes Model.CompareBytes Spec.TreeCheck.

Definition count_nl (l : list nat) : nat := length (filter (fun c => c =? NL) l).

(* number of bytes after the last newline of [l] (the whole length if none) *)
Fixpoint tail_len (l : list nat) : nat :=
  match l with
  | [] => 0
  | c :: r => if existsb (fun x => x =? NL) r then tail_len r
              else if c =? NL then length r else S (length r)
  end.

(* line = 1 + newlines before the offset; column = bytes since the line start *)
Definition pos_ok_b (inp : list nat) (p : pos) : bool :=
  (p_off p <=? length inp) &&
  (p_line p =? 1 + count_nl (firstn (p_off p) inp)) &&
  (p_col p =? tail_len (firstn (p_off p) inp)).

Definition rspan (t : rtree) : span :=
  match t with RLeaf _ sp _ _ => sp | RNode _ sp _ _ => sp end.

(* leaves and empty nodes in input order as (lo, hi) byte intervals *)
Fixpoint events (t : rtree) : list (nat * nat) :=
  match t with
  | RLeaf _ sp _ _ => [(p_off (sp_start sp), p_off (sp_end sp))]
  | RNode _ sp _ [] => [(p_off (sp_start sp), p_off (sp_end sp))]
  | RNode _ _ _ cs => flat_map events cs
  end.

Fixpoint mono_b (prev : nat) (l : list (nat * nat)) : bool :=
  match l with
  | [] => true
  | (lo, hi) :: r => (prev <=? lo) && (lo <=? hi) && mono_b hi r
  end.

Fixpoint local_ok_b (inp : list nat) (t : rtree) : bool :=
  match t with
  | RLeaf _ sp _ v =>
      pos_ok_b inp (sp_start sp) && pos_ok_b inp (sp_end sp) &&
      list_eqb v (sub inp (p_off (sp_start sp), p_off (sp_end sp) - p_off (sp_start sp))) &&
      (p_off (sp_start sp) + length v =? p_off (sp_end sp))
  | RNode _ sp _ cs =>
      pos_ok_b inp (sp_start sp) && pos_ok_b inp (sp_end sp) &&
      match cs with
      | [] => pos_eqb (sp_start sp) (sp_end sp)
      | c :: _ =>
          pos_eqb (sp_start sp) (sp_start (rspan c)) &&
          pos_eqb (sp_end sp) (sp_end (rspan (last cs c))) &&
          forallb (local_ok_b inp) cs
      end
  end.

(* C13 on one real tree *)
Definition spans_ok_b (inp : list nat) (t : rtree) : bool :=
  local_ok_b inp t && mono_b 0 (events t) &&
  forallb (fun '(_, hi) => hi <=? length inp) (events t).

(* C14 on one real tree: layout ++ value of the leaves reproduces the input up
   to the end of the last token; stored layout is a maximal whitespace run
   (measured whitespace table) when [ws_only] *)
Fixpoint leaves (t : rtree) : list (option (list nat) * list nat * span) :=
  match t with
  | RLeaf _ sp l v => [(l, v, sp)]
  | RNode _ _ _ cs => flat_map leaves cs
  end.

Definition leaf_text (x : option (list nat) * list nat * span) : list nat :=
  let '(l, v, _) := x in (match l with Some b => b | None => [] end) ++ v.

Definition last_end (t : rtree) : nat :=
  fold_left (fun m '(_, hi) => Nat.max m hi) (events t) 0.

Definition lossless_b (inp : list nat) (t : rtree) : bool :=
  let ls := leaves t in
  match ls with
  | [] => true
  | _ => list_eqb (flat_map leaf_text ls) (firstn (p_off (sp_end (snd (last ls (None, [], mkSpan start_pos start_pos))))) inp)
  end.

Definition layout_is_ws_b (mt : mtable) (t : rtree) : bool :=
  forallb (fun x => let '(l, _, sp) := x in
                    match l with
                    | None => true
                    | Some b => (0 <? length b) &&
                                (ws_len mt (p_off (sp_start sp) - length b) =? length b)
                    end) (leaves t).
