(* The documented conflict-resolution rules as a decision table, written
   independently of the code (docs/src/grammar_language.md "Disambiguation
   rules", docs/src/handling_errors/handling_errors.md "Resolving LR conflicts"
   and "Global preference for resolving shift-reduce conflicts"):

   * priority: the higher one wins (production priority against the priority
     of the shift, which is the priority of the production(s) the token is
     shifted in);
   * on equal priority associativity decides; when it is given on both the
     production and the terminal "the terminal associativity takes precedence";
     `left` / `reduce` favour the reduction, `right` / `shift` favour the shift;
   * otherwise the global preference prefer_shifts (for non-empty reductions)
     / prefer_shifts_over_empty (for empty ones) keeps the shift, unless the
     production says `nops` / `nopse`;
   * otherwise both stay: a conflict reported for LR, explored by GLR.
   No proofs in this file. *)
From RV Require Export Spec.Grammar Model.Table.

Inductive decision := KeepShift | KeepReduce | KeepBoth.

Definition decision_eqb (x y : decision) : bool :=
  match x, y with
  | KeepShift, KeepShift => true
  | KeepReduce, KeepReduce => true
  | KeepBoth, KeepBoth => true
  | _, _ => false
  end.

(* the four keywords of the grammar language and what they mean
   (lang/rustemo_actions.rs: prod_meta_data_left/reduce/right/shift and
   term_meta_data_left/reduce/right/shift) *)
Inductive keyword := KwLeft | KwReduce | KwRight | KwShift.

Definition assoc_of_keyword (k : keyword) : assoc :=
  match k with
  | KwLeft => ALeft
  | KwReduce => ALeft
  | KwRight => ARight
  | KwShift => ARight
  end.

(* "If ... associativity is defined on both production and terminal the terminal
   associativity takes precedence." *)
Definition effective_assoc (prod_assoc term_assoc : assoc) : assoc :=
  match term_assoc with
  | ANone => prod_assoc
  | _ => term_assoc
  end.

Definition assoc_decision (a : assoc) : option decision :=
  match a with
  | ALeft => Some KeepReduce
  | ARight => Some KeepShift
  | ANone => None
  end.

Definition shift_preferred (empty ps pse nops nopse : bool) : bool :=
  if empty then pse && negb nopse else ps && negb nops.

Definition decide (prod_prio shift_prio : nat) (prod_assoc term_assoc : assoc)
           (empty ps pse nops nopse : bool) : decision :=
  if shift_prio <? prod_prio then KeepReduce
  else if prod_prio <? shift_prio then KeepShift
  else
    match assoc_decision (effective_assoc prod_assoc term_assoc) with
    | Some d => d
    | None => if shift_preferred empty ps pse nops nopse then KeepShift else KeepBoth
    end.

(* what a decision means for a cell that holds the single shift-like action [sh]
   and receives the reduction [r] *)
Definition apply_decision (d : decision) (sh r : action) : list action :=
  match d with
  | KeepShift => [sh]
  | KeepReduce => [r]
  | KeepBoth => [sh; r]
  end.

(* ------------------------------------------------------------------ *)
(* Reduce/reduce: "higher priority wins"; otherwise LR keeps non-empty
   reductions in preference to empty ones and GLR keeps everything. *)
Inductive rr_decision := RRDropNew | RRReplaceOld | RRKeepAll | RRNonEmptyOverEmpty.

Definition all_greater (x : nat) (l : list nat) : bool := forallb (fun y => x <? y) l.
Definition all_smaller (x : nat) (l : list nat) : bool := forallb (fun y => y <? x) l.

Definition decide_rr (new_prio : nat) (old_prios : list nat) (glr : bool) : rr_decision :=
  if all_greater new_prio old_prios then RRDropNew
  else if all_smaller new_prio old_prios then RRReplaceOld
  else if glr then RRKeepAll
  else RRNonEmptyOverEmpty.

Definition is_reduce_action (x : action) : bool :=
  match x with Reduce _ _ => true | _ => false end.

Definition is_empty_reduction (x : action) : bool :=
  match x with Reduce _ 0 => true | _ => false end.

(* the cell [acts] (its reductions have priorities old_prios) receives [r] *)
Definition apply_rr (d : rr_decision) (new_nonempty : bool) (acts : list action) (r : action) : list action :=
  match d with
  | RRDropNew => acts
  | RRReplaceOld => filter (fun x => negb (is_reduce_action x)) acts ++ [r]
  | RRKeepAll => acts ++ [r]
  | RRNonEmptyOverEmpty =>
      let kept := filter (fun x => negb (is_empty_reduction x)) acts in
      if new_nonempty || (match kept with [] => true | _ => false end) then kept ++ [r] else kept
  end.

Definition prod_prio_of (g : grammar) (p : nat) : nat :=
  match get_prod g p with Some pr => p_prio pr | None => 0 end.

Definition action_prio (g : grammar) (x : action) : nat :=
  match x with Reduce q _ => prod_prio_of g q | _ => 0 end.
