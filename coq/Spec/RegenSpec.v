(* Vocabulary of property C18 (what "kept", "missing", "duplicate" mean), independent of how
   the generator decides.  Executable definitions only. *)
From RV Require Import Util Model.Regen.

(* Rust has one namespace for types (enum / struct / type alias) and one for functions. *)
Inductive ns := NsType | NsFn.

Definition ns_eqb (a b : ns) : bool :=
  match a, b with NsType, NsType | NsFn, NsFn => true | _, _ => false end.

Definition named (i : ritem) : option (ns * nat) :=
  match r_kind i with
  | KEnum | KStruct | KType => Some (NsType, r_name i)
  | KFn => Some (NsFn, r_name i)
  | KOther => None
  end.

Definition nn_eqb (a b : ns * nat) : bool := ns_eqb (fst a) (fst b) && Nat.eqb (snd a) (snd b).

Definition names (l : list ritem) : list (ns * nat) :=
  flat_map (fun i => match named i with Some x => [x] | None => [] end) l.

Definition nn_mem (x : ns * nat) (l : list (ns * nat)) : bool := existsb (nn_eqb x) l.

(* an item with the same name (in the same namespace) exists in the file *)
Definition present (file : list ritem) (i : ritem) : bool :=
  match named i with
  | Some x => nn_mem x (names file)
  | None => false
  end.

(* everything the generator would emit for the grammar, in emission order *)
Definition flat_group (g : group) : list ritem :=
  match g with
  | GTerm _ ty _ act => [ty; act]
  | GNonterm types acts => types ++ map snd acts
  end.

Definition flat (gs : list group) : list ritem := flat_map flat_group gs.

(* "exactly the types and action functions that are missing for the current grammar" *)
Definition missing (file : list ritem) (gs : list group) : list ritem :=
  filter (fun i => negb (present file i)) (flat gs).

Definition NoDupNames (l : list ritem) : Prop := NoDup (names l).

Fixpoint nodup_nn_b (l : list (ns * nat)) : bool :=
  match l with
  | [] => true
  | x :: r => negb (nn_mem x r) && nodup_nn_b r
  end.

Definition nodup_names_b (l : list ritem) : bool := nodup_nn_b (names l).

(* Well-formedness of the generator's output: facts about production.rs / mod.rs:23-48 that
   the regeneration logic relies on.  Measured on every real generation by the check.
     - a terminal's alias is a type item named by the lookup key; its action is a function
       named by the lookup key (both computed by the same expression in the code);
     - a nonterminal's types are type items (enum / struct / alias: production.rs:255-312);
     - every action is a function whose identifier is the lookup key (production.rs:339-346). *)
Definition is_type_kind (k : rkind) : bool :=
  match k with KEnum | KStruct | KType => true | _ => false end.

Definition is_fn_kind (k : rkind) : bool :=
  match k with KFn => true | _ => false end.

Definition wf_group_b (g : group) : bool :=
  match g with
  | GTerm tkey ty akey act =>
      is_type_kind (r_kind ty) && Nat.eqb (r_name ty) tkey &&
      is_fn_kind (r_kind act) && Nat.eqb (r_name act) akey
  | GNonterm types acts =>
      forallb (fun t => is_type_kind (r_kind t)) types &&
      forallb (fun ka => is_fn_kind (r_kind (snd ka)) && Nat.eqb (r_name (snd ka)) (fst ka)) acts
  end.

Definition wf_gen_b (gs : list group) : bool := forallb wf_group_b gs.

(* ---- the known class (decidable) ------------------------------------------------------ *)
(* GenDup: the generator's own output for the grammar contains two items with one name. *)
Definition gen_dup_b (gs : list group) : bool := negb (nodup_names_b (flat gs)).
