(* Boolean checkers evaluated on the REAL dumped table of every grammar a run
   generates (leg V of DESIGN.md §1). Their meaning (the Prop each one
   reflects) is proved in Proofs/*.v; the property theorems are stated for every
   table that passes them. *)
From RV Require Export Model.Table.

Definition is_start_state (T : table) (s : nat) : bool :=
  (s =? 0) || (match t_layout T with Some l => s =? l | None => false end).

(* ---- shape: everything is in range, expected terminals = non-empty cells --- *)
Definition nonempty_cells (st : state) : list nat :=
  flat_map (fun '(a, acts) => match acts with [] => [] | _ => [a] end) (indexed (s_actions st)).

Definition shape_state_b (g : grammar) (T : table) (st : state) : bool :=
  (length (s_actions st) =? g_nterm g) &&
  (length (s_gotos st) =? g_nnonterm g) &&
  forallb (fun '(_, s') => s' <? length (t_states T)) (trans_list (g_nterm g) st) &&
  subsetb (map fst (s_sorted st)) (nonempty_cells st) &&
  subsetb (nonempty_cells st) (map fst (s_sorted st)).

Definition shape_b (g : grammar) (T : table) : bool :=
  (0 <? length (t_states T)) &&
  (match t_layout T, g_layout g with
   | Some l, Some _ => (0 <? l) && (l <? length (t_states T))
   | None, None => true
   | _, _ => false
   end) &&
  forallb (shape_state_b g T) (t_states T).

(* ---- soundness conditions ------------------------------------------------- *)
Definition item_wf_b (g : grammar) (it : item) : bool :=
  match get_prod g (i_prod it) with
  | Some pr => i_pos it <=? length (p_rhs pr)
  | None => false
  end.

(* start items (AUG,0) / (AUGL,0) live only in their start state *)
Definition start_item_ok_b (g : grammar) (T : table) (s : nat) (it : item) : bool :=
  if i_pos it =? 0 then
    if i_prod it =? 0 then s =? 0
    else if (i_prod it =? 1) then
           match g_layout g, t_layout T with
           | Some _, Some l => s =? l
           | Some _, None => false
           | None, _ => true
           end
         else true
  else true.

Definition trans_ok_b (g : grammar) (T : table) (st : state) (tr : nat * nat) : bool :=
  let '(X, s') := tr in
  match get_state T s' with
  | None => false
  | Some st' =>
      (s_sym st' =? X) &&
      negb (is_start_state T s') &&
      forallb (fun it' =>
                 match i_pos it' with
                 | 0 => true
                 | S i => has_itemb st (i_prod it') i &&
                          (match nth_error (rhs g (i_prod it')) i with
                           | Some Y => Y =? X
                           | None => false
                           end)
                 end) (s_items st')
  end.

Definition action_ok_b (g : grammar) (T : table) (st : state) (a : nat) (act : action) : bool :=
  match act with
  | Shift _ => 0 <? a
  | Reduce p len =>
      has_itemb st p len && (len =? length (rhs g p)) &&
      (g_nterm g <? lhs g p)
  | Accept =>
      (a =? 0) &&
      (has_itemb st 0 1 ||
       (match g_layout g with Some _ => has_itemb st 1 1 | None => false end))
  end.

Definition sound_state_b (g : grammar) (T : table) (s : nat) (st : state) : bool :=
  forallb (item_wf_b g) (s_items st) &&
  (if is_start_state T s then forallb (fun it => i_pos it =? 0) (s_items st) else true) &&
  forallb (start_item_ok_b g T s) (s_items st) &&
  forallb (trans_ok_b g T st) (trans_list (g_nterm g) st) &&
  forallb (fun '(a, acts) => forallb (action_ok_b g T st a) acts) (indexed (s_actions st)).

Definition sound_b (g : grammar) (T : table) : bool :=
  shape_b g T &&
  forallb (fun '(s, st) => sound_state_b g T s st) (indexed (t_states T)).
