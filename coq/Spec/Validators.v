(* Boolean checkers evaluated on the REAL dumped table of every grammar a run
   generates (leg V of DESIGN.md §1). Their meaning (the Prop each one
   reflects) is proved in Proofs/*.v; the property theorems are stated for every
   table that passes them. *)
From RV Require Export Model.Table Model.First.

Definition is_start_state (T : table) (s : nat) : bool :=
  (s =? 0) || (match t_layout T with Some l => s =? l | None => false end).

(* ---- shape: everything is in range, expected terminals = non-empty cells --- *)
Definition nonempty_cells (st : state) : list nat :=
  flat_map (fun '(a, acts) => match acts with [] => [] | _ => [a] end) (indexed (s_actions st)).

Definition shape_state_b (g : grammar) (T : table) (st : state) : bool :=
  (length (s_actions st) =? g_nterm g) &&
  (length (s_gotos st) =? g_nnonterm g) &&
  forallb (fun '(_, s') => s' <? length (t_states T)) (trans_list (g_nterm g) st) &&
  subsetb (map fst (s_sorted st)) (nonempty_cells st) &&
  subsetb (nonempty_cells st) (map fst (s_sorted st)).

Definition shape_b (g : grammar) (T : table) : bool :=
  (0 <? length (t_states T)) &&
  (match t_layout T, g_layout g with
   | Some l, Some _ => (0 <? l) && (l <? length (t_states T))
   | None, None => true
   | _, _ => false
   end) &&
  forallb (shape_state_b g T) (t_states T).

(* ---- soundness conditions ------------------------------------------------- *)
Definition item_wf_b (g : grammar) (it : item) : bool :=
  match get_prod g (i_prod it) with
  | Some pr => i_pos it <=? length (p_rhs pr)
  | None => false
  end.

(* start items (AUG,0) / (AUGL,0) live only in their start state *)
Definition start_item_ok_b (g : grammar) (T : table) (s : nat) (it : item) : bool :=
  if i_pos it =? 0 then
    if i_prod it =? 0 then s =? 0
    else if (i_prod it =? 1) then
           match g_layout g, t_layout T with
           | Some _, Some l => s =? l
           | Some _, None => false
           | None, _ => true
           end
         else true
  else true.

Definition trans_ok_b (g : grammar) (T : table) (st : state) (tr : nat * nat) : bool :=
  let '(X, s') := tr in
  match get_state T s' with
  | None => false
  | Some st' =>
      (s_sym st' =? X) &&
      negb (is_start_state T s') &&
      forallb (fun it' =>
                 match i_pos it' with
                 | 0 => true
                 | S i => has_itemb st (i_prod it') i &&
                          (match nth_error (rhs g (i_prod it')) i with
                           | Some Y => Y =? X
                           | None => false
                           end)
                 end) (s_items st')
  end.

Definition action_ok_b (g : grammar) (T : table) (st : state) (a : nat) (act : action) : bool :=
  match act with
  | Shift _ => 0 <? a
  | Reduce p len =>
      has_itemb st p len && (len =? length (rhs g p)) &&
      (g_nterm g <? lhs g p)
  | Accept =>
      (a =? 0) &&
      (has_itemb st 0 1 ||
       (match g_layout g with Some _ => has_itemb st 1 1 | None => false end))
  end.

Definition sound_state_b (g : grammar) (T : table) (s : nat) (st : state) : bool :=
  forallb (item_wf_b g) (s_items st) &&
  (if is_start_state T s then forallb (fun it => i_pos it =? 0) (s_items st) else true) &&
  forallb (start_item_ok_b g T s) (s_items st) &&
  forallb (trans_ok_b g T st) (trans_list (g_nterm g) st) &&
  forallb (fun '(a, acts) => forallb (action_ok_b g T st a) acts) (indexed (s_actions st)).

Definition sound_b (g : grammar) (T : table) : bool :=
  shape_b g T &&
  forallb (fun '(s, st) => sound_state_b g T s st) (indexed (t_states T)).

(* ---- completeness conditions (items with lookaheads vs. cells) ------------- *)
Definition actions_eqb (l1 l2 : list action) : bool :=
  (length l1 =? length l2) && forallb (fun '(a, b) => action_eqb a b) (combine l1 l2).

Definition target_of (g : grammar) (st : state) (X : nat) : option nat :=
  if X <? g_nterm g then
    match nth X (s_actions st) [] with
    | [Shift s'] => Some s'
    | _ => None
    end
  else
    match nth_error (s_gotos st) (X - g_nterm g) with
    | Some (Some s') => Some s'
    | _ => None
    end.

Definition closure_ok_b (g : grammar) (T : table) (st : state) (X : nat) (beta L : list nat) : bool :=
  let e := g_empty g in
  let fb := firsts e (t_first T) beta in
  forallb (fun '(q, pr) =>
             if p_lhs pr =? X then
               match find_item st q 0 with
               | Some it' =>
                   subsetb (filter (fun a => negb (a =? e)) fb) (i_follow it') &&
                   (if memb e fb then subsetb L (i_follow it') else true)
               | None => false
               end
             else true) (indexed (g_prods g)).

Definition is_aug_prod (g : grammar) (p : nat) : bool :=
  (p =? 0) || (match g_layout g with Some _ => p =? 1 | None => false end).

Definition complete_item_b (g : grammar) (T : table) (st : state) (it : item) : bool :=
  let p := i_prod it in
  let i := i_pos it in
  let L := i_follow it in
  match nth_error (rhs g p) i with
  | Some X =>
      (match target_of g st X with
       | None => false
       | Some s' =>
           match get_state T s' with
           | None => false
           | Some st' =>
               match find_item st' p (S i) with
               | Some it' => subsetb L (i_follow it')
               | None => false
               end
           end
       end) &&
      (if X <? g_nterm g then true
       else closure_ok_b g T st X (skipn (S i) (rhs g p)) L)
  | None =>
      if is_aug_prod g p then actions_eqb (nth 0 (s_actions st) []) [Accept]
      else forallb (fun a => actions_eqb (nth a (s_actions st) []) [Reduce p i]) L
  end.

Definition first_closed_b (g : grammar) (T : table) : bool :=
  let e := g_empty g in
  let F := t_first T in
  forallb (fun a => memb a (first_of F a)) (seq 0 (g_nterm g)) &&
  forallb (fun pr => subsetb (firsts e F (p_rhs pr)) (first_of F (p_lhs pr))) (g_prods g).

Definition start_item_b (T : table) : bool :=
  match get_state T 0 with
  | Some st0 => match find_item st0 0 0 with
                | Some it => memb STOP (i_follow it)
                | None => false
                end
  | None => false
  end.

Definition complete_b (g : grammar) (T : table) : bool :=
  shape_b g T && first_closed_b g T && start_item_b T &&
  forallb (fun st => forallb (complete_item_b g T st) (s_items st)) (t_states T).

(* ---- panic-freedom conditions (C15): every goto a reduction can ask for is
   defined, no reduction by an augmented production -------------------------- *)
Definition goto_ok_b (g : grammar) (st : state) : bool :=
  forallb (fun it =>
             if (i_pos it =? 0) && negb (is_aug_prod g (i_prod it)) then
               match nth_error (s_gotos st) (lhs g (i_prod it) - g_nterm g) with
               | Some (Some _) => true
               | _ => false
               end
             else true) (s_items st).

Definition no_aug_reduce_b (g : grammar) (st : state) : bool :=
  forallb (fun acts => forallb (fun act => match act with
                                           | Reduce p _ => negb (is_aug_prod g p)
                                           | _ => true
                                           end) acts) (s_actions st).

Definition safe_b (g : grammar) (T : table) : bool :=
  sound_b g T &&
  forallb (fun st => goto_ok_b g st && no_aug_reduce_b g st) (t_states T).

(* ---- termination of reductions (C15): for every lookahead the graph
   "top state -> possible top state after the reduction the table prescribes"
   (over-approximated through predecessor sets) has no path longer than the
   number of states ------------------------------------------------------------ *)
Definition preds (g : grammar) (T : table) (s : nat) : list nat :=
  flat_map (fun '(t, st) =>
              if existsb (fun '(_, s') => s' =? s) (trans_list (g_nterm g) st) then [t] else [])
           (indexed (t_states T)).

Fixpoint preds_n (g : grammar) (T : table) (n : nat) (ss : list nat) : list nat :=
  match n with
  | 0 => ss
  | S k => preds_n g T k (nodup Nat.eq_dec (flat_map (preds g T) ss))
  end.

Definition red_succ (g : grammar) (T : table) (a s : nat) : list nat :=
  match cell T s a with
  | Reduce p len :: _ =>
      flat_map (fun t => match goto T t (lhs g p - g_nterm g) with Some s' => [s'] | None => [] end)
               (preds_n g T len [s])
  | _ => []
  end.

Fixpoint red_iter (g : grammar) (T : table) (a : nat) (k : nat) (front : list nat) : list nat :=
  match k with
  | 0 => front
  | S k' => red_iter g T a k' (nodup Nat.eq_dec (flat_map (red_succ g T a) front))
  end.

Definition reduce_acyclic_b (g : grammar) (T : table) : bool :=
  let n := length (t_states T) in
  forallb (fun a => match red_iter g T a (S n) (seq 0 n) with [] => true | _ => false end)
          (seq 0 (g_nterm g)).

(* every state expects at least one token (C12: non-empty expected list) *)
Definition has_actions_b (T : table) : bool :=
  forallb (fun st => match s_sorted st with [] => false | _ => true end) (t_states T).

(* ---- C12 "no late detection": every stack the parser can build spells a viable
   prefix. Needs (i) every grammar symbol derives some terminal string,
   (ii) every closure item (q,0) of a state is justified by an EARLIER item of
   the same state with lhs(q) after its dot (rustemo's closure only appends),
   (iii) no state is empty. ---------------------------------------------------- *)
Definition prod_ready (g : grammar) (P : list nat) (pr : prod) : bool :=
  forallb (fun x => ((0 <? x) && (x <? g_nterm g)) || memb x P) (p_rhs pr).

Definition prod_round (g : grammar) (P : list nat) : list nat :=
  P ++ map p_lhs (filter (prod_ready g P) (g_prods g)).

Fixpoint prod_iter (g : grammar) (n : nat) (P : list nat) : list nat :=
  match n with
  | 0 => P
  | S k => prod_iter g k (prod_round g P)
  end.

Definition productive_set (g : grammar) : list nat := prod_iter g (S (length (g_prods g))) [].

Definition productive_b (g : grammar) : bool :=
  forallb (prod_ready g (productive_set g)) (g_prods g).

Definition justified_b (g : grammar) (T : table) (s : nat) (st : state) : bool :=
  (match s_items st with [] => false | _ => true end) &&
  forallb (fun '(idx, it) =>
             if i_pos it =? 0 then
               (is_aug_prod g (i_prod it) && is_start_state T s) ||
               existsb (fun it' => match nth_error (rhs g (i_prod it')) (i_pos it') with
                                   | Some X => X =? lhs g (i_prod it)
                                   | None => false
                                   end) (firstn idx (s_items st))
             else true) (indexed (s_items st)).

Definition viable_b (g : grammar) (T : table) : bool :=
  productive_b g && forallb (fun '(s, st) => justified_b g T s st) (indexed (t_states T)).
