(* Grammars, derivation trees, sentences: what the properties talk about.
   Mirrors the plain-data view of rustemo-compiler's `Grammar`
   (grammar/mod.rs): symbols are naturals, terminals are [0, nterm), STOP = 0,
   nonterminal k has symbol index nterm + k, EMPTY = nterm, AUG = nterm + 1,
   AUGL = nterm + 2 when a Layout rule exists. Production 0 is AUG: start,
   production 1 is AUGL: Layout when present. *)
From RV Require Export Util.

Inductive assoc := ANone | ALeft | ARight.

Record term := mkTerm {
  t_prio : nat;
  t_assoc : assoc;
  t_strlen : option nat   (* Some n: string recognizer of n bytes; None: regex / none *)
}.

Record prod := mkProd {
  p_lhs : nat;            (* symbol index of the left-hand side *)
  p_rhs : list nat;       (* symbol indexes, EMPTY references already removed *)
  p_prio : nat;
  p_assoc : assoc;
  p_nops : bool;
  p_nopse : bool
}.

Record grammar := mkGrammar {
  g_terms : list term;
  g_nnonterm : nat;       (* including EMPTY, AUG, (AUGL) *)
  g_prods : list prod;
  g_layout : option nat;  (* symbol index of the Layout rule's nonterminal, if any *)
  g_start : nat           (* symbol index of the start symbol *)
}.

Definition g_nterm (g : grammar) : nat := length (g_terms g).
Definition g_nsym (g : grammar) : nat := g_nterm g + g_nnonterm g.
Definition g_empty (g : grammar) : nat := g_nterm g.
Definition g_aug (g : grammar) : nat := g_nterm g + 1.
Definition g_augl (g : grammar) : nat := g_nterm g + 2.
Definition STOP : nat := 0.

Definition get_prod (g : grammar) (p : nat) : option prod := nth_error (g_prods g) p.
Definition rhs (g : grammar) (p : nat) : list nat :=
  match get_prod g p with Some pr => p_rhs pr | None => [] end.
Definition lhs (g : grammar) (p : nat) : nat :=
  match get_prod g p with Some pr => p_lhs pr | None => 0 end.

(* Derivation trees. A leaf is a token kind (token-level view). *)
Inductive tree := Leaf (a : nat) | Node (p : nat) (cs : list tree).

Definition root (g : grammar) (t : tree) : nat :=
  match t with Leaf a => a | Node p _ => lhs g p end.

Fixpoint yield (t : tree) : list nat :=
  match t with
  | Leaf a => [a]
  | Node _ cs => flat_map yield cs
  end.

Fixpoint tree_size (t : tree) : nat :=
  match t with
  | Leaf _ => 1
  | Node _ cs => S (list_sum (map tree_size cs))
  end.

Inductive valid_tree (g : grammar) : tree -> Prop :=
| VLeaf a : 0 < a < g_nterm g -> valid_tree g (Leaf a)
| VNode p pr cs :
    get_prod g p = Some pr ->
    map (root g) cs = p_rhs pr ->
    Forall (valid_tree g) cs ->
    valid_tree g (Node p cs).

(* nested induction principle *)
Section tree_ind'.
  Variable P : tree -> Prop.
  Hypothesis HL : forall a, P (Leaf a).
  Hypothesis HN : forall p cs, Forall P cs -> P (Node p cs).
  Fixpoint tree_ind' (t : tree) : P t :=
    match t with
    | Leaf a => HL a
    | Node p cs =>
        HN p cs ((fix go (l : list tree) : Forall P l :=
                    match l with
                    | [] => Forall_nil P
                    | x :: xs => Forall_cons x (tree_ind' x) (go xs)
                    end) cs)
    end.
End tree_ind'.

Section valid_tree_ind'.
  Variable g : grammar.
  Variable P : tree -> Prop.
  Hypothesis HL : forall a, 0 < a < g_nterm g -> P (Leaf a).
  Hypothesis HN : forall p pr cs,
      get_prod g p = Some pr -> map (root g) cs = p_rhs pr ->
      Forall (valid_tree g) cs -> Forall P cs -> P (Node p cs).
  Lemma valid_tree_ind' : forall t, valid_tree g t -> P t.
  Proof.
    induction t as [a | p cs IH] using tree_ind'; intros Hv.
    - inversion Hv; subst. apply HL; assumption.
    - inversion Hv as [| p' pr cs' Hp Hr Hcs]; subst.
      eapply HN; eauto.
      rewrite Forall_forall in *. intros x Hx. apply IH; auto.
  Qed.
End valid_tree_ind'.

(* A sentence: token string derivable from the start symbol. Tokens are real
   terminals (never STOP). *)
Definition sentence (g : grammar) (w : list nat) : Prop :=
  exists t, valid_tree g t /\ root g t = g_start g /\ yield t = w.

(* ------------------------------------------------------------------ *)
(* Well-formedness of the grammar data, as a boolean the check evaluates on
   every dumped grammar. *)

Definition is_special (g : grammar) (x : nat) : bool :=
  (x =? g_empty g) || (x =? g_aug g) ||
  (match g_layout g with Some _ => x =? g_augl g | None => false end).

Definition wf_prod_b (g : grammar) (pr : prod) : bool :=
  (g_nterm g <? p_lhs pr) && (p_lhs pr <? g_nsym g) && negb (is_special g (p_lhs pr)) &&
  forallb (fun x => (0 <? x) && (x <? g_nsym g) && negb (is_special g x)) (p_rhs pr).

Definition wf_grammar_b (g : grammar) : bool :=
  match g_prods g with
  | [] => false
  | p0 :: rest =>
      (p_lhs p0 =? g_aug g) &&
      (match p_rhs p0 with [s] => s =? g_start g | _ => false end) &&
      (g_nterm g <? g_start g) && (g_start g <? g_nsym g) && negb (is_special g (g_start g)) &&
      (0 <? g_nterm g) &&
      match g_layout g with
      | None => (2 <=? g_nnonterm g) && forallb (wf_prod_b g) rest
      | Some l =>
          (3 <=? g_nnonterm g) &&
          match rest with
          | [] => false
          | p1 :: rest' =>
              (p_lhs p1 =? g_augl g) &&
              (match p_rhs p1 with [s] => s =? l | _ => false end) &&
              (g_nterm g <? l) && (l <? g_nsym g) && negb (is_special g l) &&
              forallb (wf_prod_b g) rest'
          end
      end
  end.
