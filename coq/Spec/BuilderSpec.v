(* What the properties C09 / C16 say about the grammar builder: explicit, decidable
   classes of grammar files (known panic classes, known deviations) and the
   documented readings (meta-data inheritance, sugar expansions).
   Definitions only. *)
From Coq Require Import String Ascii NArith.
From RV Require Import Util Spec.Grammar Model.Builder.

(* ------------------------------------------------------------------ references of a file *)
Definition assign_ref (a : assignment) : symref :=
  match a with APlain _ r | ABool _ r | ARef r => r end.

Definition prod_refs (p : production) : list symref := map assign_ref (pr_assigns p).
Definition rule_refs (r : rule) : list symref := flat_map prod_refs (r_rhs r).
Definition file_rules (f : file) : list rule := match f_rules f with Some rs => rs | None => [] end.
Definition file_termrules (f : file) : list termrule := match f_terms f with Some ts => ts | None => [] end.
Definition file_refs (f : file) : list symref := flat_map rule_refs (file_rules f).

(* ------------------------------------------------------------------ C16: known panic classes *)
(* After the repairs c8c7445 .. 9193ac3 the only panic left in the front end is int_const
   (rustemo_actions.rs:22: token.value.parse::<u32>().unwrap()). *)
Definition cls_int_overflow (f : file) : bool := negb (ints_ok f).

Definition known_panic_class_b (f : file) : bool := cls_int_overflow f.

Definition KnownPanicClass (f : file) : Prop := known_panic_class_b f = true.

(* classes of files that used to panic (DESIGN.md F6) and now get a diagnostic; kept for the regression
   examples and for the generator's bookkeeping *)
Definition ref_greedy (r : symref) : bool :=
  match sr_rep r with
  | Some op => match rep_op op with
               | ZeroOrMoreGreedy | OneOrMoreGreedy | OptionalGreedy => true
               | _ => false
               end
  | None => false
  end.

Definition ref_group (r : symref) : bool :=
  match sr_sym r with None => true | Some _ => false end.

Definition ref_badmods (r : symref) : bool :=
  match sr_rep r with
  | Some op => match rep_mods op with
               | Some [_] => false
               | Some _ => true
               | None => false
               end
  | None => false
  end.

Fixpoint has_dup (l : list string) : bool :=
  match l with
  | [] => false
  | x :: r => existsb (String.eqb x) r || has_dup r
  end.

(* ASTs the grammar-of-grammars parser can produce: `GrammarRule+` and `Production ('|' Production)*`
   are never empty *)
Definition ast_shape_b (f : file) : bool :=
  match f_rules f with
  | Some rs => negb (match rs with [] => true | _ => false end) &&
               forallb (fun r => negb (match r_rhs r with [] => true | _ => false end)) rs
  | None => true
  end.

Definition reach_site (p : bpanic) : Prop := p = PReachStart \/ p = PReachProd \/ p = PReachNonterm.

(* ------------------------------------------------------------------ C09: documented readings *)
(* meta-data inheritance: the production's own value if it gives that meta-data, else the rule's,
   else the default *)
Definition inherit_get (own rule_meta : smap constval) (k : string) : option constval :=
  match sm_get k own with Some v => Some v | None => sm_get k rule_meta end.

Definition spec_prio (own rule_meta : smap constval) : N :=
  match inherit_get own rule_meta "priority"%string with Some (CInt p) => p | _ => default_prio end.
Definition spec_kind (own rule_meta : smap constval) : option string :=
  match inherit_get own rule_meta "kind"%string with Some (CStr k) => Some k | _ => None end.
Definition spec_nops (own rule_meta : smap constval) : bool :=
  match inherit_get own rule_meta "nops"%string with Some _ => true | None => false end.
Definition spec_nopse (own rule_meta : smap constval) : bool :=
  match inherit_get own rule_meta "nopse"%string with Some _ => true | None => false end.
Definition gives_assoc (m : smap constval) : bool := sm_mem "left"%string m || sm_mem "right"%string m.
Definition spec_assoc (own rule_meta : smap constval) : assoc :=
  if gives_assoc own then meta_assoc own else meta_assoc rule_meta.


(* the reference an alternative's assignment denotes after desugaring *)
Definition spec_sym (matches : smap (string * nat)) (r : symref) : option gsym :=
  match sr_rep r with
  | None => sr_sym r
  | Some op =>
      match sr_sym r with
      | None => None
      | Some (GName n) => Some (GName (nt_name n (rep_op op)))
      | Some (GStr s) => match sm_get s matches with
                         | Some (tn, _) => Some (GName (nt_name tn (rep_op op)))
                         | None => None
                         end
      end
  end.

Definition spec_assign (matches : smap (string * nat)) (a : assignment) : option (option string * bool * gsym) :=
  match spec_sym matches (assign_ref a) with
  | None => None
  | Some s => Some (match a with APlain n _ => (Some n, false) | ABool n _ => (Some n, true) | ARef _ => (None, false) end, s)
  end.

Definition alt_assigns (p : production) : list assignment := filter (fun a => negb (is_empty_ref a)) (pr_assigns p).

(* all alternative coordinates (rule position, alternative position) of a rule list, in order *)
Definition rule_coords (rpos : nat) (r : rule) : list (nat * nat) := map (fun j => (rpos, j)) (seq 0 (length (r_rhs r))).
Fixpoint rules_coords (rpos : nat) (rs : list rule) : list (nat * nat) :=
  match rs with
  | [] => []
  | r :: rest => rule_coords rpos r ++ rules_coords (S rpos) rest
  end.

Definition origin_coord (o : origin) : option (nat * nat) :=
  match o with OAlt i j => Some (i, j) | _ => None end.

Fixpoint alt_coords (ps : list oprod) : list (nat * nat) :=
  match ps with
  | [] => []
  | p :: rest => match origin_coord (op_origin p) with Some c => c :: alt_coords rest | None => alt_coords rest end
  end.

(* ------------------------------------------------------------------ C09: sugar languages, on Spec.Grammar *)
Definition derives (g : grammar) (X : nat) (w : list nat) : Prop :=
  exists t, valid_tree g t /\ root g t = X /\ yield t = w.

(* X (S X)* , the separator being optional *)
Inductive seplist (g : grammar) (X : nat) (sep : option nat) : list nat -> Prop :=
| sl_one w : derives g X w -> seplist g X sep w
| sl_more w1 ws wx :
    seplist g X sep w1 ->
    match sep with Some s => derives g s ws | None => ws = [] end ->
    derives g X wx -> seplist g X sep (w1 ++ ws ++ wx).

Definition has_prod (g : grammar) (q lhs_ : nat) (rhs_ : list nat) : Prop :=
  exists pr, get_prod g q = Some pr /\ p_lhs pr = lhs_ /\ p_rhs pr = rhs_.

(* N is a nonterminal with exactly the two productions  N: rhs0 | rhs1 *)
Definition two_prods (g : grammar) (N : nat) (rhs0 rhs1 : list nat) : Prop :=
  g_nterm g <= N /\
  exists p0 p1, has_prod g p0 N rhs0 /\ has_prod g p1 N rhs1 /\
                forall q pr, get_prod g q = Some pr -> p_lhs pr = N -> q = p0 \/ q = p1.

(* documented expansions (docs/src/grammar_language.md) *)
Definition one_or_more_prods (g : grammar) (N X : nat) (sep : option nat) : Prop :=
  two_prods g N (match sep with Some s => [N; s; X] | None => [N; X] end) [X].
Definition optional_prods (g : grammar) (N X : nat) : Prop := two_prods g N [X] [].
Definition zero_or_more_prods (g : grammar) (N0 N1 : nat) : Prop := two_prods g N0 [N1] [].

(* ------------------------------------------------------------------ the built grammar as a Spec.Grammar *)
Definition to_spec (g : bgrammar) : grammar :=
  let nterm := length (bg_terms g) in
  mkGrammar
    (map (fun t => mkTerm (N.to_nat (ot_prio t)) (ot_assoc t)
                          (match ot_rec t with Some (RStr s) => Some (String.length s) | _ => None end)) (bg_terms g))
    (length (bg_nonterms g))
    (map (fun p => mkProd (op_nt p + nterm) (op_rhs p) (N.to_nat (op_prio p)) (op_assoc p) (op_nops p) (op_nopse p)) (bg_prods g))
    (match bg_augl g with
     | Some _ => match nth_error (bg_prods g) 1 with
                 | Some p => hd_error (op_rhs p)
                 | None => None
                 end
     | None => None
     end)
    (bg_start g).

(* the documented separator of a use: X+[Sep] / X*[Sep] *)
Definition use_sep (r : symref) : option string :=
  match sr_rep r with
  | Some op => match rep_mods op with Some [m] => Some m | _ => None end
  | None => None
  end.

(* the symbol a repetition is applied to, by name (an inline string: the terminal declared with it) *)
Definition use_base (M : smap (string * nat)) (r : symref) : option string :=
  match sr_sym r with
  | Some (GName n) => Some n
  | Some (GStr s) => match sm_get s M with Some (tn, _) => Some tn | None => None end
  | None => None
  end.

(* ------------------------------------------------------------------ C09: sugar_language on the output grammar *)
(* some reference to the name n in g resolves to the symbol X (by helper_shared: every reference does) *)
Definition refers (g : bgrammar) (n : string) (X : nat) : Prop :=
  exists q k, In q (bg_prods g) /\ nth_error (op_syms q) k = Some (GName n) /\ nth_error (op_rhs q) k = Some X.

(* N is the documented helper of  b+  /  b+[sep] *)
Definition plus_doc (g : bgrammar) (N : nat) (b : string) (sep : option string) : Prop :=
  exists X, refers g b X /\
    match sep with
    | None => one_or_more_prods (to_spec g) N X None
    | Some s => exists sp, refers g s sp /\ one_or_more_prods (to_spec g) N X (Some sp)
    end.

(* N is the documented helper of the use  b op [sep] *)
Definition sugar_doc (g : bgrammar) (N : nat) (b : string) (op : repop) (sep : option string) : Prop :=
  match op with
  | OneOrMore => plus_doc g N b sep
  | ZeroOrMore => exists N1, zero_or_more_prods (to_spec g) N N1 /\ plus_doc g N1 b sep
  | Optional => exists X, refers g b X /\ optional_prods (to_spec g) N X
  | _ => False
  end.

(* the same, as languages: what the helper derives *)
Definition sep_sym (g : bgrammar) (sep : option string) (osep : option nat) : Prop :=
  match sep, osep with
  | None, None => True
  | Some s, Some sp => refers g s sp
  | _, _ => False
  end.

Definition sugar_lang (g : bgrammar) (N : nat) (b : string) (op : repop) (sep : option string) : Prop :=
  let gs := to_spec g in
  match op with
  | OneOrMore => exists X osep, refers g b X /\ sep_sym g sep osep /\
                                forall w, derives gs N w <-> seplist gs X osep w
  | ZeroOrMore => exists X osep, refers g b X /\ sep_sym g sep osep /\
                                 forall w, derives gs N w <-> (w = [] \/ seplist gs X osep w)
  | Optional => exists X, refers g b X /\ forall w, derives gs N w <-> (w = [] \/ derives gs X w)
  | _ => False
  end.
