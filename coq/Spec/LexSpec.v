(* The documented lexical disambiguation rule (docs/src/lexers.md, section
   "Lexical disambiguation"; docs/src/grammar_language.md, terminal
   priorities), written as a function independent of the implementation.

   Strategies are applied in this order to the expected terminals that match
   at the current position:
     1. Priorities     - only the matches of the highest priority survive;
     2. Most specific  - (if enabled) if some string recognizer matches, only
                         the longest string match survives (the first in
                         grammar order among equally long ones), otherwise
                         the regex matches survive;
     3. Longest match  - (if enabled) only the matches of maximal length;
     4. Grammar order  - (always for LR, optional for GLR) only the first in
                         grammar order.
   A GLR parser follows every survivor; an LR parser acts on the single one.

   [terms] are the expected terminals in grammar order (index, Terminal data);
   [mlen t] is the length matched by terminal t's recognizer at the current
   position (None: no match). *)
From RV Require Export Spec.Grammar.

Record lexflags := mkLexFlags { lf_ms : bool; lf_lm : bool; lf_go : bool }.

Section Select.
  Variable mlen : nat -> option nat.

  Definition e_prio (x : nat * term) : nat := t_prio (snd x).
  Definition e_str (x : nat * term) : bool :=
    match t_strlen (snd x) with Some _ => true | None => false end.
  Definition e_matches (x : nat * term) : bool :=
    match mlen (fst x) with Some _ => true | None => false end.
  Definition e_len (x : nat * term) : nat :=
    match mlen (fst x) with Some n => n | None => 0 end.

  Definition maxf {A} (f : A -> nat) (l : list A) : nat :=
    fold_right (fun x m => Nat.max (f x) m) 0 l.

  Definition by_priority (l : list (nat * term)) : list (nat * term) :=
    filter (fun x => e_prio x =? maxf e_prio l) l.

  Definition by_specific (l : list (nat * term)) : list (nat * term) :=
    match filter e_str l with
    | [] => l
    | strs => firstn 1 (filter (fun x => e_len x =? maxf e_len strs) strs)
    end.

  Definition by_longest (l : list (nat * term)) : list (nat * term) :=
    filter (fun x => e_len x =? maxf e_len l) l.

  Definition select_entries (fl : lexflags) (terms : list (nat * term)) : list (nat * term) :=
    let l0 := filter e_matches terms in
    let l1 := by_priority l0 in
    let l2 := if lf_ms fl then by_specific l1 else l1 in
    let l3 := if lf_lm fl then by_longest l2 else l2 in
    if lf_go fl then firstn 1 l3 else l3.

  (* the tokens (kind, length) the parser must act on *)
  Definition select (fl : lexflags) (terms : list (nat * term)) : list (nat * nat) :=
    map (fun x => (fst x, e_len x)) (select_entries fl terms).
End Select.

(* ------------------------------------------------------------------ *)
(* Side conditions, all decidable and evaluated by the check on measured data. *)

(* hypothesis on the recognizers (measured): a string recognizer that matches
   matches exactly its own byte length *)
Definition str_len_ok_b (terms : list (nat * term)) (mlen : nat -> option nat) : bool :=
  forallb (fun x => match t_strlen (snd x), mlen (fst x) with
                    | Some k, Some n => n =? k
                    | _, _ => true
                    end) terms.

(* the sort key prio*1000 + strlen only orders by priority first if string
   recognizers are shorter than 1000 bytes, and only puts strings before
   regexes if they are non-empty (only relevant with most-specific on) *)
Definition range_ok_b (ms : bool) (terms : list (nat * term)) : bool :=
  negb ms ||
  forallb (fun x => match t_strlen (snd x) with
                    | Some k => (1 <=? k) && (k <? 1000)
                    | None => true
                    end) terms.

(* KnownClass (finding "priority-group-finish-flag", DESIGN.md §9 F1).
   The end of a priority group is marked only on the group's LAST terminal in
   try order, i.e. the last one, in grammar order, of the group's least specific
   members (rank = byte length of a string recognizer when most-specific is on,
   0 otherwise; all members of a group have the same priority). The situation in which the implementation lets
   lower-priority matches through:
     - some expected terminal of lower priority than the best match matches,
     - (most-specific on) no string recognizer of the top priority matches,
     - the group-closing terminal of the top matching priority does not match. *)
Definition e_rank (ms : bool) (x : nat * term) : nat :=
  if ms then match t_strlen (snd x) with Some n => n | None => 0 end else 0.

Definition minf {A} (f : A -> nat) (l : list A) : nat :=
  match l with
  | [] => 0
  | x :: r => fold_right (fun y m => Nat.min (f y) m) (f x) r
  end.

Fixpoint last_error {A} (l : list A) : option A :=
  match l with
  | [] => None
  | [x] => Some x
  | _ :: r => last_error r
  end.

Definition closer (ms : bool) (grp : list (nat * term)) : option (nat * term) :=
  last_error (filter (fun x => e_rank ms x =? minf (e_rank ms) grp) grp).

Definition known_class_b (ms : bool) (terms : list (nat * term)) (mlen : nat -> option nat) : bool :=
  let l0 := filter (e_matches mlen) terms in
  let p := maxf e_prio l0 in
  existsb (fun x => e_prio x <? p) l0 &&
  negb (ms && existsb (fun x => e_str x && (e_prio x =? p)) l0) &&
  match closer ms (filter (fun x => e_prio x =? p) terms) with
  | Some c => negb (e_matches mlen c)
  | None => false
  end.
