(* Verified oracle: enumeration of ALL derivation trees of a grammar with a
   given root symbol, a given yield and bounded height (span-splitting
   recursion on the height).  Proofs: Proofs/Enumerate.v.

   Also here, as executable functions:
   [saturated_b h g w]  a per-input certificate that the height bound h loses
                        nothing (no derivation tree of any symbol over any
                        contiguous part of w is higher than h);
   [acyclic_b g]        the grammar has no cyclic derivation A =>+ A;
   [eps_unamb_b g]      every symbol has at most one derivation tree of the
                        empty string (bounded by [eps_bound g], certified by
                        saturation on the empty input);
   [unelide g t]        re-inserts elided trailing empty children (a witness
                        generator: its result is judged by valid_tree_b). *)
From RV Require Export Spec.Grammar Spec.TreeCheck Spec.Elide.

Fixpoint height (t : tree) : nat :=
  match t with
  | Leaf _ => 0
  | Node _ cs => S (list_max (map height cs))
  end.

(* all (prefix, suffix) decompositions, shortest prefix first *)
Fixpoint splits (w : list nat) : list (list nat * list nat) :=
  match w with
  | [] => [([], [])]
  | a :: r => ([], w) :: map (fun ps => (a :: fst ps, snd ps)) (splits r)
  end.

(* all child lists for the symbol sequence xs over w, given the enumerator of
   single symbols.  Every case denotes
     flat_map (fun t => map (cons t) (seq_trees .. rest w2)) (sym_trees x w1);
   the order of evaluation only avoids useless work: for a [cheap] symbol (a
   terminal) the symbol is tried first, otherwise the remaining symbols. *)
Fixpoint seq_trees (cheap : nat -> bool) (sym_trees : nat -> list nat -> list tree)
         (xs : list nat) (w : list nat) : list (list tree) :=
  match xs with
  | [] => match w with [] => [[]] | _ => [] end
  | x :: rest =>
      flat_map (fun ps =>
                  if cheap x then
                    match sym_trees x (fst ps) with
                    | [] => []
                    | ts =>
                        match seq_trees cheap sym_trees rest (snd ps) with
                        | [] => []
                        | rs => flat_map (fun t => map (cons t) rs) ts
                        end
                    end
                  else
                    match seq_trees cheap sym_trees rest (snd ps) with
                    | [] => []
                    | rs => flat_map (fun t => map (cons t) rs) (sym_trees x (fst ps))
                    end) (splits w)
  end.

Definition leaf_trees (g : grammar) (X : nat) (w : list nat) : list tree :=
  if (0 <? X) && (X <? g_nterm g) && list_eqb w [X] then [Leaf X] else [].

Definition node_trees (g : grammar) (sym_trees : nat -> list nat -> list tree) (X : nat) (w : list nat)
  : list tree :=
  flat_map (fun ip =>
              if p_lhs (snd ip) =? X
              then map (Node (fst ip)) (seq_trees (fun x => x <? g_nterm g) sym_trees (p_rhs (snd ip)) w)
              else []) (indexed (g_prods g)).

Fixpoint all_trees (h : nat) (g : grammar) (X : nat) (w : list nat) : list tree :=
  match h with
  | 0 => leaf_trees g X w
  | S h' => leaf_trees g X w ++ node_trees g (all_trees h' g) X w
  end.

(* ------------------------------------------------------------------ *)
(* contiguous sublists *)
Fixpoint prefixes (w : list nat) : list (list nat) :=
  match w with
  | [] => [[]]
  | a :: r => [] :: map (cons a) (prefixes r)
  end.

Fixpoint subs (w : list nat) : list (list nat) :=
  match w with
  | [] => [[]]
  | a :: r => prefixes w ++ subs r
  end.

(* every symbol that can be the root of a valid tree *)
Definition root_syms (g : grammar) : list nat :=
  nodup Nat.eq_dec (seq 0 (g_nterm g) ++ map p_lhs (g_prods g)).

Definition sub_keys (w : list nat) : list (list nat) :=
  nodup (list_eq_dec Nat.eq_dec) (subs w).

(* no derivation tree of height exactly h+1 over any contiguous part of w *)
Definition saturated_b (h : nat) (g : grammar) (w : list nat) : bool :=
  forallb (fun X =>
             forallb (fun w' => forallb (fun t => height t <=? h) (all_trees (S h) g X w'))
                     (sub_keys w))
          (root_syms g).

(* ------------------------------------------------------------------ *)
(* The same enumerator with one memo table per height level (evaluation by
   vm_compute is call-by-value: the table of a level is built once, when the
   closure of that level is created).  [memo_fun f syms ws] is pointwise equal
   to f whatever the key lists are: a missing key falls back to f itself. *)
Definition memo_fun (f : nat -> list nat -> list tree) (syms : list nat) (ws : list (list nat))
  : nat -> list nat -> list tree :=
  let tb := map (fun x => (x, map (fun w => (w, f x w)) ws)) syms in
  fun x w =>
    match find (fun e => fst e =? x) tb with
    | Some e =>
        match find (fun c => list_eqb (fst c) w) (snd e) with
        | Some c => snd c
        | None => f x w
        end
    | None => f x w
    end.

Fixpoint level (h : nat) (g : grammar) (syms : list nat) (ws : list (list nat))
  : nat -> list nat -> list tree :=
  match h with
  | 0 => leaf_trees g
  | S h' =>
      let f := memo_fun (level h' g syms ws) syms ws in
      fun X w => leaf_trees g X w ++ node_trees g f X w
  end.

(* = (saturated_b h g w, all_trees (S h) g X w), see Proofs/Enumerate.v *)
Definition oracle_m (h : nat) (g : grammar) (X : nat) (w : list nat) : bool * list tree :=
  let syms := root_syms g in
  let ws := sub_keys w in
  let f := memo_fun (level (S h) g syms ws) syms ws in
  (forallb (fun Y => forallb (fun w' => forallb (fun t => height t <=? h) (f Y w')) ws) syms,
   f X w).

(* ------------------------------------------------------------------ *)
(* scope of C03 *)

(* nullable symbols: least fixed point by |prods|+1 rounds *)
Definition nullable_step (g : grammar) (ns : list nat) : list nat :=
  fold_left (fun acc pr =>
               if forallb (fun x => memb x acc) (p_rhs pr) && negb (memb (p_lhs pr) acc)
               then p_lhs pr :: acc else acc) (g_prods g) ns.

Fixpoint iter {A} (n : nat) (f : A -> A) (x : A) : A :=
  match n with 0 => x | S n' => iter n' f (f x) end.

Definition nullable_set (g : grammar) : list nat :=
  iter (S (length (g_prods g))) (nullable_step g) [].

(* A -> B  when  A: alpha B beta  with alpha and beta nullable *)
Fixpoint unit_targets (ns : list nat) (pre : list nat) (rhs : list nat) : list nat :=
  match rhs with
  | [] => []
  | x :: rest =>
      (if forallb (fun y => memb y ns) pre && forallb (fun y => memb y ns) rest then [x] else [])
      ++ unit_targets ns (pre ++ [x]) rest
  end.

Definition unit_edges (g : grammar) : list (nat * nat) :=
  let ns := nullable_set g in
  flat_map (fun pr => map (fun b => (p_lhs pr, b)) (unit_targets ns [] (p_rhs pr))) (g_prods g).

Definition reach_step (edges : list (nat * nat)) (rs : list nat) : list nat :=
  fold_left (fun acc ab =>
               if memb (fst ab) acc && negb (memb (snd ab) acc) then snd ab :: acc else acc) edges rs.

(* symbols reachable from a in one or more unit steps *)
Definition unit_reach (g : grammar) (a : nat) : list nat :=
  let edges := unit_edges g in
  let first := map snd (filter (fun ab => fst ab =? a) edges) in
  iter (S (length edges)) (reach_step edges) first.

(* The two iterations above are bounded; instead of proving that the bounds
   reach the fixed points, acyclic_b CHECKS that the results are closed (a
   closed set over-approximates the least one, which is the safe side). *)
Definition nullable_closed_b (g : grammar) (ns : list nat) : bool :=
  forallb (fun pr => negb (forallb (fun x => memb x ns) (p_rhs pr)) || memb (p_lhs pr) ns) (g_prods g).

Definition reach_closed_b (edges : list (nat * nat)) (a : nat) (rs : list nat) : bool :=
  forallb (fun ab => negb ((fst ab =? a) || memb (fst ab) rs) || memb (snd ab) rs) edges.

Definition acyclic_b (g : grammar) : bool :=
  nullable_closed_b g (nullable_set g) &&
  forallb (fun a => let rs := unit_reach g a in
                    reach_closed_b (unit_edges g) a rs && negb (memb a rs))
          (nodup Nat.eq_dec (map p_lhs (g_prods g))).

(* proper descendant *)
Inductive desc : tree -> tree -> Prop :=
| desc_child p cs c : In c cs -> desc c (Node p cs)
| desc_trans p cs c t' : In c cs -> desc t' c -> desc t' (Node p cs).

(* bound for the height of derivations of the empty string *)
Definition eps_bound (g : grammar) : nat := S (g_nnonterm g).

Definition eps_unamb_b (g : grammar) : bool :=
  saturated_b (eps_bound g) g [] &&
  forallb (fun X => length (all_trees (eps_bound g) g X []) <=? 1) (root_syms g).

(* ------------------------------------------------------------------ *)
(* un-eliding *)
Definition eps_tree (g : grammar) (X : nat) : option tree :=
  hd_error (all_trees (eps_bound g) g X []).

Fixpoint eps_trees (g : grammar) (xs : list nat) : option (list tree) :=
  match xs with
  | [] => Some []
  | x :: rest =>
      match eps_tree g x, eps_trees g rest with
      | Some t, Some ts => Some (t :: ts)
      | _, _ => None
      end
  end.

Fixpoint unelide (g : grammar) (t : tree) : tree :=
  match t with
  | Leaf a => Leaf a
  | Node p cs =>
      let cs' := map (unelide g) cs in
      match eps_trees g (skipn (length cs) (rhs g p)) with
      | Some ts => Node p (cs' ++ ts)
      | None => Node p cs'
      end
  end.

(* the verdict for one real GLR tree: it is, modulo elision, a derivation tree
   of w from the start symbol *)
Definition rn_derivation_b (g : grammar) (t : tree) (w : list nat) : bool :=
  derivation_b g (unelide g t) w && tree_eqb (elide (unelide g t)) (elide t).
