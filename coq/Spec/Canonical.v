(* C04 - reference construction of the canonical LR(1) automaton of a grammar,
   the relation "table T is a core-preserving compression of the canonical
   automaton C" (Prop [Compresses]) and its boolean checker [compress_b].

   Everything here is independent of the table generator under test: FIRST and
   nullability are computed by our own fixpoints over the grammar (the dumped
   [t_first] is never read), items carry ONE lookahead terminal, states are
   sorted duplicate-free lists of items.

   The automaton has one root per augmented production: state 0 for AUG: start
   and, when the grammar has a Layout rule, state 1 for AUGL: Layout (rustemo
   builds both automata into one state vector and merges across them).

   Only executable definitions and Prop-level specifications; lemmas are in
   Proofs/Canon.v and Proofs/Compress.v. *)
From RV Require Export Model.Table Spec.Validators.

(* ------------------------------------------------------------------ *)
(* LR(1) items and item sets                                           *)

Definition citem := (nat * nat * nat)%type.       (* production, position, lookahead *)
Definition cstate := list citem.

Definition citem_cmp (x y : citem) : comparison :=
  match x, y with
  | (p, i, a), (q, j, b) =>
      match Nat.compare p q with
      | Eq => match Nat.compare i j with
              | Eq => Nat.compare a b
              | r => r
              end
      | r => r
      end
  end.

Definition citem_eqb (x y : citem) : bool :=
  match citem_cmp x y with Eq => true | _ => false end.

Definition cmem (x : citem) (l : cstate) : bool := existsb (citem_eqb x) l.

(* sorted insertion; None = already present *)
Fixpoint ins_opt (x : citem) (l : cstate) : option cstate :=
  match l with
  | [] => Some [x]
  | y :: r =>
      match citem_cmp x y with
      | Lt => Some (x :: l)
      | Eq => None
      | Gt => match ins_opt x r with Some r' => Some (y :: r') | None => None end
      end
  end.

Definition ins (x : citem) (l : cstate) : cstate :=
  match ins_opt x l with Some l' => l' | None => l end.

Definition norm (l : list citem) : cstate := fold_right ins [] l.

Fixpoint cstate_eqb (l1 l2 : cstate) : bool :=
  match l1, l2 with
  | [], [] => true
  | x :: r1, y :: r2 => if citem_eqb x y then cstate_eqb r1 r2 else false
  | _, _ => false
  end.

Fixpoint sorted_b (l : cstate) : bool :=
  match l with
  | [] => true
  | x :: r => match r with
              | [] => true
              | y :: _ => match citem_cmp x y with Lt => sorted_b r | _ => false end
              end
  end.

Definition dedupe (l : list nat) : list nat :=
  fold_right (fun a acc => if memb a acc then acc else a :: acc) [] l.

Fixpoint assoc (X : nat) (row : list (nat * nat)) : option nat :=
  match row with
  | [] => None
  | (Y, v) :: r => if Y =? X then Some v else assoc X r
  end.

Fixpoint iter_n {A} (f : A -> A) (n : nat) (x : A) : A :=
  match n with 0 => x | S k => iter_n f k (f x) end.

(* ------------------------------------------------------------------ *)
(* Specification: nullable, FIRST (inductive, grammar only)            *)

Inductive nullable_sym (g : grammar) : nat -> Prop :=
| NullSym p pr : get_prod g p = Some pr -> nullable_seq g (p_rhs pr) -> nullable_sym g (p_lhs pr)
with nullable_seq (g : grammar) : list nat -> Prop :=
| NullNil : nullable_seq g []
| NullCons x r : nullable_sym g x -> nullable_seq g r -> nullable_seq g (x :: r).

(* first_sym g X a: terminal a begins some string derived from X *)
Inductive first_sym (g : grammar) : nat -> nat -> Prop :=
| FirstT a : a < g_nterm g -> first_sym g a a
| FirstN p pr k Y a :
    get_prod g p = Some pr ->
    nullable_seq g (firstn k (p_rhs pr)) ->
    nth_error (p_rhs pr) k = Some Y ->
    first_sym g Y a ->
    first_sym g (p_lhs pr) a.

Inductive first_seq (g : grammar) : list nat -> nat -> Prop :=
| FSHead x r a : first_sym g x a -> first_seq g (x :: r) a
| FSSkip x r a : nullable_sym g x -> first_seq g r a -> first_seq g (x :: r) a.

(* b is in FIRST(beta a) *)
Definition la_first (g : grammar) (beta : list nat) (a b : nat) : Prop :=
  first_seq g beta b \/ (nullable_seq g beta /\ b = a).

(* ------------------------------------------------------------------ *)
(* Our own nullable / FIRST fixpoints                                  *)

Definition all_in (N : list nat) (l : list nat) : bool := forallb (fun x => memb x N) l.

Definition nullable_step (g : grammar) (N : list nat) : list nat :=
  fold_right (fun pr acc =>
                if all_in N (p_rhs pr)
                then (if memb (p_lhs pr) acc then acc else p_lhs pr :: acc)
                else acc) N (g_prods g).

(* None: not converged (never happens for a well-formed grammar; excluded, not assumed) *)
Definition nullable_set (g : grammar) : option (list nat) :=
  let N := iter_n (nullable_step g) (S (g_nnonterm g)) [] in
  if subsetb (nullable_step g N) N then Some N else None.

Definition fst_of (F : list (list nat)) (x : nat) : list nat :=
  match nth_error F x with Some l => l | None => [] end.

(* FIRST of a sequence, without the end marker *)
Fixpoint first_rhs (N : list nat) (F : list (list nat)) (beta : list nat) : list nat :=
  match beta with
  | [] => []
  | x :: r => fst_of F x ++ (if memb x N then first_rhs N F r else [])
  end.

Definition add_all (l acc : list nat) : list nat :=
  fold_right (fun a acc => if memb a acc then acc else a :: acc) acc l.

Definition first_step (g : grammar) (N : list nat) (F : list (list nat)) : list (list nat) :=
  map (fun X =>
         fold_right (fun pr acc =>
                       if p_lhs pr =? X then add_all (first_rhs N F (p_rhs pr)) acc else acc)
                    (fst_of F X) (g_prods g))
      (seq 0 (g_nsym g)).

Definition first_init (g : grammar) : list (list nat) :=
  map (fun X => if X <? g_nterm g then [X] else []) (seq 0 (g_nsym g)).

Definition first_stable (g : grammar) (N : list nat) (F : list (list nat)) : bool :=
  let F' := first_step g N F in
  forallb (fun X => subsetb (fst_of F' X) (fst_of F X)) (seq 0 (g_nsym g)).

Fixpoint first_iter (g : grammar) (N : list nat) (fuel : nat) (F : list (list nat))
  : option (list (list nat)) :=
  match fuel with
  | 0 => None
  | S k => if first_stable g N F then Some F else first_iter g N k (first_step g N F)
  end.

Definition lhs_ok_b (g : grammar) : bool :=
  forallb (fun pr => p_lhs pr <? g_nsym g) (g_prods g).

Definition first_table (g : grammar) (N : list nat) : option (list (list nat)) :=
  if lhs_ok_b g then first_iter g N (S (g_nsym g * g_nterm g)) (first_init g) else None.

(* ------------------------------------------------------------------ *)
(* Specification: closure of a kernel, as the least closed set         *)

Inductive clos (g : grammar) (K : citem -> Prop) : citem -> Prop :=
| ClosK x : K x -> clos g K x
| ClosStep p i a X q pr b :
    clos g K (p, i, a) ->
    nth_error (rhs g p) i = Some X ->
    g_nterm g <= X ->
    get_prod g q = Some pr -> p_lhs pr = X ->
    la_first g (skipn (S i) (rhs g p)) a b ->
    clos g K (q, 0, b).

(* kernel of the X-successor of an item set *)
Definition goto_K (g : grammar) (I : cstate) (X : nat) (y : citem) : Prop :=
  exists p i a, y = (p, S i, a) /\ In (p, i, a) I /\ nth_error (rhs g p) i = Some X.

(* ------------------------------------------------------------------ *)
(* Executable closure and goto                                         *)

Section Exec.
Variable g : grammar.
Variable N : list nat.            (* nullable nonterminals *)
Variable F : list (list nat).     (* FIRST per symbol *)

Definition demands (it : citem) : list citem :=
  match it with
  | (p, i, a) =>
      match nth_error (rhs g p) i with
      | None => []
      | Some X =>
          if X <? g_nterm g then []
          else
            let beta := skipn (S i) (rhs g p) in
            let las := first_rhs N F beta ++ (if all_in N beta then [a] else []) in
            flat_map (fun '(q, pr) => if p_lhs pr =? X then map (fun b => (q, 0, b)) las else [])
                     (indexed (g_prods g))
      end
  end.

Definition add_demand (acc : list citem * cstate) (d : citem) : list citem * cstate :=
  match ins_opt d (snd acc) with
  | Some J => (d :: fst acc, J)
  | None => acc
  end.

(* work-list closure; out of fuel = returns what it has (the caller checks closedness) *)
Fixpoint clos_work (fuel : nat) (todo : list citem) (I : cstate) : cstate :=
  match fuel with
  | 0 => I
  | S k =>
      match todo with
      | [] => I
      | _ =>
          let r := fold_left add_demand (flat_map demands todo) ([], I) in
          clos_work k (fst r) (snd r)
      end
  end.

Definition closed_b (I : cstate) : bool :=
  forallb (fun it => forallb (fun d => cmem d I) (demands it)) I.

(* None = out of fuel *)
Definition closure (fuel : nat) (K : list citem) : option cstate :=
  let K' := norm K in
  let I := clos_work fuel K' K' in
  if closed_b I then Some I else None.

Definition goto_kernel (I : cstate) (X : nat) : list citem :=
  flat_map (fun it => match it with
                      | (p, i, a) =>
                          match nth_error (rhs g p) i with
                          | Some Y => if Y =? X then [(p, S i, a)] else []
                          | None => []
                          end
                      end) I.

Definition next_syms (I : cstate) : list nat :=
  dedupe (flat_map (fun it => match it with
                              | (p, i, _) => match nth_error (rhs g p) i with
                                             | Some Y => [Y]
                                             | None => []
                                             end
                              end) I).

Fixpoint find_state (c : cstate) (sts : list cstate) (k : nat) : option nat :=
  match sts with
  | [] => None
  | y :: r => if cstate_eqb c y then Some k else find_state c r (S k)
  end.

Definition succ_one (cfuel : nat) (I : cstate)
           (acc : option (list cstate * list (nat * nat))) (X : nat)
  : option (list cstate * list (nat * nat)) :=
  match acc with
  | None => None
  | Some (sts, row) =>
      match closure cfuel (goto_kernel I X) with
      | None => None
      | Some J =>
          match find_state J sts 0 with
          | Some j => Some (sts, (X, j) :: row)
          | None => Some (sts ++ [J], (X, length sts) :: row)
          end
      end
  end.

Record canon := mkCanon {
  c_states : list cstate;
  c_trans : list (list (nat * nat))     (* per state: (symbol, target) *)
}.

(* work list over states: states [0, length trs) are processed. None = out of fuel. *)
Fixpoint build (cfuel fuel : nat) (sts : list cstate) (trs : list (list (nat * nat))) : option canon :=
  match fuel with
  | 0 => None
  | S k =>
      match nth_error sts (length trs) with
      | None => Some (mkCanon sts trs)
      | Some Ic =>
          match fold_left (succ_one cfuel Ic) (next_syms Ic) (Some (sts, [])) with
          | None => None
          | Some (sts', row) => build cfuel k sts' (trs ++ [row])
          end
      end
  end.

End Exec.

Definition c_n (C : canon) : nat := length (c_states C).
Definition c_items (C : canon) (c : nat) : cstate := nth c (c_states C) [].
Definition c_goto (C : canon) (c X : nat) : option nat :=
  match nth_error (c_trans C) c with
  | Some row => assoc X row
  | None => None
  end.

Definition closure_fuel (g : grammar) : nat := S (S (length (g_prods g) * g_nterm g)).

(* [canonical g fuel]: at most [fuel] states are processed; None = out of fuel (or the grammar is so
   ill-formed that our FIRST/nullable iterations do not converge within their bounds). *)
Definition canonical (g : grammar) (fuel : nat) : option canon :=
  match nullable_set g with
  | None => None
  | Some N =>
      match first_table g N with
      | None => None
      | Some F =>
          let cf := closure_fuel g in
          match closure g N F cf [(0, 0, STOP)] with
          | None => None
          | Some I0 =>
              match g_layout g with
              | None => build g N F cf fuel [I0] []
              | Some _ =>
                  match closure g N F cf [(1, 0, STOP)] with
                  | None => None
                  | Some I1 => if cstate_eqb I0 I1 then None else build g N F cf fuel [I0; I1] []
                  end
              end
          end
      end
  end.

(* ------------------------------------------------------------------ *)
(* Specification: what "canonical LR(1) automaton" means               *)

Definition is_root (g : grammar) (c : nat) : Prop :=
  c = 0 \/ (c = 1 /\ g_layout g <> None).

Inductive creach (g : grammar) (C : canon) : nat -> Prop :=
| CRroot c : is_root g c -> creach g C c
| CRstep c X c' : creach g C c -> c_goto C c X = Some c' -> creach g C c'.

Definition set_is (I : cstate) (P : citem -> Prop) : Prop := forall x, In x I <-> P x.

Record is_canonical (g : grammar) (C : canon) : Prop := {
  ic_start : set_is (c_items C 0) (clos g (fun y => y = (0, 0, STOP)));
  ic_layout : g_layout g <> None -> set_is (c_items C 1) (clos g (fun y => y = (1, 0, STOP)));
  ic_roots : 0 < c_n C /\ (g_layout g <> None -> 1 < c_n C);
  ic_goto_some : forall c X c', c < c_n C -> c_goto C c X = Some c' ->
      c' < c_n C /\ (exists y, goto_K g (c_items C c) X y) /\
      set_is (c_items C c') (clos g (goto_K g (c_items C c) X));
  ic_goto_none : forall c X, c < c_n C -> c_goto C c X = None -> forall y, ~ goto_K g (c_items C c) X y;
  ic_reach : forall c, c < c_n C -> creach g C c;
  ic_trans_dom : forall c X c', c_goto C c X = Some c' -> c < c_n C
}.

(* ------------------------------------------------------------------ *)
(* The table side                                                      *)

Definition t_trans (g : grammar) (T : table) (t X t' : nat) : Prop :=
  exists st, get_state T t = Some st /\ In (X, t') (trans_list (g_nterm g) st).

Definition t_has_item (T : table) (t p i : nat) : Prop :=
  exists st it, get_state T t = Some st /\ In it (s_items st) /\ i_prod it = p /\ i_pos it = i.

(* a is a lookahead of item (p,i) in table state t *)
Definition t_item_la (T : table) (t p i a : nat) : Prop :=
  exists st it, get_state T t = Some st /\ In it (s_items st) /\ i_prod it = p /\ i_pos it = i /\
                In a (i_follow it).

Definition c_has_core (C : canon) (c p i : nat) : Prop := exists a, In (p, i, a) (c_items C c).

Definition same_core (C : canon) (T : table) (c t : nat) : Prop :=
  forall p i, c_has_core C c p i <-> t_has_item T t p i.

Definition c_same_core (C : canon) (c c' : nat) : Prop :=
  forall p i, c_has_core C c p i <-> c_has_core C c' p i.

(* k is the least position of production p after which the rest of the rhs is nullable *)
Definition rn_least (g : grammar) (p k : nat) : Prop :=
  k <= length (rhs g p) /\ nullable_seq g (skipn k (rhs g p)) /\
  forall j, j < k -> ~ nullable_seq g (skipn j (rhs g p)).

(* The first sentence of C04. R c t: table state t stands for canonical state c. It is a relation:
   rustemo identifies states by their ORDERED kernel, so one canonical state can be represented by
   several table states that differ only in item order (see REPORT.md); when R is functional it is
   the map h of DESIGN.md. h^-1(t) = { c | R c t }. *)
Record Compresses_by (g : grammar) (C : canon) (T : table) (R : nat -> nat -> Prop) : Prop := {
  cb_start : R 0 0 /\
             match g_layout g, t_layout T with
             | None, None => True
             | Some _, Some l => R 1 l
             | _, _ => False
             end;
  (* (iii) transitions agree *)
  cb_step : forall c t X c', R c t -> c_goto C c X = Some c' ->
            exists t', R c' t' /\ forall s, t_trans g T t X s <-> s = t';
  cb_nostep : forall c t X, R c t -> c_goto C c X = None -> forall s, ~ t_trans g T t X s;
  (* (i) every table state is hit (totality on reachable canonical states follows from
     cb_start + cb_step, see compresses_total) *)
  cb_onto : forall t, t < length (t_states T) -> exists c, R c t;
  cb_dom : forall c t, R c t -> c < c_n C /\ t < length (t_states T);
  (* (ii) same core *)
  cb_core : forall c t, R c t -> same_core C T c t;
  (* (iv) lookaheads: nothing lost, nothing invented *)
  cb_la_kept : forall c t p i a, R c t -> In (p, i, a) (c_items C c) -> t_item_la T t p i a;
  cb_la_sound : forall t p i a, t_item_la T t p i a -> exists c, R c t /\ In (p, i, a) (c_items C c);
  (* (v) reductions of the unresolved table *)
  cb_red_kept : forall c t p a, R c t -> In (p, length (rhs g p), a) (c_items C c) ->
                is_aug_prod g p = false -> In (Reduce p (length (rhs g p))) (cell T t a);
  cb_acc_kept : forall c t p a, R c t -> In (p, length (rhs g p), a) (c_items C c) ->
                is_aug_prod g p = true -> In Accept (cell T t STOP);
  cb_red_sound : forall t a p len, In (Reduce p len) (cell T t a) ->
                 is_aug_prod g p = false /\
                 ((len = length (rhs g p) /\ exists c, R c t /\ In (p, len, a) (c_items C c)) \/
                  (len < length (rhs g p) /\
                   exists rn k, t_rn T = Some rn /\ nth_error rn p = Some k /\ k <= len /\
                                t_item_la T t p len a));
  cb_acc_sound : forall t a, In Accept (cell T t a) ->
                 a = STOP /\ exists c p b, R c t /\ is_aug_prod g p = true /\
                                           In (p, length (rhs g p), b) (c_items C c);
  (* right-nulled entries (LALR_RN): exactly the positions from rn[p] on *)
  cb_rn_kept : forall rn t p len a k, t_rn T = Some rn -> nth_error rn p = Some k ->
               is_aug_prod g p = false -> k <= len -> len < length (rhs g p) ->
               t_item_la T t p len a -> In (Reduce p len) (cell T t a);
  cb_rn_len : forall rn, t_rn T = Some rn ->
              length rn = length (g_prods g) /\
              forall p k, nth_error rn p = Some k -> rn_least g p k;
  cb_nodup : forall t a, NoDup (cell T t a)
}.

Definition Compresses (g : grammar) (C : canon) (T : table) : Prop :=
  exists R, Compresses_by g C T R.

(* ------------------------------------------------------------------ *)
(* The checker                                                         *)

Definition rel := list (list nat).      (* per canonical state: the table states related to it *)
Definition rel_get (rl : rel) (c : nat) : list nat := nth c rl [].
Definition Rof (rl : rel) (c t : nat) : Prop := In t (rel_get rl c).

Fixpoint rel_add (rl : rel) (c t : nat) : rel :=
  match rl with
  | [] => []
  | l :: r => match c with
              | 0 => (t :: l) :: r
              | S c' => l :: rel_add r c' t
              end
  end.

Definition ttargets (nterm : nat) (st : state) (X : nat) : list nat :=
  flat_map (fun '(Y, s') => if Y =? X then [s'] else []) (trans_list nterm st).

(* lock-step walk of both automata from the roots (untrusted: its result is checked) *)
Fixpoint walk (g : grammar) (C : canon) (T : table) (fuel : nat) (todo : list (nat * nat)) (rl : rel) : rel :=
  match fuel with
  | 0 => rl
  | S k =>
      match todo with
      | [] => rl
      | (c, t) :: rest =>
          if memb t (rel_get rl c) then walk g C T k rest rl
          else
            let succs :=
              match nth_error (c_trans C) c, get_state T t with
              | Some row, Some st =>
                  flat_map (fun '(X, c') => map (fun t' => (c', t')) (ttargets (g_nterm g) st X)) row
              | _, _ => []
              end in
            walk g C T k (succs ++ rest) (rel_add rl c t)
      end
  end.

Definition walk_rel (g : grammar) (C : canon) (T : table) : rel :=
  let roots := (0, 0) :: match g_layout g, t_layout T with
                         | Some _, Some l => [(1, l)]
                         | _, _ => []
                         end in
  walk g C T (S (S (g_nsym g)) * (c_n C + length (t_states T)) * 3 + 10) roots
       (map (fun _ => []) (c_states C)).

Section Check.
Variable g : grammar.
Variable C : canon.
Variable T : table.
Variable rl : rel.

Definition pre_of (t : nat) : list nat :=
  filter (fun c => memb t (rel_get rl c)) (seq 0 (c_n C)).

(* for every related pair (c, t) with t a state of T *)
Definition for_pairs (f : nat -> cstate -> state -> bool) : bool :=
  forallb (fun c => forallb (fun t => match get_state T t with
                                      | Some st => f c (c_items C c) st
                                      | None => false
                                      end) (rel_get rl c))
          (seq 0 (length rl)).

Definition for_tstates (f : nat -> list nat -> state -> bool) : bool :=
  forallb (fun '(t, st) => f t (pre_of t) st) (indexed (t_states T)).

Definition item_is (p i : nat) (it : item) : bool := (i_prod it =? p) && (i_pos it =? i).

Definition item_la_b (st : state) (p i a : nat) : bool :=
  existsb (fun it => item_is p i it && memb a (i_follow it)) (s_items st).

Definition in_some_pre (pre : list nat) (x : citem) : bool :=
  existsb (fun c => cmem x (c_items C c)) pre.

Definition has_action (act : action) (acts : list action) : bool := existsb (action_eqb act) acts.

Definition ck_len : bool := length rl =? c_n C.

Definition ck_start : bool :=
  memb 0 (rel_get rl 0) &&
  match g_layout g, t_layout T with
  | None, None => true
  | Some _, Some l => memb l (rel_get rl 1)
  | _, _ => false
  end.

Definition ck_trans : bool :=
  for_pairs (fun c _ st =>
    match nth_error (c_trans C) c with
    | None => false
    | Some row =>
        forallb (fun '(X, c') => match ttargets (g_nterm g) st X with
                                 | [t'] => memb t' (rel_get rl c')
                                 | _ => false
                                 end) row &&
        forallb (fun '(X, _) => match assoc X row with Some _ => true | None => false end)
                (trans_list (g_nterm g) st)
    end).

Definition ck_onto : bool :=
  for_tstates (fun _ pre _ => match pre with [] => false | _ => true end).

Definition ck_core : bool :=
  for_pairs (fun _ I st =>
    forallb (fun '(p, i, _) => existsb (item_is p i) (s_items st)) I &&
    forallb (fun it => existsb (fun '(p, i, _) => item_is p i it) I) (s_items st)).

Definition ck_la_kept : bool :=
  for_pairs (fun _ I st => forallb (fun '(p, i, a) => item_la_b st p i a) I).

Definition ck_la_sound : bool :=
  for_tstates (fun _ pre st =>
    forallb (fun it => forallb (fun a => in_some_pre pre (i_prod it, i_pos it, a)) (i_follow it))
            (s_items st)).

Definition ck_red_kept : bool :=
  for_pairs (fun _ I st =>
    forallb (fun '(p, i, a) =>
               if i =? length (rhs g p) then
                 if is_aug_prod g p then has_action Accept (nth STOP (s_actions st) [])
                 else has_action (Reduce p i) (nth a (s_actions st) [])
               else true) I).

Definition rn_entry_b (st : state) (p len a : nat) : bool :=
  match t_rn T with
  | Some rn => match nth_error rn p with
               | Some k => (k <=? len) && item_la_b st p len a
               | None => false
               end
  | None => false
  end.

Definition ck_red_sound : bool :=
  for_tstates (fun _ pre st =>
    forallb (fun '(a, acts) =>
      forallb (fun act =>
        match act with
        | Shift _ => true
        | Reduce p len =>
            negb (is_aug_prod g p) &&
            (if len =? length (rhs g p) then in_some_pre pre (p, len, a)
             else (len <? length (rhs g p)) && rn_entry_b st p len a)
        | Accept =>
            (a =? STOP) &&
            existsb (fun c => existsb (fun '(p, i, _) => is_aug_prod g p && (i =? length (rhs g p)))
                                      (c_items C c)) pre
        end) acts) (indexed (s_actions st))).

Definition ck_rn_kept : bool :=
  match t_rn T with
  | None => true
  | Some rn =>
      forallb (fun st =>
        forallb (fun it =>
          let p := i_prod it in
          let len := i_pos it in
          if is_aug_prod g p then true
          else match nth_error rn p with
               | None => false
               | Some k =>
                   if (k <=? len) && (len <? length (rhs g p))
                   then forallb (fun a => has_action (Reduce p len) (nth a (s_actions st) [])) (i_follow it)
                   else true
               end) (s_items st)) (t_states T)
  end.

Fixpoint rn_len (N : list nat) (l : list nat) : nat :=
  match l with
  | [] => 0
  | x :: r => let k := rn_len N r in
              if (k =? 0) && memb x N then 0 else S k
  end.

Definition ck_rn_len : bool :=
  match t_rn T with
  | None => true
  | Some rn =>
      match nullable_set g with
      | None => false
      | Some N =>
          (length rn =? length (g_prods g)) &&
          forallb (fun '(p, pr) => match nth_error rn p with
                                   | Some k => k =? rn_len N (p_rhs pr)
                                   | None => false
                                   end) (indexed (g_prods g))
      end
  end.

Fixpoint nodup_actions_b (l : list action) : bool :=
  match l with
  | [] => true
  | x :: r => negb (has_action x r) && nodup_actions_b r
  end.

Definition ck_nodup : bool :=
  forallb (fun st => forallb nodup_actions_b (s_actions st)) (t_states T).

(* items of a table state mention existing productions only when an rn table is present
   (keeps ck_rn_kept meaningful) *)
Definition ck_items_wf : bool :=
  forallb (fun st => forallb (item_wf_b g) (s_items st)) (t_states T).

(* the named sub-checkers, in this order (gen/c04.py reads the list) *)
Definition compress_parts_with : list bool :=
  [ shape_b g T; ck_len; ck_start; ck_trans; ck_onto; ck_core; ck_la_kept; ck_la_sound;
    ck_red_kept; ck_red_sound; ck_rn_kept; ck_rn_len; ck_nodup; ck_items_wf ].

Definition compress_with : bool := forallb (fun b => b) compress_parts_with.

(* is R functional (the map h of DESIGN.md)? statistics only *)
Definition functional_b : bool :=
  forallb (fun l => match l with [] => true | [_] => true | _ => false end) rl.

End Check.

Definition compress_parts (g : grammar) (C : canon) (T : table) : list bool :=
  compress_parts_with g C T (walk_rel g C T).

Definition compress_b (g : grammar) (C : canon) (T : table) : bool :=
  compress_with g C T (walk_rel g C T).

(* ------------------------------------------------------------------ *)
(* LALR(1): the full merge of ALL same-core canonical states           *)

Inductive aact := AShift | AReduce (p : nat) | AAccept.

Definition aact_eqb (x y : aact) : bool :=
  match x, y with
  | AShift, AShift => true
  | AReduce p, AReduce q => p =? q
  | AAccept, AAccept => true
  | _, _ => false
  end.

(* action x is in cell (class of c, a) of the LALR(1) automaton obtained by merging every
   canonical state with the core of c *)
Inductive lalr_act (g : grammar) (C : canon) (c a : nat) : aact -> Prop :=
| LShift c' : c_goto C c a = Some c' -> lalr_act g C c a AShift
| LReduce c' p : c' < c_n C -> c_same_core C c c' -> is_aug_prod g p = false ->
                 In (p, length (rhs g p), a) (c_items C c') -> lalr_act g C c a (AReduce p)
| LAccept c' p b : c' < c_n C -> c_same_core C c c' -> is_aug_prod g p = true -> a = STOP ->
                   In (p, length (rhs g p), b) (c_items C c') -> lalr_act g C c a AAccept.

Definition lalr_conflict_free (g : grammar) (C : canon) : Prop :=
  forall c a x y, c < c_n C -> lalr_act g C c a x -> lalr_act g C c a y -> x = y.

(* executable version *)
Fixpoint core_of (I : cstate) : list (nat * nat) :=
  match I with
  | [] => []
  | (p, i, _) :: r =>
      let cr := core_of r in
      match cr with
      | [] => [(p, i)]
      | (q, j) :: _ => if (p =? q) && (i =? j) then cr else (p, i) :: cr
      end
  end.

Fixpoint core_sorted_b (l : list (nat * nat)) : bool :=
  match l with
  | [] => true
  | (p, i) :: r => match r with
                   | [] => true
                   | (q, j) :: _ => ((p <? q) || ((p =? q) && (i <? j))) && core_sorted_b r
                   end
  end.

Fixpoint core_eqb (l1 l2 : list (nat * nat)) : bool :=
  match l1, l2 with
  | [], [] => true
  | (p, i) :: r1, (q, j) :: r2 => if (p =? q) && (i =? j) then core_eqb r1 r2 else false
  | _, _ => false
  end.

(* abstract actions a single canonical state contributes, keyed by lookahead *)
Definition cstate_acts (g : grammar) (row : list (nat * nat)) (I : cstate) : list (nat * aact) :=
  map (fun '(X, _) => (X, AShift)) row ++
  flat_map (fun '(p, i, a) =>
              if i =? length (rhs g p) then
                if is_aug_prod g p then [(STOP, AAccept)] else [(a, AReduce p)]
              else []) I.

Definition acts_compatible (l1 l2 : list (nat * aact)) : bool :=
  forallb (fun '(a, x) => forallb (fun '(b, y) => if a =? b then aact_eqb x y else true) l2) l1.

Definition lalr_conflict_free_b (g : grammar) (C : canon) : bool :=
  (length (c_trans C) =? c_n C) &&
  let all := map (fun '(row, Ic) => (core_of Ic, cstate_acts g row Ic))
                 (combine (c_trans C) (c_states C)) in
  forallb (fun '(k, _) => core_sorted_b k) all &&
  forallb (fun '(k1, a1) =>
             forallb (fun '(k2, a2) => if core_eqb k1 k2 then acts_compatible a1 a2 else true) all)
          all.

(* number of conflicting cells of a table = what get_conflicts counts as non-empty *)
Definition table_conflict_free_b (T : table) : bool :=
  forallb (fun st => forallb (fun acts => length acts <=? 1) (s_actions st)) (t_states T).
