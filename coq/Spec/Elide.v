(* "Trailing children that derive the empty string may be elided" (C03, C07).

   A right-nulled reduction of the RN table builds a node with FEWER children
   than the production's right-hand side: the missing trailing symbols are
   nullable and derive the empty string.  [elide] is the normal form that
   removes, bottom-up, every trailing child whose yield is empty; two trees are
   equal modulo right-nulled elision iff their normal forms are equal.

   [atree] is the same with an annotation (span start/end as byte/line/column,
   token value bytes) on every node: used by C07 to compare the trees of the
   two runtimes including positions and values. *)
From RV Require Export Spec.Grammar Spec.TreeCheck.

Definition empty_yield (t : tree) : bool :=
  match yield t with [] => true | _ => false end.

(* drop the maximal suffix of elements satisfying f *)
Fixpoint strip_trailing {A} (f : A -> bool) (l : list A) : list A :=
  match l with
  | [] => []
  | x :: xs =>
      match strip_trailing f xs with
      | [] => if f x then [] else [x]
      | r => x :: r
      end
  end.

Fixpoint elide (t : tree) : tree :=
  match t with
  | Leaf a => Leaf a
  | Node p cs => Node p (strip_trailing empty_yield (map elide cs))
  end.

Definition tree_eq_mod_rn (t1 t2 : tree) : Prop := elide t1 = elide t2.
Definition tree_eq_mod_rn_b (t1 t2 : tree) : bool := tree_eqb (elide t1) (elide t2).

(* The relation the normal form decides: the least equivalence that is a
   congruence for children and drops one trailing child with empty yield. *)
Inductive rn_eq : tree -> tree -> Prop :=
| rn_refl t : rn_eq t t
| rn_sym t1 t2 : rn_eq t1 t2 -> rn_eq t2 t1
| rn_trans t1 t2 t3 : rn_eq t1 t2 -> rn_eq t2 t3 -> rn_eq t1 t3
| rn_drop p cs c : yield c = [] -> rn_eq (Node p (cs ++ [c])) (Node p cs)
| rn_cong p pre c c' post :
    rn_eq c c' -> rn_eq (Node p (pre ++ c :: post)) (Node p (pre ++ c' :: post)).

(* multiset equality of two tree lists modulo elision (order-insensitive
   comparison of a real forest with the enumerator's answer) *)
Fixpoint remove_first (x : tree) (l : list tree) : option (list tree) :=
  match l with
  | [] => None
  | y :: ys =>
      if tree_eqb x y then Some ys
      else match remove_first x ys with Some r => Some (y :: r) | None => None end
  end.

Fixpoint multiset_eqb (l1 l2 : list tree) : bool :=
  match l1 with
  | [] => match l2 with [] => true | _ => false end
  | x :: xs =>
      match remove_first x l2 with
      | Some r => multiset_eqb xs r
      | None => false
      end
  end.

Definition forest_eq_mod_rn_b (l1 l2 : list tree) : bool :=
  multiset_eqb (map elide l1) (map elide l2).

(* ------------------------------------------------------------------ *)
(* Annotated trees *)
Inductive atree :=
| ALeaf (kind : nat) (info : list nat)
| ANode (prod : nat) (info : list nat) (cs : list atree).

Fixpoint erase (t : atree) : tree :=
  match t with
  | ALeaf k _ => Leaf k
  | ANode p _ cs => Node p (map erase cs)
  end.

Definition aempty_yield (t : atree) : bool := empty_yield (erase t).

Fixpoint aelide (t : atree) : atree :=
  match t with
  | ALeaf k i => ALeaf k i
  | ANode p i cs => ANode p i (strip_trailing aempty_yield (map aelide cs))
  end.

Fixpoint atree_eqb (t1 t2 : atree) : bool :=
  match t1, t2 with
  | ALeaf a i, ALeaf b j => (a =? b) && list_eqb i j
  | ANode p i cs, ANode q j ds =>
      (p =? q) && list_eqb i j &&
      (fix go (l1 l2 : list atree) : bool :=
         match l1, l2 with
         | [], [] => true
         | x :: xs, y :: ys => atree_eqb x y && go xs ys
         | _, _ => false
         end) cs ds
  | _, _ => false
  end.

Definition atree_eq_mod_rn (t1 t2 : atree) : Prop := aelide t1 = aelide t2.
Definition atree_eq_mod_rn_b (t1 t2 : atree) : bool := atree_eqb (aelide t1) (aelide t2).

(* forget the annotation of every node whose yield is empty (used only to
   CLASSIFY a difference: "the trees differ only in the spans of empty nodes") *)
Fixpoint blank_empty (t : atree) : atree :=
  match t with
  | ALeaf k i => ALeaf k i
  | ANode p i cs =>
      ANode p (if aempty_yield t then [] else i) (map blank_empty cs)
  end.
