(* What "the equivalent API calls" of an rcomp command line are (property C17).
   Written by hand from `rcomp --help` (the doc comments of the clap struct in main.rs) and
   the doc comments of the Settings methods; independent of the order main() happens to use.
   Executable definitions only. *)
From RV Require Import Util Model.Cli Model.CliGen.

(* the API as the code implements it (generated setters, generated default) *)
Definition settings_of_api (ev : env) (calls : list setter_call) : outcome :=
  run_calls (gen_apply ev) calls (gen_default ev).

(* rcomp: Settings::new() followed by the chain of main() *)
Definition settings_of_cli (ev : env) (c : cli) : outcome :=
  settings_of_api ev (cli_chain c).

Definition opt {A} (o : option A) (f : A -> setter_call) : list setter_call :=
  match o with Some x => [f x] | None => [] end.

(* One API call per command line option, in the order of `rcomp --help`:
     -f/--force                     Settings::force            "Regenerate output actions file even if exists"
     --dot                          Settings::dot
     -n/--noactions                 Settings::actions(false)   "Do not generate actions"
     --trace                        Settings::trace
     -o/--outdir-root DIR           Settings::out_dir_root
     -a/--outdir-actions-root DIR   Settings::out_dir_actions_root
     --prefer-shifts                Settings::prefer_shifts
     --no-shifts-over-empty         Settings::prefer_shifts_over_empty(false)
     -t/--table-type                Settings::table_type
     -p/--parser-algo               Settings::parser_algo
     -g/--generator-table-type      Settings::generator_table_type
     -l/--lexer-type                Settings::lexer_type
     -i/--input-type                Settings::input_type
     -b/--builder-type              Settings::builder_type
     --builder-loc-info             Settings::builder_loc_info
     --lexical-disamb-most-specific[=B]   Settings::lexical_disamb_most_specific   (only if given)
     --lexical-disamb-longest-match[=B]   Settings::lexical_disamb_longest_match   (only if given)
     --lexical-disamb-grammar-order[=B]   Settings::lexical_disamb_grammar_order   (only if given)
     --fancy-regex                  Settings::fancy_regex
     --partial-parse                Settings::partial_parse
     --no-skip-ws                   Settings::skip_ws(false)
     --print-table                  Settings::print_table
     -e/--exclude                   Settings::exclude                                              *)
Definition api_of (c : cli) : list setter_call :=
  [C_force (c_force c); C_dot (c_dot c); C_actions (negb (c_noactions c)); C_trace (c_trace c)]
  ++ opt (c_outdir_root c) C_out_dir_root
  ++ opt (c_outdir_actions_root c) C_out_dir_actions_root
  ++ [C_prefer_shifts (c_prefer_shifts c);
      C_prefer_shifts_over_empty (negb (c_no_shifts_over_empty c));
      C_table_type (c_table_type c);
      C_parser_algo (c_parser_algo c);
      C_generator_table_type (c_generator_table_type c);
      C_lexer_type (c_lexer_type c);
      C_input_type (c_input_type c);
      C_builder_type (c_builder_type c);
      C_builder_loc_info (c_builder_loc_info c)]
  ++ opt (c_lexical_disamb_most_specific c) C_lexical_disamb_most_specific
  ++ opt (c_lexical_disamb_longest_match c) C_lexical_disamb_longest_match
  ++ opt (c_lexical_disamb_grammar_order c) C_lexical_disamb_grammar_order
  ++ [C_fancy_regex (c_fancy_regex c);
      C_partial_parse (c_partial_parse c);
      C_skip_ws (negb (c_no_skip_ws c));
      C_print_table (c_print_table c);
      C_exclude (c_exclude c)].

(* "every option given on the command line has the effect its help text states" *)
Definition effective_always (ev : env) (c : cli) (s : settings) : Prop :=
  s_force s = c_force c /\ s_dot s = c_dot c /\ s_actions s = negb (c_noactions c) /\
  s_trace s = (if c_trace c then true else e_trace ev) /\
  s_generator_table_type s = c_generator_table_type c /\ s_lexer_type s = c_lexer_type c /\
  s_input_type s = c_input_type c /\ s_builder_type s = c_builder_type c /\
  s_builder_loc_info s = c_builder_loc_info c /\ s_fancy_regex s = c_fancy_regex c /\
  s_partial_parse s = c_partial_parse c /\ s_skip_ws s = negb (c_no_skip_ws c) /\
  s_print_table s = c_print_table c /\ s_exclude s = c_exclude c /\
  s_parser_algo s = c_parser_algo c /\
  (forall b, c_lexical_disamb_most_specific c = Some b -> s_lexical_disamb_most_specific s = b) /\
  (forall b, c_lexical_disamb_longest_match c = Some b -> s_lexical_disamb_longest_match s = b) /\
  (forall b, c_lexical_disamb_grammar_order c = Some b -> s_lexical_disamb_grammar_order s = b) /\
  (forall p, c_outdir_root c = Some p -> s_out_dir_root s = Some p) /\
  (forall p, c_outdir_actions_root c = Some p -> s_out_dir_actions_root s = Some p).

Definition effective_shift_table (c : cli) (s : settings) : Prop :=
  s_prefer_shifts s = c_prefer_shifts c /\
  s_prefer_shifts_over_empty s = negb (c_no_shifts_over_empty c) /\
  s_table_type s = c_table_type c.

(* an enumerable sample of command lines used by the check to SEARCH for a concrete failing
   one when a theorem about the generated chain stops compiling: every combination of the
   options some setter branches on, times "all other flags off / exactly one other flag on" *)
Definition obools : list (option bool) := [None; Some true; Some false].
Definition opaths : list (option path) := [None; Some 7].

Definition flip (k : nat) (c : cli) : cli :=
  mkCli (if k =? 1 then negb (c_force c) else c_force c)
        (if k =? 2 then negb (c_dot c) else c_dot c)
        (if k =? 3 then negb (c_noactions c) else c_noactions c)
        (if k =? 4 then negb (c_trace c) else c_trace c)
        (c_grammar_file_or_dir c) (c_outdir_root c) (c_outdir_actions_root c)
        (if k =? 5 then negb (c_prefer_shifts c) else c_prefer_shifts c)
        (if k =? 6 then negb (c_no_shifts_over_empty c) else c_no_shifts_over_empty c)
        (if k =? 7 then LALR else if k =? 8 then LALR_RN else c_table_type c)
        (c_parser_algo c)
        (if k =? 9 then GArrays else c_generator_table_type c)
        (if k =? 10 then LexCustom else c_lexer_type c)
        (if k =? 11 then 5 else c_input_type c)
        (if k =? 12 then BGeneric else if k =? 13 then BCustom else c_builder_type c)
        (if k =? 14 then negb (c_builder_loc_info c) else c_builder_loc_info c)
        (c_lexical_disamb_most_specific c) (c_lexical_disamb_longest_match c)
        (c_lexical_disamb_grammar_order c)
        (if k =? 15 then negb (c_fancy_regex c) else c_fancy_regex c)
        (if k =? 16 then negb (c_partial_parse c) else c_partial_parse c)
        (if k =? 17 then negb (c_no_skip_ws c) else c_no_skip_ws c)
        (if k =? 18 then negb (c_print_table c) else c_print_table c)
        (if k =? 19 then 3 else c_exclude c)
        (c_verbosity c).

Definition with_branching (a : parser_algo) (ms lm go : option bool) (o1 o2 : option path) (c : cli) : cli :=
  mkCli (c_force c) (c_dot c) (c_noactions c) (c_trace c) (c_grammar_file_or_dir c) o1 o2
        (c_prefer_shifts c) (c_no_shifts_over_empty c) (c_table_type c) a (c_generator_table_type c)
        (c_lexer_type c) (c_input_type c) (c_builder_type c) (c_builder_loc_info c) ms lm go
        (c_fancy_regex c) (c_partial_parse c) (c_no_skip_ws c) (c_print_table c) (c_exclude c)
        (c_verbosity c).

Definition sample_cli : list cli :=
  flat_map (fun a => flat_map (fun ms => flat_map (fun lm => flat_map (fun go =>
  flat_map (fun o1 => flat_map (fun o2 =>
    map (fun k => flip k (with_branching a ms lm go o1 o2 (cli_default 1))) (seq 0 20))
  opaths) opaths) obools) obools) obools) [LR; GLR].
