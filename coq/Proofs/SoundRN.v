(* Soundness of the nondeterministic LR machine (Model/NLR.v) for every
   multi-action, right-nulled table that passes [sound_rn_b]: EVERY accepting
   run returns a derivation tree of the consumed input.  The generic part
   (reading the validator, the stack invariant) follows Proofs/Sound.v. *)
From RV Require Import Model.LR Model.NLR Spec.Validators Spec.ValidatorsRN Proofs.Enumerate.
From RV Require Proofs.Sound.

(* the derivations of the empty string chosen for a nullable tail *)
Lemma eps_trees_sound g : forall xs ts,
  eps_trees g xs = Some ts ->
  Forall (valid_tree g) ts /\ map (root g) ts = xs /\ flat_map yield ts = [].
Proof.
  induction xs as [|x xs IH]; intros ts H; simpl in H.
  - inversion H; subst. repeat split; constructor.
  - destruct (eps_tree g x) as [t|] eqn:Et; [|discriminate].
    destruct (eps_trees g xs) as [ts'|] eqn:Ets; [|discriminate].
    inversion H; subst; clear H. destruct (IH ts' eq_refl) as [Hv [Hr Hy]].
    unfold eps_tree in Et.
    assert (Hin : In t (all_trees (eps_bound g) g x [])).
    { destruct (all_trees (eps_bound g) g x []) as [|t0 l]; [discriminate|].
      simpl in Et. inversion Et; subst. left; reflexivity. }
    apply all_trees_sound_h in Hin. destruct Hin as [Hvt [Hrt [Hyt _]]].
    repeat split.
    + constructor; assumption.
    + simpl. rewrite Hrt, Hr. reflexivity.
    + simpl. rewrite Hyt, Hy. reflexivity.
Qed.

Section SoundRN.
Variable g : grammar.
Variable T : table.
Hypothesis Hwf : wf_grammar_b g = true.
Hypothesis Hsound : sound_rn_b g T = true.

Definition has_item (s p i : nat) : Prop :=
  exists st, get_state T s = Some st /\ has_itemb st p i = true.

Definition trans (s X s' : nat) : Prop :=
  exists st, get_state T s = Some st /\ In (X, s') (trans_list (g_nterm g) st).

(* ---------- reading the validator ---------- *)
Lemma shape_ok : shape_b g T = true.
Proof. unfold sound_rn_b in Hsound. apply andb_true_iff in Hsound. tauto. Qed.

Lemma sound_state s st : get_state T s = Some st -> sound_state_rn_b g T s st = true.
Proof.
  intros Hs. unfold sound_rn_b in Hsound. apply andb_true_iff in Hsound. destruct Hsound as [_ H].
  rewrite forallb_forall in H. specialize (H (s, st)). apply H. apply In_indexed. exact Hs.
Qed.

Lemma shape_state s st : get_state T s = Some st -> shape_state_b g T st = true.
Proof.
  intros Hs. pose proof shape_ok as H. unfold shape_b in H.
  apply andb_true_iff in H. destruct H as [_ H]. rewrite forallb_forall in H.
  apply H. eapply nth_error_In. exact Hs.
Qed.

Lemma has_itemb_spec st p i :
  has_itemb st p i = true -> exists it, In it (s_items st) /\ i_prod it = p /\ i_pos it = i.
Proof.
  unfold has_itemb, find_item. destruct (find _ _) eqn:E; [|discriminate]. intros _.
  apply find_some in E. destruct E as [Hin Hb]. apply andb_true_iff in Hb.
  rewrite !Nat.eqb_eq in Hb. exists i0. tauto.
Qed.

Ltac split_sound H :=
  unfold sound_state_rn_b in H;
  repeat (apply andb_true_iff in H; let H' := fresh "Hs" in destruct H as [H H']).

Lemma item_wf s p i :
  has_item s p i -> exists pr, get_prod g p = Some pr /\ i <= length (p_rhs pr).
Proof.
  intros [st [Hs Hb]]. pose proof (sound_state s st Hs) as H. split_sound H.
  apply has_itemb_spec in Hb. destruct Hb as [it [Hin [Hp Hi]]].
  rewrite forallb_forall in H. specialize (H it Hin). unfold item_wf_b in H.
  rewrite Hp in H. destruct (get_prod g p) as [pr|]; [|discriminate].
  exists pr. split; [reflexivity|]. apply Nat.leb_le in H. lia.
Qed.

Lemma start_items s p i : is_start_state T s = true -> has_item s p i -> i = 0.
Proof.
  intros Hst [st [Hs Hb]]. pose proof (sound_state s st Hs) as H. split_sound H.
  rewrite Hst in Hs3. apply has_itemb_spec in Hb. destruct Hb as [it [Hin [Hp Hi]]].
  rewrite forallb_forall in Hs3. specialize (Hs3 it Hin). apply Nat.eqb_eq in Hs3. lia.
Qed.

Lemma aug_item_state s : has_item s 0 0 -> s = 0.
Proof.
  intros [st [Hs Hb]]. pose proof (sound_state s st Hs) as H. split_sound H.
  apply has_itemb_spec in Hb. destruct Hb as [it [Hin [Hp Hi]]].
  rewrite forallb_forall in Hs2. specialize (Hs2 it Hin). unfold start_item_ok_b in Hs2.
  rewrite Hp, Hi in Hs2. simpl in Hs2. apply Nat.eqb_eq in Hs2. exact Hs2.
Qed.

Lemma augl_item_state s l : g_layout g = Some l -> has_item s 1 0 -> t_layout T = Some s.
Proof.
  intros Hl [st [Hs Hb]]. pose proof (sound_state s st Hs) as H. split_sound H.
  apply has_itemb_spec in Hb. destruct Hb as [it [Hin [Hp Hi]]].
  rewrite forallb_forall in Hs2. specialize (Hs2 it Hin). unfold start_item_ok_b in Hs2.
  rewrite Hp, Hi, Hl in Hs2. simpl in Hs2. destruct (t_layout T); [|discriminate].
  apply Nat.eqb_eq in Hs2. congruence.
Qed.

Lemma trans_ok s X s' :
  trans s X s' ->
  is_start_state T s' = false /\
  (forall p i, has_item s' p (S i) -> has_item s p i /\ nth_error (rhs g p) i = Some X).
Proof.
  intros [st [Hs Hin]]. pose proof (sound_state s st Hs) as H. split_sound H.
  rewrite forallb_forall in Hs1. specialize (Hs1 (X, s') Hin). unfold trans_ok_b in Hs1.
  destruct (get_state T s') as [st'|] eqn:Hs'; [|discriminate].
  apply andb_true_iff in Hs1. destruct Hs1 as [Ha Hb]. apply andb_true_iff in Ha. destruct Ha as [_ Ha].
  split; [apply negb_true_iff in Ha; exact Ha|].
  intros p i [st2 [Hs2' Hit]]. rewrite Hs' in Hs2'. inversion Hs2'; subst st2.
  apply has_itemb_spec in Hit. destruct Hit as [it [Hitin [Hp Hi]]].
  rewrite forallb_forall in Hb. specialize (Hb it Hitin). rewrite Hi, Hp in Hb.
  apply andb_true_iff in Hb. destruct Hb as [Hb1 Hb2]. split.
  - exists st. split; assumption.
  - destruct (nth_error (rhs g p) i) as [Y|]; [|discriminate]. apply Nat.eqb_eq in Hb2. congruence.
Qed.

Lemma cell_In_state s a act :
  In act (cell T s a) ->
  exists st, get_state T s = Some st /\ nth_error (s_actions st) a = Some (cell T s a).
Proof.
  unfold cell. destruct (get_state T s) as [st|] eqn:Hs; [|intros []].
  intros Hin. exists st. split; [reflexivity|]. eapply nth_In_nonempty. exact Hin.
Qed.

Lemma cell_shift_trans s a s' : In (Shift s') (cell T s a) -> trans s a s'.
Proof.
  intros Hin. destruct (cell_In_state _ _ _ Hin) as [st [Hs Hn]].
  exists st. split; [exact Hs|]. unfold trans_list. apply in_or_app. left.
  apply in_flat_map. exists (a, cell T s a). split; [apply In_indexed; exact Hn|].
  unfold shifts_of. apply in_flat_map. exists (Shift s'). split; [exact Hin|left; reflexivity].
Qed.

Lemma goto_trans s n s' : goto T s n = Some s' -> trans s (g_nterm g + n) s'.
Proof.
  unfold goto. destruct (get_state T s) as [st|] eqn:Hs; [|discriminate].
  destruct (nth_error (s_gotos st) n) as [o|] eqn:Hn; [|discriminate]. intros ->.
  exists st. split; [exact Hs|]. unfold trans_list. apply in_or_app. right.
  apply in_flat_map. exists (n, Some s'). split; [apply In_indexed; exact Hn|left; reflexivity].
Qed.

Lemma action_ok s a act :
  In act (cell T s a) -> exists st, get_state T s = Some st /\ action_ok_rn_b g T st a act = true.
Proof.
  intros Hin. destruct (cell_In_state _ _ _ Hin) as [st [Hs Hn]].
  exists st. split; [exact Hs|]. pose proof (sound_state s st Hs) as H. split_sound H.
  rewrite forallb_forall in Hs0. specialize (Hs0 (a, cell T s a)). simpl in Hs0.
  rewrite forallb_forall in Hs0. apply Hs0; [apply In_indexed; exact Hn|exact Hin].
Qed.

Lemma expected_lt s a : In a (expected T s) -> a < g_nterm g /\ cell T s a <> [].
Proof.
  unfold expected, cell. destruct (get_state T s) as [st|] eqn:Hs; [|intros []].
  intros Hin. pose proof (shape_state s st Hs) as H. unfold shape_state_b in H.
  repeat (apply andb_true_iff in H; let H' := fresh "Hh" in destruct H as [H H']).
  rewrite subsetb_spec in Hh0. specialize (Hh0 a Hin). unfold nonempty_cells in Hh0.
  apply in_flat_map in Hh0. destruct Hh0 as [[a' acts] [Hidx Hne]].
  apply In_indexed in Hidx. destruct acts as [|x acts]; [destruct Hne|].
  destruct Hne as [<-|[]]. apply Nat.eqb_eq in H. split.
  - rewrite <- H. apply nth_error_Some. congruence.
  - erewrite nth_error_nth_default by exact Hidx. discriminate.
Qed.

(* ---------- grammar facts ---------- *)
Lemma wf_prod0 : exists p0, get_prod g 0 = Some p0 /\ p_lhs p0 = g_aug g /\ p_rhs p0 = [g_start g].
Proof.
  pose proof Hwf as H. unfold wf_grammar_b in H. unfold get_prod.
  destruct (g_prods g) as [|p0 rest]; [discriminate|].
  exists p0. split; [reflexivity|].
  repeat (apply andb_true_iff in H; let H' := fresh "Hw" in destruct H as [H H']).
  apply Nat.eqb_eq in H. split; [exact H|].
  destruct (p_rhs p0) as [|x [|y r]]; try discriminate. apply Nat.eqb_eq in Hw4. congruence.
Qed.

Lemma wf_layout_state_ne0 l : t_layout T = Some l -> l <> 0.
Proof.
  intros Hl. pose proof shape_ok as H. unfold shape_b in H. rewrite Hl in H.
  apply andb_true_iff in H. destruct H as [H _]. apply andb_true_iff in H. destruct H as [_ H].
  destruct (g_layout g); [|discriminate]. apply andb_true_iff in H. destruct H as [H _].
  apply Nat.ltb_lt in H. lia.
Qed.

(* ---------- the stack invariant ---------- *)
Inductive linked (s0 : nat) : list nat -> list tree -> Prop :=
| L_base : linked s0 [s0] []
| L_cons s s' stk t ts :
    trans s' (root g t) s -> valid_tree g t -> linked s0 (s' :: stk) ts ->
    linked s0 (s :: s' :: stk) (t :: ts).

Lemma linked_length s0 stk ts : linked s0 stk ts -> length stk = S (length ts).
Proof. induction 1; simpl; auto. Qed.

Lemma linked_last s0 stk ts : linked s0 stk ts -> last stk 0 = s0 /\ stk <> [].
Proof.
  induction 1; simpl; [split; [reflexivity|discriminate]|].
  destruct IHlinked as [IH _]. split; [exact IH|discriminate].
Qed.

Lemma linked_skipn s0 n : forall stk ts,
  linked s0 stk ts -> n <= length ts -> linked s0 (skipn n stk) (skipn n ts).
Proof.
  induction n; intros stk ts Hl Hn; [exact Hl|].
  inversion Hl; subst; simpl in Hn; [lia|]. simpl. apply IHn; [assumption|lia].
Qed.

Lemma linked_valid s0 stk ts : linked s0 stk ts -> Forall (valid_tree g) ts.
Proof. induction 1; constructor; auto. Qed.

Lemma linked_top_items s0 : is_start_state T s0 = true -> forall i s stk ts p,
  linked s0 (s :: stk) ts -> has_item s p i ->
  i <= length ts /\
  (exists si, nth_error (s :: stk) i = Some si /\ has_item si p 0) /\
  map (root g) (rev (firstn i ts)) = firstn i (rhs g p).
Proof.
  intros Hs0. induction i as [|i IH]; intros s stk ts p Hl Hit.
  - split; [lia|]. split; [exists s; split; [reflexivity|exact Hit]|reflexivity].
  - inversion Hl as [|s1 s2 stk1 t1 ts1 Htr Hv Hl']; subst.
    + apply (start_items _ _ _ Hs0) in Hit. discriminate.
    + destruct (trans_ok _ _ _ Htr) as [_ Hpred]. destruct (Hpred p i Hit) as [Hit' Hnth].
      destruct (IH _ _ _ _ Hl' Hit') as [Hle [[si [Hsi Hsi0]] Hmap]].
      split; [simpl; lia|]. split; [exists si; split; [exact Hsi|exact Hsi0]|].
      simpl. rewrite map_app, Hmap. simpl.
      symmetry. apply firstn_S_nth_error. exact Hnth.
Qed.

(* only the bottom of a linked stack is a start state *)
Lemma linked_start_bottom s0 stk ts i si :
  linked s0 stk ts -> nth_error stk i = Some si -> is_start_state T si = true -> i = length ts.
Proof.
  intros Hl. revert i. induction Hl; intros i Hn Hst.
  - destruct i; [reflexivity|]. destruct i; discriminate.
  - destruct i.
    + simpl in Hn. inversion Hn; subst. destruct (trans_ok _ _ _ H) as [Hns _]. congruence.
    + simpl in Hn. simpl. f_equal. apply IHHl; assumption.
Qed.

Definition yields (ts : list tree) : list nat := flat_map yield (rev ts).

Record Inv (w : list nat) (c : conf) : Prop := {
  inv_linked : linked 0 (c_stk c) (c_trs c);
  inv_yield : yields (c_trs c) ++ c_inp c = w;
  inv_pos : c_pos c = length (yields (c_trs c))
}.

Lemma yields_cons t ts : yields (t :: ts) = yields ts ++ yield t.
Proof. unfold yields. simpl. rewrite flat_map_app. simpl. rewrite app_nil_r. reflexivity. Qed.

Lemma yields_split n ts : yields ts = yields (skipn n ts) ++ yields (firstn n ts).
Proof.
  unfold yields. rewrite <- (firstn_skipn n ts) at 1. rewrite rev_app_distr, flat_map_app. reflexivity.
Qed.


Lemma is_start_0 : is_start_state T 0 = true.
Proof. reflexivity. Qed.

Lemma act_step_inv partial w c s stk a real act c' :
  Inv w c -> c_stk c = s :: stk -> next_tok T partial s (c_inp c) = Tok a real ->
  In act (cell T s a) -> act_step g T c a real act = Next c' -> Inv w c'.
Proof.
  intros [Hl Hy Hp] Hstk Htok Hin Hstep.
  destruct (Sound.next_tok_cases T _ _ _ _ _ Htok) as [Hexp Hcase].
  destruct (action_ok _ _ _ Hin) as [st [Hs Hok]].
  rewrite Hstk in Hl.
  destruct act as [s'|p len|]; simpl in Hstep.
  - (* shift *)
    inversion Hstep; subst c'; clear Hstep. simpl in Hok. apply Nat.ltb_lt in Hok.
    destruct Hcase as [[-> [r Hr]]|[_ [Ha _]]]; [|unfold STOP in Ha; lia].
    constructor; simpl.
    + rewrite Hstk. constructor.
      * simpl. apply cell_shift_trans. exact Hin.
      * constructor. split; [exact Hok|]. apply (expected_lt s a Hexp).
      * exact Hl.
    + rewrite yields_cons. simpl. rewrite Hr in Hy. rewrite Hr. simpl. rewrite <- app_assoc. exact Hy.
    + rewrite yields_cons, app_length. simpl. lia.
  - (* (right-nulled) reduce *)
    rewrite Hstk in Hstep.
    destruct (length (s :: stk) <=? len) eqn:Hlen; [discriminate|]. apply Nat.leb_gt in Hlen.
    destruct (skipn len (s :: stk)) as [|from stk'] eqn:Hskip; [discriminate|].
    destruct (goto T from (lhs g p - g_nterm g)) as [s'|] eqn:Hgoto; [|discriminate].
    destruct (length (c_trs c) <? len) eqn:Hlen2; [discriminate|]. apply Nat.ltb_ge in Hlen2.
    destruct (eps_trees g (skipn len (rhs g p))) as [ets|] eqn:Heps; [|discriminate].
    inversion Hstep; subst c'; clear Hstep.
    simpl in Hok. apply andb_true_iff in Hok. destruct Hok as [Hok Hlhs].
    apply andb_true_iff in Hok. destruct Hok as [Hitem Hlen3].
    apply Nat.leb_le in Hlen3. apply Nat.ltb_lt in Hlhs.
    assert (Hit : has_item s p len) by (exists st; split; assumption).
    destruct (linked_top_items 0 is_start_0 _ _ _ _ _ Hl Hit) as [Hle [_ Hmap]].
    destruct (eps_trees_sound g _ _ Heps) as [Hev [Her Hey]].
    pose proof (linked_skipn 0 len _ _ Hl Hle) as Hl'. rewrite Hskip in Hl'.
    constructor; simpl.
    + destruct (item_wf _ _ _ Hit) as [pr [Hpr _]].
      assert (Hrhs : rhs g p = p_rhs pr) by (unfold rhs; rewrite Hpr; reflexivity).
      apply L_cons.
      * simpl. replace (lhs g p) with (g_nterm g + (lhs g p - g_nterm g)) by lia.
        apply goto_trans. exact Hgoto.
      * econstructor; [exact Hpr| |].
        -- rewrite <- Hrhs, map_app, Hmap, Her. apply firstn_skipn.
        -- apply Forall_app. split; [|exact Hev].
           apply Forall_rev. apply Forall_forall. intros x Hx.
           pose proof (linked_valid _ _ _ Hl) as Hv. rewrite Forall_forall in Hv. apply Hv.
           eapply In_firstn_In. exact Hx.
      * exact Hl'.
    + rewrite yields_cons. simpl. rewrite flat_map_app, Hey, app_nil_r.
      rewrite <- Hy, (yields_split len (c_trs c)). reflexivity.
    + rewrite Hp, yields_cons. simpl. rewrite flat_map_app, Hey, app_nil_r.
      rewrite (yields_split len (c_trs c)). reflexivity.
  - (* accept *)
    destruct (c_trs c); discriminate.
Qed.

Lemma act_step_done partial w c s stk a real act t k :
  Inv w c -> c_stk c = s :: stk -> next_tok T partial s (c_inp c) = Tok a real ->
  In act (cell T s a) -> act_step g T c a real act = Done (Ok t k) ->
  valid_tree g t /\ root g t = g_start g /\ yield t = firstn k w /\ k <= length w /\
  (partial = false -> ~ In STOP w -> k = length w).
Proof.
  intros [Hl Hy Hp] Hstk Htok Hin Hstep.
  destruct (Sound.next_tok_cases T _ _ _ _ _ Htok) as [Hexp Hcase].
  destruct (action_ok _ _ _ Hin) as [st [Hs Hok]].
  rewrite Hstk in Hl.
  destruct act as [s'|p len|]; simpl in Hstep.
  - discriminate.
  - rewrite Hstk in Hstep.
    destruct (length (s :: stk) <=? len); [discriminate|].
    destruct (skipn len (s :: stk)); [discriminate|].
    destruct (goto T n (lhs g p - g_nterm g)); [|discriminate].
    destruct (length (c_trs c) <? len); [discriminate|].
    destruct (eps_trees g (skipn len (rhs g p))); discriminate.
  - destruct (c_trs c) as [|t0 ts] eqn:Htrs; [discriminate|]. inversion Hstep; subst t0 k; clear Hstep.
    simpl in Hok. apply andb_true_iff in Hok. destruct Hok as [Ha Hitems]. apply Nat.eqb_eq in Ha. subst a.
    assert (Hone : ts = [] /\ root g t = g_start g).
    { apply orb_true_iff in Hitems. destruct Hitems as [Hi|Hi].
      - assert (Hit : has_item s 0 1) by (exists st; split; assumption).
        destruct (linked_top_items 0 is_start_0 _ _ _ _ _ Hl Hit) as [Hle [[si [Hsi Hsi0]] Hmap]].
        apply aug_item_state in Hsi0. subst si.
        pose proof (linked_start_bottom _ _ _ _ _ Hl Hsi is_start_0) as Hlen.
        simpl in Hlen. destruct ts; [|discriminate]. split; [reflexivity|].
        destruct wf_prod0 as [p0 [Hp0 [_ Hr0]]]. unfold rhs in Hmap. rewrite Hp0, Hr0 in Hmap.
        simpl in Hmap. inversion Hmap. reflexivity.
      - destruct (g_layout g) as [lsym|] eqn:Hlay; [|discriminate].
        assert (Hit : has_item s 1 1) by (exists st; split; assumption).
        destruct (linked_top_items 0 is_start_0 _ _ _ _ _ Hl Hit) as [Hle [[si [Hsi Hsi0]] Hmap]].
        pose proof (augl_item_state _ _ Hlay Hsi0) as Hls.
        assert (Hst : is_start_state T si = true).
        { unfold is_start_state. rewrite Hls. rewrite Nat.eqb_refl. apply orb_true_r. }
        pose proof (linked_start_bottom _ _ _ _ _ Hl Hsi Hst) as Hlen.
        simpl in Hlen. destruct ts; [|discriminate].
        inversion Hl as [|s1 s2 stk1 t1 ts1 Htr Hv1 Hl1]; subst. inversion Hl1; subst.
        simpl in Hsi. inversion Hsi; subst si.
        exfalso. eapply wf_layout_state_ne0; [exact Hls|reflexivity]. }
    destruct Hone as [-> Hroot].
    pose proof (linked_valid _ _ _ Hl) as Hv. apply Forall_inv in Hv.
    unfold yields in Hy, Hp. simpl in Hy, Hp. rewrite app_nil_r in Hy, Hp.
    split; [assumption|]. split; [exact Hroot|].
    split; [rewrite Hp, <- Hy; rewrite firstn_app, firstn_all, Nat.sub_diag; simpl; rewrite app_nil_r; reflexivity|].
    split; [rewrite Hp, <- Hy, app_length; lia|].
    intros Hpart Hno. destruct Hcase as [[_ [r Hr]]|[_ [_ [Hi|Hi]]]].
    + exfalso. apply Hno. rewrite <- Hy, Hr. apply in_or_app. right. left. reflexivity.
    + rewrite Hp, <- Hy, Hi, app_nil_r. reflexivity.
    + congruence.
Qed.

Lemma init_inv w : Inv w (init 0 w).
Proof. constructor; simpl; [constructor|reflexivity|reflexivity]. Qed.

Lemma nrun_sound partial w c t k :
  Inv w c -> nrun g T partial c t k ->
  valid_tree g t /\ root g t = g_start g /\ yield t = firstn k w /\ k <= length w /\
  (partial = false -> ~ In STOP w -> k = length w).
Proof.
  intros Hinv Hrun. induction Hrun as [c s stk a real act c' t k Hstk Htok Hin Hstep Hrun IH
                                      |c s stk a real act t k Hstk Htok Hin Hstep].
  - apply IH. eapply act_step_inv; eassumption.
  - eapply act_step_done; eassumption.
Qed.

Theorem nlr_sound_main partial w t k :
  nrun g T partial (init 0 w) t k ->
  valid_tree g t /\ root g t = g_start g /\ yield t = firstn k w /\ k <= length w /\
  (partial = false -> ~ In STOP w -> k = length w).
Proof. intros H. eapply nrun_sound; [apply init_inv|exact H]. Qed.

End SoundRN.

(* the enumeration only lists accepting runs *)
Lemma nruns_sound g T partial : forall fuel c t k,
  In (t, k) (nruns g T partial fuel c) -> nrun g T partial c t k.
Proof.
  induction fuel as [|fuel IH]; intros c t k H; simpl in H; [destruct H|].
  destruct (c_stk c) as [|s stk] eqn:Hstk; [destruct H|].
  destruct (next_tok T partial s (c_inp c)) as [a real|] eqn:Htok; [|destruct H].
  apply in_flat_map in H. destruct H as [act [Hin H]].
  destruct (act_step g T c a real act) as [c'|o] eqn:Hstep.
  - eapply NR_next; eauto.
  - destruct o; try (destruct H; fail). destruct H as [H|[]]. inversion H; subst.
    eapply NR_done; eauto.
Qed.

(* ... and, when no run was cut by the fuel, ALL of them *)
Lemma nruns_complete g T partial : forall fuel c t k,
  nruns_cut g T partial fuel c = false -> nrun g T partial c t k ->
  In (t, k) (nruns g T partial fuel c).
Proof.
  induction fuel as [|fuel IH]; intros c t k Hcut Hrun; simpl in Hcut; [discriminate|].
  simpl. destruct Hrun as [c s stk a real act c' t k Hstk Htok Hin Hstep Hrun
                          |c s stk a real act t k Hstk Htok Hin Hstep];
    rewrite Hstk in *; rewrite Htok in *; apply in_flat_map; exists act; (split; [exact Hin|]);
    rewrite Hstep.
  - apply IH; [|exact Hrun].
    destruct (nruns_cut g T partial fuel c') eqn:E; [|reflexivity].
    exfalso. assert (Hex : existsb (fun act0 => match act_step g T c a real act0 with
                                                  | Next c'0 => nruns_cut g T partial fuel c'0
                                                  | Done _ => false end) (cell T s a) = true).
    { apply existsb_exists. exists act. split; [exact Hin|]. rewrite Hstep. exact E. }
    congruence.
  - left. reflexivity.
Qed.

Lemma nlr_sound_top : forall g T partial w t k,
  wf_grammar_b g = true -> sound_rn_b g T = true ->
  nrun g T partial (init 0 w) t k ->
  valid_tree g t /\ root g t = g_start g /\ yield t = firstn k w /\ k <= length w /\
  (partial = false -> ~ In STOP w -> k = length w).
Proof. intros g T partial w t k Hwf Hs. exact (nlr_sound_main g T Hwf Hs partial w t k). Qed.

Lemma nruns_exact_main : forall g T partial fuel c t k,
  (In (t, k) (nruns g T partial fuel c) -> nrun g T partial c t k) /\
  (nruns_cut g T partial fuel c = false -> nrun g T partial c t k -> In (t, k) (nruns g T partial fuel c)).
Proof. intros. split; [apply nruns_sound | apply nruns_complete]. Qed.

Lemma nparse_derivations_main : forall g T fuel w t k,
  wf_grammar_b g = true -> sound_rn_b g T = true -> ~ In STOP w ->
  In (t, k) (nparse g T false fuel w) ->
  valid_tree g t /\ root g t = g_start g /\ yield t = w.
Proof.
  intros g T fuel w t k Hwf Hs Hno Hin. apply nruns_sound in Hin.
  destruct (nlr_sound_top g T false w t k Hwf Hs Hin) as [Hv [Hr [Hy [Hk Hfull]]]].
  split; [exact Hv|]. split; [exact Hr|].
  rewrite Hy, (Hfull eq_refl Hno). apply firstn_all.
Qed.
