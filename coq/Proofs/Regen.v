(* Lemmas about Model/Regen.v (the actions-file regeneration) for property C18. *)
From RV Require Import Util Model.Regen Spec.RegenSpec.

(* ------------------------------------------------------------------ small list facts *)
Lemma filter_flat_map {A B} (p : B -> bool) (f : A -> list B) (l : list A) :
  filter p (flat_map f l) = flat_map (fun x => filter p (f x)) l.
Proof.
  induction l as [|x l IH]; [reflexivity|].
  cbn [flat_map]. rewrite filter_app, IH. reflexivity.
Qed.

Lemma flat_map_ext_in {A B} (f g : A -> list B) (l : list A) :
  (forall x, In x l -> f x = g x) -> flat_map f l = flat_map g l.
Proof.
  induction l as [|x l IH]; intros H; [reflexivity|].
  cbn [flat_map]. rewrite (H x (or_introl eq_refl)), IH; [reflexivity|].
  intros y Hy. apply H. right. exact Hy.
Qed.

Lemma filter_const_in {A} (p : A -> bool) (c : bool) (l : list A) :
  (forall x, In x l -> p x = c) -> filter p l = if c then l else [].
Proof.
  induction l as [|x l IH]; intros H.
  - destruct c; reflexivity.
  - cbn [filter]. rewrite (H x (or_introl eq_refl)).
    rewrite IH by (intros y Hy; apply H; right; exact Hy).
    destruct c; reflexivity.
Qed.

Lemma filter_map_swap {A B} (p : B -> bool) (f : A -> B) (l : list A) :
  filter p (map f l) = map f (filter (fun x => p (f x)) l).
Proof.
  induction l as [|x l IH]; [reflexivity|].
  cbn [map filter]. destruct (p (f x)); cbn [map]; rewrite IH; reflexivity.
Qed.

Lemma fold_left_push {A} (l acc : list A) : fold_left (fun a t => a ++ [t]) l acc = acc ++ l.
Proof.
  revert acc; induction l as [|x l IH]; intros acc; cbn [fold_left].
  - rewrite app_nil_r. reflexivity.
  - rewrite IH, <- app_assoc. reflexivity.
Qed.

Lemma fold_left_push_if {A B} (c : B -> bool) (f : B -> A) (l : list B) (acc : list A) :
  fold_left (fun a x => if c x then a else a ++ [f x]) l acc
  = acc ++ map f (filter (fun x => negb (c x)) l).
Proof.
  revert acc; induction l as [|x l IH]; intros acc; cbn [fold_left filter].
  - cbn [map]. rewrite app_nil_r. reflexivity.
  - rewrite IH. destruct (c x); cbn [negb map]; [reflexivity|].
    rewrite <- app_assoc. reflexivity.
Qed.

Lemma fold_left_push_when {A} (c : A -> bool) (l : list A) (acc : list A) :
  fold_left (fun a x => if c x then a ++ [x] else a) l acc = acc ++ filter c l.
Proof.
  revert acc; induction l as [|x l IH]; intros acc; cbn [fold_left filter].
  - rewrite app_nil_r. reflexivity.
  - rewrite IH. destruct (c x); [|reflexivity]. rewrite <- app_assoc. reflexivity.
Qed.

(* ------------------------------------------------------------------ names *)
Lemma names_app a b : names (a ++ b) = names a ++ names b.
Proof. unfold names. apply flat_map_app. Qed.

Lemma ns_eqb_eq a b : ns_eqb a b = true <-> a = b.
Proof. destruct a, b; cbn; split; intros H; try reflexivity; try discriminate. Qed.

Lemma nn_eqb_eq a b : nn_eqb a b = true <-> a = b.
Proof.
  destruct a as [a1 a2], b as [b1 b2]. unfold nn_eqb. cbn [fst snd].
  rewrite andb_true_iff, ns_eqb_eq, Nat.eqb_eq. split.
  - intros [-> ->]. reflexivity.
  - intros H. inversion H. split; reflexivity.
Qed.

Lemma nn_mem_In x l : nn_mem x l = true <-> In x l.
Proof.
  unfold nn_mem. rewrite existsb_exists. split.
  - intros [y [Hy He]]. apply nn_eqb_eq in He. subst. exact Hy.
  - intros H. exists x. split; [exact H|]. apply nn_eqb_eq. reflexivity.
Qed.

Lemma nn_mem_false x l : nn_mem x l = false <-> ~ In x l.
Proof.
  rewrite <- nn_mem_In. destruct (nn_mem x l); split; intros H; try congruence; try discriminate.
Qed.

Lemma bool_eq_iff (a b : bool) : (a = true <-> b = true) -> a = b.
Proof. destruct a, b; intros [H1 H2]; try reflexivity; [symmetry; apply H1|apply H2]; reflexivity. Qed.

Lemma In_names_intro i x l : In i l -> named i = Some x -> In x (names l).
Proof.
  intros Hi Hn. unfold names. apply in_flat_map. exists i. split; [exact Hi|].
  rewrite Hn. left. reflexivity.
Qed.

Lemma In_names_elim x l : In x (names l) -> exists i, In i l /\ named i = Some x.
Proof.
  unfold names. intros H. apply in_flat_map in H. destruct H as [i [Hi Hx]].
  exists i. split; [exact Hi|]. destruct (named i) as [y|]; [|contradiction].
  destruct Hx as [Hx|[]]. subst. reflexivity.
Qed.

Lemma nodup_nn_b_spec l : nodup_nn_b l = true <-> NoDup l.
Proof.
  induction l as [|x l IH]; cbn [nodup_nn_b].
  - split; [constructor|reflexivity].
  - rewrite andb_true_iff, negb_true_iff, nn_mem_false, IH. split.
    + intros [H1 H2]. constructor; assumption.
    + intros H. inversion H; subst. split; assumption.
Qed.

Lemma nodup_names_b_spec l : nodup_names_b l = true <-> NoDupNames l.
Proof. apply nodup_nn_b_spec. Qed.

(* ------------------------------------------------------------------ collect *)
Lemma collect_fold_type items : forall acc n,
  In n (fst (fold_left collect_step items acc)) <-> In n (fst acc) \/ In (NsType, n) (names items).
Proof.
  induction items as [|it items IH]; intros acc n; cbn [fold_left].
  - cbn. tauto.
  - rewrite IH. unfold names at 2. cbn [flat_map]. fold (names items). rewrite in_app_iff.
    unfold collect_step, named. destruct it as [k nm bd]. cbn [r_kind r_name].
    destruct k; cbn [fst snd In]; split; intros H;
      repeat match goal with
             | H : _ \/ _ |- _ => destruct H
             | H : (_, _) = (_, _) |- _ => inversion H; clear H; subst
             | H : False |- _ => contradiction
             end; auto.
Qed.

Lemma collect_fold_fn items : forall acc n,
  In n (snd (fold_left collect_step items acc)) <-> In n (snd acc) \/ In (NsFn, n) (names items).
Proof.
  induction items as [|it items IH]; intros acc n; cbn [fold_left].
  - cbn. tauto.
  - rewrite IH. unfold names at 2. cbn [flat_map]. fold (names items). rewrite in_app_iff.
    unfold collect_step, named. destruct it as [k nm bd]. cbn [r_kind r_name].
    destruct k; cbn [fst snd In]; split; intros H;
      repeat match goal with
             | H : _ \/ _ |- _ => destruct H
             | H : (_, _) = (_, _) |- _ => inversion H; clear H; subst
             | H : False |- _ => contradiction
             end; auto.
Qed.

Lemma collect_type items n : memb n (fst (collect items)) = nn_mem (NsType, n) (names items).
Proof.
  apply bool_eq_iff. rewrite memb_In, nn_mem_In. unfold collect. rewrite collect_fold_type.
  cbn [fst In]. tauto.
Qed.

Lemma collect_fn items n : memb n (snd (collect items)) = nn_mem (NsFn, n) (names items).
Proof.
  apply bool_eq_iff. rewrite memb_In, nn_mem_In. unfold collect. rewrite collect_fold_fn.
  cbn [snd In]. tauto.
Qed.

(* ------------------------------------------------------------------ shape of regen *)
Definition added_group (tn an : list nat) (g : group) : list ritem :=
  match g with
  | GTerm tkey ty akey act =>
      (if memb tkey tn then [] else [ty]) ++ (if memb akey an then [] else [act])
  | GNonterm types acts =>
      filter (type_guard tn) types
      ++ map snd (filter (fun ka => negb (memb (fst ka) an)) acts)
  end.

Definition added (file : list ritem) (gs : list group) : list ritem :=
  flat_map (added_group (fst (collect file)) (snd (collect file))) gs.

Lemma emit_group_app tn an acc g : emit_group tn an acc g = acc ++ added_group tn an g.
Proof.
  destruct g as [tkey ty akey act|types acts]; cbn [emit_group added_group].
  - destruct (memb tkey tn), (memb akey an); cbn [app];
      rewrite ?app_nil_r, <- ?app_assoc; reflexivity.
  - rewrite fold_left_push_if, fold_left_push_when, <- app_assoc. reflexivity.
Qed.

Lemma fold_emit tn an gs : forall acc,
  fold_left (emit_group tn an) gs acc = acc ++ flat_map (added_group tn an) gs.
Proof.
  induction gs as [|g gs IH]; intros acc; cbn [fold_left flat_map].
  - rewrite app_nil_r. reflexivity.
  - rewrite IH, emit_group_app, <- app_assoc. reflexivity.
Qed.

Lemma regen_shape force existing gen :
  regen force existing gen
  = start_ast force existing (g_header gen)
    ++ added (start_ast force existing (g_header gen)) (g_groups gen).
Proof. unfold regen, added. apply fold_emit. Qed.

Lemma regen_prefix_main existing gen :
  regen false (Some existing) gen = existing ++ added existing (g_groups gen).
Proof. rewrite regen_shape. reflexivity. Qed.

Lemma regen_forced_main existing gen : regen true existing gen = regen false None gen.
Proof. rewrite !regen_shape. destruct existing; reflexivity. Qed.

Lemma regen_fresh_main gen :
  regen false None gen = g_header gen ++ added (g_header gen) (g_groups gen).
Proof. rewrite regen_shape. reflexivity. Qed.

(* nothing is invented: what is appended comes from the generator's output, in order *)
Lemma added_group_incl tn an g : incl (added_group tn an g) (flat_group g).
Proof.
  destruct g as [tkey ty akey act|types acts]; cbn [added_group flat_group]; intros x Hx.
  - apply in_app_iff in Hx. destruct Hx as [Hx|Hx].
    + destruct (memb tkey tn); [contradiction|]. destruct Hx as [<-|[]]. left. reflexivity.
    + destruct (memb akey an); [contradiction|]. destruct Hx as [<-|[]]. right. left. reflexivity.
  - apply in_app_iff in Hx. apply in_app_iff. destruct Hx as [Hx|Hx].
    + left. apply filter_In in Hx. exact (proj1 Hx).
    + right. apply in_map_iff in Hx. destruct Hx as [ka [<- Hka]].
      apply filter_In in Hka. apply in_map. exact (proj1 Hka).
Qed.

Lemma added_incl_main file gs : incl (added file gs) (flat gs).
Proof.
  unfold added, flat. intros x Hx. apply in_flat_map in Hx. destruct Hx as [g [Hg Hx]].
  apply in_flat_map. exists g. split; [exact Hg|]. eapply added_group_incl. exact Hx.
Qed.

(* ------------------------------------------------------------------ presence *)
Lemma present_type file i :
  is_type_kind (r_kind i) = true -> present file i = nn_mem (NsType, r_name i) (names file).
Proof. unfold present, named. destruct (r_kind i); cbn; intros H; try discriminate; reflexivity. Qed.

Lemma present_fn file i :
  is_fn_kind (r_kind i) = true -> present file i = nn_mem (NsFn, r_name i) (names file).
Proof. unfold present, named. destruct (r_kind i); cbn; intros H; try discriminate; reflexivity. Qed.

Lemma named_type i : is_type_kind (r_kind i) = true -> named i = Some (NsType, r_name i).
Proof. unfold named. destruct (r_kind i); cbn; intros H; try discriminate; reflexivity. Qed.

Lemma named_fn i : is_fn_kind (r_kind i) = true -> named i = Some (NsFn, r_name i).
Proof. unfold named. destruct (r_kind i); cbn; intros H; try discriminate; reflexivity. Qed.

(* ------------------------------------------------------------------ adds exactly the missing *)
Lemma type_guard_present file t :
  is_type_kind (r_kind t) = true -> type_guard (fst (collect file)) t = negb (present file t).
Proof.
  intros Hk. rewrite (present_type file t Hk), <- collect_type. unfold type_guard.
  destruct (r_kind t); cbn in Hk; try discriminate; reflexivity.
Qed.

Lemma added_group_missing file g :
  wf_group_b g = true ->
  added_group (fst (collect file)) (snd (collect file)) g
  = filter (fun i => negb (present file i)) (flat_group g).
Proof.
  intros Hwf. destruct g as [tkey ty akey act|types acts];
    cbn [added_group flat_group wf_group_b] in *.
  - apply andb_true_iff in Hwf. destruct Hwf as [Hwf H4].
    apply andb_true_iff in Hwf. destruct Hwf as [Hwf H3].
    apply andb_true_iff in Hwf. destruct Hwf as [H1 H2].
    apply Nat.eqb_eq in H2. apply Nat.eqb_eq in H4. subst tkey akey.
    cbn [filter]. rewrite (present_type file ty H1), (present_fn file act H3).
    rewrite collect_type, collect_fn.
    destruct (nn_mem (NsType, r_name ty) (names file)), (nn_mem (NsFn, r_name act) (names file));
      reflexivity.
  - apply andb_true_iff in Hwf. destruct Hwf as [H1 H3].
    rewrite filter_app. f_equal.
    + apply filter_ext_in. intros t Ht. rewrite forallb_forall in H1.
      apply type_guard_present. apply H1. exact Ht.
    + rewrite filter_map_swap. f_equal. apply filter_ext_in. intros ka Hka.
      rewrite forallb_forall in H3. specialize (H3 ka Hka).
      apply andb_true_iff in H3. destruct H3 as [Hk Hn]. apply Nat.eqb_eq in Hn.
      rewrite (present_fn file (snd ka) Hk), Hn, collect_fn. reflexivity.
Qed.

Lemma added_missing_main file gs :
  wf_gen_b gs = true -> added file gs = missing file gs.
Proof.
  intros Hwf. unfold added, missing, flat. rewrite filter_flat_map.
  apply flat_map_ext_in. intros g Hg. apply added_group_missing.
  unfold wf_gen_b in Hwf. rewrite forallb_forall in Hwf. apply Hwf. exact Hg.
Qed.

Lemma regen_adds_missing_main e gen :
  wf_gen_b (g_groups gen) = true ->
  regen false (Some e) gen = e ++ missing e (g_groups gen).
Proof. intros Hwf. rewrite regen_prefix_main, added_missing_main by assumption. reflexivity. Qed.

(* ------------------------------------------------------------------ no duplicates *)
Lemma names_filter_sub p l x : In x (names (filter p l)) -> In x (names l).
Proof.
  intros H. apply In_names_elim in H. destruct H as [i [Hi Hn]]. apply filter_In in Hi.
  eapply In_names_intro; [exact (proj1 Hi)|exact Hn].
Qed.

Lemma names_cons i l :
  names (i :: l) = (match named i with Some x => [x] | None => [] end) ++ names l.
Proof. reflexivity. Qed.

Lemma NoDup_names_filter p l : NoDup (names l) -> NoDup (names (filter p l)).
Proof.
  induction l as [|i l IH]; intros H; [constructor|].
  rewrite names_cons in H. cbn [filter]. destruct (p i).
  - rewrite names_cons. destruct (named i) as [x|]; cbn [app] in *.
    + inversion H; subst. constructor.
      * intros Hc. apply names_filter_sub in Hc. contradiction.
      * apply IH. assumption.
    + apply IH. exact H.
  - destruct (named i); cbn [app] in H.
    + inversion H; subst. apply IH. assumption.
    + apply IH. exact H.
Qed.

Lemma NoDup_app_intro {A} (a b : list A) :
  NoDup a -> NoDup b -> (forall x, In x a -> ~ In x b) -> NoDup (a ++ b).
Proof.
  induction a as [|x a IH]; intros Ha Hb Hd; [exact Hb|].
  cbn [app]. inversion Ha; subst. constructor.
  - rewrite in_app_iff. intros [H|H]; [contradiction|]. exact (Hd x (or_introl eq_refl) H).
  - apply IH; [assumption|assumption|]. intros y Hy. apply Hd. right. exact Hy.
Qed.

Lemma regen_no_dup_main e gen :
  wf_gen_b (g_groups gen) = true -> gen_dup_b (g_groups gen) = false ->
  NoDupNames e -> NoDupNames (regen false (Some e) gen).
Proof.
  intros Hwf Hgd He. rewrite regen_adds_missing_main by assumption.
  unfold NoDupNames. rewrite names_app. apply NoDup_app_intro.
  - exact He.
  - unfold missing. apply NoDup_names_filter.
    unfold gen_dup_b in Hgd. apply negb_false_iff in Hgd. apply nodup_names_b_spec in Hgd. exact Hgd.
  - intros x Hx Hm. unfold missing in Hm. apply In_names_elim in Hm.
    destruct Hm as [i [Hi Hn]]. apply filter_In in Hi. destruct Hi as [_ Hp].
    unfold present in Hp. rewrite Hn in Hp. apply negb_true_iff in Hp. apply nn_mem_false in Hp.
    contradiction.
Qed.

(* ------------------------------------------------------------------ idempotence *)
Lemma type_present_mono a b n :
  nn_mem (NsType, n) (names a) = true -> nn_mem (NsType, n) (names (a ++ b)) = true.
Proof. rewrite !nn_mem_In, names_app, in_app_iff. auto. Qed.

Lemma fn_present_mono a b n :
  nn_mem (NsFn, n) (names a) = true -> nn_mem (NsFn, n) (names (a ++ b)) = true.
Proof. rewrite !nn_mem_In, names_app, in_app_iff. auto. Qed.

Lemma flat_map_nil {A B} (f : A -> list B) (l : list A) :
  (forall x, In x l -> f x = []) -> flat_map f l = [].
Proof.
  induction l as [|x l IH]; intros H; [reflexivity|].
  cbn [flat_map]. rewrite (H x (or_introl eq_refl)), IH; [reflexivity|].
  intros y Hy. apply H. right. exact Hy.
Qed.

Lemma flat_named gs i :
  wf_gen_b gs = true -> In i (flat gs) -> exists x, named i = Some x.
Proof.
  intros Hwf Hi. unfold flat in Hi. apply in_flat_map in Hi. destruct Hi as [g [Hg Hi]].
  unfold wf_gen_b in Hwf. rewrite forallb_forall in Hwf. specialize (Hwf g Hg).
  destruct g as [tkey ty akey act|types acts]; cbn [flat_group wf_group_b] in *.
  - apply andb_true_iff in Hwf. destruct Hwf as [Hwf H4].
    apply andb_true_iff in Hwf. destruct Hwf as [Hwf H3].
    apply andb_true_iff in Hwf. destruct Hwf as [H1 H2].
    destruct Hi as [<-|[<-|[]]]; eexists; [apply named_type|apply named_fn]; assumption.
  - apply andb_true_iff in Hwf. destruct Hwf as [H1 H3].
    apply in_app_iff in Hi. destruct Hi as [Hi|Hi].
    + rewrite forallb_forall in H1. eexists. apply named_type. apply H1. exact Hi.
    + apply in_map_iff in Hi. destruct Hi as [ka [<- Hka]]. rewrite forallb_forall in H3.
      specialize (H3 ka Hka). apply andb_true_iff in H3. eexists. apply named_fn. exact (proj1 H3).
Qed.

Lemma present_mono a b i : present a i = true -> present (a ++ b) i = true.
Proof.
  unfold present. destruct (named i) as [x|]; [|discriminate].
  rewrite !nn_mem_In, names_app, in_app_iff. auto.
Qed.

Lemma regen_idempotent_main e gen :
  wf_gen_b (g_groups gen) = true ->
  regen false (Some (regen false (Some e) gen)) gen = regen false (Some e) gen.
Proof.
  intros Hwf. rewrite (regen_adds_missing_main e gen Hwf).
  rewrite (regen_adds_missing_main (e ++ missing e (g_groups gen)) gen Hwf).
  assert (Hnil : missing (e ++ missing e (g_groups gen)) (g_groups gen) = []).
  { unfold missing at 1. rewrite (filter_const_in _ false); [reflexivity|].
    intros i Hi. apply negb_false_iff.
    destruct (present e i) eqn:Hp; [apply present_mono; exact Hp|].
    destruct (flat_named _ _ Hwf Hi) as [x Hx].
    unfold present. rewrite Hx. apply nn_mem_In. rewrite names_app, in_app_iff. right.
    eapply In_names_intro; [|exact Hx]. unfold missing. apply filter_In.
    split; [exact Hi|]. rewrite Hp. reflexivity. }
  rewrite Hnil, app_nil_r. reflexivity.
Qed.

(* ------------------------------------------------------------------ completeness *)
Lemma regen_complete_main e gen i :
  wf_gen_b (g_groups gen) = true ->
  In i (flat (g_groups gen)) -> present (regen false (Some e) gen) i = true.
Proof.
  intros Hwf Hi. rewrite regen_adds_missing_main by assumption.
  destruct (flat_named _ _ Hwf Hi) as [x Hx].
  unfold present. rewrite Hx. apply nn_mem_In. rewrite names_app, in_app_iff.
  destruct (present e i) eqn:Hp.
  - left. unfold present in Hp. rewrite Hx in Hp. apply nn_mem_In. exact Hp.
  - right. eapply In_names_intro; [|exact Hx]. unfold missing. apply filter_In.
    split; [exact Hi|]. rewrite Hp. reflexivity.
Qed.
