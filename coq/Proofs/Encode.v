(* Round trip of the two generated table encodings (Model/Encode.v): decoding what the generator
   writes answers every query as the table does. *)
From RV Require Import Model.Encode.

(* ------------------------------------------------------------------ generic lemmas *)
Lemma list_max_ge l x : In x l -> x <= list_max l.
Proof.
  induction l as [|y l IH]; simpl; intros H; [contradiction|].
  destruct H as [->|H]; [lia|]. specialize (IH H). lia.
Qed.

Lemma map_gen_spec {A B} (f : A -> gen B) (l : list A) :
  (forall x, In x l -> exists y, f x = GVal y) ->
  exists ys, map_gen f l = GVal ys /\
    forall i x, nth_error l i = Some x -> exists y, f x = GVal y /\ nth_error ys i = Some y.
Proof.
  induction l as [|a l IH]; intros H.
  - exists []. split; [reflexivity|]. intros i x Hi. destruct i; discriminate.
  - destruct (H a (or_introl eq_refl)) as [y Hy].
    destruct IH as [ys [Hys Hn]]; [intros x Hx; apply H; right; exact Hx|].
    exists (y :: ys). split; [simpl; rewrite Hy, Hys; reflexivity|].
    intros i x Hi. destruct i as [|i]; simpl in Hi.
    + inversion Hi; subst. exists y. split; [exact Hy|reflexivity].
    + apply Hn. exact Hi.
Qed.

Lemma pad_val {A} n (d : A) l : length l <= n -> pad n d l = GVal (l ++ repeat d (n - length l)).
Proof. intros H. unfold pad. apply Nat.leb_le in H. rewrite H. reflexivity. Qed.

Lemma take_while_noerr_pad c k : take_while_noerr (map EAct c ++ repeat EErr k) = map EAct c.
Proof.
  induction c as [|a c IH]; simpl.
  - destruct k; reflexivity.
  - rewrite IH. reflexivity.
Qed.

Lemma map_while_some_pad {A} (l : list A) k : map_while_some (map Some l ++ repeat None k) = l.
Proof.
  induction l as [|a l IH]; simpl.
  - destruct k; reflexivity.
  - rewrite IH. reflexivity.
Qed.

Lemma nth_error_Some_nth {A} (l : list A) i d : i < length l -> nth_error l i = Some (nth i l d).
Proof.
  revert i; induction l as [|a l IH]; intros i H; simpl in H; [lia|].
  destruct i; simpl; [reflexivity|]. apply IH. lia.
Qed.

Lemma filter_length_le {A} (f : A -> bool) l : length (filter f l) <= length l.
Proof. induction l as [|a l IH]; simpl; [lia|]. destruct (f a); simpl; lia. Qed.

Lemma filter_length_lt {A} (f : A -> bool) l i x :
  nth_error l i = Some x -> f x = false -> length (filter f l) < length l.
Proof.
  revert i; induction l as [|a l IH]; intros i Hi Hf; destruct i; simpl in *; try discriminate.
  - inversion Hi; subst. rewrite Hf. pose proof (filter_length_le f l). lia.
  - specialize (IH _ Hi Hf). destruct (f a); simpl; lia.
Qed.

(* ------------------------------------------------------------------ well-formed tables *)
Section Wf.
  Variables (nterm nnonterm : nat) (T : table).
  Hypothesis Hwf : enc_wf_b nterm nnonterm T = true.

  Lemma wf_nonempty : t_states T <> [].
  Proof.
    unfold enc_wf_b in Hwf. apply andb_true_iff in Hwf. destruct Hwf as [H _].
    destruct (t_states T); [discriminate|discriminate].
  Qed.

  Lemma wf_state st : In st (t_states T) ->
    length (s_actions st) = nterm /\ length (s_gotos st) = nnonterm /\
    length (s_sorted st) <= list_max (map nonempty_count (t_states T)).
  Proof.
    intros Hin. unfold enc_wf_b in Hwf. apply andb_true_iff in Hwf. destruct Hwf as [_ H].
    rewrite forallb_forall in H. specialize (H _ Hin).
    apply andb_true_iff in H. destruct H as [H H3]. apply andb_true_iff in H. destruct H as [H1 H2].
    apply Nat.eqb_eq in H1. apply Nat.eqb_eq in H2. apply Nat.leb_le in H3. auto.
  Qed.

  Lemma max_actions_val : max_actions T = GVal (list_max (map state_max_actions (t_states T))).
  Proof. unfold max_actions. pose proof wf_nonempty. destruct (t_states T); [congruence|reflexivity]. Qed.

  Lemma max_recognizers_val : max_recognizers T = GVal (list_max (map nonempty_count (t_states T))).
  Proof. unfold max_recognizers. pose proof wf_nonempty. destruct (t_states T); [congruence|reflexivity]. Qed.

  Lemma cell_le_max st c : In st (t_states T) -> In c (s_actions st) ->
    length c <= list_max (map state_max_actions (t_states T)).
  Proof.
    intros Hst Hc. transitivity (state_max_actions st).
    - unfold state_max_actions. apply list_max_ge. apply in_map. exact Hc.
    - apply list_max_ge. apply in_map. exact Hst.
  Qed.

  Lemma encode_tokens_val :
    exists toks, encode_tokens (list_max (map nonempty_count (t_states T))) T = GVal toks /\
      forall s st, nth_error (t_states T) s = Some st -> dec_tokens toks s = GVal (s_sorted st).
  Proof.
    unfold encode_tokens.
    destruct (map_gen_spec (fun st => pad (list_max (map nonempty_count (t_states T))) None
                                          (map Some (s_sorted st))) (t_states T)) as [toks [Ht Hn]].
    - intros st Hin. eexists. apply pad_val. rewrite map_length. apply (wf_state st Hin).
    - exists toks. split; [exact Ht|]. intros s st Hs.
      destruct (Hn _ _ Hs) as [row [Hrow Hnth]].
      rewrite pad_val in Hrow by (rewrite map_length; apply (wf_state st); eapply nth_error_In; exact Hs).
      inversion Hrow; subst row. unfold dec_tokens. rewrite Hnth. rewrite map_while_some_pad. reflexivity.
  Qed.

  Lemma get_state_lt s : s < nstates T -> exists st, nth_error (t_states T) s = Some st /\ In st (t_states T).
  Proof.
    intros H. unfold nstates in H. destruct (nth_error (t_states T) s) as [st|] eqn:E.
    - exists st. split; [reflexivity|]. eapply nth_error_In. exact E.
    - apply nth_error_None in E. lia.
  Qed.

  Lemma cell_nth s st a : nth_error (t_states T) s = Some st -> cell T s a = nth a (s_actions st) [].
  Proof. intros H. unfold cell, get_state. rewrite H. reflexivity. Qed.

  Lemma goto_nth s st n o : nth_error (t_states T) s = Some st -> nth_error (s_gotos st) n = Some o ->
    goto T s n = o.
  Proof. intros H Hn. unfold goto, get_state. rewrite H, Hn. reflexivity. Qed.

  Lemma sorted_nth s st : nth_error (t_states T) s = Some st -> sorted T s = s_sorted st.
  Proof. intros H. unfold sorted, get_state. rewrite H. reflexivity. Qed.

  (* ---------------------------------------------------------------- arrays *)
  Lemma arrays_roundtrip_main :
    exists E, encode_arrays T = GVal E /\
      (forall s a, s < nstates T -> a < nterm ->
         dec_arrays_actions E s a = GVal (map EAct (cell T s a))) /\
      (forall s n, s < nstates T -> n < nnonterm ->
         dec_arrays_goto E s n = goto_expect site_goto_unwrap T s n) /\
      (forall s, s < nstates T -> dec_tokens (ea_tokens E) s = GVal (sorted T s)).
  Proof.
    unfold encode_arrays. rewrite max_actions_val, max_recognizers_val.
    set (ma := list_max (map state_max_actions (t_states T))).
    destruct (map_gen_spec (fun st => map_gen (fun c => pad ma EErr (map EAct c)) (s_actions st)) (t_states T))
      as [acts [Hacts Hn]].
    { intros st Hst.
      destruct (map_gen_spec (fun c => pad ma EErr (map EAct c)) (s_actions st)) as [row [Hrow _]].
      - intros c Hc. eexists. apply pad_val. rewrite map_length. apply (cell_le_max st c Hst Hc).
      - exists row. exact Hrow. }
    rewrite Hacts.
    destruct encode_tokens_val as [toks [Htoks Hdt]]. rewrite Htoks.
    eexists. split; [reflexivity|]. split; [|split].
    - intros s a Hs Ha. destruct (get_state_lt s Hs) as [st [Hst Hin]].
      destruct (Hn _ _ Hst) as [row [Hrow Hnth]].
      destruct (wf_state st Hin) as [Hla _].
      destruct (map_gen_spec (fun c => pad ma EErr (map EAct c)) (s_actions st)) as [row' [Hrow' Hn']].
      { intros c Hc. eexists. apply pad_val. rewrite map_length. apply (cell_le_max st c Hin Hc). }
      rewrite Hrow in Hrow'. inversion Hrow'; subst row'.
      assert (Hc : nth_error (s_actions st) a = Some (nth a (s_actions st) []))
        by (apply nth_error_Some_nth; lia).
      destruct (Hn' _ _ Hc) as [pc [Hpc Hnthc]].
      rewrite pad_val in Hpc
        by (rewrite map_length; apply (cell_le_max st _ Hin); eapply nth_error_In; exact Hc).
      inversion Hpc; subst pc.
      unfold dec_arrays_actions. cbn [ea_actions]. rewrite Hnth, Hnthc.
      rewrite take_while_noerr_pad. rewrite (cell_nth s st a Hst). reflexivity.
    - intros s n Hs Hnn. destruct (get_state_lt s Hs) as [st [Hst Hin]].
      destruct (wf_state st Hin) as [_ [Hlg _]].
      assert (Hg : nth_error (s_gotos st) n = Some (nth n (s_gotos st) None))
        by (apply nth_error_Some_nth; lia).
      unfold dec_arrays_goto, goto_expect. cbn [ea_gotos].
      rewrite nth_error_map, Hst. cbn [option_map]. rewrite Hg.
      rewrite (goto_nth s st n _ Hst Hg). destruct (nth n (s_gotos st) None); reflexivity.
    - intros s Hs. destruct (get_state_lt s Hs) as [st [Hst Hin]]. cbn [ea_tokens].
      rewrite (Hdt _ _ Hst). rewrite (sorted_nth s st Hst). reflexivity.
  Qed.

  (* ---------------------------------------------------------------- functions *)
  Lemma assoc_cells (l : list (list action)) : forall k a,
    assoc_nat a (map (fun '(t, c) => (t, map EAct c))
                     (filter (fun '(_, c) => negb (is_nil c)) (combine (seq k (length l)) l))) =
    if a <? k then None
    else match nth_error l (a - k) with
         | Some c => if is_nil c then None else Some (map EAct c)
         | None => None
         end.
  Proof.
    induction l as [|c l IH]; intros k a; simpl.
    - destruct (a <? k); [reflexivity|]. destruct (a - k); reflexivity.
    - destruct (is_nil c) eqn:Ec; simpl.
      + rewrite IH. destruct (a <? k) eqn:E1.
        * apply Nat.ltb_lt in E1. assert (E2 : (a <? S k) = true) by (apply Nat.ltb_lt; lia). rewrite E2. reflexivity.
        * apply Nat.ltb_ge in E1. destruct (Nat.eq_dec a k) as [->|Hne].
          -- assert (E2 : (k <? S k) = true) by (apply Nat.ltb_lt; lia). rewrite E2.
             rewrite Nat.sub_diag. simpl. rewrite Ec. reflexivity.
          -- assert (E2 : (a <? S k) = false) by (apply Nat.ltb_ge; lia). rewrite E2.
             replace (a - k) with (S (a - S k)) by lia. reflexivity.
      + destruct (k =? a) eqn:Eka.
        * apply Nat.eqb_eq in Eka. subst a.
          assert (E1 : (k <? k) = false) by (apply Nat.ltb_ge; lia). rewrite E1.
          rewrite Nat.sub_diag. simpl. rewrite Ec. reflexivity.
        * apply Nat.eqb_neq in Eka. rewrite IH. destruct (a <? k) eqn:E1.
          -- apply Nat.ltb_lt in E1. assert (E2 : (a <? S k) = true) by (apply Nat.ltb_lt; lia). rewrite E2. reflexivity.
          -- apply Nat.ltb_ge in E1. assert (E2 : (a <? S k) = false) by (apply Nat.ltb_ge; lia). rewrite E2.
             replace (a - k) with (S (a - S k)) by lia. reflexivity.
  Qed.

  Lemma cells_filter_length (l : list (list action)) : forall k,
    length (filter (fun '(_, c) => negb (is_nil c)) (combine (seq k (length l)) l)) =
    length (filter (fun c => negb (is_nil c)) l).
  Proof.
    induction l as [|c l IH]; intros k; simpl; [reflexivity|].
    destruct (is_nil c); simpl; rewrite IH; reflexivity.
  Qed.

  Lemma assoc_gotos (l : list (option nat)) : forall k n,
    assoc_nat n (flat_map (fun '(i, o) => match o with Some s' => [(i, s')] | None => [] end)
                          (combine (seq k (length l)) l)) =
    if n <? k then None
    else match nth_error l (n - k) with Some o => o | None => None end.
  Proof.
    induction l as [|o l IH]; intros k n; simpl.
    - destruct (n <? k); [reflexivity|]. destruct (n - k); reflexivity.
    - destruct o as [x|]; simpl.
      + destruct (k =? n) eqn:Ekn.
        * apply Nat.eqb_eq in Ekn. subst n.
          assert (E1 : (k <? k) = false) by (apply Nat.ltb_ge; lia). rewrite E1.
          rewrite Nat.sub_diag. reflexivity.
        * apply Nat.eqb_neq in Ekn. rewrite IH. destruct (n <? k) eqn:E1.
          -- apply Nat.ltb_lt in E1. assert (E2 : (n <? S k) = true) by (apply Nat.ltb_lt; lia). rewrite E2. reflexivity.
          -- apply Nat.ltb_ge in E1. assert (E2 : (n <? S k) = false) by (apply Nat.ltb_ge; lia). rewrite E2.
             replace (n - k) with (S (n - S k)) by lia. reflexivity.
      + rewrite IH. destruct (n <? k) eqn:E1.
        * apply Nat.ltb_lt in E1. assert (E2 : (n <? S k) = true) by (apply Nat.ltb_lt; lia). rewrite E2. reflexivity.
        * apply Nat.ltb_ge in E1. destruct (Nat.eq_dec n k) as [->|Hne].
          -- assert (E2 : (k <? S k) = true) by (apply Nat.ltb_lt; lia). rewrite E2.
             rewrite Nat.sub_diag. reflexivity.
          -- assert (E2 : (n <? S k) = false) by (apply Nat.ltb_ge; lia). rewrite E2.
             replace (n - k) with (S (n - S k)) by lia. reflexivity.
  Qed.

  Lemma existsb_is_some_false (l : list (option nat)) n :
    existsb is_some l = false -> match nth_error l n with Some o => o | None => None end = None.
  Proof.
    revert n; induction l as [|o l IH]; intros n H; destruct n; simpl in *; try reflexivity.
    - destruct o; [discriminate|reflexivity].
    - apply IH. destruct o; [discriminate|exact H].
  Qed.

  Lemma functions_roundtrip_main :
    exists E, encode_functions nterm T = GVal E /\
      (forall s a, s < nstates T -> a < nterm ->
         dec_functions_actions E s a = GVal (map EAct (cell T s a))) /\
      (forall s n, s < nstates T -> n < nnonterm ->
         dec_functions_goto E s n = goto_expect site_goto_invalid T s n) /\
      (forall s, s < nstates T -> dec_tokens (ef_tokens E) s = GVal (sorted T s)).
  Proof.
    unfold encode_functions. rewrite max_recognizers_val.
    destruct encode_tokens_val as [toks [Htoks Hdt]]. rewrite Htoks.
    eexists. split; [reflexivity|]. split; [|split].
    - intros s a Hs Ha. destruct (get_state_lt s Hs) as [st [Hst Hin]].
      destruct (wf_state st Hin) as [Hla _].
      assert (Hc : nth_error (s_actions st) a = Some (nth a (s_actions st) []))
        by (apply nth_error_Some_nth; lia).
      unfold dec_functions_actions. cbn [ef_actions]. rewrite nth_error_map, Hst. cbn [option_map].
      unfold encode_actfn, nonempty_cells, indexed. cbn [af_arms af_catch].
      rewrite assoc_cells. assert (E0 : (a <? 0) = false) by (apply Nat.ltb_ge; lia). rewrite E0.
      rewrite Nat.sub_0_r, Hc. rewrite (cell_nth s st a Hst).
      destruct (is_nil (nth a (s_actions st) [])) eqn:En; [|reflexivity].
      rewrite map_length, cells_filter_length.
      assert (Hlt : length (filter (fun c => negb (is_nil c)) (s_actions st)) < nterm).
      { rewrite <- Hla. eapply filter_length_lt; [exact Hc|]. rewrite En. reflexivity. }
      apply Nat.ltb_lt in Hlt. rewrite Hlt.
      destruct (nth a (s_actions st) []); [reflexivity|discriminate].
    - intros s n Hs Hnn. destruct (get_state_lt s Hs) as [st [Hst Hin]].
      destruct (wf_state st Hin) as [_ [Hlg _]].
      assert (Hg : nth_error (s_gotos st) n = Some (nth n (s_gotos st) None))
        by (apply nth_error_Some_nth; lia).
      unfold dec_functions_goto, goto_expect. cbn [ef_gotos]. rewrite nth_error_map, Hst. cbn [option_map].
      rewrite (goto_nth s st n _ Hst Hg). unfold encode_gotofn.
      destruct (existsb is_some (s_gotos st)) eqn:Eex.
      + unfold goto_arms, indexed. rewrite assoc_gotos.
        assert (E0 : (n <? 0) = false) by (apply Nat.ltb_ge; lia). rewrite E0.
        rewrite Nat.sub_0_r, Hg. destruct (nth n (s_gotos st) None); reflexivity.
      + pose proof (existsb_is_some_false _ n Eex) as Hnone. rewrite Hg in Hnone. rewrite Hnone. reflexivity.
    - intros s Hs. destruct (get_state_lt s Hs) as [st [Hst Hin]]. cbn [ef_tokens].
      rewrite (Hdt _ _ Hst). rewrite (sorted_nth s st Hst). reflexivity.
  Qed.
End Wf.

Lemma layouts_agree_main nterm nnonterm T :
  enc_wf_b nterm nnonterm T = true ->
  exists EA EF, encode_arrays T = GVal EA /\ encode_functions nterm T = GVal EF /\
    (forall s a, s < nstates T -> a < nterm -> dec_arrays_actions EA s a = dec_functions_actions EF s a) /\
    (forall s n, s < nstates T -> n < nnonterm ->
       gen_val (dec_arrays_goto EA s n) = gen_val (dec_functions_goto EF s n)) /\
    (forall s, s < nstates T -> dec_tokens (ea_tokens EA) s = dec_tokens (ef_tokens EF) s).
Proof.
  intros Hwf.
  destruct (arrays_roundtrip_main nterm nnonterm T Hwf) as [EA [HA [A1 [A2 A3]]]].
  destruct (functions_roundtrip_main nterm nnonterm T Hwf) as [EF [HF [F1 [F2 F3]]]].
  exists EA, EF. split; [exact HA|]. split; [exact HF|]. split; [|split].
  - intros s a Hs Ha. rewrite A1, F1 by assumption. reflexivity.
  - intros s n Hs Hn. rewrite A2, F2 by assumption. unfold goto_expect. destruct (goto T s n); reflexivity.
  - intros s Hs. rewrite A3, F3 by assumption. reflexivity.
Qed.

(* the executable round-trip checks are implied by well-formedness (sanity of their definition) *)

(* ------------------------------------------------------------------ ProdKind numbering *)
Lemma index_of_nth l : NoDup l -> forall x d, index_of x l = Some d <-> nth_error l d = Some x.
Proof.
  induction l as [|y l IH]; intros Hnd x d.
  - simpl. split; [discriminate|]. destruct d; discriminate.
  - inversion Hnd as [|? ? Hnotin Hnd']; subst. simpl. destruct (y =? x) eqn:E.
    + apply Nat.eqb_eq in E. subst y. split.
      * intros H. inversion H. reflexivity.
      * intros H. destruct d; [reflexivity|]. simpl in H. apply nth_error_In in H. contradiction.
    + apply Nat.eqb_neq in E. split.
      * intros H. destruct (index_of x l) as [d'|] eqn:Ei; [|discriminate]. simpl in H. inversion H; subst.
        simpl. apply IH; assumption.
      * intros H. destruct d as [|d]; simpl in H; [inversion H; congruence|].
        apply (IH Hnd') in H. rewrite H. reflexivity.
Qed.

Lemma index_of_In l x : In x l -> exists d, index_of x l = Some d.
Proof.
  induction l as [|y l IH]; intros H; [contradiction|]. simpl. destruct (y =? x) eqn:E.
  - exists 0. reflexivity.
  - destruct H as [->|H]; [rewrite Nat.eqb_refl in E; discriminate|].
    destruct (IH H) as [d Hd]. rewrite Hd. exists (S d). reflexivity.
Qed.

Lemma NoDup_map_fst_filter {A} (f : nat * A -> bool) l : NoDup (map fst l) -> NoDup (map fst (filter f l)).
Proof.
  induction l as [|a l IH]; simpl; intros H; [constructor|].
  inversion H as [|? ? Hn Hd]; subst. destruct (f a); simpl; [|apply IH; exact Hd].
  constructor; [|apply IH; exact Hd].
  intros Hin. apply Hn. apply in_map_iff in Hin. destruct Hin as [b [Hb Hin]].
  apply filter_In in Hin. apply in_map_iff. exists b. tauto.
Qed.

Lemma map_fst_combine_seq {A} (l : list A) k : map fst (combine (seq k (length l)) l) = seq k (length l).
Proof. revert k; induction l as [|a l IH]; intros k; simpl; [reflexivity|]. rewrite IH. reflexivity. Qed.

Lemma prodkinds_NoDup g : NoDup (prodkinds g).
Proof.
  unfold prodkinds. apply NoDup_map_fst_filter. unfold indexed. rewrite map_fst_combine_seq. apply seq_NoDup.
Qed.

Lemma prodkind_roundtrip_main g p d : prodkind_index g p = Some d <-> prod_of_kind g d = Some p.
Proof. unfold prodkind_index, prod_of_kind. apply index_of_nth. apply prodkinds_NoDup. Qed.

Lemma prodkind_total_main g p pr :
  get_prod g p = Some pr -> is_special g pr = false -> exists d, prodkind_index g p = Some d.
Proof.
  intros Hp Hs. unfold prodkind_index. apply index_of_In. unfold prodkinds.
  apply in_map_iff. exists (p, pr). split; [reflexivity|]. apply filter_In. split.
  - apply In_indexed. exact Hp.
  - rewrite Hs. reflexivity.
Qed.

Lemma prodkind_special_main g p pr :
  get_prod g p = Some pr -> is_special g pr = true -> prodkind_index g p = None.
Proof.
  intros Hp Hs. unfold prodkind_index. destruct (index_of p (prodkinds g)) as [d|] eqn:E; [|reflexivity].
  apply (index_of_nth _ (prodkinds_NoDup g)) in E. apply nth_error_In in E.
  unfold prodkinds in E. apply in_map_iff in E. destruct E as [[q pr'] [Hq Hin]]. simpl in Hq. subst q.
  apply filter_In in Hin. destruct Hin as [Hin Hf]. apply In_indexed in Hin.
  unfold get_prod in Hp. rewrite Hp in Hin. inversion Hin; subst. rewrite Hs in Hf. discriminate.
Qed.

(* discriminant order = production order *)
Lemma sorted_filter_seq {A} (f : nat * A -> bool) (l : list A) : forall k d1 d2 p1 p2,
  nth_error (map fst (filter f (combine (seq k (length l)) l))) d1 = Some p1 ->
  nth_error (map fst (filter f (combine (seq k (length l)) l))) d2 = Some p2 ->
  d1 < d2 -> p1 < p2.
Proof.
  assert (Hge : forall (l : list A) k d p,
             nth_error (map fst (filter f (combine (seq k (length l)) l))) d = Some p -> k <= p).
  { induction l0 as [|a l0 IH]; intros k d p H; simpl in H.
    - destruct d; discriminate.
    - destruct (f (k, a)); simpl in H.
      + destruct d; simpl in H; [inversion H; lia|]. apply IH in H. lia.
      + apply IH in H. lia. }
  induction l as [|a l IH]; intros k d1 d2 p1 p2 H1 H2 Hlt; simpl in H1, H2.
  - destruct d1; discriminate.
  - destruct (f (k, a)); simpl in H1, H2.
    + destruct d2 as [|d2]; [lia|]. simpl in H2. destruct d1 as [|d1]; simpl in H1.
      * inversion H1; subst. apply Hge in H2. lia.
      * eapply IH; eauto. lia.
    + eapply IH; eauto.
Qed.

Lemma prodkind_order_main g d1 d2 p1 p2 :
  prod_of_kind g d1 = Some p1 -> prod_of_kind g d2 = Some p2 -> d1 < d2 -> p1 < p2.
Proof. unfold prod_of_kind, prodkinds, indexed. apply sorted_filter_seq. Qed.
