(* Regression examples: the former witnesses of C09 / C16 findings, evaluated on the model of the repaired
   builder (rustemo 9193ac3). Each one now gets the diagnostic (or the documented value) instead of the defect. *)
From Coq Require Import String Ascii NArith.
From RV Require Import Util Spec.Grammar Model.Builder Spec.BuilderSpec.
Local Open Scope string_scope.

Definition tA : termrule := mkTermRule None "A" (Some (RStr "a")) [].
Definition tB : termrule := mkTermRule None "B" (Some (RStr "b")) [].
Definition tC : termrule := mkTermRule None "C" (Some (RStr "c")) [].
Definition tComma : termrule := mkTermRule None "Comma" (Some (RStr ",")) [].
Definition tX : termrule := mkTermRule None "X" (Some (RStr "x")) [].
Definition nref (n : string) (rep : option repetition) : assignment := ARef (mkRef (Some (GName n)) rep).
Definition one_rule (name : string) (asg : list assignment) (m : list pmeta) : option (list rule) :=
  Some [mkRule None name [] [mkProduction asg m]].
Definition plus (mods : option (list string)) : option repetition := Some (mkRep OneOrMore mods).

(* F4   S: A+[Comma] X A+;   (8b45135) *)
Definition f4_file : file :=
  mkFile (one_rule "S" [nref "A" (plus (Some ["Comma"])); nref "X" None; nref "A" (plus None)] []) (Some [tA; tComma; tX]).
Example f4_regression : build_grammar rust_ident_ok f4_file = BError (ESepConflict "A").
Proof. vm_compute. reflexivity. Qed.

(* S: A* X A+[Comma];   the X1 helper of `*` records "no separator" *)
Definition f4_star_file : file :=
  mkFile (one_rule "S" [nref "A" (Some (mkRep ZeroOrMore None)); nref "X" None; nref "A" (plus (Some ["Comma"]))] [])
         (Some [tA; tComma; tX]).
Example f4_star_regression : build_grammar rust_ident_ok f4_star_file = BError (ESepConflict "A").
Proof. vm_compute. reflexivity. Qed.

(* S {right}: A {left} | B;   (8208c7d): the production's own `left` wins *)
Definition assoc_file : file :=
  mkFile (Some [mkRule None "S" [PMRight]
                  [mkProduction [nref "A" None] [PMLeft]; mkProduction [nref "B" None] []]])
         (Some [tA; tB]).
Example assoc_regression :
  match build_grammar rust_ident_ok assoc_file with
  | BDone g => map op_assoc (bg_prods g) = [ANone; ALeft; ARight]
  | _ => False
  end.
Proof. vm_compute. reflexivity. Qed.

(* terminals A: 'a';   (ebbe4d2) *)
Definition w_terminals_only : file := mkFile None (Some [tA]).
Example terminals_only_regression : build_grammar rust_ident_ok w_terminals_only = BError ENoRules.
Proof. vm_compute. reflexivity. Qed.

(* S: A*!;   S: (A A);   S: x=(A);   S: (A A)+;   S: A+[B, C];   (c8c7445) *)
Definition w_greedy : file := mkFile (one_rule "S" [nref "A" (Some (mkRep ZeroOrMoreGreedy None))] []) (Some [tA]).
Definition w_group : file := mkFile (one_rule "S" [ARef (mkRef None None)] []) (Some [tA]).
Definition w_group_named : file := mkFile (one_rule "S" [APlain "x" (mkRef None None)] []) (Some [tA]).
Definition w_group_rep : file := mkFile (one_rule "S" [ARef (mkRef None (plus None))] []) (Some [tA]).
Definition w_modifiers : file := mkFile (one_rule "S" [nref "A" (plus (Some ["B"; "C"]))] []) (Some [tA; tB; tC]).
Example unimplemented_syntax_regression :
  build_grammar rust_ident_ok w_greedy = BError EGreedy /\
  build_grammar rust_ident_ok w_group = BError EGroup /\
  build_grammar rust_ident_ok w_group_named = BError EGroup /\
  build_grammar rust_ident_ok w_group_rep = BError EGroup /\
  build_grammar rust_ident_ok w_modifiers = BError EModifiers.
Proof. vm_compute. repeat split; reflexivity. Qed.

(* name clashes (5a1b817) *)
Definition w_dup_terminal : file := mkFile (one_rule "S" [nref "A" None] []) (Some [tA; tA; tA; tA; tA]).
Definition w_stop_terminal : file := mkFile (one_rule "S" [nref "A" None] []) (Some [tA; mkTermRule None "STOP" (Some (RStr "b")) []]).
Definition w_helper_clash : file := mkFile (one_rule "AOpt" [nref "A" (Some (mkRep Optional None))] []) (Some [tA]).
Definition w_helper_rule : file :=
  mkFile (Some [mkRule None "S" [] [mkProduction [nref "A1" None; nref "X" None; nref "A" (plus None)] []];
                mkRule None "A1" [] [mkProduction [nref "Comma" None] []]]) (Some [tA; tComma; tX]).
Definition w_helper_terminal : file :=
  mkFile (one_rule "S" [nref "A" (plus None)] []) (Some [tA; mkTermRule None "A1" (Some (RStr "one")) []]).
Definition w_star_needs_one : file :=
  mkFile (Some [mkRule None "S" [] [mkProduction [nref "A" (Some (mkRep ZeroOrMore None))] []];
                mkRule None "A1" [] [mkProduction [nref "A" None] []]]) (Some [tA]).
Definition w_rule_terminal : file :=
  mkFile (Some [mkRule None "A" [] [mkProduction [ARef (mkRef (Some (GStr "a")) None)] []];
                mkRule None "S" [] [mkProduction [nref "A" None] []]]) (Some [tA]).
Definition w_reserved (n : string) : file :=
  mkFile (Some [mkRule None "S" [] [mkProduction [nref "A" None] []]; mkRule None n [] [mkProduction [nref "A" None] []]])
         (Some [tA]).
Example name_clash_regression :
  build_grammar rust_ident_ok w_dup_terminal = BError (EDupTerminal "A") /\
  build_grammar rust_ident_ok w_stop_terminal = BError (EDupTerminal "STOP") /\
  build_grammar rust_ident_ok w_helper_clash = BError (EHelperClash "AOpt" "A") /\
  build_grammar rust_ident_ok w_helper_rule = BError (EHelperClash "A1" "A") /\
  build_grammar rust_ident_ok w_helper_terminal = BError (EHelperClash "A1" "A") /\
  build_grammar rust_ident_ok w_star_needs_one = BError (EHelperClash "A1" "A") /\
  build_grammar rust_ident_ok w_rule_terminal = BError (ERuleTerminal "A") /\
  build_grammar rust_ident_ok (w_reserved "EMPTY") = BError (EReservedRule "EMPTY") /\
  build_grammar rust_ident_ok (w_reserved "AUG") = BError (EReservedRule "AUG") /\
  build_grammar rust_ident_ok (w_reserved "AUGL") = BError (EReservedRule "AUGL") /\
  build_grammar rust_ident_ok (w_reserved "STOP") = BError (ERuleTerminal "STOP").
Proof. vm_compute. repeat split; reflexivity. Qed.

(* S: A {fn};   (9193ac3) *)
Definition w_kind_keyword : file := mkFile (one_rule "S" [nref "A" None] [PMKind "fn"]) (Some [tA]).
Example kind_regression : build_grammar rust_ident_ok w_kind_keyword = BError (EIdent "fn").
Proof. vm_compute. reflexivity. Qed.

(* still a defect: S: A {4294967296};   rustemo_actions.rs:22 *)
Definition w_int_overflow : file := mkFile (one_rule "S" [nref "A" None] [PMPrio 4294967296%N]) (Some [tA]).
