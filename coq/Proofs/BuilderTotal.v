(* C16 for the builder model: outside the known classes of files, build_grammar never panics. *)
From Coq Require Import String Ascii NArith Permutation.
From RV Require Import Util Spec.Grammar Model.Builder Spec.BuilderSpec Proofs.Builder Proofs.BuilderPanic Proofs.BuilderWf.

Lemma Forall2_len {A B} (R : A -> B -> Prop) l1 l2 : Forall2 R l1 l2 -> length l1 = length l2.
Proof. induction 1; simpl; congruence. Qed.

Definition sym_ok (tl : nat) (nts : smap ntdata) (i : nat) : Prop :=
  i < tl \/ exists k nt, In (k, nt) nts /\ i = nd_idx nt + tl.

Definition inl_ok (tl : nat) (a : rassign) : Prop :=
  match ra_index a with None => True | Some i => i < tl end.

Definition res_ok (tl : nat) (nts : smap ntdata) (a : rassign) : Prop :=
  exists i, ra_index a = Some i /\ sym_ok tl nts i.

Lemma resolve_inline_rhs_range M tl rhs : forall rhs',
  (forall s tn i, sm_get s M = Some (tn, i) -> i < tl) ->
  Forall (fun a => ra_index a = None) rhs ->
  resolve_inline_rhs M rhs = ROk rhs' -> Forall (inl_ok tl) rhs'.
Proof.
  induction rhs as [|a rest IH]; simpl; intros rhs' HM Hu H.
  - inversion H; constructor.
  - inversion Hu as [|? ? Ha Hrest]; subst. inv_bind H. inv_bind H. inversion H; subst.
    constructor; [|eapply IH; eauto]. unfold inl_ok.
    destruct (ra_sym a).
    + inversion Hb; subst. rewrite Ha. exact I.
    + destruct (sm_get s M) as [[tn i]|] eqn:Eg; [|discriminate]. inversion Hb; subst; simpl. eapply HM; eauto.
Qed.

Lemma resolve_inline_range M tl ps : forall ps',
  (forall s tn i, sm_get s M = Some (tn, i) -> i < tl) ->
  unresolved ps -> resolve_inline M ps = ROk ps' -> Forall (fun p => Forall (inl_ok tl) (pd_rhs p)) ps'.
Proof.
  induction ps as [|x rest IH]; simpl; intros ps' HM Hu H.
  - inversion H; constructor.
  - inversion Hu; subst. inv_bind H. inv_bind H. inversion H; subst.
    constructor; [|eapply IH; eauto]. simpl. eapply resolve_inline_rhs_range; eauto.
Qed.

Lemma resolve_refs_rhs_range terms nts rl pn rhs : forall rhs',
  (forall k t, In (k, t) terms -> td_idx t < length terms) ->
  Forall (inl_ok (length terms)) rhs ->
  resolve_refs_rhs terms nts rl pn rhs = ROk rhs' -> Forall (res_ok (length terms) nts) rhs'.
Proof.
  induction rhs as [|a rest IH]; simpl; intros rhs' HT Hi H.
  - inversion H; constructor.
  - inversion Hi as [|? ? Ha Hrest]; subst. inv_bind H. inv_bind H. inversion H; subst.
    constructor; [|eapply IH; eauto]. unfold res_ok, inl_ok in *.
    destruct (ra_index a) as [i|] eqn:Ei.
    + inversion Hb; subst. exists i. split; [exact Ei|left; exact Ha].
    + inv_bind Hb. inversion Hb; subst; simpl. exists a2. split; [reflexivity|].
      unfold resolve_sym in Hb1. destruct (ra_sym a) as [n|n].
      * destruct (sm_get n terms) as [t|] eqn:Et.
        -- inversion Hb1; subst. left. eapply HT. eapply sm_get_In; eauto.
        -- destruct (existsb (String.eqb n) ["AUG"; "AUGL"]%string); [discriminate|].
           destruct (sm_get n nts) as [nt|] eqn:En; [|discriminate].
           destruct ((rl =? 1) && (nd_idx nt =? pn)); [discriminate|]. inversion Hb1; subst.
           right. exists n, nt. split; [eapply sm_get_In; eauto|reflexivity].
      * destruct (sm_get n terms) as [t|] eqn:Et; [|discriminate].
        inversion Hb1; subst. left. eapply HT. eapply sm_get_In; eauto.
Qed.

Lemma resolve_refs_range terms nts ps : forall ps',
  (forall k t, In (k, t) terms -> td_idx t < length terms) ->
  Forall (fun p => Forall (inl_ok (length terms)) (pd_rhs p)) ps ->
  resolve_refs terms nts ps = ROk ps' -> Forall (fun p => Forall (res_ok (length terms) nts) (pd_rhs p)) ps'.
Proof.
  induction ps as [|x rest IH]; simpl; intros ps' HT Hi H.
  - inversion H; constructor.
  - inversion Hi; subst. inv_bind H. inv_bind H. inversion H; subst.
    constructor; [|eapply IH; eauto]. simpl. eapply resolve_refs_rhs_range; eauto.
Qed.

Lemma rhs_symbols_range tl nts rhs : forall syms,
  Forall (res_ok tl nts) rhs -> rhs_symbols rhs = ROk syms -> Forall (sym_ok tl nts) syms.
Proof.
  induction rhs as [|a rest IH]; simpl; intros syms Hr H.
  - inversion H; constructor.
  - inversion Hr as [|? ? [i [Hi Hs]] Hrest]; subst. rewrite Hi in H. inv_bind H. inversion H; subst.
    constructor; [exact Hs|eapply IH; eauto].
Qed.

Lemma all_rhs_symbols_range tl nts ps : forall rhss,
  Forall (fun p => Forall (res_ok tl nts) (pd_rhs p)) ps -> all_rhs_symbols ps = ROk rhss ->
  Forall (Forall (sym_ok tl nts)) rhss.
Proof.
  induction ps as [|x rest IH]; simpl; intros rhss Hr H.
  - inversion H; constructor.
  - inversion Hr; subst. inv_bind H. inv_bind H. inversion H; subst.
    constructor; [eapply rhs_symbols_range; eauto|eapply IH; eauto].
Qed.

(* ------------------------------------------------------------------ mark_reachable with in-range data *)
Section ReachOk.
  Variable tl : nat.
  Variable nvec : list ntdata.
  Variable rhss : list (list nat).
  Hypothesis Hprods : forall nt, In nt nvec -> Forall (fun p => p < length rhss) (nd_prods nt).
  Hypothesis Hsyms : Forall (Forall (fun s => s < tl \/ s - tl < length nvec)) rhss.

  Section Inner.
    Variable rec : nat -> marks -> res marks.
    Hypothesis Hrec : forall pos mk p, pos < length nvec -> rec pos mk <> RPanic p.

    Lemma reach_syms_ok syms :
      Forall (fun s => s < tl \/ s - tl < length nvec) syms -> forall mk p, reach_syms tl rec syms mk <> RPanic p.
    Proof.
      induction syms as [|s rest IH]; simpl; intros Hf mk p H; [discriminate|].
      inversion Hf as [|? ? Hs Hrest]; subst.
      destruct (tl <=? s) eqn:E.
      - apply Nat.leb_le in E. apply bind_RPanic in H. destruct H as [H|[mk1 [_ H]]].
        + eapply Hrec; [|exact H]. destruct Hs; lia.
        + eapply IH; eauto.
      - eapply IH; eauto.
    Qed.

    Lemma reach_prods_ok ps :
      Forall (fun q => q < length rhss) ps -> forall mk p, reach_prods tl rhss rec ps mk <> RPanic p.
    Proof.
      induction ps as [|q rest IH]; simpl; intros Hf mk p H; [discriminate|].
      inversion Hf as [|? ? Hq Hrest]; subst.
      destruct (memb q (m_visited mk)); [eapply IH; eauto|].
      destruct (nth_error rhss q) as [syms|] eqn:En.
      - apply bind_RPanic in H. destruct H as [H|[mk1 [_ H]]]; [|eapply IH; eauto].
        eapply reach_syms_ok; [|exact H]. rewrite Forall_forall in Hsyms. apply Hsyms. eapply nth_error_In; eauto.
      - apply nth_error_None in En. lia.
    Qed.
  End Inner.

  Lemma mark_reachable_ok fuel : forall pos mk p,
    pos < length nvec -> mark_reachable fuel tl nvec rhss pos mk <> RPanic p.
  Proof.
    induction fuel as [|fuel IH]; simpl; intros pos mk p Hpos H; [discriminate|].
    destruct (nth_error nvec pos) as [nt|] eqn:En.
    - eapply reach_prods_ok; [|apply Hprods; eapply nth_error_In; eauto|exact H].
      intros pos' mk' p' Hp'. apply IH; exact Hp'.
    - apply nth_error_None in En. lia.
  Qed.
End ReachOk.

Section WithIdent.
  Variable ident_ok : string -> bool.

  Lemma matches_bound terms M n :
    matches_from terms M -> terms_ok terms n ->
    forall s tn i, sm_get s M = Some (tn, i) -> i < n.
  Proof.
    intros HM [_ HT] s tn i Hg. apply sm_get_In in Hg. destruct (HM _ _ _ Hg) as [k [t [Hin [_ [_ Hi]]]]].
    subst. eapply HT; eauto.
  Qed.

  Lemma assemble_no_reach st1 ps2 sn p :
    pos_ok st1 -> dense st1 [] 0 -> terms_ok (s_terms st1) (s_next_t st1) ->
    matches_from (s_terms st1) (s_matches st1) ->
    resolve_phase st1 = ROk ps2 ->
    assemble st1 ps2 sn = RPanic p -> ~ reach_site p.
  Proof.
    intros [Hp1 Hp2] [Hn [Hc [Hu _]]] Ht HM Hres H Hsite.
    pose proof (resolve_phase_shape _ _ Hres) as Hshape. apply Forall2_len in Hshape.
    unfold resolve_phase in Hres. inv_bind Hres.
    assert (HT : forall k t, In (k, t) (s_terms st1) -> td_idx t < length (s_terms st1)).
    { destruct Ht as [Hl Hi]. intros k t Hin. rewrite Hl. eapply Hi; eauto. }
    assert (Hr1 : Forall (fun q => Forall (inl_ok (length (s_terms st1))) (pd_rhs q)) a).
    { eapply resolve_inline_range; [|exact Hu|exact Hb]. destruct Ht as [Hl Hi]. rewrite Hl. eapply matches_bound; eauto. split; auto. }
    pose proof (resolve_refs_range _ _ _ _ HT Hr1 Hres) as Hr2.
    unfold assemble in H.
    apply bind_RPanic in H. destruct H as [H|[aug [_ H]]].
    { destruct (sm_get "AUG"%string (s_nts st1)); [discriminate|]. inversion H; subst. destruct Hsite as [E|[E|E]]; discriminate. }
    apply bind_RPanic in H. destruct H as [H|[start [Hstart H]]].
    { destruct (sm_get sn (s_nts st1)); [discriminate|]. inversion H; subst. destruct Hsite as [E|[E|E]]; discriminate. }
    apply bind_RPanic in H. destruct H as [H|[rhss [Hrhss H]]].
    { eapply all_rhs_symbols_no_panic; [|exact H]. eapply resolve_refs_all; eauto. }
    apply bind_RPanic in H. destruct H as [H|[mk [_ H]]]; [|discriminate].
    set (tl := length (s_terms st1)) in *.
    set (nvec := sort_by nd_idx (map snd (s_nts st1))) in *.
    assert (Hlen : length nvec = s_next_nt st1).
    { unfold nvec. rewrite sort_by_length, map_length. lia. }
    assert (Hstartpos : start - tl < length nvec).
    { destruct (sm_get sn (s_nts st1)) as [nt|] eqn:Eg; [|discriminate]. inversion Hstart; subst.
      apply sm_get_In in Eg. apply Hn in Eg. destruct Eg as [Eg _]. lia. }
    destruct (nth_error nvec (start - tl)) eqn:En; [|apply nth_error_None in En; lia].
    eapply mark_reachable_ok; [| |exact Hstartpos|exact H].
    - intros nt Hin. unfold nvec in Hin. apply sort_by_In in Hin. apply in_map_iff in Hin.
      destruct Hin as [[k nt'] [Heq Hin]]. simpl in Heq. subst nt'. apply Hn in Hin. destruct Hin as [_ Hin].
      pose proof (all_rhs_symbols_length _ _ Hrhss) as Hl. eapply Forall_impl; [|exact Hin]. simpl. intros q Hq. lia.
    - pose proof (all_rhs_symbols_range _ _ _ _ Hr2 Hrhss) as Hrange.
      eapply Forall_impl; [|exact Hrange]. intros syms Hs. eapply Forall_impl; [|exact Hs].
      intros s [Hlt|[k [nt [Hin Heq]]]]; [left; exact Hlt|right].
      apply Hn in Hin. destruct Hin as [Hin _]. subst s. fold tl. lia.
  Qed.

  Theorem builder_no_panic_known_main f :
    ast_shape_b f = true -> cls_int_overflow f = false -> forall p, build_grammar ident_ok f <> BPanic p.
  Proof.
    intros Hshape Hk p H.
    pose proof (builder_panic_sites ident_ok f p H Hshape Hk) as Hsite.
    unfold build_grammar in H. unfold cls_int_overflow in Hk. destruct (ints_ok f); [|discriminate]. simpl in H.
    destruct (build_res ident_ok f) as [g| |p'|] eqn:E; try discriminate. inversion H; subst p'; clear H.
    unfold build_res in E.
    apply bind_RPanic in E. destruct E as [E|[[terms next_t] [Ht E]]]; [eapply terms_phase_no_panic; eauto|].
    apply bind_RPanic in E. destruct E as [E|[st1 [Hr E]]].
    { unfold rules_phase in E. destruct (f_rules f) as [rs|]; [|discriminate].
      apply extract_rules_panic in E. destruct E as [_ E]. subst p. destruct Hsite as [X|[X|X]]; discriminate. }
    apply bind_RPanic in E. destruct E as [E|[ps2 [Hres E]]]; [eapply resolve_phase_no_panic; eauto|].
    pose proof (terms_phase_ok _ _ _ _ Ht) as Htok.
    pose proof (initial_matches_from f terms next_t) as HM.
    assert (Hinv : dense st1 [] 0 /\ pos_ok st1 /\ s_terms st1 = terms /\
                   s_matches st1 = s_matches (initial_state f terms next_t) /\ s_next_t st1 = next_t).
    { unfold rules_phase in Hr. destruct (f_rules f) as [rs|] eqn:Er; [|discriminate].
      assert (Hne : forall r, In r rs -> r_rhs r <> []).
      { intros r Hin. unfold ast_shape_b in Hshape. rewrite Er in Hshape. apply andb_prop in Hshape.
        destruct Hshape as [_ Hs]. rewrite forallb_forall in Hs. specialize (Hs r Hin).
        destruct (r_rhs r); [discriminate|discriminate]. }
      destruct (extract_rules_dense _ _ _ _ Hr eq_refl eq_refl eq_refl eq_refl Hne) as [G1 [G2 [G3 [G4 G5]]]].
      simpl in G3, G5. auto. }
    destruct Hinv as [Hd [Hpos [Hft [Hfm Hfn]]]].
    eapply assemble_no_reach; [exact Hpos|exact Hd| | |exact Hres|exact E|exact Hsite].
    - rewrite Hft, Hfn. exact Htok.
    - rewrite Hft, Hfm. exact HM.
  Qed.
End WithIdent.
