(* Vector actions of the default builder (Model/DefaultBuilder.v). *)
From RV Require Import Model.DefaultBuilder.

Lemma build_vec_main t : build_vec t = BVal (elems t).
Proof.
  induction t as [| x | t IH x | x t IH]; simpl; try reflexivity; rewrite IH; reflexivity.
Qed.
