(* The result of make_choices_name_unique does not depend on the HashMap iteration order,
   outside the index-clash class. *)
From Coq Require Import Permutation.
From RV Require Import Util Model.HashOrder.

Lemma name_eqb_eq a : forall b, name_eqb a b = true <-> a = b.
Proof.
  induction a as [|x a IH]; intros [|y b]; cbn [name_eqb]; split; intros H; try reflexivity; try discriminate.
  - apply andb_true_iff in H. destruct H as [H1 H2]. apply Nat.eqb_eq in H1. apply IH in H2. subst. reflexivity.
  - inversion H; subst. rewrite Nat.eqb_refl. cbn. apply IH. reflexivity.
Qed.

Lemma name_eqb_false a b : name_eqb a b = false <-> a <> b.
Proof.
  rewrite <- name_eqb_eq. destruct (name_eqb a b); split; intros H; try congruence; try discriminate.
Qed.

Lemma name_eq_dec (a b : name) : {a = b} + {a <> b}.
Proof. apply list_eq_dec. apply Nat.eq_dec. Qed.

Lemma renum_length nm : forall chs idx, length (renum nm idx chs) = length chs.
Proof.
  induction chs as [|c r IH]; intros idx; cbn [renum]; [reflexivity|].
  destruct (name_eqb c nm); cbn [length]; rewrite IH; reflexivity.
Qed.

Lemma renum_comm a b n :
  a <> b ->
  (forall k, 1 <= k <= n -> a ++ digits k <> b) ->
  (forall k, 1 <= k <= n -> b ++ digits k <> a) ->
  forall chs i j, i + length chs <= n -> j + length chs <= n ->
  renum a i (renum b j chs) = renum b j (renum a i chs).
Proof.
  intros Hab Ha Hb. induction chs as [|c r IH]; intros i j Hi Hj; [reflexivity|].
  cbn [length] in Hi, Hj. cbn [renum].
  destruct (name_eqb c b) eqn:Ecb; destruct (name_eqb c a) eqn:Eca.
  - apply name_eqb_eq in Ecb. apply name_eqb_eq in Eca. subst. contradiction.
  - cbn [renum]. rewrite Ecb.
    assert (Hn : name_eqb (c ++ digits (S j)) a = false).
    { apply name_eqb_false. apply name_eqb_eq in Ecb. subst c. apply Hb. lia. }
    rewrite Hn. f_equal. apply IH; lia.
  - cbn [renum]. rewrite Eca.
    assert (Hn : name_eqb (c ++ digits (S i)) b = false).
    { apply name_eqb_false. apply name_eqb_eq in Eca. subst c. apply Ha. lia. }
    rewrite Hn. f_equal. apply IH; lia.
  - cbn [renum]. rewrite Ecb, Eca. f_equal. apply IH; lia.
Qed.

Lemma step_length c0 chs nm : length (step c0 chs nm) = length chs.
Proof. unfold step. destruct (1 <? count nm c0); [apply renum_length|reflexivity]. Qed.

Definition safe_all (c0 : list name) (p : list name) : Prop :=
  forall a b, In a p -> In b p -> a <> b -> 1 < count a c0 -> 1 < count b c0 ->
              forall k, 1 <= k <= length c0 -> a ++ digits k <> b.

Lemma step_comm c0 chs x y :
  length chs = length c0 ->
  (x <> y -> 1 < count x c0 -> 1 < count y c0 ->
     (forall k, 1 <= k <= length c0 -> x ++ digits k <> y) /\
     (forall k, 1 <= k <= length c0 -> y ++ digits k <> x)) ->
  step c0 (step c0 chs y) x = step c0 (step c0 chs x) y.
Proof.
  intros Hl Hs. unfold step.
  destruct (1 <? count x c0) eqn:Ex; destruct (1 <? count y c0) eqn:Ey; try reflexivity.
  destruct (name_eq_dec x y) as [->|Hne]; [reflexivity|].
  apply Nat.ltb_lt in Ex. apply Nat.ltb_lt in Ey.
  destruct (Hs Hne Ex Ey) as [H1 H2].
  apply (renum_comm x y (length c0)); try assumption; lia.
Qed.

Lemma fold_step_perm c0 p1 p2 :
  Permutation p1 p2 -> safe_all c0 p1 ->
  forall chs, length chs = length c0 -> fold_left (step c0) p1 chs = fold_left (step c0) p2 chs.
Proof.
  intros HP. induction HP as [|x l l' HP IH|x y l|l l' l'' HP1 IH1 HP2 IH2]; intros Hs chs Hl.
  - reflexivity.
  - cbn [fold_left]. apply IH.
    + intros a b Ha Hb. apply Hs; right; assumption.
    + rewrite step_length. exact Hl.
  - cbn [fold_left]. f_equal. apply step_comm; [exact Hl|].
    intros Hne Hx Hy. split.
    + apply Hs; cbn; auto.
    + apply Hs; cbn; auto.
  - rewrite IH1 by assumption. apply IH2; [|exact Hl].
    intros a b Ha Hb. apply Hs; eapply Permutation_in; try eassumption; apply Permutation_sym; assumption.
Qed.

Lemma count_pos_In a c0 : 0 < count a c0 -> In a c0.
Proof.
  unfold count. intros H. destruct (filter (name_eqb a) c0) as [|x r] eqn:E; [cbn in H; lia|].
  assert (Hx : In x (filter (name_eqb a) c0)) by (rewrite E; left; reflexivity).
  apply filter_In in Hx. destruct Hx as [Hx He]. apply name_eqb_eq in He. subst. exact Hx.
Qed.

Lemma no_clash_safe c0 p : index_clash_b c0 = false -> safe_all c0 p.
Proof.
  intros Hc a b _ _ Hne Ha Hb k Hk Heq.
  assert (Hia : In a c0) by (apply count_pos_In; lia).
  assert (Hib : In b c0) by (apply count_pos_In; lia).
  assert (Ht : index_clash_b c0 = true).
  { unfold index_clash_b. apply existsb_exists. exists a. split; [exact Hia|].
    apply existsb_exists. exists b. split; [exact Hib|].
    apply Nat.ltb_lt in Ha. apply Nat.ltb_lt in Hb. rewrite Ha, Hb. cbn [andb].
    apply name_eqb_false in Hne. rewrite Hne. cbn [negb andb].
    unfold collide. apply existsb_exists. exists k. split.
    - apply in_seq. lia.
    - apply name_eqb_eq. exact Heq. }
  rewrite Ht in Hc. discriminate.
Qed.

Lemma hash_order_irrelevant_main choices p1 p2 :
  Permutation p1 p2 -> index_clash_b choices = false -> mcnu p1 choices = mcnu p2 choices.
Proof.
  intros HP Hc. unfold mcnu. apply fold_step_perm; [exact HP| |reflexivity].
  apply no_clash_safe. exact Hc.
Qed.
