(* Panic-freedom of the nondeterministic machine (Model/NLR.v) for every
   multi-action right-nulled table passing [safe_rn_b]: from any configuration a
   run can reach, NO action of the cell makes the machine panic (stack underflow,
   undefined goto, builder underflow, empty result stack, nullable tail without
   an empty derivation). *)
From RV Require Import Model.LR Model.NLR Spec.Validators Spec.ValidatorsRN Proofs.Enumerate Proofs.SoundRN Proofs.CompleteRN Proofs.ViableRN.
From RV Require Proofs.Sound.

(* every symbol of nul_iter g i has a derivation of the empty string of height <= i *)
Lemma nul_iter_tree g : forall i X, In X (nul_iter g i) ->
  exists t, valid_tree g t /\ root g t = X /\ yield t = [] /\ height t <= i.
Proof.
  induction i as [|i IH]; intros X HX; simpl in HX; [destruct HX|].
  unfold nul_round in HX. apply in_app_or in HX. destruct HX as [HX|HX].
  - destruct (IH X HX) as [t [Hv [Hr [Hy Hh]]]]. exists t. repeat split; auto.
  - apply in_map_iff in HX. destruct HX as [pr [Hl Hin]]. apply filter_In in Hin. destruct Hin as [Hin Hall].
    apply In_nth_error in Hin. destruct Hin as [p Hp].
    assert (Hcs : exists cs, Forall (valid_tree g) cs /\ map (root g) cs = p_rhs pr /\
                             flat_map yield cs = [] /\ list_max (map height cs) <= i).
    { rewrite forallb_forall in Hall. clear Hp. induction (p_rhs pr) as [|x xs IHx].
      - exists []. repeat split; [constructor|simpl; lia].
      - destruct IHx as [cs [Hv [Hm [Hy Hh]]]]; [intros y Hy; apply Hall; right; exact Hy|].
        specialize (Hall x (or_introl eq_refl)). apply memb_In in Hall.
        destruct (IH x Hall) as [t [Hvt [Hrt [Hyt Hht]]]].
        exists (t :: cs). repeat split.
        + constructor; assumption.
        + simpl. rewrite Hrt, Hm. reflexivity.
        + simpl. rewrite Hyt, Hy. reflexivity.
        + simpl. lia. }
    destruct Hcs as [cs [Hv [Hm [Hy Hh]]]].
    exists (Node p cs). repeat split.
    + econstructor; [exact Hp|exact Hm|exact Hv].
    + simpl. unfold lhs, get_prod. rewrite Hp. exact Hl.
    + exact Hy.
    + simpl. lia.
Qed.

Lemma eps_ok_tree g X : In X (eps_ok_syms g) -> exists t, eps_tree g X = Some t.
Proof.
  unfold eps_ok_syms. intros H. apply nodup_In in H.
  destruct (nul_iter_tree g _ _ H) as [t [Hv [Hr [Hy Hh]]]].
  pose proof (all_trees_complete_h (eps_bound g) g t Hv Hh) as Hin. rewrite Hr, Hy in Hin.
  unfold eps_tree. destruct (all_trees (eps_bound g) g X []) as [|t0 l]; [destruct Hin|]. exists t0. reflexivity.
Qed.

Section SafeRN.
Variable g : grammar.
Variable T : table.
Hypothesis Hwf : wf_grammar_b g = true.
Hypothesis Hsafe : safe_rn_b g T = true.

Lemma safe_sound : sound_rn_b g T = true.
Proof. pose proof Hsafe as H. unfold safe_rn_b in H. apply andb_true_iff in H. tauto. Qed.

Lemma safe_state s st : get_state T s = Some st ->
  goto_ok_b g st = true /\ no_aug_reduce_b g st = true /\ rn_tails_b g (eps_ok_syms g) st = true.
Proof.
  intros Hs. pose proof Hsafe as H. unfold safe_rn_b in H. apply andb_true_iff in H. destruct H as [_ H].
  cbv zeta in H. rewrite forallb_forall in H. specialize (H st (nth_error_In _ _ Hs)).
  apply andb_true_iff in H. destruct H as [H H3]. apply andb_true_iff in H. tauto.
Qed.

Lemma goto_defined s p :
  has_item T s p 0 -> is_aug_prod g p = false -> exists s', goto T s (lhs g p - g_nterm g) = Some s'.
Proof.
  intros [st [Hs Hb]] Haug. destruct (safe_state s st Hs) as [Hg _].
  apply has_itemb_spec in Hb. destruct Hb as [it [Hin [Hp Hi]]].
  unfold goto_ok_b in Hg. rewrite forallb_forall in Hg. specialize (Hg it Hin).
  rewrite Hp, Hi, Haug in Hg. simpl in Hg. unfold goto. rewrite Hs.
  destruct (nth_error (s_gotos st) (lhs g p - g_nterm g)) as [[s'|]|]; try discriminate. eauto.
Qed.

Lemma reduce_facts s a p len :
  In (Reduce p len) (cell T s a) ->
  is_aug_prod g p = false /\ exists ts, eps_trees g (skipn len (rhs g p)) = Some ts.
Proof.
  intros Hin. destruct (cell_In_state T _ _ _ Hin) as [st [Hs Hn]].
  destruct (safe_state s st Hs) as [_ [Hr Ht]]. split.
  - unfold no_aug_reduce_b in Hr. rewrite forallb_forall in Hr. specialize (Hr _ (nth_error_In _ _ Hn)).
    rewrite forallb_forall in Hr. specialize (Hr _ Hin). simpl in Hr. apply negb_true_iff in Hr. exact Hr.
  - unfold rn_tails_b in Ht. rewrite forallb_forall in Ht. specialize (Ht _ (nth_error_In _ _ Hn)).
    rewrite forallb_forall in Ht. specialize (Ht _ Hin). simpl in Ht.
    induction (skipn len (rhs g p)) as [|x xs IH]; [exists []; reflexivity|].
    simpl in Ht. apply andb_true_iff in Ht. destruct Ht as [Hx Hxs].
    destruct (IH Hxs) as [ts Hts]. apply memb_In in Hx.
    destruct (eps_ok_tree g x Hx) as [t Ht']. simpl. rewrite Ht', Hts. eauto.
Qed.

Lemma act_step_no_panic partial w c s stk a real act n :
  Inv g T w c -> c_stk c = s :: stk -> next_tok T partial s (c_inp c) = Tok a real ->
  In act (cell T s a) -> act_step g T c a real act <> Done (Panic n).
Proof.
  intros [Hl Hy Hp] Hstk Htok Hin Hstep. rewrite Hstk in Hl.
  destruct (action_ok g T safe_sound _ _ _ Hin) as [st [Hs Hok]].
  destruct act as [s'|p len|]; simpl in Hstep.
  - discriminate.
  - rewrite Hstk in Hstep.
    simpl in Hok. apply andb_true_iff in Hok. destruct Hok as [Hok _].
    apply andb_true_iff in Hok. destruct Hok as [Hitem _].
    assert (Hit : has_item T s p len) by (exists st; split; assumption).
    destruct (linked_top_items g T safe_sound 0 (is_start_0 T) _ _ _ _ _ Hl Hit) as [Hle [[si [Hsi Hsi0]] _]].
    pose proof (linked_length g T _ _ _ Hl) as Hlen. simpl in Hlen.
    destruct (length (s :: stk) <=? len) eqn:E1.
    { apply Nat.leb_le in E1. simpl in E1. lia. }
    destruct (skipn len (s :: stk)) as [|from stk'] eqn:Hskip.
    { pose proof (f_equal (@length nat) Hskip) as Hl2. rewrite skipn_length in Hl2. cbn [length] in Hl2.
      apply Nat.leb_gt in E1. cbn [length] in E1. lia. }
    assert (Hfrom : from = si).
    { pose proof (hd_error_skipn (s :: stk) len) as Hh. rewrite Hskip, Hsi in Hh. simpl in Hh. congruence. }
    subst from.
    destruct (reduce_facts _ _ _ _ Hin) as [Haug [ts Hts]].
    destruct (goto_defined si p Hsi0 Haug) as [s' Hg]. rewrite Hg in Hstep.
    destruct (length (c_trs c) <? len) eqn:E2.
    { apply Nat.ltb_lt in E2. lia. }
    rewrite Hts in Hstep. discriminate.
  - simpl in Hok. apply andb_true_iff in Hok. destruct Hok as [_ Hitems].
    destruct (c_trs c) as [|t0 ts] eqn:Htrs; [|discriminate].
    apply orb_true_iff in Hitems. destruct Hitems as [Hi|Hi].
    + assert (Hit : has_item T s 0 1) by (exists st; split; assumption).
      destruct (linked_top_items g T safe_sound 0 (is_start_0 T) _ _ _ _ _ Hl Hit) as [Hle _]. simpl in Hle. lia.
    + destruct (g_layout g); [|discriminate].
      assert (Hit : has_item T s 1 1) by (exists st; split; assumption).
      destruct (linked_top_items g T safe_sound 0 (is_start_0 T) _ _ _ _ _ Hl Hit) as [Hle _]. simpl in Hle. lia.
Qed.

Theorem nlr_no_panic_main partial w c s stk a real act n :
  nreach g T partial (init 0 w) c ->
  c_stk c = s :: stk -> next_tok T partial s (c_inp c) = Tok a real ->
  In act (cell T s a) -> act_step g T c a real act <> Done (Panic n).
Proof.
  intros Hr. eapply act_step_no_panic.
  eapply nreach_inv; [exact safe_sound|apply init_inv|exact Hr].
Qed.

(* a reachable configuration always has a non-empty state stack *)
Lemma nlr_stack_nonempty partial w c :
  nreach g T partial (init 0 w) c -> c_stk c <> [].
Proof.
  intros Hr. destruct (nreach_inv g T safe_sound partial w _ _ (init_inv g T w) Hr) as [Hl _ _].
  destruct (linked_last g T _ _ _ Hl) as [_ Hne]. exact Hne.
Qed.

End SafeRN.

Lemma nlr_no_panic_top : forall g T partial w c s stk a real act n,
  wf_grammar_b g = true -> safe_rn_b g T = true ->
  nreach g T partial (init 0 w) c ->
  c_stk c = s :: stk -> next_tok T partial s (c_inp c) = Tok a real ->
  In act (cell T s a) -> act_step g T c a real act <> Done (Panic n).
Proof. intros g T partial w c s stk a real act n Hwf Hs. exact (nlr_no_panic_main g T Hs partial w c s stk a real act n). Qed.

(* meaning of rn_complete_b: every item with a nullable remainder reduces, with the length of
   what is before the dot, on each of its lookaheads *)
Lemma rn_complete_meaning : forall g T s st it a,
  rn_complete_b g T = true -> get_state T s = Some st -> In it (s_items st) ->
  is_aug_prod g (i_prod it) = false ->
  (forall X, In X (skipn (i_pos it) (rhs g (i_prod it))) -> In X (eps_ok_syms g)) ->
  In a (i_follow it) ->
  In (Reduce (i_prod it) (i_pos it)) (cell T s a).
Proof.
  intros g T s st it a H Hs Hit Haug Hnull Ha.
  unfold rn_complete_b in H. cbv zeta in H. rewrite forallb_forall in H.
  specialize (H st (nth_error_In _ _ Hs)). unfold rn_complete_state_b in H.
  rewrite forallb_forall in H. specialize (H it Hit). cbv zeta in H. rewrite Haug in H.
  assert (Hall : forallb (fun X => memb X (eps_ok_syms g)) (skipn (i_pos it) (rhs g (i_prod it))) = true).
  { apply forallb_forall. intros X HX. apply memb_In. apply Hnull. exact HX. }
  rewrite Hall in H. rewrite forallb_forall in H. specialize (H a Ha).
  apply has_action_In in H. unfold cell. rewrite Hs. exact H.
Qed.
