(* Properties of the right-nulled normal form (Spec/Elide.v). *)
From Coq Require Import Permutation.
From RV Require Import Spec.Elide.

(* ------------------------------------------------------------------ *)
(* strip_trailing *)
Section strip.
  Context {A : Type}.
  Variable f : A -> bool.

  Lemma strip_cons x xs :
    strip_trailing f (x :: xs) =
    match strip_trailing f xs with [] => if f x then [] else [x] | r => x :: r end.
  Proof. reflexivity. Qed.

  Lemma strip_app_true l x : f x = true -> strip_trailing f (l ++ [x]) = strip_trailing f l.
  Proof.
    intros Hx. induction l as [|a l IH].
    - simpl. rewrite Hx. reflexivity.
    - rewrite <- app_comm_cons, !strip_cons, IH. reflexivity.
  Qed.

  Lemma strip_idem l : strip_trailing f (strip_trailing f l) = strip_trailing f l.
  Proof.
    induction l as [|a l IH]; [reflexivity|].
    rewrite strip_cons. destruct (strip_trailing f l) as [|b r] eqn:Hr.
    - destruct (f a) eqn:Ha; [reflexivity|]. simpl. rewrite Ha. reflexivity.
    - rewrite strip_cons, IH. reflexivity.
  Qed.

  Lemma strip_all_true l : forallb f l = true -> strip_trailing f l = [].
  Proof.
    induction l as [|a l IH]; [reflexivity|]. simpl. intros H. apply andb_true_iff in H.
    destruct H as [Ha Hl]. rewrite (IH Hl), Ha. reflexivity.
  Qed.
End strip.

Lemma strip_map {A B} (f : A -> bool) (f' : B -> bool) (m : A -> B) l :
  (forall x, In x l -> f' (m x) = f x) ->
  strip_trailing f' (map m l) = map m (strip_trailing f l).
Proof.
  induction l as [|a l IH]; intros H; [reflexivity|].
  cbn [map]. rewrite !strip_cons, IH by (intros x Hx; apply H; right; exact Hx).
  rewrite (H a (or_introl eq_refl)).
  destruct (strip_trailing f l); simpl; [destruct (f a); reflexivity|reflexivity].
Qed.

Lemma empty_yield_true t : empty_yield t = true <-> yield t = [].
Proof. unfold empty_yield. destruct (yield t); split; intros; congruence. Qed.

Lemma yield_strip l :
  flat_map yield (strip_trailing empty_yield l) = flat_map yield l.
Proof.
  induction l as [|a l IH]; [reflexivity|].
  rewrite strip_cons. destruct (strip_trailing empty_yield l) as [|b r] eqn:Hr.
  - simpl in IH. cbn [flat_map]. rewrite <- IH, app_nil_r.
    destruct (empty_yield a) eqn:Ha.
    + apply empty_yield_true in Ha. rewrite Ha. reflexivity.
    + simpl. rewrite app_nil_r. reflexivity.
  - cbn [flat_map] in *. rewrite IH. reflexivity.
Qed.

(* ------------------------------------------------------------------ *)
(* elide *)
Lemma elide_yield : forall t, yield (elide t) = yield t.
Proof.
  induction t as [a|p cs IH] using tree_ind'; [reflexivity|].
  cbn [elide yield]. rewrite yield_strip. rewrite flat_map_concat_map, map_map, <- flat_map_concat_map.
  induction IH as [|c cs Hc Hcs IHl]; [reflexivity|]. simpl. rewrite Hc, IHl. reflexivity.
Qed.

Lemma elide_root g t : root g (elide t) = root g t.
Proof. destruct t; reflexivity. Qed.

Lemma elide_empty_yield t : empty_yield (elide t) = empty_yield t.
Proof. unfold empty_yield. rewrite elide_yield. reflexivity. Qed.

Lemma elide_idem : forall t, elide (elide t) = elide t.
Proof.
  induction t as [a|p cs IH] using tree_ind'; [reflexivity|].
  cbn [elide]. f_equal.
  rewrite <- (strip_map empty_yield empty_yield elide) by (intros; apply elide_empty_yield).
  rewrite strip_idem. f_equal. rewrite map_map.
  apply map_ext_in. rewrite Forall_forall in IH. exact IH.
Qed.

(* tree_eq_mod_rn is an equivalence *)
Lemma tree_eq_mod_rn_refl t : tree_eq_mod_rn t t.
Proof. reflexivity. Qed.
Lemma tree_eq_mod_rn_sym t1 t2 : tree_eq_mod_rn t1 t2 -> tree_eq_mod_rn t2 t1.
Proof. unfold tree_eq_mod_rn. auto. Qed.
Lemma tree_eq_mod_rn_trans t1 t2 t3 :
  tree_eq_mod_rn t1 t2 -> tree_eq_mod_rn t2 t3 -> tree_eq_mod_rn t1 t3.
Proof. unfold tree_eq_mod_rn. congruence. Qed.

Lemma tree_eq_mod_rn_b_spec t1 t2 : tree_eq_mod_rn_b t1 t2 = true <-> tree_eq_mod_rn t1 t2.
Proof. unfold tree_eq_mod_rn_b, tree_eq_mod_rn. apply tree_eqb_eq. Qed.

Lemma tree_eq_mod_rn_yield t1 t2 : tree_eq_mod_rn t1 t2 -> yield t1 = yield t2.
Proof. unfold tree_eq_mod_rn. intros H. rewrite <- (elide_yield t1), H. apply elide_yield. Qed.

Lemma tree_eq_mod_rn_root g t1 t2 : tree_eq_mod_rn t1 t2 -> root g t1 = root g t2.
Proof. unfold tree_eq_mod_rn. intros H. rewrite <- (elide_root g t1), H. apply elide_root. Qed.

(* the normal form decides exactly rn_eq *)
Lemma rn_eq_elide t1 t2 : rn_eq t1 t2 -> elide t1 = elide t2.
Proof.
  induction 1 as [t|t1 t2 _ IH|t1 t2 t3 _ IH1 _ IH2|p cs c Hc|p pre c c' post _ IH].
  - reflexivity.
  - auto.
  - congruence.
  - cbn [elide]. f_equal. rewrite map_app. cbn [map]. apply strip_app_true.
    rewrite elide_empty_yield. apply empty_yield_true. exact Hc.
  - cbn [elide]. rewrite !map_app. cbn [map]. rewrite IH. reflexivity.
Qed.

Lemma rn_eq_children p : forall cs ds, Forall2 rn_eq cs ds ->
  forall pre, rn_eq (Node p (pre ++ cs)) (Node p (pre ++ ds)).
Proof.
  induction 1 as [|c d cs ds Hcd _ IH]; intros pre; [apply rn_refl|].
  eapply rn_trans; [apply rn_cong; exact Hcd|].
  specialize (IH (pre ++ [d])). rewrite <- !app_assoc in IH. exact IH.
Qed.

Lemma rn_eq_strip p : forall l pre,
  rn_eq (Node p (pre ++ l)) (Node p (pre ++ strip_trailing empty_yield l)).
Proof.
  induction l as [|a l IH]; intros pre; [apply rn_refl|].
  specialize (IH (pre ++ [a])). rewrite <- !app_assoc in IH. cbn [app] in IH.
  eapply rn_trans; [exact IH|]. rewrite strip_cons.
  destruct (strip_trailing empty_yield l) as [|b r]; [|apply rn_refl].
  destruct (empty_yield a) eqn:Ha; [|apply rn_refl].
  rewrite app_nil_r. apply rn_drop. apply empty_yield_true. exact Ha.
Qed.

Lemma rn_eq_to_elide : forall t, rn_eq t (elide t).
Proof.
  induction t as [a|p cs IH] using tree_ind'; [apply rn_refl|].
  cbn [elide]. eapply rn_trans.
  - apply (rn_eq_children p cs (map elide cs)) with (pre := []).
    induction IH as [|c cs Hc _ IHl]; constructor; assumption.
  - apply (rn_eq_strip p (map elide cs) []).
Qed.

Lemma elide_canonical_iff t1 t2 : tree_eq_mod_rn t1 t2 <-> rn_eq t1 t2.
Proof.
  split.
  - unfold tree_eq_mod_rn. intros H. eapply rn_trans; [apply rn_eq_to_elide|].
    rewrite H. apply rn_sym. apply rn_eq_to_elide.
  - apply rn_eq_elide.
Qed.

(* ------------------------------------------------------------------ *)
(* multiset comparison *)
Lemma remove_first_perm x : forall l r, remove_first x l = Some r -> Permutation l (x :: r).
Proof.
  induction l as [|y ys IH]; intros r H; simpl in H; [discriminate|].
  destruct (tree_eqb x y) eqn:He.
  - apply tree_eqb_eq in He. inversion H; subst. apply Permutation_refl.
  - destruct (remove_first x ys) as [r'|] eqn:Hr; [|discriminate]. inversion H; subst.
    eapply perm_trans; [apply perm_skip; apply IH; reflexivity|].
    apply perm_swap.
Qed.

Lemma multiset_eqb_perm : forall l1 l2, multiset_eqb l1 l2 = true -> Permutation l1 l2.
Proof.
  induction l1 as [|x xs IH]; intros l2 H; simpl in H.
  - destruct l2; [constructor|discriminate].
  - destruct (remove_first x l2) as [r|] eqn:Hr; [|discriminate].
    apply remove_first_perm in Hr. apply Permutation_sym.
    eapply perm_trans; [exact Hr|]. apply perm_skip.
    apply Permutation_sym. apply IH. exact H.
Qed.

(* ------------------------------------------------------------------ *)
(* annotated trees *)
Section atree_ind'.
  Variable P : atree -> Prop.
  Hypothesis HL : forall k i, P (ALeaf k i).
  Hypothesis HN : forall p i cs, Forall P cs -> P (ANode p i cs).
  Fixpoint atree_ind' (t : atree) : P t :=
    match t with
    | ALeaf k i => HL k i
    | ANode p i cs =>
        HN p i cs ((fix go (l : list atree) : Forall P l :=
                      match l with
                      | [] => Forall_nil P
                      | x :: xs => Forall_cons x (atree_ind' x) (go xs)
                      end) cs)
    end.
End atree_ind'.

Lemma erase_aelide : forall t, erase (aelide t) = elide (erase t).
Proof.
  induction t as [k i|p i cs IH] using atree_ind'; [reflexivity|].
  cbn [aelide erase elide]. f_equal.
  rewrite <- (strip_map aempty_yield empty_yield erase) by reflexivity.
  f_equal. rewrite !map_map. apply map_ext_in. rewrite Forall_forall in IH. exact IH.
Qed.

Lemma aelide_aempty_yield t : aempty_yield (aelide t) = aempty_yield t.
Proof. unfold aempty_yield. rewrite erase_aelide. apply elide_empty_yield. Qed.

Lemma aelide_idem : forall t, aelide (aelide t) = aelide t.
Proof.
  induction t as [k i|p i cs IH] using atree_ind'; [reflexivity|].
  cbn [aelide]. f_equal.
  rewrite <- (strip_map aempty_yield aempty_yield aelide) by (intros; apply aelide_aempty_yield).
  rewrite strip_idem. f_equal. rewrite map_map.
  apply map_ext_in. rewrite Forall_forall in IH. exact IH.
Qed.

Lemma atree_eqb_eq : forall t1 t2, atree_eqb t1 t2 = true <-> t1 = t2.
Proof.
  induction t1 as [a i|p i cs IH] using atree_ind'; destruct t2 as [b j|q j ds]; simpl;
    try (split; [discriminate|intros H; inversion H]).
  - rewrite andb_true_iff, Nat.eqb_eq, list_eqb_eq. split; [intros [-> ->]; reflexivity|].
    intros H; inversion H; auto.
  - rewrite !andb_true_iff, Nat.eqb_eq, list_eqb_eq.
    assert (Hgo : forall ds,
      (fix go (l1 l2 : list atree) : bool :=
         match l1, l2 with
         | [], [] => true
         | x :: xs, y :: ys => atree_eqb x y && go xs ys
         | _, _ => false
         end) cs ds = true <-> cs = ds).
    { clear ds. induction cs as [|x xs IHxs]; intros [|y ys];
        try (split; [discriminate|intros H; inversion H]); [tauto|].
      inversion IH as [|? ? Hx Hxs]; subst. rewrite andb_true_iff, Hx, (IHxs Hxs).
      split; [intros [-> ->]; reflexivity|intros H; inversion H; auto]. }
    rewrite Hgo. split; [intros [[-> ->] ->]; reflexivity|intros H; inversion H; auto].
Qed.

Lemma atree_eq_mod_rn_b_spec t1 t2 : atree_eq_mod_rn_b t1 t2 = true <-> atree_eq_mod_rn t1 t2.
Proof. unfold atree_eq_mod_rn_b, atree_eq_mod_rn. apply atree_eqb_eq. Qed.

(* equality modulo elision on annotated trees refines the one on plain trees *)
Lemma atree_eq_mod_rn_erase t1 t2 :
  atree_eq_mod_rn t1 t2 -> tree_eq_mod_rn (erase t1) (erase t2).
Proof.
  unfold atree_eq_mod_rn, tree_eq_mod_rn. intros H. rewrite <- !erase_aelide, H. reflexivity.
Qed.

Lemma atree_eq_mod_rn_equiv_main :
  (forall t, atree_eq_mod_rn t t) /\
  (forall t1 t2, atree_eq_mod_rn t1 t2 -> atree_eq_mod_rn t2 t1) /\
  (forall t1 t2 t3, atree_eq_mod_rn t1 t2 -> atree_eq_mod_rn t2 t3 -> atree_eq_mod_rn t1 t3) /\
  (forall t1 t2, atree_eq_mod_rn_b t1 t2 = true <-> atree_eq_mod_rn t1 t2).
Proof.
  unfold atree_eq_mod_rn. split; [reflexivity|]. split; [intros; symmetry; assumption|].
  split; [intros; congruence|exact atree_eq_mod_rn_b_spec].
Qed.
