(* Lemmas about the generated CLI / API model (Model/CliGen.v) for property C17. *)
From RV Require Import Util Model.Cli Model.CliGen Spec.CliSpec.

(* Settings::default() and every setter do what their documentation says (all states). *)
Lemma default_as_documented_main ev : gen_default ev = spec_default ev.
Proof. reflexivity. Qed.

Lemma setters_as_documented_main ev call s : gen_apply ev call s = spec_apply ev call s.
Proof.
  destruct ev as [eo em et].
  destruct s as [f1 f2 f3 f4 f5 f6 f7 f8 f9 f10 f11 f12 f13 f14 f15 f16 f17 f18 f19 f20 f21 f22 f23 f24 f25].
  destruct call; try reflexivity.
  - (* in_source_tree *) destruct f13; destruct f23; reflexivity.
  - (* actions_in_source_tree *) destruct f13; destruct f23; reflexivity.
  - (* parser_algo *) destruct a; reflexivity.
  - (* lexical_disamb_grammar_order *) destruct f7; destruct b; reflexivity.
  - (* trace *) destruct b; reflexivity.
Qed.

Ltac split_cli c :=
  destruct c as [f d na tr g o1 o2 ps nse tt pa gtt lt it bt bli ms lm go fr pp nsw pt ex vb];
  destruct pa; destruct ms as [[|]|]; destruct lm as [[|]|]; destruct go as [[|]|];
  destruct o1; destruct o2.

Lemma cli_equals_api_main ev c : settings_of_cli ev c = settings_of_api ev (api_of c).
Proof. split_cli c; reflexivity. Qed.

Lemma cli_panics_iff_main ev c site :
  settings_of_cli ev c = SPanic site <->
  (site = P_grammar_order_off_under_lr /\ c_parser_algo c = LR /\ c_lexical_disamb_grammar_order c = Some false).
Proof.
  split.
  - split_cli c; vm_compute; intros H; try discriminate H; inversion H; repeat split; reflexivity.
  - intros [-> [Ha Hg]].
    destruct c as [f d na tr g o1 o2 ps nse tt pa gtt lt it bt bli ms lm go fr pp nsw pt ex vb].
    cbn in Ha, Hg. subst pa go.
    destruct ms as [[|]|]; destruct lm as [[|]|]; destruct o1; destruct o2; reflexivity.
Qed.

Lemma cli_effective_always_main ev c s : settings_of_cli ev c = SOk s -> effective_always ev c s.
Proof.
  destruct ev as [eo em et].
  split_cli c; intros H; vm_compute in H; try discriminate H; injection H as <-; unfold effective_always;
    repeat split; try reflexivity; try (destruct tr; reflexivity); intros x Hx; simpl in Hx;
    try discriminate Hx; injection Hx as <-; reflexivity.
Qed.

Lemma cli_effective_shift_table_main ev c s :
  settings_of_cli ev c = SOk s -> c_parser_algo c = LR -> effective_shift_table c s.
Proof.
  destruct ev as [eo em et].
  split_cli c; intros H Ha; simpl in Ha; try discriminate Ha; vm_compute in H; try discriminate H;
    injection H as <-; unfold effective_shift_table; repeat split; reflexivity.
Qed.
