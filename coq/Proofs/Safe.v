(* Panic-freedom of the LR runtime model (token level) for every table passing
   [safe_b]: no empty-cell index, no stack underflow in pop_states, no
   undefined goto, no builder underflow, no empty result stack. *)
From RV Require Import Model.LR Spec.Validators Proofs.Sound.

Section Safe.
Variable g : grammar.
Variable T : table.
Hypothesis Hwf : wf_grammar_b g = true.
Hypothesis Hsafe : safe_b g T = true.

Lemma safe_sound : sound_b g T = true.
Proof. pose proof Hsafe as H. unfold safe_b in H. apply andb_true_iff in H. tauto. Qed.

Lemma safe_state s st : get_state T s = Some st ->
  goto_ok_b g st = true /\ no_aug_reduce_b g st = true.
Proof.
  intros Hs. pose proof Hsafe as H. unfold safe_b in H. apply andb_true_iff in H. destruct H as [_ H].
  rewrite forallb_forall in H. specialize (H st (nth_error_In _ _ Hs)). apply andb_true_iff in H. exact H.
Qed.

Lemma goto_defined s p :
  has_item T s p 0 -> is_aug_prod g p = false -> exists s', goto T s (lhs g p - g_nterm g) = Some s'.
Proof.
  intros [st [Hs Hb]] Haug. destruct (safe_state s st Hs) as [Hg _].
  apply has_itemb_spec in Hb. destruct Hb as [it [Hin [Hp Hi]]].
  unfold goto_ok_b in Hg. rewrite forallb_forall in Hg. specialize (Hg it Hin).
  rewrite Hp, Hi, Haug in Hg. simpl in Hg. unfold goto. rewrite Hs.
  destruct (nth_error (s_gotos st) (lhs g p - g_nterm g)) as [[s'|]|]; try discriminate. eauto.
Qed.

Lemma reduce_not_aug s a p len :
  In (Reduce p len) (cell T s a) -> is_aug_prod g p = false.
Proof.
  intros Hin. destruct (cell_In_state T _ _ _ Hin) as [st [Hs Hn]].
  destruct (safe_state s st Hs) as [_ Hr]. unfold no_aug_reduce_b in Hr.
  rewrite forallb_forall in Hr. specialize (Hr _ (nth_error_In _ _ Hn)).
  rewrite forallb_forall in Hr. specialize (Hr _ Hin). simpl in Hr. apply negb_true_iff in Hr. exact Hr.
Qed.

Lemma step_no_panic partial w c n :
  Inv g T w c -> step g T partial c <> Done (Panic n).
Proof.
  intros [Hl Hy Hp] Hstep. unfold step in Hstep.
  destruct (c_stk c) as [|s stk] eqn:Hstk.
  - destruct (linked_last g T _ _ _ Hl) as [_ Hne]. congruence.
  - destruct (next_tok T partial s (c_inp c)) as [a real|] eqn:Htok; [|discriminate].
    destruct (next_tok_cases T _ _ _ _ _ Htok) as [Hexp _].
    destruct (expected_lt g T safe_sound s a Hexp) as [_ Hne].
    destruct (cell T s a) as [|act acts] eqn:Hcell; [congruence|].
    assert (Hin : In act (cell T s a)) by (rewrite Hcell; left; reflexivity).
    destruct (action_ok g T safe_sound _ _ _ Hin) as [st [Hs Hok]].
    destruct act as [s'|p len|].
    + discriminate.
    + simpl in Hok. apply andb_true_iff in Hok. destruct Hok as [Hok _].
      apply andb_true_iff in Hok. destruct Hok as [Hitem _].
      assert (Hit : has_item T s p len) by (exists st; split; assumption).
      destruct (linked_top_items g T safe_sound 0 (is_start_0 T) _ _ _ _ _ Hl Hit) as [Hle [[si [Hsi Hsi0]] _]].
      pose proof (linked_length g T _ _ _ Hl) as Hlen. simpl in Hlen.
      destruct (length (s :: stk) <=? len) eqn:E1.
      { apply Nat.leb_le in E1. simpl in E1. lia. }
      destruct (skipn len (s :: stk)) as [|from stk'] eqn:Hskip.
      { pose proof (f_equal (@length nat) Hskip) as Hl2. rewrite skipn_length in Hl2. cbn [length] in Hl2.
        apply Nat.leb_gt in E1. cbn [length] in E1. lia. }
      assert (Hfrom : from = si).
      { pose proof (hd_error_skipn (s :: stk) len) as Hh. rewrite Hskip, Hsi in Hh. simpl in Hh. congruence. }
      subst from.
      destruct (goto_defined si p Hsi0 (reduce_not_aug _ _ _ _ Hin)) as [s' Hg]. rewrite Hg in Hstep.
      destruct (length (c_trs c) <? len) eqn:E2; [|discriminate].
      apply Nat.ltb_lt in E2. lia.
    + simpl in Hok. apply andb_true_iff in Hok. destruct Hok as [_ Hitems].
      destruct (c_trs c) as [|t0 ts] eqn:Htrs; [|discriminate].
      apply orb_true_iff in Hitems. destruct Hitems as [Hi|Hi].
      * assert (Hit : has_item T s 0 1) by (exists st; split; assumption).
        destruct (linked_top_items g T safe_sound 0 (is_start_0 T) _ _ _ _ _ Hl Hit) as [Hle _]. simpl in Hle. lia.
      * destruct (g_layout g); [|discriminate].
        assert (Hit : has_item T s 1 1) by (exists st; split; assumption).
        destruct (linked_top_items g T safe_sound 0 (is_start_0 T) _ _ _ _ _ Hl Hit) as [Hle _]. simpl in Hle. lia.
Qed.

Theorem lr_no_panic_main partial w : forall fuel n,
  parse g T partial fuel w <> Panic n.
Proof.
  unfold parse. assert (H : forall fuel c n, Inv g T w c -> run g T partial fuel c <> Panic n).
  { induction fuel as [|fuel IH]; intros c n Hinv; simpl; [discriminate|].
    destruct (step g T partial c) as [c'|o] eqn:Hstep.
    - apply IH. eapply step_inv; [exact safe_sound|exact Hinv|exact Hstep].
    - intros ->. eapply step_no_panic; eassumption. }
  intros fuel n. apply H. apply init_inv.
Qed.

End Safe.
