(* Panic-freedom of the LR runtime model (token level) for every table passing
   [safe_b]: no empty-cell index, no stack underflow in pop_states, no
   undefined goto, no builder underflow, no empty result stack. *)
From RV Require Import Model.LR Spec.Validators Proofs.Sound.

Section Safe.
Variable g : grammar.
Variable T : table.
Hypothesis Hwf : wf_grammar_b g = true.
Hypothesis Hsafe : safe_b g T = true.

Lemma safe_sound : sound_b g T = true.
Proof. pose proof Hsafe as H. unfold safe_b in H. apply andb_true_iff in H. tauto. Qed.

Lemma safe_state s st : get_state T s = Some st ->
  goto_ok_b g st = true /\ no_aug_reduce_b g st = true.
Proof.
  intros Hs. pose proof Hsafe as H. unfold safe_b in H. apply andb_true_iff in H. destruct H as [_ H].
  rewrite forallb_forall in H. specialize (H st (nth_error_In _ _ Hs)). apply andb_true_iff in H. exact H.
Qed.

Lemma goto_defined s p :
  has_item T s p 0 -> is_aug_prod g p = false -> exists s', goto T s (lhs g p - g_nterm g) = Some s'.
Proof.
  intros [st [Hs Hb]] Haug. destruct (safe_state s st Hs) as [Hg _].
  apply has_itemb_spec in Hb. destruct Hb as [it [Hin [Hp Hi]]].
  unfold goto_ok_b in Hg. rewrite forallb_forall in Hg. specialize (Hg it Hin).
  rewrite Hp, Hi, Haug in Hg. simpl in Hg. unfold goto. rewrite Hs.
  destruct (nth_error (s_gotos st) (lhs g p - g_nterm g)) as [[s'|]|]; try discriminate. eauto.
Qed.

Lemma reduce_not_aug s a p len :
  In (Reduce p len) (cell T s a) -> is_aug_prod g p = false.
Proof.
  intros Hin. destruct (cell_In_state T _ _ _ Hin) as [st [Hs Hn]].
  destruct (safe_state s st Hs) as [_ Hr]. unfold no_aug_reduce_b in Hr.
  rewrite forallb_forall in Hr. specialize (Hr _ (nth_error_In _ _ Hn)).
  rewrite forallb_forall in Hr. specialize (Hr _ Hin). simpl in Hr. apply negb_true_iff in Hr. exact Hr.
Qed.

Lemma step_no_panic partial w c n :
  Inv g T w c -> step g T partial c <> Done (Panic n).
Proof.
  intros [Hl Hy Hp] Hstep. unfold step in Hstep.
  destruct (c_stk c) as [|s stk] eqn:Hstk.
  - destruct (linked_last g T _ _ _ Hl) as [_ Hne]. congruence.
  - destruct (next_tok T partial s (c_inp c)) as [a real|] eqn:Htok; [|discriminate].
    destruct (next_tok_cases T _ _ _ _ _ Htok) as [Hexp _].
    destruct (expected_lt g T safe_sound s a Hexp) as [_ Hne].
    destruct (cell T s a) as [|act acts] eqn:Hcell; [congruence|].
    assert (Hin : In act (cell T s a)) by (rewrite Hcell; left; reflexivity).
    destruct (action_ok g T safe_sound _ _ _ Hin) as [st [Hs Hok]].
    destruct act as [s'|p len|].
    + discriminate.
    + simpl in Hok. apply andb_true_iff in Hok. destruct Hok as [Hok _].
      apply andb_true_iff in Hok. destruct Hok as [Hitem _].
      assert (Hit : has_item T s p len) by (exists st; split; assumption).
      destruct (linked_top_items g T safe_sound 0 (is_start_0 T) _ _ _ _ _ Hl Hit) as [Hle [[si [Hsi Hsi0]] _]].
      pose proof (linked_length g T _ _ _ Hl) as Hlen. simpl in Hlen.
      destruct (length (s :: stk) <=? len) eqn:E1.
      { apply Nat.leb_le in E1. simpl in E1. lia. }
      destruct (skipn len (s :: stk)) as [|from stk'] eqn:Hskip.
      { pose proof (f_equal (@length nat) Hskip) as Hl2. rewrite skipn_length in Hl2. cbn [length] in Hl2.
        apply Nat.leb_gt in E1. cbn [length] in E1. lia. }
      assert (Hfrom : from = si).
      { pose proof (hd_error_skipn (s :: stk) len) as Hh. rewrite Hskip, Hsi in Hh. simpl in Hh. congruence. }
      subst from.
      destruct (goto_defined si p Hsi0 (reduce_not_aug _ _ _ _ Hin)) as [s' Hg]. rewrite Hg in Hstep.
      destruct (length (c_trs c) <? len) eqn:E2; [|discriminate].
      apply Nat.ltb_lt in E2. lia.
    + simpl in Hok. apply andb_true_iff in Hok. destruct Hok as [_ Hitems].
      destruct (c_trs c) as [|t0 ts] eqn:Htrs; [|discriminate].
      apply orb_true_iff in Hitems. destruct Hitems as [Hi|Hi].
      * assert (Hit : has_item T s 0 1) by (exists st; split; assumption).
        destruct (linked_top_items g T safe_sound 0 (is_start_0 T) _ _ _ _ _ Hl Hit) as [Hle _]. simpl in Hle. lia.
      * destruct (g_layout g); [|discriminate].
        assert (Hit : has_item T s 1 1) by (exists st; split; assumption).
        destruct (linked_top_items g T safe_sound 0 (is_start_0 T) _ _ _ _ _ Hl Hit) as [Hle _]. simpl in Hle. lia.
Qed.

Theorem lr_no_panic_main partial w : forall fuel n,
  parse g T partial fuel w <> Panic n.
Proof.
  unfold parse. assert (H : forall fuel c n, Inv g T w c -> run g T partial fuel c <> Panic n).
  { induction fuel as [|fuel IH]; intros c n Hinv; simpl; [discriminate|].
    destruct (step g T partial c) as [c'|o] eqn:Hstep.
    - apply IH. eapply step_inv; [exact safe_sound|exact Hinv|exact Hstep].
    - intros ->. eapply step_no_panic; eassumption. }
  intros fuel n. apply H. apply init_inv.
Qed.

End Safe.

(* ---------- arbitrary (custom) lexers ---------- *)
Section CustomLexer.
Variable g : grammar.
Variable T : table.
Hypothesis Hwf : wf_grammar_b g = true.
Hypothesis Hsafe : safe_b g T = true.

Lemma step_lex_default partial c : step_lex g T (default_lex T partial) c = step g T partial c.
Proof.
  unfold step_lex, step, default_lex. destruct (c_stk c) as [|s stk]; reflexivity.
Qed.

Lemma run_lex_default partial : forall fuel c, run_lex g T (default_lex T partial) fuel c = run g T partial fuel c.
Proof.
  induction fuel as [|fuel IH]; intros c; simpl; [reflexivity|].
  rewrite step_lex_default. destruct (step g T partial c); [apply IH|reflexivity].
Qed.

Lemma cell_lt a s act : In act (cell T s a) -> a < g_nterm g.
Proof.
  intros Hin. destruct (cell_In_state T _ _ _ Hin) as [st [Hs Hn]].
  pose proof (shape_state g T (safe_sound g T Hsafe) s st Hs) as H. unfold shape_state_b in H.
  repeat (apply andb_true_iff in H; let H' := fresh "Hh" in destruct H as [H H']).
  apply Nat.eqb_eq in H. rewrite <- H. apply nth_error_Some. congruence.
Qed.

(* the stack discipline alone (no statement about the input) is invariant under ANY lexer *)
Lemma step_lex_linked lex c c' :
  linked g T 0 (c_stk c) (c_trs c) -> step_lex g T lex c = Next c' -> linked g T 0 (c_stk c') (c_trs c').
Proof.
  intros Hl Hstep. pose proof (safe_sound g T Hsafe) as Hsound. unfold step_lex in Hstep.
  destruct (c_stk c) as [|s stk] eqn:Hstk; [discriminate|].
  destruct (lex c) as [a real|]; [|discriminate].
  destruct (cell T s a) as [|act acts] eqn:Hcell; [discriminate|].
  assert (Hin : In act (cell T s a)) by (rewrite Hcell; left; reflexivity).
  destruct (action_ok g T Hsound _ _ _ Hin) as [st [Hs Hok]].
  destruct act as [s'|p len|].
  - inversion Hstep; subst c'; clear Hstep. simpl in Hok. apply Nat.ltb_lt in Hok. simpl.
    apply L_cons; [apply (cell_shift_trans g T); exact Hin| |exact Hl].
    constructor. split; [exact Hok|eapply cell_lt; exact Hin].
  - destruct (length (s :: stk) <=? len) eqn:Hlen; [discriminate|].
    destruct (skipn len (s :: stk)) as [|from stk'] eqn:Hskip; [discriminate|].
    destruct (goto T from (lhs g p - g_nterm g)) as [s'|] eqn:Hgoto; [|discriminate].
    destruct (length (c_trs c) <? len) eqn:Hlen2; [discriminate|].
    inversion Hstep; subst c'; clear Hstep. simpl.
    simpl in Hok. apply andb_true_iff in Hok. destruct Hok as [Hok Hlhs].
    apply andb_true_iff in Hok. destruct Hok as [Hitem Hlen3].
    apply Nat.eqb_eq in Hlen3. apply Nat.ltb_lt in Hlhs.
    assert (Hit : has_item T s p len) by (exists st; split; assumption).
    destruct (linked_top_items g T Hsound 0 (is_start_0 T) _ _ _ _ _ Hl Hit) as [Hle [_ Hmap]].
    rewrite Hlen3 in Hmap at 2. rewrite firstn_all in Hmap.
    pose proof (linked_skipn g T 0 len _ _ Hl Hle) as Hl'. rewrite Hskip in Hl'.
    destruct (item_wf g T Hsound _ _ _ Hit) as [pr [Hpr _]].
    assert (Hrhs : rhs g p = p_rhs pr) by (unfold rhs; rewrite Hpr; reflexivity).
    apply L_cons.
    + simpl. replace (lhs g p) with (g_nterm g + (lhs g p - g_nterm g)) by lia.
      apply (goto_trans g T). exact Hgoto.
    + econstructor; [exact Hpr| |].
      * rewrite <- Hrhs. exact Hmap.
      * apply Forall_rev. apply Forall_forall. intros x Hx.
        pose proof (linked_valid g T _ _ _ Hl) as Hv. rewrite Forall_forall in Hv. apply Hv.
        eapply In_firstn_In. exact Hx.
    + exact Hl'.
  - destruct (c_trs c); discriminate.
Qed.

Lemma step_lex_no_panic lex c n :
  linked g T 0 (c_stk c) (c_trs c) -> step_lex g T lex c <> Done (Panic n).
Proof.
  intros Hl Hstep. pose proof (safe_sound g T Hsafe) as Hsound. unfold step_lex in Hstep.
  destruct (c_stk c) as [|s stk] eqn:Hstk.
  - destruct (linked_last g T _ _ _ Hl) as [_ Hne]. congruence.
  - destruct (lex c) as [a real|]; [|discriminate].
    destruct (cell T s a) as [|act acts] eqn:Hcell; [discriminate|].
    assert (Hin : In act (cell T s a)) by (rewrite Hcell; left; reflexivity).
    destruct (action_ok g T Hsound _ _ _ Hin) as [st [Hs Hok]].
    destruct act as [s'|p len|].
    + discriminate.
    + simpl in Hok. apply andb_true_iff in Hok. destruct Hok as [Hok _].
      apply andb_true_iff in Hok. destruct Hok as [Hitem _].
      assert (Hit : has_item T s p len) by (exists st; split; assumption).
      destruct (linked_top_items g T Hsound 0 (is_start_0 T) _ _ _ _ _ Hl Hit) as [Hle [[si [Hsi Hsi0]] _]].
      pose proof (linked_length g T _ _ _ Hl) as Hlen. cbn [length] in Hlen.
      destruct (length (s :: stk) <=? len) eqn:E1.
      { apply Nat.leb_le in E1. cbn [length] in E1. lia. }
      destruct (skipn len (s :: stk)) as [|from stk'] eqn:Hskip.
      { pose proof (f_equal (@length nat) Hskip) as Hl2. rewrite skipn_length in Hl2. cbn [length] in Hl2.
        apply Nat.leb_gt in E1. cbn [length] in E1. lia. }
      assert (Hfrom : from = si).
      { pose proof (hd_error_skipn (s :: stk) len) as Hh. rewrite Hskip, Hsi in Hh. simpl in Hh. congruence. }
      subst from.
      destruct (goto_defined g T Hsafe si p Hsi0 (reduce_not_aug g T Hsafe _ _ _ _ Hin)) as [s' Hg]. rewrite Hg in Hstep.
      destruct (length (c_trs c) <? len) eqn:E2; [|discriminate].
      apply Nat.ltb_lt in E2. lia.
    + simpl in Hok. apply andb_true_iff in Hok. destruct Hok as [_ Hitems].
      destruct (c_trs c) as [|t0 ts] eqn:Htrs; [|discriminate].
      apply orb_true_iff in Hitems. destruct Hitems as [Hi|Hi].
      * assert (Hit : has_item T s 0 1) by (exists st; split; assumption).
        destruct (linked_top_items g T Hsound 0 (is_start_0 T) _ _ _ _ _ Hl Hit) as [Hle _]. simpl in Hle. lia.
      * destruct (g_layout g); [|discriminate].
        assert (Hit : has_item T s 1 1) by (exists st; split; assumption).
        destruct (linked_top_items g T Hsound 0 (is_start_0 T) _ _ _ _ _ Hl Hit) as [Hle _]. simpl in Hle. lia.
Qed.

Theorem lr_any_lexer_no_panic_main lex w : forall fuel n,
  run_lex g T lex fuel (init 0 w) <> Panic n.
Proof.
  assert (H : forall fuel c n, linked g T 0 (c_stk c) (c_trs c) -> run_lex g T lex fuel c <> Panic n).
  { induction fuel as [|fuel IH]; intros c n Hl; simpl; [discriminate|].
    destruct (step_lex g T lex c) as [c'|o] eqn:Hstep.
    - apply IH. eapply step_lex_linked; eassumption.
    - intros ->. eapply step_lex_no_panic; eassumption. }
  intros fuel n. apply H. simpl. constructor.
Qed.

End CustomLexer.
