(* Completeness of the nondeterministic LR machine (Model/NLR.v) for every
   multi-action table that passes [complete_rn_b]: for ANY derivation tree t of
   the start symbol there is an accepting run over the yield of t that returns
   exactly t (the run that reduces every empty child explicitly and uses the
   full-length reductions, which right-nulled tables keep).  Structure after
   Proofs/Complete.v. *)
From RV Require Import Model.LR Model.NLR Spec.Validators Spec.ValidatorsRN.

Section CompleteRN.
Variable g : grammar.
Variable T : table.
Hypothesis Hwf : wf_grammar_b g = true.
Hypothesis Hcomplete : complete_rn_b g T = true.

Let e := g_empty g.
Let F := t_first T.

Definition item_la (s p i : nat) (L : list nat) : Prop :=
  exists st it, get_state T s = Some st /\ In it (s_items st) /\
                i_prod it = p /\ i_pos it = i /\ i_follow it = L.

(* ---------- reading the validator ---------- *)
Lemma complete_parts :
  shape_b g T = true /\ first_closed_b g T = true /\ start_item_b T = true /\
  forall st, In st (t_states T) -> forall it, In it (s_items st) -> complete_item_rn_b g T st it = true.
Proof.
  pose proof Hcomplete as H. unfold complete_rn_b in H.
  apply andb_true_iff in H. destruct H as [H H4]. apply andb_true_iff in H. destruct H as [H H3].
  apply andb_true_iff in H. destruct H as [H1 H2]. repeat split; try assumption.
  intros st Hst it Hit. rewrite forallb_forall in H4. specialize (H4 st Hst).
  rewrite forallb_forall in H4. apply H4. exact Hit.
Qed.

Lemma find_item_la st p i it :
  find_item st p i = Some it -> In it (s_items st) /\ i_prod it = p /\ i_pos it = i.
Proof.
  unfold find_item. intros H. apply find_some in H. destruct H as [Hin Hb].
  apply andb_true_iff in Hb. rewrite !Nat.eqb_eq in Hb. tauto.
Qed.

Lemma actions_eqb_eq l1 : forall l2, actions_eqb l1 l2 = true -> l1 = l2.
Proof.
  unfold actions_eqb. induction l1 as [|a l1 IH]; destruct l2 as [|b l2]; simpl; try discriminate; auto.
  intros H. apply andb_true_iff in H. destruct H as [Hl H]. apply andb_true_iff in H. destruct H as [Hab H].
  apply action_eqb_eq in Hab. subst b. f_equal. apply IH. apply andb_true_iff. split; assumption.
Qed.

Lemma item_complete s st it :
  get_state T s = Some st -> In it (s_items st) -> complete_item_rn_b g T st it = true.
Proof.
  intros Hs Hit. destruct complete_parts as [_ [_ [_ H]]]. apply H; [|exact Hit].
  eapply nth_error_In. exact Hs.
Qed.

Lemma shape_state_c s st : get_state T s = Some st -> shape_state_b g T st = true.
Proof.
  intros Hs. destruct complete_parts as [H _]. unfold shape_b in H.
  apply andb_true_iff in H. destruct H as [_ H]. rewrite forallb_forall in H.
  apply H. eapply nth_error_In. exact Hs.
Qed.

Lemma cell_nonempty_expected s a : cell T s a <> [] -> In a (expected T s).
Proof.
  unfold cell, expected. destruct (get_state T s) as [st|] eqn:Hs; [|congruence].
  intros Hne. pose proof (shape_state_c s st Hs) as H. unfold shape_state_b in H.
  apply andb_true_iff in H. destruct H as [_ H]. rewrite subsetb_spec in H. apply H.
  unfold nonempty_cells. apply in_flat_map. exists (a, nth a (s_actions st) []). split.
  - apply In_indexed. destruct (nth_error (s_actions st) a) eqn:E.
    + erewrite nth_error_nth_default by exact E. reflexivity.
    + apply nth_error_None in E. rewrite nth_overflow in Hne by exact E. congruence.
  - destruct (nth a (s_actions st) []); [congruence|left; reflexivity].
Qed.

(* transitions prescribed by an item with a symbol after the dot *)
Lemma find_shift_In acts s' : find_shift acts = Some s' -> In (Shift s') acts.
Proof.
  unfold find_shift. destruct (find _ acts) as [x|] eqn:E; [|discriminate].
  apply find_some in E. destruct E as [Hin _]. destruct x; try discriminate.
  intros H; inversion H; subst. exact Hin.
Qed.

Lemma has_action_In acts x : has_action acts x = true -> In x acts.
Proof.
  unfold has_action. intros H. apply existsb_exists in H. destruct H as [y [Hin Hy]].
  apply action_eqb_eq in Hy. subst. exact Hin.
Qed.

Lemma K_trans s p i L X :
  item_la s p i L -> nth_error (rhs g p) i = Some X ->
  exists s' L',
    item_la s' p (S i) L' /\ incl L L' /\
    (if X <? g_nterm g then In (Shift s') (cell T s X) else goto T s (X - g_nterm g) = Some s').
Proof.
  intros [st [it [Hs [Hit [Hp [Hi HL]]]]]] HX.
  pose proof (item_complete s st it Hs Hit) as H. unfold complete_item_rn_b in H.
  rewrite Hp, Hi, HX in H. apply andb_true_iff in H. destruct H as [H _].
  destruct (target_rn g st X) as [s'|] eqn:Ht; [|discriminate].
  destruct (get_state T s') as [st'|] eqn:Hs'; [|discriminate].
  destruct (find_item st' p (S i)) as [it'|] eqn:Hf; [|discriminate].
  apply find_item_la in Hf. destruct Hf as [Hin' [Hp' Hi']].
  exists s', (i_follow it'). split; [exists st', it'; repeat split; assumption|].
  split; [rewrite HL in H; rewrite subsetb_spec in H; exact H|].
  unfold target_rn in Ht. destruct (X <? g_nterm g).
  - unfold cell. rewrite Hs. apply find_shift_In. exact Ht.
  - unfold goto. rewrite Hs. destruct (nth_error (s_gotos st) (X - g_nterm g)) as [[s2|]|]; try discriminate.
    inversion Ht; reflexivity.
Qed.

Lemma K_closure s p i L X q pr :
  item_la s p i L -> nth_error (rhs g p) i = Some X -> g_nterm g <= X ->
  get_prod g q = Some pr -> p_lhs pr = X ->
  exists L', item_la s q 0 L' /\
    (forall a, a <> e -> In a (firsts e F (skipn (S i) (rhs g p))) -> In a L') /\
    (In e (firsts e F (skipn (S i) (rhs g p))) -> incl L L').
Proof.
  intros [st [it [Hs [Hit [Hp [Hi HL]]]]]] HX Hge Hq Hlhs.
  pose proof (item_complete s st it Hs Hit) as H. unfold complete_item_rn_b in H.
  rewrite Hp, Hi, HX in H. apply andb_true_iff in H. destruct H as [_ H].
  destruct (X <? g_nterm g) eqn:Hlt; [apply Nat.ltb_lt in Hlt; lia|].
  unfold closure_ok_b in H. rewrite forallb_forall in H.
  specialize (H (q, pr)). cbv beta zeta iota in H. rewrite Hlhs, Nat.eqb_refl in H.
  assert (Hin : In (q, pr) (indexed (g_prods g))) by (apply In_indexed; exact Hq).
  specialize (H Hin). destruct (find_item st q 0) as [it'|] eqn:Hf; [|discriminate].
  apply find_item_la in Hf. destruct Hf as [Hin' [Hp' Hi']].
  apply andb_true_iff in H. destruct H as [H1 H2].
  exists (i_follow it'). split; [exists st, it'; repeat split; assumption|]. split.
  - intros a Hne Ha. rewrite subsetb_spec in H1. apply H1. apply filter_In. split; [exact Ha|].
    apply negb_true_iff, Nat.eqb_neq. exact Hne.
  - intros He. unfold e, F in He. apply memb_In in He. rewrite He in H2. rewrite HL in H2.
    rewrite subsetb_spec in H2. exact H2.
Qed.

Lemma K_red s p i L a :
  item_la s p i L -> i = length (rhs g p) -> is_aug_prod g p = false -> In a L ->
  In (Reduce p i) (cell T s a).
Proof.
  intros [st [it [Hs [Hit [Hp [Hi HL]]]]]] Hlen Haug Ha.
  pose proof (item_complete s st it Hs Hit) as H. unfold complete_item_rn_b in H.
  rewrite Hp, Hi in H. assert (Hn : nth_error (rhs g p) i = None) by (apply nth_error_None; lia).
  rewrite Hn, Haug in H. rewrite forallb_forall in H. rewrite HL in H. specialize (H a Ha).
  apply has_action_In in H. unfold cell. rewrite Hs. exact H.
Qed.

Lemma K_acc s L : item_la s 0 1 L -> length (rhs g 0) = 1 -> In Accept (cell T s 0).
Proof.
  intros [st [it [Hs [Hit [Hp [Hi HL]]]]]] Hlen.
  pose proof (item_complete s st it Hs Hit) as H. unfold complete_item_rn_b in H.
  rewrite Hp, Hi in H. assert (Hn : nth_error (rhs g 0) 1 = None) by (apply nth_error_None; lia).
  rewrite Hn in H. simpl in H. apply has_action_In in H. unfold cell. rewrite Hs. exact H.
Qed.

Lemma In_cell_ne s a x : In x (cell T s a) -> cell T s a <> [].
Proof. intros H E. rewrite E in H. destruct H. Qed.

(* ---------- FIRST table is closed, hence sound for derivation trees ---------- *)
Lemma first_term a : a < g_nterm g -> In a (first_of F a).
Proof.
  intros Ha. destruct complete_parts as [_ [H _]]. unfold first_closed_b in H.
  apply andb_true_iff in H. destruct H as [H _]. rewrite forallb_forall in H.
  apply memb_In. apply H. apply in_seq. lia.
Qed.

Lemma first_prod p pr : get_prod g p = Some pr ->
  incl (firsts e F (p_rhs pr)) (first_of F (p_lhs pr)).
Proof.
  intros Hp. destruct complete_parts as [_ [H _]]. unfold first_closed_b in H.
  apply andb_true_iff in H. destruct H as [_ H]. rewrite forallb_forall in H.
  specialize (H pr (nth_error_In _ _ Hp)). rewrite subsetb_spec in H. exact H.
Qed.

Lemma yield_terms t : valid_tree g t -> Forall (fun a => 0 < a < g_nterm g) (yield t).
Proof.
  induction 1 as [a Ha | p pr cs Hp Hr Hcs IH] using valid_tree_ind'.
  - simpl. constructor; [exact Ha|constructor].
  - simpl. clear Hp Hr Hcs. induction IH as [|c cs Hc _ IHcs]; simpl; [constructor|].
    apply Forall_app. split; assumption.
Qed.

Definition first_ok (t : tree) : Prop :=
  (forall a r, yield t = a :: r -> a <> e /\ In a (first_of F (root g t))) /\
  (yield t = [] -> In e (first_of F (root g t))).

Lemma first_sound_seq cs :
  Forall first_ok cs ->
  (forall a r, flat_map yield cs = a :: r -> a <> e /\ In a (firsts e F (map (root g) cs))) /\
  (flat_map yield cs = [] -> In e (firsts e F (map (root g) cs))).
Proof.
  induction 1 as [|c cs [Hc1 Hc2] _ [IH1 IH2]]; simpl.
  - split; [discriminate|]. intros _. left. reflexivity.
  - split.
    + intros a r Hy. destruct (yield c) as [|b r0] eqn:Hyc.
      * simpl in Hy. destruct (IH1 a r Hy) as [Hne Hin]. split; [exact Hne|].
        apply firsts_cons. right. split; [apply Hc2; reflexivity|exact Hin].
      * simpl in Hy. inversion Hy; subst b. destruct (Hc1 a r0 eq_refl) as [Hne Hin].
        split; [exact Hne|]. apply firsts_cons. left. split; assumption.
    + intros Hy. apply app_eq_nil in Hy. destruct Hy as [Hy1 Hy2].
      apply firsts_cons. right. split; [apply Hc2; exact Hy1|apply IH2; exact Hy2].
Qed.

Lemma first_sound t : valid_tree g t -> first_ok t.
Proof.
  induction 1 as [a Ha | p pr cs Hp Hr Hcs IH] using valid_tree_ind'.
  - split.
    + intros b r Hy. simpl in Hy. inversion Hy; subst b. split; [unfold e, g_empty; lia|].
      simpl. apply first_term. lia.
    + discriminate.
  - destruct (first_sound_seq cs IH) as [H1 H2]. unfold first_ok. simpl. unfold lhs. rewrite Hp.
    rewrite Hr in H1, H2. split.
    + intros a r Hy. destruct (H1 a r Hy) as [Hne Hin]. split; [exact Hne|].
      eapply first_prod; eassumption.
    + intros Hy. eapply first_prod; [eassumption|]. apply H2. exact Hy.
Qed.

Definition la (r : list nat) : nat := match r with [] => STOP | a :: _ => a end.

Definition need (beta L : list nat) (a : nat) : Prop :=
  (a <> e /\ In a (firsts e F beta)) \/ (In e (firsts e F beta) /\ In a L).

Lemma la_need cs L r :
  Forall (valid_tree g) cs -> In (la r) L ->
  need (map (root g) cs) L (la (flat_map yield cs ++ r)).
Proof.
  intros Hcs Hla.
  assert (Hok : Forall first_ok cs).
  { rewrite Forall_forall in *. intros x Hx. apply first_sound. auto. }
  destruct (first_sound_seq cs Hok) as [H1 H2].
  destruct (flat_map yield cs) as [|a r0] eqn:Hy.
  - simpl. right. split; [apply H2; reflexivity|exact Hla].
  - simpl. left. apply (H1 a r0 eq_refl).
Qed.

(* ---------- grammar facts ---------- *)
Lemma wf_prod_rhs_not_special p pr i X :
  get_prod g p = Some pr -> nth_error (p_rhs pr) i = Some X -> is_special g X = false /\ 0 < X.
Proof.
  intros Hp HX. pose proof Hwf as H. unfold wf_grammar_b in H. unfold get_prod in Hp.
  destruct (g_prods g) as [|p0 rest] eqn:Hprods; [discriminate|].
  repeat (apply andb_true_iff in H; let H' := fresh "Hw" in destruct H as [H H']).
  assert (Hstart : is_special g (g_start g) = false /\ 0 < g_start g).
  { apply negb_true_iff in Hw1. split; [exact Hw1|]. apply Nat.ltb_lt in Hw3. lia. }
  assert (Hprod : forall l, forallb (wf_prod_b g) l = true -> forall n pr', nth_error l n = Some pr' ->
            nth_error (p_rhs pr') i = Some X -> is_special g X = false /\ 0 < X).
  { intros l Hl n pr' Hn HX'. rewrite forallb_forall in Hl. specialize (Hl pr' (nth_error_In _ _ Hn)).
    unfold wf_prod_b in Hl. apply andb_true_iff in Hl. destruct Hl as [_ Hl]. rewrite forallb_forall in Hl.
    specialize (Hl X (nth_error_In _ _ HX')). apply andb_true_iff in Hl. destruct Hl as [Hl Hs].
    apply andb_true_iff in Hl. destruct Hl as [Hl _]. apply Nat.ltb_lt in Hl.
    apply negb_true_iff in Hs. tauto. }
  destruct p as [|p].
  - simpl in Hp. inversion Hp; subst pr. destruct (p_rhs p0) as [|x [|y r]]; try discriminate.
    apply Nat.eqb_eq in Hw4. subst x. destruct i as [|[|i]]; simpl in HX; try discriminate.
    inversion HX; subst X. exact Hstart.
  - simpl in Hp. destruct (g_layout g) as [l|] eqn:Hlay.
    + apply andb_true_iff in Hw. destruct Hw as [_ Hw]. destruct rest as [|p1 rest']; [discriminate|].
      repeat (apply andb_true_iff in Hw; let H' := fresh "Hv" in destruct Hw as [Hw H']).
      destruct p as [|p].
      * simpl in Hp. inversion Hp; subst pr. destruct (p_rhs p1) as [|x [|y r]]; try discriminate.
        apply Nat.eqb_eq in Hv3. subst x. destruct i as [|[|i]]; simpl in HX; try discriminate.
        inversion HX; subst X. apply negb_true_iff in Hv0. apply Nat.ltb_lt in Hv2. split; [exact Hv0|lia].
      * simpl in Hp. eapply Hprod; eassumption.
    + apply andb_true_iff in Hw. destruct Hw as [_ Hw]. eapply Hprod; eassumption.
Qed.

Lemma lhs_special_aug q pr : get_prod g q = Some pr -> is_special g (p_lhs pr) = false -> is_aug_prod g q = false.
Proof.
  intros Hq Hns. pose proof Hwf as H. unfold wf_grammar_b in H. unfold get_prod in Hq.
  destruct (g_prods g) as [|p0 rest] eqn:Hprods; [discriminate|].
  repeat (apply andb_true_iff in H; let H' := fresh "Hw" in destruct H as [H H']).
  unfold is_aug_prod. destruct q as [|q].
  - simpl in Hq. inversion Hq; subst pr. apply Nat.eqb_eq in H. rewrite H in Hns.
    unfold is_special in Hns. rewrite Nat.eqb_refl in Hns. rewrite orb_true_r in Hns. discriminate.
  - simpl. destruct (g_layout g) as [l|] eqn:Hlay; [|reflexivity].
    destruct q as [|q]; [|reflexivity]. exfalso.
    apply andb_true_iff in Hw. destruct Hw as [_ Hw]. destruct rest as [|p1 rest']; [discriminate|].
    repeat (apply andb_true_iff in Hw; let H' := fresh "Hv" in destruct Hw as [Hw H']).
    simpl in Hq. inversion Hq; subst pr. apply Nat.eqb_eq in Hw. rewrite Hw in Hns.
    unfold is_special in Hns. rewrite Hlay, Nat.eqb_refl in Hns. rewrite orb_true_r in Hns. discriminate.
Qed.

Lemma special_nonterm X : is_special g X = false -> 0 < X -> X < g_nterm g \/ g_nterm g < X.
Proof.
  intros Hs _. unfold is_special in Hs. apply orb_false_iff in Hs. destruct Hs as [Hs _].
  apply orb_false_iff in Hs. destruct Hs as [Hs _]. apply Nat.eqb_neq in Hs. unfold g_empty in Hs. lia.
Qed.

(* ---------- moves of the machine ---------- *)
Definition nstep (c c' : conf) : Prop :=
  exists s stk a real act,
    c_stk c = s :: stk /\ next_tok T false s (c_inp c) = Tok a real /\
    In act (cell T s a) /\ act_step g T c a real act = Next c'.

Inductive nsteps : conf -> conf -> Prop :=
| nsteps_refl c : nsteps c c
| nsteps_step c c' c'' : nstep c c' -> nsteps c' c'' -> nsteps c c''.

Lemma nsteps_trans c1 c2 c3 : nsteps c1 c2 -> nsteps c2 c3 -> nsteps c1 c3.
Proof. induction 1; intros H3; [exact H3|]. econstructor; [eassumption|auto]. Qed.

Lemma nsteps_one c c' : nstep c c' -> nsteps c c'.
Proof. intros H. econstructor; [exact H|constructor]. Qed.

Lemma nsteps_nrun c c' t k : nsteps c c' -> nrun g T false c' t k -> nrun g T false c t k.
Proof.
  induction 1 as [c|c c' c'' [s [stk [a [real [act [Hstk [Htok [Hin Hstep]]]]]]]] _ IH]; intros Hr; [exact Hr|].
  eapply NR_next; eauto.
Qed.

(* ---------- the main lemma ---------- *)
Definition follows (t : tree) : Prop :=
  forall s stk ts r k p i L,
    item_la s p i L -> nth_error (rhs g p) i = Some (root g t) ->
    need (skipn (S i) (rhs g p)) L (la r) ->
    Forall (fun a => a < g_nterm g) r ->
    exists s' L',
      item_la s' p (S i) L' /\ incl L L' /\
      nsteps (mkConf (s :: stk) ts (yield t ++ r) k)
             (mkConf (s' :: s :: stk) (t :: ts) r (k + length (yield t))).

Lemma next_tok_la s r :
  cell T s (la r) <> [] -> Forall (fun a => a < g_nterm g) r ->
  exists real, next_tok T false s r = Tok (la r) real /\
               (if real then tl r else r) = tl r /\ (real = true <-> r <> []).
Proof.
  intros Hc _. apply cell_nonempty_expected in Hc. apply memb_In in Hc.
  unfold next_tok. destruct r as [|a r]; simpl in *.
  - rewrite Hc. exists false. repeat split; try discriminate. intros H; congruence.
  - rewrite Hc. exists true. repeat split; intros; congruence.
Qed.

Lemma follow_children q pr :
  get_prod g q = Some pr ->
  forall cs, Forall (valid_tree g) cs -> Forall follows cs ->
  forall s stk ts r k j Lj,
    item_la s q j Lj -> map (root g) cs = skipn j (p_rhs pr) ->
    In (la r) Lj -> Forall (fun a => a < g_nterm g) r ->
    exists sf stkf Lf,
      nsteps (mkConf (s :: stk) ts (flat_map yield cs ++ r) k)
             (mkConf (sf :: stkf) (rev cs ++ ts) r (k + length (flat_map yield cs))) /\
      skipn (length cs) (sf :: stkf) = s :: stk /\
      item_la sf q (j + length cs) Lf /\ incl Lj Lf.
Proof.
  intros Hq. induction cs as [|c cs IH]; intros Hv Hf s stk ts r k j Lj Hit Hmap Hla Hr.
  - exists s, stk, Lj. simpl. rewrite !Nat.add_0_r. repeat split; try assumption.
    + constructor.
    + apply incl_refl.
  - inversion Hv as [|? ? Hvc Hvcs]; subst. inversion Hf as [|? ? Hfc Hfcs]; subst.
    simpl in Hmap.
    assert (Hrhs : rhs g q = p_rhs pr) by (unfold rhs; rewrite Hq; reflexivity).
    assert (Hj : nth_error (rhs g q) j = Some (root g c)).
    { rewrite Hrhs. rewrite <- (Nat.add_0_r j), <- nth_error_skipn, <- Hmap. reflexivity. }
    assert (Hrest : map (root g) cs = skipn (S j) (p_rhs pr)).
    { replace (S j) with (j + 1) by lia. rewrite <- skipn_skipn, <- Hmap. reflexivity. }
    assert (Hr' : Forall (fun a => a < g_nterm g) (flat_map yield cs ++ r)).
    { apply Forall_app. split; [|exact Hr]. clear - Hvcs.
      induction Hvcs as [|x xs Hx _ IHx]; simpl; [constructor|]. apply Forall_app. split; [|exact IHx].
      pose proof (yield_terms x Hx) as Hy. eapply Forall_impl; [|exact Hy]. simpl. intros; lia. }
    assert (Hneed : need (skipn (S j) (rhs g q)) Lj (la (flat_map yield cs ++ r))).
    { rewrite Hrhs, <- Hrest. apply la_need; assumption. }
    destruct (Hfc s stk ts (flat_map yield cs ++ r) k q j Lj Hit Hj Hneed Hr') as [s1 [L1 [Hit1 [Hincl1 Hsteps1]]]].
    assert (Hla1 : In (la r) L1) by (apply Hincl1; exact Hla).
    destruct (IH Hvcs Hfcs s1 (s :: stk) (c :: ts) r (k + length (yield c)) (S j) L1 Hit1 Hrest Hla1 Hr)
      as [sf [stkf [Lf [Hsteps2 [Hskip [Hitf Hinclf]]]]]].
    exists sf, stkf, Lf. repeat split.
    + simpl. rewrite <- app_assoc. eapply nsteps_trans; [exact Hsteps1|].
      rewrite <- app_assoc. simpl. rewrite app_length, Nat.add_assoc. exact Hsteps2.
    + simpl length. replace (S (length cs)) with (length cs + 1) by lia.
      rewrite <- skipn_skipn, Hskip. reflexivity.
    + simpl length. replace (j + S (length cs)) with (S j + length cs) by lia. exact Hitf.
    + eapply incl_tran; eassumption.
Qed.

Lemma follow_tree t : valid_tree g t -> follows t.
Proof.
  induction 1 as [a Ha | q pr cs Hq Hr Hcs IH] using valid_tree_ind';
    intros s stk ts r k p i L Hit HX Hneed Hrok.
  - (* leaf: shift *)
    simpl in HX. destruct (K_trans _ _ _ _ _ Hit HX) as [s' [L' [Hit' [Hincl Htr]]]].
    destruct (a <? g_nterm g) eqn:Hlt; [|apply Nat.ltb_ge in Hlt; lia].
    exists s', L'. split; [exact Hit'|]. split; [exact Hincl|].
    apply nsteps_one. exists s, stk, a, true, (Shift s').
    assert (Hexp : memb a (expected T s) = true).
    { apply memb_In. apply cell_nonempty_expected. eapply In_cell_ne. exact Htr. }
    cbn [c_stk c_trs c_inp c_pos]. split; [reflexivity|]. split.
    + unfold next_tok. simpl. rewrite Hexp. reflexivity.
    + split; [exact Htr|]. simpl. rewrite Nat.add_1_r. reflexivity.
  - (* node: closure item, children, reduce, goto *)
    simpl in HX. unfold lhs in HX. rewrite Hq in HX.
    assert (Hprhs : exists pp, get_prod g p = Some pp /\ rhs g p = p_rhs pp).
    { unfold rhs in *. destruct (get_prod g p) as [pp|]; [exists pp; auto|]. destruct i; discriminate. }
    destruct Hprhs as [pp [Hpp Hrhsp]].
    assert (HXns : is_special g (p_lhs pr) = false /\ 0 < p_lhs pr).
    { eapply wf_prod_rhs_not_special; [exact Hpp|]. rewrite <- Hrhsp. exact HX. }
    destruct HXns as [Hns Hpos].
    assert (Hnt : g_nterm g < p_lhs pr).
    { pose proof Hwf as Hw.
      destruct (special_nonterm _ Hns Hpos) as [Hl|Hl]; [|exact Hl]. exfalso.
      unfold wf_grammar_b in Hw. unfold get_prod in Hq.
      destruct (g_prods g) as [|p0 rest]; [discriminate|].
      repeat (apply andb_true_iff in Hw; let H' := fresh "Hw" in destruct Hw as [Hw H']).
      assert (Hp : forall l, forallb (wf_prod_b g) l = true -> forall n, nth_error l n = Some pr -> False).
      { intros l Hl' n Hn. rewrite forallb_forall in Hl'. specialize (Hl' pr (nth_error_In _ _ Hn)).
        unfold wf_prod_b in Hl'. repeat (apply andb_true_iff in Hl'; destruct Hl' as [Hl' ?]).
        apply Nat.ltb_lt in Hl'. lia. }
      destruct q as [|q].
      - simpl in Hq. inversion Hq; subst. apply Nat.eqb_eq in Hw. unfold g_aug in Hw. lia.
      - simpl in Hq. destruct (g_layout g).
        + apply andb_true_iff in Hw0. destruct Hw0 as [_ Hw0]. destruct rest as [|p1 rest']; [discriminate|].
          repeat (apply andb_true_iff in Hw0; let H' := fresh "Hv" in destruct Hw0 as [Hw0 H']).
          destruct q as [|q].
          * simpl in Hq. inversion Hq; subst. apply Nat.eqb_eq in Hw0. unfold g_augl in Hw0. lia.
          * simpl in Hq. eapply Hp; eassumption.
        + apply andb_true_iff in Hw0. destruct Hw0 as [_ Hw0]. eapply Hp; eassumption. }
    destruct (K_closure _ _ _ _ _ q pr Hit HX (Nat.lt_le_incl _ _ Hnt) Hq eq_refl) as [L0 [Hit0 [Hc1 Hc2]]].
    assert (Hla0 : In (la r) L0).
    { destruct Hneed as [[Hne Hin]|[He Hin]]; [apply Hc1; assumption|apply Hc2; assumption]. }
    assert (Hmap0 : map (root g) cs = skipn 0 (p_rhs pr)) by exact Hr.
    destruct (follow_children q pr Hq cs Hcs IH s stk ts r k 0 L0 Hit0 Hmap0 Hla0 Hrok)
      as [sf [stkf [Lf [Hsteps [Hskip [Hitf Hinclf]]]]]].
    destruct (K_trans _ _ _ _ _ Hit HX) as [s' [L' [Hit' [Hincl Htr]]]].
    destruct (p_lhs pr <? g_nterm g) eqn:Hlt; [apply Nat.ltb_lt in Hlt; lia|].
    exists s', L'. split; [exact Hit'|]. split; [exact Hincl|].
    eapply nsteps_trans; [exact Hsteps|]. apply nsteps_one.
    assert (Hlen : length cs = length (p_rhs pr)) by (rewrite <- Hr, map_length; reflexivity).
    assert (Hrhsq : rhs g q = p_rhs pr) by (unfold rhs; rewrite Hq; reflexivity).
    assert (Hcell : In (Reduce q (length cs)) (cell T sf (la r))).
    { eapply K_red; [exact Hitf|rewrite Hrhsq; simpl; lia| |apply Hinclf; exact Hla0].
      eapply lhs_special_aug; eassumption. }
    assert (Hcne : cell T sf (la r) <> []) by (eapply In_cell_ne; exact Hcell).
    destruct (next_tok_la sf r Hcne Hrok) as [real [Htok _]].
    exists sf, stkf, (la r), real, (Reduce q (length cs)).
    cbn [c_stk c_trs c_inp c_pos]. split; [reflexivity|]. split; [exact Htok|]. split; [exact Hcell|].
    unfold act_step. cbn [c_stk c_trs c_inp c_pos].
    assert (Hlenstk : (length (sf :: stkf) <=? length cs) = false).
    { apply Nat.leb_gt. pose proof (f_equal (@length nat) Hskip) as Hl. rewrite skipn_length in Hl. cbn [length] in *. lia. }
    rewrite Hlenstk, Hskip. unfold lhs. rewrite Hq, Htr.
    assert (Hlentrs : (length (rev cs ++ ts) <? length cs) = false).
    { apply Nat.ltb_ge. rewrite app_length, rev_length. lia. }
    rewrite Hlentrs.
    assert (Heps : eps_trees g (skipn (length cs) (rhs g q)) = Some []).
    { rewrite Hrhsq, Hlen, skipn_all. reflexivity. }
    rewrite Heps.
    assert (H1 : firstn (length cs) (rev cs ++ ts) = rev cs).
    { rewrite <- (rev_length cs). rewrite firstn_app, Nat.sub_diag, firstn_O, app_nil_r. apply firstn_all. }
    assert (H2 : skipn (length cs) (rev cs ++ ts) = ts).
    { rewrite <- (rev_length cs). rewrite skipn_app, Nat.sub_diag, skipn_all. reflexivity. }
    rewrite H1, H2, rev_involutive, app_nil_r. reflexivity.
Qed.

Theorem nlr_complete_main t :
  valid_tree g t -> root g t = g_start g ->
  nrun g T false (init 0 (yield t)) t (length (yield t)).
Proof.
  intros Hv Hroot.
  destruct complete_parts as [_ [_ [Hstart _]]]. unfold start_item_b in Hstart.
  destruct (get_state T 0) as [st0|] eqn:Hs0; [|discriminate].
  destruct (find_item st0 0 0) as [it0|] eqn:Hf0; [|discriminate].
  apply find_item_la in Hf0. destruct Hf0 as [Hin0 [Hp0 Hi0]]. apply memb_In in Hstart.
  assert (Hit0 : item_la 0 0 0 (i_follow it0)) by (exists st0, it0; repeat split; assumption).
  assert (Hrhs0 : rhs g 0 = [g_start g]).
  { pose proof Hwf as H. unfold wf_grammar_b in H. unfold rhs, get_prod.
    destruct (g_prods g) as [|p0 rest]; [discriminate|]. simpl.
    repeat (apply andb_true_iff in H; let H' := fresh "Hw" in destruct H as [H H']).
    destruct (p_rhs p0) as [|x [|y r]]; try discriminate. apply Nat.eqb_eq in Hw4. congruence. }
  assert (HX : nth_error (rhs g 0) 0 = Some (root g t)) by (rewrite Hrhs0, Hroot; reflexivity).
  assert (Hneed : need (skipn 1 (rhs g 0)) (i_follow it0) (la [])).
  { rewrite Hrhs0. simpl. right. split; [left; reflexivity|exact Hstart]. }
  destruct (follow_tree t Hv 0 [] [] [] 0 0 0 (i_follow it0) Hit0 HX Hneed (Forall_nil _))
    as [s' [L' [Hit' [Hincl Hsteps]]]].
  rewrite app_nil_r in Hsteps. simpl in Hsteps.
  eapply nsteps_nrun; [exact Hsteps|].
  assert (Hacc : In Accept (cell T s' 0)) by (eapply K_acc; [exact Hit'|rewrite Hrhs0; reflexivity]).
  assert (Hexp : memb STOP (expected T s') = true).
  { apply memb_In. apply cell_nonempty_expected. unfold STOP. eapply In_cell_ne. exact Hacc. }
  eapply NR_done with (s := s') (a := 0) (real := false) (act := Accept).
  - reflexivity.
  - cbn [c_inp]. unfold next_tok. rewrite Hexp. reflexivity.
  - exact Hacc.
  - reflexivity.
Qed.

End CompleteRN.

Lemma nlr_complete_top : forall g T t,
  wf_grammar_b g = true -> complete_rn_b g T = true ->
  valid_tree g t -> root g t = g_start g ->
  nrun g T false (init 0 (yield t)) t (length (yield t)).
Proof. intros g T t Hwf Hc. exact (nlr_complete_main g T Hwf Hc t). Qed.

(* the accepting runs over an input are EXACTLY its derivation trees *)
From RV Require Import Proofs.SoundRN.

Lemma nlr_exact_main : forall g T w t,
  wf_grammar_b g = true -> sound_rn_b g T = true -> complete_rn_b g T = true -> ~ In STOP w ->
  (nrun g T false (init 0 w) t (length w) <->
   valid_tree g t /\ root g t = g_start g /\ yield t = w).
Proof.
  intros g T w t Hwf Hs Hc Hno. split.
  - intros Hrun. destruct (nlr_sound_top g T false w t (length w) Hwf Hs Hrun) as [Hv [Hr [Hy _]]].
    split; [exact Hv|]. split; [exact Hr|]. rewrite Hy. apply firstn_all.
  - intros [Hv [Hr Hy]]. subst w. apply nlr_complete_top; assumption.
Qed.

(* a run that accepts consumes the whole input (full parse, no STOP inside) *)
Lemma nlr_accepts_all : forall g T w t k,
  wf_grammar_b g = true -> sound_rn_b g T = true -> ~ In STOP w ->
  nrun g T false (init 0 w) t k -> k = length w.
Proof.
  intros g T w t k Hwf Hs Hno Hrun.
  destruct (nlr_sound_top g T false w t k Hwf Hs Hrun) as [_ [_ [_ [_ Hfull]]]]. apply Hfull; auto.
Qed.
