(* C07 at the level of the two TABLES: for one grammar, an LR table passing
   sound_b/complete_b (the LALR / LALR_PAGER table of the LR parser) and a
   multi-action right-nulled table passing sound_rn_b/complete_rn_b (the LALR_RN
   table of the GLR parser):  the nondeterministic machine over the GLR table
   accepts exactly the inputs the LR machine accepts, and its ONLY result is the
   tree the LR machine returns. *)
From RV Require Import Model.LR Model.NLR Spec.Validators Spec.ValidatorsRN.
From RV Require Import Proofs.Sound Proofs.Complete Proofs.SoundRN Proofs.CompleteRN.

Section Agree.
Variable g : grammar.
Variables Tlr Trn : table.
Hypothesis Hwf : wf_grammar_b g = true.
Hypothesis Hs : sound_b g Tlr = true.
Hypothesis Hc : complete_b g Tlr = true.
Hypothesis Hsr : sound_rn_b g Trn = true.
Hypothesis Hcr : complete_rn_b g Trn = true.

Lemma unique t1 t2 :
  valid_tree g t1 -> valid_tree g t2 -> root g t1 = g_start g -> root g t2 = g_start g ->
  yield t1 = yield t2 -> t1 = t2.
Proof.
  intros Hv1 Hv2 Hr1 Hr2 Hy.
  destruct (lr_complete_main g Tlr Hwf Hc t1 Hv1 Hr1) as [f1 H1].
  destruct (lr_complete_main g Tlr Hwf Hc t2 Hv2 Hr2) as [f2 H2].
  rewrite <- Hy in H2. unfold parse in *.
  assert (E1 := run_mono g Tlr false f1 _ _ H1 ltac:(discriminate) (f1 + f2) ltac:(lia)).
  assert (E2 := run_mono g Tlr false f2 _ _ H2 ltac:(discriminate) (f1 + f2) ltac:(lia)).
  rewrite E1 in E2. inversion E2. reflexivity.
Qed.

(* LR accepts with tree t: the GLR machine accepts, and every accepting run returns t *)
Lemma agree_ok w fuel t k :
  ~ In STOP w -> parse g Tlr false fuel w = Ok t k ->
  nrun g Trn false (init 0 w) t (length w) /\
  (forall t' k', nrun g Trn false (init 0 w) t' k' -> t' = t /\ k' = length w).
Proof.
  intros Hno Hp.
  destruct (lr_sound_main g Tlr Hwf Hs false fuel w t k Hp) as [Hv [Hr [Hy [_ Hk]]]].
  specialize (Hk eq_refl Hno). subst k. rewrite firstn_all in Hy. split.
  - rewrite <- Hy. apply nlr_complete_top; assumption.
  - intros t' k' Hrun.
    destruct (nlr_sound_top g Trn false w t' k' Hwf Hsr Hrun) as [Hv' [Hr' [Hy' [_ Hk']]]].
    specialize (Hk' eq_refl Hno). subst k'. rewrite firstn_all in Hy'. split; [|reflexivity].
    apply unique; try assumption. congruence.
Qed.

(* the GLR machine accepts: the LR machine accepts with the same tree *)
Lemma agree_glr w t k :
  ~ In STOP w -> nrun g Trn false (init 0 w) t k ->
  exists fuel, parse g Tlr false fuel w = Ok t (length w).
Proof.
  intros Hno Hrun.
  destruct (nlr_sound_top g Trn false w t k Hwf Hsr Hrun) as [Hv [Hr [Hy [_ Hk]]]].
  specialize (Hk eq_refl Hno). subst k. rewrite firstn_all in Hy.
  destruct (lr_complete_main g Tlr Hwf Hc t Hv Hr) as [fuel H]. exists fuel. rewrite Hy in H. exact H.
Qed.

(* LR rejects: no run of the GLR machine accepts *)
Lemma agree_err w fuel k ex t' k' :
  ~ In STOP w -> parse g Tlr false fuel w = Err k ex -> ~ nrun g Trn false (init 0 w) t' k'.
Proof.
  intros Hno Herr Hrun. destruct (agree_glr w t' k' Hno Hrun) as [fuel' H].
  unfold parse in *.
  assert (E1 := run_mono g Tlr false fuel _ _ Herr ltac:(discriminate) (fuel + fuel') ltac:(lia)).
  assert (E2 := run_mono g Tlr false fuel' _ _ H ltac:(discriminate) (fuel + fuel') ltac:(lia)).
  rewrite E1 in E2. discriminate.
Qed.

End Agree.

Lemma tables_agree_main : forall g Tlr Trn w,
  wf_grammar_b g = true -> sound_b g Tlr = true -> complete_b g Tlr = true ->
  sound_rn_b g Trn = true -> complete_rn_b g Trn = true -> ~ In STOP w ->
  (forall fuel t k, parse g Tlr false fuel w = Ok t k ->
     nrun g Trn false (init 0 w) t (length w) /\
     (forall t' k', nrun g Trn false (init 0 w) t' k' -> t' = t /\ k' = length w)) /\
  (forall t k, nrun g Trn false (init 0 w) t k -> exists fuel, parse g Tlr false fuel w = Ok t (length w)) /\
  (forall fuel k ex t' k', parse g Tlr false fuel w = Err k ex -> ~ nrun g Trn false (init 0 w) t' k').
Proof.
  intros g Tlr Trn w Hwf Hs Hc Hsr Hcr Hno. split; [|split].
  - intros fuel t k H. eapply agree_ok; eassumption.
  - intros t k H. eapply agree_glr; eassumption.
  - intros fuel k ex t' k' H. eapply agree_err; eassumption.
Qed.
