(* The fuel given to mark_reachable_symbols always suffices: build_grammar never returns BOutOfFuel. *)
From Coq Require Import String Ascii NArith Permutation.
From RV Require Import Util Spec.Grammar Model.Builder Spec.BuilderSpec Proofs.Builder Proofs.BuilderPanic.

Section ReachFuel.
  Variable tl : nat.
  Variable nvec : list ntdata.
  Variable rhss : list (list nat).

  Definition good (mk : marks) : Prop :=
    NoDup (m_visited mk) /\ Forall (fun p => p < length rhss) (m_visited mk).

  Lemma good_len mk : good mk -> length (m_visited mk) <= length rhss.
  Proof.
    intros [Hnd Hf]. rewrite <- (seq_length (length rhss) 0). apply NoDup_incl_length; [exact Hnd|].
    intros x Hx. rewrite Forall_forall in Hf. apply in_seq. specialize (Hf x Hx). lia.
  Qed.

  Definition post (mk : marks) (r : res marks) : Prop :=
    r <> RFuel /\ forall mk', r = ROk mk' -> good mk' /\ length (m_visited mk) <= length (m_visited mk').

  Definition rec_ok (rec : nat -> marks -> res marks) (f : nat) : Prop :=
    forall pos mk, good mk -> f + length (m_visited mk) > length rhss -> post mk (rec pos mk).

  Lemma reach_syms_fuel rec f : rec_ok rec f -> forall syms mk,
    good mk -> f + length (m_visited mk) > length rhss -> post mk (reach_syms tl rec syms mk).
  Proof.
    intros Hrec. induction syms as [|s rest IH]; simpl; intros mk Hg Hf.
    - split; [discriminate|]. intros mk' H; inversion H; subst. split; [exact Hg|lia].
    - destruct (tl <=? s).
      + destruct (Hrec (s - tl) mk Hg Hf) as [Hnf Hpost].
        destruct (rec (s - tl) mk) as [mk1| | |] eqn:E; simpl.
        * destruct (Hpost mk1 eq_refl) as [Hg1 Hl1].
          destruct (IH mk1 Hg1 ltac:(lia)) as [Hnf2 Hpost2]. split; [exact Hnf2|].
          intros mk' H. destruct (Hpost2 mk' H) as [G1 G2]. split; [exact G1|lia].
        * split; [discriminate|]. intros mk' H; discriminate.
        * split; [discriminate|]. intros mk' H; discriminate.
        * exfalso. apply Hnf. reflexivity.
      + apply (IH (mkMarks (m_visited mk) (m_nts mk) (s :: m_terms mk))); assumption.
  Qed.

  Lemma reach_prods_fuel rec f : rec_ok rec f -> forall ps mk,
    good mk -> S f + length (m_visited mk) > length rhss -> post mk (reach_prods tl rhss rec ps mk).
  Proof.
    intros Hrec. induction ps as [|p rest IH]; simpl; intros mk Hg Hf.
    - split; [discriminate|]. intros mk' H; inversion H; subst. split; [exact Hg|lia].
    - destruct (memb p (m_visited mk)) eqn:Em; [apply IH; assumption|].
      destruct (nth_error rhss p) as [syms|] eqn:En.
      + assert (Hp : p < length rhss) by (apply nth_error_Some; congruence).
        set (mk0 := mkMarks (p :: m_visited mk) (m_nts mk) (m_terms mk)).
        assert (Hg0 : good mk0).
        { destruct Hg as [H1 H2]. split; simpl.
          - constructor; [apply memb_false; exact Em|exact H1].
          - constructor; assumption. }
        destruct (reach_syms_fuel rec f Hrec syms mk0 Hg0 ltac:(simpl; lia)) as [Hnf Hpost].
        destruct (reach_syms tl rec syms mk0) as [mk1| | |] eqn:E; simpl.
        * destruct (Hpost mk1 eq_refl) as [Hg1 Hl1]. simpl in Hl1.
          destruct (IH mk1 Hg1 ltac:(lia)) as [Hnf2 Hpost2]. split; [exact Hnf2|].
          intros mk' H. destruct (Hpost2 mk' H) as [G1 G2]. split; [exact G1|lia].
        * split; [discriminate|]. intros mk' H; discriminate.
        * split; [discriminate|]. intros mk' H; discriminate.
        * exfalso. apply Hnf. reflexivity.
      + split; [discriminate|]. intros mk' H; discriminate.
  Qed.

  Lemma mark_reachable_fuel fuel : rec_ok (mark_reachable fuel tl nvec rhss) fuel.
  Proof.
    induction fuel as [|f IH]; intros pos mk Hg Hf.
    - pose proof (good_len mk Hg). simpl in Hf. lia.
    - simpl. destruct (nth_error nvec pos) as [nt|].
      + set (mk0 := mkMarks (m_visited mk) (pos :: m_nts mk) (m_terms mk)).
        assert (Hg0 : good mk0) by exact Hg.
        destruct (reach_prods_fuel _ f IH (nd_prods nt) mk0 Hg0 ltac:(simpl; lia)) as [H1 H2].
        split; [exact H1|]. intros mk' H. apply (H2 mk' H).
      + split; [discriminate|]. intros mk' H; discriminate.
  Qed.
End ReachFuel.

(* ------------------------------------------------------------------ nothing else consumes fuel *)
Lemma desugar_no_fuel st dps r : desugar st dps r <> RFuel.
Proof.
  unfold desugar. destruct (sr_sym r) as [sy|]; [|discriminate].
  destruct (sr_rep r) as [op|]; [|discriminate]. intros H.
  apply bind_RFuel in H. destruct H as [H|[m [_ H]]].
  { destruct (rep_mods op) as [[|x [|y l]]|]; discriminate. }
  apply bind_RFuel in H. destruct H as [H|[b [_ H]]].
  { destruct sy as [n|s]; try discriminate. destruct (sm_get s (s_matches st)) as [[tn i]|]; discriminate. }
  apply bind_RFuel in H. destruct H as [H|[u [_ H]]].
  { clear - H. revert H. generalize [OneOrMore; ZeroOrMore; Optional]. induction l as [|h rest IH]; simpl; [discriminate|].
    destruct (helper_used (rep_op op) h && (existsb (String.eqb (nt_name b h)) (s_rule_names st) || sm_mem (nt_name b h) (s_terms st)));
      [discriminate|exact IH]. }
  apply bind_RFuel in H. destruct H as [H|[st2 [_ H]]].
  { unfold sep_check in H. destruct (rep_op op); try discriminate;
      (destruct (sm_get (nt_name b OneOrMore) (s_seps st)) as [ex|]; [destruct (opt_str_eqb ex m)|]; discriminate). }
  destruct (rep_op op); try discriminate.
  - destruct (if sm_mem (nt_name b OneOrMore) (s_nts st2) then (st2, dps)
              else create_one st2 dps (nt_name b OneOrMore) b m) as [st1 dps1].
    destruct (if sm_mem (nt_name b ZeroOrMore) (s_nts st1) then (st1, dps1)
              else create_zero st1 dps1 (nt_name b ZeroOrMore) (nt_name b OneOrMore)) as [st3 dps3].
    discriminate.
  - destruct (if sm_mem (nt_name b OneOrMore) (s_nts st2) then (st2, dps)
              else create_one st2 dps (nt_name b OneOrMore) b m) as [st1 dps1].
    discriminate.
  - destruct (if sm_mem (nt_name b Optional) (s_nts st2) then (st2, dps)
              else create_optional st2 dps (nt_name b Optional) b) as [st1 dps1].
    discriminate.
Qed.

Section WithIdent.
  Variable ident_ok : string -> bool.

  Lemma check_identifier_no_fuel n : check_identifier ident_ok n <> RFuel.
  Proof. unfold check_identifier. destruct (ident_ok n); discriminate. Qed.

  Lemma do_assign_no_fuel st dps a : do_assign ident_ok st dps a <> RFuel.
  Proof.
    unfold do_assign. destruct a as [n r|n r|r]; intros H.
    - apply bind_RFuel in H. destruct H as [H|[u [_ H]]]; [eapply check_identifier_no_fuel; eauto|].
      apply bind_RFuel in H. destruct H as [H|[[[s d] y] [_ H]]]; [eapply desugar_no_fuel; eauto|]. destruct y; discriminate.
    - apply bind_RFuel in H. destruct H as [H|[u [_ H]]]; [eapply check_identifier_no_fuel; eauto|].
      apply bind_RFuel in H. destruct H as [H|[[[s d] y] [_ H]]]; [eapply desugar_no_fuel; eauto|]. destruct y; discriminate.
    - apply bind_RFuel in H. destruct H as [H|[[[s d] y] [_ H]]]; [eapply desugar_no_fuel; eauto|]. destruct y; discriminate.
  Qed.

  Lemma do_assigns_no_fuel asg : forall st dps, do_assigns ident_ok st dps asg <> RFuel.
  Proof.
    induction asg as [|a rest IH]; simpl; intros st dps H; [discriminate|].
    destruct (is_empty_ref a); [eapply IH; eauto|].
    apply bind_RFuel in H. destruct H as [H|[[[s d] y] [_ H]]]; [eapply do_assign_no_fuel; eauto|].
    apply bind_RFuel in H. destruct H as [H|[[[s2 d2] y2] [_ H]]]; [eapply IH; eauto|discriminate].
  Qed.

  Lemma do_alts_no_fuel alts : forall st rpos r rm ni nj, do_alts ident_ok st rpos r rm ni nj alts <> RFuel.
  Proof.
    induction alts as [|alt rest IH]; simpl; intros st rpos r rm ni nj H; [discriminate|].
    apply bind_RFuel in H. destruct H as [H|[s1 [_ H]]]; [|eapply IH; eauto].
    unfold do_alt in H. apply bind_RFuel in H. destruct H as [H|[[[s d] y] [_ H]]]; [eapply do_assigns_no_fuel; eauto|].
    apply bind_RFuel in H. destruct H as [H|[u [_ H]]]; [|discriminate].
    destruct (meta_kind _); [eapply check_identifier_no_fuel; eauto|discriminate].
  Qed.

  Lemma do_rules_no_fuel rs : forall st rpos, do_rules ident_ok st rpos rs <> RFuel.
  Proof.
    induction rs as [|r rest IH]; simpl; intros st rpos H; [discriminate|].
    apply bind_RFuel in H. destruct H as [H|[s1 [_ H]]]; [|eapply IH; eauto].
    unfold do_rule in H. apply bind_RFuel in H. destruct H as [H|[u [_ H]]]; [eapply check_identifier_no_fuel; eauto|].
    apply bind_RFuel in H. destruct H as [H|[u1 [_ H]]]; [destruct (existsb _ _); discriminate|].
    apply bind_RFuel in H. destruct H as [H|[u2 [_ H]]]; [destruct (sm_mem _ _); discriminate|].
    destruct (sm_get (r_name r) (s_nts st)); eapply do_alts_no_fuel; eauto.
  Qed.

  Lemma rules_phase_no_fuel f st : rules_phase ident_ok f st <> RFuel.
  Proof.
    unfold rules_phase. destruct (f_rules f) as [rs|]; [|discriminate].
    unfold extract_rules. destruct rs; [discriminate|]. apply do_rules_no_fuel.
  Qed.

  Lemma collect_terminals_no_fuel ts : forall terms n, collect_terminals ident_ok ts terms n <> RFuel.
  Proof.
    induction ts as [|t rest IH]; simpl; intros terms n H; [discriminate|].
    apply bind_RFuel in H. destruct H as [H|[u [_ H]]]; [eapply check_identifier_no_fuel; eauto|].
    apply bind_RFuel in H. destruct H as [H|[u1 [_ H]]]; [destruct (sm_mem _ _); discriminate|].
    apply bind_RFuel in H. destruct H as [H|[p [_ H]]]; [|eapply IH; eauto].
    unfold term_prio in H. destruct (sm_get "priority"%string (tmeta_map (tr_meta t))) as [[n0|s|b|s]|]; try discriminate.
    destruct (N.ltb 99 n0); discriminate.
  Qed.

  Lemma resolve_inline_no_fuel m ps : resolve_inline m ps <> RFuel.
  Proof.
    induction ps as [|p rest IH]; simpl; intros H; [discriminate|].
    apply bind_RFuel in H. destruct H as [H|[r1 [_ H]]].
    - clear - H. induction (pd_rhs p) as [|a l IHl]; simpl in H; [discriminate|].
      apply bind_RFuel in H. destruct H as [H|[a1 [_ H]]].
      + destruct (ra_sym a); [discriminate|]. destruct (sm_get s m) as [[tn i]|]; discriminate.
      + apply bind_RFuel in H. destruct H as [H|[l1 [_ H]]]; [auto|discriminate].
    - apply bind_RFuel in H. destruct H as [H|[r2 [_ H]]]; [auto|discriminate].
  Qed.

  Lemma resolve_refs_no_fuel terms nts ps : resolve_refs terms nts ps <> RFuel.
  Proof.
    induction ps as [|p rest IH]; simpl; intros H; [discriminate|].
    apply bind_RFuel in H. destruct H as [H|[r1 [_ H]]].
    - clear - H. revert H. generalize (length (pd_rhs p)) (pd_nt p). induction (pd_rhs p) as [|a l IHl]; simpl; intros rl pn H; [discriminate|].
      apply bind_RFuel in H. destruct H as [H|[a1 [_ H]]].
      + destruct (ra_index a); [discriminate|]. apply bind_RFuel in H. destruct H as [H|[i [_ H]]]; [|discriminate].
        unfold resolve_sym in H. destruct (ra_sym a) as [n|n].
        * destruct (sm_get n terms); [discriminate|].
          destruct (existsb (String.eqb n) ["AUG"; "AUGL"]%string); [discriminate|].
          destruct (sm_get n nts) as [nt|]; [|discriminate].
          destruct ((rl =? 1) && (nd_idx nt =? pn)); discriminate.
        * destruct (sm_get n terms); discriminate.
      + apply bind_RFuel in H. destruct H as [H|[l1 [_ H]]]; [eapply IHl; eauto|discriminate].
    - apply bind_RFuel in H. destruct H as [H|[r2 [_ H]]]; [auto|discriminate].
  Qed.

  Lemma all_rhs_symbols_no_fuel ps : all_rhs_symbols ps <> RFuel.
  Proof.
    induction ps as [|p rest IH]; simpl; intros H; [discriminate|].
    apply bind_RFuel in H. destruct H as [H|[r1 [_ H]]].
    - clear - H. induction (pd_rhs p) as [|a l IHl]; simpl in H; [discriminate|].
      destruct (ra_index a); [|discriminate]. apply bind_RFuel in H. destruct H as [H|[l1 [_ H]]]; [auto|discriminate].
    - apply bind_RFuel in H. destruct H as [H|[r2 [_ H]]]; [auto|discriminate].
  Qed.

  Theorem builder_total_main f : build_grammar ident_ok f <> BOutOfFuel.
  Proof.
    unfold build_grammar. destruct (negb (ints_ok f)); [discriminate|].
    destruct (build_res ident_ok f) as [g| | |] eqn:E; try discriminate. exfalso.
    unfold build_res in E.
    apply bind_RFuel in E. destruct E as [E|[[terms nt] [_ E]]].
    { unfold terms_phase in E. destruct (f_terms f); [eapply collect_terminals_no_fuel; eauto|discriminate]. }
    apply bind_RFuel in E. destruct E as [E|[st1 [_ E]]]; [eapply rules_phase_no_fuel; eauto|].
    apply bind_RFuel in E. destruct E as [E|[ps2 [_ E]]].
    { unfold resolve_phase in E. apply bind_RFuel in E. destruct E as [E|[ps1 [_ E]]];
        [eapply resolve_inline_no_fuel; eauto|eapply resolve_refs_no_fuel; eauto]. }
    unfold assemble in E.
    apply bind_RFuel in E. destruct E as [E|[aug [_ E]]]; [destruct (sm_get "AUG"%string (s_nts st1)); discriminate|].
    apply bind_RFuel in E. destruct E as [E|[start [_ E]]]; [destruct (sm_get (start_name f) (s_nts st1)); discriminate|].
    apply bind_RFuel in E. destruct E as [E|[rhss [Hr E]]]; [eapply all_rhs_symbols_no_fuel; eauto|].
    apply bind_RFuel in E. destruct E as [E|[mk [_ E]]]; [|discriminate].
    destruct (nth_error (sort_by nd_idx (map snd (s_nts st1))) (start - length (s_terms st1))); [|discriminate].
    pose proof (all_rhs_symbols_length _ _ Hr) as Hl.
    destruct (mark_reachable_fuel (length (s_terms st1)) (sort_by nd_idx (map snd (s_nts st1))) rhss (S (S (length ps2)))
                (start - length (s_terms st1)) (mkMarks [] [] [])) as [Hnf _].
    - split; constructor.
    - simpl. lia.
    - apply Hnf. exact E.
  Qed.
End WithIdent.
