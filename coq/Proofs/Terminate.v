(* C15, termination of the LR loop (token level, full parsing, default lexer):
   if for every lookahead the graph "top state -> possible top state after the
   prescribed reduction" has no path longer than the number of states
   (reduce_acyclic_b), at most that many reductions separate two shifts, and
   the run needs at most (|w|+2)*(states+2) turns: no OutOfFuel with the fuel
   the checks use. *)
From RV Require Import Model.LR Model.Compare Spec.Validators Proofs.Sound Proofs.Safe.

Section Terminate.
Variable g : grammar.
Variable T : table.
Hypothesis Hwf : wf_grammar_b g = true.
Hypothesis Hsafe : safe_b g T = true.
Hypothesis Hacyc : reduce_acyclic_b g T = true.

Let n := length (t_states T).

Inductive rpath (a : nat) : nat -> nat -> nat -> Prop :=
| rp_refl s : rpath a s s 0
| rp_cons s s1 s' k : In s1 (red_succ g T a s) -> rpath a s1 s' k -> rpath a s s' (S k).

Lemma rpath_snoc a s s1 s2 k : rpath a s s1 k -> In s2 (red_succ g T a s1) -> rpath a s s2 (S k).
Proof.
  intros Hp Hin. induction Hp as [s|s s1' s' k Hin' Hp IH].
  - econstructor; [exact Hin|constructor].
  - econstructor; [exact Hin'|apply IH; exact Hin].
Qed.

Lemma rpath_in_iter a : forall k s s' front,
  In s front -> rpath a s s' k -> In s' (red_iter g T a k front).
Proof.
  intros k s s' front Hf Hp. revert front Hf.
  induction Hp as [s|s s1 s' k Hin Hp IH]; intros front Hf; simpl; [exact Hf|].
  apply IH. apply nodup_In. apply in_flat_map. exists s. split; assumption.
Qed.

Lemma rpath_prefix a s s' k : rpath a s s' k -> forall j, j <= k -> exists s'', rpath a s s'' j.
Proof.
  intros Hp. induction Hp as [s|s s1 s' k Hin Hp IH]; intros j Hj.
  - assert (j = 0) by lia. subst. exists s. constructor.
  - destruct j as [|j]; [exists s; constructor|].
    assert (Hjk : j <= k) by lia. destruct (IH j Hjk) as [s'' Hp'']. exists s''. econstructor; eassumption.
Qed.

Lemma rpath_bound a s s' k : a < g_nterm g -> s < n -> rpath a s s' k -> k <= n.
Proof.
  intros Ha Hs Hp. destruct (Nat.le_gt_cases k n) as [H|H]; [exact H|]. exfalso.
  assert (Hsn : S n <= k) by lia. destruct (rpath_prefix a s s' k Hp (S n) Hsn) as [s'' Hp''].
  pose proof Hacyc as Hc. unfold reduce_acyclic_b in Hc. fold n in Hc. rewrite forallb_forall in Hc.
  assert (Hain : In a (seq 0 (g_nterm g))) by (apply in_seq; lia). specialize (Hc a Hain).
  assert (Hin : In s'' (red_iter g T a (S n) (seq 0 n))).
  { eapply rpath_in_iter; [|exact Hp'']. apply in_seq. lia. }
  destruct (red_iter g T a (S n) (seq 0 n)); [destruct Hin|discriminate].
Qed.

(* predecessors along a linked stack *)
Lemma trans_pred s X s' : trans g T s X s' -> In s (preds g T s').
Proof.
  intros [st [Hs Hin]]. unfold preds. apply in_flat_map. exists (s, st). split.
  - apply In_indexed. exact Hs.
  - assert (He : existsb (fun '(_, s0) => s0 =? s') (trans_list (g_nterm g) st) = true).
    { apply existsb_exists. exists (X, s'). split; [exact Hin|apply Nat.eqb_refl]. }
    rewrite He. left. reflexivity.
Qed.

Lemma preds_n_mono k : forall ss ss', incl ss ss' -> incl (preds_n g T k ss) (preds_n g T k ss').
Proof.
  induction k as [|k IH]; intros ss ss' Hi; simpl; [exact Hi|].
  apply IH. intros x Hx. apply nodup_In. apply nodup_In in Hx. apply in_flat_map in Hx.
  destruct Hx as [y [Hy Hxy]]. apply in_flat_map. exists y. split; [apply Hi; exact Hy|exact Hxy].
Qed.

Lemma linked_preds : forall len stk ts s from,
  linked g T 0 (s :: stk) ts -> nth_error (s :: stk) len = Some from ->
  In from (preds_n g T len [s]).
Proof.
  induction len as [|len IH]; intros stk ts s from Hl Hn.
  - simpl in *. inversion Hn. left. reflexivity.
  - inversion Hl as [|s1 s2 stk1 t1 ts1 Htr Hv Hl']; subst; [destruct len; discriminate|].
    simpl in Hn. specialize (IH _ _ _ _ Hl' Hn). simpl.
    eapply preds_n_mono; [|exact IH]. intros x [<-|[]].
    apply nodup_In. simpl. rewrite app_nil_r. eapply trans_pred. exact Htr.
Qed.

(* lookahead kind of a configuration in full-parse mode *)
Definition la_kind (inp : list nat) : nat := match inp with [] => STOP | a :: _ => a end.

Definition in_range (s : nat) : Prop := s < n.

Lemma linked_top_range s stk ts : linked g T 0 (s :: stk) ts -> s < n.
Proof.
  intros Hl. pose proof (safe_sound g T Hsafe) as Hsound.
  inversion Hl as [|s1 s2 stk1 t1 ts1 Htr Hv Hl']; subst.
  - pose proof (shape_ok g T Hsound) as H. unfold shape_b in H. apply andb_true_iff in H. destruct H as [H _].
    apply andb_true_iff in H. destruct H as [H _]. apply Nat.ltb_lt in H. exact H.
  - destruct Htr as [st0 [Hs0 Hin]]. pose proof (shape_state g T Hsound _ st0 Hs0) as H. unfold shape_state_b in H.
    repeat (apply andb_true_iff in H; let H' := fresh "Hh" in destruct H as [H H']).
    rewrite forallb_forall in Hh1. specialize (Hh1 _ Hin). simpl in Hh1. apply Nat.ltb_lt in Hh1. exact Hh1.
Qed.

(* invariant: the stack is linked and the top state ends a reduction path of length j under the
   current lookahead *)
Definition TInv (c : conf) (j : nat) : Prop :=
  linked g T 0 (c_stk c) (c_trs c) /\
  exists s stk s0, c_stk c = s :: stk /\ s0 < n /\ rpath (la_kind (c_inp c)) s0 s j.

Definition mu (c : conf) (j : nat) : nat := (length (c_inp c) + 1) * (n + 2) - j.

Lemma step_term c j c' :
  TInv c j -> step g T false c = Next c' ->
  exists j', TInv c' j' /\ mu c' j' < mu c j /\ j <= n.
Proof.
  intros [Hl [s [stk [s0 [Hstk [Hs0 Hp]]]]]] Hstep. pose proof (safe_sound g T Hsafe) as Hsound.
  assert (Hla : la_kind (c_inp c) < g_nterm g \/ True) by (right; exact I).
  unfold step in Hstep. rewrite Hstk in Hstep.
  destruct (next_tok T false s (c_inp c)) as [a real|] eqn:Htok; [|discriminate].
  destruct (next_tok_cases T _ _ _ _ _ Htok) as [Hexp Hcase].
  assert (Hakind : a = la_kind (c_inp c)).
  { destruct Hcase as [[_ [r Hr]]|[_ [Ha [Hi|Hi]]]]; [rewrite Hr; reflexivity|rewrite Hi, Ha; reflexivity|discriminate]. }
  destruct (expected_lt g T Hsound s a Hexp) as [Halt _].
  assert (Hjn : j <= n) by (apply (rpath_bound (la_kind (c_inp c)) s0 s j); [rewrite <- Hakind; exact Halt|exact Hs0|exact Hp]).
  destruct (cell T s a) as [|act acts] eqn:Hcell; [discriminate|].
  assert (Hin : In act (cell T s a)) by (rewrite Hcell; left; reflexivity).
  destruct act as [s'|p len|].
  - (* shift *)
    inversion Hstep; subst c'; clear Hstep.
    destruct (action_ok g T Hsound _ _ _ Hin) as [st [Hs Hok]]. simpl in Hok. apply Nat.ltb_lt in Hok.
    destruct Hcase as [[-> [r Hr]]|[_ [Ha _]]]; [|unfold STOP in Ha; lia].
    assert (Hl' : linked g T 0 (s' :: s :: stk) (Leaf a :: c_trs c)).
    { rewrite Hstk in Hl. apply L_cons; [apply (cell_shift_trans g T); exact Hin| |exact Hl].
      constructor. split; [exact Hok|exact Halt]. }
    exists 0. split; [|split; [|exact Hjn]].
    + split; [simpl; exact Hl'|]. exists s', (s :: stk), s'. simpl. split; [reflexivity|].
      split; [eapply linked_top_range; exact Hl'|constructor].
    + unfold mu. simpl. rewrite Hr. simpl. nia.
  - (* reduce *)
    destruct (length (s :: stk) <=? len) eqn:Hlen; [discriminate|].
    destruct (skipn len (s :: stk)) as [|from stk'] eqn:Hskip; [discriminate|].
    destruct (goto T from (lhs g p - g_nterm g)) as [s'|] eqn:Hgoto; [|discriminate].
    destruct (length (c_trs c) <? len) eqn:Hlen2; [discriminate|].
    inversion Hstep; subst c'; clear Hstep.
    assert (Hstepl : step_lex g T (default_lex T false) c =
                     Next (mkConf (s' :: from :: stk') (Node p (rev (firstn len (c_trs c))) :: skipn len (c_trs c)) (c_inp c) (c_pos c))).
    { rewrite step_lex_default. unfold step. rewrite Hstk, Htok, Hcell, Hlen, Hskip, Hgoto, Hlen2. reflexivity. }
    pose proof (step_lex_linked g T Hsafe _ _ _ Hl Hstepl) as Hl'. simpl in Hl'.
    rewrite Hstk in Hl.
    assert (Hfrom : nth_error (s :: stk) len = Some from).
    { rewrite <- hd_error_skipn, Hskip. reflexivity. }
    pose proof (linked_preds _ _ _ _ _ Hl Hfrom) as Hpred.
    assert (Hsucc : In s' (red_succ g T a s)).
    { unfold red_succ. rewrite Hcell. apply in_flat_map. exists from. split; [exact Hpred|].
      rewrite Hgoto. left. reflexivity. }
    exists (S j). split; [|split; [|exact Hjn]].
    + split; [simpl; exact Hl'|]. exists s', (from :: stk'), s0. simpl. split; [reflexivity|].
      split; [exact Hs0|]. rewrite <- Hakind. eapply rpath_snoc; [rewrite Hakind; exact Hp|exact Hsucc].
    + unfold mu. simpl. assert (Hj1 : S j <= n).
      { apply (rpath_bound a s0 s' (S j)); [exact Halt|exact Hs0|].
        eapply rpath_snoc; [rewrite Hakind; exact Hp|exact Hsucc]. }
      nia.
  - destruct (c_trs c); discriminate.
Qed.

Lemma run_terminates : forall fuel c j, TInv c j -> mu c j < fuel -> run g T false fuel c <> OutOfFuel.
Proof.
  induction fuel as [|fuel IH]; intros c j Hinv Hmu; [lia|]. simpl.
  destruct (step g T false c) as [c'|o] eqn:Hstep.
  - destruct (step_term c j c' Hinv Hstep) as [j' [Hinv' [Hlt _]]]. eapply IH; [exact Hinv'|lia].
  - intros ->. unfold step in Hstep. destruct Hinv as [Hl [s [stk [s0 [Hstk _]]]]]. rewrite Hstk in Hstep.
    destruct (next_tok T false s (c_inp c)) as [a real|]; [|discriminate].
    destruct (cell T s a) as [|[s'|p len|] acts]; try discriminate.
    + destruct (length (s :: stk) <=? len); [discriminate|].
      destruct (skipn len (s :: stk)); [discriminate|].
      destruct (goto T n0 (lhs g p - g_nterm g)); [|discriminate].
      destruct (length (c_trs c) <? len); discriminate.
    + destruct (c_trs c); discriminate.
Qed.

Theorem lr_terminates_main w : parse g T false (fuel_for T w) w <> OutOfFuel.
Proof.
  unfold parse. eapply (run_terminates _ (init 0 w) 0).
  - split; [simpl; constructor|]. exists 0, [], 0. simpl. split; [reflexivity|]. split; [|constructor].
    pose proof (shape_ok g T (safe_sound g T Hsafe)) as H. unfold shape_b in H. apply andb_true_iff in H. destruct H as [H _].
    apply andb_true_iff in H. destruct H as [H _]. apply Nat.ltb_lt in H. exact H.
  - unfold mu, fuel_for. simpl. fold n. nia.
Qed.

End Terminate.
