(* Order preservation of the default builder (Model/DefaultAst.v). *)
From RV Require Import Model.DefaultAst.

Lemma dtree_ind' (P : dtree -> Prop) :
  (forall c v, P (DLeaf c v)) ->
  (forall p ch, Forall P ch -> P (DNode p ch)) ->
  forall t, P t.
Proof.
  intros HL HN. fix IH 1. intros [c v | p ch]; [apply HL|].
  apply HN. induction ch as [|t ch IHch]; constructor; [apply IH | exact IHch].
Qed.

Definition olits (o : option aval) : list nat := match o with Some x => lits x | None => [] end.

Lemma args_lits_map act ch :
  Forall (fun t => olits (build act t) = content t) ch ->
  args_lits (map (build act) ch) = flat_map content ch.
Proof.
  unfold args_lits. induction 1 as [|t ch Ht _ IH]; simpl; [reflexivity|].
  fold (olits (build act t)). rewrite Ht, IH. reflexivity.
Qed.

(* compositional step: if EVERY production action keeps the literals of its arguments, in order,
   the value of every derivation tree holds exactly the content tokens in input order *)
Lemma build_content_main act :
  (forall p args, lits (act p args) = args_lits args) ->
  forall t, olits (build act t) = content t.
Proof.
  intros Hact. induction t as [c v | p ch IH] using dtree_ind'.
  - destruct c; reflexivity.
  - simpl. rewrite Hact. apply args_lits_map. exact IH.
Qed.

Lemma args_lits_present args : args_lits args = flat_map lits (present args).
Proof.
  unfold args_lits, present. induction args as [|[x|] args IH]; simpl; [reflexivity| |exact IH].
  rewrite IH. reflexivity.
Qed.

Lemma lits_bx b x : lits (bx b x) = lits x.
Proof. destruct b; reflexivity. Qed.

(* every action body the generator writes keeps the literals of its arguments, in order *)
Lemma std_action_main k args : fits k args = true -> lits (std_action k args) = args_lits args.
Proof.
  rewrite args_lits_present. revert args.
  induction k as [| c | c b | c | b | k IH | | | b | b | b]; intros args Hf; simpl in *.
  - reflexivity.
  - reflexivity.
  - destruct (present args) as [|x [|y l]]; try discriminate. simpl. rewrite lits_bx, app_nil_r. reflexivity.
  - destruct (present args); [reflexivity | discriminate].
  - destruct (present args) as [|x [|y l]]; try discriminate. simpl. rewrite lits_bx, app_nil_r. reflexivity.
  - apply IH. exact Hf.
  - destruct (present args); [reflexivity | discriminate].
  - destruct (present args); [reflexivity | discriminate].
  - destruct (present args) as [|x [|y l]]; try discriminate. simpl. rewrite lits_bx, !app_nil_r. reflexivity.
  - destruct (present args) as [|[] [|y [|z l]]]; try discriminate. simpl.
    rewrite flat_map_app. simpl. rewrite lits_bx, !app_nil_r. reflexivity.
  - destruct (present args) as [|x [|[] [|z l]]]; try discriminate. simpl.
    rewrite lits_bx, !app_nil_r. reflexivity.
Qed.

Lemma build_std_content_main kinds t :
  well_kinded kinds t = true ->
  olits (build (fun p => std_action (kinds p)) t) = content t.
Proof.
  induction t as [c v | p ch IH] using dtree_ind'; intros Hwk.
  - destruct c; reflexivity.
  - simpl in Hwk. apply andb_true_iff in Hwk. destruct Hwk as [Hf Hch].
    simpl. rewrite (std_action_main _ _ Hf). apply args_lits_map.
    rewrite forallb_forall in Hch. rewrite Forall_forall in IH |- *.
    intros t Ht. apply IH; [exact Ht | apply Hch; exact Ht].
Qed.
