(* Soundness of the scope test acyclic_b (Spec/Enumerate.v): if it answers
   true, no derivation tree contains a proper descendant with the same root
   symbol and the same yield, i.e. the grammar has no cyclic derivation
   A =>+ A.  (Completeness of the test is not needed: a grammar wrongly put
   out of scope is only not examined.) *)
From RV Require Import Spec.Enumerate.

Lemma flat_map_nil_inv {A B} (f : A -> list B) l : flat_map f l = [] -> forall x, In x l -> f x = [].
Proof.
  induction l as [|a l IH]; intros H x Hx; [destruct Hx|]. simpl in H. apply app_eq_nil in H.
  destruct H as [Ha Hl]. destruct Hx as [<-|Hx]; [exact Ha|apply IH; assumption].
Qed.

Section acyclic.
  Variable g : grammar.
  Let ns := nullable_set g.
  Hypothesis Hclosed : nullable_closed_b g ns = true.

  Lemma nullable_complete : forall t, valid_tree g t -> yield t = [] -> memb (root g t) ns = true.
  Proof.
    intros t Hv. induction Hv as [a Ha|p pr cs Hp Hr Hcs IH] using valid_tree_ind'; intros Hy.
    - discriminate.
    - cbn [yield] in Hy. unfold nullable_closed_b in Hclosed. rewrite forallb_forall in Hclosed.
      specialize (Hclosed pr (nth_error_In _ _ Hp)). apply orb_true_iff in Hclosed.
      simpl. unfold lhs. rewrite Hp. destruct Hclosed as [Hc|Hc]; [|exact Hc]. exfalso.
      apply negb_true_iff in Hc. rewrite <- Hr in Hc.
      assert (Ht : forallb (fun x => memb x ns) (map (root g) cs) = true).
      { apply forallb_forall. intros x Hx. apply in_map_iff in Hx. destruct Hx as [c [<- Hc']].
        rewrite Forall_forall in IH. apply IH; [exact Hc'|]. apply (flat_map_nil_inv yield cs Hy c Hc'). }
      congruence.
  Qed.

  Lemma unit_targets_spec : forall pre acc x post,
    forallb (fun y => memb y ns) acc = true -> forallb (fun y => memb y ns) pre = true ->
    forallb (fun y => memb y ns) post = true -> In x (unit_targets ns acc (pre ++ x :: post)).
  Proof.
    induction pre as [|y pre IH]; intros acc x post Ha Hp Hq.
    - simpl. rewrite Ha, Hq. simpl. left; reflexivity.
    - simpl in Hp. apply andb_true_iff in Hp. destruct Hp as [Hy Hp].
      cbn [app unit_targets]. apply in_or_app. right. apply IH; auto.
      rewrite forallb_app, Ha. simpl. rewrite Hy. reflexivity.
  Qed.

  Lemma empty_roots_nullable l :
    Forall (valid_tree g) l -> flat_map yield l = [] ->
    forallb (fun y => memb y ns) (map (root g) l) = true.
  Proof.
    intros Hv Hy. apply forallb_forall. intros x Hx. apply in_map_iff in Hx. destruct Hx as [c [<- Hc]].
    rewrite Forall_forall in Hv. apply nullable_complete; [apply Hv; exact Hc|].
    apply (flat_map_nil_inv yield l Hy c Hc).
  Qed.

  Lemma unit_edge_of_child p cs c :
    valid_tree g (Node p cs) -> In c cs -> length (yield c) = length (yield (Node p cs)) ->
    In (root g (Node p cs), root g c) (unit_edges g) /\ yield c = yield (Node p cs).
  Proof.
    intros Hv Hc Hl. inversion Hv as [|p' pr cs' Hp Hr Hcs]; subst.
    apply in_split in Hc. destruct Hc as [l1 [l2 He]]. subst cs.
    cbn [yield] in *. rewrite flat_map_app in *. cbn [flat_map] in *.
    rewrite !app_length in Hl.
    assert (H1 : flat_map yield l1 = []) by (apply length_zero_iff_nil; lia).
    assert (H2 : flat_map yield l2 = []) by (apply length_zero_iff_nil; lia).
    rewrite H1, H2, app_nil_r. split; [|reflexivity].
    apply Forall_app in Hcs. destruct Hcs as [Hv1 Hv2]. inversion Hv2 as [|? ? Hvc Hv2']; subst.
    unfold unit_edges. apply in_flat_map. exists pr. split; [eapply nth_error_In; exact Hp|].
    apply in_map_iff. exists (root g c). split.
    - simpl. unfold lhs. rewrite Hp. reflexivity.
    - rewrite <- Hr, map_app. cbn [map]. apply unit_targets_spec; [reflexivity| |];
        apply empty_roots_nullable; assumption.
  Qed.

  Inductive upath : nat -> nat -> Prop :=
  | upath_edge a b : In (a, b) (unit_edges g) -> upath a b
  | upath_step a m b : In (a, m) (unit_edges g) -> upath m b -> upath a b.

  Lemma child_yield_len cs c : In c cs -> length (yield c) <= length (flat_map yield cs).
  Proof.
    intros Hc. apply in_split in Hc. destruct Hc as [l1 [l2 ->]]. rewrite flat_map_app. cbn [flat_map].
    rewrite !app_length. lia.
  Qed.

  Lemma desc_yield_len t' t : desc t' t -> length (yield t') <= length (yield t).
  Proof.
    induction 1 as [p cs c Hc|p cs c t' Hc _ IH]; cbn [yield].
    - apply child_yield_len. exact Hc.
    - pose proof (child_yield_len cs c Hc). lia.
  Qed.

  Lemma desc_upath t' t : desc t' t -> valid_tree g t -> length (yield t') = length (yield t) ->
    upath (root g t) (root g t') /\ yield t' = yield t.
  Proof.
    induction 1 as [p cs c Hc|p cs c t' Hc Hd IH]; intros Hv Hl.
    - destruct (unit_edge_of_child p cs c Hv Hc Hl) as [He Hy]. split; [apply upath_edge; exact He|exact Hy].
    - pose proof (desc_yield_len _ _ Hd) as H1. pose proof (child_yield_len cs c Hc) as H2. cbn [yield] in Hl, H2.
      assert (Hlc : length (yield c) = length (yield (Node p cs))) by (cbn [yield]; lia).
      destruct (unit_edge_of_child p cs c Hv Hc Hlc) as [He Hy].
      assert (Hvc : valid_tree g c).
      { inversion Hv as [|? ? ? _ _ Hcs]; subst. rewrite Forall_forall in Hcs. apply Hcs. exact Hc. }
      destruct (IH Hvc) as [Hp Hy']; [cbn [yield] in Hlc; lia|].
      split; [eapply upath_step; eassumption|congruence].
  Qed.

  Lemma reach_closed_path a rs : reach_closed_b (unit_edges g) a rs = true ->
    forall m b, upath m b -> (m = a \/ memb m rs = true) -> memb b rs = true.
  Proof.
    intros Hc. unfold reach_closed_b in Hc. rewrite forallb_forall in Hc.
    assert (Hstep : forall m b, In (m, b) (unit_edges g) -> (m = a \/ memb m rs = true) -> memb b rs = true).
    { intros m b He Hm. specialize (Hc _ He). cbn [fst snd] in Hc. apply orb_true_iff in Hc.
      destruct Hc as [Hc|Hc]; [|exact Hc]. exfalso. apply negb_true_iff in Hc. apply orb_false_iff in Hc.
      destruct Hc as [Hc1 Hc2]. destruct Hm as [->|Hm]; [rewrite Nat.eqb_refl in Hc1; discriminate|congruence]. }
    intros m b Hp. induction Hp as [m b He|m m' b He _ IH]; intros Hm.
    - eapply Hstep; eassumption.
    - apply IH. right. eapply Hstep; eassumption.
  Qed.
End acyclic.

Lemma acyclic_b_sound_main g : acyclic_b g = true ->
  forall t t', valid_tree g t -> desc t' t -> root g t' = root g t -> yield t' = yield t -> False.
Proof.
  unfold acyclic_b. intros H t t' Hv Hd Hr Hy. apply andb_true_iff in H. destruct H as [Hn Hf].
  destruct (desc_upath g Hn t' t Hd Hv) as [Hp _]; [rewrite Hy; reflexivity|].
  rewrite Hr in Hp. rewrite forallb_forall in Hf.
  assert (Hin : In (root g t) (nodup Nat.eq_dec (map p_lhs (g_prods g)))).
  { apply nodup_In. inversion Hd; subst; inversion Hv as [|? pr ? Hpp _ _]; subst;
      simpl; unfold lhs; rewrite Hpp; apply in_map; eapply nth_error_In; exact Hpp. }
  specialize (Hf _ Hin). cbv zeta in Hf. apply andb_true_iff in Hf. destruct Hf as [Hc Hnot].
  apply negb_true_iff in Hnot.
  rewrite (reach_closed_path g (root g t) _ Hc _ _ Hp (or_introl eq_refl)) in Hnot. discriminate.
Qed.
