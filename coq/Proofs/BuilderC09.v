(* C09: the theorems about the output grammar. *)
From Coq Require Import String Ascii NArith Permutation.
From RV Require Import Util Spec.Grammar Model.Builder Spec.BuilderSpec Proofs.Builder Proofs.BuilderPanic Proofs.BuilderWf
     Proofs.BuilderAst.

(* ------------------------------------------------------------------ meta-data maps *)
Definition inherit_step (oa : bool) (m : smap constval) (kv : string * constval) : smap constval :=
  if oa && assoc_key (fst kv) then m else if sm_mem (fst kv) m then m else sm_insert (fst kv) (snd kv) m.

Lemma sm_get_inherit_gen oa rm : forall m k,
  sm_get k (fold_left (inherit_step oa) rm m) =
  match sm_get k m with Some v => Some v | None => if oa && assoc_key k then None else sm_get k rm end.
Proof.
  induction rm as [|[k1 v1] rest IH]; simpl; intros m k.
  - destruct (sm_get k m); [reflexivity|]. destruct (oa && assoc_key k); reflexivity.
  - rewrite IH. unfold inherit_step; simpl. destruct (oa && assoc_key k1) eqn:E1.
    + destruct (sm_get k m); [reflexivity|]. destruct (String.eqb_spec k k1); [subst; rewrite E1; reflexivity|reflexivity].
    + unfold sm_mem. destruct (sm_get k1 m) as [v|] eqn:E2.
      * destruct (sm_get k m) eqn:E; [reflexivity|].
        destruct (String.eqb_spec k k1); [subst; congruence|reflexivity].
      * rewrite sm_get_insert. destruct (String.eqb_spec k k1).
        -- subst. rewrite E2, E1. reflexivity.
        -- reflexivity.
Qed.

Lemma inherit_meta_fold own rm :
  inherit_meta own rm = fold_left (inherit_step (sm_mem "left"%string own || sm_mem "right"%string own)) rm own.
Proof. reflexivity. Qed.

Lemma sm_get_inherit own rm k : assoc_key k = false -> sm_get k (inherit_meta own rm) = inherit_get own rm k.
Proof.
  intros Hk. rewrite inherit_meta_fold, sm_get_inherit_gen. unfold inherit_get. rewrite Hk, andb_false_r. reflexivity.
Qed.

Lemma sm_mem_inherit_assoc own rm k :
  assoc_key k = true ->
  sm_mem k (inherit_meta own rm) = if gives_assoc own then sm_mem k own else sm_mem k rm.
Proof.
  intros Hk. unfold sm_mem at 1. rewrite inherit_meta_fold, sm_get_inherit_gen. rewrite Hk, andb_true_r.
  unfold gives_assoc. destruct (sm_mem "left"%string own || sm_mem "right"%string own) eqn:Eg.
  - unfold sm_mem. destruct (sm_get k own); reflexivity.
  - assert (Hown : sm_get k own = None).
    { apply orb_false_elim in Eg. destruct Eg as [E1 E2]. unfold assoc_key in Hk. apply orb_prop in Hk.
      destruct Hk as [Hk|Hk]; apply String.eqb_eq in Hk; subst k; apply sm_mem_false_get; assumption. }
    rewrite Hown. unfold sm_mem. destruct (sm_get k rm); reflexivity.
Qed.

Lemma sm_get_remove {A} k k' (m : smap A) : sm_get k (sm_remove k' m) = if String.eqb k k' then None else sm_get k m.
Proof.
  induction m as [|[k2 v2] r IH]; simpl.
  - destruct (String.eqb k k'); reflexivity.
  - destruct (String.eqb_spec k' k2).
    + subst. rewrite IH. destruct (String.eqb_spec k k2); reflexivity.
    + simpl. rewrite IH. destruct (String.eqb_spec k k2).
      * subst. destruct (String.eqb_spec k2 k'); [congruence|reflexivity].
      * reflexivity.
Qed.

Definition reserved_keys : list string := ["priority"; "kind"; "left"; "right"; "nops"; "nopse"]%string.

Lemma sm_get_meta_rest m k : ~ In k reserved_keys -> sm_get k (meta_rest m) = sm_get k m.
Proof.
  intros Hk. unfold meta_rest. repeat rewrite sm_get_remove.
  repeat match goal with |- context [String.eqb k ?s] =>
    destruct (String.eqb_spec k s); [exfalso; apply Hk; subst; simpl; tauto|] end.
  reflexivity.
Qed.

Lemma meta_prio_spec own rm : meta_prio (inherit_meta own rm) = spec_prio own rm.
Proof. unfold meta_prio, spec_prio. rewrite sm_get_inherit by reflexivity. reflexivity. Qed.

Lemma meta_kind_spec own rm : meta_kind (inherit_meta own rm) = spec_kind own rm.
Proof. unfold meta_kind, spec_kind. rewrite sm_get_inherit by reflexivity. reflexivity. Qed.

Lemma meta_nops_spec own rm : sm_mem "nops"%string (inherit_meta own rm) = spec_nops own rm.
Proof. unfold spec_nops, sm_mem. rewrite sm_get_inherit by reflexivity. reflexivity. Qed.

Lemma meta_nopse_spec own rm : sm_mem "nopse"%string (inherit_meta own rm) = spec_nopse own rm.
Proof. unfold spec_nopse, sm_mem. rewrite sm_get_inherit by reflexivity. reflexivity. Qed.

(* associativity: the production's own left / right if it gives one, else the rule's *)
Lemma meta_assoc_spec own rm : meta_assoc (inherit_meta own rm) = spec_assoc own rm.
Proof.
  unfold meta_assoc at 1. rewrite (sm_mem_inherit_assoc own rm "right"%string) by reflexivity.
  rewrite (sm_mem_inherit_assoc own rm "left"%string) by reflexivity.
  unfold spec_assoc, meta_assoc. destruct (gives_assoc own); reflexivity.
Qed.

Lemma reserved_not_assoc k : ~ In k reserved_keys -> assoc_key k = false.
Proof.
  intros Hk. unfold assoc_key.
  destruct (String.eqb_spec k "left"%string); [exfalso; apply Hk; subst; simpl; tauto|].
  destruct (String.eqb_spec k "right"%string); [exfalso; apply Hk; subst; simpl; tauto|]. reflexivity.
Qed.

(* ------------------------------------------------------------------ resolution *)
Definition resolved_as (st : bstate) (s : gsym) (i : nat) : Prop :=
  match s with
  | GStr lit => exists tn, sm_get lit (s_matches st) = Some (tn, i)
  | GName n =>
      match sm_get n (s_terms st) with
      | Some t => i = td_idx t
      | None => match sm_get n (s_nts st) with
                | Some nt => i = nd_idx nt + length (s_terms st)
                | None => False
                end
      end
  end.

Definition after_inline (M : smap (string * nat)) (a : rassign) : Prop :=
  match ra_sym a with
  | GStr s => exists tn i, ra_index a = Some i /\ sm_get s M = Some (tn, i)
  | GName _ => ra_index a = None
  end.

Lemma resolve_inline_rhs_after M rhs : forall rhs',
  Forall (fun a => ra_index a = None) rhs -> resolve_inline_rhs M rhs = ROk rhs' -> Forall (after_inline M) rhs'.
Proof.
  induction rhs as [|a rest IH]; simpl; intros rhs' Hu H.
  - inversion H; constructor.
  - inversion Hu as [|? ? Ha Hrest]; subst. inv_bind H. inv_bind H. inversion H; subst.
    constructor; [|eapply IH; eauto]. unfold after_inline. destruct (ra_sym a) eqn:Es.
    + inversion Hb; subst. rewrite Es. exact Ha.
    + destruct (sm_get s M) as [[tn i]|] eqn:Eg; [|discriminate]. inversion Hb; subst; simpl. eauto.
Qed.

Lemma resolve_refs_rhs_after st rl pn rhs : forall rhs',
  Forall (after_inline (s_matches st)) rhs ->
  resolve_refs_rhs (s_terms st) (s_nts st) rl pn rhs = ROk rhs' ->
  Forall (fun a => exists i, ra_index a = Some i /\ resolved_as st (ra_sym a) i) rhs'.
Proof.
  induction rhs as [|a rest IH]; simpl; intros rhs' Hi H.
  - inversion H; constructor.
  - inversion Hi as [|? ? Ha Hrest]; subst. inv_bind H. inv_bind H. inversion H; subst.
    constructor; [|eapply IH; eauto]. unfold after_inline in Ha. unfold resolved_as.
    destruct (ra_sym a) as [n|s] eqn:Es.
    + rewrite Ha in Hb. inv_bind Hb. inversion Hb; subst; simpl. exists a2. split; [reflexivity|].
      unfold resolve_sym in Hb1. destruct (sm_get n (s_terms st)) as [t|].
      * inversion Hb1; reflexivity.
      * destruct (existsb (String.eqb n) ["AUG"; "AUGL"]%string); [discriminate|].
        destruct (sm_get n (s_nts st)) as [nt|]; [|discriminate].
        destruct ((rl =? 1) && (nd_idx nt =? pn)); [discriminate|]. inversion Hb1; reflexivity.
    + destruct Ha as [tn [i [Hi' Hg]]]. rewrite Hi' in Hb. inversion Hb; subst. rewrite Es. exists i. eauto.
Qed.

Lemma rhs_symbols_resolved st rhs : forall syms,
  Forall (fun a => exists i, ra_index a = Some i /\ resolved_as st (ra_sym a) i) rhs ->
  rhs_symbols rhs = ROk syms -> Forall2 (resolved_as st) (map ra_sym rhs) syms.
Proof.
  induction rhs as [|a rest IH]; simpl; intros syms Hr H.
  - inversion H; constructor.
  - inversion Hr as [|? ? [i [Hi Hs]] Hrest]; subst. rewrite Hi in H. inv_bind H. inversion H; subst.
    constructor; [exact Hs|eapply IH; eauto].
Qed.

Section WithIdent.
  Variable ident_ok : string -> bool.

  Lemma all_rhs_symbols_nth ps : forall rhss i q syms,
    all_rhs_symbols ps = ROk rhss -> nth_error ps i = Some q -> nth_error rhss i = Some syms ->
    rhs_symbols (pd_rhs q) = ROk syms.
  Proof.
    induction ps as [|x rest IH]; simpl; intros rhss i q syms H Hq Hs.
    - destruct i; discriminate.
    - inv_bind H. inv_bind H. inversion H; subst. destruct i; simpl in *.
      + inversion Hq; inversion Hs; subst. exact Hb.
      + eapply IH; eauto.
  Qed.

  Lemma resolve_phase_resolved st1 ps2 :
    unresolved (s_prods st1) -> resolve_phase st1 = ROk ps2 ->
    Forall (fun q => Forall (fun a => exists i, ra_index a = Some i /\ resolved_as st1 (ra_sym a) i) (pd_rhs q)) ps2.
  Proof.
    unfold resolve_phase. intros Hu H. inv_bind H.
    apply resolve_inline_shape in Hb. apply resolve_refs_shape in H.
    revert ps2 H. induction Hb as [|p q ps qs [rhs [Hq Hr]] Hb IH]; intros ps2 Hk; inversion Hk; subst; constructor.
    - destruct H1 as [rhs2 [Hq2 Hr2]]. subst. simpl in *. inversion Hu; subst.
      eapply resolve_refs_rhs_after; [|exact Hr2]. eapply resolve_inline_rhs_after; eauto.
    - inversion Hu; subst. apply IH; assumption.
  Qed.

  Lemma assemble_terms st1 ps2 sn g :
    assemble st1 ps2 sn = ROk g ->
    forall k t, In (k, t) (s_terms st1) ->
      exists ot, In ot (bg_terms g) /\ ot_idx ot = td_idx t /\ ot_name ot = td_name t /\ ot_rec ot = td_rec t /\
                 ot_prio ot = td_prio t /\ ot_assoc ot = td_assoc t.
  Proof.
    intros Hasm k t Hin.
    unfold assemble in Hasm. inv_bind Hasm. inv_bind Hasm. inv_bind Hasm. inv_bind Hasm. inversion Hasm; subst g; simpl.
    assert (Hin' : In t (sort_by td_idx (map snd (s_terms st1)))).
    { apply sort_by_In. apply in_map_iff. exists (k, t). auto. }
    apply In_nth_error in Hin'. destruct Hin' as [pos Hpos]. apply In_indexed in Hpos.
    eexists. split; [apply in_map_iff; exists (pos, t); split; [reflexivity|exact Hpos]|]. simpl. auto.
  Qed.

  (* the rules phase never touches the terminal tables *)
  Definition tmframe (st st' : bstate) : Prop := s_terms st' = s_terms st /\ s_matches st' = s_matches st.

  Lemma tmframe_trans a b c : tmframe a b -> tmframe b c -> tmframe a c.
  Proof. unfold tmframe; intros [? ?] [? ?]; split; congruence. Qed.

  Lemma do_alt_tframe st rpos r rmeta nt_idx ntidx alt st' :
    do_alt ident_ok st rpos r rmeta nt_idx ntidx alt = ROk st' -> tmframe st st'.
  Proof.
    unfold do_alt. intros H. inv_bind H. destruct a as [[st1 dps] rhs]. inv_bind H. inversion H; subst; clear H.
    apply do_assigns_hsteps in Hb. apply hsteps_frame in Hb. destruct Hb as [H1 [H2 _]].
    unfold tmframe; simpl in *. auto.
  Qed.

  Lemma do_alts_tframe alts : forall st rpos r rmeta nt_idx ntidx st',
    do_alts ident_ok st rpos r rmeta nt_idx ntidx alts = ROk st' -> tmframe st st'.
  Proof.
    induction alts as [|alt rest IH]; simpl; intros st rpos r rmeta nt_idx ntidx st' H.
    - inversion H; subst. split; reflexivity.
    - inv_bind H. eapply tmframe_trans; [eapply do_alt_tframe; eauto|eapply IH; eauto].
  Qed.

  Lemma do_rules_tframe rs : forall st rpos st', do_rules ident_ok st rpos rs = ROk st' -> tmframe st st'.
  Proof.
    induction rs as [|r rest IH]; simpl; intros st rpos st' H.
    - inversion H; subst. split; reflexivity.
    - inv_bind H. eapply tmframe_trans; [|eapply IH; eauto].
      unfold do_rule in Hb. inv_bind Hb. inv_bind Hb. inv_bind Hb.
      destruct (sm_get (r_name r) (s_nts st)); apply do_alts_tframe in Hb; exact Hb.
  Qed.

  Lemma rules_phase_tframe f st0 st1 : rules_phase ident_ok f st0 = ROk st1 -> tmframe st0 st1.
  Proof.
    unfold rules_phase. destruct (f_rules f) as [rs|]; intros H; [|discriminate].
    unfold extract_rules in H. destruct rs as [|r0 rest]; [discriminate|].
    apply do_rules_tframe in H. eapply tmframe_trans; [|exact H].
    destruct (find _ _); unfold tmframe, set_rule_names, create_aug; simpl; auto.
  Qed.

  (* everything a successful build gives *)
  Lemma build_facts f g :
    build_grammar ident_ok f = BDone g ->
    exists terms next_t st1 ps2 rhss,
      terms_phase ident_ok f = ROk (terms, next_t) /\
      rules_phase ident_ok f (initial_state f terms next_t) = ROk st1 /\
      resolve_phase st1 = ROk ps2 /\ assemble st1 ps2 (start_name f) = ROk g /\
      all_rhs_symbols ps2 = ROk rhss /\
      bg_prods g = map (fun pr => oprod_of (fst pr) (snd pr)) (combine ps2 rhss) /\
      LI (file_rules f) (s_matches (initial_state f terms next_t)) st1 (rules_coords 0 (file_rules f)) /\
      s_terms st1 = terms /\ matches_from terms (s_matches st1).
  Proof.
    intros H. apply build_done in H. destruct H as [_ [terms [next_t [st1 [ps2 [Ht [Hr [Hres Hasm]]]]]]]].
    destruct (assemble_prods _ _ _ _ Hasm) as [rhss [Hrs Hg]].
    pose proof (rules_phase_LI _ _ _ _ _ Hr) as HL.
    exists terms, next_t, st1, ps2, rhss. repeat (split; [assumption|]).
    assert (Hfr : s_terms st1 = terms /\ s_matches st1 = s_matches (initial_state f terms next_t)).
    { destruct (rules_phase_tframe _ _ _ Hr) as [G1 G2]. split; [exact G1|exact G2]. }
    destruct Hfr as [Hft Hfm]. split; [exact Hft|]. rewrite Hfm. apply initial_matches_from.
  Qed.

  (* ---------------------------------------------------------------- alt_one_production *)
  Lemma alt_coords_output ps2 rhss :
    length rhss = length ps2 ->
    alt_coords (map (fun pr => oprod_of (fst pr) (snd pr)) (combine ps2 rhss)) = pd_coords ps2.
  Proof.
    revert rhss. induction ps2 as [|q rest IH]; intros rhss Hl; destruct rhss as [|s rs]; simpl in *; try discriminate; [reflexivity|].
    unfold pd_coords. simpl. destruct (pd_origin q); simpl; try (apply IH; lia). f_equal. apply IH. lia.
  Qed.

  Lemma same_but_rhs_coords ps qs : Forall2 same_but_rhs ps qs -> pd_coords qs = pd_coords ps.
  Proof.
    induction 1 as [|p q ps qs [rhs [Hq _]] _ IH]; [reflexivity|].
    unfold pd_coords in *. simpl. rewrite IH. subst q. reflexivity.
  Qed.

  Theorem alt_one_production_main f g :
    build_grammar ident_ok f = BDone g ->
    alt_coords (bg_prods g) = rules_coords 0 (file_rules f) /\
    exists M,
      (forall s tn i, sm_get s M = Some (tn, i) ->
                      exists t, In t (bg_terms g) /\ ot_rec t = Some (RStr s) /\ ot_name t = tn /\ ot_idx t = i) /\
      forall p i j, In p (bg_prods g) -> op_origin p = OAlt i j ->
        exists r alt, nth_error (file_rules f) i = Some r /\ nth_error (r_rhs r) j = Some alt /\
          op_ntidx p = j /\
          map (fun x => Some x) (combine (op_assign p) (op_syms p)) = map (spec_assign M) (alt_assigns alt).
  Proof.
    intros H. destruct (build_facts _ _ H) as [terms [next_t [st1 [ps2 [rhss [Ht [Hr [Hres [Hasm [Hrs [Hg [HL [Hterms HMf]]]]]]]]]]]]].
    destruct HL as [HM [Hn [Hu [Hp Hc]]]].
    pose proof (resolve_phase_keys _ _ Hres) as Hkeys.
    split.
    - rewrite Hg, alt_coords_output by (eapply all_rhs_symbols_length; eauto).
      rewrite (same_but_rhs_coords _ _ Hkeys). exact Hc.
    - exists (s_matches st1). split.
      + intros s tn i Hgs. apply sm_get_In in Hgs. destruct (HMf _ _ _ Hgs) as [k [t [Hin [Hrec [Hnm Hi]]]]].
        rewrite <- Hterms in Hin. destruct (assemble_terms _ _ _ _ Hasm _ _ Hin) as [ot [O1 [O2 [O3 [O4 _]]]]].
        exists ot. split; [exact O1|]. split; [congruence|split; congruence].
      + intros p i j Hin Ho. apply In_nth_error in Hin. destruct Hin as [pos Hpos].
        destruct (output_prod _ _ _ _ _ _ _ Ht Hr Hres Hasm pos p Hpos)
          as [pd [Hpd [E1 [E2 [_ [_ [_ [_ [_ [_ [_ [E10 E11]]]]]]]]]]]].
        rewrite Forall_forall in Hp. specialize (Hp pd (nth_error_In _ _ Hpd) i j). rewrite <- E1 in Hp.
        destruct (Hp Ho) as [r [alt [G1 [G2 [G3 [_ G5]]]]]].
        exists r, alt. split; [exact G1|split; [exact G2|split; [congruence|]]].
        rewrite E10, E11, HM. rewrite <- G5. clear. induction (pd_rhs pd) as [|a rest IH]; simpl; [reflexivity|].
        rewrite IH. reflexivity.
  Qed.

  (* ---------------------------------------------------------------- meta_inheritance *)
  Theorem meta_inheritance_main f g :
    build_grammar ident_ok f = BDone g ->
    forall p i j, In p (bg_prods g) -> op_origin p = OAlt i j ->
      exists r alt, nth_error (file_rules f) i = Some r /\ nth_error (r_rhs r) j = Some alt /\
        let own := pmeta_map (pr_meta alt) in
        let rm := pmeta_map (r_meta r) in
        op_prio p = spec_prio own rm /\ op_kind p = spec_kind own rm /\
        op_nops p = spec_nops own rm /\ op_nopse p = spec_nopse own rm /\
        op_assoc p = spec_assoc own rm /\
        (forall k, ~ In k reserved_keys -> sm_get k (op_meta p) = inherit_get own rm k).
  Proof.
    intros H p i j Hin Ho.
    destruct (build_facts _ _ H) as [terms [next_t [st1 [ps2 [rhss [Ht [Hr [Hres [Hasm [Hrs [Hg [HL _]]]]]]]]]]]].
    destruct HL as [HM [Hn [Hu [Hp Hc]]]].
    apply In_nth_error in Hin. destruct Hin as [pos Hpos].
    destruct (output_prod _ _ _ _ _ _ _ Ht Hr Hres Hasm pos p Hpos)
      as [pd [Hpd [E1 [E2 [E3 [E4 [E5 [E6 [E7 [E8 _]]]]]]]]]].
    rewrite Forall_forall in Hp. specialize (Hp pd (nth_error_In _ _ Hpd) i j). rewrite <- E1 in Hp.
    destruct (Hp Ho) as [r [alt [G1 [G2 [G3 [[M1 [M2 [M3 [M4 [M5 M6]]]]] _]]]]]].
    exists r, alt. split; [exact G1|split; [exact G2|]]. simpl.
    rewrite E3, E4, E5, E6, E7, E8, M1, M2, M3, M4, M5, M6.
    rewrite meta_prio_spec, meta_kind_spec, meta_nops_spec, meta_nopse_spec, meta_assoc_spec.
    repeat split.
    intros k Hk. rewrite sm_get_meta_rest by exact Hk. apply sm_get_inherit. apply reserved_not_assoc. exact Hk.
  Qed.

  (* ---------------------------------------------------------------- references resolve by name / by string *)
  Lemma output_resolved f g :
    build_grammar ident_ok f = BDone g ->
    exists st1,
      matches_from (s_terms st1) (s_matches st1) /\
      (forall k t, In (k, t) (s_terms st1) ->
         exists ot, In ot (bg_terms g) /\ ot_idx ot = td_idx t /\ ot_name ot = td_name t /\ ot_rec ot = td_rec t /\
                    ot_prio ot = td_prio t /\ ot_assoc ot = td_assoc t) /\
      forall p, In p (bg_prods g) -> Forall2 (resolved_as st1) (op_syms p) (op_rhs p).
  Proof.
    intros H. destruct (build_facts _ _ H) as [terms [next_t [st1 [ps2 [rhss [Ht [Hr [Hres [Hasm [Hrs [Hg [HL [Hterms HMf]]]]]]]]]]]]].
    destruct HL as [HM [Hn [Hu [Hp Hc]]]].
    exists st1. split; [rewrite Hterms; exact HMf|split; [eapply assemble_terms; eauto|]].
    intros p Hin. apply In_nth_error in Hin. destruct Hin as [pos Hpos].
    rewrite Hg in Hpos. rewrite nth_error_map in Hpos.
    destruct (nth_error (combine ps2 rhss) pos) as [[q syms]|] eqn:Ec; [|discriminate].
    simpl in Hpos. inversion Hpos; subst p; clear Hpos. simpl.
    apply combine_nth_error in Ec. destruct Ec as [Eq Es].
    pose proof (resolve_phase_resolved _ _ Hu Hres) as Hall. rewrite Forall_forall in Hall.
    specialize (Hall q (nth_error_In _ _ Eq)).
    eapply rhs_symbols_resolved; [exact Hall|]. eapply all_rhs_symbols_nth; eauto.
  Qed.

  Lemma Forall2_nth2 {A B} (R : A -> B -> Prop) l1 l2 k x y :
    Forall2 R l1 l2 -> nth_error l1 k = Some x -> nth_error l2 k = Some y -> R x y.
  Proof.
    intros H. revert k. induction H; intros k H1 H2; destruct k; simpl in *; try discriminate.
    - inversion H1; inversion H2; subst; assumption.
    - eauto.
  Qed.

  (* an inline string literal resolves to a terminal declared with that string *)
  Theorem inline_string_resolves_main f g :
    build_grammar ident_ok f = BDone g ->
    forall p k lit i, In p (bg_prods g) ->
      nth_error (op_syms p) k = Some (GStr lit) -> nth_error (op_rhs p) k = Some i ->
      exists t, In t (bg_terms g) /\ ot_idx t = i /\ ot_rec t = Some (RStr lit).
  Proof.
    intros H p k lit i Hin Hs Hi. destruct (output_resolved _ _ H) as [st1 [HM [HT Hres]]].
    pose proof (Forall2_nth2 _ _ _ _ _ _ (Hres p Hin) Hs Hi) as [tn Hg]. simpl in Hg.
    apply sm_get_In in Hg. destruct (HM _ _ _ Hg) as [kk [t [Hint [Hrec [_ Hidx]]]]].
    destruct (HT _ _ Hint) as [ot [O1 [O2 [_ [O4 _]]]]]. exists ot. split; [exact O1|split; congruence].
  Qed.

  (* a name denotes one symbol everywhere: identical uses of a sugar operator share their helper *)
  Theorem helper_shared_main f g :
    build_grammar ident_ok f = BDone g ->
    forall p q k k' n i i', In p (bg_prods g) -> In q (bg_prods g) ->
      nth_error (op_syms p) k = Some (GName n) -> nth_error (op_rhs p) k = Some i ->
      nth_error (op_syms q) k' = Some (GName n) -> nth_error (op_rhs q) k' = Some i' ->
      i = i'.
  Proof.
    intros H p q k k' n i i' Hp Hq S1 R1 S2 R2. destruct (output_resolved _ _ H) as [st1 [_ [_ Hres]]].
    pose proof (Forall2_nth2 _ _ _ _ _ _ (Hres p Hp) S1 R1) as G1.
    pose proof (Forall2_nth2 _ _ _ _ _ _ (Hres q Hq) S2 R2) as G2.
    simpl in G1, G2. destruct (sm_get n (s_terms st1)); [congruence|].
    destruct (sm_get n (s_nts st1)); [congruence|contradiction].
  Qed.
  Lemma assemble_nts st1 ps2 sn g :
    assemble st1 ps2 sn = ROk g ->
    forall k nt, In (k, nt) (s_nts st1) ->
      exists o, In o (bg_nonterms g) /\ on_idx o = nd_idx nt /\ on_name o = nd_name nt /\ on_prods o = nd_prods nt.
  Proof.
    intros Hasm k nt Hin.
    unfold assemble in Hasm. inv_bind Hasm. inv_bind Hasm. inv_bind Hasm. inv_bind Hasm. inversion Hasm; subst g; simpl.
    assert (Hin' : In nt (sort_by nd_idx (map snd (s_nts st1)))).
    { apply sort_by_In. apply in_map_iff. exists (k, nt). auto. }
    apply In_nth_error in Hin'. destruct Hin' as [pos Hpos]. apply In_indexed in Hpos.
    eexists. split; [apply in_map_iff; exists (pos, nt); split; [reflexivity|exact Hpos]|]. simpl. auto.
  Qed.

  Lemma assemble_start st1 ps2 sn g :
    assemble st1 ps2 sn = ROk g ->
    exists nt, sm_get sn (s_nts st1) = Some nt /\ bg_start g = length (s_terms st1) + nd_idx nt /\
               bg_empty g = length (s_terms st1).
  Proof.
    intros Hasm. unfold assemble in Hasm. inv_bind Hasm. inv_bind Hasm.
    destruct (sm_get sn (s_nts st1)) as [nt|] eqn:E; [|discriminate]. inversion Hb0; subst a0.
    inv_bind Hasm. inv_bind Hasm. inversion Hasm; subst g; simpl. exists nt. auto.
  Qed.

  (* the first rule is the start symbol *)
  Theorem start_is_first_rule_main f g r0 rest :
    build_grammar ident_ok f = BDone g -> f_rules f = Some (r0 :: rest) ->
    exists o, In o (bg_nonterms g) /\ on_name o = r_name r0 /\ bg_start g = bg_empty g + on_idx o.
  Proof.
    intros H Hf. destruct (build_facts _ _ H) as [terms [next_t [st1 [ps2 [rhss [Ht [Hr [Hres [Hasm [Hrs [Hg [HL _]]]]]]]]]]]].
    destruct HL as [_ [Hn _]].
    destruct (assemble_start _ _ _ _ Hasm) as [nt [Hget [Hs He]]].
    unfold start_name in Hget. rewrite Hf in Hget. apply sm_get_In in Hget.
    destruct (assemble_nts _ _ _ _ Hasm _ _ Hget) as [o [O1 [O2 [O3 _]]]].
    exists o. split; [exact O1|split].
    - rewrite O3. apply Hn in Hget. exact Hget.
    - rewrite Hs, He, O2. reflexivity.
  Qed.
End WithIdent.
