(* Languages of the documented sugar expansions, over Spec.Grammar derivation trees. *)
From Coq Require Import String Ascii NArith.
From RV Require Import Util Spec.Grammar Model.Builder Spec.BuilderSpec.

Lemma root_node_lhs g p pr cs : get_prod g p = Some pr -> root g (Node p cs) = p_lhs pr.
Proof. intros H. simpl. unfold lhs. rewrite H. reflexivity. Qed.

Lemma map_root_1 g cs X : map (root g) cs = [X] -> exists c, cs = [c] /\ root g c = X.
Proof. destruct cs as [|c [|c2 r]]; simpl; intros H; inversion H. eauto. Qed.

Lemma map_root_2 g cs X Y : map (root g) cs = [X; Y] -> exists c d, cs = [c; d] /\ root g c = X /\ root g d = Y.
Proof. destruct cs as [|c [|d [|e r]]]; simpl; intros H; inversion H. eauto. Qed.

Lemma map_root_3 g cs X Y Z :
  map (root g) cs = [X; Y; Z] -> exists c d e, cs = [c; d; e] /\ root g c = X /\ root g d = Y /\ root g e = Z.
Proof. destruct cs as [|c [|d [|e [|e2 r]]]]; simpl; intros H; inversion H. exists c, d, e. auto. Qed.

Lemma map_root_0 g cs : map (root g) cs = [] -> cs = [].
Proof. destruct cs; simpl; [reflexivity|discriminate]. Qed.

(* X+ and X+[sep]:   N: N [sep] X | X   derives exactly  X ([sep] X)*  *)
Theorem plus_language g N X sep :
  one_or_more_prods g N X sep -> forall w, derives g N w <-> seplist g X sep w.
Proof.
  intros [HN [p0 [p1 [[pr0 [G0 [L0 R0]]] [[pr1 [G1 [L1 R1]]] Honly]]]]] w. split.
  - intros [t [Hv [Hr Hy]]]. subst w. revert Hr.
    induction Hv as [a Ha|p pr cs Hp Hroots Hcs IH] using valid_tree_ind'; intros Hr.
    + simpl in Hr. lia.
    + rewrite (root_node_lhs _ _ _ _ Hp) in Hr.
      destruct (Honly p pr Hp Hr) as [E|E]; subst p.
      * rewrite G0 in Hp. inversion Hp; subst pr. rewrite R0 in Hroots. destruct sep as [s|].
        -- apply map_root_3 in Hroots. destruct Hroots as [c [d [e [Ecs [Rc [Rd Re]]]]]]. subst cs.
           inversion Hcs as [|? ? Vc Hcs1]; subst. inversion Hcs1 as [|? ? Vd Hcs2]; subst. inversion Hcs2 as [|? ? Ve _]; subst.
           inversion IH as [|? ? Pc _]; subst.
           simpl. rewrite app_nil_r. apply sl_more; [apply Pc; exact Rc|exists d; auto|exists e; auto].
        -- apply map_root_2 in Hroots. destruct Hroots as [c [e [Ecs [Rc Re]]]]. subst cs.
           inversion Hcs as [|? ? Vc Hcs1]; subst. inversion Hcs1 as [|? ? Ve _]; subst.
           inversion IH as [|? ? Pc _]; subst.
           simpl. rewrite app_nil_r. change (yield c ++ yield e) with (yield c ++ [] ++ yield e).
           apply sl_more; [apply Pc; exact Rc|reflexivity|exists e; auto].
      * rewrite G1 in Hp. inversion Hp; subst pr. rewrite R1 in Hroots.
        apply map_root_1 in Hroots. destruct Hroots as [c [Ecs Rc]]. subst cs.
        inversion Hcs as [|? ? Vc _]; subst. simpl. rewrite app_nil_r. apply sl_one. exists c. auto.
  - induction 1 as [w [t [Hv [Hr Hy]]]|w1 ws wx Hs IH Hsep [tx [Vx [Rx Yx]]]].
    + exists (Node p1 [t]). split; [|split].
      * eapply VNode; [exact G1|simpl; rewrite Hr, R1; reflexivity|constructor; [exact Hv|constructor]].
      * rewrite (root_node_lhs _ _ _ _ G1). exact L1.
      * simpl. rewrite app_nil_r. exact Hy.
    + destruct IH as [t1 [V1 [Rt1 Y1]]]. destruct sep as [s|].
      * destruct Hsep as [ts [Vs [Rs Ys]]]. exists (Node p0 [t1; ts; tx]). split; [|split].
        -- eapply VNode; [exact G0|simpl; rewrite Rt1, Rs, Rx, R0; reflexivity|repeat constructor; assumption].
        -- rewrite (root_node_lhs _ _ _ _ G0). exact L0.
        -- simpl. rewrite app_nil_r, Y1, Ys, Yx. reflexivity.
      * subst ws. exists (Node p0 [t1; tx]). split; [|split].
        -- eapply VNode; [exact G0|simpl; rewrite Rt1, Rx, R0; reflexivity|repeat constructor; assumption].
        -- rewrite (root_node_lhs _ _ _ _ G0). exact L0.
        -- simpl. rewrite app_nil_r, Y1, Yx. reflexivity.
Qed.

(* X? (N: X | EMPTY) and X* (N0: N1 | EMPTY):  the empty string or what X derives *)
Theorem optional_language g N X :
  optional_prods g N X -> forall w, derives g N w <-> (w = [] \/ derives g X w).
Proof.
  intros [HN [p0 [p1 [[pr0 [G0 [L0 R0]]] [[pr1 [G1 [L1 R1]]] Honly]]]]] w. split.
  - intros [t [Hv [Hr Hy]]]. subst w. destruct Hv as [a Ha|p pr cs Hp Hroots Hcs].
    + simpl in Hr. lia.
    + rewrite (root_node_lhs _ _ _ _ Hp) in Hr. destruct (Honly p pr Hp Hr) as [E|E]; subst p.
      * rewrite G0 in Hp. inversion Hp; subst pr. rewrite R0 in Hroots.
        apply map_root_1 in Hroots. destruct Hroots as [c [Ecs Rc]]. subst cs.
        inversion Hcs as [|? ? Vc _]; subst. right. simpl. rewrite app_nil_r. exists c. auto.
      * rewrite G1 in Hp. inversion Hp; subst pr. rewrite R1 in Hroots. apply map_root_0 in Hroots. subst cs.
        left. reflexivity.
  - intros [Hw|[t [Hv [Hr Hy]]]].
    + subst w. exists (Node p1 []). split; [|split].
      * eapply VNode; [exact G1|simpl; rewrite R1; reflexivity|constructor].
      * rewrite (root_node_lhs _ _ _ _ G1). exact L1.
      * reflexivity.
    + exists (Node p0 [t]). split; [|split].
      * eapply VNode; [exact G0|simpl; rewrite Hr, R0; reflexivity|constructor; [exact Hv|constructor]].
      * rewrite (root_node_lhs _ _ _ _ G0). exact L0.
      * simpl. rewrite app_nil_r. exact Hy.
Qed.

Theorem star_language g N0 N1 X sep :
  zero_or_more_prods g N0 N1 -> one_or_more_prods g N1 X sep ->
  forall w, derives g N0 w <-> (w = [] \/ seplist g X sep w).
Proof.
  intros H0 H1 w. rewrite (optional_language g N0 N1 H0 w). rewrite (plus_language g N1 X sep H1 w). reflexivity.
Qed.
