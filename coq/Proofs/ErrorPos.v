(* C12 (LR half): an error reported at token index k means that no sentence
   starts with the first k+1 tokens of the input (the offending token really
   cannot continue), by completeness + the fact that the run up to that point
   looked only at those tokens. *)
From RV Require Import Model.LR Spec.Validators Proofs.Sound Proofs.Complete.

Section ErrorPos.
Variable g : grammar.
Variable T : table.

(* configurations that differ only in the part of the input not yet looked at *)
Definition agree (n : nat) (c c' : conf) : Prop :=
  c_stk c = c_stk c' /\ c_trs c = c_trs c' /\ c_pos c = c_pos c' /\
  firstn (S n) (c_inp c) = firstn (S n) (c_inp c') /\ n < length (c_inp c) /\ n < length (c_inp c').

Lemma agree_hd n c c' : agree n c c' -> exists a r r', c_inp c = a :: r /\ c_inp c' = a :: r'.
Proof.
  intros [_ [_ [_ [Hf [Hl Hl']]]]]. destruct (c_inp c) as [|a r]; [simpl in Hl; lia|].
  destruct (c_inp c') as [|a' r']; [simpl in Hl'; lia|]. simpl in Hf. inversion Hf. eauto.
Qed.

Lemma run_err_pos partial : forall fuel c k ex, run g T partial fuel c = Err k ex -> c_pos c <= k.
Proof.
  induction fuel as [|fuel IH]; intros c k ex H; simpl in H; [discriminate|].
  unfold step in H. destruct (c_stk c) as [|s stk]; [discriminate|].
  destruct (next_tok T partial s (c_inp c)) as [a real|].
  - destruct (cell T s a) as [|[s'|p len|] acts]; try discriminate.
    + apply IH in H. simpl in H. destruct real; lia.
    + destruct (length (s :: stk) <=? len); [discriminate|].
      destruct (skipn len (s :: stk)); [discriminate|].
      destruct (goto T n (lhs g p - g_nterm g)); [|discriminate].
      destruct (length (c_trs c) <? len); [discriminate|]. apply IH in H. simpl in H. exact H.
    + destruct (c_trs c); discriminate.
  - inversion H. lia.
Qed.

Lemma run_agree : forall fuel c c' k ex,
  run g T false fuel c = Err k ex -> agree (k - c_pos c) c c' ->
  run g T false fuel c' = Err k ex.
Proof.
  induction fuel as [|fuel IH]; intros c c' k ex H Hag; simpl in *; [discriminate|].
  pose proof (run_err_pos false (S fuel) c k ex) as Hle. simpl in Hle. specialize (Hle H).
  destruct (agree_hd _ _ _ Hag) as [a [r [r' [Hi Hi']]]].
  destruct Hag as [Hs [Ht [Hp [Hf [Hl Hl']]]]].
  unfold step in *. rewrite <- Hs, <- Ht, <- Hp. rewrite Hi in *. rewrite Hi'.
  destruct (c_stk c) as [|s stk] eqn:Hstk; [discriminate|].
  unfold next_tok in *. simpl andb in *.
  destruct (memb a (expected T s)) eqn:Hm.
  - destruct (cell T s a) as [|[s'|p len|] acts] eqn:Hc; try discriminate.
    + (* shift: one more token consumed *)
      cbn [tl] in *. eapply IH; [exact H|]. unfold agree. cbn [c_stk c_trs c_inp c_pos].
      pose proof (run_err_pos false fuel _ _ _ H) as Hle2. cbn [c_pos] in Hle2.
      rewrite Hi' in Hf, Hl'.
      replace (k - c_pos c) with (S (k - S (c_pos c))) in Hf, Hl, Hl' by lia.
      cbn [firstn length] in Hf, Hl, Hl'. inversion Hf.
      repeat split; try reflexivity; try assumption; lia.
    + destruct (length (s :: stk) <=? len); [discriminate|].
      destruct (skipn len (s :: stk)) as [|from stk']; [discriminate|].
      destruct (goto T from (lhs g p - g_nterm g)) as [s'|]; [|discriminate].
      destruct (length (c_trs c) <? len); [discriminate|].
      eapply IH; [exact H|]. unfold agree. cbn [c_stk c_trs c_inp c_pos].
      rewrite Hi' in Hf, Hl'. repeat split; try reflexivity; assumption.
    + destruct (c_trs c); discriminate.
  - exact H.
Qed.

Hypothesis Hwf : wf_grammar_b g = true.
Hypothesis Hcomplete : complete_b g T = true.

Theorem error_no_continuation_main fuel w k ex :
  parse g T false fuel w = Err k ex ->
  (k < length w -> forall v, ~ sentence g (firstn (S k) w ++ v)) /\
  (k = length w -> ~ sentence g w).
Proof.
  intros Herr. split.
  - intros Hk v [t [Hv [Hr Hy]]].
    destruct (lr_complete_main g T Hwf Hcomplete t Hv Hr) as [fuel' Hok]. rewrite Hy in Hok.
    unfold parse in *.
    assert (Hag : agree (k - 0) (init 0 w) (init 0 (firstn (S k) w ++ v))).
    { unfold agree, init. cbn [c_stk c_trs c_inp c_pos]. rewrite Nat.sub_0_r.
      split; [reflexivity|]. split; [reflexivity|]. split; [reflexivity|]. split; [|split].
      - rewrite firstn_app, firstn_firstn, Nat.min_id.
        rewrite firstn_length, Nat.min_l by lia. rewrite Nat.sub_diag. cbn [firstn]. rewrite app_nil_r. reflexivity.
      - lia.
      - rewrite app_length, firstn_length, Nat.min_l by lia. lia. }
    pose proof (run_agree fuel _ _ _ _ Herr Hag) as Herr'.
    assert (A1 := run_mono g T false fuel _ _ Herr' ltac:(discriminate) (fuel + fuel') ltac:(lia)).
    assert (A2 := run_mono g T false fuel' _ _ Hok ltac:(discriminate) (fuel + fuel') ltac:(lia)).
    congruence.
  - intros Hk [t [Hv [Hr Hy]]].
    destruct (lr_complete_main g T Hwf Hcomplete t Hv Hr) as [fuel' Hok]. rewrite Hy in Hok.
    unfold parse in *.
    assert (A1 := run_mono g T false fuel _ _ Herr ltac:(discriminate) (fuel + fuel') ltac:(lia)).
    assert (A2 := run_mono g T false fuel' _ _ Hok ltac:(discriminate) (fuel + fuel') ltac:(lia)).
    congruence.
Qed.

End ErrorPos.

Section Expected.
Variable g : grammar.
Variable T : table.
Hypothesis Hsound : sound_b g T = true.
Hypothesis Hact : has_actions_b T = true.

Lemma trans_target_in_range s X s' : trans g T s X s' -> exists st', get_state T s' = Some st'.
Proof.
  intros [st [Hs Hin]]. pose proof (shape_state g T Hsound s st Hs) as H. unfold shape_state_b in H.
  repeat (apply andb_true_iff in H; let H' := fresh "Hh" in destruct H as [H H']).
  rewrite forallb_forall in Hh1. specialize (Hh1 (X, s') Hin). simpl in Hh1. apply Nat.ltb_lt in Hh1.
  unfold get_state. destruct (nth_error (t_states T) s') eqn:E; [eauto|]. apply nth_error_None in E. lia.
Qed.

Lemma linked_top_state s stk ts : linked g T 0 (s :: stk) ts -> exists st, get_state T s = Some st.
Proof.
  intros Hl. inversion Hl as [|s1 s2 stk1 t1 ts1 Htr Hv Hl']; subst.
  - pose proof (shape_ok g T Hsound) as H. unfold shape_b in H. apply andb_true_iff in H. destruct H as [H _].
    apply andb_true_iff in H. destruct H as [H _]. apply Nat.ltb_lt in H.
    unfold get_state. destruct (nth_error (t_states T) 0) eqn:E; [eauto|]. apply nth_error_None in E. lia.
  - eapply trans_target_in_range. exact Htr.
Qed.

Lemma expected_nonempty_state s st : get_state T s = Some st -> expected T s <> [].
Proof.
  intros Hs. unfold expected. rewrite Hs. pose proof Hact as H. unfold has_actions_b in H.
  rewrite forallb_forall in H. specialize (H st (nth_error_In _ _ Hs)).
  destruct (s_sorted st); [discriminate|]. simpl. discriminate.
Qed.

Theorem expected_nonempty_main partial w : forall fuel k ex,
  parse g T partial fuel w = Err k ex -> ex <> [].
Proof.
  unfold parse.
  assert (H : forall fuel c k ex, Inv g T w c -> run g T partial fuel c = Err k ex -> ex <> []).
  { induction fuel as [|fuel IH]; intros c k ex Hinv Hrun; simpl in Hrun; [discriminate|].
    destruct (step g T partial c) as [c'|o] eqn:Hstep.
    - eapply IH; [eapply step_inv; [exact Hsound|exact Hinv|exact Hstep]|exact Hrun].
    - subst o. destruct Hinv as [Hl _ _]. unfold step in Hstep.
      destruct (c_stk c) as [|s stk] eqn:Hstk; [discriminate|].
      destruct (next_tok T partial s (c_inp c)) as [a real|].
      + destruct (cell T s a) as [|[s'|p len|] acts]; try discriminate.
        * destruct (length (s :: stk) <=? len); [discriminate|].
          destruct (skipn len (s :: stk)); [discriminate|].
          destruct (goto T n (lhs g p - g_nterm g)); [|discriminate].
          destruct (length (c_trs c) <? len); discriminate.
        * destruct (c_trs c); discriminate.
      + inversion Hstep; subst. destruct (linked_top_state _ _ _ Hl) as [st Hs].
        eapply expected_nonempty_state. exact Hs. }
  intros fuel k ex. apply H. apply init_inv.
Qed.

Theorem error_index_in_range_main partial w : forall fuel k ex,
  parse g T partial fuel w = Err k ex -> k <= length w.
Proof.
  unfold parse.
  assert (H : forall fuel c k ex, Inv g T w c -> run g T partial fuel c = Err k ex -> k <= length w).
  { induction fuel as [|fuel IH]; intros c k ex Hinv Hrun; simpl in Hrun; [discriminate|].
    destruct (step g T partial c) as [c'|o] eqn:Hstep.
    - eapply IH; [eapply step_inv; [exact Hsound|exact Hinv|exact Hstep]|exact Hrun].
    - subst o. destruct Hinv as [_ Hy Hp]. unfold step in Hstep.
      destruct (c_stk c) as [|s stk]; [discriminate|].
      destruct (next_tok T partial s (c_inp c)) as [a real|].
      + destruct (cell T s a) as [|[s'|p len|] acts]; try discriminate.
        * destruct (length (s :: stk) <=? len); [discriminate|].
          destruct (skipn len (s :: stk)); [discriminate|].
          destruct (goto T n (lhs g p - g_nterm g)); [|discriminate].
          destruct (length (c_trs c) <? len); discriminate.
        * destruct (c_trs c); discriminate.
      + injection Hstep as Hk He. rewrite <- Hk, Hp, <- Hy, app_length. lia. }
  intros fuel k ex. apply H. apply init_inv.
Qed.

End Expected.
