(* C09, sugar_language: on every successful build each helper nonterminal (X1, X0, XOpt) has exactly its documented
   productions, with the separator of ALL uses of X+ / X*, and nothing else has its index. *)
From Coq Require Import String Ascii NArith Permutation.
From RV Require Import Util Spec.Grammar Model.Builder Spec.BuilderSpec Proofs.Builder Proofs.BuilderPanic Proofs.BuilderWf
     Proofs.BuilderAst.

(* ------------------------------------------------------------------ helper names are never EMPTY / AUG / AUGL *)
Fixpoint last_ascii (s : string) : option ascii :=
  match s with
  | EmptyString => None
  | String c EmptyString => Some c
  | String _ r => last_ascii r
  end.

Lemma append_nonempty a b : b <> EmptyString -> String.append a b <> EmptyString.
Proof. destruct a; simpl; [auto|discriminate]. Qed.

Lemma last_ascii_append a b : b <> EmptyString -> last_ascii (String.append a b) = last_ascii b.
Proof.
  intros Hb. induction a as [|c a IH]; simpl; [reflexivity|].
  destruct (String.append a b) eqn:E; [exfalso; eapply append_nonempty; eauto|exact IH].
Qed.

Definition reserved3 : list string := ["EMPTY"; "AUG"; "AUGL"]%string.

Lemma helper_not_reserved b op : helper_used op op = true -> ~ In (nt_name b op) reserved3.
Proof.
  intros Hu Hin. unfold nt_name in Hin.
  assert (Hl : last_ascii (String.append b (helper_suffix op)) = last_ascii (helper_suffix op)).
  { apply last_ascii_append. destruct op; discriminate. }
  destruct op; try discriminate; simpl in Hin, Hl;
    destruct Hin as [H|[H|[H|[]]]]; rewrite <- H in Hl; discriminate.
Qed.

(* ------------------------------------------------------------------ the invariant *)
Definition is_helper_key (st : bstate) (h : string) : Prop :=
  existsb (String.eqb h) (s_rule_names st) = false /\ ~ In h reserved3.

Definition optl (o : option string) : list string := match o with Some s => [s] | None => [] end.

Definition doc_shape (seps : smap (option string)) (h : string) (rhs0 rhs1 : list rassign) : Prop :=
  exists b,
    (h = nt_name b OneOrMore /\ exists sep, sm_get h seps = Some sep /\
                                            rhs0 = map resolving (h :: optl sep ++ [b]) /\ rhs1 = [resolving b]) \/
    (h = nt_name b ZeroOrMore /\ rhs0 = [resolving (nt_name b OneOrMore)] /\ rhs1 = []) \/
    (h = nt_name b Optional /\ rhs0 = [resolving b] /\ rhs1 = []).

Record HI (st : bstate) (dps : list proddata) : Prop := mkHI {
  hi_keys : NoDup (map fst (s_nts st));
  hi_bound : forall k nt, In (k, nt) (s_nts st) -> nd_idx nt < s_next_nt st;
  hi_inj : forall k1 n1 k2 n2, In (k1, n1) (s_nts st) -> In (k2, n2) (s_nts st) -> nd_idx n1 = nd_idx n2 -> k1 = k2;
  hi_own : forall q, In q (s_prods st ++ dps) ->
                     exists k nt, In (k, nt) (s_nts st) /\ nd_idx nt = pd_nt q /\ In (pd_idx q) (nd_prods nt);
  hi_shape : forall h nt, In (h, nt) (s_nts st) -> is_helper_key st h ->
      exists p0 rhs0 rhs1, nd_prods nt = [p0; S p0] /\
        In (mk_helper_prod p0 (nd_idx nt) 0 rhs0) (s_prods st ++ dps) /\
        In (mk_helper_prod (S p0) (nd_idx nt) 1 rhs1) (s_prods st ++ dps) /\
        doc_shape (s_seps st) h rhs0 rhs1
}.

Lemma sm_get_None_keys {A} k (m : smap A) : sm_get k m = None -> ~ In k (map fst m).
Proof.
  intros H Hin. apply in_map_iff in Hin. destruct Hin as [[k' v] [Hk Hin]]. simpl in Hk. subst k'.
  eapply sm_get_None_notin; eauto.
Qed.

Lemma In_sm_insert_other {A} k (v : A) m kv : In kv m -> fst kv <> k -> In kv (sm_insert k v m).
Proof.
  induction m as [|[k' v'] r IH]; simpl; [tauto|]. intros Hin Hne.
  destruct (String.eqb_spec k k').
  - subst. destruct Hin as [Hin|Hin]; [subst; simpl in Hne; congruence|right; exact Hin].
  - destruct (String.ltb k k'); simpl; [right; exact Hin|].
    destruct Hin as [Hin|Hin]; [left; exact Hin|right; apply IH; assumption].
Qed.

Lemma In_sm_insert_new {A} k (v : A) m : In (k, v) (sm_insert k v m).
Proof.
  induction m as [|[k' v'] r IH]; simpl; [left; reflexivity|].
  destruct (String.eqb k k'); [left; reflexivity|]. destruct (String.ltb k k'); [left; reflexivity|right; exact IH].
Qed.

Lemma NoDup_keys_insert {A} k (v : A) m : sm_get k m = None -> NoDup (map fst m) -> NoDup (map fst (sm_insert k v m)).
Proof.
  intros Hg Hnd. pose proof (sm_insert_perm k v m Hg) as Hp. apply (Permutation_map fst) in Hp.
  eapply Permutation_NoDup; [exact Hp|]. simpl. constructor; [apply sm_get_None_keys; exact Hg|exact Hnd].
Qed.

Lemma NoDup_keys_get {A} k (v : A) m : NoDup (map fst m) -> In (k, v) m -> sm_get k m = Some v.
Proof.
  induction m as [|[k' v'] r IH]; simpl; [tauto|]. intros Hnd [Hin|Hin]; inversion Hnd; subst.
  - inversion Hin; subst. rewrite String.eqb_refl. reflexivity.
  - destruct (String.eqb_spec k k'); [|auto]. subst. exfalso. apply H1. apply in_map_iff. exists (k', v). auto.
Qed.

Lemma doc_shape_seps seps seps' h rhs0 rhs1 :
  (forall k v, sm_get k seps = Some v -> sm_get k seps' = Some v) ->
  doc_shape seps h rhs0 rhs1 -> doc_shape seps' h rhs0 rhs1.
Proof.
  intros Hle [b [[H1 [sep [H2 H3]]]|[H|H]]]; exists b; [left|right; left; exact H|right; right; exact H].
  split; [exact H1|]. exists sep. split; [apply Hle; exact H2|exact H3].
Qed.

(* one helper creation *)
Lemma HI_create_helper st dps name annot rhs0 rhs1 :
  HI st dps -> sm_mem name (s_nts st) = false -> doc_shape (s_seps st) name rhs0 rhs1 ->
  HI (fst (create_helper st dps name annot rhs0 rhs1)) (snd (create_helper st dps name annot rhs0 rhs1)).
Proof.
  intros [Hk Hb Hi Ho Hs] Hfresh Hdoc. apply sm_mem_false_get in Hfresh.
  assert (Hold : forall kv, In kv (s_nts st) -> fst kv <> name).
  { intros [k v] Hin Heq. simpl in Heq. subst k. eapply sm_get_None_notin; eauto. }
  unfold create_helper; simpl. constructor; simpl.
  - apply NoDup_keys_insert; assumption.
  - intros k nt Hin. apply In_sm_insert in Hin. destruct Hin as [Hin|Hin]; [inversion Hin; subst; simpl; lia|].
    apply Hb in Hin. lia.
  - intros k1 n1 k2 n2 H1 H2 He. apply In_sm_insert in H1. apply In_sm_insert in H2.
    destruct H1 as [H1|H1]; destruct H2 as [H2|H2].
    + inversion H1; inversion H2; subst; reflexivity.
    + inversion H1; subst. simpl in He. apply Hb in H2. lia.
    + inversion H2; subst. simpl in He. apply Hb in H1. lia.
    + eapply Hi; eauto.
  - intros q Hin. rewrite app_assoc in Hin. apply in_app_or in Hin. destruct Hin as [Hin|Hin].
    + destruct (Ho q Hin) as [k [nt [H1 [H2 H3]]]]. exists k, nt. split; [|auto].
      apply In_sm_insert_other; [exact H1|apply (Hold (k, nt) H1)].
    + exists name. eexists. split; [apply In_sm_insert_new|].
      destruct Hin as [Hin|[Hin|[]]]; subst q; simpl; auto.
  - intros h nt Hin Hkey. apply In_sm_insert in Hin. destruct Hin as [Hin|Hin].
    + inversion Hin; subst h nt; simpl. exists (s_next_p st), rhs0, rhs1. split; [reflexivity|].
      split; [|split; [|exact Hdoc]]; rewrite app_assoc; apply in_or_app; right; simpl; auto.
    + destruct (Hs h nt Hin Hkey) as [p0 [r0 [r1 [G1 [G2 [G3 G4]]]]]]. exists p0, r0, r1.
      split; [exact G1|]. split; [|split; [|exact G4]]; rewrite app_assoc; apply in_or_app; left; assumption.
Qed.

Lemma HI_set_seps st dps k v :
  HI st dps -> sm_get k (s_seps st) = None -> HI (set_seps st (sm_insert k v (s_seps st))) dps.
Proof.
  intros [Hk Hb Hi Ho Hs] Hnone. unfold set_seps. constructor; simpl; try assumption.
  intros h nt Hin Hkey. destruct (Hs h nt Hin Hkey) as [p0 [r0 [r1 [G1 [G2 [G3 G4]]]]]].
  exists p0, r0, r1. repeat split; try assumption. eapply doc_shape_seps; [|exact G4].
  intros k' v' Hg. rewrite sm_get_insert. destruct (String.eqb_spec k' k); [subst; congruence|exact Hg].
Qed.

Lemma opt_str_eqb_eq a b : opt_str_eqb a b = true -> a = b.
Proof.
  destruct a, b; simpl; intros H; try discriminate; [|reflexivity]. apply String.eqb_eq in H. subst; reflexivity.
Qed.

Definition seps_le (st st' : bstate) : Prop :=
  forall k v, sm_get k (s_seps st) = Some v -> sm_get k (s_seps st') = Some v.

Lemma sep_check_spec st b op m st2 :
  sep_check st b op m = ROk st2 ->
  seps_le st st2 /\ (forall dps, HI st dps -> HI st2 dps) /\
  ((op = OneOrMore \/ op = ZeroOrMore) -> sm_get (nt_name b OneOrMore) (s_seps st2) = Some m).
Proof.
  unfold sep_check. intros H.
  assert (Hcase : (op = OneOrMore \/ op = ZeroOrMore) \/ (st2 = st /\ ~ (op = OneOrMore \/ op = ZeroOrMore))).
  { destruct op; try (right; inversion H; split; [reflexivity|intros [X|X]; discriminate]); left; auto. }
  destruct Hcase as [Hop|[Heq Hn]]; [|subst st2; split; [intros k v X; exact X|split; [auto|intros X; contradiction]]].
  assert (H' : match sm_get (nt_name b OneOrMore) (s_seps st) with
               | Some existing => if opt_str_eqb existing m then ROk st else RErr (ESepConflict b)
               | None => ROk (set_seps st (sm_insert (nt_name b OneOrMore) m (s_seps st)))
               end = ROk st2) by (destruct Hop; subst op; exact H).
  clear H. destruct (sm_get (nt_name b OneOrMore) (s_seps st)) as [ex|] eqn:E.
  - destruct (opt_str_eqb ex m) eqn:Eq; [|discriminate]. inversion H'; subst st2.
    apply opt_str_eqb_eq in Eq. subst ex. split; [intros k v X; exact X|split; [auto|intros _; exact E]].
  - inversion H'; subst st2. split; [|split].
    + intros k v X. simpl. rewrite sm_get_insert. destruct (String.eqb_spec k (nt_name b OneOrMore)); [subst; congruence|exact X].
    + intros dps Hh. apply HI_set_seps; assumption.
    + intros _. simpl. apply sm_get_insert_eq.
Qed.

Lemma create_one_rhs name ref_name modifier :
  match modifier with
  | None => [resolving name; resolving ref_name]
  | Some sep => [resolving name; resolving sep; resolving ref_name]
  end = map resolving (name :: optl modifier ++ [ref_name]).
Proof. destruct modifier; reflexivity. Qed.

Lemma is_helper_key_free st b op :
  name_free st (nt_name b op) -> helper_used op op = true -> is_helper_key st (nt_name b op).
Proof. intros [H1 _] Hu. split; [exact H1|apply helper_not_reserved; exact Hu]. Qed.

(* desugaring keeps the invariant; it records the separator of every + / * use *)
Lemma desugar_HI st0 dps r st' dps' sym :
  desugar st0 dps r = ROk (st', dps', sym) -> HI st0 dps ->
  HI st' dps' /\ seps_le st0 st' /\
  (forall op b, sr_rep r = Some op -> (rep_op op = OneOrMore \/ rep_op op = ZeroOrMore) ->
                use_base (s_matches st0) r = Some b ->
                sm_get (nt_name b OneOrMore) (s_seps st') = Some (use_sep r)).
Proof.
  unfold desugar, use_base, use_sep. destruct (sr_sym r) as [sy|] eqn:Es; [|discriminate].
  destruct (sr_rep r) as [op|] eqn:Er.
  2:{ intros H Hh; inversion H; subst. split; [exact Hh|split; [intros k v X; exact X|intros op b X; discriminate]]. }
  intros H Hh. inv_bind H. inv_bind H. inv_bind H. inv_bind H.
  pose proof (helper_clash_ok _ _ _ _ _ Hb1) as Hfree.
  destruct (sep_check_spec _ _ _ _ _ Hb2) as [Hle [Hhi Hrec]]. specialize (Hhi dps Hh).
  destruct (sep_check_same _ _ _ _ _ Hb2) as [Hn [Hrn [Htm Hmm]]].
  assert (Hmod : a = match rep_mods op with Some [m] => Some m | _ => None end).
  { destruct (rep_mods op) as [[|m [|m2 l]]|]; inversion Hb; reflexivity. }
  assert (Hbase : match sy with
                  | GName n => Some n
                  | GStr s => match sm_get s (s_matches st0) with Some (tn, _) => Some tn | None => None end
                  end = Some a0).
  { destruct sy as [n|s]; [inversion Hb0; reflexivity|].
    destruct (sm_get s (s_matches st0)) as [[tn i]|]; [inversion Hb0; reflexivity|discriminate]. }
  assert (Hfree2 : forall h, In h [OneOrMore; ZeroOrMore; Optional] -> helper_used (rep_op op) h = true ->
                             name_free a2 (nt_name a0 h)).
  { intros h Hin Hu. destruct (Hfree h Hin Hu) as [F1 F2]. split; [rewrite Hrn; exact F1|rewrite Htm; exact F2]. }
  assert (Hfinal : forall st2 dps2, HI st2 dps2 -> s_seps st2 = s_seps a2 -> 
            HI st2 dps2 /\ seps_le st0 st2 /\
            (forall op0 b, Some op = Some op0 -> rep_op op0 = OneOrMore \/ rep_op op0 = ZeroOrMore ->
                           match sy with
                           | GName n => Some n
                           | GStr s => match sm_get s (s_matches st0) with Some (tn, _) => Some tn | None => None end
                           end = Some b ->
                           sm_get (nt_name b OneOrMore) (s_seps st2) = Some match rep_mods op with Some [m] => Some m | _ => None end)).
  { intros st2 dps2 Hh2 Hse. split; [exact Hh2|split].
    - intros k v X. rewrite Hse. apply Hle. exact X.
    - intros op0 b E1 E2 E3. inversion E1; subst op0. rewrite Hbase in E3. inversion E3; subst b.
      rewrite Hse, <- Hmod. apply Hrec. exact E2. }
  clear Hb Hb0 Hb1 Hb2.
  destruct (rep_op op) eqn:Eo; try discriminate.
  - (* ZeroOrMore *)
    assert (K1 : is_helper_key a2 (nt_name a0 OneOrMore)) by (apply is_helper_key_free; [apply Hfree2; simpl; auto|reflexivity]).
    assert (K0 : name_free a2 (nt_name a0 ZeroOrMore)) by (apply Hfree2; simpl; auto).
    destruct (sm_mem (nt_name a0 OneOrMore) (s_nts a2)) eqn:E1.
    + destruct (sm_mem (nt_name a0 ZeroOrMore) (s_nts a2)) eqn:E2.
      * inversion H; subst st' dps' sym. apply Hfinal; [exact Hhi|reflexivity].
      * unfold create_zero in H.
        match type of H with context [create_helper ?s ?d ?n ?an ?r0 ?r1] =>
          pose proof (HI_create_helper s d n an r0 r1 Hhi E2) as Hc; destruct (create_helper s d n an r0 r1) as [st2 dps2] eqn:Ec end.
        inversion H; subst st' dps' sym. apply Hfinal.
        -- apply Hc. exists a0. right; left. auto.
        -- apply (f_equal fst) in Ec. simpl in Ec. rewrite <- Ec. reflexivity.
    + unfold create_one in H. rewrite create_one_rhs in H.
      match type of H with context [create_helper a2 dps ?n ?an ?r0 ?r1] =>
        pose proof (HI_create_helper a2 dps n an r0 r1 Hhi E1) as Hc1; destruct (create_helper a2 dps n an r0 r1) as [st1 dps1] eqn:Ec1 end.
      assert (Hs1 : s_seps st1 = s_seps a2) by (apply (f_equal fst) in Ec1; simpl in Ec1; rewrite <- Ec1; reflexivity).
      assert (Hh1 : HI st1 dps1).
      { apply Hc1. exists a0. left. split; [reflexivity|]. exists a. split; [apply Hrec; auto|auto]. }
      destruct (sm_mem (nt_name a0 ZeroOrMore) (s_nts st1)) eqn:E2.
      * inversion H; subst st' dps' sym. apply Hfinal; assumption.
      * unfold create_zero in H.
        match type of H with context [create_helper st1 dps1 ?n ?an ?r0 ?r1] =>
          pose proof (HI_create_helper st1 dps1 n an r0 r1 Hh1 E2) as Hc2; destruct (create_helper st1 dps1 n an r0 r1) as [st2 dps2] eqn:Ec2 end.
        inversion H; subst st' dps' sym. apply Hfinal.
        -- apply Hc2. exists a0. right; left. auto.
        -- apply (f_equal fst) in Ec2. simpl in Ec2. rewrite <- Ec2. simpl. exact Hs1.
  - (* OneOrMore *)
    destruct (sm_mem (nt_name a0 OneOrMore) (s_nts a2)) eqn:E1.
    + inversion H; subst st' dps' sym. apply Hfinal; [exact Hhi|reflexivity].
    + unfold create_one in H. rewrite create_one_rhs in H.
      match type of H with context [create_helper a2 dps ?n ?an ?r0 ?r1] =>
        pose proof (HI_create_helper a2 dps n an r0 r1 Hhi E1) as Hc1; destruct (create_helper a2 dps n an r0 r1) as [st1 dps1] eqn:Ec1 end.
      inversion H; subst st' dps' sym. apply Hfinal.
      * apply Hc1. exists a0. left. split; [reflexivity|]. exists a. split; [apply Hrec; auto|auto].
      * apply (f_equal fst) in Ec1. simpl in Ec1. rewrite <- Ec1. reflexivity.
  - (* Optional *)
    destruct (sm_mem (nt_name a0 Optional) (s_nts a2)) eqn:E1.
    + inversion H; subst st' dps' sym. apply Hfinal; [exact Hhi|reflexivity].
    + unfold create_optional in H.
      match type of H with context [create_helper a2 dps ?n ?an ?r0 ?r1] =>
        pose proof (HI_create_helper a2 dps n an r0 r1 Hhi E1) as Hc1; destruct (create_helper a2 dps n an r0 r1) as [st1 dps1] eqn:Ec1 end.
      inversion H; subst st' dps' sym. apply Hfinal.
      * apply Hc1. exists a0. right; right. auto.
      * apply (f_equal fst) in Ec1. simpl in Ec1. rewrite <- Ec1. reflexivity.
Qed.

(* ------------------------------------------------------------------ through the rules phase *)
Definition use_recorded (seps : smap (option string)) (M : smap (string * nat)) (r : symref) : Prop :=
  forall op b, sr_rep r = Some op -> (rep_op op = OneOrMore \/ rep_op op = ZeroOrMore) ->
               use_base M r = Some b -> sm_get (nt_name b OneOrMore) seps = Some (use_sep r).

Definition uses_ok (seps : smap (option string)) (M : smap (string * nat)) (alt : production) : Prop :=
  forall a, In a (alt_assigns alt) -> use_recorded seps M (assign_ref a).

Lemma use_recorded_le seps seps' M r :
  (forall k v, sm_get k seps = Some v -> sm_get k seps' = Some v) -> use_recorded seps M r -> use_recorded seps' M r.
Proof. intros Hle H op b E1 E2 E3. apply Hle. eapply H; eauto. Qed.

Lemma seps_le_trans a b c : seps_le a b -> seps_le b c -> seps_le a c.
Proof. intros H1 H2 k v X. apply H2, H1, X. Qed.

Section WithIdent.
  Variable ident_ok : string -> bool.

  Lemma do_assign_HI st dps a st' dps' ra :
    do_assign ident_ok st dps a = ROk (st', dps', ra) -> HI st dps ->
    HI st' dps' /\ seps_le st st' /\ use_recorded (s_seps st') (s_matches st) (assign_ref a).
  Proof.
    unfold do_assign. destruct a as [n r|n r|r]; simpl; intros H Hh.
    - inv_bind H. inv_bind H. destruct a0 as [[st1 dps1] sym]. destruct sym; [|discriminate]. inversion H; subst.
      destruct (desugar_HI _ _ _ _ _ _ Hb0 Hh) as [G1 [G2 G3]]. split; [exact G1|split; [exact G2|exact G3]].
    - inv_bind H. inv_bind H. destruct a0 as [[st1 dps1] sym]. destruct sym; [|discriminate]. inversion H; subst.
      destruct (desugar_HI _ _ _ _ _ _ Hb0 Hh) as [G1 [G2 G3]]. split; [exact G1|split; [exact G2|exact G3]].
    - inv_bind H. destruct a as [[st1 dps1] sym]. destruct sym; [|discriminate]. inversion H; subst.
      destruct (desugar_HI _ _ _ _ _ _ Hb Hh) as [G1 [G2 G3]]. split; [exact G1|split; [exact G2|exact G3]].
  Qed.

  Lemma do_assigns_HI asg : forall st dps st' dps' ras,
    do_assigns ident_ok st dps asg = ROk (st', dps', ras) -> HI st dps ->
    HI st' dps' /\ seps_le st st' /\
    forall a, In a (filter (fun a => negb (is_empty_ref a)) asg) -> use_recorded (s_seps st') (s_matches st) (assign_ref a).
  Proof.
    induction asg as [|a rest IH]; simpl; intros st dps st' dps' ras H Hh.
    - inversion H; subst. split; [exact Hh|split; [intros k v X; exact X|intros a []]].
    - destruct (is_empty_ref a) eqn:Ee; simpl; [eapply IH; eauto|].
      inv_bind H. destruct a0 as [[st1 dps1] ra]. inv_bind H. destruct a0 as [[st2 dps2] ras2]. inversion H; subst.
      destruct (do_assign_HI _ _ _ _ _ _ Hb Hh) as [G1 [G2 G3]].
      destruct (IH _ _ _ _ _ Hb0 G1) as [K1 [K2 K3]].
      pose proof (do_assign_hsteps _ _ _ _ _ _ _ Hb) as Hs. apply hsteps_frame in Hs. destruct Hs as [_ [Hm _]].
      split; [exact K1|split; [eapply seps_le_trans; eauto|]].
      intros b [Hin|Hin].
      + subst b. eapply use_recorded_le; [exact K2|exact G3].
      + rewrite <- Hm. apply K3. exact Hin.
  Qed.

  Lemma map_fst_sm_update {A} k (f : A -> A) m : map fst (sm_update k f m) = map fst m.
  Proof. induction m as [|[k' v] r IH]; simpl; [reflexivity|]. destruct (String.eqb k k'); simpl; congruence. Qed.

  Lemma In_sm_update_fwd {A} k (f : A -> A) m k' v :
    In (k', v) m -> NoDup (map fst m) -> In (k', if String.eqb k' k then f v else v) (sm_update k f m).
  Proof.
    induction m as [|[k2 v2] r IH]; simpl; [tauto|]. intros Hin Hnd. inversion Hnd; subst.
    destruct (String.eqb_spec k k2).
    - subst k2. destruct Hin as [Hin|Hin].
      + inversion Hin; subst. rewrite String.eqb_refl. left; reflexivity.
      + right. destruct (String.eqb_spec k' k); [|exact Hin]. subst. exfalso. apply H1. apply in_map_iff. exists (k, v). auto.
    - destruct Hin as [Hin|Hin].
      + inversion Hin; subst. destruct (String.eqb_spec k' k); [congruence|]. left; reflexivity.
      + right. apply IH; assumption.
  Qed.

  (* the pending-index facts survive helper creation *)
  Lemma hsteps_keeps_entry rname nt0 st dps st' dps' :
    hsteps st dps st' dps' -> sm_get rname (s_nts st) = Some nt0 -> sm_get rname (s_nts st') = Some nt0.
  Proof.
    revert st dps st' dps'. apply (hsteps_inv (fun s _ => sm_get rname (s_nts s) = Some nt0)).
    - intros st dps name annot rhs0 rhs1 Hfresh _ _ Hg. unfold create_helper; simpl.
      rewrite sm_get_insert. destruct (String.eqb_spec rname name); [|exact Hg].
      subst. apply sm_mem_false_get in Hfresh. congruence.
    - intros st dps seps Hg. exact Hg.
  Qed.

  Lemma hsteps_keeps_free nt_idx st dps st' dps' :
    hsteps st dps st' dps' ->
    (nt_idx < s_next_nt st /\ forall k nt, In (k, nt) (s_nts st) -> nd_idx nt <> nt_idx) ->
    (nt_idx < s_next_nt st' /\ forall k nt, In (k, nt) (s_nts st') -> nd_idx nt <> nt_idx).
  Proof.
    revert st dps st' dps'.
    apply (hsteps_inv (fun s _ => nt_idx < s_next_nt s /\ forall k nt, In (k, nt) (s_nts s) -> nd_idx nt <> nt_idx)).
    - intros st dps name annot rhs0 rhs1 _ _ _ [H1 H2]. unfold create_helper; simpl. split; [lia|].
      intros k nt Hin. apply In_sm_insert in Hin. destruct Hin as [Hin|Hin]; [inversion Hin; subst; simpl; lia|eapply H2; eauto].
    - intros st dps seps H. exact H.
  Qed.

  Definition rule_entry (st : bstate) (rname : string) (nt_idx : nat) : Prop :=
    existsb (String.eqb rname) (s_rule_names st) = true /\
    ((exists nt0, sm_get rname (s_nts st) = Some nt0 /\ nd_idx nt0 = nt_idx) \/
     (sm_get rname (s_nts st) = None /\ nt_idx < s_next_nt st /\
      forall k nt, In (k, nt) (s_nts st) -> nd_idx nt <> nt_idx)).

  (* registering the alternative's production with the rule's nonterminal *)
  Lemma HI_register st1 dps np rname annot nt_idx :
    HI st1 dps -> pd_nt np = nt_idx -> rule_entry st1 rname nt_idx ->
    HI (mkBState (s_terms st1) (s_matches st1) (add_prod_to_nt (s_nts st1) rname nt_idx annot (pd_idx np))
                 (s_prods st1 ++ np :: dps) (s_next_t st1) (s_next_nt st1) (s_next_p st1) (s_rule_names st1) (s_seps st1)) [].
  Proof.
    intros [Hk Hbd Hi Ho Hs] Hnp [Hrn Hcase].
    assert (Hmem : forall q, In q ((s_prods st1 ++ np :: dps) ++ []) -> q = np \/ In q (s_prods st1 ++ dps)).
    { intros q Hin. rewrite app_nil_r in Hin. apply in_app_or in Hin. destruct Hin as [Hin|[Hin|Hin]]; [right|left|right]; auto;
        apply in_or_app; auto. }
    assert (Hsub : forall q, In q (s_prods st1 ++ dps) -> In q ((s_prods st1 ++ np :: dps) ++ [])).
    { intros q Hin. rewrite app_nil_r. apply in_app_or in Hin. apply in_or_app. destruct Hin; [left|right; right]; assumption. }
    assert (Hnothelper : forall h, is_helper_key st1 h -> h <> rname).
    { intros h [Hf _] Heq. subst h. congruence. }
    unfold add_prod_to_nt. destruct Hcase as [[nt0 [Hg0 Hidx0]]|[Hnone [Hlt Hfree]]].
    - rewrite Hg0. set (f := fun nt => mkNtData (nd_idx nt) (nd_name nt) (nd_annot nt) (nd_prods nt ++ [pd_idx np])).
      assert (G : forall k n, In (k, n) (sm_update rname f (s_nts st1)) ->
                              exists n', In (k, n') (s_nts st1) /\ nd_idx n' = nd_idx n /\ (n = n' \/ (k = rname /\ n = f n'))).
      { intros k n Hin. apply In_sm_update in Hin. destruct Hin as [Hin|[v0 [Hin [Hkk Hv]]]]; [exists n; auto|].
        simpl in Hkk, Hv. exists v0. split; [exact Hin|]. subst n. split; [reflexivity|right; auto]. }
      constructor; simpl.
      + rewrite map_fst_sm_update. exact Hk.
      + intros k nt Hin. destruct (G _ _ Hin) as [n' [M1 [E1 _]]]. rewrite <- E1. eapply Hbd; eauto.
      + intros k1 n1 k2 n2 H1 H2 He. destruct (G _ _ H1) as [m1 [M1 [E1 _]]]. destruct (G _ _ H2) as [m2 [M2 [E2 _]]].
        eapply Hi; eauto. congruence.
      + intros q Hin. apply Hmem in Hin. destruct Hin as [Hin|Hin].
        * subst q. exists rname, (f nt0). split; [|split].
          -- pose proof (In_sm_update_fwd rname f _ _ _ (sm_get_In _ _ _ Hg0) Hk) as X. rewrite String.eqb_refl in X. exact X.
          -- simpl. congruence.
          -- simpl. apply in_or_app. right. left. reflexivity.
        * destruct (Ho q Hin) as [k [nt [H1 [H2 H3]]]].
          pose proof (In_sm_update_fwd rname f _ _ _ H1 Hk) as X.
          destruct (String.eqb k rname).
          -- exists k, (f nt). split; [exact X|split; [simpl; exact H2|simpl; apply in_or_app; left; exact H3]].
          -- exists k, nt. auto.
      + intros h nt Hin Hkey. destruct (G _ _ Hin) as [n' [M1 [_ [E|[E _]]]]].
        * subst n'. destruct (Hs h nt M1 Hkey) as [p0 [r0 [r1 [G1 [G2 [G3 G4]]]]]]. exists p0, r0, r1. auto.
        * exfalso. apply (Hnothelper h Hkey). exact E.
    - rewrite Hnone.
      assert (Hold : forall kv, In kv (s_nts st1) -> fst kv <> rname).
      { intros [k v] Hin Heq. simpl in Heq. subst k. eapply sm_get_None_notin; eauto. }
      constructor; simpl.
      + apply NoDup_keys_insert; assumption.
      + intros k nt Hin. apply In_sm_insert in Hin. destruct Hin as [Hin|Hin]; [inversion Hin; subst; simpl; exact Hlt|eapply Hbd; eauto].
      + intros k1 n1 k2 n2 H1 H2 He. apply In_sm_insert in H1. apply In_sm_insert in H2.
        destruct H1 as [H1|H1]; destruct H2 as [H2|H2].
        * inversion H1; inversion H2; subst; reflexivity.
        * inversion H1; subst. simpl in He. exfalso. eapply Hfree; eauto.
        * inversion H2; subst. simpl in He. exfalso. eapply Hfree; eauto.
        * eapply Hi; eauto.
      + intros q Hin. apply Hmem in Hin. destruct Hin as [Hin|Hin].
        * subst q. exists rname. eexists. split; [apply In_sm_insert_new|]. simpl. split; [congruence|left; reflexivity].
        * destruct (Ho q Hin) as [k [nt [H1 [H2 H3]]]]. exists k, nt. split; [|auto].
          apply In_sm_insert_other; [exact H1|apply (Hold (k, nt) H1)].
      + intros h nt Hin Hkey. apply In_sm_insert in Hin. destruct Hin as [Hin|Hin].
        * inversion Hin; subst. exfalso. apply (Hnothelper rname Hkey). reflexivity.
        * destruct (Hs h nt Hin Hkey) as [p0 [r0 [r1 [G1 [G2 [G3 G4]]]]]]. exists p0, r0, r1. auto.
  Qed.

  Lemma do_alt_HI st rpos r rmeta nt_idx ntidx alt st' :
    do_alt ident_ok st rpos r rmeta nt_idx ntidx alt = ROk st' ->
    HI st [] -> rule_entry st (r_name r) nt_idx ->
    HI st' [] /\ seps_le st st' /\ uses_ok (s_seps st') (s_matches st) alt /\
    rule_entry st' (r_name r) nt_idx /\ (exists nt1, sm_get (r_name r) (s_nts st') = Some nt1 /\ nd_idx nt1 = nt_idx).
  Proof.
    unfold do_alt. intros H Hh [Hrn Hcase].
    inv_bind H. destruct a as [[st1 dps] rhs]. inv_bind H. inversion H as [Hst']; subst st'; clear H Hb0.
    set (st0 := mkBState (s_terms st) (s_matches st) (s_nts st) (s_prods st) (s_next_t st) (s_next_nt st) (S (s_next_p st))
                         (s_rule_names st) (s_seps st)) in *.
    assert (Hh0 : HI st0 []) by (destruct Hh; constructor; assumption).
    destruct (do_assigns_HI _ _ _ _ _ _ Hb Hh0) as [Hh1 [Hle Huses]].
    pose proof (do_assigns_hsteps _ _ _ _ _ _ _ Hb) as Hst.
    pose proof (hsteps_frame _ _ _ _ Hst) as [_ [_ [_ [_ Hrn1]]]]. simpl in Hrn1.
    assert (Hre1 : rule_entry st1 (r_name r) nt_idx).
    { split; [rewrite Hrn1; exact Hrn|]. destruct Hcase as [[nt0 [Hg0 Hidx0]]|[Hnone [Hlt Hfree]]].
      - left. exists nt0. split; [eapply hsteps_keeps_entry; eauto|exact Hidx0].
      - right. destruct (hsteps_keeps_free nt_idx _ _ _ _ Hst (conj Hlt Hfree)) as [G1 G2]. split; [|split; assumption].
        destruct (sm_get (r_name r) (s_nts st1)) eqn:E; [|reflexivity]. exfalso.
        assert (Em : sm_mem (r_name r) (s_nts st1) = true) by (unfold sm_mem; rewrite E; reflexivity).
        destruct (do_assigns_new_names _ _ _ _ _ _ _ Hb _ Em) as [G|[G _]].
        + unfold sm_mem in G. simpl in G. rewrite Hnone in G. discriminate.
        + simpl in G. congruence. }
    match goal with |- context [s_prods st1 ++ ?x :: dps] => set (np := x) end.
    pose proof (HI_register st1 dps np (r_name r) (r_annot r) nt_idx Hh1 eq_refl Hre1) as Hfin.
    change (pd_idx np) with (s_next_p st) in Hfin.
    split; [exact Hfin|]. split; [exact Hle|]. split.
    { intros x Hin. apply Huses. exact Hin. }
    assert (Hex : exists nt1, sm_get (r_name r) (add_prod_to_nt (s_nts st1) (r_name r) nt_idx (r_annot r) (s_next_p st)) = Some nt1 /\
                              nd_idx nt1 = nt_idx).
    { unfold add_prod_to_nt. destruct Hre1 as [_ [[nt0 [Hg0 Hidx0]]|[Hnone _]]].
      - rewrite Hg0. rewrite sm_get_update, String.eqb_refl, Hg0. simpl. eexists. split; [reflexivity|exact Hidx0].
      - rewrite Hnone. rewrite sm_get_insert_eq. eexists. split; [reflexivity|reflexivity]. }
    split; [|exact Hex].
    split; [simpl; rewrite Hrn1; exact Hrn|]. left. simpl. exact Hex.
  Qed.

  Lemma do_alt_tframe_m st rpos r rmeta nt_idx ntidx alt st' :
    do_alt ident_ok st rpos r rmeta nt_idx ntidx alt = ROk st' ->
    s_matches st' = s_matches st /\ s_rule_names st' = s_rule_names st.
  Proof.
    unfold do_alt. intros H. inv_bind H. destruct a as [[st1 dps] rhs]. inv_bind H. inversion H; subst; clear H. simpl.
    apply do_assigns_hsteps in Hb. apply hsteps_frame in Hb. destruct Hb as [_ [Hm [_ [_ Hr]]]]. auto.
  Qed.

  Lemma do_alts_HI alts : forall st rpos r rmeta nt_idx ntidx st',
    do_alts ident_ok st rpos r rmeta nt_idx ntidx alts = ROk st' ->
    HI st [] -> rule_entry st (r_name r) nt_idx ->
    HI st' [] /\ seps_le st st' /\ (forall alt, In alt alts -> uses_ok (s_seps st') (s_matches st) alt).
  Proof.
    induction alts as [|alt rest IH]; simpl; intros st rpos r rmeta nt_idx ntidx st' H Hh Hre.
    - inversion H; subst. split; [exact Hh|split; [intros k v X; exact X|intros alt []]].
    - inv_bind H. destruct (do_alt_HI _ _ _ _ _ _ _ _ Hb Hh Hre) as [G1 [G2 [G3 [G4 _]]]].
      destruct (IH _ _ _ _ _ _ _ H G1 G4) as [K1 [K2 K3]].
      pose proof (do_alt_tframe_m _ _ _ _ _ _ _ _ Hb) as [Hm _].
      split; [exact K1|split; [eapply seps_le_trans; eauto|]].
      intros alt0 [Hin|Hin].
      + subst alt0. intros a0 Ha. eapply use_recorded_le; [exact K2|]. apply G3. exact Ha.
      + rewrite <- Hm. apply K3. exact Hin.
  Qed.
  Lemma do_alts_names alts : forall st rpos r rmeta nt_idx ntidx st',
    do_alts ident_ok st rpos r rmeta nt_idx ntidx alts = ROk st' ->
    s_matches st' = s_matches st /\ s_rule_names st' = s_rule_names st.
  Proof.
    induction alts as [|alt rest IH]; simpl; intros st rpos r rmeta nt_idx ntidx st' H.
    - inversion H; subst; auto.
    - inv_bind H. apply do_alt_tframe_m in Hb. apply IH in H. destruct Hb, H. split; congruence.
  Qed.

  Lemma do_rule_HI st rpos r st' :
    do_rule ident_ok st rpos r = ROk st' -> HI st [] ->
    existsb (String.eqb (r_name r)) (s_rule_names st) = true ->
    HI st' [] /\ seps_le st st' /\ (forall alt, In alt (r_rhs r) -> uses_ok (s_seps st') (s_matches st) alt) /\
    s_matches st' = s_matches st /\ s_rule_names st' = s_rule_names st.
  Proof.
    unfold do_rule. intros H Hh Hrn. inv_bind H. inv_bind H. inv_bind H. clear Hb Hb0 Hb1.
    destruct (sm_get (r_name r) (s_nts st)) as [nt|] eqn:Eg.
    - assert (Hre : rule_entry st (r_name r) (nd_idx nt)) by (split; [exact Hrn|left; exists nt; auto]).
      destruct (do_alts_HI _ _ _ _ _ _ _ _ H Hh Hre) as [G1 [G2 G3]]. apply do_alts_names in H.
      split; [exact G1|split; [exact G2|split; [exact G3|exact H]]].
    - set (st0 := mkBState (s_terms st) (s_matches st) (s_nts st) (s_prods st) (s_next_t st) (S (s_next_nt st)) (s_next_p st)
                           (s_rule_names st) (s_seps st)) in *.
      assert (Hh0 : HI st0 []).
      { destruct Hh as [Hk Hbd Hi Ho Hs]. constructor; try assumption. intros k nt Hin. simpl. apply Hbd in Hin. lia. }
      assert (Hre : rule_entry st0 (r_name r) (s_next_nt st)).
      { split; [exact Hrn|right]. split; [exact Eg|split; [simpl; lia|]].
        intros k nt Hin. destruct Hh as [_ Hbd _ _ _]. apply Hbd in Hin. lia. }
      destruct (do_alts_HI _ _ _ _ _ _ _ _ H Hh0 Hre) as [G1 [G2 G3]]. apply do_alts_names in H.
      split; [exact G1|split; [exact G2|split; [exact G3|exact H]]].
  Qed.

  Lemma do_rules_HI rs : forall st rpos st',
    do_rules ident_ok st rpos rs = ROk st' -> HI st [] ->
    (forall r, In r rs -> existsb (String.eqb (r_name r)) (s_rule_names st) = true) ->
    HI st' [] /\ seps_le st st' /\
    (forall r alt, In r rs -> In alt (r_rhs r) -> uses_ok (s_seps st') (s_matches st) alt) /\
    s_matches st' = s_matches st /\ s_rule_names st' = s_rule_names st.
  Proof.
    induction rs as [|r rest IH]; simpl; intros st rpos st' H Hh Hall.
    - inversion H; subst. split; [exact Hh|split; [intros k v X; exact X|split; [intros r alt []|auto]]].
    - inv_bind H. destruct (do_rule_HI _ _ _ _ Hb Hh (Hall r (or_introl eq_refl))) as [G1 [G2 [G3 [G4 G5]]]].
      assert (Hall' : forall r0, In r0 rest -> existsb (String.eqb (r_name r0)) (s_rule_names a) = true).
      { intros r0 Hin. rewrite G5. apply Hall. right; exact Hin. }
      destruct (IH _ _ _ H G1 Hall') as [K1 [K2 [K3 [K4 K5]]]].
      split; [exact K1|split; [eapply seps_le_trans; eauto|split; [|split; congruence]]].
      intros r0 alt [Hin|Hin] Halt.
      + subst r0. intros x Hx. eapply use_recorded_le; [exact K2|]. apply (G3 alt Halt). exact Hx.
      + rewrite <- G4. eapply K3; eauto.
  Qed.

  Definition all_reserved (st : bstate) : Prop := forall k nt, In (k, nt) (s_nts st) -> In k reserved3.

  Lemma HI_create_aug st n r :
    HI st [] -> all_reserved st -> sm_mem n (s_nts st) = false -> In n reserved3 ->
    HI (create_aug st n r) [] /\ all_reserved (create_aug st n r).
  Proof.
    intros [Hk Hbd Hi Ho Hs] Hres Hfresh Hn. apply sm_mem_false_get in Hfresh.
    assert (Hold : forall kv, In kv (s_nts st) -> fst kv <> n).
    { intros [k v] Hin Heq. simpl in Heq. subst k. eapply sm_get_None_notin; eauto. }
    assert (Hres' : all_reserved (create_aug st n r)).
    { intros k nt Hin. unfold create_aug in Hin; simpl in Hin. apply In_sm_insert in Hin.
      destruct Hin as [Hin|Hin]; [inversion Hin; subst; exact Hn|eapply Hres; eauto]. }
    split; [|exact Hres']. unfold create_aug. constructor; simpl.
    - apply NoDup_keys_insert; assumption.
    - intros k nt Hin. apply In_sm_insert in Hin. destruct Hin as [Hin|Hin]; [inversion Hin; subst; simpl; lia|].
      apply Hbd in Hin. lia.
    - intros k1 n1 k2 n2 H1 H2 He. apply In_sm_insert in H1. apply In_sm_insert in H2.
      destruct H1 as [H1|H1]; destruct H2 as [H2|H2].
      + inversion H1; inversion H2; subst; reflexivity.
      + inversion H1; subst. simpl in He. apply Hbd in H2. lia.
      + inversion H2; subst. simpl in He. apply Hbd in H1. lia.
      + eapply Hi; eauto.
    - intros q Hin. rewrite app_nil_r in Hin. apply in_app_or in Hin. destruct Hin as [Hin|[Hin|[]]].
      + destruct (Ho q ltac:(rewrite app_nil_r; exact Hin)) as [k [nt [H1 [H2 H3]]]]. exists k, nt. split; [|auto].
        apply In_sm_insert_other; [exact H1|apply (Hold (k, nt) H1)].
      + subst q. exists n. eexists. split; [apply In_sm_insert_new|]. simpl. auto.
    - intros h nt Hin [_ Hnr]. exfalso. apply Hnr. apply (Hres' h nt). exact Hin.
  Qed.

  Lemma extract_rules_HI st rs st' :
    extract_rules ident_ok st rs = ROk st' -> s_nts st = [] -> s_prods st = [] ->
    HI st' [] /\ (forall r alt, In r rs -> In alt (r_rhs r) -> uses_ok (s_seps st') (s_matches st) alt) /\
    s_rule_names st' = map r_name rs.
  Proof.
    unfold extract_rules. destruct rs as [|r0 rest]; [discriminate|]. intros H Hn0 Hp0.
    set (st1 := mkBState (s_terms st) (s_matches st)
                         (sm_insert "EMPTY"%string (mkNtData (s_next_nt st) "EMPTY"%string None []) (s_nts st))
                         (s_prods st) (s_next_t st) (S (s_next_nt st)) (s_next_p st) (s_rule_names st) (s_seps st)) in *.
    assert (H1 : HI st1 [] /\ all_reserved st1).
    { split.
      - unfold st1. constructor; simpl; rewrite Hn0; simpl.
        + constructor; [intros []|constructor].
        + intros k nt [Hin|[]]. inversion Hin; subst; simpl. lia.
        + intros k1 n1 k2 n2 [X|[]] [Y|[]]. inversion X; inversion Y; subst; reflexivity.
        + rewrite Hp0. intros q [].
        + intros h nt [Hin|[]] [_ Hnr]. inversion Hin; subst. exfalso. apply Hnr. simpl; auto.
      - intros k nt Hin. unfold st1 in Hin; simpl in Hin. rewrite Hn0 in Hin. destruct Hin as [Hin|[]].
        inversion Hin; subst. simpl; auto. }
    destruct H1 as [Hh1 Hr1].
    assert (Hf2 : sm_mem "AUG"%string (s_nts st1) = false) by (unfold st1; simpl; rewrite Hn0; reflexivity).
    destruct (HI_create_aug st1 "AUG"%string (r_name r0) Hh1 Hr1 Hf2 ltac:(simpl; auto)) as [Hh2 Hr2].
    match type of H with do_rules _ (set_rule_names ?s3 _) _ _ = _ => set (st3 := s3) in * end.
    assert (H3 : HI st3 [] /\ all_reserved st3 /\ s_matches st3 = s_matches st).
    { unfold st3. destruct (find _ _) as [lr|].
      - assert (Hf3 : sm_mem "AUGL"%string (s_nts (create_aug st1 "AUG"%string (r_name r0))) = false).
        { rewrite create_aug_mem. unfold st1; simpl. rewrite Hn0. reflexivity. }
        destruct (HI_create_aug _ "AUGL"%string (r_name lr) Hh2 Hr2 Hf3 ltac:(simpl; auto)) as [Hh3 Hr3].
        split; [exact Hh3|split; [exact Hr3|reflexivity]].
      - split; [exact Hh2|split; [exact Hr2|reflexivity]]. }
    destruct H3 as [Hh3 [Hr3 Hm3]].
    set (st4 := set_rule_names st3 (map r_name (r0 :: rest))) in *.
    assert (Hh4 : HI st4 []).
    { destruct Hh3 as [Hk Hbd Hi Ho Hs]. constructor; try assumption.
      intros h nt Hin [_ Hnr]. exfalso. apply Hnr. apply (Hr3 h nt). exact Hin. }
    assert (Hall : forall r, In r (r0 :: rest) -> existsb (String.eqb (r_name r)) (s_rule_names st4) = true).
    { intros r Hin. change (s_rule_names st4) with (map r_name (r0 :: rest)). apply existsb_exists.
      exists (r_name r). split; [|apply String.eqb_refl]. apply (in_map r_name) in Hin. exact Hin. }
    destruct (do_rules_HI _ _ _ _ H Hh4 Hall) as [G1 [_ [G3 [_ G5]]]].
    split; [exact G1|split; [|exact G5]].
    intros r alt Hr Halt. change (s_matches st4) with (s_matches st3) in G3. rewrite Hm3 in G3. eapply G3; eauto.
  Qed.
End WithIdent.
