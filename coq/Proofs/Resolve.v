(* Proofs about the conflict-resolution cell function (Model/Resolve.v) against
   the documented decision table (Spec/ResolveSpec.v). *)
From RV Require Import Model.Resolve Spec.ResolveSpec.

(* ------------------------------------------------------------------ *)
(* small list facts *)

Lemma partition_filter {A} (f : A -> bool) (l : list A) :
  partition f l = (filter f l, filter (fun x => negb (f x)) l).
Proof.
  induction l as [|x l IH]; cbn [partition filter]; [reflexivity|].
  rewrite IH. destruct (f x); reflexivity.
Qed.

Lemma is_reduce_negb x : is_reduce x = negb (is_shiftlike x).
Proof. destruct x; reflexivity. Qed.

Lemma filter_ext_eq {A} (f h : A -> bool) (l : list A) :
  (forall x, f x = h x) -> filter f l = filter h l.
Proof. intros H. induction l as [|x l IH]; cbn [filter]; [reflexivity|]. rewrite H, IH. reflexivity. Qed.

Lemma partition_acts acts :
  partition is_shiftlike acts = (filter is_shiftlike acts, filter is_reduce acts).
Proof.
  rewrite partition_filter. f_equal. apply filter_ext_eq. intros x. symmetry. apply is_reduce_negb.
Qed.


Lemma In_filter_In {A} (f : A -> bool) (l : list A) x : In x (filter f l) -> In x l.
Proof. intros H. apply filter_In in H. tauto. Qed.

Lemma filter_all_true {A} (f : A -> bool) (l : list A) :
  (forall x, In x l -> f x = true) -> filter f l = l.
Proof.
  induction l as [|x l IH]; intros H; cbn [filter]; [reflexivity|].
  rewrite (H x (or_introl eq_refl)). f_equal. apply IH. intros y Hy. apply H. right; exact Hy.
Qed.

Lemma filter_all_false {A} (f : A -> bool) (l : list A) :
  (forall x, In x l -> f x = false) -> filter f l = [].
Proof.
  induction l as [|x l IH]; intros H; cbn [filter]; [reflexivity|].
  rewrite (H x (or_introl eq_refl)). apply IH. intros y Hy. apply H. right; exact Hy.
Qed.

Lemma filter_nil_all_false {A} (f : A -> bool) (l : list A) :
  filter f l = [] -> forall x, In x l -> f x = false.
Proof.
  induction l as [|y l IH]; cbn [filter]; intros H x Hx; [destruct Hx|].
  destruct (f y) eqn:Hf; [discriminate|].
  destruct Hx as [<-|Hx]; [exact Hf|apply IH; assumption].
Qed.


Lemma drop_shifts_reduces acts : drop_shifts acts = filter is_reduce acts.
Proof. unfold drop_shifts. apply filter_ext_eq. intros x. symmetry. apply is_reduce_negb. Qed.

(* ------------------------------------------------------------------ *)
(* the associativity match of the code is the documented table *)

Lemma assoc_arm_decide pa ta :
  assoc_arm pa ta =
  match assoc_decision (effective_assoc pa ta) with
  | Some KeepReduce => ArmReduce
  | Some KeepShift => ArmShift
  | _ => ArmPrefer
  end.
Proof. destruct pa, ta; reflexivity. Qed.

Lemma prefer_flags (cfg : rsettings) pr :
  negb ((rhs_is_empty pr && rs_prefer_shifts_over_empty cfg && negb (p_nopse pr))
        || (negb (rhs_is_empty pr) && rs_prefer_shifts cfg && negb (p_nops pr))) =
  negb (shift_preferred (rhs_is_empty pr) (rs_prefer_shifts cfg) (rs_prefer_shifts_over_empty cfg)
                        (p_nops pr) (p_nopse pr)).
Proof.
  unfold shift_preferred. destruct (rhs_is_empty pr); cbn [negb andb orb].
  - rewrite orb_false_r. reflexivity.
  - reflexivity.
Qed.

(* the documented decision for the production [pr] against a shift of priority [sprio]
   on the terminal [tm] *)
Definition cell_decision (cfg : rsettings) (pr : prod) (tm : term) (sprio : nat) : decision :=
  decide (p_prio pr) sprio (p_assoc pr) (t_assoc tm) (rhs_is_empty pr)
         (rs_prefer_shifts cfg) (rs_prefer_shifts_over_empty cfg) (p_nops pr) (p_nopse pr).

(* sr_step when the cell has a shift-like action *)
Lemma sr_step_decision cfg pr tm maxprio a acts sh shs sprio :
  shift_prio maxprio a sh = Some sprio ->
  sr_step cfg pr tm maxprio a acts (sh :: shs) =
  match cell_decision cfg pr tm sprio with
  | KeepShift => MDone (acts, false)
  | KeepBoth => MDone (acts, true)
  | KeepReduce => MDone (drop_shifts acts, true)
  end.
Proof.
  intros Hs. unfold sr_step, cell_decision, decide. rewrite Hs.
  destruct (Nat.compare_spec (p_prio pr) sprio) as [Heq|Hlt|Hgt].
  - assert (H1 : (sprio <? p_prio pr) = false) by (apply Nat.ltb_ge; lia).
    assert (H2 : (p_prio pr <? sprio) = false) by (apply Nat.ltb_ge; lia).
    rewrite H1, H2, assoc_arm_decide.
    destruct (effective_assoc (p_assoc pr) (t_assoc tm)); cbn [assoc_decision].
    + rewrite prefer_flags.
      destruct (shift_preferred _ _ _ _ _); reflexivity.
    + reflexivity.
    + reflexivity.
  - assert (H1 : (sprio <? p_prio pr) = false) by (apply Nat.ltb_ge; lia).
    assert (H2 : (p_prio pr <? sprio) = true) by (apply Nat.ltb_lt; lia).
    rewrite H1, H2. reflexivity.
  - assert (H1 : (sprio <? p_prio pr) = true) by (apply Nat.ltb_lt; lia).
    rewrite H1. reflexivity.
Qed.

(* ------------------------------------------------------------------ *)
(* reduce/reduce part *)

Definition reduces_wf (g : grammar) (rs : list action) : Prop :=
  forall x, In x rs -> exists q l, x = Reduce q l /\ get_prod g q <> None.

Lemma reduces_prio_map g rs :
  reduces_wf g rs -> reduces_prio g rs = MDone (map (action_prio g) rs).
Proof.
  induction rs as [|x rs IH]; intros Hwf; cbn [reduces_prio map]; [reflexivity|].
  destruct (Hwf x (or_introl eq_refl)) as [q [l [-> Hq]]].
  cbn [action_prio]. unfold prod_prio_of.
  destruct (get_prod g q) as [qr|] eqn:Hg; [|congruence].
  rewrite IH; [reflexivity|]. intros y Hy. apply Hwf. right; exact Hy.
Qed.

Lemma reduces_prio_sites g rs s : reduces_prio g rs = MPanic s -> s = P_RPROD \/ s = P_NOT_REDUCE.
Proof.
  induction rs as [|x rs IH]; cbn [reduces_prio]; [discriminate|].
  destruct x as [t|q l|]; [intros H; inversion H; auto| |intros H; inversion H; auto].
  destruct (get_prod g q); [|intros H; inversion H; auto].
  destruct (reduces_prio g rs); [discriminate|].
  intros H; inversion H; subst. apply IH. reflexivity.
Qed.

Lemma rr_step_spec g cfg pr r prod_len acts reduces :
  reduces <> [] -> reduces_wf g reduces ->
  rr_step g cfg pr r prod_len acts reduces =
  MDone (apply_rr (decide_rr (p_prio pr) (map (action_prio g) reduces) (rs_glr cfg))
                  (0 <? prod_len) acts r).
Proof.
  intros Hne Hwf. unfold rr_step. destruct reduces as [|x0 rs0]; [congruence|].
  rewrite (reduces_prio_map g _ Hwf).
  unfold decide_rr, all_greater, all_smaller.
  destruct (forallb (fun x => p_prio pr <? x) (map (action_prio g) (x0 :: rs0))); [reflexivity|].
  destruct (forallb (fun x => x <? p_prio pr) (map (action_prio g) (x0 :: rs0))); [reflexivity|].
  destruct (rs_glr cfg); [reflexivity|].
  cbn [apply_rr].
  change (filter (fun x => negb (is_empty_reduction x)) acts)
    with (filter (fun x => negb (is_empty_reduce x)) acts).
  destruct ((0 <? prod_len) || match filter (fun x => negb (is_empty_reduce x)) acts with [] => true | _ => false end);
    reflexivity.
Qed.

Lemma rr_step_no_reduces g cfg pr r prod_len acts :
  rr_step g cfg pr r prod_len acts [] = MDone (acts ++ [r]).
Proof. reflexivity. Qed.

Lemma rr_step_subset g cfg pr r prod_len acts reduces acts' :
  rr_step g cfg pr r prod_len acts reduces = MDone acts' ->
  forall x, In x acts' -> In x acts \/ x = r.
Proof.
  unfold rr_step. intros H x Hx.
  assert (Happ : forall l, (forall y, In y l -> In y acts) -> In x (l ++ [r]) -> In x acts \/ x = r).
  { intros l Hl Hin. apply in_app_or in Hin. destruct Hin as [Hin|[<-|[]]]; [left; apply Hl; exact Hin|right; reflexivity]. }
  destruct reduces as [|x0 rs0].
  - inversion H; subst. apply (Happ acts); auto.
  - destruct (reduces_prio g (x0 :: rs0)) as [prios|s]; [|discriminate].
    destruct (forallb (fun y => p_prio pr <? y) prios).
    { inversion H; subst. left; exact Hx. }
    destruct (forallb (fun y => y <? p_prio pr) prios).
    { inversion H; subst. apply (Happ (filter (fun y => negb (is_reduce y)) acts)); [|exact Hx].
      intros y Hy. eapply In_filter_In; exact Hy. }
    destruct (rs_glr cfg).
    { inversion H; subst. apply (Happ acts); auto. }
    destruct ((0 <? prod_len) || match filter (fun y => negb (is_empty_reduce y)) acts with [] => true | _ => false end).
    + inversion H; subst. apply (Happ (filter (fun y => negb (is_empty_reduce y)) acts)); [|exact Hx].
      intros y Hy. eapply In_filter_In; exact Hy.
    + inversion H; subst. left. eapply In_filter_In; exact Hx.
Qed.

(* ------------------------------------------------------------------ *)
(* the cell function, by cases on the shift-like content of the cell *)


Lemma add_reduce_empty g cfg maxprio a p len prod_len pr tm :
  get_prod g p = Some pr -> nth_error (g_terms g) a = Some tm ->
  add_reduce g cfg maxprio a p len prod_len [] = MDone [Reduce p len].
Proof. intros Hp Ht. unfold add_reduce. rewrite Hp, Ht. reflexivity. Qed.

(* a cell with exactly one Shift/Accept (and any reductions): the shift is kept alone,
   or removed and the reductions of the cell meet the new one in the R/R step, or
   everything meets the new one in the R/R step *)
Lemma add_reduce_one_shift g cfg maxprio a p len prod_len acts pr tm sh sprio :
  get_prod g p = Some pr -> nth_error (g_terms g) a = Some tm ->
  filter is_shiftlike acts = [sh] -> shift_prio maxprio a sh = Some sprio ->
  add_reduce g cfg maxprio a p len prod_len acts =
  match cell_decision cfg pr tm sprio with
  | KeepShift => MDone acts
  | KeepReduce =>
      rr_step g cfg pr (Reduce p len) prod_len (filter is_reduce acts) (filter is_reduce acts)
  | KeepBoth => rr_step g cfg pr (Reduce p len) prod_len acts (filter is_reduce acts)
  end.
Proof.
  intros Hp Ht Hf Hs. unfold add_reduce. rewrite Hp, Ht.
  destruct acts as [|x0 acts0]; [discriminate|].
  rewrite partition_acts, Hf. change (1 <? length [sh]) with false. cbv iota.
  rewrite (sr_step_decision cfg pr tm maxprio a (x0 :: acts0) sh [] sprio Hs).
  destruct (cell_decision cfg pr tm sprio); [reflexivity| |reflexivity].
  rewrite drop_shifts_reduces. reflexivity.
Qed.

Lemma add_reduce_no_shift g cfg maxprio a p len prod_len acts pr tm :
  get_prod g p = Some pr -> nth_error (g_terms g) a = Some tm ->
  acts <> [] -> filter is_shiftlike acts = [] ->
  add_reduce g cfg maxprio a p len prod_len acts =
  rr_step g cfg pr (Reduce p len) prod_len acts acts.
Proof.
  intros Hp Ht Hne Hf. unfold add_reduce. rewrite Hp, Ht.
  destruct acts as [|x0 acts0]; [congruence|].
  rewrite partition_acts, Hf. change (1 <? @length action []) with false. cbv iota. cbn [sr_step].
  rewrite (filter_all_true is_reduce (x0 :: acts0)); [reflexivity|].
  intros x Hx. rewrite is_reduce_negb. rewrite (filter_nil_all_false _ _ Hf x Hx). reflexivity.
Qed.

Lemma add_reduce_many_shifts g cfg maxprio a p len prod_len acts pr tm :
  get_prod g p = Some pr -> nth_error (g_terms g) a = Some tm ->
  2 <= length (filter is_shiftlike acts) ->
  add_reduce g cfg maxprio a p len prod_len acts = MPanic P_SHIFTS.
Proof.
  intros Hp Ht Hl. unfold add_reduce. rewrite Hp, Ht.
  destruct acts as [|x0 acts0]; [cbn in Hl; lia|].
  rewrite partition_acts.
  destruct (1 <? length (filter is_shiftlike (x0 :: acts0))) eqn:H1; [reflexivity|].
  apply Nat.ltb_ge in H1. lia.
Qed.

(* what sr_step leaves in the cell is a sub-list of the cell *)
Lemma sr_step_sub cfg pr tm maxprio a acts shifts acts1 sr :
  sr_step cfg pr tm maxprio a acts shifts = MDone (acts1, sr) ->
  acts1 = acts \/ acts1 = drop_shifts acts.
Proof.
  unfold sr_step. intros Hsr.
  destruct shifts as [|sh shs]; [inversion Hsr; auto|].
  destruct (shift_prio maxprio a sh) as [sprio|]; [|discriminate].
  destruct (p_prio pr ?= sprio).
  - destruct (assoc_arm (p_assoc pr) (t_assoc tm)); inversion Hsr; auto.
  - inversion Hsr; auto.
  - inversion Hsr; auto.
Qed.

(* resolution only removes candidates *)
Lemma add_reduce_subset g cfg maxprio a p len prod_len acts acts' :
  add_reduce g cfg maxprio a p len prod_len acts = MDone acts' ->
  forall x, In x acts' -> In x acts \/ x = Reduce p len.
Proof.
  unfold add_reduce. intros H x Hx.
  destruct (get_prod g p) as [pr|]; [|discriminate].
  destruct (nth_error (g_terms g) a) as [tm|]; [|discriminate].
  destruct acts as [|x0 acts0].
  { inversion H; subst. destruct Hx as [<-|[]]. right; reflexivity. }
  rewrite partition_acts in H.
  destruct (1 <? length (filter is_shiftlike (x0 :: acts0))); [discriminate|].
  destruct (sr_step cfg pr tm maxprio a (x0 :: acts0) (filter is_shiftlike (x0 :: acts0)))
    as [[acts1 sr]|s] eqn:Hsr; [|discriminate].
  assert (Hsub : forall y, In y acts1 -> In y (x0 :: acts0)).
  { destruct (sr_step_sub _ _ _ _ _ _ _ _ _ Hsr) as [->| ->]; [auto|].
    intros y Hy. eapply In_filter_In; exact Hy. }
  destruct sr.
  - destruct (rr_step_subset _ _ _ _ _ _ _ _ H x Hx) as [Hin|Heq]; [left; apply Hsub; exact Hin|right; exact Heq].
  - inversion H; subst. left. apply Hsub. exact Hx.
Qed.

(* ------------------------------------------------------------------ *)
(* shift/reduce on a cell that holds exactly the one shift-like action *)

Lemma sr_cell_spec_main g cfg maxprio a p len prod_len pr tm sh sprio :
  get_prod g p = Some pr -> nth_error (g_terms g) a = Some tm ->
  is_shiftlike sh = true -> shift_prio maxprio a sh = Some sprio ->
  add_reduce g cfg maxprio a p len prod_len [sh] =
  MDone (apply_decision (cell_decision cfg pr tm sprio) sh (Reduce p len)).
Proof.
  intros Hp Ht Hsh Hs.
  rewrite (add_reduce_one_shift g cfg maxprio a p len prod_len [sh] pr tm sh sprio Hp Ht); [|cbn [filter]; rewrite Hsh; reflexivity|exact Hs].
  destruct (cell_decision cfg pr tm sprio); cbn [apply_decision]; try reflexivity;
    cbn [filter]; rewrite is_reduce_negb, Hsh; reflexivity.
Qed.

(* the keywords *)
Lemma sr_prod_keyword_main g cfg maxprio a p len prod_len pr tm sh sprio k :
  get_prod g p = Some pr -> nth_error (g_terms g) a = Some tm ->
  is_shiftlike sh = true -> shift_prio maxprio a sh = Some sprio ->
  p_prio pr = sprio -> t_assoc tm = ANone -> p_assoc pr = assoc_of_keyword k ->
  add_reduce g cfg maxprio a p len prod_len [sh] =
  MDone (match k with KwLeft | KwReduce => [Reduce p len] | KwRight | KwShift => [sh] end).
Proof.
  intros Hp Ht Hsh Hs Hpr Hta Hk.
  rewrite (sr_cell_spec_main g cfg maxprio a p len prod_len pr tm sh sprio Hp Ht Hsh Hs).
  unfold cell_decision, decide. rewrite Hta, Hk, Hpr, Nat.ltb_irrefl.
  destruct k; reflexivity.
Qed.

Lemma sr_term_keyword_main g cfg maxprio a p len prod_len pr tm sh sprio k :
  get_prod g p = Some pr -> nth_error (g_terms g) a = Some tm ->
  is_shiftlike sh = true -> shift_prio maxprio a sh = Some sprio ->
  p_prio pr = sprio -> t_assoc tm = assoc_of_keyword k ->
  add_reduce g cfg maxprio a p len prod_len [sh] =
  MDone (match k with KwLeft | KwReduce => [Reduce p len] | KwRight | KwShift => [sh] end).
Proof.
  intros Hp Ht Hsh Hs Hpr Hk.
  rewrite (sr_cell_spec_main g cfg maxprio a p len prod_len pr tm sh sprio Hp Ht Hsh Hs).
  unfold cell_decision, decide. rewrite Hk, Hpr, Nat.ltb_irrefl.
  destruct k; reflexivity.
Qed.


(* ------------------------------------------------------------------ *)
(* reduce/reduce on a cell of reductions *)

Lemma reduces_wf_no_shift g acts : reduces_wf g acts -> filter is_shiftlike acts = [].
Proof.
  intros Hwf. apply filter_all_false. intros x Hx.
  destruct (Hwf x Hx) as [q [l [-> _]]]. reflexivity.
Qed.

Lemma rr_cell_impl_main g cfg maxprio a p len prod_len acts pr tm :
  get_prod g p = Some pr -> nth_error (g_terms g) a = Some tm ->
  acts <> [] -> reduces_wf g acts ->
  add_reduce g cfg maxprio a p len prod_len acts =
  MDone (apply_rr (decide_rr (p_prio pr) (map (action_prio g) acts) (rs_glr cfg))
                  (0 <? prod_len) acts (Reduce p len)).
Proof.
  intros Hp Ht Hne Hwf.
  rewrite (add_reduce_no_shift g cfg maxprio a p len prod_len acts pr tm Hp Ht Hne (reduces_wf_no_shift g acts Hwf)).
  apply rr_step_spec; assumption.
Qed.

Lemma all_greater_spec x l : all_greater x l = true <-> (forall y, In y l -> x < y).
Proof.
  unfold all_greater. rewrite forallb_forall. split; intros H y Hy.
  - apply Nat.ltb_lt. apply H. exact Hy.
  - apply Nat.ltb_lt. apply H. exact Hy.
Qed.

Lemma all_smaller_spec x l : all_smaller x l = true <-> (forall y, In y l -> y < x).
Proof.
  unfold all_smaller. rewrite forallb_forall. split; intros H y Hy.
  - apply Nat.ltb_lt. apply H. exact Hy.
  - apply Nat.ltb_lt. apply H. exact Hy.
Qed.

Lemma rr_cell_cases_main g cfg maxprio a p len prod_len acts pr tm :
  get_prod g p = Some pr -> nth_error (g_terms g) a = Some tm ->
  acts <> [] -> reduces_wf g acts ->
  ((forall x, In x acts -> p_prio pr < action_prio g x) ->
     add_reduce g cfg maxprio a p len prod_len acts = MDone acts) /\
  ((forall x, In x acts -> action_prio g x < p_prio pr) ->
     add_reduce g cfg maxprio a p len prod_len acts = MDone [Reduce p len]) /\
  ((exists x, In x acts /\ action_prio g x <= p_prio pr) ->
   (exists x, In x acts /\ p_prio pr <= action_prio g x) ->
     add_reduce g cfg maxprio a p len prod_len acts =
     MDone (if rs_glr cfg then acts ++ [Reduce p len]
            else
              let kept := filter (fun x => negb (is_empty_reduction x)) acts in
              if (0 <? prod_len) || (match kept with [] => true | _ => false end)
              then kept ++ [Reduce p len] else kept)).
Proof.
  intros Hp Ht Hne Hwf.
  rewrite (rr_cell_impl_main g cfg maxprio a p len prod_len acts pr tm Hp Ht Hne Hwf).
  unfold decide_rr. repeat split.
  - intros H. assert (Hg : all_greater (p_prio pr) (map (action_prio g) acts) = true).
    { apply all_greater_spec. intros y Hy. apply in_map_iff in Hy. destruct Hy as [x [<- Hx]]. apply H. exact Hx. }
    rewrite Hg. reflexivity.
  - intros H.
    assert (Hg : all_greater (p_prio pr) (map (action_prio g) acts) = false).
    { destruct (all_greater _ _) eqn:E; [|reflexivity]. rewrite all_greater_spec in E.
      destruct acts as [|x0 acts0]; [congruence|].
      specialize (H x0 (or_introl eq_refl)).
      specialize (E (action_prio g x0) (or_introl eq_refl)). lia. }
    assert (Hs : all_smaller (p_prio pr) (map (action_prio g) acts) = true).
    { apply all_smaller_spec. intros y Hy. apply in_map_iff in Hy. destruct Hy as [x [<- Hx]]. apply H. exact Hx. }
    rewrite Hg, Hs. cbn [apply_rr].
    rewrite (filter_all_false (fun x => negb (is_reduce_action x)) acts); [reflexivity|].
    intros x Hx. destruct (Hwf x Hx) as [q [l [-> _]]]. reflexivity.
  - intros [x1 [Hx1 Hle1]] [x2 [Hx2 Hle2]].
    assert (Hg : all_greater (p_prio pr) (map (action_prio g) acts) = false).
    { destruct (all_greater _ _) eqn:E; [|reflexivity]. rewrite all_greater_spec in E.
      specialize (E (action_prio g x1) (in_map _ _ _ Hx1)). lia. }
    assert (Hs : all_smaller (p_prio pr) (map (action_prio g) acts) = false).
    { destruct (all_smaller _ _) eqn:E; [|reflexivity]. rewrite all_smaller_spec in E.
      specialize (E (action_prio g x2) (in_map _ _ _ Hx2)). lia. }
    rewrite Hg, Hs. destruct (rs_glr cfg); reflexivity.
Qed.

(* ------------------------------------------------------------------ *)
(* max_prior_for_term is the maximum priority of the productions that have the
   terminal right after the dot in the state *)

Fixpoint sortedk (m : list (nat * nat)) : Prop :=
  match m with
  | [] => True
  | (k, _) :: rest => (forall k' v', In (k', v') rest -> k < k') /\ sortedk rest
  end.

Lemma alookup_none_lt k m : (forall k' v', In (k', v') m -> k < k') -> alookup k m = None.
Proof.
  induction m as [|[k1 v1] m IH]; intros H; cbn [alookup]; [reflexivity|].
  assert (Hk : k < k1) by (apply (H k1 v1); left; reflexivity).
  destruct (k =? k1) eqn:E; [apply Nat.eqb_eq in E; lia|].
  apply IH. intros k' v' Hin. apply (H k' v'). right; exact Hin.
Qed.

Lemma bt_upsert_other k v m k' : k' <> k -> alookup k' (bt_upsert k v m) = alookup k' m.
Proof.
  intros Hne. induction m as [|[k1 v1] m IH]; cbn [bt_upsert alookup].
  - destruct (k' =? k) eqn:E; [apply Nat.eqb_eq in E; congruence|reflexivity].
  - destruct (k <? k1) eqn:E1.
    + cbn [alookup]. destruct (k' =? k) eqn:E; [apply Nat.eqb_eq in E; congruence|reflexivity].
    + destruct (k =? k1) eqn:E2.
      * apply Nat.eqb_eq in E2. subst k1. cbn [alookup].
        destruct (k' =? k) eqn:E; [apply Nat.eqb_eq in E; congruence|reflexivity].
      * cbn [alookup]. destruct (k' =? k1); [reflexivity|exact IH].
Qed.

Lemma bt_upsert_same k v m :
  sortedk m ->
  alookup k (bt_upsert k v m) =
  Some (match alookup k m with Some o => Nat.max o v | None => v end).
Proof.
  induction m as [|[k1 v1] m IH]; intros Hs; cbn [bt_upsert alookup].
  - rewrite Nat.eqb_refl. reflexivity.
  - destruct Hs as [Hlt Hs]. destruct (k <? k1) eqn:E1.
    + apply Nat.ltb_lt in E1. cbn [alookup]. rewrite Nat.eqb_refl.
      destruct (k =? k1) eqn:E; [apply Nat.eqb_eq in E; lia|].
      rewrite alookup_none_lt; [reflexivity|]. intros k' v' Hin. specialize (Hlt k' v' Hin). lia.
    + destruct (k =? k1) eqn:E2.
      * cbn [alookup]. rewrite E2. reflexivity.
      * cbn [alookup]. rewrite E2. apply IH. exact Hs.
Qed.

Lemma bt_upsert_keys k v m k' v' :
  In (k', v') (bt_upsert k v m) -> k' = k \/ exists v'', In (k', v'') m.
Proof.
  induction m as [|[k1 v1] m IH]; cbn [bt_upsert].
  - intros [H|[]]. inversion H. left; reflexivity.
  - destruct (k <? k1).
    + intros [H|H]; [inversion H; left; reflexivity|right; exists v'; exact H].
    + destruct (k =? k1) eqn:E2.
      * intros [H|H]; [inversion H; subst; right; exists v1; left; reflexivity|right; exists v'; right; exact H].
      * intros [H|H]; [inversion H; subst; right; exists v'; left; reflexivity|].
        destruct (IH H) as [->|[v'' Hin]]; [left; reflexivity|right; exists v''; right; exact Hin].
Qed.

Lemma bt_upsert_sorted k v m : sortedk m -> sortedk (bt_upsert k v m).
Proof.
  induction m as [|[k1 v1] m IH]; intros Hs; cbn [bt_upsert].
  - cbn. split; [intros k' v' []|exact I].
  - destruct Hs as [Hlt Hs]. destruct (k <? k1) eqn:E1.
    + apply Nat.ltb_lt in E1. cbn [sortedk]. split; [|split; assumption].
      intros k' v' [H|H]; [inversion H; subst; exact E1|specialize (Hlt k' v' H); lia].
    + apply Nat.ltb_ge in E1. destruct (k =? k1) eqn:E2.
      * cbn [sortedk]. split; assumption.
      * apply Nat.eqb_neq in E2. cbn [sortedk]. split; [|apply IH; exact Hs].
        intros k' v' Hin. destruct (bt_upsert_keys _ _ _ _ _ Hin) as [->|[v'' Hin']]; [lia|].
        apply (Hlt k' v''). exact Hin'.
Qed.

Definition is_max_for (g : grammar) (items : list item) (a : nat) (o : option nat) : Prop :=
  match o with
  | None => forall it, In it items -> symbol_at_position g it <> Some a
  | Some m =>
      (exists it pr, In it items /\ symbol_at_position g it = Some a /\
                     get_prod g (i_prod it) = Some pr /\ p_prio pr = m) /\
      (forall it pr, In it items -> symbol_at_position g it = Some a ->
                     get_prod g (i_prod it) = Some pr -> p_prio pr <= m)
  end.

Lemma is_max_for_skip g items it a o :
  symbol_at_position g it <> Some a ->
  is_max_for g items a o -> is_max_for g (items ++ [it]) a o.
Proof.
  intros Hne. destruct o as [m|]; cbn [is_max_for].
  - intros [[it0 [pr0 [Hin [Hs [Hp Hm]]]]] Hle]. split.
    + exists it0, pr0. repeat split; try assumption. apply in_or_app. left; exact Hin.
    + intros it1 pr1 Hin1 Hs1 Hp1. apply in_app_or in Hin1.
      destruct Hin1 as [Hin1|[<-|[]]]; [eapply Hle; eassumption|congruence].
  - intros H it1 Hin1. apply in_app_or in Hin1. destruct Hin1 as [Hin1|[<-|[]]]; [apply H; exact Hin1|exact Hne].
Qed.

Lemma is_max_for_add g items it pr a o :
  symbol_at_position g it = Some a -> get_prod g (i_prod it) = Some pr ->
  is_max_for g items a o ->
  is_max_for g (items ++ [it]) a
             (Some (match o with Some old => Nat.max old (p_prio pr) | None => p_prio pr end)).
Proof.
  intros Hs Hp. destruct o as [m|]; cbn [is_max_for].
  - intros [[it0 [pr0 [Hin [Hs0 [Hp0 Hm]]]]] Hle]. split.
    + destruct (Nat.max_spec m (p_prio pr)) as [[Hlt ->]|[Hge ->]].
      * exists it, pr. repeat split; try assumption. apply in_or_app. right; left; reflexivity.
      * exists it0, pr0. repeat split; try assumption. apply in_or_app. left; exact Hin.
    + intros it1 pr1 Hin1 Hs1 Hp1. apply in_app_or in Hin1. destruct Hin1 as [Hin1|[<-|[]]].
      * specialize (Hle it1 pr1 Hin1 Hs1 Hp1). lia.
      * rewrite Hp in Hp1. inversion Hp1; subst. lia.
  - intros Hnone. split.
    + exists it, pr. repeat split; try assumption. apply in_or_app. right; left; reflexivity.
    + intros it1 pr1 Hin1 Hs1 Hp1. apply in_app_or in Hin1. destruct Hin1 as [Hin1|[<-|[]]].
      * exfalso. exact (Hnone it1 Hin1 Hs1).
      * rewrite Hp in Hp1. inversion Hp1; subst. lia.
Qed.

Lemma maxprio_step_inv g done m it :
  sortedk m ->
  (forall a, a < g_nterm g -> is_max_for g done a (alookup a m)) ->
  sortedk (maxprio_step g m it) /\
  (forall a, a < g_nterm g -> is_max_for g (done ++ [it]) a (alookup a (maxprio_step g m it))).
Proof.
  intros Hs Hinv. unfold maxprio_step.
  destruct (get_prod g (i_prod it)) as [pr|] eqn:Hp.
  - destruct (nth_error (p_rhs pr) (i_pos it)) as [x|] eqn:Hx.
    + assert (Hsym : symbol_at_position g it = Some x) by (unfold symbol_at_position; rewrite Hp; exact Hx).
      destruct (x <? g_nterm g) eqn:Hlt.
      * split; [apply bt_upsert_sorted; exact Hs|]. intros a Ha.
        destruct (Nat.eq_dec a x) as [->|Hne].
        -- rewrite bt_upsert_same by exact Hs. apply is_max_for_add; auto.
        -- rewrite bt_upsert_other by exact Hne. apply is_max_for_skip; [rewrite Hsym; congruence|auto].
      * apply Nat.ltb_ge in Hlt. split; [exact Hs|]. intros a Ha.
        apply is_max_for_skip; [rewrite Hsym; intros H; inversion H; lia|auto].
    + split; [exact Hs|]. intros a Ha. apply is_max_for_skip; [|auto].
      unfold symbol_at_position. rewrite Hp, Hx. discriminate.
  - split; [exact Hs|]. intros a Ha. apply is_max_for_skip; [|auto].
    unfold symbol_at_position. rewrite Hp. discriminate.
Qed.

Lemma maxprio_fold_inv g items : forall done m,
  sortedk m ->
  (forall a, a < g_nterm g -> is_max_for g done a (alookup a m)) ->
  sortedk (fold_left (maxprio_step g) items m) /\
  (forall a, a < g_nterm g ->
     is_max_for g (done ++ items) a (alookup a (fold_left (maxprio_step g) items m))).
Proof.
  induction items as [|it items IH]; intros done m Hs Hinv; cbn [fold_left].
  - rewrite app_nil_r. split; assumption.
  - destruct (maxprio_step_inv g done m it Hs Hinv) as [Hs' Hinv'].
    destruct (IH (done ++ [it]) (maxprio_step g m it) Hs' Hinv') as [Hs'' Hinv''].
    split; [exact Hs''|]. intros a Ha. specialize (Hinv'' a Ha).
    rewrite <- app_assoc in Hinv''. exact Hinv''.
Qed.

Lemma shift_prio_is_max_main g items a :
  a < g_nterm g -> is_max_for g items a (alookup a (maxprio_of_items g items)).
Proof.
  intros Ha. unfold maxprio_of_items.
  destruct (maxprio_fold_inv g items [] []) as [_ H].
  - exact I.
  - intros a' _. cbn. intros it [].
  - exact (H a Ha).
Qed.

Lemma maxprio_sorted_main g items : sortedk (maxprio_of_items g items).
Proof.
  unfold maxprio_of_items.
  destruct (maxprio_fold_inv g items [] []) as [H _]; [exact I|intros a' _; cbn; intros it []|exact H].
Qed.

(* ------------------------------------------------------------------ *)

(* three-way: a reduction that wins against the Shift/Accept of a cell that already holds
   reductions: the shift is removed and the cell of reductions receives the new one *)
Lemma sr_three_way_main g cfg maxprio a p len prod_len acts pr tm sh sprio :
  get_prod g p = Some pr -> nth_error (g_terms g) a = Some tm ->
  filter is_shiftlike acts = [sh] -> shift_prio maxprio a sh = Some sprio ->
  cell_decision cfg pr tm sprio = KeepReduce ->
  filter is_reduce acts <> [] ->
  add_reduce g cfg maxprio a p len prod_len acts =
  add_reduce g cfg maxprio a p len prod_len (filter is_reduce acts).
Proof.
  intros Hp Ht Hf Hs Hd Hne.
  rewrite (add_reduce_one_shift g cfg maxprio a p len prod_len acts pr tm sh sprio Hp Ht Hf Hs), Hd.
  symmetry. apply (add_reduce_no_shift g cfg maxprio a p len prod_len _ pr tm Hp Ht Hne).
  apply filter_all_false. intros x Hx. apply filter_In in Hx. destruct Hx as [_ Hx].
  rewrite is_reduce_negb in Hx. apply negb_true_iff in Hx. exact Hx.
Qed.

(* ------------------------------------------------------------------ *)
(* panics of the cell function *)

Definition is_some {A : Type} (o : option A) : bool :=
  match o with Some _ => true | None => false end.

(* what the table construction guarantees about a cell before a reduction is
   added: the production and the terminal exist, at most one Shift/Accept, a
   Shift has its entry in max_prior_for_term, existing reductions name
   existing productions *)
Definition cell_wf_b (g : grammar) (maxprio : list (nat * nat)) (a p : nat) (acts : list action) : bool :=
  is_some (get_prod g p) && is_some (nth_error (g_terms g) a) &&
  (length (filter is_shiftlike acts) <=? 1) &&
  forallb (fun x => match x with
                    | Shift _ => is_some (alookup a maxprio)
                    | Reduce q _ => is_some (get_prod g q)
                    | Accept => true
                    end) acts.

Lemma cell_wf_reduces g maxprio a p acts :
  cell_wf_b g maxprio a p acts = true -> reduces_wf g (filter is_reduce acts).
Proof.
  unfold cell_wf_b. intros H. apply andb_true_iff in H. destruct H as [_ H].
  rewrite forallb_forall in H. intros x Hx. apply filter_In in Hx. destruct Hx as [Hx Hr].
  destruct x as [t|q l|]; try discriminate. exists q, l. split; [reflexivity|].
  specialize (H _ Hx). cbn in H. destruct (get_prod g q); [discriminate|discriminate].
Qed.

Lemma cell_wf_shift_prio g maxprio a p acts sh :
  cell_wf_b g maxprio a p acts = true -> In sh acts -> is_shiftlike sh = true ->
  exists sprio, shift_prio maxprio a sh = Some sprio.
Proof.
  unfold cell_wf_b. intros H Hin Hsh. apply andb_true_iff in H. destruct H as [_ H].
  rewrite forallb_forall in H. specialize (H _ Hin).
  destruct sh as [t|q l|]; try discriminate.
  - cbn [shift_prio]. destruct (alookup a maxprio) as [v|]; [exists v; reflexivity|discriminate].
  - exists DEFAULT_PRIORITY. reflexivity.
Qed.

Lemma rr_step_done g cfg pr r prod_len acts reduces :
  reduces_wf g reduces -> exists acts', rr_step g cfg pr r prod_len acts reduces = MDone acts'.
Proof.
  intros Hwf. destruct reduces as [|x0 rs0].
  - eexists. reflexivity.
  - rewrite rr_step_spec; [eexists; reflexivity|discriminate|exact Hwf].
Qed.

Lemma no_panic_main g cfg maxprio a p len prod_len acts :
  cell_wf_b g maxprio a p acts = true ->
  exists acts', add_reduce g cfg maxprio a p len prod_len acts = MDone acts'.
Proof.
  intros Hwf. pose proof Hwf as Hwf0. unfold cell_wf_b in Hwf.
  repeat (apply andb_true_iff in Hwf; destruct Hwf as [Hwf ?]).
  destruct (get_prod g p) as [pr|] eqn:Hp; [|discriminate].
  destruct (nth_error (g_terms g) a) as [tm|] eqn:Ht; [|discriminate].
  destruct acts as [|x0 acts0].
  { eexists. eapply add_reduce_empty; eassumption. }
  destruct (filter is_shiftlike (x0 :: acts0)) as [|sh [|sh2 shs]] eqn:Hf.
  - rewrite (add_reduce_no_shift g cfg maxprio a p len prod_len _ pr tm Hp Ht); [|discriminate|exact Hf].
    apply rr_step_done.
    rewrite <- (filter_all_true is_reduce (x0 :: acts0)).
    + eapply cell_wf_reduces; exact Hwf0.
    + intros x Hx. rewrite is_reduce_negb, (filter_nil_all_false _ _ Hf x Hx). reflexivity.
  - assert (Hin : In sh (x0 :: acts0) /\ is_shiftlike sh = true).
    { apply filter_In. rewrite Hf. left; reflexivity. }
    destruct Hin as [Hin Hsh].
    destruct (cell_wf_shift_prio g maxprio a p _ sh Hwf0 Hin Hsh) as [sprio Hs].
    rewrite (add_reduce_one_shift g cfg maxprio a p len prod_len _ pr tm sh sprio Hp Ht Hf Hs).
    destruct (cell_decision cfg pr tm sprio).
    + eexists; reflexivity.
    + apply rr_step_done. eapply cell_wf_reduces; exact Hwf0.
    + apply rr_step_done. eapply cell_wf_reduces; exact Hwf0.
  - apply Nat.leb_le in H0. cbn [length] in H0. lia.
Qed.

(* the panic! on a non-Reduce action is dead, and no other site exists *)
Lemma reduces_prio_filter_site g acts s :
  reduces_prio g (filter is_reduce acts) = MPanic s -> s = P_RPROD.
Proof.
  induction acts as [|x acts IH]; cbn [filter reduces_prio]; [discriminate|].
  destruct x as [t|q l|]; cbn [is_reduce]; [exact IH| |exact IH].
  cbn [reduces_prio]. destruct (get_prod g q); [|intros H; inversion H; reflexivity].
  destruct (reduces_prio g (filter is_reduce acts)); [discriminate|].
  intros H; inversion H; subst. apply IH. reflexivity.
Qed.

Lemma panic_sites_main g cfg maxprio a p len prod_len acts s :
  add_reduce g cfg maxprio a p len prod_len acts = MPanic s ->
  In s [P_PROD; P_TERM; P_SHIFTS; P_MAXPRIO; P_RPROD].
Proof.
  unfold add_reduce. intros H.
  destruct (get_prod g p) as [pr|]; [|inversion H; cbn; auto 10].
  destruct (nth_error (g_terms g) a) as [tm|]; [|inversion H; cbn; auto 10].
  destruct acts as [|x0 acts0]; [discriminate|].
  rewrite partition_acts in H.
  destruct (1 <? length (filter is_shiftlike (x0 :: acts0))); [inversion H; cbn; auto 10|].
  destruct (sr_step cfg pr tm maxprio a (x0 :: acts0) (filter is_shiftlike (x0 :: acts0)))
    as [[acts1 sr]|s1] eqn:Hsr.
  - destruct sr; [|discriminate].
    unfold rr_step in H.
    destruct (filter is_reduce (x0 :: acts0)) as [|r0 rs0] eqn:Hfr; [discriminate|].
    rewrite <- Hfr in H.
    destruct (reduces_prio g (filter is_reduce (x0 :: acts0))) as [prios|s2] eqn:Hrp.
    + destruct (forallb _ prios); [discriminate|].
      destruct (forallb _ prios); [discriminate|].
      destruct (rs_glr cfg); [discriminate|].
      destruct (_ || _); discriminate.
    + inversion H; subst. apply reduces_prio_filter_site in Hrp. subst. cbn; auto 10.
  - inversion H; subst. unfold sr_step in Hsr.
    destruct (filter is_shiftlike (x0 :: acts0)) as [|sh shs]; [discriminate|].
    destruct (shift_prio maxprio a sh) as [sprio|]; [|inversion Hsr; cbn; auto 10].
    destruct (p_prio pr ?= sprio); [|discriminate|discriminate].
    destruct (assoc_arm (p_assoc pr) (t_assoc tm)); discriminate.
Qed.

(* ------------------------------------------------------------------ *)
(* State level: on the cells calc_states leaves behind, with max_prior_for_term
   computed from the items, calculate_reductions cannot abort in a state that
   passes state_wf_b. *)

Definition cellinv (g : grammar) (maxprio : list (nat * nat)) (a : nat) (acts : list action) : Prop :=
  length (filter is_shiftlike acts) <= 1 /\
  forall x, In x acts ->
    match x with
    | Shift _ => alookup a maxprio <> None
    | Reduce q _ => get_prod g q <> None
    | Accept => True
    end.

Lemma cellinv_wf g maxprio a p acts pr tm :
  get_prod g p = Some pr -> nth_error (g_terms g) a = Some tm ->
  cellinv g maxprio a acts -> cell_wf_b g maxprio a p acts = true.
Proof.
  intros Hp Ht [Hc Hx]. unfold cell_wf_b. rewrite Hp, Ht. cbn [is_some andb].
  apply andb_true_iff. split; [apply Nat.leb_le; exact Hc|].
  apply forallb_forall. intros x Hin. specialize (Hx x Hin).
  destruct x as [t|q l|].
  - destruct (alookup a maxprio); [reflexivity|congruence].
  - destruct (get_prod g q); [reflexivity|congruence].
  - reflexivity.
Qed.

Lemma count_filter {A} (f h : A -> bool) (l : list A) :
  length (filter f (filter h l)) <= length (filter f l).
Proof.
  induction l as [|x l IH]; [cbn; lia|]. cbn [filter].
  destruct (h x); cbn [filter]; destruct (f x); cbn [length]; lia.
Qed.

Lemma shiftlike_app_reduce l p len :
  filter is_shiftlike (l ++ [Reduce p len]) = filter is_shiftlike l.
Proof. rewrite filter_app. cbn. apply app_nil_r. Qed.

Lemma rr_step_shift_count g cfg pr p len prod_len acts reduces acts' :
  rr_step g cfg pr (Reduce p len) prod_len acts reduces = MDone acts' ->
  length (filter is_shiftlike acts') <= length (filter is_shiftlike acts).
Proof.
  unfold rr_step. intros H.
  destruct reduces as [|x0 rs0].
  { inversion H; subst. rewrite shiftlike_app_reduce. lia. }
  destruct (reduces_prio g (x0 :: rs0)) as [prios|s]; [|discriminate].
  destruct (forallb (fun y => p_prio pr <? y) prios).
  { inversion H; subst. lia. }
  destruct (forallb (fun y => y <? p_prio pr) prios).
  { inversion H; subst. rewrite shiftlike_app_reduce. apply count_filter. }
  destruct (rs_glr cfg).
  { inversion H; subst. rewrite shiftlike_app_reduce. lia. }
  destruct ((0 <? prod_len) || match filter (fun y => negb (is_empty_reduce y)) acts with [] => true | _ => false end).
  - inversion H; subst. rewrite shiftlike_app_reduce. apply count_filter.
  - inversion H; subst. apply count_filter.
Qed.


Lemma add_reduce_shift_count g cfg maxprio a p len prod_len acts acts' :
  add_reduce g cfg maxprio a p len prod_len acts = MDone acts' ->
  length (filter is_shiftlike acts') <= length (filter is_shiftlike acts).
Proof.
  unfold add_reduce. intros H.
  destruct (get_prod g p) as [pr|]; [|discriminate].
  destruct (nth_error (g_terms g) a) as [tm|]; [|discriminate].
  destruct acts as [|x0 acts0].
  { inversion H; subst. cbn. lia. }
  rewrite partition_acts in H.
  destruct (1 <? length (filter is_shiftlike (x0 :: acts0))); [discriminate|].
  destruct (sr_step cfg pr tm maxprio a (x0 :: acts0) (filter is_shiftlike (x0 :: acts0)))
    as [[acts1 sr]|s] eqn:Hsr; [|discriminate].
  assert (Hsub : length (filter is_shiftlike acts1) <= length (filter is_shiftlike (x0 :: acts0))).
  { destruct (sr_step_sub _ _ _ _ _ _ _ _ _ Hsr) as [->| ->]; [lia|].
    unfold drop_shifts. apply count_filter. }
  destruct sr.
  - apply rr_step_shift_count in H. lia.
  - inversion H; subst. exact Hsub.
Qed.

Lemma add_reduce_cellinv g cfg maxprio a p len prod_len acts acts' :
  get_prod g p <> None -> cellinv g maxprio a acts ->
  add_reduce g cfg maxprio a p len prod_len acts = MDone acts' ->
  cellinv g maxprio a acts' /\
  length (filter is_shiftlike acts') <= length (filter is_shiftlike acts).
Proof.
  intros Hp [Hc Hx] H. pose proof (add_reduce_shift_count _ _ _ _ _ _ _ _ _ H) as Hcount.
  split; [|exact Hcount]. split; [lia|].
  intros x Hin. destruct (add_reduce_subset _ _ _ _ _ _ _ _ _ H x Hin) as [Hold| ->].
  - apply Hx. exact Hold.
  - exact Hp.
Qed.

Lemma add_reduce_cellinv_done g cfg maxprio a p len prod_len acts :
  get_prod g p <> None -> nth_error (g_terms g) a <> None -> cellinv g maxprio a acts ->
  exists acts', add_reduce g cfg maxprio a p len prod_len acts = MDone acts'.
Proof.
  intros Hp Ht Hinv.
  destruct (get_prod g p) as [pr|] eqn:Hpe; [|congruence].
  destruct (nth_error (g_terms g) a) as [tm|] eqn:Hte; [|congruence].
  apply no_panic_main. eapply cellinv_wf; eassumption.
Qed.

(* set_nth *)
Lemma set_nth_length {A} n (x : A) l : length (set_nth n x l) = length l.
Proof. revert n; induction l as [|y l IH]; intros [|n]; cbn; auto. Qed.

Lemma set_nth_same {A} n (x : A) l : n < length l -> nth_error (set_nth n x l) n = Some x.
Proof.
  revert n; induction l as [|y l IH]; intros [|n] H; cbn in *; try lia; [reflexivity|].
  apply IH. lia.
Qed.

Lemma set_nth_other {A} n m (x : A) l : m <> n -> nth_error (set_nth n x l) m = nth_error l m.
Proof.
  revert n m; induction l as [|y l IH]; intros [|n] [|m] H; cbn; try reflexivity; try congruence.
  apply IH. congruence.
Qed.

Definition cells_inv (g : grammar) (maxprio : list (nat * nat)) (cells : list (list action)) (k : nat) : Prop :=
  length cells = g_nterm g /\
  (forall a acts, nth_error cells a = Some acts -> cellinv g maxprio a acts) /\
  (forall c0, nth_error cells 0 = Some c0 -> length (filter is_shiftlike c0) + k <= 1).


Lemma apply_follows_inv g cfg maxprio p len prod_len : forall fs cells k,
  get_prod g p <> None -> (forall f, In f fs -> f < g_nterm g) ->
  cells_inv g maxprio cells k ->
  exists cells', apply_follows g cfg maxprio p len prod_len fs cells = RDone cells' /\
                 cells_inv g maxprio cells' k.
Proof.
  induction fs as [|f fs IH]; intros cells k Hp Hfs Hinv; cbn [apply_follows]; [exists cells; auto|].
  assert (Hf : f < g_nterm g) by (apply Hfs; left; reflexivity).
  destruct (nth_error (g_terms g) f) as [tm|] eqn:Ht.
  2:{ apply nth_error_None in Ht. unfold g_nterm in Hf. lia. }
  destruct Hinv as [Hlen [Hcells H0]].
  destruct (nth_error cells f) as [acts|] eqn:Hc.
  2:{ apply nth_error_None in Hc. lia. }
  pose proof (Hcells f acts Hc) as Hci.
  destruct (add_reduce_cellinv_done g cfg maxprio f p len prod_len acts Hp) as [acts' Har];
    [congruence|exact Hci|].
  rewrite Har.
  destruct (add_reduce_cellinv _ _ _ _ _ _ _ _ _ Hp Hci Har) as [Hci' Hcount].
  apply IH; [exact Hp|intros f' Hf'; apply Hfs; right; exact Hf'|].
  split; [rewrite set_nth_length; exact Hlen|]. split.
  - intros a acts2 Ha. destruct (Nat.eq_dec a f) as [->|Hne].
    + rewrite set_nth_same in Ha by lia. inversion Ha; subst. exact Hci'.
    + rewrite set_nth_other in Ha by exact Hne. apply Hcells. exact Ha.
  - intros c0 Hc0. destruct (Nat.eq_dec 0 f) as [<-|Hne].
    + rewrite set_nth_same in Hc0 by lia. inversion Hc0; subst.
      specialize (H0 acts Hc). lia.
    + rewrite set_nth_other in Hc0 by exact Hne. apply H0. exact Hc0.
Qed.

(* the item pushes Accept *)
Definition aug_complete_b (g : grammar) (it : item) : bool :=
  match get_prod g (i_prod it) with
  | Some pr => is_aug_lhs g (p_lhs pr) && (i_pos it =? length (p_rhs pr))
  | None => false
  end.

Definition item_wf_b (g : grammar) (rn : option (list nat)) (it : item) : bool :=
  is_some (get_prod g (i_prod it)) &&
  forallb (fun f => f <? g_nterm g) (i_follow it) &&
  (match rn with Some l => i_prod it <? length l | None => true end).

(* what the check evaluates on every state of every real dump *)
Definition state_wf_b (g : grammar) (rn : option (list nat)) (st : state) : bool :=
  forallb (item_wf_b g rn) (s_items st) &&
  (length (filter (aug_complete_b g) (s_items st)) <=? 1) &&
  negb (memb STOP (next_syms g st)) &&
  (0 <? g_nterm g).


Lemma reduce_items_inv g cfg rn maxprio : forall items cells k,
  forallb (item_wf_b g rn) items = true ->
  length (filter (aug_complete_b g) items) <= k ->
  0 < g_nterm g ->
  cells_inv g maxprio cells k ->
  exists cells', reduce_items g cfg rn maxprio items cells = RDone cells'.
Proof.
  induction items as [|it items IH]; intros cells k Hwf Hk Hnt Hinv; cbn [reduce_items]; [exists cells; reflexivity|].
  cbn [forallb] in Hwf. apply andb_true_iff in Hwf. destruct Hwf as [Hit Hwf].
  unfold item_wf_b in Hit. apply andb_true_iff in Hit. destruct Hit as [Hit Hrn].
  apply andb_true_iff in Hit. destruct Hit as [Hpr Hfol].
  destruct (get_prod g (i_prod it)) as [pr|] eqn:Hp; [|discriminate].
  assert (Hk' : length (filter (aug_complete_b g) items) <= k).
  { cbn [filter] in Hk. destruct (aug_complete_b g it); cbn [length] in Hk; lia. }
  destruct (item_reducing rn it (length (p_rhs pr))) as [b|s1] eqn:Hred.
  2:{ unfold item_reducing in Hred. destruct rn as [l|]; [|discriminate].
      destruct (nth_error l (i_prod it)) eqn:Hn; [discriminate|].
      apply nth_error_None in Hn. apply Nat.ltb_lt in Hrn. lia. }
  destruct b.
  2:{ apply (IH cells k); assumption. }
  destruct (is_aug_lhs g (p_lhs pr)) eqn:Haug.
  - destruct (i_pos it =? length (p_rhs pr)) eqn:Hpos.
    + assert (Hac : aug_complete_b g it = true).
      { unfold aug_complete_b. rewrite Hp, Haug, Hpos. reflexivity. }
      cbn [filter] in Hk. rewrite Hac in Hk. cbn [length] in Hk.
      destruct Hinv as [Hlen [Hcells H0]].
      destruct cells as [|c0 cs]; [cbn in Hlen; lia|].
      apply (IH ((c0 ++ [Accept]) :: cs) (k - 1)); try assumption; [lia|].
      pose proof (H0 c0 eq_refl) as Hc0.
      split; [exact Hlen|]. split.
      * intros a acts Ha. destruct a as [|a].
        -- cbn in Ha. inversion Ha; subst. destruct (Hcells 0 c0 eq_refl) as [Hcnt Hx].
           split.
           ++ rewrite filter_app. cbn [filter is_shiftlike]. rewrite app_length. cbn [length]. lia.
           ++ intros x Hin. apply in_app_or in Hin. destruct Hin as [Hin|[<-|[]]]; [apply Hx; exact Hin|exact I].
        -- apply (Hcells (S a)). exact Ha.
      * intros c0' Hc0'. cbn in Hc0'. inversion Hc0'; subst.
        rewrite filter_app. cbn [filter is_shiftlike]. rewrite app_length. cbn [length]. lia.
    + apply (IH cells k); assumption.
  - destruct (apply_follows_inv g cfg maxprio (i_prod it) (i_pos it) (length (p_rhs pr))
                (i_follow it) cells k) as [cells' [Hapf Hinv']]; [congruence| |exact Hinv|].
    + intros f Hf. rewrite forallb_forall in Hfol. apply Nat.ltb_lt. apply Hfol. exact Hf.
    + rewrite Hapf. apply (IH cells' k); assumption.
Qed.

Lemma nth_error_map_seq {A} (f : nat -> A) n a :
  nth_error (map f (seq 0 n)) a = if a <? n then Some (f a) else None.
Proof.
  destruct (a <? n) eqn:E.
  - apply Nat.ltb_lt in E. rewrite nth_error_map.
    rewrite (nth_error_nth' (seq 0 n) 0) by (rewrite seq_length; exact E).
    rewrite seq_nth by exact E. reflexivity.
  - apply Nat.ltb_ge in E. apply nth_error_None. rewrite map_length, seq_length. exact E.
Qed.

Lemma next_syms_In g st a :
  In a (next_syms g st) -> exists it, In it (s_items st) /\ symbol_at_position g it = Some a.
Proof.
  unfold next_syms. intros H. apply in_flat_map in H. destruct H as [it [Hit Hin]].
  exists it. split; [exact Hit|]. destruct (symbol_at_position g it); [|destruct Hin].
  destruct Hin as [->|[]]. reflexivity.
Qed.

Lemma init_cells_inv g st real k :
  memb STOP (next_syms g st) = false -> k <= 1 ->
  cells_inv g (maxprio_of_items g (s_items st)) (init_cells g st real) k.
Proof.
  intros Hstop Hk. unfold init_cells. split; [rewrite map_length, seq_length; reflexivity|]. split.
  - intros a acts Ha. rewrite nth_error_map_seq in Ha.
    destruct (a <? g_nterm g) eqn:Hlt; [|discriminate]. apply Nat.ltb_lt in Hlt.
    inversion Ha; subst. unfold init_cell.
    destruct (memb a (next_syms g st)) eqn:Hm.
    + assert (Hne : (a =? STOP) = false).
      { destruct (a =? STOP) eqn:E; [|reflexivity]. apply Nat.eqb_eq in E. subst. congruence. }
      rewrite Hne. split; [cbn; lia|].
      intros x [<-|[]]. apply memb_In in Hm. destruct (next_syms_In g st a Hm) as [it [Hit Hsym]].
      pose proof (shift_prio_is_max_main g (s_items st) a Hlt) as Hmax.
      destruct (alookup a (maxprio_of_items g (s_items st))); [discriminate|].
      cbn in Hmax. exfalso. exact (Hmax it Hit Hsym).
    + split; [cbn; lia|intros x []].
  - intros c0 Hc0. rewrite nth_error_map_seq in Hc0.
    destruct (0 <? g_nterm g); [|discriminate]. inversion Hc0; subst.
    unfold init_cell. change (memb 0 (next_syms g st)) with (memb STOP (next_syms g st)).
    rewrite Hstop. cbn. lia.
Qed.


Lemma state_no_panic_main g cfg rn st real :
  state_wf_b g rn st = true ->
  exists cells,
    calc_reductions_state g cfg rn st (maxprio_of_items g (s_items st)) (init_cells g st real) = RDone cells.
Proof.
  unfold state_wf_b, calc_reductions_state. intros Hwf.
  repeat (apply andb_true_iff in Hwf; destruct Hwf as [Hwf ?]).
  apply Nat.leb_le in H1. apply negb_true_iff in H0. apply Nat.ltb_lt in H.
  eapply (reduce_items_inv g cfg rn _ (s_items st) _ 1); try eassumption.
  apply init_cells_inv; [exact H0|lia].
Qed.
