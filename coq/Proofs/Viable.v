(* C12, the "no late detection" half: when the LR model reports an error at
   token index k, the k tokens before it are a viable prefix (they begin some
   sentence). Together with ErrorPos.error_no_continuation: k is exactly the
   first token that cannot continue any sentence beginning with the tokens
   before it. *)
From RV Require Import Model.LR Spec.Validators Proofs.Sound.

Section Viable.
Variable g : grammar.
Variable T : table.
Hypothesis Hwf : wf_grammar_b g = true.
Hypothesis Hsound : sound_b g T = true.
Hypothesis Hviable : viable_b g T = true.

Definition has_tree (X : nat) : Prop := exists t, valid_tree g t /\ root g t = X.

(* ---------- productivity ---------- *)
Lemma prod_ready_trees P pr :
  (forall X, In X P -> has_tree X) -> prod_ready g P pr = true ->
  exists cs, Forall (valid_tree g) cs /\ map (root g) cs = p_rhs pr.
Proof.
  intros HP Hr. unfold prod_ready in Hr. rewrite forallb_forall in Hr.
  induction (p_rhs pr) as [|x l IH].
  - exists []. split; [constructor|reflexivity].
  - destruct IH as [cs [Hv Hm]]; [intros y Hy; apply Hr; right; exact Hy|].
    specialize (Hr x (or_introl eq_refl)). apply orb_true_iff in Hr. destruct Hr as [Hr|Hr].
    + apply andb_true_iff in Hr. destruct Hr as [H0 H1]. apply Nat.ltb_lt in H0, H1.
      exists (Leaf x :: cs). split; [constructor; [constructor; lia|exact Hv]|simpl; rewrite Hm; reflexivity].
    + apply memb_In in Hr. destruct (HP x Hr) as [t [Ht Hrt]].
      exists (t :: cs). split; [constructor; assumption|simpl; rewrite Hrt, Hm; reflexivity].
Qed.

Lemma prod_round_trees P :
  (forall X, In X P -> has_tree X) -> forall X, In X (prod_round g P) -> has_tree X.
Proof.
  intros HP X HX. unfold prod_round in HX. apply in_app_or in HX. destruct HX as [HX|HX]; [auto|].
  apply in_map_iff in HX. destruct HX as [pr [Hl Hin]]. apply filter_In in Hin. destruct Hin as [Hin Hr].
  destruct (prod_ready_trees P pr HP Hr) as [cs [Hv Hm]].
  apply In_nth_error in Hin. destruct Hin as [p Hp].
  exists (Node p cs). split.
  - econstructor; [exact Hp|exact Hm|exact Hv].
  - simpl. unfold lhs, get_prod. rewrite Hp. exact Hl.
Qed.

Lemma prod_iter_trees n : forall P,
  (forall X, In X P -> has_tree X) -> forall X, In X (prod_iter g n P) -> has_tree X.
Proof.
  induction n as [|n IH]; intros P HP X HX; simpl in HX; [auto|].
  eapply IH; [|exact HX]. apply prod_round_trees. exact HP.
Qed.

Lemma productive_parts :
  productive_b g = true /\
  forall s st, get_state T s = Some st -> justified_b g T s st = true.
Proof.
  pose proof Hviable as H. unfold viable_b in H. apply andb_true_iff in H. destruct H as [H1 H2].
  split; [exact H1|]. intros s st Hs. rewrite forallb_forall in H2.
  specialize (H2 (s, st)). apply H2. apply In_indexed. exact Hs.
Qed.

(* trees for the symbols after the dot of any production *)
Lemma fillers p pr i :
  get_prod g p = Some pr ->
  exists cs, Forall (valid_tree g) cs /\ map (root g) cs = skipn i (p_rhs pr).
Proof.
  intros Hp. destruct productive_parts as [Hprod _]. unfold productive_b in Hprod.
  rewrite forallb_forall in Hprod. specialize (Hprod pr (nth_error_In _ _ Hp)).
  assert (HP : forall X, In X (productive_set g) -> has_tree X).
  { unfold productive_set. apply prod_iter_trees. intros X []. }
  destruct (prod_ready_trees _ pr HP Hprod) as [cs [Hv Hm]].
  exists (skipn i cs). split.
  - apply Forall_forall. intros x Hx. rewrite Forall_forall in Hv. apply Hv.
    clear - Hx. revert cs Hx. induction i as [|i IH]; intros [|c cs] Hx; simpl in *; auto; try contradiction.
  - rewrite <- Hm. clear. revert cs. induction i as [|i IH]; intros [|c cs]; simpl; auto.
Qed.

(* ---------- extension of a stack to a sentence ---------- *)
Definition Ext (ts : list tree) (p i : nat) : Prop :=
  forall cs, Forall (valid_tree g) cs -> map (root g) cs = skipn i (rhs g p) ->
  exists v, sentence g (yields ts ++ flat_map yield cs ++ v).

Lemma item_at s st p i :
  get_state T s = Some st -> has_itemb st p i = true ->
  exists idx it, nth_error (s_items st) idx = Some it /\ i_prod it = p /\ i_pos it = i.
Proof.
  intros Hs Hb. apply has_itemb_spec in Hb. destruct Hb as [it [Hin [Hp Hi]]].
  apply In_nth_error in Hin. destruct Hin as [idx Hidx]. eauto.
Qed.

(* closure items: justified by an earlier item, or the start item of a start state *)
Lemma justified s st idx it :
  get_state T s = Some st -> nth_error (s_items st) idx = Some it -> i_pos it = 0 ->
  (is_aug_prod g (i_prod it) = true /\ is_start_state T s = true) \/
  exists idx' it', idx' < idx /\ nth_error (s_items st) idx' = Some it' /\
                   nth_error (rhs g (i_prod it')) (i_pos it') = Some (lhs g (i_prod it)).
Proof.
  intros Hs Hn Hi. destruct productive_parts as [_ Hj]. specialize (Hj s st Hs).
  unfold justified_b in Hj. apply andb_true_iff in Hj. destruct Hj as [_ Hj].
  rewrite forallb_forall in Hj. specialize (Hj (idx, it)). cbv beta iota zeta in Hj.
  rewrite Hi in Hj. cbn [Nat.eqb] in Hj. specialize (Hj (proj2 (In_indexed _ _ _) Hn)).
  apply orb_true_iff in Hj. destruct Hj as [Hj|Hj].
  - left. apply andb_true_iff in Hj. exact Hj.
  - right. apply existsb_exists in Hj. destruct Hj as [it' [Hin Hx]].
    apply In_nth_error in Hin. destruct Hin as [idx' Hidx'].
    assert (Hlt : idx' < idx).
    { assert (Hl : idx' < length (firstn idx (s_items st))) by (apply nth_error_Some; congruence).
      rewrite firstn_length in Hl. lia. }
    exists idx', it'. split; [exact Hlt|]. split.
    + rewrite <- Hidx'. symmetry. apply nth_error_firstn_lt. exact Hlt.
    + destruct (nth_error (rhs g (i_prod it')) (i_pos it')) as [X|]; [|discriminate].
      apply Nat.eqb_eq in Hx. congruence.
Qed.

Lemma node_valid q cs :
  (exists pr, get_prod g q = Some pr) -> Forall (valid_tree g) cs -> map (root g) cs = skipn 0 (rhs g q) ->
  valid_tree g (Node q cs).
Proof.
  intros [pr Hq] Hv Hm. econstructor; [exact Hq| |exact Hv].
  unfold rhs in Hm. rewrite Hq in Hm. exact Hm.
Qed.

(* the closure step: an item (q,0) justified by (p,j) inherits extendability *)
Lemma ext_closure ts p j q :
  (exists pr, get_prod g p = Some pr) -> (exists pr, get_prod g q = Some pr) ->
  nth_error (rhs g p) j = Some (lhs g q) -> Ext ts p j -> Ext ts q 0.
Proof.
  intros [pp Hp] Hq Hnth Hext cs Hv Hm.
  destruct (fillers p pp (S j) Hp) as [fs [Hfv Hfm]].
  assert (Hrhs : rhs g p = p_rhs pp) by (unfold rhs; rewrite Hp; reflexivity).
  specialize (Hext (Node q cs :: fs)).
  destruct Hext as [v Hsent].
  - constructor; [apply node_valid; assumption|exact Hfv].
  - simpl. rewrite Hfm, <- Hrhs.
    (* skipn j l = nth j :: skipn (S j) l *)
    clear - Hnth. revert j Hnth. induction (rhs g p) as [|x l IH]; intros [|j] H; simpl in *; try discriminate.
    + inversion H. reflexivity.
    + apply IH. exact H.
  - exists (flat_map yield fs ++ v). simpl in Hsent. rewrite <- !app_assoc in Hsent. exact Hsent.
Qed.

Lemma ext_all : forall stk ts, linked g T 0 stk ts ->
  forall s st, hd_error stk = Some s -> get_state T s = Some st ->
  forall idx it, nth_error (s_items st) idx = Some it -> Ext ts (i_prod it) (i_pos it).
Proof.
  induction 1 as [|s1 s2 stk1 t1 ts1 Htr Hv Hl IH]; intros s st Hhd Hs idx.
  - (* bottom: state 0, empty tree stack *)
    simpl in Hhd. inversion Hhd; subst s.
    induction idx as [idx IHidx] using lt_wf_ind. intros it Hn.
    assert (Hpos : i_pos it = 0).
    { eapply (start_items g T Hsound 0 (i_prod it)); [reflexivity|].
      exists st. split; [exact Hs|]. unfold has_itemb, find_item.
      destruct (find _ (s_items st)) eqn:E; [reflexivity|].
      exfalso. eapply find_none in E; [|eapply nth_error_In; exact Hn]. simpl in E.
      rewrite !Nat.eqb_refl in E. discriminate. }
    assert (Hwfi : exists pr, get_prod g (i_prod it) = Some pr).
    { destruct (item_wf g T Hsound 0 (i_prod it) (i_pos it)) as [pr [Hpr _]]; [|eauto].
      exists st. split; [exact Hs|]. unfold has_itemb, find_item.
      destruct (find _ (s_items st)) eqn:E; [reflexivity|].
      exfalso. eapply find_none in E; [|eapply nth_error_In; exact Hn]. simpl in E.
      rewrite !Nat.eqb_refl in E. discriminate. }
    rewrite Hpos. destruct (justified 0 st idx it Hs Hn Hpos) as [[Haug _]|[idx' [it' [Hlt [Hn' Hx]]]]].
    + (* the start item AUG -> . S *)
      unfold is_aug_prod in Haug. apply orb_true_iff in Haug. destruct Haug as [Haug|Haug].
      * apply Nat.eqb_eq in Haug. rewrite Haug. intros cs Hcv Hcm.
        destruct (wf_prod0 g Hwf) as [p0 [Hp0 [_ Hr0]]]. unfold rhs in Hcm. rewrite Hp0, Hr0 in Hcm. simpl in Hcm.
        destruct cs as [|c [|c2 cs]]; try discriminate. simpl in Hcm. inversion Hcm as [Hroot].
        exists []. exists c. inversion Hcv; subst. repeat split; try assumption.
        unfold yields. simpl. rewrite !app_nil_r. reflexivity.
      * (* (AUGL,0) lives only in the layout state, which is not state 0 *)
        destruct (g_layout g) as [l|] eqn:Hlay; [|discriminate]. apply Nat.eqb_eq in Haug.
        exfalso. assert (Hit : has_item T 0 1 0).
        { exists st. split; [exact Hs|]. unfold has_itemb, find_item.
          destruct (find _ (s_items st)) eqn:E; [reflexivity|].
          exfalso. eapply find_none in E; [|eapply nth_error_In; exact Hn]. simpl in E.
          rewrite Haug, Hpos in E. simpl in E. discriminate. }
        pose proof (augl_item_state g T Hsound 0 l Hlay Hit) as Hls.
        eapply (wf_layout_state_ne0 g T Hsound); [exact Hls|reflexivity].
    + eapply ext_closure; [| exact Hwfi | exact Hx | apply (IHidx idx' Hlt it' Hn')].
      destruct (item_wf g T Hsound 0 (i_prod it') (i_pos it')) as [pr [Hpr _]]; [|eauto].
      exists st. split; [exact Hs|]. unfold has_itemb, find_item.
      destruct (find _ (s_items st)) eqn:E; [reflexivity|].
      exfalso. eapply find_none in E; [|eapply nth_error_In; exact Hn']. simpl in E.
      rewrite !Nat.eqb_refl in E. discriminate.
  - (* a state entered by a transition *)
    simpl in Hhd. inversion Hhd; subst s.
    destruct (trans_ok g T Hsound _ _ _ Htr) as [Hnstart Hpred].
    induction idx as [idx IHidx] using lt_wf_ind. intros it Hn.
    assert (Hhas : has_item T s1 (i_prod it) (i_pos it)).
    { exists st. split; [exact Hs|]. unfold has_itemb, find_item.
      destruct (find _ (s_items st)) eqn:E; [reflexivity|].
      exfalso. eapply find_none in E; [|eapply nth_error_In; exact Hn]. simpl in E.
      rewrite !Nat.eqb_refl in E. discriminate. }
    destruct (item_wf g T Hsound _ _ _ Hhas) as [pr [Hpr _]].
    destruct (i_pos it) as [|i'] eqn:Hpos.
    + destruct (justified s1 st idx it Hs Hn Hpos) as [[_ Hst]|[idx' [it' [Hlt [Hn' Hx]]]]]; [congruence|].
      eapply ext_closure; [| eauto | exact Hx | apply (IHidx idx' Hlt it' Hn')].
      destruct (item_wf g T Hsound s1 (i_prod it') (i_pos it')) as [pr' [Hpr' _]]; [|eauto].
      exists st. split; [exact Hs|]. unfold has_itemb, find_item.
      destruct (find _ (s_items st)) eqn:E; [reflexivity|].
      exfalso. eapply find_none in E; [|eapply nth_error_In; exact Hn']. simpl in E.
      rewrite !Nat.eqb_refl in E. discriminate.
    + destruct (Hpred (i_prod it) i' Hhas) as [[st2 [Hs2 Hb2]] Hnth].
      destruct (item_at s2 st2 _ _ Hs2 Hb2) as [idx2 [it2 [Hn2 [Hp2 Hi2]]]].
      pose proof (IH s2 st2 eq_refl Hs2 idx2 it2 Hn2) as Hext2. rewrite Hp2, Hi2 in Hext2.
      intros cs Hcv Hcm. specialize (Hext2 (t1 :: cs)). destruct Hext2 as [v Hsent].
      * constructor; assumption.
      * simpl. rewrite Hcm. clear - Hnth. revert i' Hnth.
        induction (rhs g (i_prod it)) as [|x l IHl]; intros [|i'] H; simpl in *; try discriminate.
        -- inversion H. reflexivity.
        -- apply IHl. exact H.
      * exists v. rewrite yields_cons. simpl in Hsent. rewrite <- !app_assoc in *. exact Hsent.
Qed.

(* the configuration in which a run reports its error *)
Lemma run_err_conf partial w : forall fuel c k ex,
  Inv g T w c -> run g T partial fuel c = Err k ex ->
  exists c', Inv g T w c' /\ c_pos c' = k /\ step g T partial c' = Done (Err k ex).
Proof.
  induction fuel as [|fuel IH]; intros c k ex Hinv Hrun; simpl in Hrun; [discriminate|].
  destruct (step g T partial c) as [c'|o] eqn:Hstep.
  - eapply IH; [eapply step_inv; [exact Hsound|exact Hinv|exact Hstep]|exact Hrun].
  - subst o. exists c. split; [exact Hinv|]. split; [|exact Hstep].
    unfold step in Hstep. destruct (c_stk c) as [|s stk]; [discriminate|].
    destruct (next_tok T partial s (c_inp c)) as [a real|].
    + destruct (cell T s a) as [|[s'|p len|] acts]; try discriminate.
      * destruct (length (s :: stk) <=? len); [discriminate|].
        destruct (skipn len (s :: stk)); [discriminate|].
        destruct (goto T n (lhs g p - g_nterm g)); [|discriminate].
        destruct (length (c_trs c) <? len); discriminate.
      * destruct (c_trs c); discriminate.
    + inversion Hstep. reflexivity.
Qed.

Theorem error_prefix_viable_main partial fuel w k ex :
  parse g T partial fuel w = Err k ex -> exists v, sentence g (firstn k w ++ v).
Proof.
  intros Herr. unfold parse in Herr.
  destruct (run_err_conf partial w fuel _ k ex (init_inv g T w) Herr) as [c [[Hl Hy Hp] [Hk _]]].
  assert (Hpre : yields (c_trs c) = firstn k w).
  { rewrite <- Hk, Hp, <- Hy. rewrite firstn_app, firstn_all, Nat.sub_diag. simpl. rewrite app_nil_r. reflexivity. }
  destruct (c_stk c) as [|s stk] eqn:Hstk.
  { destruct (linked_last g T _ _ _ Hl) as [_ Hne]. congruence. }
  (* the top state exists and has an item *)
  assert (Hst : exists st, get_state T s = Some st).
  { inversion Hl as [|s1 s2 stk1 t1 ts1 Htr Hv Hl']; subst.
    - pose proof (shape_ok g T Hsound) as H. unfold shape_b in H. apply andb_true_iff in H. destruct H as [H _].
      apply andb_true_iff in H. destruct H as [H _]. apply Nat.ltb_lt in H.
      unfold get_state. destruct (nth_error (t_states T) 0) eqn:E; [eauto|]. apply nth_error_None in E. lia.
    - destruct Htr as [st0 [Hs0 Hin]]. pose proof (shape_state g T Hsound _ st0 Hs0) as H. unfold shape_state_b in H.
      repeat (apply andb_true_iff in H; let H' := fresh "Hh" in destruct H as [H H']).
      rewrite forallb_forall in Hh1. specialize (Hh1 _ Hin). simpl in Hh1. apply Nat.ltb_lt in Hh1.
      unfold get_state. destruct (nth_error (t_states T) s) eqn:E; [eauto|]. apply nth_error_None in E. lia. }
  destruct Hst as [st Hs].
  destruct productive_parts as [_ Hj]. specialize (Hj s st Hs). unfold justified_b in Hj.
  apply andb_true_iff in Hj. destruct Hj as [Hne _].
  destruct (s_items st) as [|it its] eqn:Hits; [discriminate|].
  assert (Hn : nth_error (s_items st) 0 = Some it) by (rewrite Hits; reflexivity).
  pose proof (ext_all _ _ Hl s st eq_refl Hs 0 it Hn) as Hext.
  assert (Hhas : has_item T s (i_prod it) (i_pos it)).
  { exists st. split; [exact Hs|]. unfold has_itemb, find_item.
    destruct (find _ (s_items st)) eqn:E; [reflexivity|].
    exfalso. eapply find_none in E; [|eapply nth_error_In; exact Hn]. simpl in E.
    rewrite !Nat.eqb_refl in E. discriminate. }
  destruct (item_wf g T Hsound _ _ _ Hhas) as [pr [Hpr _]].
  destruct (fillers (i_prod it) pr (i_pos it) Hpr) as [cs [Hcv Hcm]].
  destruct (Hext cs Hcv) as [v Hsent].
  - unfold rhs. rewrite Hpr. exact Hcm.
  - exists (flat_map yield cs ++ v). rewrite <- Hpre. exact Hsent.
Qed.

End Viable.
