(* Lemmas about the grammar-builder model (Model/Builder.v). *)
From Coq Require Import String Ascii NArith Permutation.
From RV Require Import Util Spec.Grammar Model.Builder.

(* ------------------------------------------------------------------ the result monad *)
Lemma bind_ROk {A B} (r : res A) (f : A -> res B) b :
  bind r f = ROk b -> exists a, r = ROk a /\ f a = ROk b.
Proof. destruct r; simpl; intros H; try discriminate. eauto. Qed.

Lemma bind_RPanic {A B} (r : res A) (f : A -> res B) p :
  bind r f = RPanic p -> r = RPanic p \/ exists a, r = ROk a /\ f a = RPanic p.
Proof.
  destruct r; simpl; intros H; try discriminate.
  - right. exists a. split; [reflexivity|exact H].
  - left. inversion H; reflexivity.
Qed.

Lemma bind_RFuel {A B} (r : res A) (f : A -> res B) :
  bind r f = RFuel -> r = RFuel \/ exists a, r = ROk a /\ f a = RFuel.
Proof.
  destruct r; simpl; intros H; try discriminate.
  - right. exists a. split; [reflexivity|exact H].
  - left. reflexivity.
Qed.

(* [inv_bind H]: H : bind r k = ROk b  becomes  Hb : r = ROk a  and  H : k a = ROk b *)
Ltac inv_bind H :=
  let a := fresh "a" in let H1 := fresh "Hb" in
  apply bind_ROk in H; destruct H as [a [H1 H]].

(* ------------------------------------------------------------------ BTreeMap facts *)
Section SMapFacts.
  Variable A : Type.
  Implicit Types m : smap A.

  Lemma sm_get_insert_eq k v m : sm_get k (sm_insert k v m) = Some v.
  Proof.
    induction m as [|[k' v'] r IH]; simpl.
    - rewrite String.eqb_refl. reflexivity.
    - destruct (String.eqb k k') eqn:E.
      + simpl. rewrite String.eqb_refl. reflexivity.
      + destruct (String.ltb k k'); simpl.
        * rewrite String.eqb_refl; reflexivity.
        * rewrite E. exact IH.
  Qed.

  Lemma sm_get_insert_neq k k' v m : k <> k' -> sm_get k' (sm_insert k v m) = sm_get k' m.
  Proof.
    intros Hn. induction m as [|[k2 v2] r IH]; simpl.
    - destruct (String.eqb_spec k' k); [congruence|reflexivity].
    - destruct (String.eqb_spec k k2).
      + subst. simpl. destruct (String.eqb_spec k' k2); [congruence|reflexivity].
      + destruct (String.ltb k k2); simpl.
        * destruct (String.eqb_spec k' k); [congruence|]. reflexivity.
        * destruct (String.eqb_spec k' k2); [reflexivity|exact IH].
  Qed.

  Lemma sm_get_insert k k' v m :
    sm_get k' (sm_insert k v m) = if String.eqb k' k then Some v else sm_get k' m.
  Proof.
    destruct (String.eqb_spec k' k).
    - subst. apply sm_get_insert_eq.
    - apply sm_get_insert_neq. congruence.
  Qed.

  Lemma sm_mem_insert k k' v m :
    sm_mem k' (sm_insert k v m) = String.eqb k' k || sm_mem k' m.
  Proof. unfold sm_mem. rewrite sm_get_insert. destruct (String.eqb k' k); reflexivity. Qed.

  Lemma In_sm_insert k v m kv : In kv (sm_insert k v m) -> kv = (k, v) \/ In kv m.
  Proof.
    induction m as [|[k' v'] r IH]; simpl.
    - intros [H|[]]; auto.
    - destruct (String.eqb k k').
      + simpl. intros [H|H]; auto.
      + destruct (String.ltb k k'); simpl.
        * intros [H|[H|H]]; auto.
        * intros [H|H]; auto. destruct (IH H); auto.
  Qed.

  Lemma sm_insert_perm k v m : sm_get k m = None -> Permutation ((k, v) :: m) (sm_insert k v m).
  Proof.
    induction m as [|[k' v'] r IH]; simpl; intros Hg.
    - apply Permutation_refl.
    - destruct (String.eqb k k'); [discriminate|].
      destruct (String.ltb k k').
      + apply Permutation_refl.
      + eapply Permutation_trans; [apply perm_swap|]. apply perm_skip. apply IH. exact Hg.
  Qed.

  Lemma sm_get_In k v m : sm_get k m = Some v -> In (k, v) m.
  Proof.
    induction m as [|[k' v'] r IH]; simpl; [discriminate|].
    destruct (String.eqb_spec k k'); intros H.
    - inversion H; subst. left; reflexivity.
    - right; auto.
  Qed.

  Lemma sm_get_None_notin k m : sm_get k m = None -> forall v, ~ In (k, v) m.
  Proof.
    induction m as [|[k' v'] r IH]; simpl; intros Hg v; [tauto|].
    destruct (String.eqb_spec k k'); [discriminate|].
    intros [H|H]; [inversion H; congruence|]. eapply IH; eauto.
  Qed.

  Lemma In_sm_get k v m : In (k, v) m -> exists v', sm_get k m = Some v'.
  Proof.
    induction m as [|[k' v'] r IH]; simpl; [tauto|].
    intros [H|H]; destruct (String.eqb_spec k k'); eauto.
    inversion H; congruence.
  Qed.

  Lemma sm_get_update k k' f m :
    sm_get k' (sm_update k f m) = if String.eqb k' k then option_map f (sm_get k' m) else sm_get k' m.
  Proof.
    induction m as [|[k2 v2] r IH]; simpl.
    - destruct (String.eqb k' k); reflexivity.
    - destruct (String.eqb_spec k k2); simpl.
      + subst. destruct (String.eqb_spec k' k2); reflexivity.
      + rewrite IH. destruct (String.eqb_spec k' k2).
        * subst. destruct (String.eqb_spec k2 k); [congruence|reflexivity].
        * reflexivity.
  Qed.

  Lemma sm_mem_update k k' f m : sm_mem k' (sm_update k f m) = sm_mem k' m.
  Proof.
    unfold sm_mem. rewrite sm_get_update. destruct (String.eqb k' k); [|reflexivity].
    destruct (sm_get k' m); reflexivity.
  Qed.

  Lemma In_sm_update k f m kv :
    In kv (sm_update k f m) -> In kv m \/ exists v0, In (fst kv, v0) m /\ fst kv = k /\ snd kv = f v0.
  Proof.
    induction m as [|[k' v'] r IH]; simpl; [tauto|].
    destruct (String.eqb_spec k k').
    - simpl. intros [H|H]; [|auto]. subst. right. exists v'. simpl. auto.
    - simpl. intros [H|H]; [auto|]. destruct (IH H) as [H1|[v0 [H1 H2]]]; [auto|]. right. exists v0. auto.
  Qed.

  Lemma map_sm_update {B} (g : A -> B) k f m :
    (forall v, g (f v) = g v) -> map (fun kv => g (snd kv)) (sm_update k f m) = map (fun kv => g (snd kv)) m.
  Proof.
    intros Hg. induction m as [|[k' v'] r IH]; simpl; [reflexivity|].
    destruct (String.eqb k k'); simpl; [rewrite Hg; reflexivity|rewrite IH; reflexivity].
  Qed.

  Lemma length_sm_update k f m : length (sm_update k f m) = length m.
  Proof. induction m as [|[k' v'] r IH]; simpl; [reflexivity|]. destruct (String.eqb k k'); simpl; congruence. Qed.
End SMapFacts.
Arguments sm_get_insert_eq {A}. Arguments sm_get_insert_neq {A}. Arguments sm_get_insert {A}.
Arguments sm_mem_insert {A}. Arguments In_sm_insert {A}. Arguments sm_insert_perm {A}.
Arguments sm_get_In {A}. Arguments sm_get_None_notin {A}. Arguments In_sm_get {A}.
Arguments sm_get_update {A}. Arguments sm_mem_update {A}. Arguments In_sm_update {A}.
Arguments map_sm_update {A B}. Arguments length_sm_update {A}.

Lemma sm_mem_false_get {A} k (m : smap A) : sm_mem k m = false -> sm_get k m = None.
Proof. unfold sm_mem. destruct (sm_get k m); [discriminate|reflexivity]. Qed.

Lemma sm_mem_true_get {A} k (m : smap A) : sm_mem k m = true -> exists v, sm_get k m = Some v.
Proof. unfold sm_mem. destruct (sm_get k m); [eauto|discriminate]. Qed.

(* ------------------------------------------------------------------ helper creation as steps *)
Definition frame (st st' : bstate) : Prop :=
  s_terms st' = s_terms st /\ s_matches st' = s_matches st /\ s_prods st' = s_prods st /\
  s_next_t st' = s_next_t st /\ s_rule_names st' = s_rule_names st.

Lemma frame_refl st : frame st st.
Proof. unfold frame; auto. Qed.

Lemma frame_trans a b c : frame a b -> frame b c -> frame a c.
Proof. unfold frame; intros [? [? [? [? ?]]]] [? [? [? [? ?]]]]; repeat split; congruence. Qed.

(* right-hand sides of helper productions are unresolved references by name *)
Definition is_resolving (rhs : list rassign) : Prop := exists ns, rhs = map resolving ns.

Lemma is_resolving_0 : is_resolving [].
Proof. exists []; reflexivity. Qed.
Lemma is_resolving_1 a : is_resolving [resolving a].
Proof. exists [a]; reflexivity. Qed.
Lemma is_resolving_2 a b : is_resolving [resolving a; resolving b].
Proof. exists [a; b]; reflexivity. Qed.
Lemma is_resolving_3 a b c : is_resolving [resolving a; resolving b; resolving c].
Proof. exists [a; b; c]; reflexivity. Qed.
Lemma is_resolving_one name ref_name (modifier : option string) :
  is_resolving (match modifier with
                | None => [resolving name; resolving ref_name]
                | Some sep => [resolving name; resolving sep; resolving ref_name]
                end).
Proof. destruct modifier; [apply is_resolving_3|apply is_resolving_2]. Qed.

Ltac solve_resolving :=
  first [apply is_resolving_0 | apply is_resolving_1 | apply is_resolving_2 | apply is_resolving_3 | apply is_resolving_one].

Inductive hsteps : bstate -> list proddata -> bstate -> list proddata -> Prop :=
| hs_refl st dps : hsteps st dps st dps
| hs_step st dps name annot rhs0 rhs1 st' dps' :
    sm_mem name (s_nts st) = false ->
    is_resolving rhs0 -> is_resolving rhs1 ->
    hsteps (fst (create_helper st dps name annot rhs0 rhs1)) (snd (create_helper st dps name annot rhs0 rhs1)) st' dps' ->
    hsteps st dps st' dps'
| hs_sep st dps seps st' dps' :
    hsteps (set_seps st seps) dps st' dps' -> hsteps st dps st' dps'.

Lemma hsteps_trans a da b db c dc : hsteps a da b db -> hsteps b db c dc -> hsteps a da c dc.
Proof.
  induction 1 as [|st dps name annot rhs0 rhs1 st' dps' Hf Hr0 Hr1 Hs IH|st dps seps st' dps' Hs IH]; intros Hbc; [exact Hbc| |].
  - eapply hs_step; [exact Hf|exact Hr0|exact Hr1|apply IH; exact Hbc].
  - eapply hs_sep. apply IH; exact Hbc.
Qed.

Lemma hsteps_one st dps name annot rhs0 rhs1 :
  sm_mem name (s_nts st) = false -> is_resolving rhs0 -> is_resolving rhs1 ->
  hsteps st dps (fst (create_helper st dps name annot rhs0 rhs1)) (snd (create_helper st dps name annot rhs0 rhs1)).
Proof. intros H H0 H1. eapply hs_step; [exact H|exact H0|exact H1|apply hs_refl]. Qed.

Lemma hsteps_inv (Q : bstate -> list proddata -> Prop) :
  (forall st dps name annot rhs0 rhs1,
      sm_mem name (s_nts st) = false -> is_resolving rhs0 -> is_resolving rhs1 -> Q st dps ->
      Q (fst (create_helper st dps name annot rhs0 rhs1)) (snd (create_helper st dps name annot rhs0 rhs1))) ->
  (forall st dps seps, Q st dps -> Q (set_seps st seps) dps) ->
  forall st dps st' dps', hsteps st dps st' dps' -> Q st dps -> Q st' dps'.
Proof.
  intros Hstep Hsep st dps st' dps' H. induction H; intros HQ; [exact HQ| |].
  - apply IHhsteps. apply Hstep; assumption.
  - apply IHhsteps. apply Hsep; assumption.
Qed.

Lemma hsteps_frame st dps st' dps' : hsteps st dps st' dps' -> frame st st'.
Proof.
  induction 1; [apply frame_refl| |]; (eapply frame_trans; [|exact IHhsteps]).
  - unfold frame, create_helper; simpl; repeat split; reflexivity.
  - unfold frame, set_seps; simpl; repeat split; reflexivity.
Qed.

Lemma sep_check_hsteps st dps b op m st2 : sep_check st b op m = ROk st2 -> hsteps st dps st2 dps.
Proof.
  unfold sep_check. intros H.
  destruct op; try (inversion H; subst; apply hs_refl);
    (destruct (sm_get (nt_name b OneOrMore) (s_seps st)) as [ex|];
     [destruct (opt_str_eqb ex m); [inversion H; subst; apply hs_refl|discriminate]
     |inversion H; subst; eapply hs_sep; apply hs_refl]).
Qed.

Section WithIdent.
  Variable ident_ok : string -> bool.

  Lemma desugar_hsteps st0 dps r st' dps' sym :
    desugar st0 dps r = ROk (st', dps', sym) -> hsteps st0 dps st' dps'.
  Proof.
    unfold desugar. destruct (sr_sym r) as [sy|]; [|discriminate].
    destruct (sr_rep r) as [op|]; [|intros H; inversion H; subst; apply hs_refl].
    intros H. inv_bind H. inv_bind H. inv_bind H. inv_bind H. clear Hb Hb0 Hb1.
    rename a into modifier. rename a0 into bname. rename a2 into st.
    apply (sep_check_hsteps _ dps) in Hb2. eapply hsteps_trans; [exact Hb2|]. clear Hb2 a1.
    rename modifier into a. rename bname into a0.
    destruct (rep_op op); try discriminate.
    - (* ZeroOrMore *)
      destruct (sm_mem (nt_name a0 OneOrMore) (s_nts st)) eqn:E1.
      + destruct (sm_mem (nt_name a0 ZeroOrMore) (s_nts st)) eqn:E2.
        * inversion H; subst. apply hs_refl.
        * unfold create_zero in H.
          destruct (create_helper st dps (nt_name a0 ZeroOrMore) (Some "vec"%string) [resolving (nt_name a0 OneOrMore)] []) eqn:E3.
          inversion H; subst.
          pose proof (hsteps_one st dps (nt_name a0 ZeroOrMore) (Some "vec"%string) [resolving (nt_name a0 OneOrMore)] [] E2
                                 ltac:(solve_resolving) ltac:(solve_resolving)) as Hs.
          rewrite E3 in Hs. exact Hs.
      + unfold create_one in H.
        match type of H with context [create_helper st dps ?n ?an ?r0 ?r1] =>
          pose proof (hsteps_one st dps n an r0 r1 E1 ltac:(solve_resolving) ltac:(solve_resolving)) as Hs1; destruct (create_helper st dps n an r0 r1) as [st1 dps1] eqn:E3 end.
        simpl in Hs1.
        destruct (sm_mem (nt_name a0 ZeroOrMore) (s_nts st1)) eqn:E2.
        * inversion H; subst. exact Hs1.
        * unfold create_zero in H.
          match type of H with context [create_helper st1 dps1 ?n ?an ?r0 ?r1] =>
            pose proof (hsteps_one st1 dps1 n an r0 r1 E2 ltac:(solve_resolving) ltac:(solve_resolving)) as Hs2; destruct (create_helper st1 dps1 n an r0 r1) as [st2 dps2] eqn:E4 end.
          simpl in Hs2. inversion H; subst. eapply hsteps_trans; eauto.
    - (* OneOrMore *)
      destruct (sm_mem (nt_name a0 OneOrMore) (s_nts st)) eqn:E1.
      + inversion H; subst. apply hs_refl.
      + unfold create_one in H.
        match type of H with context [create_helper st dps ?n ?an ?r0 ?r1] =>
          pose proof (hsteps_one st dps n an r0 r1 E1 ltac:(solve_resolving) ltac:(solve_resolving)) as Hs1; destruct (create_helper st dps n an r0 r1) as [st1 dps1] eqn:E3 end.
        simpl in Hs1. inversion H; subst. exact Hs1.
    - (* Optional *)
      destruct (sm_mem (nt_name a0 Optional) (s_nts st)) eqn:E1.
      + inversion H; subst. apply hs_refl.
      + unfold create_optional in H.
        match type of H with context [create_helper st dps ?n ?an ?r0 ?r1] =>
          pose proof (hsteps_one st dps n an r0 r1 E1 ltac:(solve_resolving) ltac:(solve_resolving)) as Hs1; destruct (create_helper st dps n an r0 r1) as [st1 dps1] eqn:E3 end.
        simpl in Hs1. inversion H; subst. exact Hs1.
  Qed.

  Lemma do_assign_hsteps st dps a st' dps' ra :
    do_assign ident_ok st dps a = ROk (st', dps', ra) -> hsteps st dps st' dps'.
  Proof.
    unfold do_assign. destruct a as [n r|n r|r]; intros H.
    - inv_bind H. inv_bind H. destruct a0 as [[st1 dps1] sym]. apply desugar_hsteps in Hb0.
      destruct sym; [|discriminate]. inversion H; subst. exact Hb0.
    - inv_bind H. inv_bind H. destruct a0 as [[st1 dps1] sym]. apply desugar_hsteps in Hb0.
      destruct sym; [|discriminate]. inversion H; subst. exact Hb0.
    - inv_bind H. destruct a as [[st1 dps1] sym]. apply desugar_hsteps in Hb.
      destruct sym; [|discriminate]. inversion H; subst. exact Hb.
  Qed.

  Lemma do_assigns_hsteps asg : forall st dps st' dps' ras,
    do_assigns ident_ok st dps asg = ROk (st', dps', ras) -> hsteps st dps st' dps'.
  Proof.
    induction asg as [|a rest IH]; simpl; intros st dps st' dps' ras H.
    - inversion H; subst. apply hs_refl.
    - destruct (is_empty_ref a); [eapply IH; eauto|].
      inv_bind H. destruct a0 as [[st1 dps1] ra]. inv_bind H. destruct a0 as [[st2 dps2] ras2].
      inversion H; subst. eapply hsteps_trans; [eapply do_assign_hsteps; eauto|eapply IH; eauto].
  Qed.

  (* ---------------------------------------------------------------- production index = position *)
  Definition prods_pos (ps : list proddata) (base : nat) : Prop :=
    forall j p, nth_error ps j = Some p -> pd_idx p = base + j.

  Lemma prods_pos_app ps qs base :
    prods_pos ps base -> prods_pos qs (base + length ps) -> prods_pos (ps ++ qs) base.
  Proof.
    intros H1 H2 j p Hj. destruct (Nat.lt_ge_cases j (length ps)) as [Hlt|Hge].
    - rewrite nth_error_app1 in Hj by exact Hlt. apply H1; exact Hj.
    - rewrite nth_error_app2 in Hj by exact Hge. apply H2 in Hj. lia.
  Qed.

  Lemma prods_pos_cons p ps base :
    pd_idx p = base -> prods_pos ps (S base) -> prods_pos (p :: ps) base.
  Proof.
    intros H1 H2 j q Hj. destruct j; simpl in Hj.
    - inversion Hj; subst. lia.
    - apply H2 in Hj. lia.
  Qed.

  Definition pos_ok (st : bstate) : Prop :=
    s_next_p st = length (s_prods st) /\ prods_pos (s_prods st) 0.

  Definition pos_inflight (st : bstate) (dps : list proddata) : Prop :=
    s_next_p st = S (length (s_prods st)) + length dps /\ prods_pos dps (S (length (s_prods st))).

  Lemma pos_inflight_hsteps st dps st' dps' :
    hsteps st dps st' dps' -> pos_inflight st dps -> pos_inflight st' dps'.
  Proof.
    apply hsteps_inv; clear.
    - intros st dps name annot rhs0 rhs1 _ _ _ [H1 H2].
      unfold pos_inflight, create_helper; simpl. split.
      + rewrite app_length. simpl. lia.
      + apply prods_pos_app; [exact H2|].
        apply prods_pos_cons; [simpl; lia|]. apply prods_pos_cons; [simpl; lia|].
        intros j p Hj. destruct j; discriminate.
    - intros st dps seps H. exact H.
  Qed.

  Lemma do_alt_pos st rpos r rmeta nt_idx ntidx alt st' :
    do_alt ident_ok st rpos r rmeta nt_idx ntidx alt = ROk st' -> pos_ok st -> pos_ok st'.
  Proof.
    unfold do_alt. intros H [H1 H2]. inv_bind H. destruct a as [[st1 dps] rhs]. inv_bind H. inversion H; subst; clear H.
    pose proof (do_assigns_hsteps _ _ _ _ _ _ Hb) as Hs.
    pose proof (hsteps_frame _ _ _ _ Hs) as [_ [_ [Hp _]]]. simpl in Hp.
    assert (Hi : pos_inflight st1 dps).
    { eapply pos_inflight_hsteps; [exact Hs|]. unfold pos_inflight; simpl. split; [lia|]. intros j p Hj; destruct j; discriminate. }
    destruct Hi as [Hi1 Hi2]. rewrite Hp in Hi1, Hi2.
    unfold pos_ok; simpl. rewrite Hp. split.
    - rewrite app_length. simpl. lia.
    - apply prods_pos_app; [exact H2|]. apply prods_pos_cons; [simpl; lia|]. simpl.
      replace (S (0 + length (s_prods st))) with (S (length (s_prods st))) by lia. exact Hi2.
  Qed.

  Lemma do_alts_pos alts : forall st rpos r rmeta nt_idx ntidx st',
    do_alts ident_ok st rpos r rmeta nt_idx ntidx alts = ROk st' -> pos_ok st -> pos_ok st'.
  Proof.
    induction alts as [|alt rest IH]; simpl; intros st rpos r rmeta nt_idx ntidx st' H Hok.
    - inversion H; subst; exact Hok.
    - inv_bind H. eapply IH; [exact H|]. eapply do_alt_pos; eauto.
  Qed.

  Lemma do_rule_pos st rpos r st' : do_rule ident_ok st rpos r = ROk st' -> pos_ok st -> pos_ok st'.
  Proof.
    unfold do_rule. intros H Hok. inv_bind H. inv_bind H. inv_bind H. clear Hb Hb0 Hb1.
    destruct (sm_get (r_name r) (s_nts st)) as [nt|].
    - eapply do_alts_pos; eauto.
    - eapply do_alts_pos; [exact H|]. exact Hok.
  Qed.

  Lemma do_rules_pos rs : forall st rpos st', do_rules ident_ok st rpos rs = ROk st' -> pos_ok st -> pos_ok st'.
  Proof.
    induction rs as [|r rest IH]; simpl; intros st rpos st' H Hok.
    - inversion H; subst; exact Hok.
    - inv_bind H. eapply IH; [exact H|]. eapply do_rule_pos; eauto.
  Qed.

  Lemma create_aug_pos st n r : pos_ok st -> pos_ok (create_aug st n r).
  Proof.
    intros [H1 H2]. unfold pos_ok, create_aug; simpl. rewrite app_length; simpl. split; [lia|].
    apply prods_pos_app; [exact H2|]. apply prods_pos_cons; [simpl; lia|]. intros j p Hj; destruct j; discriminate.
  Qed.

  Lemma extract_rules_pos st rs st' : extract_rules ident_ok st rs = ROk st' -> pos_ok st -> pos_ok st'.
  Proof.
    unfold extract_rules. destruct rs as [|r0 rest]; [discriminate|]. intros H Hok.
    eapply do_rules_pos; [exact H|].
    match goal with |- pos_ok (set_rule_names ?x _) => change (pos_ok x) end.
    match goal with |- pos_ok (match ?x with _ => _ end) => destruct x end.
    - apply create_aug_pos. apply create_aug_pos. exact Hok.
    - apply create_aug_pos. exact Hok.
  Qed.

  (* the resolution passes keep every field but the rhs *)
  Lemma resolve_inline_shape m ps : forall ps', resolve_inline m ps = ROk ps' ->
    Forall2 (fun p q => exists rhs, q = set_rhs p rhs /\ resolve_inline_rhs m (pd_rhs p) = ROk rhs) ps ps'.
  Proof.
    induction ps as [|p rest IH]; simpl; intros ps' H.
    - inversion H; constructor.
    - inv_bind H. inv_bind H. inversion H; subst. constructor; [eauto|]. apply IH; exact Hb0.
  Qed.

  Lemma resolve_refs_shape terms nts ps : forall ps', resolve_refs terms nts ps = ROk ps' ->
    Forall2 (fun p q => exists rhs, q = set_rhs p rhs /\
                                    resolve_refs_rhs terms nts (length (pd_rhs p)) (pd_nt p) (pd_rhs p) = ROk rhs) ps ps'.
  Proof.
    induction ps as [|p rest IH]; simpl; intros ps' H.
    - inversion H; constructor.
    - inv_bind H. inv_bind H. inversion H; subst. constructor; [eauto|]. apply IH; exact Hb0.
  Qed.

  Lemma Forall2_prods_pos (R : proddata -> proddata -> Prop) ps qs base :
    (forall p q, R p q -> pd_idx q = pd_idx p) -> Forall2 R ps qs -> prods_pos ps base -> prods_pos qs base.
  Proof.
    intros HR H. revert base. induction H as [|p q ps qs Hpq H IH]; intros base Hp j x Hj.
    - destruct j; discriminate.
    - destruct j; simpl in Hj.
      + inversion Hj; subst. rewrite (HR _ _ Hpq). apply (Hp 0 p). reflexivity.
      + assert (Hp' : prods_pos ps (S base)).
        { intros j' y Hy. specialize (Hp (S j') y Hy). lia. }
        specialize (IH (S base) Hp' j x Hj). lia.
  Qed.

  Lemma all_rhs_symbols_length ps : forall rhss, all_rhs_symbols ps = ROk rhss -> length rhss = length ps.
  Proof.
    induction ps as [|p rest IH]; simpl; intros rhss H.
    - inversion H; reflexivity.
    - inv_bind H. inv_bind H. inversion H; subst. simpl. f_equal. apply IH; exact Hb0.
  Qed.

  (* inversion of a successful build *)
  Lemma build_done f g :
    build_grammar ident_ok f = BDone g ->
    ints_ok f = true /\
    exists terms next_t st1 ps2,
      terms_phase ident_ok f = ROk (terms, next_t) /\
      rules_phase ident_ok f (initial_state f terms next_t) = ROk st1 /\
      resolve_phase st1 = ROk ps2 /\
      assemble st1 ps2 (start_name f) = ROk g.
  Proof.
    unfold build_grammar. destruct (ints_ok f); simpl; [|discriminate].
    destruct (build_res ident_ok f) as [g'| | |] eqn:E; try discriminate. intros H; inversion H; subst.
    split; [reflexivity|]. unfold build_res in E.
    inv_bind E. destruct a as [terms next_t]. inv_bind E. inv_bind E.
    exists terms, next_t, a, a0. auto.
  Qed.

  Lemma assemble_prods st1 ps2 sn g :
    assemble st1 ps2 sn = ROk g ->
    exists rhss, all_rhs_symbols ps2 = ROk rhss /\
                 bg_prods g = map (fun pr => oprod_of (fst pr) (snd pr)) (combine ps2 rhss).
  Proof.
    unfold assemble. intros H. inv_bind H. inv_bind H. inv_bind H. inv_bind H.
    inversion H; subst; simpl. eauto.
  Qed.

  Lemma rules_phase_pos f st0 st1 : rules_phase ident_ok f st0 = ROk st1 -> pos_ok st0 -> pos_ok st1.
  Proof.
    unfold rules_phase. destruct (f_rules f); intros H Hok; [|discriminate].
    eapply extract_rules_pos; eauto.
  Qed.

  Lemma resolve_phase_shape st1 ps2 :
    resolve_phase st1 = ROk ps2 ->
    Forall2 (fun p q => exists rhs, q = set_rhs p rhs) (s_prods st1) ps2.
  Proof.
    unfold resolve_phase. intros H. inv_bind H.
    apply resolve_inline_shape in Hb. apply resolve_refs_shape in H.
    revert ps2 H. induction Hb as [|p q ps qs [rhs [Hq _]] Hb IH]; intros ps2 Hk; inversion Hk; subst; constructor.
    - destruct H1 as [rhs2 [Hq2 _]]. subst. exists rhs2. destruct p; reflexivity.
    - apply IH; assumption.
  Qed.

  Theorem prod_index_is_position_main f g :
    build_grammar ident_ok f = BDone g ->
    forall i p, nth_error (bg_prods g) i = Some p -> op_idx p = i.
  Proof.
    intros H. apply build_done in H. destruct H as [_ [terms [next_t [st1 [ps2 [Ht [Hr [Hres Hasm]]]]]]]].
    assert (Hok : pos_ok st1).
    { eapply rules_phase_pos; [exact Hr|]. unfold pos_ok, initial_state; simpl. split; [reflexivity|].
      intros j p Hj; destruct j; discriminate. }
    destruct Hok as [_ Hpos].
    apply resolve_phase_shape in Hres.
    assert (Hpos2 : prods_pos ps2 0).
    { eapply Forall2_prods_pos; [|exact Hres|exact Hpos]. intros p q [rhs Hq]; subst; reflexivity. }
    apply assemble_prods in Hasm. destruct Hasm as [rhss [Hrs Hg]].
    intros i p Hi. rewrite Hg in Hi. rewrite nth_error_map in Hi.
    destruct (nth_error (combine ps2 rhss) i) as [[pd syms]|] eqn:Ec; [|discriminate].
    simpl in Hi. inversion Hi; subst. simpl.
    assert (Hn : nth_error ps2 i = Some pd).
    { clear - Ec. revert rhss i Ec. induction ps2 as [|x xs IH]; intros rhss i Ec; destruct rhss; destruct i; simpl in *; try discriminate.
      - inversion Ec; reflexivity.
      - eapply IH; eauto. }
    apply Hpos2 in Hn. simpl in Hn. exact Hn.
  Qed.
End WithIdent.
