(* C09: how the productions of the built grammar relate to the alternatives the user wrote. *)
From Coq Require Import String Ascii NArith Permutation.
From RV Require Import Util Spec.Grammar Model.Builder Spec.BuilderSpec Proofs.Builder Proofs.BuilderPanic Proofs.BuilderWf.

Definition akey (a : rassign) : option string * bool * gsym := (ra_name a, ra_bool a, ra_sym a).

(* what an alternative's production must look like (before resolution) *)
Definition alt_pred (rules : list rule) (M : smap (string * nat)) (pd : proddata) : Prop :=
  forall i j, pd_origin pd = OAlt i j ->
    exists r alt, nth_error rules i = Some r /\ nth_error (r_rhs r) j = Some alt /\
      pd_ntidx pd = j /\
      (let m := inherit_meta (pmeta_map (pr_meta alt)) (pmeta_map (r_meta r)) in
       pd_prio pd = meta_prio m /\ pd_kind pd = meta_kind m /\ pd_assoc pd = meta_assoc m /\
       pd_nops pd = sm_mem "nops"%string m /\ pd_nopse pd = sm_mem "nopse"%string m /\ pd_meta pd = meta_rest m) /\
      map (fun a => Some (akey a)) (pd_rhs pd) = map (spec_assign M) (alt_assigns alt).

Definition pd_coords (ps : list proddata) : list (nat * nat) :=
  flat_map (fun p => match pd_origin p with OAlt i j => [(i, j)] | _ => [] end) ps.

Definition names_ok (st : bstate) : Prop := forall k nt, In (k, nt) (s_nts st) -> nd_name nt = k.

Definition all_helper (dps : list proddata) : Prop := Forall (fun p => pd_origin p = OHelper) dps.

Definition LI (rules : list rule) (M : smap (string * nat)) (st : bstate) (C : list (nat * nat)) : Prop :=
  s_matches st = M /\ names_ok st /\ unresolved (s_prods st) /\ Forall (alt_pred rules M) (s_prods st) /\
  pd_coords (s_prods st) = C.

Lemma pd_coords_app a b : pd_coords (a ++ b) = pd_coords a ++ pd_coords b.
Proof. unfold pd_coords. apply flat_map_app. Qed.

Lemma pd_coords_helper dps : all_helper dps -> pd_coords dps = [].
Proof.
  induction 1 as [|p ps Hp _ IH]; [reflexivity|]. unfold pd_coords in *. simpl. rewrite Hp. exact IH.
Qed.

Lemma sep_check_matches st b op m st2 : sep_check st b op m = ROk st2 -> s_matches st2 = s_matches st.
Proof. intros H. apply sep_check_same in H. apply H. Qed.

Lemma desugar_sym st dps r st' dps' sym :
  desugar st dps r = ROk (st', dps', sym) -> sym = spec_sym (s_matches st) r.
Proof.
  unfold desugar, spec_sym. destruct (sr_sym r) as [sy|] eqn:Es; [|discriminate].
  destruct (sr_rep r) as [op|]; [|intros H; inversion H; reflexivity].
  intros H. inv_bind H. inv_bind H. inv_bind H. inv_bind H. clear Hb Hb1 Hb2.
  assert (Hs : Some (GName (nt_name a0 (rep_op op))) =
               match sy with
               | GName n => Some (GName (nt_name n (rep_op op)))
               | GStr s => match sm_get s (s_matches st) with
                           | Some (tn, _) => Some (GName (nt_name tn (rep_op op)))
                           | None => None
                           end
               end).
  { destruct sy as [n|s].
    - inversion Hb0; reflexivity.
    - destruct (sm_get s (s_matches st)) as [[tn i]|]; [inversion Hb0; reflexivity|discriminate]. }
  rewrite <- Hs. clear Hs Hb0.
  destruct (rep_op op); try discriminate.
  - destruct (if sm_mem (nt_name a0 OneOrMore) (s_nts a2) then (a2, dps)
              else create_one a2 dps (nt_name a0 OneOrMore) a0 a) as [st1 dps1].
    destruct (if sm_mem (nt_name a0 ZeroOrMore) (s_nts st1) then (st1, dps1)
              else create_zero st1 dps1 (nt_name a0 ZeroOrMore) (nt_name a0 OneOrMore)) as [st2 dps2].
    inversion H; reflexivity.
  - destruct (if sm_mem (nt_name a0 OneOrMore) (s_nts a2) then (a2, dps)
              else create_one a2 dps (nt_name a0 OneOrMore) a0 a) as [st1 dps1].
    inversion H; reflexivity.
  - destruct (if sm_mem (nt_name a0 Optional) (s_nts a2) then (a2, dps)
              else create_optional a2 dps (nt_name a0 Optional) a0) as [st1 dps1].
    inversion H; reflexivity.
Qed.

Section WithIdent.
  Variable ident_ok : string -> bool.

  Lemma do_assign_key st dps a st' dps' ra :
    do_assign ident_ok st dps a = ROk (st', dps', ra) -> Some (akey ra) = spec_assign (s_matches st) a.
  Proof.
    unfold do_assign, spec_assign. destruct a as [n r|n r|r]; simpl; intros H.
    - inv_bind H. inv_bind H. destruct a0 as [[st1 dps1] sym]. apply desugar_sym in Hb0. rewrite <- Hb0.
      destruct sym; [|discriminate]. inversion H; reflexivity.
    - inv_bind H. inv_bind H. destruct a0 as [[st1 dps1] sym]. apply desugar_sym in Hb0. rewrite <- Hb0.
      destruct sym; [|discriminate]. inversion H; reflexivity.
    - inv_bind H. destruct a as [[st1 dps1] sym]. apply desugar_sym in Hb. rewrite <- Hb.
      destruct sym; [|discriminate]. inversion H; reflexivity.
  Qed.

  Lemma do_assigns_keys asg : forall st dps st' dps' ras,
    do_assigns ident_ok st dps asg = ROk (st', dps', ras) ->
    map (fun a => Some (akey a)) ras =
    map (spec_assign (s_matches st)) (filter (fun a => negb (is_empty_ref a)) asg).
  Proof.
    induction asg as [|a rest IH]; simpl; intros st dps st' dps' ras H.
    - inversion H; reflexivity.
    - destruct (is_empty_ref a); simpl; [eapply IH; eauto|].
      inv_bind H. destruct a0 as [[st1 dps1] ra]. inv_bind H. destruct a0 as [[st2 dps2] ras2]. inversion H; subst.
      simpl. rewrite (do_assign_key _ _ _ _ _ _ Hb). f_equal.
      pose proof (do_assign_hsteps _ _ _ _ _ _ _ Hb) as Hs. apply hsteps_frame in Hs. destruct Hs as [_ [Hm _]].
      rewrite <- Hm. eapply IH; eauto.
  Qed.

  (* in-flight part: helper productions *)
  Definition LH (st : bstate) (dps : list proddata) : Prop :=
    names_ok st /\ unresolved dps /\ all_helper dps.

  Lemma LH_hsteps st dps st' dps' : hsteps st dps st' dps' -> LH st dps -> LH st' dps'.
  Proof.
    apply hsteps_inv; [|intros st0 dps0 seps H; exact H]. clear. intros st dps name annot rhs0 rhs1 _ Hr0 Hr1 [Hn [Hu Hh]].
    unfold LH, create_helper; simpl. split; [|split].
    - intros k nt Hin. simpl in Hin. apply In_sm_insert in Hin. destruct Hin as [Hin|Hin]; [inversion Hin; reflexivity|auto].
    - apply Forall_app. split; [exact Hu|].
      constructor; [apply unresolved_helper; exact Hr0|]. constructor; [apply unresolved_helper; exact Hr1|constructor].
    - apply Forall_app. split; [exact Hh|]. repeat constructor.
  Qed.

  Lemma do_alt_LI rules M st rpos r nt_idx ntidx alt st' C :
    do_alt ident_ok st rpos r (pmeta_map (r_meta r)) nt_idx ntidx alt = ROk st' ->
    nth_error rules rpos = Some r -> nth_error (r_rhs r) ntidx = Some alt ->
    LI rules M st C -> LI rules M st' (C ++ [(rpos, ntidx)]).
  Proof.
    unfold do_alt. intros H Hr Ha [Hm [Hn [Hu [Hp Hc]]]].
    inv_bind H. destruct a as [[st1 dps] rhs]. inv_bind H. inversion H as [Hst']; subst st'; clear H.
    pose proof (do_assigns_hsteps _ _ _ _ _ _ _ Hb) as Hs.
    pose proof (hsteps_frame _ _ _ _ Hs) as [_ [Hm1 [Hpr _]]]. simpl in Hm1, Hpr.
    assert (Hlh : LH st1 dps).
    { eapply LH_hsteps; [exact Hs|]. unfold LH; simpl. split; [exact Hn|split; constructor]. }
    destruct Hlh as [Hn1 [Hu1 Hh1]].
    pose proof (do_assigns_unresolved _ _ _ _ _ _ _ Hb) as Hur.
    pose proof (do_assigns_keys _ _ _ _ _ _ Hb) as Hk. simpl in Hk.
    unfold LI; simpl. split; [congruence|split; [|split; [|split]]].
    - intros k nt Hin. simpl in Hin. unfold add_prod_to_nt in Hin.
      destruct (sm_get (r_name r) (s_nts st1)) as [nt0|].
      + apply In_sm_update in Hin. destruct Hin as [Hin|[v0 [Hin [_ Hv]]]]; [auto|].
        simpl in Hv. rewrite Hv. simpl. apply Hn1 in Hin. exact Hin.
      + apply In_sm_insert in Hin. destruct Hin as [Hin|Hin]; [inversion Hin; reflexivity|auto].
    - rewrite Hpr. apply Forall_app. split; [exact Hu|]. constructor; [exact Hur|exact Hu1].
    - rewrite Hpr. apply Forall_app. split; [exact Hp|]. constructor.
      + intros i j Ho. simpl in Ho. inversion Ho; subst i j. exists r, alt.
        split; [exact Hr|split; [exact Ha|split; [reflexivity|split]]].
        * simpl. repeat split; reflexivity.
        * simpl. rewrite Hk, Hm. unfold alt_assigns. reflexivity.
      + eapply Forall_impl; [|exact Hh1]. intros p Hp' i j Ho. rewrite Hp' in Ho. discriminate.
    - rewrite Hpr, pd_coords_app, Hc. f_equal. unfold pd_coords at 1. simpl. f_equal.
      change (pd_coords dps = []). apply pd_coords_helper. exact Hh1.
  Qed.

  Lemma do_alts_LI rules M alts : forall st rpos r nt_idx ntidx st' C,
    do_alts ident_ok st rpos r (pmeta_map (r_meta r)) nt_idx ntidx alts = ROk st' ->
    nth_error rules rpos = Some r ->
    (forall k, nth_error alts k = nth_error (r_rhs r) (ntidx + k)) ->
    LI rules M st C -> LI rules M st' (C ++ map (fun j => (rpos, j)) (seq ntidx (length alts))).
  Proof.
    induction alts as [|alt rest IH]; simpl; intros st rpos r nt_idx ntidx st' C H Hr Hsuf HL.
    - inversion H; subst. rewrite app_nil_r. exact HL.
    - inv_bind H.
      assert (Ha : nth_error (r_rhs r) ntidx = Some alt).
      { specialize (Hsuf 0). simpl in Hsuf. rewrite Nat.add_0_r in Hsuf. symmetry. exact Hsuf. }
      pose proof (do_alt_LI _ _ _ _ _ _ _ _ _ _ Hb Hr Ha HL) as HL1.
      assert (Hsuf' : forall k, nth_error rest k = nth_error (r_rhs r) (S ntidx + k)).
      { intros k. specialize (Hsuf (S k)). simpl in Hsuf. rewrite Hsuf. f_equal. lia. }
      pose proof (IH _ _ _ _ _ _ _ H Hr Hsuf' HL1) as HL2.
      rewrite <- app_assoc in HL2. exact HL2.
  Qed.

  Lemma do_rule_LI rules M st rpos r st' C :
    do_rule ident_ok st rpos r = ROk st' -> nth_error rules rpos = Some r ->
    LI rules M st C -> LI rules M st' (C ++ rule_coords rpos r).
  Proof.
    unfold do_rule, rule_coords. intros H Hr HL. inv_bind H. inv_bind H. inv_bind H. clear Hb Hb0 Hb1.
    destruct (sm_get (r_name r) (s_nts st)) as [nt|].
    - eapply do_alts_LI; [exact H|exact Hr|reflexivity|exact HL].
    - eapply do_alts_LI; [exact H|exact Hr|reflexivity|]. exact HL.
  Qed.

  Lemma do_rules_LI rules M rs : forall st rpos st' C,
    do_rules ident_ok st rpos rs = ROk st' ->
    (forall k, nth_error rs k = nth_error rules (rpos + k)) ->
    LI rules M st C -> LI rules M st' (C ++ rules_coords rpos rs).
  Proof.
    induction rs as [|r rest IH]; simpl; intros st rpos st' C H Hsuf HL.
    - inversion H; subst. rewrite app_nil_r. exact HL.
    - inv_bind H.
      assert (Hr : nth_error rules rpos = Some r).
      { specialize (Hsuf 0). simpl in Hsuf. rewrite Nat.add_0_r in Hsuf. symmetry. exact Hsuf. }
      pose proof (do_rule_LI _ _ _ _ _ _ _ Hb Hr HL) as HL1.
      assert (Hsuf' : forall k, nth_error rest k = nth_error rules (S rpos + k)).
      { intros k. specialize (Hsuf (S k)). simpl in Hsuf. rewrite Hsuf. f_equal. lia. }
      pose proof (IH _ _ _ _ H Hsuf' HL1) as HL2. rewrite <- app_assoc in HL2. exact HL2.
  Qed.

  Lemma create_aug_LI rules M st n r C : LI rules M st C -> LI rules M (create_aug st n r) C.
  Proof.
    intros [Hm [Hn [Hu [Hp Hc]]]]. unfold LI, create_aug; simpl. split; [exact Hm|split; [|split; [|split]]].
    - intros k nt Hin. simpl in Hin. apply In_sm_insert in Hin. destruct Hin as [Hin|Hin]; [inversion Hin; reflexivity|auto].
    - apply Forall_app. split; [exact Hu|]. constructor; [|constructor]. simpl. constructor; [reflexivity|constructor].
    - apply Forall_app. split; [exact Hp|]. constructor; [|constructor]. intros i j Ho. simpl in Ho. discriminate.
    - rewrite pd_coords_app, Hc. unfold pd_coords. simpl. apply app_nil_r.
  Qed.

  Lemma extract_rules_LI st rs st' :
    extract_rules ident_ok st rs = ROk st' -> s_nts st = [] -> s_prods st = [] ->
    LI rs (s_matches st) st' (rules_coords 0 rs).
  Proof.
    unfold extract_rules. destruct rs as [|r0 rest]; [discriminate|]. intros H Hn0 Hp0.
    match type of H with do_rules _ ?s3 _ _ = _ => set (st3 := s3) in * end.
    assert (H3 : LI (r0 :: rest) (s_matches st) st3 []).
    { unfold st3. match goal with |- LI _ _ (set_rule_names ?x ?y) _ => change (LI (r0 :: rest) (s_matches st) x []) end.
      destruct (find _ _).
      - apply create_aug_LI. apply create_aug_LI. unfold LI; simpl. rewrite Hn0, Hp0.
        split; [reflexivity|split; [|split; [constructor|split; [constructor|reflexivity]]]].
        intros k nt [Hin|[]]. inversion Hin; reflexivity.
      - apply create_aug_LI. unfold LI; simpl. rewrite Hn0, Hp0.
        split; [reflexivity|split; [|split; [constructor|split; [constructor|reflexivity]]]].
        intros k nt [Hin|[]]. inversion Hin; reflexivity. }
    eapply (do_rules_LI (r0 :: rest) (s_matches st) (r0 :: rest) st3 0 st' []); [exact H|reflexivity|exact H3].
  Qed.

  (* ---------------------------------------------------------------- resolution keeps names, flags, symbols *)
  Lemma resolve_inline_rhs_keys m rhs : forall rhs', resolve_inline_rhs m rhs = ROk rhs' -> map akey rhs' = map akey rhs.
  Proof.
    induction rhs as [|a rest IH]; simpl; intros rhs' H.
    - inversion H; reflexivity.
    - inv_bind H. inv_bind H. inversion H; subst. simpl. f_equal; [|eapply IH; eauto].
      destruct (ra_sym a) eqn:Es.
      + inversion Hb; reflexivity.
      + destruct (sm_get s m) as [[tn i]|]; [|discriminate]. inversion Hb; subst. unfold akey; simpl. rewrite Es. reflexivity.
  Qed.

  Lemma resolve_refs_rhs_keys terms nts rl pn rhs : forall rhs',
    resolve_refs_rhs terms nts rl pn rhs = ROk rhs' -> map akey rhs' = map akey rhs.
  Proof.
    induction rhs as [|a rest IH]; simpl; intros rhs' H.
    - inversion H; reflexivity.
    - inv_bind H. inv_bind H. inversion H; subst. simpl. f_equal; [|eapply IH; eauto].
      destruct (ra_index a).
      + inversion Hb; reflexivity.
      + inv_bind Hb. inversion Hb; subst. reflexivity.
  Qed.

  Definition same_but_rhs (p q : proddata) : Prop :=
    exists rhs, q = set_rhs p rhs /\ map akey rhs = map akey (pd_rhs p).

  Lemma resolve_phase_keys st1 ps2 : resolve_phase st1 = ROk ps2 -> Forall2 same_but_rhs (s_prods st1) ps2.
  Proof.
    unfold resolve_phase. intros H. inv_bind H.
    apply resolve_inline_shape in Hb. apply resolve_refs_shape in H.
    revert ps2 H. induction Hb as [|p q ps qs [rhs [Hq Hr]] Hb IH]; intros ps2 Hk; inversion Hk; subst; constructor.
    - destruct H1 as [rhs2 [Hq2 Hr2]]. exists rhs2. subst. split; [destruct p; reflexivity|].
      simpl in Hr2. apply resolve_refs_rhs_keys in Hr2. apply resolve_inline_rhs_keys in Hr. congruence.
    - apply IH; assumption.
  Qed.

  (* ---------------------------------------------------------------- the theorems, on the output grammar *)
  Lemma map_akey_split l1 l2 :
    map akey l1 = map akey l2 ->
    map (fun a => (ra_name a, ra_bool a)) l1 = map (fun a => (ra_name a, ra_bool a)) l2 /\ map ra_sym l1 = map ra_sym l2.
  Proof.
    revert l2. induction l1 as [|a r IH]; destruct l2 as [|b r2]; simpl; intros H; try discriminate; [auto|].
    inversion H. destruct (IH _ H4) as [G1 G2]. split; f_equal; auto; congruence.
  Qed.

  Lemma combine_nth_error {A B} (l1 : list A) (l2 : list B) i x y :
    nth_error (combine l1 l2) i = Some (x, y) -> nth_error l1 i = Some x /\ nth_error l2 i = Some y.
  Proof.
    revert l2 i. induction l1 as [|a r IH]; intros l2 i H; destruct l2; destruct i; simpl in *; try discriminate.
    - inversion H; auto.
    - eapply IH; eauto.
  Qed.

  Lemma Forall2_nth_error {A B} (R : A -> B -> Prop) l1 l2 i y :
    Forall2 R l1 l2 -> nth_error l2 i = Some y -> exists x, nth_error l1 i = Some x /\ R x y.
  Proof.
    intros H. revert i. induction H; intros i Hi; destruct i; simpl in *; try discriminate.
    - inversion Hi; subst. eauto.
    - eauto.
  Qed.

  (* what the state after the rules phase says about every output production *)
  Lemma output_prod f g terms next_t st1 ps2 :
    terms_phase ident_ok f = ROk (terms, next_t) ->
    rules_phase ident_ok f (initial_state f terms next_t) = ROk st1 ->
    resolve_phase st1 = ROk ps2 -> assemble st1 ps2 (start_name f) = ROk g ->
    forall i p, nth_error (bg_prods g) i = Some p ->
      exists pd, nth_error (s_prods st1) i = Some pd /\
        op_origin p = pd_origin pd /\ op_ntidx p = pd_ntidx pd /\ op_prio p = pd_prio pd /\ op_kind p = pd_kind pd /\
        op_assoc p = pd_assoc pd /\ op_nops p = pd_nops pd /\ op_nopse p = pd_nopse pd /\ op_meta p = pd_meta pd /\
        op_nt p = pd_nt pd /\
        op_assign p = map (fun a => (ra_name a, ra_bool a)) (pd_rhs pd) /\ op_syms p = map ra_sym (pd_rhs pd).
  Proof.
    intros Ht Hr Hres Hasm i p Hi.
    apply assemble_prods in Hasm. destruct Hasm as [rhss [Hrs Hg]].
    rewrite Hg in Hi. rewrite nth_error_map in Hi.
    destruct (nth_error (combine ps2 rhss) i) as [[q syms]|] eqn:Ec; [|discriminate].
    simpl in Hi. inversion Hi; subst p; clear Hi.
    apply combine_nth_error in Ec. destruct Ec as [Eq _].
    apply resolve_phase_keys in Hres.
    destruct (Forall2_nth_error _ _ _ _ _ Hres Eq) as [pd [Hpd [rhs [Hq Hkeys]]]].
    exists pd. split; [exact Hpd|]. subst q. apply map_akey_split in Hkeys. destruct Hkeys as [K1 K2].
    unfold oprod_of; simpl. repeat split; auto.
  Qed.

  Lemma rules_phase_LI f terms next_t st1 :
    rules_phase ident_ok f (initial_state f terms next_t) = ROk st1 ->
    LI (file_rules f) (s_matches (initial_state f terms next_t)) st1 (rules_coords 0 (file_rules f)).
  Proof.
    unfold rules_phase, file_rules. destruct (f_rules f) as [rs|]; intros H; [|discriminate].
    apply extract_rules_LI in H; [exact H|reflexivity|reflexivity].
  Qed.
End WithIdent.
