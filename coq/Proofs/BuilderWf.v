(* Index well-formedness of the builder's symbol tables: the name-clash diagnostics (duplicate terminal, rule =
   terminal, helper name = rule / terminal) make terminal / nonterminal / production indexes dense on every
   successful run, so mark_reachable_symbols never indexes out of bounds (C16). *)
From Coq Require Import String Ascii NArith Permutation.
From RV Require Import Util Spec.Grammar Model.Builder Spec.BuilderSpec Proofs.Builder Proofs.BuilderPanic.

Lemma length_sm_insert_fresh {A} k (v : A) m : sm_get k m = None -> length (sm_insert k v m) = S (length m).
Proof. intros H. apply sm_insert_perm with (v := v) in H. apply Permutation_length in H. simpl in H. auto. Qed.

(* ------------------------------------------------------------------ sort_by *)
Section SortFacts.
  Variable A : Type.
  Variable key : A -> nat.

  Lemma insert_sorted_length x l : length (insert_sorted key x l) = S (length l).
  Proof. induction l as [|y r IH]; simpl; [reflexivity|]. destruct (key x <? key y); simpl; congruence. Qed.

  Lemma insert_sorted_In x l z : In z (insert_sorted key x l) <-> z = x \/ In z l.
  Proof.
    induction l as [|y r IH]; simpl; [intuition|].
    destruct (key x <? key y); simpl; [intuition|]. rewrite IH. intuition.
  Qed.

  Lemma sort_by_aux l : forall acc,
    length (fold_left (fun acc x => insert_sorted key x acc) l acc) = length l + length acc /\
    forall z, In z (fold_left (fun acc x => insert_sorted key x acc) l acc) <-> In z l \/ In z acc.
  Proof.
    induction l as [|x r IH]; simpl; intros acc; [intuition|].
    destruct (IH (insert_sorted key x acc)) as [H1 H2]. split.
    - rewrite H1, insert_sorted_length. lia.
    - intros z. rewrite H2, insert_sorted_In. intuition.
  Qed.

  Lemma sort_by_length l : length (sort_by key l) = length l.
  Proof. unfold sort_by. destruct (sort_by_aux l []) as [H _]. simpl in H. lia. Qed.

  Lemma sort_by_In l z : In z (sort_by key l) <-> In z l.
  Proof. unfold sort_by. destruct (sort_by_aux l []) as [_ H]. rewrite H. simpl. intuition. Qed.
End SortFacts.
Arguments sort_by_length {A}. Arguments sort_by_In {A}.

(* ------------------------------------------------------------------ terminals *)
Definition terms_ok (terms : smap termdata) (n : nat) : Prop :=
  length terms = n /\ forall k t, In (k, t) terms -> td_idx t < n.

(* every terminal of the map comes from a terminal rule of the file (or is STOP) *)
Definition terms_from (ts : list termrule) (terms : smap termdata) : Prop :=
  forall k t, In (k, t) terms ->
              t = stop_term \/ exists tr, In tr ts /\ td_name t = tr_name tr /\ td_rec t = tr_rec tr.

Section WithIdent.
  Variable ident_ok : string -> bool.

  Lemma collect_terminals_ok ts : forall terms n terms' n',
    collect_terminals ident_ok ts terms n = ROk (terms', n') ->
    terms_ok terms n -> terms_ok terms' n'.
  Proof.
    induction ts as [|t rest IH]; simpl; intros terms n terms' n' H Hok.
    - inversion H; subst; exact Hok.
    - inv_bind H. inv_bind H. inv_bind H.
      destruct (sm_mem (tr_name t) terms) eqn:Em; [discriminate|]. clear Hb0.
      eapply IH; [exact H|]. destruct Hok as [Hl Hi]. split.
      + rewrite length_sm_insert_fresh; [congruence|]. apply sm_mem_false_get. exact Em.
      + intros k t0 Hin. apply In_sm_insert in Hin. destruct Hin as [Hin|Hin].
        * inversion Hin; subst; simpl. lia.
        * apply Hi in Hin. lia.
  Qed.

  Lemma collect_terminals_from all ts : forall terms n terms' n',
    collect_terminals ident_ok ts terms n = ROk (terms', n') ->
    (forall t, In t ts -> In t all) -> terms_from all terms -> terms_from all terms'.
  Proof.
    induction ts as [|t rest IH]; simpl; intros terms n terms' n' H Hsub Hfrom.
    - inversion H; subst; exact Hfrom.
    - inv_bind H. inv_bind H. inv_bind H. eapply IH; [exact H|auto|].
      intros k t0 Hin. apply In_sm_insert in Hin. destruct Hin as [Hin|Hin]; [|apply Hfrom in Hin; exact Hin].
      inversion Hin; subst. right. exists t. simpl. auto.
  Qed.

  Lemma terms_phase_ok f terms n :
    terms_phase ident_ok f = ROk (terms, n) -> terms_ok terms n.
  Proof.
    unfold terms_phase. destruct (f_terms f) as [ts|]; intros H.
    - eapply collect_terminals_ok; [exact H|].
      split; [reflexivity|]. intros k t [Hin|[]]. inversion Hin; subst; simpl. lia.
    - inversion H; subst. split; [reflexivity|]. intros k t [Hin|[]]. inversion Hin; subst; simpl. lia.
  Qed.

  Lemma terms_phase_from f terms n :
    terms_phase ident_ok f = ROk (terms, n) -> terms_from (file_termrules f) terms.
  Proof.
    unfold terms_phase, file_termrules. destruct (f_terms f) as [ts|]; intros H.
    - eapply collect_terminals_from; [exact H|auto|]. intros k t [Hin|[]]. inversion Hin; subst. left; reflexivity.
    - inversion H; subst. intros k t [Hin|[]]. inversion Hin; subst. left; reflexivity.
  Qed.

  (* terminals_matches: every entry points to a terminal of the map with that string recognizer *)
  Definition matches_from (terms : smap termdata) (matches : smap (string * nat)) : Prop :=
    forall s tn i, In (s, (tn, i)) matches ->
                   exists k t, In (k, t) terms /\ td_rec t = Some (RStr s) /\ td_name t = tn /\ td_idx t = i.

  Lemma build_matches_from terms : matches_from terms (build_matches terms).
  Proof.
    unfold build_matches.
    assert (G : forall l acc, (forall kv, In kv l -> In kv terms) -> matches_from terms acc ->
                              matches_from terms (fold_left (fun m kv =>
                                 match td_rec (snd kv) with
                                 | Some (RStr s) => sm_insert s (td_name (snd kv), td_idx (snd kv)) m
                                 | _ => m
                                 end) l acc)).
    { induction l as [|[k t] r IH]; simpl; intros acc Hsub Hacc; [exact Hacc|].
      apply IH; [auto|]. destruct (td_rec t) as [[s|s]|] eqn:Er; try exact Hacc.
      intros s' tn i Hin. apply In_sm_insert in Hin. destruct Hin as [Hin|Hin]; [|eapply Hacc; eauto].
      inversion Hin; subst. exists k, t. split; [apply Hsub; left; reflexivity|auto]. }
    apply G; [auto|]. intros s tn i [].
  Qed.

  Lemma initial_matches_from f terms n :
    matches_from terms (s_matches (initial_state f terms n)).
  Proof.
    unfold initial_state; simpl. destruct (f_terms f); [apply build_matches_from|]. intros s tn i [].
  Qed.

  Lemma create_helper_mem st dps name annot rhs0 rhs1 k :
    sm_mem k (s_nts (fst (create_helper st dps name annot rhs0 rhs1))) = String.eqb k name || sm_mem k (s_nts st).
  Proof. unfold create_helper; simpl. apply sm_mem_insert. Qed.

  (* what the successful name check of desugar_regex guarantees *)
  Definition name_free (st : bstate) (n : string) : Prop :=
    existsb (String.eqb n) (s_rule_names st) = false /\ sm_mem n (s_terms st) = false.

  Lemma helper_clash_ok st b op hops u :
    helper_clash st b op hops = ROk u ->
    forall h, In h hops -> helper_used op h = true -> name_free st (nt_name b h).
  Proof.
    induction hops as [|h0 rest IH]; simpl; intros H h Hin Hu; [contradiction|].
    destruct (helper_used op h0 && (existsb (String.eqb (nt_name b h0)) (s_rule_names st) || sm_mem (nt_name b h0) (s_terms st))) eqn:E;
      [discriminate|].
    destruct Hin as [Hin|Hin]; [|eapply IH; eauto]. subst h0. rewrite Hu in E. simpl in E.
    apply orb_false_elim in E. exact E.
  Qed.

  Lemma sep_check_same st b op m st2 :
    sep_check st b op m = ROk st2 ->
    s_nts st2 = s_nts st /\ s_rule_names st2 = s_rule_names st /\ s_terms st2 = s_terms st /\ s_matches st2 = s_matches st.
  Proof.
    unfold sep_check. intros H.
    destruct op; try (inversion H; subst; auto);
      (destruct (sm_get (nt_name b OneOrMore) (s_seps st)) as [ex|];
       [destruct (opt_str_eqb ex m); [inversion H; subst; auto|discriminate]|inversion H; subst; simpl; auto]).
  Qed.

  (* every nonterminal name that desugaring adds is neither a rule name nor a terminal name *)
  Lemma desugar_new_names st0 dps r st' dps' sym :
    desugar st0 dps r = ROk (st', dps', sym) ->
    forall k, sm_mem k (s_nts st') = true -> sm_mem k (s_nts st0) = true \/ name_free st0 k.
  Proof.
    unfold desugar. destruct (sr_sym r) as [sy|]; [|discriminate].
    destruct (sr_rep r) as [op|]; [|intros H; inversion H; subst; auto].
    intros H. inv_bind H. inv_bind H. inv_bind H. inv_bind H. clear Hb Hb0.
    pose proof (helper_clash_ok _ _ _ _ _ Hb1) as Hfree. clear Hb1.
    destruct (sep_check_same _ _ _ _ _ Hb2) as [Hn [Hrn [Htm _]]]. clear Hb2.
    assert (Hfree' : forall h, In h [OneOrMore; ZeroOrMore; Optional] -> helper_used (rep_op op) h = true ->
                               forall k, k = nt_name a0 h -> name_free st0 k).
    { intros h Hin Hu k Hk. subst k. apply Hfree; assumption. }
    clear Hfree. rewrite <- Hn. clear Hn Hrn Htm.
    destruct (rep_op op) eqn:Eo; try discriminate; intros k Hk.
    - (* ZeroOrMore *)
      destruct (sm_mem (nt_name a0 OneOrMore) (s_nts a2)) eqn:E1.
      + destruct (sm_mem (nt_name a0 ZeroOrMore) (s_nts a2)) eqn:E2.
        * inversion H; subst. auto.
        * unfold create_zero in H.
          match type of H with context [create_helper ?s ?d ?n ?an ?r0 ?r1] =>
            pose proof (create_helper_mem s d n an r0 r1 k) as Hm; destruct (create_helper s d n an r0 r1) as [st2 dps2] end.
          inversion H; subst. simpl in Hm. rewrite Hk in Hm. symmetry in Hm. apply orb_prop in Hm.
          destruct Hm as [Hm|Hm]; [|auto]. apply String.eqb_eq in Hm. right.
          apply (Hfree' ZeroOrMore); simpl; auto.
      + unfold create_one in H.
        match type of H with context [create_helper a2 dps ?n ?an ?r0 ?r1] =>
          pose proof (create_helper_mem a2 dps n an r0 r1) as Hm1; destruct (create_helper a2 dps n an r0 r1) as [st1 dps1] end.
        simpl in Hm1.
        destruct (sm_mem (nt_name a0 ZeroOrMore) (s_nts st1)) eqn:E2.
        * inversion H; subst. rewrite Hm1 in Hk. apply orb_prop in Hk.
          destruct Hk as [Hk|Hk]; [|auto]. apply String.eqb_eq in Hk. right. apply (Hfree' OneOrMore); simpl; auto.
        * unfold create_zero in H.
          match type of H with context [create_helper st1 dps1 ?n ?an ?r0 ?r1] =>
            pose proof (create_helper_mem st1 dps1 n an r0 r1 k) as Hm2; destruct (create_helper st1 dps1 n an r0 r1) as [st2 dps2] end.
          inversion H; subst. simpl in Hm2. rewrite Hk in Hm2. symmetry in Hm2. apply orb_prop in Hm2.
          destruct Hm2 as [Hm2|Hm2]; [apply String.eqb_eq in Hm2; right; apply (Hfree' ZeroOrMore); simpl; auto|].
          rewrite Hm1 in Hm2. apply orb_prop in Hm2.
          destruct Hm2 as [Hm2|Hm2]; [apply String.eqb_eq in Hm2; right; apply (Hfree' OneOrMore); simpl; auto|auto].
    - (* OneOrMore *)
      destruct (sm_mem (nt_name a0 OneOrMore) (s_nts a2)) eqn:E1.
      + inversion H; subst. auto.
      + unfold create_one in H.
        match type of H with context [create_helper a2 dps ?n ?an ?r0 ?r1] =>
          pose proof (create_helper_mem a2 dps n an r0 r1 k) as Hm1; destruct (create_helper a2 dps n an r0 r1) as [st1 dps1] end.
        inversion H; subst. simpl in Hm1. rewrite Hk in Hm1. symmetry in Hm1. apply orb_prop in Hm1.
        destruct Hm1 as [Hm1|Hm1]; [apply String.eqb_eq in Hm1; right; apply (Hfree' OneOrMore); simpl; auto|auto].
    - (* Optional *)
      destruct (sm_mem (nt_name a0 Optional) (s_nts a2)) eqn:E1.
      + inversion H; subst. auto.
      + unfold create_optional in H.
        match type of H with context [create_helper a2 dps ?n ?an ?r0 ?r1] =>
          pose proof (create_helper_mem a2 dps n an r0 r1 k) as Hm1; destruct (create_helper a2 dps n an r0 r1) as [st1 dps1] end.
        inversion H; subst. simpl in Hm1. rewrite Hk in Hm1. symmetry in Hm1. apply orb_prop in Hm1.
        destruct Hm1 as [Hm1|Hm1]; [apply String.eqb_eq in Hm1; right; apply (Hfree' Optional); simpl; auto|auto].
  Qed.

  Lemma do_assign_new_names st dps a st' dps' ra :
    do_assign ident_ok st dps a = ROk (st', dps', ra) ->
    forall k, sm_mem k (s_nts st') = true -> sm_mem k (s_nts st) = true \/ name_free st k.
  Proof.
    unfold do_assign. destruct a as [n r|n r|r]; simpl; intros H.
    - inv_bind H. inv_bind H. destruct a0 as [[st1 dps1] sym]. destruct sym; [|discriminate]. inversion H; subst.
      eapply desugar_new_names; eauto.
    - inv_bind H. inv_bind H. destruct a0 as [[st1 dps1] sym]. destruct sym; [|discriminate]. inversion H; subst.
      eapply desugar_new_names; eauto.
    - inv_bind H. destruct a as [[st1 dps1] sym]. destruct sym; [|discriminate]. inversion H; subst.
      eapply desugar_new_names; eauto.
  Qed.

  Lemma do_assigns_new_names asg : forall st dps st' dps' ras,
    do_assigns ident_ok st dps asg = ROk (st', dps', ras) ->
    forall k, sm_mem k (s_nts st') = true -> sm_mem k (s_nts st) = true \/ name_free st k.
  Proof.
    induction asg as [|a rest IH]; simpl; intros st dps st' dps' ras H k Hk.
    - inversion H; subst. auto.
    - destruct (is_empty_ref a); [eapply IH; eauto|].
      inv_bind H. destruct a0 as [[st1 dps1] ra]. inv_bind H. destruct a0 as [[st2 dps2] ras2]. inversion H; subst.
      pose proof (do_assign_hsteps _ _ _ _ _ _ _ Hb) as Hs. apply hsteps_frame in Hs. destruct Hs as [Ht [_ [_ [_ Hrn]]]].
      destruct (IH _ _ _ _ _ Hb0 k Hk) as [G|[G1 G2]].
      + eapply do_assign_new_names; eauto.
      + right. unfold name_free. rewrite <- Hrn, <- Ht. split; assumption.
  Qed.

  (* ---------------------------------------------------------------- the rules phase keeps the tables dense *)
  Definition nts_ok (st : bstate) : Prop :=
    forall k nt, In (k, nt) (s_nts st) ->
                 nd_idx nt < s_next_nt st /\ Forall (fun p => p < s_next_p st) (nd_prods nt).

  Definition unresolved (ps : list proddata) : Prop :=
    Forall (fun p => Forall (fun a => ra_index a = None) (pd_rhs p)) ps.

  (* pend = 1 while a rule's nonterminal index is allocated but not yet inserted *)
  Definition dense (st : bstate) (dps : list proddata) (pend : nat) : Prop :=
    nts_ok st /\ length (s_nts st) + pend = s_next_nt st /\ unresolved (s_prods st) /\ unresolved dps.

  Lemma unresolved_helper idx nt ntidx rhs : is_resolving rhs ->
    Forall (fun a => ra_index a = None) (pd_rhs (mk_helper_prod idx nt ntidx rhs)).
  Proof.
    intros [ns Hr]. subst. simpl. apply Forall_forall. intros a Hin. apply in_map_iff in Hin.
    destruct Hin as [n [Hn _]]. subst. reflexivity.
  Qed.

  Lemma dense_hsteps pend st dps st' dps' :
    hsteps st dps st' dps' -> dense st dps pend -> dense st' dps' pend.
  Proof.
    revert st dps st' dps'. apply (hsteps_inv (fun s d => dense s d pend)); [|intros st dps seps H; exact H].
    intros st dps name annot rhs0 rhs1 Hfresh Hr0 Hr1 [Hn [Hc [Hu1 Hu2]]].
    unfold dense. split; [|split; [|split]].
    - intros k nt Hin. unfold create_helper in Hin |- *; simpl in Hin |- *.
      apply In_sm_insert in Hin. destruct Hin as [Hin|Hin].
      + inversion Hin; subst; simpl. split; [lia|]. repeat constructor; lia.
      + destruct (Hn _ _ Hin) as [H1 H2]. split; [lia|].
        eapply Forall_impl; [|exact H2]. simpl. intros; lia.
    - unfold create_helper; simpl. rewrite length_sm_insert_fresh; [lia|]. apply sm_mem_false_get; exact Hfresh.
    - exact Hu1.
    - unfold create_helper; simpl. apply Forall_app. split; [exact Hu2|].
      constructor; [apply unresolved_helper; exact Hr0|]. constructor; [apply unresolved_helper; exact Hr1|constructor].
  Qed.

  Lemma hsteps_next_nt st dps st' dps' : hsteps st dps st' dps' -> s_next_nt st <= s_next_nt st'.
  Proof. induction 1; [lia| |]; [unfold create_helper in IHhsteps|unfold set_seps in IHhsteps]; simpl in IHhsteps; lia. Qed.

  Lemma do_assign_unresolved st dps a st' dps' ra :
    do_assign ident_ok st dps a = ROk (st', dps', ra) -> ra_index ra = None.
  Proof.
    unfold do_assign. destruct a as [n r|n r|r]; intros H.
    - inv_bind H. inv_bind H. destruct a0 as [[st1 dps1] sym]. destruct sym; [|discriminate]. inversion H; reflexivity.
    - inv_bind H. inv_bind H. destruct a0 as [[st1 dps1] sym]. destruct sym; [|discriminate]. inversion H; reflexivity.
    - inv_bind H. destruct a as [[st1 dps1] sym]. destruct sym; [|discriminate]. inversion H; reflexivity.
  Qed.

  Lemma do_assigns_unresolved asg : forall st dps st' dps' ras,
    do_assigns ident_ok st dps asg = ROk (st', dps', ras) -> Forall (fun a => ra_index a = None) ras.
  Proof.
    induction asg as [|a rest IH]; simpl; intros st dps st' dps' ras H.
    - inversion H; constructor.
    - destruct (is_empty_ref a); [eapply IH; eauto|].
      inv_bind H. destruct a0 as [[st1 dps1] ra]. inv_bind H. destruct a0 as [[st2 dps2] ras2]. inversion H; subst.
      constructor; [eapply do_assign_unresolved; eauto|eapply IH; eauto].
  Qed.

  Definition tframe (st st' : bstate) : Prop :=
    s_terms st' = s_terms st /\ s_matches st' = s_matches st /\ s_next_t st' = s_next_t st /\
    s_rule_names st' = s_rule_names st.

  Lemma tframe_refl st : tframe st st.
  Proof. unfold tframe; auto. Qed.
  Lemma tframe_trans a b c : tframe a b -> tframe b c -> tframe a c.
  Proof. unfold tframe; intros [? [? [? ?]]] [? [? [? ?]]]; repeat split; congruence. Qed.

  (* one alternative *)
  Lemma do_alt_dense st rpos r rmeta nt_idx ntidx alt st' pend :
    do_alt ident_ok st rpos r rmeta nt_idx ntidx alt = ROk st' ->
    pos_ok st -> dense st [] pend -> nt_idx < s_next_nt st ->
    ((pend = 0 /\ sm_mem (r_name r) (s_nts st) = true) \/
     (pend = 1 /\ sm_mem (r_name r) (s_nts st) = false /\
      existsb (String.eqb (r_name r)) (s_rule_names st) = true)) ->
    dense st' [] 0 /\ sm_mem (r_name r) (s_nts st') = true /\ s_next_nt st <= s_next_nt st' /\ tframe st st'.
  Proof.
    unfold do_alt. intros H [Hp1 Hp2] [Hn [Hc [Hu1 _]]] Hnt Hcase.
    inv_bind H. destruct a as [[st1 dps] rhs]. inv_bind H. inversion H; subst; clear H.
    set (st0 := mkBState (s_terms st) (s_matches st) (s_nts st) (s_prods st) (s_next_t st) (s_next_nt st) (S (s_next_p st))
                         (s_rule_names st) (s_seps st)) in *.
    pose proof (do_assigns_hsteps _ _ _ _ _ _ _ Hb) as Hs.
    pose proof (hsteps_frame _ _ _ _ Hs) as [Ht [Hm [Hpr [Hnt' Hrn]]]]. simpl in Ht, Hm, Hpr, Hnt', Hrn.
    assert (Hd0 : dense st0 [] pend).
    { unfold dense, st0; simpl. split; [|split; [exact Hc|split; [exact Hu1|constructor]]].
      intros k nt Hin. simpl in Hin |- *. destruct (Hn _ _ Hin) as [H1 H2]. split; [exact H1|].
      eapply Forall_impl; [|exact H2]. simpl; intros; lia. }
    pose proof (dense_hsteps _ _ _ _ _ Hs Hd0) as [Hn1 [Hc1 [Hu11 Hu12]]].
    assert (Hi : pos_inflight st1 dps).
    { eapply pos_inflight_hsteps; [exact Hs|]. unfold pos_inflight, st0; simpl. split; [lia|]. intros j p Hj; destruct j; discriminate. }
    destruct Hi as [Hi1 _]. rewrite Hpr in Hi1.
    pose proof (hsteps_next_nt _ _ _ _ Hs) as Hmono. simpl in Hmono.
    pose proof (do_assigns_unresolved _ _ _ _ _ _ Hb) as Hur.
    assert (Hmem1 : sm_mem (r_name r) (s_nts st1) = match pend with 0 => true | _ => false end).
    { destruct Hcase as [[Hp Hin]|[Hp [Hnin Hnames]]]; subst pend.
      - apply (hsteps_mono _ _ _ _ Hs). exact Hin.
      - destruct (sm_mem (r_name r) (s_nts st1)) eqn:E; [|reflexivity]. exfalso.
        destruct (do_assigns_new_names _ _ _ _ _ _ Hb _ E) as [G|[G1 G2]].
        + simpl in G. congruence.
        + simpl in G1. congruence. }
    split; [|split; [|split]].
    - unfold dense; simpl. split; [|split; [|split; [|constructor]]].
      + intros k nt Hin. simpl in Hin |- *. unfold add_prod_to_nt in Hin.
        destruct (sm_get (r_name r) (s_nts st1)) as [nt0|] eqn:Eg.
        * apply In_sm_update in Hin. destruct Hin as [Hin|[v0 [Hin [_ Hv]]]].
          -- apply Hn1 in Hin. exact Hin.
          -- simpl in Hv. apply Hn1 in Hin. destruct Hin as [H1 H2]. destruct nt as [i nm an ps]. simpl in *.
             inversion Hv; subst. split; [exact H1|]. apply Forall_app. split; [exact H2|]. constructor; [lia|constructor].
        * apply In_sm_insert in Hin. destruct Hin as [Hin|Hin].
          -- inversion Hin; subst; simpl. split; [lia|]. constructor; [lia|constructor].
          -- apply Hn1 in Hin. exact Hin.
      + unfold add_prod_to_nt. destruct (sm_get (r_name r) (s_nts st1)) as [nt0|] eqn:Eg.
        * rewrite length_sm_update. unfold sm_mem in Hmem1. rewrite Eg in Hmem1. destruct pend; [lia|discriminate].
        * rewrite length_sm_insert_fresh by exact Eg. unfold sm_mem in Hmem1. rewrite Eg in Hmem1.
          destruct Hcase as [[Hp _]|[Hp _]]; subst pend; [discriminate|lia].
      + rewrite Hpr. apply Forall_app. split; [exact Hu1|]. constructor; [simpl; exact Hur|exact Hu12].
    - simpl. rewrite add_prod_mem, String.eqb_refl. reflexivity.
    - simpl. exact Hmono.
    - unfold tframe; simpl. auto.
  Qed.

  Lemma do_alts_dense alts : forall st rpos r rmeta nt_idx ntidx st',
    do_alts ident_ok st rpos r rmeta nt_idx ntidx alts = ROk st' ->
    pos_ok st -> dense st [] 0 -> nt_idx < s_next_nt st -> sm_mem (r_name r) (s_nts st) = true ->
    dense st' [] 0 /\ pos_ok st' /\ tframe st st'.
  Proof.
    induction alts as [|alt rest IH]; simpl; intros st rpos r rmeta nt_idx ntidx st' H Hp Hd Hnt Hin.
    - inversion H; subst. split; [exact Hd|split; [exact Hp|apply tframe_refl]].
    - inv_bind H. pose proof (do_alt_pos _ _ _ _ _ _ _ _ _ Hb Hp) as Hp'.
      destruct (do_alt_dense _ _ _ _ _ _ _ _ _ Hb Hp Hd Hnt (or_introl (conj eq_refl Hin))) as [Hd' [Hin' [Hle Hf]]].
      destruct (IH _ _ _ _ _ _ _ H Hp' Hd' ltac:(lia) Hin') as [G1 [G2 G3]].
      split; [exact G1|split; [exact G2|eapply tframe_trans; eauto]].
  Qed.

  Lemma do_rule_dense st rpos r st' :
    do_rule ident_ok st rpos r = ROk st' ->
    pos_ok st -> dense st [] 0 -> r_rhs r <> [] -> existsb (String.eqb (r_name r)) (s_rule_names st) = true ->
    dense st' [] 0 /\ pos_ok st' /\ tframe st st'.
  Proof.
    unfold do_rule. intros H Hp Hd Hne Hrn. inv_bind H. inv_bind H. inv_bind H. clear Hb Hb0 Hb1.
    destruct (sm_get (r_name r) (s_nts st)) as [nt|] eqn:Eg.
    - eapply do_alts_dense; [exact H|exact Hp|exact Hd| |unfold sm_mem; rewrite Eg; reflexivity].
      destruct Hd as [Hn _]. apply sm_get_In in Eg. apply Hn in Eg. apply Eg.
    - destruct (r_rhs r) as [|alt rest]; [congruence|]. simpl in H. inv_bind H.
      set (st0 := mkBState (s_terms st) (s_matches st) (s_nts st) (s_prods st) (s_next_t st) (S (s_next_nt st)) (s_next_p st)
                           (s_rule_names st) (s_seps st)) in *.
      assert (Hp0 : pos_ok st0) by exact Hp.
      assert (Hd0 : dense st0 [] 1).
      { destruct Hd as [Hn [Hc [Hu1 Hu2]]]. unfold dense, st0; simpl. split; [|split; [lia|split; assumption]].
        intros k nt Hin. simpl in Hin |- *. destruct (Hn _ _ Hin) as [H1 H2]. split; [lia|exact H2]. }
      pose proof (do_alt_pos _ _ _ _ _ _ _ _ _ Hb Hp0) as Hp'.
      assert (Hnin0 : sm_mem (r_name r) (s_nts st0) = false) by (unfold sm_mem, st0; simpl; rewrite Eg; reflexivity).
      assert (Hnt0 : s_next_nt st < s_next_nt st0) by (unfold st0; simpl; lia).
      assert (Hrn0 : existsb (String.eqb (r_name r)) (s_rule_names st0) = true) by exact Hrn.
      destruct (do_alt_dense _ _ _ _ _ _ _ _ _ Hb Hp0 Hd0 Hnt0 (or_intror (conj eq_refl (conj Hnin0 Hrn0))))
        as [Hd' [Hin' [Hle Hf]]].
      destruct (do_alts_dense _ _ _ _ _ _ _ _ H Hp' Hd' ltac:(simpl in Hle; lia) Hin') as [G1 [G2 G3]].
      split; [exact G1|split; [exact G2|]]. eapply tframe_trans; [|exact G3]. exact Hf.
  Qed.

  Lemma do_rules_dense rs : forall st rpos st',
    do_rules ident_ok st rpos rs = ROk st' ->
    pos_ok st -> dense st [] 0 ->
    (forall r, In r rs -> r_rhs r <> [] /\ existsb (String.eqb (r_name r)) (s_rule_names st) = true) ->
    dense st' [] 0 /\ pos_ok st' /\ tframe st st'.
  Proof.
    induction rs as [|r rest IH]; simpl; intros st rpos st' H Hp Hd Hall.
    - inversion H; subst. split; [exact Hd|split; [exact Hp|apply tframe_refl]].
    - inv_bind H. destruct (Hall r (or_introl eq_refl)) as [Hne Hrn].
      destruct (do_rule_dense _ _ _ _ Hb Hp Hd Hne Hrn) as [Hd' [Hp' Hf]].
      assert (Hall' : forall r0, In r0 rest -> r_rhs r0 <> [] /\ existsb (String.eqb (r_name r0)) (s_rule_names a) = true).
      { intros r0 Hin. destruct Hf as [_ [_ [_ Hm]]]. rewrite Hm. apply Hall. right; exact Hin. }
      destruct (IH _ _ _ H Hp' Hd' Hall') as [G1 [G2 G3]].
      split; [exact G1|split; [exact G2|eapply tframe_trans; eauto]].
  Qed.

  Lemma create_aug_dense st n r :
    sm_mem n (s_nts st) = false -> pos_ok st -> dense st [] 0 -> dense (create_aug st n r) [] 0.
  Proof.
    intros Hfresh [Hp1 Hp2] [Hn [Hc [Hu1 _]]]. unfold dense, create_aug; simpl. split; [|split; [|split; [|constructor]]].
    - intros k nt Hin. simpl in Hin |- *. apply In_sm_insert in Hin. destruct Hin as [Hin|Hin].
      + inversion Hin; subst; simpl. split; [lia|]. constructor; [lia|constructor].
      + destruct (Hn _ _ Hin) as [H1 H2]. split; [lia|]. eapply Forall_impl; [|exact H2]. simpl; intros; lia.
    - rewrite length_sm_insert_fresh; [lia|]. apply sm_mem_false_get; exact Hfresh.
    - apply Forall_app. split; [exact Hu1|]. constructor; [|constructor]. simpl. constructor; [reflexivity|constructor].
  Qed.

  Lemma extract_rules_dense st rs st' :
    extract_rules ident_ok st rs = ROk st' ->
    s_nts st = [] -> s_prods st = [] -> s_next_nt st = 0 -> s_next_p st = 0 ->
    (forall r, In r rs -> r_rhs r <> []) ->
    dense st' [] 0 /\ pos_ok st' /\ s_terms st' = s_terms st /\ s_matches st' = s_matches st /\ s_next_t st' = s_next_t st.
  Proof.
    unfold extract_rules. destruct rs as [|r0 rest]; [discriminate|]. intros H Hn0 Hp0 Hnn Hpn Hshape.
    set (st1 := mkBState (s_terms st) (s_matches st)
                         (sm_insert "EMPTY"%string (mkNtData (s_next_nt st) "EMPTY"%string None []) (s_nts st))
                         (s_prods st) (s_next_t st) (S (s_next_nt st)) (s_next_p st) (s_rule_names st) (s_seps st)) in *.
    assert (Hpos1 : pos_ok st1).
    { unfold pos_ok, st1; simpl. rewrite Hp0, Hpn. split; [reflexivity|]. intros j p Hj; destruct j; discriminate. }
    assert (Hd1 : dense st1 [] 0).
    { unfold dense, st1; simpl. rewrite Hn0, Hp0, Hnn. simpl. split; [|split; [reflexivity|split; constructor]].
      intros k nt [Hin|[]]. inversion Hin; subst; simpl. split; [lia|constructor]. }
    set (st2 := create_aug st1 "AUG"%string (r_name r0)) in *.
    assert (Hf2 : sm_mem "AUG"%string (s_nts st1) = false) by (unfold st1; simpl; rewrite Hn0; reflexivity).
    assert (Hd2 : dense st2 [] 0) by (apply create_aug_dense; assumption).
    assert (Hpos2 : pos_ok st2) by (apply create_aug_pos; assumption).
    match type of H with do_rules _ (set_rule_names ?s3 _) _ _ = _ => set (st3 := s3) in * end.
    assert (H3 : dense st3 [] 0 /\ pos_ok st3 /\ s_terms st3 = s_terms st /\ s_matches st3 = s_matches st /\ s_next_t st3 = s_next_t st).
    { unfold st3. destruct (find _ _) as [lr|].
      - split; [|split].
        + apply create_aug_dense; [|assumption|assumption].
          unfold st2. rewrite create_aug_mem. unfold st1; simpl. rewrite Hn0. reflexivity.
        + apply create_aug_pos; assumption.
        + unfold create_aug, st2, create_aug, st1; simpl. auto.
      - split; [assumption|split; [assumption|]]. unfold st2, create_aug, st1; simpl. auto. }
    destruct H3 as [Hd3 [Hpos3 [Ht3 [Hm3 Hn3]]]].
    set (st4 := set_rule_names st3 (map r_name (r0 :: rest))) in *.
    assert (Hd4 : dense st4 [] 0) by exact Hd3.
    assert (Hpos4 : pos_ok st4) by exact Hpos3.
    assert (Hall : forall r, In r (r0 :: rest) -> r_rhs r <> [] /\ existsb (String.eqb (r_name r)) (s_rule_names st4) = true).
    { intros r Hin. split; [apply Hshape; exact Hin|]. change (s_rule_names st4) with (map r_name (r0 :: rest)). apply existsb_exists.
      exists (r_name r). split; [|apply String.eqb_refl]. apply (in_map r_name) in Hin. exact Hin. }
    destruct (do_rules_dense _ _ _ _ H Hpos4 Hd4 Hall) as [G1 [G2 [G3 [G4 [G5 _]]]]].
    split; [exact G1|split; [exact G2|]]. unfold st4 in G3, G4, G5; simpl in G3, G4, G5.
    repeat split; congruence.
  Qed.
End WithIdent.
