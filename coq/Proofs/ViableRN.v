(* C12 for the GLR side, at the level of the TABLE: the token counts the
   nondeterministic machine (Model/NLR.v) can reach on an input are exactly the
   lengths of its viable prefixes.
     nlr_prefix_viable : whatever a run has consumed begins some sentence
                         (no head of a GLR parser gets past a non-viable prefix);
     nlr_viable_reached: every viable prefix of the input is consumed by some run
                         (no head dies early).
   Hence the furthest position any run reaches is the first token that cannot
   continue any sentence.  The first half follows Proofs/Viable.v over SoundRN. *)
From RV Require Import Model.LR Model.NLR Spec.Validators Spec.ValidatorsRN Proofs.SoundRN Proofs.CompleteRN.

Section ViableRN.
Variable g : grammar.
Variable T : table.
Hypothesis Hwf : wf_grammar_b g = true.
Hypothesis Hsound : sound_rn_b g T = true.
Hypothesis Hviable : viable_b g T = true.

Definition has_tree (X : nat) : Prop := exists t, valid_tree g t /\ root g t = X.

(* ---------- productivity ---------- *)
Lemma prod_ready_trees P pr :
  (forall X, In X P -> has_tree X) -> prod_ready g P pr = true ->
  exists cs, Forall (valid_tree g) cs /\ map (root g) cs = p_rhs pr.
Proof.
  intros HP Hr. unfold prod_ready in Hr. rewrite forallb_forall in Hr.
  induction (p_rhs pr) as [|x l IH].
  - exists []. split; [constructor|reflexivity].
  - destruct IH as [cs [Hv Hm]]; [intros y Hy; apply Hr; right; exact Hy|].
    specialize (Hr x (or_introl eq_refl)). apply orb_true_iff in Hr. destruct Hr as [Hr|Hr].
    + apply andb_true_iff in Hr. destruct Hr as [H0 H1]. apply Nat.ltb_lt in H0, H1.
      exists (Leaf x :: cs). split; [constructor; [constructor; lia|exact Hv]|simpl; rewrite Hm; reflexivity].
    + apply memb_In in Hr. destruct (HP x Hr) as [t [Ht Hrt]].
      exists (t :: cs). split; [constructor; assumption|simpl; rewrite Hrt, Hm; reflexivity].
Qed.

Lemma prod_round_trees P :
  (forall X, In X P -> has_tree X) -> forall X, In X (prod_round g P) -> has_tree X.
Proof.
  intros HP X HX. unfold prod_round in HX. apply in_app_or in HX. destruct HX as [HX|HX]; [auto|].
  apply in_map_iff in HX. destruct HX as [pr [Hl Hin]]. apply filter_In in Hin. destruct Hin as [Hin Hr].
  destruct (prod_ready_trees P pr HP Hr) as [cs [Hv Hm]].
  apply In_nth_error in Hin. destruct Hin as [p Hp].
  exists (Node p cs). split.
  - econstructor; [exact Hp|exact Hm|exact Hv].
  - simpl. unfold lhs, get_prod. rewrite Hp. exact Hl.
Qed.

Lemma prod_iter_trees n : forall P,
  (forall X, In X P -> has_tree X) -> forall X, In X (prod_iter g n P) -> has_tree X.
Proof.
  induction n as [|n IH]; intros P HP X HX; simpl in HX; [auto|].
  eapply IH; [|exact HX]. apply prod_round_trees. exact HP.
Qed.

Lemma productive_parts :
  productive_b g = true /\
  forall s st, get_state T s = Some st -> justified_b g T s st = true.
Proof.
  pose proof Hviable as H. unfold viable_b in H. apply andb_true_iff in H. destruct H as [H1 H2].
  split; [exact H1|]. intros s st Hs. rewrite forallb_forall in H2.
  specialize (H2 (s, st)). apply H2. apply In_indexed. exact Hs.
Qed.

(* trees for the symbols after the dot of any production *)
Lemma fillers p pr i :
  get_prod g p = Some pr ->
  exists cs, Forall (valid_tree g) cs /\ map (root g) cs = skipn i (p_rhs pr).
Proof.
  intros Hp. destruct productive_parts as [Hprod _]. unfold productive_b in Hprod.
  rewrite forallb_forall in Hprod. specialize (Hprod pr (nth_error_In _ _ Hp)).
  assert (HP : forall X, In X (productive_set g) -> has_tree X).
  { unfold productive_set. apply prod_iter_trees. intros X []. }
  destruct (prod_ready_trees _ pr HP Hprod) as [cs [Hv Hm]].
  exists (skipn i cs). split.
  - apply Forall_forall. intros x Hx. rewrite Forall_forall in Hv. apply Hv.
    clear - Hx. revert cs Hx. induction i as [|i IH]; intros [|c cs] Hx; simpl in *; auto; try contradiction.
  - rewrite <- Hm. clear. revert cs. induction i as [|i IH]; intros [|c cs]; simpl; auto.
Qed.

(* ---------- extension of a stack to a sentence ---------- *)
Definition Ext (ts : list tree) (p i : nat) : Prop :=
  forall cs, Forall (valid_tree g) cs -> map (root g) cs = skipn i (rhs g p) ->
  exists v, sentence g (yields ts ++ flat_map yield cs ++ v).

Lemma item_at s st p i :
  get_state T s = Some st -> has_itemb st p i = true ->
  exists idx it, nth_error (s_items st) idx = Some it /\ i_prod it = p /\ i_pos it = i.
Proof.
  intros Hs Hb. apply has_itemb_spec in Hb. destruct Hb as [it [Hin [Hp Hi]]].
  apply In_nth_error in Hin. destruct Hin as [idx Hidx]. eauto.
Qed.

(* closure items: justified by an earlier item, or the start item of a start state *)
Lemma justified s st idx it :
  get_state T s = Some st -> nth_error (s_items st) idx = Some it -> i_pos it = 0 ->
  (is_aug_prod g (i_prod it) = true /\ is_start_state T s = true) \/
  exists idx' it', idx' < idx /\ nth_error (s_items st) idx' = Some it' /\
                   nth_error (rhs g (i_prod it')) (i_pos it') = Some (lhs g (i_prod it)).
Proof.
  intros Hs Hn Hi. destruct productive_parts as [_ Hj]. specialize (Hj s st Hs).
  unfold justified_b in Hj. apply andb_true_iff in Hj. destruct Hj as [_ Hj].
  rewrite forallb_forall in Hj. specialize (Hj (idx, it)). cbv beta iota zeta in Hj.
  rewrite Hi in Hj. cbn [Nat.eqb] in Hj. specialize (Hj (proj2 (In_indexed _ _ _) Hn)).
  apply orb_true_iff in Hj. destruct Hj as [Hj|Hj].
  - left. apply andb_true_iff in Hj. exact Hj.
  - right. apply existsb_exists in Hj. destruct Hj as [it' [Hin Hx]].
    apply In_nth_error in Hin. destruct Hin as [idx' Hidx'].
    assert (Hlt : idx' < idx).
    { assert (Hl : idx' < length (firstn idx (s_items st))) by (apply nth_error_Some; congruence).
      rewrite firstn_length in Hl. lia. }
    exists idx', it'. split; [exact Hlt|]. split.
    + rewrite <- Hidx'. symmetry. apply nth_error_firstn_lt. exact Hlt.
    + destruct (nth_error (rhs g (i_prod it')) (i_pos it')) as [X|]; [|discriminate].
      apply Nat.eqb_eq in Hx. congruence.
Qed.

Lemma node_valid q cs :
  (exists pr, get_prod g q = Some pr) -> Forall (valid_tree g) cs -> map (root g) cs = skipn 0 (rhs g q) ->
  valid_tree g (Node q cs).
Proof.
  intros [pr Hq] Hv Hm. econstructor; [exact Hq| |exact Hv].
  unfold rhs in Hm. rewrite Hq in Hm. exact Hm.
Qed.

(* the closure step: an item (q,0) justified by (p,j) inherits extendability *)
Lemma ext_closure ts p j q :
  (exists pr, get_prod g p = Some pr) -> (exists pr, get_prod g q = Some pr) ->
  nth_error (rhs g p) j = Some (lhs g q) -> Ext ts p j -> Ext ts q 0.
Proof.
  intros [pp Hp] Hq Hnth Hext cs Hv Hm.
  destruct (fillers p pp (S j) Hp) as [fs [Hfv Hfm]].
  assert (Hrhs : rhs g p = p_rhs pp) by (unfold rhs; rewrite Hp; reflexivity).
  specialize (Hext (Node q cs :: fs)).
  destruct Hext as [v Hsent].
  - constructor; [apply node_valid; assumption|exact Hfv].
  - simpl. rewrite Hfm, <- Hrhs.
    (* skipn j l = nth j :: skipn (S j) l *)
    clear - Hnth. revert j Hnth. induction (rhs g p) as [|x l IH]; intros [|j] H; simpl in *; try discriminate.
    + inversion H. reflexivity.
    + apply IH. exact H.
  - exists (flat_map yield fs ++ v). simpl in Hsent. rewrite <- !app_assoc in Hsent. exact Hsent.
Qed.

Lemma ext_all : forall stk ts, linked g T 0 stk ts ->
  forall s st, hd_error stk = Some s -> get_state T s = Some st ->
  forall idx it, nth_error (s_items st) idx = Some it -> Ext ts (i_prod it) (i_pos it).
Proof.
  induction 1 as [|s1 s2 stk1 t1 ts1 Htr Hv Hl IH]; intros s st Hhd Hs idx.
  - (* bottom: state 0, empty tree stack *)
    simpl in Hhd. inversion Hhd; subst s.
    induction idx as [idx IHidx] using lt_wf_ind. intros it Hn.
    assert (Hpos : i_pos it = 0).
    { eapply (start_items g T Hsound 0 (i_prod it)); [reflexivity|].
      exists st. split; [exact Hs|]. unfold has_itemb, find_item.
      destruct (find _ (s_items st)) eqn:E; [reflexivity|].
      exfalso. eapply find_none in E; [|eapply nth_error_In; exact Hn]. simpl in E.
      rewrite !Nat.eqb_refl in E. discriminate. }
    assert (Hwfi : exists pr, get_prod g (i_prod it) = Some pr).
    { destruct (item_wf g T Hsound 0 (i_prod it) (i_pos it)) as [pr [Hpr _]]; [|eauto].
      exists st. split; [exact Hs|]. unfold has_itemb, find_item.
      destruct (find _ (s_items st)) eqn:E; [reflexivity|].
      exfalso. eapply find_none in E; [|eapply nth_error_In; exact Hn]. simpl in E.
      rewrite !Nat.eqb_refl in E. discriminate. }
    rewrite Hpos. destruct (justified 0 st idx it Hs Hn Hpos) as [[Haug _]|[idx' [it' [Hlt [Hn' Hx]]]]].
    + (* the start item AUG -> . S *)
      unfold is_aug_prod in Haug. apply orb_true_iff in Haug. destruct Haug as [Haug|Haug].
      * apply Nat.eqb_eq in Haug. rewrite Haug. intros cs Hcv Hcm.
        destruct (wf_prod0 g Hwf) as [p0 [Hp0 [_ Hr0]]]. unfold rhs in Hcm. rewrite Hp0, Hr0 in Hcm. simpl in Hcm.
        destruct cs as [|c [|c2 cs]]; try discriminate. simpl in Hcm. inversion Hcm as [Hroot].
        exists []. exists c. inversion Hcv; subst. repeat split; try assumption.
        unfold yields. simpl. rewrite !app_nil_r. reflexivity.
      * (* (AUGL,0) lives only in the layout state, which is not state 0 *)
        destruct (g_layout g) as [l|] eqn:Hlay; [|discriminate]. apply Nat.eqb_eq in Haug.
        exfalso. assert (Hit : has_item T 0 1 0).
        { exists st. split; [exact Hs|]. unfold has_itemb, find_item.
          destruct (find _ (s_items st)) eqn:E; [reflexivity|].
          exfalso. eapply find_none in E; [|eapply nth_error_In; exact Hn]. simpl in E.
          rewrite Haug, Hpos in E. simpl in E. discriminate. }
        pose proof (augl_item_state g T Hsound 0 l Hlay Hit) as Hls.
        eapply (wf_layout_state_ne0 g T Hsound); [exact Hls|reflexivity].
    + eapply ext_closure; [| exact Hwfi | exact Hx | apply (IHidx idx' Hlt it' Hn')].
      destruct (item_wf g T Hsound 0 (i_prod it') (i_pos it')) as [pr [Hpr _]]; [|eauto].
      exists st. split; [exact Hs|]. unfold has_itemb, find_item.
      destruct (find _ (s_items st)) eqn:E; [reflexivity|].
      exfalso. eapply find_none in E; [|eapply nth_error_In; exact Hn']. simpl in E.
      rewrite !Nat.eqb_refl in E. discriminate.
  - (* a state entered by a transition *)
    simpl in Hhd. inversion Hhd; subst s.
    destruct (trans_ok g T Hsound _ _ _ Htr) as [Hnstart Hpred].
    induction idx as [idx IHidx] using lt_wf_ind. intros it Hn.
    assert (Hhas : has_item T s1 (i_prod it) (i_pos it)).
    { exists st. split; [exact Hs|]. unfold has_itemb, find_item.
      destruct (find _ (s_items st)) eqn:E; [reflexivity|].
      exfalso. eapply find_none in E; [|eapply nth_error_In; exact Hn]. simpl in E.
      rewrite !Nat.eqb_refl in E. discriminate. }
    destruct (item_wf g T Hsound _ _ _ Hhas) as [pr [Hpr _]].
    destruct (i_pos it) as [|i'] eqn:Hpos.
    + destruct (justified s1 st idx it Hs Hn Hpos) as [[_ Hst]|[idx' [it' [Hlt [Hn' Hx]]]]]; [congruence|].
      eapply ext_closure; [| eauto | exact Hx | apply (IHidx idx' Hlt it' Hn')].
      destruct (item_wf g T Hsound s1 (i_prod it') (i_pos it')) as [pr' [Hpr' _]]; [|eauto].
      exists st. split; [exact Hs|]. unfold has_itemb, find_item.
      destruct (find _ (s_items st)) eqn:E; [reflexivity|].
      exfalso. eapply find_none in E; [|eapply nth_error_In; exact Hn']. simpl in E.
      rewrite !Nat.eqb_refl in E. discriminate.
    + destruct (Hpred (i_prod it) i' Hhas) as [[st2 [Hs2 Hb2]] Hnth].
      destruct (item_at s2 st2 _ _ Hs2 Hb2) as [idx2 [it2 [Hn2 [Hp2 Hi2]]]].
      pose proof (IH s2 st2 eq_refl Hs2 idx2 it2 Hn2) as Hext2. rewrite Hp2, Hi2 in Hext2.
      intros cs Hcv Hcm. specialize (Hext2 (t1 :: cs)). destruct Hext2 as [v Hsent].
      * constructor; assumption.
      * simpl. rewrite Hcm. clear - Hnth. revert i' Hnth.
        induction (rhs g (i_prod it)) as [|x l IHl]; intros [|i'] H; simpl in *; try discriminate.
        -- inversion H. reflexivity.
        -- apply IHl. exact H.
      * exists v. rewrite yields_cons. simpl in Hsent. rewrite <- !app_assoc in *. exact Hsent.
Qed.

(* ---------- run prefixes ---------- *)
Inductive nreach (partial : bool) : conf -> conf -> Prop :=
| nreach_refl c : nreach partial c c
| nreach_step c s stk a real act c' c'' :
    c_stk c = s :: stk -> next_tok T partial s (c_inp c) = Tok a real ->
    In act (cell T s a) -> act_step g T c a real act = Next c' ->
    nreach partial c' c'' -> nreach partial c c''.

Lemma nreach_inv partial w c c' : Inv g T w c -> nreach partial c c' -> Inv g T w c'.
Proof.
  intros Hinv H. induction H as [c|c s stk a real act c' c'' Hstk Htok Hin Hstep _ IH]; [exact Hinv|].
  apply IH. eapply act_step_inv; eassumption.
Qed.

Theorem nlr_prefix_viable_main partial w c :
  nreach partial (init 0 w) c -> exists v, sentence g (firstn (c_pos c) w ++ v).
Proof.
  intros Hreach. destruct (nreach_inv partial w _ _ (init_inv g T w) Hreach) as [Hl Hy Hp].
  assert (Hpre : yields (c_trs c) = firstn (c_pos c) w).
  { rewrite Hp, <- Hy. rewrite firstn_app, firstn_all, Nat.sub_diag. simpl. rewrite app_nil_r. reflexivity. }
  destruct (c_stk c) as [|s stk] eqn:Hstk.
  { destruct (linked_last g T _ _ _ Hl) as [_ Hne]. congruence. }
  assert (Hst : exists st, get_state T s = Some st).
  { inversion Hl as [|s1 s2 stk1 t1 ts1 Htr Hv Hl']; subst.
    - pose proof (shape_ok g T Hsound) as H. unfold shape_b in H. apply andb_true_iff in H. destruct H as [H _].
      apply andb_true_iff in H. destruct H as [H _]. apply Nat.ltb_lt in H.
      unfold get_state. destruct (nth_error (t_states T) 0) eqn:E; [eauto|]. apply nth_error_None in E. lia.
    - destruct Htr as [st0 [Hs0 Hin]]. pose proof (shape_state g T Hsound _ st0 Hs0) as H. unfold shape_state_b in H.
      repeat (apply andb_true_iff in H; let H' := fresh "Hh" in destruct H as [H H']).
      rewrite forallb_forall in Hh1. specialize (Hh1 _ Hin). simpl in Hh1. apply Nat.ltb_lt in Hh1.
      unfold get_state. destruct (nth_error (t_states T) s) eqn:E; [eauto|]. apply nth_error_None in E. lia. }
  destruct Hst as [st Hs].
  destruct productive_parts as [_ Hj]. specialize (Hj s st Hs). unfold justified_b in Hj.
  apply andb_true_iff in Hj. destruct Hj as [Hne _].
  destruct (s_items st) as [|it its] eqn:Hits; [discriminate|].
  assert (Hn : nth_error (s_items st) 0 = Some it) by (rewrite Hits; reflexivity).
  pose proof (ext_all _ _ Hl s st eq_refl Hs 0 it Hn) as Hext.
  assert (Hhas : has_item T s (i_prod it) (i_pos it)).
  { exists st. split; [exact Hs|]. unfold has_itemb, find_item.
    destruct (find _ (s_items st)) eqn:E; [reflexivity|].
    exfalso. eapply find_none in E; [|eapply nth_error_In; exact Hn]. simpl in E.
    rewrite !Nat.eqb_refl in E. discriminate. }
  destruct (item_wf g T Hsound _ _ _ Hhas) as [pr [Hpr _]].
  destruct (fillers (i_prod it) pr (i_pos it) Hpr) as [cs [Hcv Hcm]].
  destruct (Hext cs Hcv) as [v Hsent].
  - unfold rhs. rewrite Hpr. exact Hcm.
  - exists (flat_map yield cs ++ v). rewrite <- Hpre. exact Hsent.
Qed.

End ViableRN.

(* ---------- every viable prefix is consumed by some run ---------- *)
Section Reached.
Variable g : grammar.
Variable T : table.
Hypothesis Hwf : wf_grammar_b g = true.
Hypothesis Hcomplete : complete_rn_b g T = true.

(* two configurations that differ only in the input beyond token index k *)
Definition sim (k : nat) (c c' : conf) : Prop :=
  c_stk c = c_stk c' /\ c_trs c = c_trs c' /\ c_pos c = c_pos c' /\
  exists x r r', c_inp c = x ++ r /\ c_inp c' = x ++ r' /\ c_pos c + length x = k.

Lemma next_tok_head s a x r r' :
  next_tok T false s ((a :: x) ++ r) = next_tok T false s ((a :: x) ++ r').
Proof. reflexivity. Qed.

Lemma next_tok_real s a l b real :
  next_tok T false s (a :: l) = Tok b real -> b = a /\ real = true.
Proof.
  unfold next_tok. destruct (memb a (expected T s)); [|simpl; discriminate].
  intros H; inversion H; auto.
Qed.

Lemma act_step_sim k c c' s stk a act c2 :
  sim k c c' -> c_pos c < k -> c_stk c = s :: stk ->
  next_tok T false s (c_inp c) = Tok a true ->
  act_step g T c a true act = Next c2 ->
  next_tok T false s (c_inp c') = Tok a true /\
  exists c2', act_step g T c' a true act = Next c2' /\ sim k c2 c2'.
Proof.
  intros [Hs [Ht [Hp [x [r [r' [Hi [Hi' Hk]]]]]]]] Hlt Hstk Htok Hstep.
  destruct x as [|b x]; [simpl in Hk; lia|].
  split; [rewrite Hi', <- (next_tok_head s b x r r'), <- Hi; exact Htok|].
  destruct act as [s'|p len|]; simpl in Hstep.
  - inversion Hstep; subst c2; clear Hstep.
    eexists. split; [reflexivity|]. unfold sim. cbn [c_stk c_trs c_inp c_pos].
    rewrite Hs, Ht, Hp. repeat split.
    exists x, r, r'. rewrite Hi, Hi'. simpl. repeat split. simpl in Hk. lia.
  - unfold act_step. rewrite <- Hs, <- Ht.
    destruct (length (c_stk c) <=? len); [discriminate|].
    destruct (skipn len (c_stk c)) as [|from stk']; [discriminate|].
    destruct (goto T from (lhs g p - g_nterm g)) as [s'|]; [|discriminate].
    destruct (length (c_trs c) <? len); [discriminate|].
    destruct (eps_trees g (skipn len (rhs g p))) as [ts|]; [|discriminate].
    inversion Hstep; subst c2; clear Hstep.
    eexists. split; [reflexivity|]. unfold sim. cbn [c_stk c_trs c_inp c_pos].
    repeat split; try assumption.
    exists (b :: x), r, r'. repeat split; assumption.
  - destruct (c_trs c); discriminate.
Qed.

Lemma pass_k k : forall c cf, nreach g T false c cf ->
  forall c', sim k c c' -> c_pos c <= k -> k <= c_pos cf ->
  exists cm', nreach g T false c' cm' /\ c_pos cm' = k.
Proof.
  induction 1 as [c|c s stk a real act c2 cf Hstk Htok Hin Hstep Hreach IH]; intros c' Hsim Hle Hge.
  - exists c'. split; [constructor|]. destruct Hsim as [_ [_ [Hp _]]]. lia.
  - destruct (Nat.eq_dec (c_pos c) k) as [Heq|Hne].
    + exists c'. split; [constructor|]. destruct Hsim as [_ [_ [Hp _]]]. lia.
    + assert (Hlt : c_pos c < k) by lia.
      assert (Hreal : real = true).
      { destruct Hsim as [_ [_ [_ [x [r [r' [Hi [_ Hk]]]]]]]]. destruct x as [|b x].
        { simpl in Hk. lia. }
        rewrite Hi in Htok. change ((b :: x) ++ r) with (b :: (x ++ r)) in Htok.
        destruct (next_tok_real _ _ _ _ _ Htok) as [_ Hr]. exact Hr. }
      subst real.
      destruct (act_step_sim k c c' s stk a act c2 Hsim Hlt Hstk Htok Hstep) as [Htok' [c2' [Hstep' Hsim']]].
      assert (Hle2 : c_pos c2 <= k).
      { destruct act as [s'|p len|]; simpl in Hstep.
        - inversion Hstep; subst c2. simpl. lia.
        - destruct (length (c_stk c) <=? len); [discriminate|].
          destruct (skipn len (c_stk c)); [discriminate|].
          destruct (goto T n (lhs g p - g_nterm g)); [|discriminate].
          destruct (length (c_trs c) <? len); [discriminate|].
          destruct (eps_trees g (skipn len (rhs g p))); [|discriminate].
          inversion Hstep; subst c2. simpl. lia.
        - destruct (c_trs c); discriminate. }
      destruct (IH c2' Hsim' Hle2 Hge) as [cm' [Hr Hp]].
      exists cm'. split; [|exact Hp].
      destruct Hsim as [Hs _]. eapply nreach_step; [rewrite <- Hs; exact Hstk|exact Htok'|exact Hin|exact Hstep'|exact Hr].
Qed.

Lemma nrun_reach c t k : nrun g T false c t k -> exists cf, nreach g T false c cf /\ c_pos cf = k.
Proof.
  induction 1 as [c s stk a real act c' t k Hstk Htok Hin Hstep _ [cf [Hr Hp]]
                 |c s stk a real act t k Hstk Htok Hin Hstep].
  - exists cf. split; [eapply nreach_step; eassumption|exact Hp].
  - exists c. split; [constructor|].
    destruct act as [s'|p len|]; simpl in Hstep.
    + discriminate.
    + destruct (length (c_stk c) <=? len); [discriminate|].
      destruct (skipn len (c_stk c)); [discriminate|].
      destruct (goto T n (lhs g p - g_nterm g)); [|discriminate].
      destruct (length (c_trs c) <? len); [discriminate|].
      destruct (eps_trees g (skipn len (rhs g p))); discriminate.
    + destruct (c_trs c); [discriminate|]. inversion Hstep. reflexivity.
Qed.

Theorem nlr_viable_reached_main w k v :
  k <= length w -> sentence g (firstn k w ++ v) ->
  exists c, nreach g T false (init 0 w) c /\ c_pos c = k.
Proof.
  intros Hk [t [Hv [Hr Hy]]].
  pose proof (nlr_complete_top g T t Hwf Hcomplete Hv Hr) as Hrun. rewrite Hy in Hrun.
  destruct (nrun_reach _ _ _ Hrun) as [cf [Hreach Hp]].
  apply (pass_k k _ _ Hreach (init 0 w)).
  - unfold sim, init. cbn [c_stk c_trs c_inp c_pos]. repeat split.
    exists (firstn k w), v, (skipn k w). repeat split.
    + symmetry. apply firstn_skipn.
    + rewrite firstn_length. lia.
  - simpl. lia.
  - rewrite Hp, app_length, firstn_length. lia.
Qed.

End Reached.

Lemma nlr_prefix_viable_top : forall g T partial w c,
  wf_grammar_b g = true -> sound_rn_b g T = true -> viable_b g T = true ->
  nreach g T partial (init 0 w) c -> exists v, sentence g (firstn (c_pos c) w ++ v).
Proof. intros g T partial w c Hwf Hs Hv. exact (nlr_prefix_viable_main g T Hwf Hs Hv partial w c). Qed.

Lemma nlr_viable_reached_top : forall g T w k v,
  wf_grammar_b g = true -> complete_rn_b g T = true ->
  k <= length w -> sentence g (firstn k w ++ v) ->
  exists c, nreach g T false (init 0 w) c /\ c_pos c = k.
Proof. intros g T w k v Hwf Hc. exact (nlr_viable_reached_main g T Hwf Hc w k v). Qed.

Lemma nlr_reach_le : forall g T partial w c,
  wf_grammar_b g = true -> sound_rn_b g T = true ->
  nreach g T partial (init 0 w) c -> c_pos c <= length w.
Proof.
  intros g T partial w c Hwf Hs Hr.
  destruct (nreach_inv g T Hs partial w _ _ (init_inv g T w) Hr) as [_ Hy Hp].
  rewrite Hp, <- Hy, app_length. lia.
Qed.

(* the token counts the machine can reach = the lengths of the viable prefixes of the input *)
Lemma nlr_positions_exact : forall g T w k,
  wf_grammar_b g = true -> sound_rn_b g T = true -> complete_rn_b g T = true -> viable_b g T = true ->
  ((exists c, nreach g T false (init 0 w) c /\ c_pos c = k) <->
   (k <= length w /\ exists v, sentence g (firstn k w ++ v))).
Proof.
  intros g T w k Hwf Hs Hc Hv. split.
  - intros [c [Hr Hk]]. subst k. split.
    + eapply nlr_reach_le; eassumption.
    + eapply nlr_prefix_viable_top; eassumption.
  - intros [Hk [v Hsent]]. eapply nlr_viable_reached_top; eassumption.
Qed.
