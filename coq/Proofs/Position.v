(* Line/column bookkeeping is exact (C13, last sentence): str::position_after
   applied to consecutive slices of the input keeps
     line = 1 + number of newlines before the offset
     column = number of bytes since the last newline (or the start). *)
From RV Require Import Model.LR Model.LRBytes Model.CompareBytes Spec.SpanCheck.

Definition has_nl (l : list nat) : bool := existsb (fun x => x =? NL) l.

Lemma count_nl_app a b : count_nl (a ++ b) = count_nl a + count_nl b.
Proof. unfold count_nl. rewrite filter_app, app_length. reflexivity. Qed.

Lemma tail_len_no_nl b : has_nl b = false -> tail_len b = length b.
Proof.
  induction b as [|c b IH]; [reflexivity|]. intros H. cbn [has_nl existsb] in H.
  apply orb_false_iff in H. destruct H as [Hc Hb]. cbn [tail_len].
  rewrite Hb, Hc. reflexivity.
Qed.

Lemma has_nl_app a b : has_nl (a ++ b) = has_nl a || has_nl b.
Proof. unfold has_nl. apply existsb_app. Qed.

Lemma tail_len_app a b :
  tail_len (a ++ b) = if has_nl b then tail_len b else tail_len a + length b.
Proof.
  induction a as [|c a IH].
  - simpl. destruct (has_nl b) eqn:E; [reflexivity|]. apply tail_len_no_nl. exact E.
  - cbn [app tail_len].
    change (existsb (fun x => x =? NL) (a ++ b)) with (has_nl (a ++ b)).
    change (existsb (fun x => x =? NL) a) with (has_nl a).
    rewrite has_nl_app, IH.
    destruct (has_nl b) eqn:Eb.
    + rewrite orb_true_r. reflexivity.
    + rewrite orb_false_r. destruct (has_nl a) eqn:Ea; [reflexivity|].
      rewrite app_length. destruct (c =? NL); lia.
Qed.

Lemma last_nl_tail_spec l : forall acc,
  last_nl_tail l acc = if has_nl l then Some (tail_len l) else acc.
Proof.
  induction l as [|c l IH]; intros acc; [reflexivity|].
  cbn [last_nl_tail has_nl existsb tail_len].
  change (existsb (fun x => x =? NL) l) with (has_nl l). rewrite IH.
  destruct (has_nl l) eqn:E.
  - rewrite orb_true_r. reflexivity.
  - rewrite orb_false_r. destruct (c =? NL); reflexivity.
Qed.

Lemma firstn_add_sub (inp : list nat) off n :
  off + n <= length inp -> firstn (off + n) inp = firstn off inp ++ sub inp (off, n).
Proof.
  intros H. unfold sub. simpl. rewrite <- (firstn_skipn off inp) at 1.
  rewrite firstn_app, firstn_length, Nat.min_l by lia.
  rewrite (firstn_all2 (firstn off inp)) by (rewrite firstn_length; lia).
  replace (off + n - off) with n by lia. reflexivity.
Qed.

Lemma sub_length (inp : list nat) off n : off + n <= length inp -> length (sub inp (off, n)) = n.
Proof. intros H. unfold sub. simpl. rewrite firstn_length, skipn_length. lia. Qed.

Theorem position_after_ok_main inp p n :
  pos_ok_b inp p = true -> p_off p + n <= length inp ->
  pos_ok_b inp (position_after (sub inp (p_off p, n)) p) = true.
Proof.
  intros Hp Hn. unfold pos_ok_b in *.
  apply andb_true_iff in Hp. destruct Hp as [Hp Hc]. apply andb_true_iff in Hp. destruct Hp as [Ho Hl].
  apply Nat.eqb_eq in Hl, Hc. unfold position_after. cbn [p_off p_line p_col].
  rewrite (sub_length inp _ _ Hn). rewrite (firstn_add_sub inp _ _ Hn).
  rewrite count_nl_app, tail_len_app, last_nl_tail_spec. fold (count_nl (sub inp (p_off p, n))).
  rewrite (sub_length inp _ _ Hn).
  apply andb_true_iff. split; [apply andb_true_iff; split|].
  - apply Nat.leb_le. lia.
  - apply Nat.eqb_eq. lia.
  - apply Nat.eqb_eq. destruct (has_nl (sub inp (p_off p, n))); lia.
Qed.

Lemma start_pos_ok inp : pos_ok_b inp start_pos = true.
Proof. unfold pos_ok_b, start_pos. simpl. destruct inp; reflexivity. Qed.

(* any chain of consecutive slices starting at the beginning *)
Fixpoint advance (inp : list nat) (p : pos) (lens : list nat) : pos :=
  match lens with
  | [] => p
  | n :: r => advance inp (position_after (sub inp (p_off p, n)) p) r
  end.

Theorem positions_chain_ok_main inp : forall lens p,
  pos_ok_b inp p = true -> p_off p + list_sum lens <= length inp ->
  pos_ok_b inp (advance inp p lens) = true.
Proof.
  induction lens as [|n r IH]; intros p Hp Hn; simpl in *; [exact Hp|].
  apply IH.
  - apply position_after_ok_main; [exact Hp|lia].
  - unfold position_after. cbn [p_off]. rewrite sub_length by lia. lia.
Qed.

(* meaning of the ordering checker *)
Lemma mono_b_spec l : forall prev,
  mono_b prev l = true ->
  forall i lo hi, nth_error l i = Some (lo, hi) -> prev <= lo /\ lo <= hi.
Proof.
  induction l as [|[lo0 hi0] r IH]; intros prev H i lo hi Hn; [destruct i; discriminate|].
  simpl in H. apply andb_true_iff in H. destruct H as [H Hr]. apply andb_true_iff in H. destruct H as [H1 H2].
  apply Nat.leb_le in H1, H2. destruct i.
  - simpl in Hn. inversion Hn; subst. lia.
  - simpl in Hn. destruct (IH hi0 Hr i lo hi Hn). lia.
Qed.

Lemma mono_b_adjacent l : forall prev,
  mono_b prev l = true ->
  forall i lo1 hi1 lo2 hi2, nth_error l i = Some (lo1, hi1) -> nth_error l (S i) = Some (lo2, hi2) -> hi1 <= lo2.
Proof.
  induction l as [|[lo0 hi0] r IH]; intros prev H i lo1 hi1 lo2 hi2 H1 H2; [destruct i; discriminate|].
  simpl in H. apply andb_true_iff in H. destruct H as [_ Hr]. destruct i.
  - simpl in H1, H2. inversion H1; subst. destruct r as [|[a b] r']; [discriminate|].
    simpl in H2. inversion H2; subst. simpl in Hr. apply andb_true_iff in Hr. destruct Hr as [Hr _].
    apply andb_true_iff in Hr. destruct Hr as [Hr _]. apply Nat.leb_le in Hr. exact Hr.
  - simpl in H1, H2. eapply IH; eassumption.
Qed.
