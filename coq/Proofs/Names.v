(* Choice-name de-duplication (Model/Names.v): when no duplicated name is a proper prefix of
   another name of the rule, the result is duplicate-free whatever the HashMap iteration order. *)
From RV Require Import Model.Names.
From Coq Require Import Permutation.

(* ------------------------------------------------------------------ strings *)
Lemma append_nil_r (a : string) : (a ++ "")%string = a.
Proof. induction a as [|x a IH]; simpl; [reflexivity|rewrite IH; reflexivity]. Qed.

Lemma append_inj_l (a x y : string) : (a ++ x)%string = (a ++ y)%string -> x = y.
Proof. induction a as [|c a IH]; simpl; intros H; [exact H|]. inversion H. apply IH. assumption. Qed.

Lemma append_assoc (a b c : string) : ((a ++ b) ++ c)%string = (a ++ (b ++ c))%string.
Proof. induction a as [|x a IH]; simpl; [reflexivity|rewrite IH; reflexivity]. Qed.

Lemma is_prefix_append (a s : string) : is_prefix a (a ++ s) = true.
Proof. induction a as [|x a IH]; simpl; [reflexivity|]. rewrite Ascii.eqb_refl, IH. reflexivity. Qed.

Lemma append_self_nil (a s : string) : (a ++ s)%string = a -> s = ""%string.
Proof.
  intros H. rewrite <- (append_nil_r a) in H at 2. apply append_inj_l in H. exact H.
Qed.

Lemma proper_prefix_append (a s : string) : s <> ""%string -> proper_prefixb a (a ++ s) = true.
Proof.
  intros Hs. unfold proper_prefixb. rewrite is_prefix_append. simpl.
  destruct (String.eqb_spec a (a ++ s)) as [E|E]; [|reflexivity].
  symmetry in E. apply append_self_nil in E. contradiction.
Qed.

(* two decompositions of one string: one head extends the other *)
Lemma append_cases (a b x y : string) :
  (a ++ x)%string = (b ++ y)%string ->
  (exists s, b = (a ++ s)%string /\ x = (s ++ y)%string) \/
  (exists s, a = (b ++ s)%string /\ y = (s ++ x)%string).
Proof.
  revert b; induction a as [|c a IH]; intros b H; simpl in H.
  - left. exists b. split; [reflexivity|exact H].
  - destruct b as [|d b]; simpl in H.
    + right. exists (String c a). split; [reflexivity|]. simpl. symmetry. exact H.
    + inversion H; subst d. destruct (IH b H2) as [[s [Hb Hx]]|[s [Ha Hy]]].
      * left. exists s. split; [simpl; rewrite Hb; reflexivity|exact Hx].
      * right. exists s. split; [simpl; rewrite Ha; reflexivity|exact Hy].
Qed.

(* ------------------------------------------------------------------ decimal suffixes *)
Lemma string_of_uint_inj d1 d2 : NilEmpty.string_of_uint d1 = NilEmpty.string_of_uint d2 -> d1 = d2.
Proof.
  intros H. apply (f_equal NilEmpty.uint_of_string) in H. rewrite !NilEmpty.usu in H. inversion H. reflexivity.
Qed.

Lemma dec_inj a b : dec a = dec b -> a = b.
Proof. unfold dec. intros H. apply string_of_uint_inj in H. apply Unsigned.to_uint_inj. exact H. Qed.

Lemma dec_nonempty n : dec n <> ""%string.
Proof.
  unfold dec. intros H.
  assert (Hd : Nat.to_uint n = Nil).
  { destruct (Nat.to_uint n); simpl in H; try discriminate. reflexivity. }
  pose proof (Unsigned.of_to n) as Ho. rewrite Hd in Ho. simpl in Ho. subst n. vm_compute in Hd. discriminate.
Qed.

(* ------------------------------------------------------------------ counting *)
Lemma mem_str_In x l : mem_str x l = true <-> In x l.
Proof.
  unfold mem_str. rewrite existsb_exists. split.
  - intros [y [Hy He]]. apply String.eqb_eq in He. subst. exact Hy.
  - intros H. exists x. split; [exact H|apply String.eqb_refl].
Qed.

Lemma mem_str_false x l : mem_str x l = false <-> ~ In x l.
Proof. rewrite <- mem_str_In. destruct (mem_str x l); split; intros H; try congruence; try discriminate. Qed.

Lemma nodup_b_spec l : nodup_b l = true <-> NoDup l.
Proof.
  induction l as [|x l IH]; simpl.
  - split; [constructor|reflexivity].
  - rewrite andb_true_iff, negb_true_iff, mem_str_false, IH. split.
    + intros [H1 H2]. constructor; assumption.
    + intros H. inversion H; subst. split; assumption.
Qed.

Lemma count_name_cons n c l :
  count_name n (c :: l) = (if String.eqb n c then 1 else 0) + count_name n l.
Proof. unfold count_name. simpl. destruct (String.eqb n c); reflexivity. Qed.

Lemma count_name_app n l1 l2 : count_name n (l1 ++ l2) = count_name n l1 + count_name n l2.
Proof. unfold count_name. rewrite filter_app, app_length. reflexivity. Qed.

Lemma count_name_pos n l : In n l -> 1 <= count_name n l.
Proof.
  induction l as [|c l IH]; intros H; [contradiction|]. rewrite count_name_cons.
  destruct H as [->|H]; [rewrite String.eqb_refl; lia|]. specialize (IH H). lia.
Qed.

Lemma count_name_zero n l : ~ In n l -> count_name n l = 0.
Proof.
  induction l as [|c l IH]; intros H; [reflexivity|]. rewrite count_name_cons.
  destruct (String.eqb_spec n c) as [->|Hne]; [exfalso; apply H; left; reflexivity|].
  rewrite IH; [reflexivity|]. intros Hin. apply H. right. exact Hin.
Qed.

(* ------------------------------------------------------------------ one renaming pass *)
Definition no_prefix_of (D : list string) (n : string) : Prop :=
  forall m, In m D -> proper_prefixb m n = false.

Lemma rename_ranked D n : ~ In n D -> no_prefix_of D n ->
  forall cs seen, rename_from n (count_name n seen) (ranked D seen cs) = ranked (D ++ [n]) seen cs.
Proof.
  intros HnD Hnp. induction cs as [|c cs IH]; intros seen; [reflexivity|].
  cbn [ranked rename_from].
  assert (Hmem : mem_str c (D ++ [n]) = mem_str c D || String.eqb c n).
  { unfold mem_str. rewrite existsb_app. simpl. rewrite orb_false_r. reflexivity. }
  destruct (mem_str c D) eqn:EcD.
  - (* c is renamed already: its new name is not n, c is not n *)
    apply mem_str_In in EcD.
    assert (Hcn : c <> n) by (intros ->; contradiction).
    assert (Hne : String.eqb (c ++ dec (S (count_name c seen))) n = false).
    { apply String.eqb_neq. intros Heq. specialize (Hnp c EcD).
      rewrite <- Heq in Hnp. rewrite proper_prefix_append in Hnp; [discriminate|apply dec_nonempty]. }
    rewrite Hne. rewrite Hmem. simpl.
    f_equal. rewrite <- IH. f_equal. rewrite count_name_cons.
    destruct (String.eqb_spec n c) as [->|_]; [contradiction|reflexivity].
  - rewrite Hmem. simpl. destruct (String.eqb_spec c n) as [->|Hcn].
    + f_equal. rewrite <- IH. f_equal. rewrite count_name_cons, String.eqb_refl. reflexivity.
    + f_equal. rewrite <- IH. f_equal. rewrite count_name_cons.
      destruct (String.eqb_spec n c) as [->|_]; [contradiction|reflexivity].
Qed.

Lemma ranked_nil cs : forall seen, ranked [] seen cs = cs.
Proof. induction cs as [|c cs IH]; intros seen; simpl; [reflexivity|rewrite IH; reflexivity]. Qed.

Lemma fold_ranked cs : forall D' D,
  NoDup (D ++ D') ->
  (forall m n, In m (D ++ D') -> In n (D ++ D') -> proper_prefixb m n = false) ->
  fold_left (fun acc n => rename_from n 0 acc) D' (ranked D [] cs) = ranked (D ++ D') [] cs.
Proof.
  induction D' as [|n D' IH]; intros D Hnd Hpp; simpl.
  - rewrite app_nil_r. reflexivity.
  - assert (HnD : ~ In n D).
    { intros Hin. apply NoDup_remove_2 in Hnd. apply Hnd. apply in_or_app. left. exact Hin. }
    assert (Hstep : rename_from n 0 (ranked D [] cs) = ranked (D ++ [n]) [] cs).
    { change 0 with (count_name n []). apply rename_ranked; [exact HnD|].
      intros m Hm. apply Hpp; apply in_or_app; [left; exact Hm|right; left; reflexivity]. }
    rewrite Hstep. rewrite (IH (D ++ [n])).
    + rewrite <- app_assoc. reflexivity.
    + rewrite <- app_assoc. exact Hnd.
    + rewrite <- app_assoc. exact Hpp.
Qed.

(* ------------------------------------------------------------------ the ranked list has no duplicates *)
Lemma ranked_In D y : forall cs seen, In y (ranked D seen cs) ->
  exists c k, In c cs /\
    ((mem_str c D = false /\ y = c) \/
     (mem_str c D = true /\ y = (c ++ dec (S k))%string /\ count_name c seen <= k)).
Proof.
  induction cs as [|c cs IH]; intros seen H; [contradiction|]. cbn [ranked] in H.
  destruct H as [H|H].
  - exists c, (count_name c seen). split; [left; reflexivity|].
    destruct (mem_str c D); [right|left]; split; auto.
  - destruct (IH _ H) as [c' [k [Hin Hc]]]. exists c', k. split; [right; exact Hin|].
    destruct Hc as [Hc|[Hm [Hy Hk]]]; [left; exact Hc|right].
    split; [exact Hm|]. split; [exact Hy|]. rewrite count_name_cons in Hk. lia.
Qed.

Section NoClash.
  Variable all : list string.
  Variable D : list string.
  (* D is exactly the set of duplicated names of the rule *)
  Hypothesis HD : forall c, In c all -> mem_str c D = duplicated all c.
  Hypothesis Hclash : prefix_clash_b all = false.

  Lemma no_clash n c : In n all -> In c all -> duplicated all n = true -> proper_prefixb n c = false.
  Proof.
    intros Hn Hc Hd. destruct (proper_prefixb n c) eqn:E; [|reflexivity].
    assert (Ht : prefix_clash_b all = true).
    { unfold prefix_clash_b. apply existsb_exists. exists n. split; [exact Hn|].
      rewrite Hd. simpl. apply existsb_exists. exists c. split; [exact Hc|exact E]. }
    rewrite Ht in Hclash. discriminate.
  Qed.

  Lemma ranked_NoDup : forall cs seen, all = rev seen ++ cs -> NoDup (ranked D seen cs).
  Proof.
    induction cs as [|c cs IH]; intros seen Hall; [constructor|].
    cbn [ranked]. constructor.
    2:{ apply IH. rewrite Hall. simpl. rewrite <- app_assoc. reflexivity. }
    assert (Hc_all : In c all) by (rewrite Hall; apply in_or_app; right; left; reflexivity).
    assert (Hcs_all : forall x, In x cs -> In x all)
      by (intros x Hx; rewrite Hall; apply in_or_app; right; right; exact Hx).
    assert (Hcount : count_name c all = count_name c seen + 1 + count_name c cs).
    { rewrite Hall, count_name_app, count_name_cons, String.eqb_refl.
      unfold count_name at 1. rewrite <- (rev_involutive seen) at 2.
      assert (Hr : forall l, length (filter (String.eqb c) (rev l)) = length (filter (String.eqb c) l)).
      { induction l as [|z l IHl]; [reflexivity|]. simpl. rewrite filter_app, app_length, IHl. simpl.
        destruct (String.eqb c z); simpl; lia. }
      rewrite Hr, rev_involutive. unfold count_name. lia. }
    intros Hin. apply ranked_In in Hin. destruct Hin as [c' [k [Hc' Hy]]].
    specialize (HD c Hc_all) as HDc.
    pose proof (HD c' (Hcs_all _ Hc')) as HDc'.
    destruct (mem_str c D) eqn:EcD.
    - (* c renamed *)
      symmetry in HDc.
      destruct Hy as [[Hm' Hy]|[Hm' [Hy Hk]]].
      + (* equals an unrenamed later name: c is a proper prefix of it *)
        pose proof (no_clash c c' Hc_all (Hcs_all _ Hc') HDc) as Hpp.
        rewrite <- Hy in Hpp. rewrite proper_prefix_append in Hpp; [discriminate|apply dec_nonempty].
      + rewrite Hm' in HDc'. symmetry in HDc'.
        destruct (String.eqb_spec c c') as [<-|Hne].
        * apply append_inj_l in Hy. apply dec_inj in Hy. rewrite count_name_cons, String.eqb_refl in Hk. lia.
        * apply append_cases in Hy. destruct Hy as [[s [Hb Hx]]|[s [Ha Hx]]].
          -- assert (Hs : s <> ""%string) by (intros ->; rewrite append_nil_r in Hb; congruence).
             pose proof (no_clash c c' Hc_all (Hcs_all _ Hc') HDc) as Hpp.
             rewrite Hb in Hpp. rewrite proper_prefix_append in Hpp; [discriminate|exact Hs].
          -- assert (Hs : s <> ""%string) by (intros ->; rewrite append_nil_r in Ha; congruence).
             pose proof (no_clash c' c (Hcs_all _ Hc') Hc_all HDc') as Hpp.
             rewrite Ha in Hpp. rewrite proper_prefix_append in Hpp; [discriminate|exact Hs].
    - (* c not duplicated: it occurs exactly once *)
      symmetry in HDc. unfold duplicated in HDc. apply Nat.ltb_ge in HDc.
      assert (Hzero : count_name c cs = 0) by lia.
      destruct Hy as [[Hm' Hy]|[Hm' [Hy Hk]]].
      + subst c'. pose proof (count_name_pos c cs Hc'). lia.
      + rewrite Hm' in HDc'. symmetry in HDc'.
        pose proof (no_clash c' c (Hcs_all _ Hc') Hc_all HDc') as Hpp.
        rewrite Hy in Hpp. rewrite proper_prefix_append in Hpp; [discriminate|apply dec_nonempty].
  Qed.
End NoClash.

(* ------------------------------------------------------------------ main statement *)
Lemma filter_NoDup {A} (f : A -> bool) l : NoDup l -> NoDup (filter f l).
Proof.
  induction l as [|x l IH]; simpl; intros H; [constructor|]. inversion H; subst.
  destruct (f x); [constructor|]; auto. intros Hin. apply filter_In in Hin. tauto.
Qed.

Lemma duplicated_In cs n : duplicated cs n = true -> In n cs.
Proof.
  unfold duplicated. intros H. apply Nat.ltb_lt in H.
  destruct (in_dec string_dec n cs) as [Hin|Hnin]; [exact Hin|]. rewrite (count_name_zero _ _ Hnin) in H. lia.
Qed.

Lemma choice_names_unique_known_main order cs :
  NoDup order -> (forall n, In n order <-> In n cs) ->
  prefix_clash_b cs = false -> NoDup (make_unique order cs).
Proof.
  intros Hnd Hset Hclash. unfold make_unique.
  set (D := filter (duplicated cs) order).
  replace (fold_left (fun acc n => rename_from n 0 acc) D cs)
    with (fold_left (fun acc n => rename_from n 0 acc) D (ranked [] [] cs))
    by (rewrite ranked_nil; reflexivity).
  rewrite (fold_ranked cs D []).
  - simpl. apply (ranked_NoDup cs D); [| exact Hclash | reflexivity].
    intros c Hc. destruct (duplicated cs c) eqn:Ed.
    + apply mem_str_In. apply filter_In. split; [apply Hset; exact Hc|exact Ed].
    + apply mem_str_false. intros Hin. apply filter_In in Hin. destruct Hin as [_ Hin]. congruence.
  - simpl. apply filter_NoDup. exact Hnd.
  - simpl. intros m n Hm Hn. apply filter_In in Hm. apply filter_In in Hn.
    destruct Hm as [Hm Hdm]. destruct Hn as [Hn Hdn].
    apply (no_clash cs Hclash m n); [apply Hset; exact Hm|apply Hset; exact Hn|exact Hdm].
Qed.
