(* C14: meaning of the lossless checker, and facts about the model's skip. *)
From RV Require Import Model.LR Model.LRBytes Model.CompareBytes Spec.TreeCheck Spec.SpanCheck.

Lemma lossless_b_meaning inp t :
  lossless_b inp t = true ->
  leaves t = [] \/
  exists lf, last (leaves t) lf = lf /\ In lf (leaves t) /\
             flat_map leaf_text (leaves t) = firstn (p_off (sp_end (snd lf))) inp.
Proof.
  unfold lossless_b. destruct (leaves t) as [|x xs] eqn:E; [left; reflexivity|]. intros H. right.
  apply list_eqb_eq in H.
  exists (last (x :: xs) (None, [], mkSpan start_pos start_pos)). split; [|split].
  - (* last of a non-empty list does not depend on the default *)
    assert (Hl : forall (A : Type) (l : list A) a d d', last (a :: l) d = last (a :: l) d').
    { intros A l. induction l as [|b l IH]; intros a d d'; [reflexivity|]. simpl in *. apply IH. }
    apply Hl.
  - assert (Hin : forall (A : Type) (l : list A) a d, In (last (a :: l) d) (a :: l)).
    { intros A l. induction l as [|b l IH]; intros a d; [left; reflexivity|]. right. apply IH. }
    apply Hin.
  - exact H.
Qed.

(* the model's skip stores exactly the measured whitespace run as layout and
   advances the position by its length; nothing else changes *)
Lemma skip_spec inp mt cx :
  let n := ws_len mt (p_off (cx_pos cx)) in
  (n = 0 -> skip inp mt cx = mkCtx (cx_pos cx) (cx_span cx) None (cx_state cx)) /\
  (0 < n -> cx_layout (skip inp mt cx) = Some (p_off (cx_pos cx), n) /\
            p_off (cx_pos (skip inp mt cx)) = p_off (cx_pos cx) + length (sub inp (p_off (cx_pos cx), n)) /\
            cx_span (skip inp mt cx) = cx_span cx /\ cx_state (skip inp mt cx) = cx_state cx).
Proof.
  intros n. unfold skip. fold n. split; intros Hn.
  - rewrite Hn. reflexivity.
  - destruct (0 <? n) eqn:E; [|apply Nat.ltb_ge in E; lia]. simpl. repeat split; reflexivity.
Qed.
