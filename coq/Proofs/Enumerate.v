(* Correctness of the derivation-tree enumerator (Spec/Enumerate.v). *)
From RV Require Import Spec.Enumerate.

(* ------------------------------------------------------------------ *)
(* splits *)
Lemma splits_sound : forall w w1 w2, In (w1, w2) (splits w) -> w = w1 ++ w2.
Proof.
  induction w as [|a r IH]; intros w1 w2 H; simpl in H.
  - destruct H as [H|[]]. inversion H; reflexivity.
  - destruct H as [H|H].
    + inversion H; reflexivity.
    + apply in_map_iff in H. destruct H as [[p s] [He Hin]]. simpl in He. inversion He; subst.
      simpl. f_equal. apply IH. exact Hin.
Qed.

Lemma splits_complete : forall w1 w2, In (w1, w2) (splits (w1 ++ w2)).
Proof.
  induction w1 as [|a r IH]; intros w2; simpl.
  - destruct w2; simpl; left; reflexivity.
  - right. apply in_map_iff. exists (r, w2). split; [reflexivity|apply IH].
Qed.

(* ------------------------------------------------------------------ *)
(* seq_trees *)
Lemma flat_map_cons_nil {A} (l : list A) :
  flat_map (fun t : A => map (cons t) (@nil (list A))) l = [] .
Proof. induction l; simpl; auto. Qed.

Lemma flat_map_ext_in {A B} (f g : A -> list B) l :
  (forall x, In x l -> f x = g x) -> flat_map f l = flat_map g l.
Proof.
  induction l as [|a l IH]; intros H; simpl; [reflexivity|].
  rewrite (H a (or_introl eq_refl)). f_equal. apply IH. intros x Hx. apply H. right; exact Hx.
Qed.

Lemma seq_trees_cons cheap f x rest w :
  seq_trees cheap f (x :: rest) w =
  flat_map (fun ps => flat_map (fun t => map (cons t) (seq_trees cheap f rest (snd ps))) (f x (fst ps)))
           (splits w).
Proof.
  cbn [seq_trees]. apply flat_map_ext_in. intros ps _.
  destruct (cheap x).
  - destruct (f x (fst ps)) as [|t ts] eqn:Hf; [reflexivity|].
    destruct (seq_trees cheap f rest (snd ps)) eqn:Hs; [|reflexivity].
    symmetry. apply (flat_map_cons_nil (t :: ts)).
  - destruct (seq_trees cheap f rest (snd ps)) eqn:Hs; [|reflexivity].
    symmetry. apply flat_map_cons_nil.
Qed.

Lemma in_seq_trees_cons cheap f x rest w cs :
  In cs (seq_trees cheap f (x :: rest) w) <->
  exists w1 w2 t ts, w = w1 ++ w2 /\ cs = t :: ts /\ In t (f x w1) /\ In ts (seq_trees cheap f rest w2).
Proof.
  rewrite seq_trees_cons, in_flat_map. split.
  - intros [[w1 w2] [Hs H]]. simpl in H. apply in_flat_map in H. destruct H as [t [Ht H]].
    apply in_map_iff in H. destruct H as [ts [He Hts]]. exists w1, w2, t, ts.
    split; [apply splits_sound; exact Hs|]. auto.
  - intros [w1 [w2 [t [ts [Hw [Hc [Ht Hts]]]]]]]. subst. exists (w1, w2). split; [apply splits_complete|].
    simpl. apply in_flat_map. exists t. split; [exact Ht|]. apply in_map. exact Hts.
Qed.

Lemma in_seq_trees_nil cheap f w cs :
  In cs (seq_trees cheap f [] w) <-> w = [] /\ cs = [].
Proof.
  simpl. destruct w; simpl; split.
  - intros [H|[]]. subst. auto.
  - intros [_ H]. left. auto.
  - intros [].
  - intros [H _]. discriminate.
Qed.

Section seq.
  Variable g : grammar.
  Variable cheap : nat -> bool.
  Variable f : nat -> list nat -> list tree.
  Variable h : nat.
  Hypothesis f_sound : forall x w t, In t (f x w) ->
    valid_tree g t /\ root g t = x /\ yield t = w /\ height t <= h.

  Lemma seq_trees_sound : forall xs w cs, In cs (seq_trees cheap f xs w) ->
    Forall (valid_tree g) cs /\ map (root g) cs = xs /\ flat_map yield cs = w /\
    Forall (fun t => height t <= h) cs.
  Proof.
    induction xs as [|x rest IH]; intros w cs H.
    - apply in_seq_trees_nil in H. destruct H; subst. simpl. auto.
    - apply in_seq_trees_cons in H. destruct H as [w1 [w2 [t [ts [Hw [Hc [Ht Hts]]]]]]]. subst.
      apply f_sound in Ht. destruct Ht as [Hv [Hr [Hy Hh]]].
      apply IH in Hts. destruct Hts as [Hvs [Hrs [Hys Hhs]]].
      simpl. repeat split.
      + constructor; assumption.
      + congruence.
      + congruence.
      + constructor; assumption.
  Qed.
End seq.

Lemma seq_trees_complete g cheap f : forall cs,
  Forall (fun c => In c (f (root g c) (yield c))) cs ->
  In cs (seq_trees cheap f (map (root g) cs) (flat_map yield cs)).
Proof.
  induction cs as [|c cs IH]; intros H.
  - simpl. left; reflexivity.
  - inversion H as [|? ? Hc Hcs]; subst. cbn [map flat_map].
    apply in_seq_trees_cons. exists (yield c), (flat_map yield cs), c, cs.
    repeat split; auto.
Qed.

(* ------------------------------------------------------------------ *)
(* leaf_trees / node_trees *)
Lemma in_leaf_trees g X w t :
  In t (leaf_trees g X w) <-> t = Leaf X /\ 0 < X < g_nterm g /\ w = [X].
Proof.
  unfold leaf_trees.
  destruct ((0 <? X) && (X <? g_nterm g) && list_eqb w [X]) eqn:Hc.
  - apply andb_true_iff in Hc. destruct Hc as [Hc Hw]. apply andb_true_iff in Hc.
    destruct Hc as [H0 H1]. apply Nat.ltb_lt in H0. apply Nat.ltb_lt in H1.
    apply list_eqb_eq in Hw. simpl. split.
    + intros [H|[]]. subst. auto.
    + intros [H _]. left. auto.
  - simpl. split; [intros []|]. intros [_ [[H0 H1] Hw]].
    apply Nat.ltb_lt in H0. apply Nat.ltb_lt in H1. apply list_eqb_eq in Hw.
    rewrite H0, H1, Hw in Hc. discriminate.
Qed.

Lemma in_node_trees g f X w t :
  In t (node_trees g f X w) <->
  exists p pr cs, get_prod g p = Some pr /\ p_lhs pr = X /\ t = Node p cs /\
                  In cs (seq_trees (fun x => x <? g_nterm g) f (p_rhs pr) w).
Proof.
  unfold node_trees. rewrite in_flat_map. split.
  - intros [[p pr] [Hin H]]. simpl in H. apply In_indexed in Hin.
    destruct (p_lhs pr =? X) eqn:Hl; [|destruct H]. apply Nat.eqb_eq in Hl.
    apply in_map_iff in H. destruct H as [cs [Ht Hcs]]. exists p, pr, cs. auto.
  - intros [p [pr [cs [Hp [Hl [Ht Hcs]]]]]]. exists (p, pr). split; [apply In_indexed; exact Hp|].
    simpl. apply Nat.eqb_eq in Hl. rewrite Hl. subst t. apply in_map. exact Hcs.
Qed.

Lemma height_node_le p cs h :
  height (Node p cs) <= S h <-> Forall (fun t => height t <= h) cs.
Proof.
  simpl. rewrite <- Nat.succ_le_mono, list_max_le, Forall_map. tauto.
Qed.

(* ------------------------------------------------------------------ *)
(* soundness and completeness *)
Lemma all_trees_sound_h : forall h g X w t, In t (all_trees h g X w) ->
  valid_tree g t /\ root g t = X /\ yield t = w /\ height t <= h.
Proof.
  induction h as [|h IH]; intros g X w t H.
  - simpl in H. apply in_leaf_trees in H. destruct H as [Ht [HX Hw]]. subst.
    simpl. repeat split; auto. constructor. exact HX.
  - simpl in H. apply in_app_or in H. destruct H as [H|H].
    + apply in_leaf_trees in H. destruct H as [Ht [HX Hw]]. subst.
      simpl. repeat split; auto; [constructor; exact HX|lia].
    + apply in_node_trees in H. destruct H as [p [pr [cs [Hp [Hl [Ht Hcs]]]]]]. subst t.
      apply (seq_trees_sound g _ (all_trees h g) h (IH g)) in Hcs.
      destruct Hcs as [Hv [Hr [Hy Hh]]]. repeat split.
      * econstructor; eauto.
      * simpl. unfold lhs. rewrite Hp. exact Hl.
      * exact Hy.
      * apply height_node_le. exact Hh.
Qed.

Lemma all_trees_complete_h : forall h g t, valid_tree g t -> height t <= h ->
  In t (all_trees h g (root g t) (yield t)).
Proof.
  induction h as [|h IH]; intros g t Hv Hh.
  - destruct t as [a|p cs]; [|simpl in Hh; lia]. inversion Hv; subst.
    simpl. apply in_leaf_trees. auto.
  - destruct t as [a|p cs].
    + inversion Hv; subst. simpl. apply in_or_app. left. apply in_leaf_trees. auto.
    + inversion Hv as [|p' pr cs' Hp Hr Hcs]; subst.
      cbn [all_trees]. apply in_or_app. right. apply in_node_trees.
      exists p, pr, cs. repeat split; auto.
      * simpl. unfold lhs. rewrite Hp. reflexivity.
      * rewrite <- Hr. cbn [yield]. apply seq_trees_complete.
        apply height_node_le in Hh. rewrite Forall_forall in *.
        intros c Hc. apply IH; auto.
Qed.

(* monotone in the height bound *)
Lemma all_trees_mono h h' g X w t : h <= h' -> In t (all_trees h g X w) -> In t (all_trees h' g X w).
Proof.
  intros Hle H. apply all_trees_sound_h in H. destruct H as [Hv [Hr [Hy Hh]]]. subst.
  apply all_trees_complete_h; [exact Hv|lia].
Qed.

(* ------------------------------------------------------------------ *)
(* contiguous sublists *)
Lemma prefixes_complete : forall w1 w2, In w1 (prefixes (w1 ++ w2)).
Proof.
  induction w1 as [|a r IH]; intros w2; simpl.
  - destruct w2; simpl; left; reflexivity.
  - right. apply in_map. apply IH.
Qed.

Lemma subs_cons a r : subs (a :: r) = prefixes (a :: r) ++ subs r.
Proof. reflexivity. Qed.

Lemma subs_complete : forall pre m post, In m (subs (pre ++ m ++ post)).
Proof.
  induction pre as [|a pre IH]; intros m post.
  - rewrite app_nil_l. destruct (m ++ post) as [|b r] eqn:He.
    + destruct m; [left; reflexivity|discriminate].
    + rewrite subs_cons. apply in_or_app. left. rewrite <- He. apply prefixes_complete.
  - rewrite <- app_comm_cons, subs_cons. apply in_or_app. right. apply IH.
Qed.

Lemma sub_keys_complete pre m post : In m (sub_keys (pre ++ m ++ post)).
Proof. unfold sub_keys. apply nodup_In. apply subs_complete. Qed.

Lemma root_in_syms g t : valid_tree g t -> In (root g t) (root_syms g).
Proof.
  intros Hv. unfold root_syms. apply nodup_In. apply in_or_app. inversion Hv as [a Ha|p pr cs Hp Hr Hcs]; subst.
  - left. simpl. apply in_seq. lia.
  - right. simpl. unfold lhs. rewrite Hp. apply in_map. eapply nth_error_In. exact Hp.
Qed.

(* ------------------------------------------------------------------ *)
(* a tree higher than k has a subtree of height exactly k *)
Lemma list_max_attained : forall l, 0 < list_max l -> In (list_max l) l.
Proof.
  induction l as [|a l IH]; simpl; intros H; [lia|].
  destruct (Nat.max_spec a (list_max l)) as [[Hlt He]|[Hle He]]; rewrite He in *.
  - right. apply IH. lia.
  - left. reflexivity.
Qed.

Lemma yield_child_sub : forall cs c, In c cs ->
  exists pre post, flat_map yield cs = pre ++ yield c ++ post.
Proof.
  intros cs c Hin. apply in_split in Hin. destruct Hin as [l1 [l2 He]]. subst.
  exists (flat_map yield l1), (flat_map yield l2). rewrite flat_map_app. reflexivity.
Qed.

Lemma tall_subtree g : forall t, valid_tree g t -> forall k, 0 < k <= height t ->
  exists t', valid_tree g t' /\ height t' = k /\ exists pre post, yield t = pre ++ yield t' ++ post.
Proof.
  intros t Hv. induction Hv as [a Ha|p pr cs Hp Hr Hcs IH] using valid_tree_ind'; intros k Hk.
  - simpl in Hk. lia.
  - destruct (Nat.eq_dec k (height (Node p cs))) as [He|Hne].
    + exists (Node p cs). split; [econstructor; eauto|]. split; [auto|].
      exists [], []. rewrite app_nil_r. reflexivity.
    + simpl in Hk, Hne.
      assert (Hm : 0 < list_max (map height cs)) by lia.
      apply list_max_attained in Hm. apply in_map_iff in Hm. destruct Hm as [c [Hhc Hc]].
      rewrite Forall_forall in IH. destruct (IH c Hc k) as [t' [Hv' [Hh' [pre [post Hy]]]]]; [lia|].
      exists t'. split; [exact Hv'|]. split; [exact Hh'|].
      destruct (yield_child_sub cs c Hc) as [pre' [post' Hy']].
      exists (pre' ++ pre), (post ++ post'). cbn [yield]. rewrite Hy', Hy.
      rewrite <- !app_assoc. reflexivity.
Qed.

(* the per-input certificate: the height bound loses nothing *)
Lemma saturated_height h g w : saturated_b h g w = true ->
  forall t, valid_tree g t -> (exists pre post, w = pre ++ yield t ++ post) -> height t <= h.
Proof.
  intros Hs t Hv [pre [post Hw]].
  destruct (Nat.le_gt_cases (height t) h) as [Hle|Hgt]; [exact Hle|exfalso].
  destruct (tall_subtree g t Hv (S h)) as [t' [Hv' [Hh' [pre' [post' Hy]]]]]; [lia|].
  unfold saturated_b in Hs. rewrite forallb_forall in Hs.
  specialize (Hs (root g t') (root_in_syms g t' Hv')). rewrite forallb_forall in Hs.
  assert (Hk : In (yield t') (sub_keys w)).
  { subst w. rewrite Hy. rewrite <- !app_assoc. rewrite app_assoc.
    replace ((pre ++ pre') ++ yield t' ++ post' ++ post) with ((pre ++ pre') ++ yield t' ++ (post' ++ post)) by reflexivity.
    apply sub_keys_complete. }
  specialize (Hs _ Hk). rewrite forallb_forall in Hs.
  assert (Hin : In t' (all_trees (S h) g (root g t') (yield t'))).
  { apply all_trees_complete_h; [exact Hv'|lia]. }
  apply Hs in Hin. apply Nat.leb_le in Hin. lia.
Qed.

Lemma all_trees_saturated h g w : saturated_b h g w = true ->
  forall t, valid_tree g t -> yield t = w -> In t (all_trees h g (root g t) w).
Proof.
  intros Hs t Hv Hy. subst w. apply all_trees_complete_h; [exact Hv|].
  apply (saturated_height h g (yield t) Hs t Hv). exists [], []. rewrite app_nil_r. reflexivity.
Qed.

(* ------------------------------------------------------------------ *)
(* unambiguous derivations of the empty string *)
Lemma eps_unamb_sound g : eps_unamb_b g = true ->
  forall t1 t2, valid_tree g t1 -> valid_tree g t2 -> yield t1 = [] -> yield t2 = [] ->
                root g t1 = root g t2 -> t1 = t2.
Proof.
  unfold eps_unamb_b. intros H t1 t2 Hv1 Hv2 Hy1 Hy2 Hr.
  apply andb_true_iff in H. destruct H as [Hs Hl].
  pose proof (all_trees_saturated _ g [] Hs t1 Hv1 Hy1) as H1.
  pose proof (all_trees_saturated _ g [] Hs t2 Hv2 Hy2) as H2.
  rewrite forallb_forall in Hl. specialize (Hl (root g t1) (root_in_syms g t1 Hv1)).
  apply Nat.leb_le in Hl. rewrite <- Hr in H2.
  destruct (all_trees (eps_bound g) g (root g t1) []) as [|x [|y l]]; simpl in *.
  - destruct H1.
  - destruct H1 as [H1|[]], H2 as [H2|[]]. congruence.
  - lia.
Qed.

(* ------------------------------------------------------------------ *)
(* no duplicates *)
Lemma NoDup_app_intro {A} (l1 l2 : list A) :
  NoDup l1 -> NoDup l2 -> (forall x, In x l1 -> In x l2 -> False) -> NoDup (l1 ++ l2).
Proof.
  induction l1 as [|a l1 IH]; intros H1 H2 Hd; simpl; [exact H2|].
  inversion H1 as [|? ? Hna Hnd]; subst. constructor.
  - intros Hin. apply in_app_or in Hin. destruct Hin as [Hin|Hin]; [contradiction|].
    apply (Hd a); [left; reflexivity|exact Hin].
  - apply IH; auto. intros x Hx1 Hx2. apply (Hd x); [right; exact Hx1|exact Hx2].
Qed.

Lemma NoDup_flat_map_intro {A B} (f : A -> list B) (l : list A) :
  NoDup l -> (forall x, In x l -> NoDup (f x)) ->
  (forall x y b, In x l -> In y l -> In b (f x) -> In b (f y) -> x = y) ->
  NoDup (flat_map f l).
Proof.
  induction l as [|a l IH]; intros Hl Hf Hd; simpl; [constructor|].
  inversion Hl as [|? ? Hna Hnd]; subst. apply NoDup_app_intro.
  - apply Hf. left; reflexivity.
  - apply IH; auto.
    + intros x Hx. apply Hf. right; exact Hx.
    + intros x y b Hx Hy. apply Hd; right; assumption.
  - intros b Hb1 Hb2. apply in_flat_map in Hb2. destruct Hb2 as [y [Hy Hby]].
    assert (a = y) by (apply (Hd a y b); auto; [left; reflexivity|right; exact Hy]).
    subst. contradiction.
Qed.

Lemma NoDup_map_inj {A B} (f : A -> B) (l : list A) :
  (forall x y, In x l -> In y l -> f x = f y -> x = y) -> NoDup l -> NoDup (map f l).
Proof.
  induction l as [|a l IH]; intros Hi Hl; simpl; [constructor|].
  inversion Hl as [|? ? Hna Hnd]; subst. constructor.
  - intros Hin. apply in_map_iff in Hin. destruct Hin as [y [He Hy]].
    assert (y = a) by (apply Hi; auto; [right; exact Hy|left; reflexivity]). subst. contradiction.
  - apply IH; auto. intros x y Hx Hy. apply Hi; right; assumption.
Qed.

Lemma splits_NoDup : forall w, NoDup (splits w).
Proof.
  induction w as [|a r IH]; simpl.
  - constructor; [intros []|constructor].
  - constructor.
    + intros Hin. apply in_map_iff in Hin. destruct Hin as [[p s] [He _]]. simpl in He. discriminate.
    + apply NoDup_map_inj; [|exact IH]. intros [p1 s1] [p2 s2] _ _ He. simpl in He. congruence.
Qed.

Lemma NoDup_combine_l {A B} : forall (l1 : list A) (l2 : list B), NoDup l1 -> NoDup (combine l1 l2).
Proof.
  induction l1 as [|a l1 IH]; intros l2 H; simpl; [constructor|].
  destruct l2 as [|b l2]; [constructor|]. inversion H as [|? ? Hna Hnd]; subst. constructor.
  - intros Hin. apply in_combine_l in Hin. contradiction.
  - apply IH. exact Hnd.
Qed.

Lemma indexed_NoDup {A} (l : list A) : NoDup (indexed l).
Proof. unfold indexed. apply NoDup_combine_l. apply seq_NoDup. Qed.

Section seq_nodup.
  Variable cheap : nat -> bool.
  Variable f : nat -> list nat -> list tree.
  Hypothesis f_yield : forall x w t, In t (f x w) -> yield t = w.
  Hypothesis f_nodup : forall x w, NoDup (f x w).

  Lemma seq_trees_NoDup : forall xs w, NoDup (seq_trees cheap f xs w).
  Proof.
    induction xs as [|x rest IH]; intros w.
    - simpl. destruct w; repeat constructor. intros [].
    - rewrite seq_trees_cons. apply NoDup_flat_map_intro.
      + apply splits_NoDup.
      + intros [w1 w2] _. simpl. apply NoDup_flat_map_intro.
        * apply f_nodup.
        * intros t _. apply NoDup_map_inj; [|apply IH]. intros a b _ _ He. congruence.
        * intros t1 t2 b _ _ H1 H2. apply in_map_iff in H1. apply in_map_iff in H2.
          destruct H1 as [r1 [He1 _]], H2 as [r2 [He2 _]]. congruence.
      + intros [w1 w2] [w1' w2'] b Hs1 Hs2 H1 H2. simpl in H1, H2.
        apply in_flat_map in H1. apply in_flat_map in H2.
        destruct H1 as [t1 [Ht1 H1]], H2 as [t2 [Ht2 H2]].
        apply in_map_iff in H1. apply in_map_iff in H2.
        destruct H1 as [r1 [He1 _]], H2 as [r2 [He2 _]]. subst b. inversion He2; subst.
        apply f_yield in Ht1. apply f_yield in Ht2. subst.
        apply splits_sound in Hs1. apply splits_sound in Hs2. rewrite Hs1 in Hs2.
        apply app_inv_head in Hs2. congruence.
  Qed.
End seq_nodup.

Lemma leaf_trees_NoDup g X w : NoDup (leaf_trees g X w).
Proof. unfold leaf_trees. destruct (_ && _); repeat constructor. intros []. Qed.

Lemma all_trees_NoDup_h : forall h g X w, NoDup (all_trees h g X w).
Proof.
  induction h as [|h IH]; intros g X w; simpl; [apply leaf_trees_NoDup|].
  apply NoDup_app_intro; [apply leaf_trees_NoDup| |].
  - unfold node_trees. apply NoDup_flat_map_intro.
    + apply indexed_NoDup.
    + intros [p pr] _. simpl. destruct (p_lhs pr =? X); [|constructor].
      apply NoDup_map_inj; [intros a b _ _ He; congruence|].
      apply seq_trees_NoDup; [|intros; apply IH].
      intros x w' t Ht. apply all_trees_sound_h in Ht. tauto.
    + intros [p1 pr1] [p2 pr2] b Hi1 Hi2 H1 H2. simpl in H1, H2.
      destruct (p_lhs pr1 =? X); [|destruct H1]. destruct (p_lhs pr2 =? X); [|destruct H2].
      apply in_map_iff in H1. apply in_map_iff in H2.
      destruct H1 as [c1 [He1 _]], H2 as [c2 [He2 _]]. subst b. inversion He2; subst.
      apply In_indexed in Hi1. apply In_indexed in Hi2. congruence.
  - intros t Hl Hn. apply in_leaf_trees in Hl. destruct Hl as [Ht _]. subst.
    apply in_node_trees in Hn. destruct Hn as [p [pr [cs [_ [_ [He _]]]]]]. discriminate.
Qed.

(* ------------------------------------------------------------------ *)
(* the memoised evaluation computes the same lists *)
Lemma memo_fun_eq f syms ws : forall x w, memo_fun f syms ws x w = f x w.
Proof.
  intros x w. unfold memo_fun.
  destruct (find _ _) as [e|] eqn:He; [|reflexivity].
  apply find_some in He. destruct He as [Hin Hx]. apply Nat.eqb_eq in Hx.
  apply in_map_iff in Hin. destruct Hin as [x' [He _]]. subst e. simpl in Hx. subst x'. cbn [snd].
  destruct (find _ _) as [c|] eqn:Hc; [|reflexivity].
  apply find_some in Hc. destruct Hc as [Hin Hw]. apply list_eqb_eq in Hw.
  apply in_map_iff in Hin. destruct Hin as [w' [Hc _]]. subst c. simpl in Hw. subst w'. reflexivity.
Qed.

Lemma seq_trees_ext cheap f f' : (forall x w, f x w = f' x w) ->
  forall xs w, seq_trees cheap f xs w = seq_trees cheap f' xs w.
Proof.
  intros Hf. induction xs as [|x rest IH]; intros w; [reflexivity|].
  rewrite !seq_trees_cons. apply flat_map_ext_in. intros ps _. rewrite Hf.
  apply flat_map_ext_in. intros t _. rewrite IH. reflexivity.
Qed.

Lemma node_trees_ext g f f' X w : (forall x w, f x w = f' x w) -> node_trees g f X w = node_trees g f' X w.
Proof.
  intros Hf. unfold node_trees. apply flat_map_ext_in. intros ip _.
  destruct (p_lhs (snd ip) =? X); [|reflexivity]. rewrite (seq_trees_ext _ f f' Hf). reflexivity.
Qed.

Lemma level_eq g syms ws : forall h X w, level h g syms ws X w = all_trees h g X w.
Proof.
  induction h as [|h IH]; intros X w; [reflexivity|].
  cbn [level all_trees]. f_equal. apply node_trees_ext. intros x w'. rewrite memo_fun_eq. apply IH.
Qed.

Lemma forallb_ext' {A} (f f' : A -> bool) l : (forall x, f x = f' x) -> forallb f l = forallb f' l.
Proof. intros H. induction l as [|a l IH]; simpl; [reflexivity|]. rewrite H, IH. reflexivity. Qed.

Lemma oracle_m_eq h g X w : oracle_m h g X w = (saturated_b h g w, all_trees (S h) g X w).
Proof.
  unfold oracle_m, saturated_b. f_equal.
  - apply forallb_ext'. intros Y. apply forallb_ext'. intros w'. rewrite memo_fun_eq, level_eq. reflexivity.
  - rewrite memo_fun_eq. apply level_eq.
Qed.

(* with the certificate, the list at any height bound >= h is exactly the set
   of derivation trees of w from the start symbol *)
Lemma oracle_exact_main h h' g w : h <= h' -> saturated_b h g w = true ->
  (forall t, In t (all_trees h' g (g_start g) w) <->
             (valid_tree g t /\ root g t = g_start g /\ yield t = w)) /\
  NoDup (all_trees h' g (g_start g) w) /\
  (all_trees h' g (g_start g) w <> [] <-> sentence g w).
Proof.
  intros Hle Hs.
  assert (H1 : forall t, In t (all_trees h' g (g_start g) w) <->
                         (valid_tree g t /\ root g t = g_start g /\ yield t = w)).
  { intros t. split.
    - intros H. apply all_trees_sound_h in H. tauto.
    - intros [Hv [Hr Hy]]. rewrite <- Hr. apply (all_trees_mono h h'); [exact Hle|].
      apply all_trees_saturated; assumption. }
  split; [exact H1|]. split; [apply all_trees_NoDup_h|]. split.
  - intros Hne. destruct (all_trees h' g (g_start g) w) as [|t l] eqn:He; [congruence|].
    exists t. apply H1. left; reflexivity.
  - intros [t Ht] He. apply H1 in Ht. rewrite He in Ht. destruct Ht.
Qed.
