(* C06 — lexical disambiguation: the stable sort of sort_terminals, the finish
   flags, the TokenIterator and the parser-side filters against the documented
   rule [select] of Spec/LexSpec.v. *)
From Coq Require Import Permutation Sorted NArith.
From RV Require Import Model.SortTerms Spec.LexSpec.

(* Proof device: the same stable insertion sort with a key in nat, and the
   sort key in nat. All reasoning is done on these; sort_bridge / key_bridge
   below connect them to the executable definitions of Model/SortTerms.v
   (binary keys). *)
Section NatSort.
  Variable A : Type.
  Variable key : A -> nat.
  Fixpoint insert_nat (x : A) (l : list A) : list A :=
    match l with
    | [] => [x]
    | y :: r => if key x <? key y then y :: insert_nat x r else x :: l
    end.
  Definition ssort_nat (l : list A) : list A := fold_right insert_nat [] l.
End NatSort.
Arguments insert_nat {A}.
Arguments ssort_nat {A}.

Definition term_key_nat (ms : bool) (t : term) : nat :=
  t_prio t * 1000 +
  (if ms then match t_strlen t with Some n => n | None => 0 end else 0).

Lemma sort_bridge {A} (kN : A -> N) (kn : A -> nat) l :
  (forall x, kN x = N.of_nat (kn x)) -> ssort kN l = ssort_nat kn l.
Proof.
  intros H. induction l as [|a l IH]; [reflexivity|].
  cbn [ssort ssort_nat fold_right]. fold (ssort kN l). fold (ssort_nat kn l). rewrite IH.
  generalize (ssort_nat kn l). intros m. induction m as [|y m IHm]; [reflexivity|].
  cbn [insert_desc insert_nat]. rewrite IHm.
  assert (E : (kN a <? kN y)%N = (kn a <? kn y)).
  { rewrite !H. destruct (N.ltb_spec (N.of_nat (kn a)) (N.of_nat (kn y))) as [L|L];
      destruct (Nat.ltb_spec (kn a) (kn y)) as [L'|L']; try reflexivity; lia. }
  rewrite E. reflexivity.
Qed.

Lemma key_bridge ms t : term_key ms t = N.of_nat (term_key_nat ms t).
Proof.
  unfold term_key, term_key_nat. rewrite Nat2N.inj_add, Nat2N.inj_mul.
  destruct ms; [destruct (t_strlen t)|]; reflexivity.
Qed.

(* ------------------------------------------------------------------ *)
(* small list facts *)

Lemma filter_all {A} (P : A -> bool) l : (forall x, In x l -> P x = true) -> filter P l = l.
Proof.
  induction l as [|a l IH]; intros H; simpl; [reflexivity|].
  rewrite (H a (or_introl eq_refl)). f_equal. apply IH. intros x Hx. apply H. right; exact Hx.
Qed.

Lemma filter_none {A} (P : A -> bool) l : (forall x, In x l -> P x = false) -> filter P l = [].
Proof.
  induction l as [|a l IH]; intros H; simpl; [reflexivity|].
  rewrite (H a (or_introl eq_refl)). apply IH. intros x Hx. apply H. right; exact Hx.
Qed.

Lemma filter_filter {A} (P Q : A -> bool) l :
  filter P (filter Q l) = filter (fun x => Q x && P x) l.
Proof.
  induction l as [|a l IH]; simpl; [reflexivity|].
  destruct (Q a); simpl; [destruct (P a); rewrite IH; reflexivity | exact IH].
Qed.

Lemma filter_comm {A} (P Q : A -> bool) l : filter P (filter Q l) = filter Q (filter P l).
Proof.
  rewrite !filter_filter. apply filter_ext. intros a. apply andb_comm.
Qed.

Lemma filter_nil_iff {A} (P : A -> bool) l : filter P l = [] <-> (forall x, In x l -> P x = false).
Proof.
  split; [|apply filter_none].
  intros H x Hx. destruct (P x) eqn:E; [|reflexivity].
  assert (Hin : In x (filter P l)) by (apply filter_In; split; assumption).
  rewrite H in Hin. destruct Hin.
Qed.

Lemma existsb_false_iff {A} (P : A -> bool) l : existsb P l = false <-> (forall x, In x l -> P x = false).
Proof.
  split.
  - intros H x Hx. destruct (P x) eqn:E; [|reflexivity].
    assert (existsb P l = true) by (apply existsb_exists; exists x; split; assumption). congruence.
  - intros H. destruct (existsb P l) eqn:E; [|reflexivity].
    apply existsb_exists in E. destruct E as [x [Hx Px]]. rewrite (H x Hx) in Px. discriminate.
Qed.

Lemma firstn1_hd {A} (l : list A) :
  firstn 1 l = match hd_error l with Some x => [x] | None => [] end.
Proof. destruct l; reflexivity. Qed.

Lemma last_error_app {A} (l1 l2 : list A) : l2 <> [] -> last_error (l1 ++ l2) = last_error l2.
Proof.
  intros H. induction l1 as [|a l1 IH]; simpl; [reflexivity|].
  destruct (l1 ++ l2) eqn:E; [|exact IH].
  destruct l1; simpl in E; [contradiction|discriminate].
Qed.

Lemma last_error_some {A} (l : list A) : l <> [] -> exists x, last_error l = Some x /\ In x l.
Proof.
  induction l as [|a l IH]; intros H; [contradiction|].
  destruct l as [|b l].
  - exists a. split; [reflexivity|left; reflexivity].
  - destruct IH as [x [Hx Hin]]; [discriminate|]. exists x. split; [exact Hx|right; exact Hin].
Qed.

(* ------------------------------------------------------------------ *)
(* maxima and minima of a function over a list *)

Lemma maxf_ge {A} (f : A -> nat) l x : In x l -> f x <= maxf f l.
Proof.
  induction l as [|a l IH]; simpl; intros H; [contradiction|].
  destruct H as [->|H]; [lia|]. specialize (IH H). lia.
Qed.

Lemma maxf_le {A} (f : A -> nat) l m : (forall x, In x l -> f x <= m) -> maxf f l <= m.
Proof.
  induction l as [|a l IH]; simpl; intros H; [lia|].
  assert (f a <= m) by (apply H; left; reflexivity).
  assert (maxf f l <= m) by (apply IH; intros x Hx; apply H; right; exact Hx). lia.
Qed.

Lemma maxf_in {A} (f : A -> nat) l : l <> [] -> exists x, In x l /\ f x = maxf f l.
Proof.
  induction l as [|a l IH]; intros H; [contradiction|].
  destruct l as [|b l].
  - exists a. split; [left; reflexivity|simpl; lia].
  - destruct IH as [x [Hx Hm]]; [discriminate|].
    destruct (Nat.le_gt_cases (maxf f (b :: l)) (f a)) as [Hle|Hgt].
    + exists a. split; [left; reflexivity|]. change (maxf f (a :: b :: l)) with (Nat.max (f a) (maxf f (b :: l))). lia.
    + exists x. split; [right; exact Hx|]. change (maxf f (a :: b :: l)) with (Nat.max (f a) (maxf f (b :: l))). lia.
Qed.

Lemma maxf_perm {A} (f : A -> nat) l l' : Permutation l l' -> maxf f l = maxf f l'.
Proof.
  induction 1; simpl; try lia.
Qed.

Lemma maxf_shift {A} (f g : A -> nat) c l :
  l <> [] -> (forall x, In x l -> g x = c + f x) -> maxf g l = c + maxf f l.
Proof.
  induction l as [|a l IH]; intros Hne H; [contradiction|].
  destruct l as [|b l].
  - simpl. rewrite (H a (or_introl eq_refl)). lia.
  - change (maxf g (a :: b :: l)) with (Nat.max (g a) (maxf g (b :: l))).
    change (maxf f (a :: b :: l)) with (Nat.max (f a) (maxf f (b :: l))).
    rewrite IH; [|discriminate|intros x Hx; apply H; right; exact Hx].
    rewrite (H a (or_introl eq_refl)). lia.
Qed.

Lemma filter_max_shift {A} (f g : A -> nat) c l :
  (forall x, In x l -> g x = c + f x) ->
  filter (fun x => g x =? maxf g l) l = filter (fun x => f x =? maxf f l) l.
Proof.
  intros H. destruct l as [|a l]; [reflexivity|].
  rewrite (maxf_shift f g c (a :: l)); [|discriminate|exact H].
  apply filter_ext_in. intros x Hx. rewrite (H x Hx).
  destruct (f x =? maxf f (a :: l)) eqn:E.
  - apply Nat.eqb_eq in E. apply Nat.eqb_eq. lia.
  - apply Nat.eqb_neq in E. apply Nat.eqb_neq. lia.
Qed.

Lemma minf_le {A} (f : A -> nat) l x : In x l -> minf f l <= f x.
Proof.
  destruct l as [|a l]; [intros []|].
  unfold minf. revert a x. induction l as [|b l IH]; intros a x H; simpl.
  - destruct H as [->|[]]. lia.
  - destruct H as [->|[->|H]].
    + specialize (IH x x (or_introl eq_refl)). lia.
    + assert (Hx : fold_right (fun y m => Nat.min (f y) m) (f a) l <= f a).
      { clear. induction l; simpl; lia. }
      lia.
    + specialize (IH a x (or_intror H)). lia.
Qed.

Lemma minf_in {A} (f : A -> nat) l : l <> [] -> exists x, In x l /\ f x = minf f l.
Proof.
  destruct l as [|a l]; [intros H; contradiction|]. intros _.
  unfold minf. revert a. induction l as [|b l IH]; intros a; simpl.
  - exists a. split; [left; reflexivity|reflexivity].
  - destruct (IH a) as [x [Hx Hm]].
    destruct (Nat.le_gt_cases (f b) (fold_right (fun y m => Nat.min (f y) m) (f a) l)) as [Hle|Hgt].
    + exists b. split; [right; left; reflexivity|lia].
    + exists x. split; [|lia]. destruct Hx as [->|Hx]; [left; reflexivity|right; right; exact Hx].
Qed.

Lemma minf_perm {A} (f : A -> nat) l l' : Permutation l l' -> minf f l = minf f l'.
Proof.
  intros HP.
  destruct l as [|a l].
  - apply Permutation_nil in HP. subst. reflexivity.
  - destruct l' as [|a' l']; [apply Permutation_sym, Permutation_nil in HP; discriminate|].
    destruct (minf_in f (a :: l)) as [x [Hx Hm]]; [discriminate|].
    destruct (minf_in f (a' :: l')) as [y [Hy Hn]]; [discriminate|].
    assert (minf f (a' :: l') <= f x) by (apply minf_le; eapply Permutation_in; eauto).
    assert (minf f (a :: l) <= f y) by (apply minf_le; eapply Permutation_in; [apply Permutation_sym|]; eauto).
    lia.
Qed.

Lemma minf_shift {A} (f g : A -> nat) c l :
  l <> [] -> (forall x, In x l -> g x = c + f x) -> minf g l = c + minf f l.
Proof.
  intros Hne H.
  destruct (minf_in f l Hne) as [x [Hx Hm]]. destruct (minf_in g l Hne) as [y [Hy Hn]].
  pose proof (minf_le f l y Hy). pose proof (minf_le g l x Hx).
  rewrite (H x Hx) in *. rewrite (H y Hy) in *. lia.
Qed.

Lemma filter_min_shift {A} (f g : A -> nat) c l :
  (forall x, In x l -> g x = c + f x) ->
  filter (fun x => g x =? minf g l) l = filter (fun x => f x =? minf f l) l.
Proof.
  intros H. destruct l as [|a l]; [reflexivity|].
  rewrite (minf_shift f g c (a :: l)); [|discriminate|exact H].
  apply filter_ext_in. intros x Hx. rewrite (H x Hx).
  destruct (f x =? minf f (a :: l)) eqn:E.
  - apply Nat.eqb_eq in E. apply Nat.eqb_eq. lia.
  - apply Nat.eqb_neq in E. apply Nat.eqb_neq. lia.
Qed.

(* ------------------------------------------------------------------ *)
(* the stable insertion sort *)

Section SortFacts.
  Variable A : Type.
  Variable key : A -> nat.

  Definition desc (l : list A) : Prop := StronglySorted (fun a b => key b <= key a) l.

  Lemma insert_perm x l : Permutation (x :: l) (insert_nat key x l).
  Proof.
    induction l as [|a l IH]; simpl; [apply Permutation_refl|].
    destruct (key x <? key a); [|apply Permutation_refl].
    eapply perm_trans; [apply perm_swap|]. apply perm_skip. exact IH.
  Qed.

  Lemma ssort_perm l : Permutation l (ssort_nat key l).
  Proof.
    induction l as [|a l IH]; simpl; [constructor|].
    eapply perm_trans; [apply perm_skip; exact IH|apply insert_perm].
  Qed.

  Lemma insert_sorted x l : desc l -> desc (insert_nat key x l).
  Proof.
    induction l as [|a l IH]; intros H; simpl.
    - constructor; constructor.
    - inversion H as [|? ? Hl Hall]; subst. destruct (key x <? key a) eqn:E.
      + apply Nat.ltb_lt in E. constructor; [apply IH; exact Hl|].
        rewrite Forall_forall in *. intros b Hb.
        apply (Permutation_in _ (Permutation_sym (insert_perm x l))) in Hb.
        destruct Hb as [<-|Hb]; [lia|apply Hall; exact Hb].
      + apply Nat.ltb_ge in E. constructor; [exact H|]. constructor; [exact E|].
        rewrite Forall_forall in *. intros b Hb. specialize (Hall b Hb). lia.
  Qed.

  Lemma ssort_sorted l : desc (ssort_nat key l).
  Proof.
    induction l as [|a l IH]; simpl; [constructor|apply insert_sorted; exact IH].
  Qed.

  Lemma filter_desc P l : desc l -> desc (filter P l).
  Proof.
    induction 1 as [|a l Hl IH Hall]; simpl; [constructor|].
    destruct (P a); [|exact IH]. constructor; [exact IH|].
    rewrite Forall_forall in *. intros b Hb. apply filter_In in Hb. apply Hall. tauto.
  Qed.

  Lemma insert_head x l : (forall y, In y l -> key y <= key x) -> insert_nat key x l = x :: l.
  Proof.
    destruct l as [|a l]; simpl; [reflexivity|]. intros H.
    specialize (H a (or_introl eq_refl)).
    destruct (key x <? key a) eqn:E; [|reflexivity]. apply Nat.ltb_lt in E. lia.
  Qed.

  Lemma filter_insert P x l :
    desc l ->
    filter P (insert_nat key x l) = if P x then insert_nat key x (filter P l) else filter P l.
  Proof.
    induction l as [|y r IH]; intros Hd; simpl.
    - destruct (P x); reflexivity.
    - inversion Hd as [|? ? Hr Hall]; subst. destruct (key x <? key y) eqn:E.
      + simpl. rewrite (IH Hr). destruct (P y) eqn:Py, (P x) eqn:Px; simpl; try rewrite E; reflexivity.
      + simpl. destruct (P x) eqn:Px.
        * destruct (P y) eqn:Py; simpl; [rewrite E; reflexivity|].
          symmetry. apply insert_head. intros z Hz. apply filter_In in Hz.
          rewrite Forall_forall in Hall. specialize (Hall z (proj1 Hz)).
          apply Nat.ltb_ge in E. lia.
        * destruct (P y); reflexivity.
  Qed.

  (* filtering commutes with the stable sort *)
  Lemma filter_ssort P l : filter P (ssort_nat key l) = ssort_nat key (filter P l).
  Proof.
    induction l as [|a l IH]; simpl; [reflexivity|].
    rewrite filter_insert by apply ssort_sorted.
    destruct (P a); simpl; rewrite IH; reflexivity.
  Qed.

  Lemma ssort_id l : desc l -> ssort_nat key l = l.
  Proof.
    induction 1 as [|a l Hl IH Hall]; simpl; [reflexivity|].
    rewrite IH. apply insert_head. rewrite Forall_forall in Hall. exact Hall.
  Qed.

  Lemma const_desc l k : (forall x, In x l -> key x = k) -> desc l.
  Proof.
    induction l as [|a l IH]; intros H; constructor.
    - apply IH. intros x Hx. apply H. right; exact Hx.
    - rewrite Forall_forall. intros b Hb.
      rewrite (H a (or_introl eq_refl)), (H b (or_intror Hb)). lia.
  Qed.

  (* stability: elements with the same key keep their original relative order *)
  Lemma ssort_stable k l :
    filter (fun x => key x =? k) (ssort_nat key l) = filter (fun x => key x =? k) l.
  Proof.
    rewrite filter_ssort. apply ssort_id. apply const_desc with k.
    intros x Hx. apply filter_In in Hx. apply Nat.eqb_eq. tauto.
  Qed.

  Lemma maxf_desc_head x r : desc (x :: r) -> maxf key (x :: r) = key x.
  Proof.
    intros H. inversion H as [|? ? Hr Hall]; subst. simpl.
    assert (maxf key r <= key x).
    { apply maxf_le. rewrite Forall_forall in Hall. exact Hall. }
    lia.
  Qed.

  Lemma hd_ssort l :
    hd_error (ssort_nat key l) = hd_error (filter (fun x => key x =? maxf key l) l).
  Proof.
    rewrite <- (ssort_stable (maxf key l) l).
    rewrite (maxf_perm key l (ssort_nat key l) (ssort_perm l)).
    pose proof (ssort_sorted l) as Hs.
    destruct (ssort_nat key l) as [|x r]; [reflexivity|].
    rewrite (maxf_desc_head x r Hs). simpl. rewrite Nat.eqb_refl. reflexivity.
  Qed.

  (* a list sorted in descending order is split by any upward-closed predicate *)
  Lemma desc_split_gen (P : A -> bool) l :
    desc l ->
    (forall a b, In a l -> In b l -> key b <= key a -> P b = true -> P a = true) ->
    l = filter P l ++ filter (fun x => negb (P x)) l.
  Proof.
    induction 1 as [|a l Hl IH Hall]; intros HP; simpl; [reflexivity|].
    destruct (P a) eqn:Pa; simpl.
    - f_equal. apply IH. intros x y Hx Hy. apply HP; right; assumption.
    - rewrite Forall_forall in Hall.
      assert (Hno : forall x, In x l -> P x = false).
      { intros x Hx. destruct (P x) eqn:Px; [|reflexivity].
        rewrite (HP a x (or_introl eq_refl) (or_intror Hx) (Hall x Hx) Px) in Pa. discriminate. }
      rewrite (filter_none P l Hno). simpl. f_equal. symmetry. apply filter_all.
      intros x Hx. rewrite (Hno x Hx). reflexivity.
  Qed.

  Lemma last_ssort l :
    last_error (ssort_nat key l) = last_error (filter (fun x => key x =? minf key l) l).
  Proof.
    destruct l as [|a0 l0] eqn:El; [reflexivity|]. rewrite <- El.
    assert (Hne : l <> []) by (subst; discriminate).
    rewrite <- (ssort_stable (minf key l) l).
    pose proof (ssort_sorted l) as Hs. pose proof (ssort_perm l) as Hp.
    set (m := minf key l).
    rewrite (desc_split_gen (fun x => m <? key x) (ssort_nat key l) Hs) at 1.
    - assert (Heq : filter (fun x => negb (m <? key x)) (ssort_nat key l) =
                    filter (fun x => key x =? m) (ssort_nat key l)).
      { apply filter_ext_in. intros x Hx.
        assert (m <= key x).
        { apply minf_le. eapply Permutation_in; [apply Permutation_sym; exact Hp|exact Hx]. }
        destruct (m <? key x) eqn:E1, (key x =? m) eqn:E2; try reflexivity.
        - apply Nat.ltb_lt in E1. apply Nat.eqb_eq in E2. lia.
        - apply Nat.ltb_ge in E1. apply Nat.eqb_neq in E2. lia. }
      rewrite Heq. apply last_error_app.
      destruct (minf_in key l Hne) as [x [Hx Hm]].
      intros Hnil. rewrite filter_nil_iff in Hnil.
      specialize (Hnil x (Permutation_in _ Hp Hx)). apply Nat.eqb_neq in Hnil. fold m in Hm. lia.
    - intros a b _ _ Hab Hb. apply Nat.ltb_lt in Hb. apply Nat.ltb_lt. lia.
  Qed.

  (* a stable sort by the key is unique: any rearrangement that is sorted and
     keeps the relative order of equal keys is the model's result. (Rust's
     slice::sort_by is documented stable; sorted_ok_b checks it on dumps.) *)
  Lemma sorted_stable_unique l1 l2 :
    desc l1 -> desc l2 ->
    (forall k, filter (fun x => key x =? k) l1 = filter (fun x => key x =? k) l2) ->
    l1 = l2.
  Proof.
    revert l2. induction l1 as [|x r1 IH]; intros l2 H1 H2 Hf.
    - destruct l2 as [|y r2]; [reflexivity|].
      specialize (Hf (key y)). simpl in Hf. rewrite Nat.eqb_refl in Hf. discriminate.
    - destruct l2 as [|y r2].
      + specialize (Hf (key x)). simpl in Hf. rewrite Nat.eqb_refl in Hf. discriminate.
      + inversion H1 as [|? ? Hr1 Hall1]; subst. inversion H2 as [|? ? Hr2 Hall2]; subst.
        rewrite Forall_forall in Hall1, Hall2.
        assert (Hxy : key x <= key y).
        { pose proof (Hf (key x)) as E. simpl in E. rewrite Nat.eqb_refl in E.
          destruct (key y =? key x) eqn:Ey; [apply Nat.eqb_eq in Ey; lia|].
          assert (Hin : In x (filter (fun z => key z =? key x) r2)) by (rewrite <- E; left; reflexivity).
          apply filter_In in Hin. apply Hall2. tauto. }
        assert (Hyx : key y <= key x).
        { pose proof (Hf (key y)) as E. simpl in E. rewrite Nat.eqb_refl in E.
          destruct (key x =? key y) eqn:Ex; [apply Nat.eqb_eq in Ex; lia|].
          assert (Hin : In y (filter (fun z => key z =? key y) r1)) by (rewrite E; left; reflexivity).
          apply filter_In in Hin. apply Hall1. tauto. }
        assert (Hk : key y = key x) by lia.
        pose proof (Hf (key x)) as E. simpl in E. rewrite Hk, Nat.eqb_refl in E.
        inversion E as [[Exy Etl]]. subst y. f_equal.
        apply IH; [exact Hr1|exact Hr2|].
        intros k. specialize (Hf k). simpl in Hf.
        destruct (key x =? k); [inversion Hf; reflexivity|exact Hf].
  Qed.

  Lemma sort_unique_main l l' :
    desc l' ->
    (forall k, filter (fun x => key x =? k) l' = filter (fun x => key x =? k) l) ->
    l' = ssort_nat key l.
  Proof.
    intros Hd Hf. apply sorted_stable_unique; [exact Hd|apply ssort_sorted|].
    intros k. rewrite Hf. symmetry. apply ssort_stable.
  Qed.
End SortFacts.
Arguments desc {A}.

(* ------------------------------------------------------------------ *)
(* the finish-flag pass as a function of the element and its successor *)

Definition fin_of (ms : bool) (x : entry) (rest : list entry) : bool :=
  (ms && is_str (snd x)) ||
  match rest with
  | y :: _ => negb (t_prio (snd y) =? t_prio (snd x))
  | [] => false
  end.

Fixpoint flags_fun (ms : bool) (l : list entry) : list (nat * bool) :=
  match l with
  | [] => []
  | x :: rest => (fst x, fin_of ms x rest) :: flags_fun ms rest
  end.

Lemma flag_fold_gen ms l : forall (x0 : entry) (f0 : bool) (out0 : list (nat * bool)),
  rev (fst (fold_left (flag_step ms) l ((fst x0, f0) :: out0, Some (t_prio (snd x0))))) =
  rev out0 ++
  (fst x0, f0 || match l with y :: _ => negb (t_prio (snd y) =? t_prio (snd x0)) | [] => false end)
  :: flags_fun ms l.
Proof.
  induction l as [|y l IH]; intros x0 f0 out0.
  - simpl. rewrite orb_false_r. reflexivity.
  - cbn [fold_left flag_step].
    rewrite (IH y (ms && is_str (snd y))
                ((fst x0, f0 || negb (t_prio (snd y) =? t_prio (snd x0))) :: out0)).
    cbn [rev flags_fun]. rewrite <- app_assoc. reflexivity.
Qed.

Lemma finish_flags_fun ms l : finish_flags ms l = flags_fun ms l.
Proof.
  unfold finish_flags. destruct l as [|x l]; [reflexivity|].
  cbn [fold_left flag_step].
  rewrite (flag_fold_gen ms l x (ms && is_str (snd x)) []). reflexivity.
Qed.

(* ------------------------------------------------------------------ *)
(* TokenIterator over sorted entries (flags computed on the fly): iterF is the
   iterator of the code; iterE is the iterator as it was BEFORE the repair of
   finding priority-group-finish-flag (kept with its lemmas as the record of
   what was wrong: iterE_main) *)

Section Iter.
  Variable ms : bool.
  Variable mlen : nat -> option nat.

  Let mb := e_matches mlen.
  Definition tok (x : entry) : nat * nat := (fst x, e_len mlen x).

  Fixpoint iterE (l : list entry) : list entry :=
    match l with
    | [] => []
    | x :: rest =>
        if e_matches mlen x
        then x :: (if fin_of ms x rest then [] else iterE rest)
        else iterE rest
    end.

  Fixpoint iterF (matched : bool) (l : list entry) : list entry :=
    match l with
    | [] => []
    | x :: rest =>
        if e_matches mlen x
        then x :: (if fin_of ms x rest then [] else iterF true rest)
        else if matched && fin_of ms x rest then [] else iterF matched rest
    end.

  Lemma token_iter_from_flags l b :
    token_iter_from mlen b (flags_fun ms l) = map tok (iterF b l).
  Proof.
    revert b. induction l as [|x rest IH]; intros b; [reflexivity|].
    cbn [flags_fun token_iter_from iterF]. unfold e_matches, tok, e_len.
    destruct (mlen (fst x)) as [n|] eqn:E.
    - cbn [map]. unfold e_len. rewrite E. f_equal.
      destruct (fin_of ms x rest); [reflexivity|apply IH].
    - destruct (b && fin_of ms x rest); [reflexivity|apply IH].
  Qed.

  Lemma iterE_skip l1 l2 : (forall x, In x l1 -> mb x = false) -> iterE (l1 ++ l2) = iterE l2.
  Proof.
    induction l1 as [|a l1 IH]; intros H; [reflexivity|].
    cbn [app iterE]. fold mb. rewrite (H a (or_introl eq_refl)).
    apply IH. intros x Hx. apply H. right; exact Hx.
  Qed.

  Lemma iterE_nomatch l : (forall x, In x l -> mb x = false) -> iterE l = [].
  Proof.
    intros H. rewrite <- (app_nil_r l). rewrite (iterE_skip l [] H). reflexivity.
  Qed.

  Lemma iterE_some l : (exists x, In x l /\ mb x = true) -> iterE l <> [].
  Proof.
    induction l as [|a l IH]; intros [x [Hx Hm]]; [destruct Hx|].
    cbn [iterE]. fold mb. destruct (mb a) eqn:Ea; [discriminate|].
    apply IH. exists x. split; [|exact Hm].
    destruct Hx as [->|Hx]; [congruence|exact Hx].
  Qed.

  Lemma iterF_skip l1 l2 : (forall x, In x l1 -> mb x = false) -> iterF false (l1 ++ l2) = iterF false l2.
  Proof.
    induction l1 as [|a l1 IH]; intros H; [reflexivity|].
    cbn [app iterF]. fold mb. rewrite (H a (or_introl eq_refl)). cbn [andb].
    apply IH. intros x Hx. apply H. right; exact Hx.
  Qed.

  (* one priority group followed by the rest: no matching member carries a
     most-specific finish flag *)
  Lemma iterE_group p grp lo :
    (forall x, In x grp -> e_prio x = p) ->
    (forall x, In x lo -> e_prio x <> p) ->
    (forall x, In x grp -> mb x = true -> ms && is_str (snd x) = false) ->
    iterE (grp ++ lo) =
    filter mb grp ++
    match last_error grp with
    | Some c => if mb c then [] else iterE lo
    | None => iterE lo
    end.
  Proof.
    intros Hp Hlo Hns. induction grp as [|x grp IH]; [reflexivity|].
    assert (IH' := IH (fun y Hy => Hp y (or_intror Hy)) (fun y Hy => Hns y (or_intror Hy))).
    clear IH. cbn [app iterE filter]. fold mb.
    destruct grp as [|y grp].
    - cbn [app last_error filter]. destruct (mb x) eqn:Ex; [|reflexivity].
      cbn [app]. f_equal. unfold fin_of. rewrite (Hns x (or_introl eq_refl) Ex). cbn [orb].
      destruct lo as [|z lo]; [reflexivity|].
      assert (Hz : e_prio z <> p) by (apply Hlo; left; reflexivity).
      assert (Hx : e_prio x = p) by (apply Hp; left; reflexivity).
      unfold e_prio in Hz, Hx. rewrite Hx.
      destruct (t_prio (snd z) =? p) eqn:E; [apply Nat.eqb_eq in E; contradiction|reflexivity].
    - change (last_error (x :: y :: grp)) with (last_error (y :: grp)).
      destruct (mb x) eqn:Ex.
      + cbn [app]. f_equal. unfold fin_of. rewrite (Hns x (or_introl eq_refl) Ex). cbn [orb app].
        assert (Hx : e_prio x = p) by (apply Hp; left; reflexivity).
        assert (Hy : e_prio y = p) by (apply Hp; right; left; reflexivity).
        unfold e_prio in Hx, Hy. rewrite Hx, Hy, Nat.eqb_refl. cbn [negb]. exact IH'.
      + exact IH'.
  Qed.

  Lemma iterE_group_ms strs rest :
    ms = true ->
    (forall x, In x strs -> is_str (snd x) = true) ->
    iterE (strs ++ rest) =
    match filter mb strs with
    | [] => iterE rest
    | x :: _ => [x]
    end.
  Proof.
    intros Hms Hs. induction strs as [|x strs IH]; [reflexivity|].
    cbn [app iterE filter]. fold mb. destruct (mb x) eqn:Ex.
    - unfold fin_of. rewrite Hms, (Hs x (or_introl eq_refl)). reflexivity.
    - apply IH. intros y Hy. apply Hs. right; exact Hy.
  Qed.

  Lemma iterF_group_ms strs rest :
    ms = true ->
    (forall x, In x strs -> is_str (snd x) = true) ->
    iterF false (strs ++ rest) =
    match filter mb strs with
    | [] => iterF false rest
    | x :: _ => [x]
    end.
  Proof.
    intros Hms Hs. induction strs as [|x strs IH]; [reflexivity|].
    cbn [app iterF filter]. fold mb. destruct (mb x) eqn:Ex.
    - unfold fin_of. rewrite Hms, (Hs x (or_introl eq_refl)). reflexivity.
    - cbn [andb]. apply IH. intros y Hy. apply Hs. right; exact Hy.
  Qed.

  (* repaired iterator: a group none of whose members carries a most-specific
     flag; once something matched the group boundary stops the iteration *)
  Lemma iterF_group p grp lo b :
    (forall x, In x grp -> e_prio x = p) ->
    (forall x, In x lo -> e_prio x <> p) ->
    (forall x, In x grp -> ms && is_str (snd x) = false) ->
    grp <> [] ->
    iterF b (grp ++ lo) =
    filter mb grp ++ (if b || existsb mb grp then [] else iterF false lo).
  Proof.
    intros Hp Hlo Hns. revert b. induction grp as [|x grp IH]; intros b Hne; [contradiction|].
    assert (IH' := IH (fun y Hy => Hp y (or_intror Hy)) (fun y Hy => Hns y (or_intror Hy))).
    clear IH. cbn [app iterF filter existsb]. fold mb.
    assert (Hx : e_prio x = p) by (apply Hp; left; reflexivity).
    destruct grp as [|y grp].
    - cbn [app filter existsb]. rewrite orb_false_r.
      assert (Hfin : fin_of ms x lo = match lo with [] => false | _ => true end).
      { unfold fin_of. rewrite (Hns x (or_introl eq_refl)). cbn [orb].
        destruct lo as [|z lo]; [reflexivity|].
        assert (Hz : e_prio z <> p) by (apply Hlo; left; reflexivity).
        unfold e_prio in Hz, Hx. rewrite Hx.
        destruct (t_prio (snd z) =? p) eqn:E; [apply Nat.eqb_eq in E; contradiction|reflexivity]. }
      rewrite Hfin. destruct (mb x) eqn:Ex.
      + rewrite orb_true_r. cbn [app]. f_equal. destruct lo; reflexivity.
      + rewrite orb_false_r. cbn [app]. destruct b; cbn [andb]; [destruct lo; reflexivity|reflexivity].
    - assert (Hfin : fin_of ms x ((y :: grp) ++ lo) = false).
      { unfold fin_of. rewrite (Hns x (or_introl eq_refl)). cbn [orb app].
        assert (Hy : e_prio y = p) by (apply Hp; right; left; reflexivity).
        unfold e_prio in Hx, Hy. rewrite Hx, Hy, Nat.eqb_refl. reflexivity. }
      rewrite Hfin. destruct (mb x) eqn:Ex.
      + rewrite (IH' true) by discriminate. rewrite orb_true_r. cbn [orb app]. reflexivity.
      + rewrite andb_false_r. rewrite (IH' b) by discriminate. cbn [orb app]. reflexivity.
  Qed.
End Iter.

(* ------------------------------------------------------------------ *)
(* generic facts on descending lists with two keys *)

Lemma desc_mono {A} (k1 k2 : A -> nat) l :
  (forall a b, In a l -> In b l -> k1 b <= k1 a -> k2 b <= k2 a) -> desc k1 l -> desc k2 l.
Proof.
  intros H Hd. induction Hd as [|a l Hl IH Hall]; [constructor|].
  constructor.
  - apply IH. intros x y Hx Hy. apply H; right; assumption.
  - rewrite Forall_forall in *. intros b Hb.
    apply H; [left; reflexivity|right; exact Hb|apply Hall; exact Hb].
Qed.

Lemma desc_split3 {A} (f : A -> nat) p l :
  desc f l ->
  l = filter (fun x => p <? f x) l ++ filter (fun x => f x =? p) l ++ filter (fun x => f x <? p) l.
Proof.
  induction 1 as [|a l Hl IH Hall]; [reflexivity|].
  rewrite Forall_forall in Hall. cbn [filter].
  destruct (lt_eq_lt_dec (f a) p) as [[Hlt|Heq]|Hgt].
  - assert (E1 : p <? f a = false) by (apply Nat.ltb_ge; lia).
    assert (E2 : f a =? p = false) by (apply Nat.eqb_neq; lia).
    assert (E3 : f a <? p = true) by (apply Nat.ltb_lt; lia).
    rewrite E1, E2, E3.
    rewrite (filter_none (fun x => p <? f x) l), (filter_none (fun x => f x =? p) l),
            (filter_all (fun x => f x <? p) l); [reflexivity| | |].
    + intros x Hx. specialize (Hall x Hx). apply Nat.ltb_lt. lia.
    + intros x Hx. specialize (Hall x Hx). apply Nat.eqb_neq. lia.
    + intros x Hx. specialize (Hall x Hx). apply Nat.ltb_ge. lia.
  - assert (E1 : p <? f a = false) by (apply Nat.ltb_ge; lia).
    assert (E2 : f a =? p = true) by (apply Nat.eqb_eq; lia).
    assert (E3 : f a <? p = false) by (apply Nat.ltb_ge; lia).
    rewrite E1, E2, E3.
    assert (Hn : filter (fun x => p <? f x) l = []).
    { apply filter_none. intros x Hx. specialize (Hall x Hx). apply Nat.ltb_ge. lia. }
    rewrite Hn in *. cbn [app] in *. f_equal. exact IH.
  - assert (E1 : p <? f a = true) by (apply Nat.ltb_lt; lia).
    assert (E2 : f a =? p = false) by (apply Nat.eqb_neq; lia).
    assert (E3 : f a <? p = false) by (apply Nat.ltb_ge; lia).
    rewrite E1, E2, E3. cbn [app]. f_equal. exact IH.
Qed.

(* ------------------------------------------------------------------ *)
(* parser-side filters against stages 3 and 4 of the rule *)

Section Pick.
  Variable mlen : nat -> option nat.
  Notation tk := (tok mlen).
  Notation len := (e_len mlen).

  Definition stage34 (lm go : bool) (l2 : list entry) : list entry :=
    let l3 := if lm then by_longest mlen l2 else l2 in
    if go then firstn 1 l3 else l3.

  Lemma max_len_fold X a :
    fold_left (fun m '(_, n) => Nat.max m n) (map tk X) a = Nat.max a (maxf len X).
  Proof.
    revert a. induction X as [|x X IH]; intros a; simpl; [lia|].
    rewrite IH. lia.
  Qed.

  Lemma max_len_map X : max_len (map tk X) = maxf len X.
  Proof. unfold max_len. rewrite max_len_fold. lia. Qed.

  Lemma filter_map_tok m X :
    filter (fun '(_, n) => n =? m) (map tk X) = map tk (filter (fun x => len x =? m) X).
  Proof.
    induction X as [|x X IH]; [reflexivity|].
    cbn [map filter]. unfold tok at 1. destruct (len x =? m); cbn [map]; rewrite IH; reflexivity.
  Qed.

  Lemma by_longest_single a : by_longest mlen [a] = [a].
  Proof.
    unfold by_longest. simpl. rewrite Nat.max_0_r, Nat.eqb_refl. reflexivity.
  Qed.

  Lemma hd_map_firstn1 (L : list entry) : hd_error (map tk (firstn 1 L)) = hd_error (map tk L).
  Proof. destruct L; reflexivity. Qed.

  Lemma lr_pick_spec lm X :
    lr_pick lm (map tk X) = hd_error (map tk (stage34 lm true X)).
  Proof.
    unfold lr_pick, stage34. rewrite hd_map_firstn1. destruct lm; [|reflexivity].
    destruct X as [|a [|b X]]; [reflexivity| |].
    - rewrite by_longest_single. reflexivity.
    - change (map tk (a :: b :: X)) with (tk a :: tk b :: map tk X) at 1.
      cbv iota beta. change (tk a :: tk b :: map tk X) with (map tk (a :: b :: X)).
      rewrite max_len_map, filter_map_tok. reflexivity.
  Qed.

  Lemma glr_pick_spec lm go X :
    glr_pick lm go (map tk X) = map tk (stage34 lm go X).
  Proof.
    unfold glr_pick, stage34.
    assert (H : (if lm
                 then match map tk X with
                      | [] | [_] => map tk X
                      | _ => filter (fun '(_, n) => n =? max_len (map tk X)) (map tk X)
                      end
                 else map tk X) = map tk (if lm then by_longest mlen X else X)).
    { destruct lm; [|reflexivity].
      destruct X as [|a [|b X]]; [reflexivity| |].
      - rewrite by_longest_single. reflexivity.
      - change (map tk (a :: b :: X)) with (tk a :: tk b :: map tk X) at 1.
        cbv iota beta. change (tk a :: tk b :: map tk X) with (map tk (a :: b :: X)).
        rewrite max_len_map, filter_map_tok. reflexivity. }
    rewrite H. destruct go; [|reflexivity]. rewrite firstn_map. reflexivity.
  Qed.
End Pick.

(* ------------------------------------------------------------------ *)
(* the main argument: what the iterator yields on the sorted expected set *)

Lemma bool_cases (b : bool) : b = true \/ b = false.
Proof. destruct b; [left|right]; reflexivity. Qed.

Lemma list_cases {A} (l : list A) : l = [] \/ l <> [].
Proof. destruct l; [left; reflexivity|right; discriminate]. Qed.

Section Main.
  Variable ms : bool.
  Variable mlen : nat -> option nat.
  Variable terms : list entry.
  Hypothesis Hrange : range_ok_b ms terms = true.
  Hypothesis Hstr : str_len_ok_b terms mlen = true.

  Let mb := e_matches mlen.
  Let K := fun x : entry => term_key_nat ms (snd x).
  Let srt := ssort_nat K terms.
  Let l0 := filter mb terms.
  Let p := maxf e_prio l0.
  Let Pp := fun x : entry => e_prio x =? p.
  Let grpT := filter Pp terms.
  Let hi := filter (fun x => p <? e_prio x) srt.
  Let grp := filter Pp srt.
  Let lo := filter (fun x => e_prio x <? p) srt.

  (* stages 1 and 2 of the documented rule *)
  Definition sel2 : list entry :=
    let l1 := by_priority l0 in if ms then by_specific mlen l1 else l1.

  Lemma select_entries_sel2 lm go :
    select_entries mlen (mkLexFlags ms lm go) terms = stage34 mlen lm go sel2.
  Proof. reflexivity. Qed.

  Lemma srt_in x : In x srt <-> In x terms.
  Proof.
    split; intros H.
    - eapply Permutation_in; [apply Permutation_sym; apply ssort_perm|exact H].
    - eapply Permutation_in; [apply ssort_perm|exact H].
  Qed.

  Lemma range_str x k :
    In x terms -> ms = true -> t_strlen (snd x) = Some k -> 1 <= k < 1000.
  Proof.
    intros Hx Hms Hk. pose proof Hrange as Hr. unfold range_ok_b in Hr. rewrite Hms in Hr.
    cbn [negb orb] in Hr.
    rewrite forallb_forall in Hr. specialize (Hr x Hx). rewrite Hk in Hr.
    apply andb_true_iff in Hr. destruct Hr as [H1 H2].
    apply Nat.leb_le in H1. apply Nat.ltb_lt in H2. lia.
  Qed.

  Lemma K_bounds x : In x terms -> e_prio x * 1000 <= K x < e_prio x * 1000 + 1000.
  Proof.
    intros Hx. unfold K, term_key_nat, e_prio. destruct (bool_cases ms) as [Hms|Hms]; rewrite Hms; [|lia].
    destruct (t_strlen (snd x)) as [k|] eqn:Hk; [|lia].
    pose proof (range_str x k Hx Hms Hk). lia.
  Qed.

  Lemma K_plain x : ms && is_str (snd x) = false -> K x = e_prio x * 1000.
  Proof.
    unfold K, term_key_nat, e_prio, is_str. destruct (bool_cases ms) as [Hms|Hms]; rewrite Hms; [|lia].
    destruct (t_strlen (snd x)); cbn [andb]; [discriminate|lia].
  Qed.

  Lemma K_str x : In x terms -> ms = true -> is_str (snd x) = true -> e_prio x * 1000 + 1 <= K x.
  Proof.
    intros Hx Hms Hs. unfold K, term_key_nat, e_prio, is_str in *. rewrite Hms.
    destruct (t_strlen (snd x)) as [k|] eqn:Hk; [|discriminate].
    pose proof (range_str x k Hx Hms Hk). lia.
  Qed.

  Lemma prio_mono a b : In a terms -> In b terms -> K b <= K a -> e_prio b <= e_prio a.
  Proof.
    intros Ha Hb H. pose proof (K_bounds a Ha). pose proof (K_bounds b Hb). lia.
  Qed.

  Lemma srt_desc_prio : desc e_prio srt.
  Proof.
    apply (desc_mono K e_prio); [|apply ssort_sorted].
    intros a b Ha Hb. apply prio_mono; apply srt_in; assumption.
  Qed.

  Lemma srt_split : srt = hi ++ grp ++ lo.
  Proof. exact (desc_split3 e_prio p srt srt_desc_prio). Qed.

  Lemma l0_in x : In x l0 <-> In x terms /\ mb x = true.
  Proof. unfold l0. apply filter_In. Qed.

  Lemma match_prio_le x : In x terms -> mb x = true -> e_prio x <= p.
  Proof. intros Hx Hm. apply (maxf_ge e_prio l0 x). apply l0_in. tauto. Qed.

  Lemma hi_nomatch x : In x hi -> mb x = false.
  Proof.
    intros Hx. apply filter_In in Hx. destruct Hx as [Hx Hp]. apply srt_in in Hx.
    apply Nat.ltb_lt in Hp. destruct (mb x) eqn:E; [|reflexivity].
    pose proof (match_prio_le x Hx E). lia.
  Qed.

  Lemma grp_eq : grp = ssort_nat K grpT.
  Proof. unfold grp, grpT, srt. apply filter_ssort. Qed.

  Lemma grp_in x : In x grp <-> In x terms /\ e_prio x = p.
  Proof.
    unfold grp. rewrite filter_In, srt_in. unfold Pp. rewrite Nat.eqb_eq. tauto.
  Qed.

  Lemma lo_in x : In x lo <-> In x terms /\ e_prio x < p.
  Proof.
    unfold lo. rewrite filter_In, srt_in. rewrite Nat.ltb_lt. tauto.
  Qed.

  Lemma by_priority_l0 : by_priority l0 = filter mb grpT.
  Proof. unfold by_priority, grpT, l0. fold p. fold Pp. apply filter_comm. Qed.

  (* a string recognizer of the top priority matches (most-specific on) *)
  Definition top_string : bool :=
    ms && existsb (fun x => e_str x && (e_prio x =? p)) l0.

  Lemma no_top_string_grp x :
    top_string = false -> In x grp -> mb x = true -> ms && is_str (snd x) = false.
  Proof.
    unfold top_string. intros H Hx Hm. destruct (bool_cases ms) as [Hmc|Hmc]; rewrite Hmc in *; [|reflexivity].
    cbn [andb] in *.
    rewrite existsb_false_iff in H. apply grp_in in Hx. destruct Hx as [Hx Hp].
    specialize (H x (proj2 (l0_in x) (conj Hx Hm))).
    rewrite Hp, Nat.eqb_refl, andb_true_r in H. exact H.
  Qed.

  (* case B: no top string; the group's matches are stage 2 of the rule *)
  Lemma caseB_sel2 : top_string = false -> sel2 = filter mb grpT.
  Proof.
    intros H. unfold sel2. rewrite by_priority_l0. unfold top_string in H.
    destruct (bool_cases ms) as [Hmc|Hmc]; rewrite Hmc in *; [|reflexivity].
    unfold by_specific.
    rewrite (filter_none e_str (filter mb grpT)); [reflexivity|].
    intros x Hx. apply filter_In in Hx. destruct Hx as [Hx Hm].
    apply filter_In in Hx. destruct Hx as [Hx Hp]. apply Nat.eqb_eq in Hp.
    cbn [andb] in H. rewrite existsb_false_iff in H.
    specialize (H x (proj2 (l0_in x) (conj Hx Hm))).
    unfold Pp in Hp. rewrite Hp, Nat.eqb_refl, andb_true_r in H. exact H.
  Qed.

  Lemma caseB_filter_grp : top_string = false -> filter mb grp = filter mb grpT.
  Proof.
    intros H. rewrite grp_eq, filter_ssort. apply ssort_id.
    apply const_desc with (p * 1000). intros x Hx.
    apply filter_In in Hx. destruct Hx as [Hx Hm].
    assert (Hg : In x grp).
    { apply grp_in. apply filter_In in Hx. destruct Hx as [Hx Hp]. apply Nat.eqb_eq in Hp. tauto. }
    rewrite (K_plain x (no_top_string_grp x H Hg Hm)).
    apply grp_in in Hg. destruct Hg as [_ ->]. reflexivity.
  Qed.

  Lemma closer_is_last : closer ms grpT = last_error grp.
  Proof.
    rewrite grp_eq, (last_ssort (nat * term) K grpT). unfold closer.
    rewrite (@filter_min_shift (nat * term) (e_rank ms) K (p * 1000) grpT); [reflexivity|].
    intros x Hx. apply filter_In in Hx. destruct Hx as [_ Hp]. apply Nat.eqb_eq in Hp.
    unfold e_prio in Hp. unfold K, term_key_nat, e_rank. rewrite Hp. reflexivity.
  Qed.

  (* case A: a top string matches (most-specific on) *)
  Lemma grp_split_str :
    ms = true -> grp = filter e_str grp ++ filter (fun x => negb (e_str x)) grp.
  Proof.
    intros Hms. apply (desc_split_gen entry K e_str grp).
    - rewrite grp_eq. apply ssort_sorted.
    - intros a b Ha Hb Hab Sb. apply grp_in in Ha. apply grp_in in Hb.
      destruct Ha as [Ha Pa], Hb as [Hb Pb].
      destruct (e_str a) eqn:Sa; [reflexivity|].
      pose proof (K_str b Hb Hms Sb) as H1.
      assert (H2 : K a = e_prio a * 1000).
      { apply K_plain. change (is_str (snd a)) with (e_str a). rewrite Sa. apply andb_false_r. }
      lia.
  Qed.

  Let X := filter mb (filter e_str grpT).

  Lemma X_K x : ms = true -> In x X -> K x = p * 1000 + e_len mlen x.
  Proof.
    intros Hms Hx. unfold X in Hx. apply filter_In in Hx. destruct Hx as [Hx Hm].
    apply filter_In in Hx. destruct Hx as [Hx Hs]. apply filter_In in Hx. destruct Hx as [Hx Hp].
    apply Nat.eqb_eq in Hp. unfold e_prio in Hp.
    unfold K, term_key_nat, e_len. rewrite Hms, Hp.
    unfold e_str in Hs. destruct (t_strlen (snd x)) as [k|] eqn:Hk; [|discriminate].
    unfold mb, e_matches in Hm. destruct (mlen (fst x)) as [n|] eqn:Hn; [|discriminate].
    unfold str_len_ok_b in Hstr. rewrite forallb_forall in Hstr. specialize (Hstr x Hx).
    rewrite Hk, Hn in Hstr. apply Nat.eqb_eq in Hstr. lia.
  Qed.

  Lemma caseA_sel2 :
    top_string = true -> sel2 = firstn 1 (filter (fun x => K x =? maxf K X) X) /\ X <> [].
  Proof.
    unfold top_string. intros H. apply andb_true_iff in H. destruct H as [Hms Hex].
    assert (HX : X <> []).
    { apply existsb_exists in Hex. destruct Hex as [y [Hy Hsp]].
      apply andb_true_iff in Hsp. destruct Hsp as [Hs Hp]. apply l0_in in Hy. destruct Hy as [Hy Hm].
      intros E. assert (Hin : In y X).
      { unfold X. apply filter_In. split; [|exact Hm]. apply filter_In. split; [|exact Hs].
        apply filter_In. split; [exact Hy|exact Hp]. }
      rewrite E in Hin. destruct Hin. }
    split; [|exact HX].
    unfold sel2. rewrite Hms, by_priority_l0. unfold by_specific.
    assert (E : filter e_str (filter mb grpT) = X) by apply filter_comm.
    rewrite E. rewrite (@filter_max_shift entry (e_len mlen) K (p * 1000) X (fun x Hx => X_K x Hms Hx)).
    destruct X; [contradiction|reflexivity].
  Qed.

  Lemma caseA_filter_strs : filter mb (filter e_str grp) = ssort_nat K X.
  Proof. unfold X. rewrite grp_eq, !filter_ssort. reflexivity. Qed.

  Lemma firstn1_ssort_X :
    firstn 1 (ssort_nat K X) = firstn 1 (filter (fun x => K x =? maxf K X) X).
  Proof. rewrite !firstn1_hd, (hd_ssort entry K X). reflexivity. Qed.

  Lemma ssort_X_cons : X <> [] -> exists x r, ssort_nat K X = x :: r.
  Proof.
    intros H. destruct (ssort_nat K X) as [|x r] eqn:E; [|eauto].
    pose proof (ssort_perm entry K X) as HP. rewrite E in HP.
    apply Permutation_sym, Permutation_nil in HP. contradiction.
  Qed.

  Lemma known_class_unfold :
    known_class_b ms terms mlen =
    existsb (fun x => e_prio x <? p) l0 && negb top_string &&
    match last_error grp with Some c => negb (mb c) | None => false end.
  Proof.
    rewrite <- closer_is_last. reflexivity.
  Qed.

  (* what the iterator of the code yields: stage 2 of the rule, followed by
     leaked lower-priority matches exactly in the known class *)
  Lemma iterE_main :
    exists extra,
      iterE ms mlen srt = sel2 ++ extra /\
      (known_class_b ms terms mlen = false -> extra = []) /\
      (known_class_b ms terms mlen = true -> extra <> []) /\
      (sel2 = [] -> extra = []).
  Proof.
    destruct (list_cases l0) as [El0|Hne].
    - (* nothing matches *)
      exists []. assert (Hno : forall x, In x terms -> mb x = false).
      { apply filter_nil_iff. exact El0. }
      split; [|split; [reflexivity|split; [|reflexivity]]].
      + rewrite (iterE_nomatch ms mlen srt); [|intros x Hx; apply Hno; apply srt_in; exact Hx].
        unfold sel2. rewrite El0. destruct (bool_cases ms) as [Hmc|Hmc]; rewrite Hmc; reflexivity.
      + unfold known_class_b. change (filter (e_matches mlen) terms) with l0. rewrite El0. cbn [existsb andb]. discriminate.
    - destruct (maxf_in e_prio l0 Hne) as [xs [Hxs Hps]]. fold p in Hps.
      apply l0_in in Hxs. destruct Hxs as [Hxs Hms].
      assert (Hxg : In xs grp) by (apply grp_in; tauto).
      rewrite srt_split, (iterE_skip ms mlen hi (grp ++ lo) hi_nomatch).
      destruct top_string eqn:Htop.
      + (* case A *)
        destruct (caseA_sel2 Htop) as [Hsel HX].
        exists []. rewrite app_nil_r.
        split; [|split; [reflexivity|split; [|reflexivity]]].
        * unfold top_string in Htop. apply andb_true_iff in Htop. destruct Htop as [Hm _].
          rewrite (grp_split_str Hm), <- app_assoc.
          rewrite (iterE_group_ms ms mlen (filter e_str grp)); [|exact Hm|].
          -- fold mb. rewrite caseA_filter_strs. destruct (ssort_X_cons HX) as [x [r Hxr]].
             rewrite Hsel, <- firstn1_ssort_X, Hxr. reflexivity.
          -- intros x Hx. apply filter_In in Hx. exact (proj2 Hx).
        * rewrite known_class_unfold, Htop. cbn [negb]. rewrite andb_false_r. discriminate.
      + (* case B *)
        assert (Hg1 : forall x, In x grp -> e_prio x = p) by (intros x Hx; apply grp_in in Hx; tauto).
        assert (Hg2 : forall x, In x lo -> e_prio x <> p) by (intros x Hx; apply lo_in in Hx; lia).
        pose proof (iterE_group ms mlen p grp lo Hg1 Hg2
                      (fun x Hx Hm => no_top_string_grp x Htop Hx Hm)) as Hit.
        fold mb in Hit. rewrite (caseB_filter_grp Htop), <- (caseB_sel2 Htop) in Hit.
        destruct (last_error_some grp) as [c [Hc Hcin]]; [intros E; rewrite E in Hxg; destruct Hxg|].
        rewrite Hc in Hit.
        exists (if mb c then [] else iterE ms mlen lo). split; [exact Hit|].
        rewrite known_class_unfold, Htop, Hc. cbn [negb]. rewrite andb_true_r.
        split; [|split].
        * intros Hk. destruct (mb c) eqn:Ec; [reflexivity|].
          cbn [negb] in Hk. rewrite andb_true_r in Hk. rewrite existsb_false_iff in Hk.
          apply iterE_nomatch. intros x Hx. apply lo_in in Hx. destruct Hx as [Hx Hlt].
          fold mb. destruct (mb x) eqn:Ex; [|reflexivity].
          specialize (Hk x (proj2 (l0_in x) (conj Hx Ex))). apply Nat.ltb_ge in Hk. lia.
        * intros Hk. apply andb_true_iff in Hk. destruct Hk as [Hex Hc'].
          destruct (mb c); [discriminate|].
          apply iterE_some. apply existsb_exists in Hex. destruct Hex as [y [Hy Hlt]].
          apply l0_in in Hy. apply Nat.ltb_lt in Hlt. exists y. split; [apply lo_in; tauto|tauto].
        * intros Hs. rewrite (caseB_sel2 Htop) in Hs. rewrite filter_nil_iff in Hs.
          assert (Hxt : In xs grpT) by (apply filter_In; split; [exact Hxs|apply Nat.eqb_eq; exact Hps]).
          rewrite (Hs xs Hxt) in Hms. discriminate.
  Qed.

  (* the repaired iterator yields stage 2 of the rule, always *)
  Lemma iterF_main : iterF ms mlen false srt = sel2.
  Proof.
    destruct (list_cases l0) as [El0|Hne].
    - assert (Hno : forall x, In x terms -> mb x = false).
      { apply filter_nil_iff. exact El0. }
      rewrite <- (app_nil_r srt).
      rewrite (iterF_skip ms mlen srt []); [|intros x Hx; apply Hno; apply srt_in; exact Hx].
      unfold sel2. rewrite El0. destruct (bool_cases ms) as [Hmc|Hmc]; rewrite Hmc; reflexivity.
    - destruct (maxf_in e_prio l0 Hne) as [xs [Hxs Hps]]. fold p in Hps.
      apply l0_in in Hxs. destruct Hxs as [Hxs Hms].
      assert (Hxg : In xs grp) by (apply grp_in; tauto).
      rewrite srt_split, (iterF_skip ms mlen hi (grp ++ lo) hi_nomatch).
      destruct top_string eqn:Htop.
      + destruct (caseA_sel2 Htop) as [Hsel HX].
        unfold top_string in Htop. apply andb_true_iff in Htop. destruct Htop as [Hm _].
        rewrite (grp_split_str Hm), <- app_assoc.
        rewrite (iterF_group_ms ms mlen (filter e_str grp)); [|exact Hm|].
        * fold mb. rewrite caseA_filter_strs. destruct (ssort_X_cons HX) as [x [r Hxr]].
          rewrite Hsel, <- firstn1_ssort_X, Hxr. reflexivity.
        * intros x Hx. apply filter_In in Hx. exact (proj2 Hx).
      + set (Q := fun x : entry => ms && e_str x).
        assert (Hsplit : grp = filter Q grp ++ filter (fun x => negb (Q x)) grp).
        { apply (desc_split_gen entry K Q grp).
          - rewrite grp_eq. apply ssort_sorted.
          - intros a b Ha Hb Hab Qb. unfold Q in *. apply andb_true_iff in Qb. destruct Qb as [Hm Sb].
            rewrite Hm. cbn [andb]. apply grp_in in Ha. apply grp_in in Hb.
            destruct Ha as [Ha Pa], Hb as [Hb Pb].
            destruct (e_str a) eqn:Sa; [reflexivity|].
            pose proof (K_str b Hb Hm Sb) as H1.
            assert (H2 : K a = e_prio a * 1000).
            { apply K_plain. change (is_str (snd a)) with (e_str a). rewrite Sa. apply andb_false_r. }
            lia. }
        assert (HQno : forall x, In x (filter Q grp) -> mb x = false).
        { intros x Hx. apply filter_In in Hx. destruct Hx as [Hx HQ].
          destruct (mb x) eqn:Ex; [|reflexivity].
          pose proof (no_top_string_grp x Htop Hx Ex) as Hn. unfold Q in HQ.
          change (is_str (snd x)) with (e_str x) in Hn. congruence. }
        assert (Hxr : In xs (filter (fun x => negb (Q x)) grp)).
        { apply filter_In. split; [exact Hxg|]. unfold Q.
          pose proof (no_top_string_grp xs Htop Hxg Hms) as Hn.
          change (is_str (snd xs)) with (e_str xs) in Hn. rewrite Hn. reflexivity. }
        rewrite Hsplit at 1. rewrite <- app_assoc.
        rewrite (iterF_skip ms mlen (filter Q grp) _ HQno).
        rewrite (iterF_group ms mlen p (filter (fun x => negb (Q x)) grp) lo false).
        * assert (Hex : existsb mb (filter (fun x => negb (Q x)) grp) = true).
          { apply existsb_exists. exists xs. split; [exact Hxr|exact Hms]. }
          fold mb. rewrite Hex. cbn [orb]. rewrite app_nil_r.
          assert (Hf : filter mb grp = filter mb (filter (fun x => negb (Q x)) grp)).
          { rewrite Hsplit at 1. rewrite filter_app, (filter_none mb (filter Q grp) HQno). reflexivity. }
          rewrite <- Hf, (caseB_filter_grp Htop), <- (caseB_sel2 Htop). reflexivity.
        * intros x Hx. apply filter_In in Hx. apply grp_in. tauto.
        * intros x Hx. apply lo_in in Hx. lia.
        * intros x Hx. apply filter_In in Hx. destruct Hx as [_ HQ]. unfold Q in HQ.
          change (is_str (snd x)) with (e_str x). apply negb_true_iff in HQ. exact HQ.
        * intros E. rewrite E in Hxr. destruct Hxr.
  Qed.
End Main.

(* ------------------------------------------------------------------ *)
(* assembling: sort_terminals o TokenIterator o parser filter vs select *)

Notation skey ms := (fun x : nat * term => term_key_nat ms (snd x)).

Lemma sort_flags_fun ms terms : sort_flags ms terms = flags_fun ms (ssort_nat (skey ms) terms).
Proof.
  unfold sort_flags.
  rewrite (sort_bridge (fun x : nat * term => term_key ms (snd x)) (skey ms) terms (fun x => key_bridge ms (snd x))).
  apply finish_flags_fun.
Qed.

Lemma token_iter_from_sorted ms mlen terms :
  token_iter_from mlen false (sort_flags ms terms) =
  map (tok mlen) (iterF ms mlen false (ssort_nat (skey ms) terms)).
Proof. rewrite sort_flags_fun. apply token_iter_from_flags. Qed.

Lemma select_sel2 ms lm go mlen terms :
  select mlen (mkLexFlags ms lm go) terms = map (tok mlen) (stage34 mlen lm go (sel2 ms mlen terms)).
Proof. reflexivity. Qed.

(* the iterator satisfies the rule without any side condition on the match function *)
Lemma lexer_glr_spec_main ms lm go terms mlen :
  range_ok_b ms terms = true -> str_len_ok_b terms mlen = true ->
  select mlen (mkLexFlags ms lm go) terms = lex_glr ms lm go terms mlen.
Proof.
  intros Hr Hs. unfold lex_glr, token_iter. rewrite token_iter_from_sorted, (iterF_main ms mlen terms Hr Hs), glr_pick_spec.
  apply select_sel2.
Qed.

Lemma lexer_lr_spec_main ms lm terms mlen :
  range_ok_b ms terms = true -> str_len_ok_b terms mlen = true ->
  hd_error (select mlen (mkLexFlags ms lm true) terms) = lex_lr ms lm terms mlen.
Proof.
  intros Hr Hs. unfold lex_lr, token_iter. rewrite token_iter_from_sorted, (iterF_main ms mlen terms Hr Hs), lr_pick_spec, select_sel2.
  reflexivity.
Qed.

(* ------------------------------------------------------------------ *)
(* the sort and the flags, stated without auxiliary functions *)

Lemma to_nat_bridge {A} (kN : A -> N) x : kN x = N.of_nat (N.to_nat (kN x)).
Proof. symmetry. apply N2Nat.id. Qed.

Lemma eqbN_nat (a k : N) : (a =? k)%N = (N.to_nat a =? N.to_nat k).
Proof.
  destruct (N.eqb_spec a k) as [E|E]; destruct (Nat.eqb_spec (N.to_nat a) (N.to_nat k)) as [E'|E'];
    try reflexivity; [subst; contradiction|apply N2Nat.inj in E'; contradiction].
Qed.

Lemma ssortN_spec {A} (kN : A -> N) l :
  Permutation l (ssort kN l) /\
  StronglySorted (fun a b => (kN b <= kN a)%N) (ssort kN l) /\
  (forall k, filter (fun x => (kN x =? k)%N) (ssort kN l) = filter (fun x => (kN x =? k)%N) l).
Proof.
  set (kn := fun x => N.to_nat (kN x)).
  rewrite (sort_bridge kN kn l (to_nat_bridge kN)).
  split; [apply ssort_perm|split].
  - pose proof (ssort_sorted A kn l) as H. unfold desc in H.
    induction H as [|a m Hm IH Hall]; [constructor|]. constructor; [exact IH|].
    rewrite Forall_forall in *. intros b Hb. specialize (Hall b Hb). unfold kn in Hall. lia.
  - intros k.
    rewrite (filter_ext (fun x => (kN x =? k)%N) (fun x => kn x =? N.to_nat k) (fun x => eqbN_nat (kN x) k)).
    rewrite (filter_ext (fun x => (kN x =? k)%N) (fun x => kn x =? N.to_nat k) (fun x => eqbN_nat (kN x) k)).
    apply ssort_stable.
Qed.

Lemma ssortN_unique {A} (kN : A -> N) l l' :
  StronglySorted (fun a b => (kN b <= kN a)%N) l' ->
  (forall k, filter (fun x => (kN x =? k)%N) l' = filter (fun x => (kN x =? k)%N) l) ->
  l' = ssort kN l.
Proof.
  intros Hs Hf. set (kn := fun x => N.to_nat (kN x)).
  rewrite (sort_bridge kN kn l (to_nat_bridge kN)).
  apply sort_unique_main.
  - unfold desc. clear Hf. induction Hs as [|a m Hm IH Hall]; [constructor|]. constructor; [exact IH|].
    rewrite Forall_forall in *. intros b Hb. specialize (Hall b Hb). unfold kn. lia.
  - intros k. specialize (Hf (N.of_nat k)).
    assert (E : forall x, (kN x =? N.of_nat k)%N = (kn x =? k)).
    { intros x. rewrite eqbN_nat, Nat2N.id. reflexivity. }
    rewrite (filter_ext _ _ E) in Hf. rewrite (filter_ext _ _ E) in Hf. exact Hf.
Qed.

Lemma sort_stable_spec_main ms terms :
  let key := fun x : nat * term => term_key ms (snd x) in
  let sorted := ssort key terms in
  Permutation terms sorted /\
  StronglySorted (fun a b => (key b <= key a)%N) sorted /\
  (forall k, filter (fun x => (key x =? k)%N) sorted = filter (fun x => (key x =? k)%N) terms).
Proof. cbv zeta. apply ssortN_spec. Qed.

Lemma flags_fun_nth ms l : forall i x,
  nth_error l i = Some x ->
  nth_error (flags_fun ms l) i =
  Some (fst x, (ms && is_str (snd x)) ||
               match nth_error l (i + 1) with
               | Some y => negb (t_prio (snd y) =? t_prio (snd x))
               | None => false
               end).
Proof.
  induction l as [|a l IH]; intros i x H; [destruct i; discriminate|].
  destruct i as [|i].
  - inversion H; subst. cbn [flags_fun nth_error]. unfold fin_of. destruct l; reflexivity.
  - cbn [flags_fun nth_error] in *. rewrite (IH i x H). reflexivity.
Qed.

Lemma flags_fun_length ms l : length (flags_fun ms l) = length l.
Proof. induction l; simpl; congruence. Qed.

Lemma sort_flags_spec_main ms terms :
  let sorted := ssort (fun x : nat * term => term_key ms (snd x)) terms in
  length (sort_flags ms terms) = length sorted /\
  forall i x, nth_error sorted i = Some x ->
    nth_error (sort_flags ms terms) i =
    Some (fst x, (ms && is_str (snd x)) ||
                 match nth_error sorted (i + 1) with
                 | Some y => negb (t_prio (snd y) =? t_prio (snd x))
                 | None => false
                 end).
Proof.
  cbv zeta. rewrite sort_flags_fun.
  rewrite (sort_bridge (fun x : nat * term => term_key ms (snd x)) (skey ms) terms (fun x => key_bridge ms (snd x))).
  split; [apply flags_fun_length|apply flags_fun_nth].
Qed.

(* ------------------------------------------------------------------ *)
(* from the correspondence boolean on a dumped table to its states *)

Lemma sorted_eqb_eq a b : sorted_eqb a b = true -> a = b.
Proof.
  unfold sorted_eqb. intros H. apply andb_true_iff in H. destruct H as [Hl Hf].
  apply Nat.eqb_eq in Hl. revert b Hl Hf. induction a as [|[t f] a IH]; intros [|[t' f'] b] Hl Hf;
    try discriminate; [reflexivity|].
  cbn [combine forallb] in Hf. apply andb_true_iff in Hf. destruct Hf as [H1 H2].
  apply andb_true_iff in H1. destruct H1 as [Ht Hb].
  apply Nat.eqb_eq in Ht. apply Bool.eqb_prop in Hb. subst.
  f_equal. apply IH; [simpl in Hl; lia|exact H2].
Qed.

Lemma sorted_ok_state g ms T st :
  sorted_ok_b g ms T = true -> In st (t_states T) ->
  exists terms, collect_terms g 0 (s_actions st) = Some terms /\ s_sorted st = sort_flags ms terms.
Proof.
  unfold sorted_ok_b. intros H Hin. rewrite forallb_forall in H. specialize (H st Hin).
  unfold sort_terminals in H. destruct (collect_terms g 0 (s_actions st)) as [terms|]; [|discriminate].
  exists terms. split; [reflexivity|]. symmetry. apply sorted_eqb_eq. exact H.
Qed.

(* the collected entries are exactly the terminals with a non-empty cell,
   with their Terminal data, in ascending index (= grammar) order *)
Lemma collect_terms_in g cells : forall i l,
  collect_terms g i cells = Some l ->
  forall idx t, In (idx, t) l <->
    (i <= idx /\ nth_error (g_terms g) idx = Some t /\
     exists c, nth_error cells (idx - i) = Some c /\ c <> []).
Proof.
  induction cells as [|c cells IH]; intros i l H idx t.
  - inversion H; subst. split; [intros []|]. intros [_ [_ [c [Hc _]]]]. destruct (idx - i); discriminate.
  - cbn [collect_terms] in H. destruct c as [|a c].
    + rewrite (IH (i + 1) l H idx t). split.
      * intros [Hi [Ht [c [Hc Hne]]]]. split; [lia|split; [exact Ht|]]. exists c. split; [|exact Hne].
        replace (idx - i) with (S (idx - (i + 1))) by lia. exact Hc.
      * intros [Hi [Ht [c [Hc Hne]]]].
        destruct (Nat.eq_dec idx i) as [->|Hn].
        { rewrite Nat.sub_diag in Hc. inversion Hc; subst. contradiction. }
        split; [lia|split; [exact Ht|]]. exists c. split; [|exact Hne].
        replace (idx - i) with (S (idx - (i + 1))) in Hc by lia. exact Hc.
    + destruct (nth_error (g_terms g) i) as [ti|] eqn:Eti; [|discriminate].
      destruct (collect_terms g (i + 1) cells) as [l'|] eqn:El; [|discriminate].
      inversion H; subst. clear H. cbn [In]. rewrite (IH (i + 1) l' El idx t). split.
      * intros [Heq|[Hi [Ht [c' [Hc Hne]]]]].
        -- inversion Heq; subst. split; [lia|split; [exact Eti|]]. exists (a :: c).
           rewrite Nat.sub_diag. split; [reflexivity|discriminate].
        -- split; [lia|split; [exact Ht|]]. exists c'. split; [|exact Hne].
           replace (idx - i) with (S (idx - (i + 1))) by lia. exact Hc.
      * intros [Hi [Ht [c' [Hc Hne]]]].
        destruct (Nat.eq_dec idx i) as [->|Hn].
        { left. rewrite Eti in Ht. inversion Ht; reflexivity. }
        right. split; [lia|split; [exact Ht|]]. exists c'. split; [|exact Hne].
        replace (idx - i) with (S (idx - (i + 1))) in Hc by lia. exact Hc.
Qed.

Lemma collect_terms_order g cells : forall i l,
  collect_terms g i cells = Some l ->
  StronglySorted lt (map fst l) /\ (forall x, In x l -> i <= fst x).
Proof.
  induction cells as [|c cells IH]; intros i l H.
  - inversion H; subst. split; [constructor|intros x []].
  - cbn [collect_terms] in H. destruct c as [|a c].
    + destruct (IH (i + 1) l H) as [H1 H2]. split; [exact H1|].
      intros x Hx. specialize (H2 x Hx). lia.
    + destruct (nth_error (g_terms g) i) as [ti|]; [|discriminate].
      destruct (collect_terms g (i + 1) cells) as [l'|] eqn:El; [|discriminate].
      inversion H; subst. destruct (IH (i + 1) l' El) as [H1 H2]. split.
      * cbn [map fst]. constructor; [exact H1|]. rewrite Forall_forall. intros y Hy.
        apply in_map_iff in Hy. destruct Hy as [x [<- Hx]]. specialize (H2 x Hx). lia.
      * intros x [<-|Hx]; [simpl; lia|]. specialize (H2 x Hx). lia.
Qed.
