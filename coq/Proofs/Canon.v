(* Lemmas about the reference canonical LR(1) construction of Spec/Canonical.v:
   item sets, our nullable / FIRST fixpoints against their inductive
   specifications, closure, goto, and the work-list over states. *)
From RV Require Import Spec.Canonical.

Scheme nullable_sym_min := Minimality for nullable_sym Sort Prop
  with nullable_seq_min := Minimality for nullable_seq Sort Prop.

(* ------------------------------------------------------------------ *)
(* items and item sets *)

Lemma citem_cmp_eq x y : citem_cmp x y = Eq -> x = y.
Proof.
  destruct x as [[p i] a], y as [[q j] b]; cbn.
  destruct (Nat.compare_spec p q); try discriminate.
  destruct (Nat.compare_spec i j); try discriminate.
  destruct (Nat.compare_spec a b); try discriminate.
  intros _; subst; reflexivity.
Qed.

Lemma citem_cmp_refl x : citem_cmp x x = Eq.
Proof. destruct x as [[p i] a]; cbn. rewrite !Nat.compare_refl. reflexivity. Qed.

Lemma citem_eqb_eq x y : citem_eqb x y = true <-> x = y.
Proof.
  unfold citem_eqb. split.
  - destruct (citem_cmp x y) eqn:E; try discriminate. intros _. apply citem_cmp_eq; exact E.
  - intros ->. rewrite citem_cmp_refl. reflexivity.
Qed.

Lemma cmem_In x l : cmem x l = true <-> In x l.
Proof.
  unfold cmem. rewrite existsb_exists. split.
  - intros [y [Hy He]]. apply citem_eqb_eq in He. subst; exact Hy.
  - intros H. exists x. split; [exact H|apply citem_eqb_eq; reflexivity].
Qed.

Lemma ins_opt_some x : forall l l', ins_opt x l = Some l' -> forall z, In z l' <-> z = x \/ In z l.
Proof.
  induction l as [|y r IH]; intros l' H z; cbn in H.
  - inversion H; subst. cbn. intuition.
  - destruct (citem_cmp x y) eqn:E; try discriminate.
    + inversion H; subst. cbn. intuition.
    + destruct (ins_opt x r) as [r'|] eqn:E'; [|discriminate]. inversion H; subst.
      cbn. rewrite (IH r' eq_refl z). intuition.
Qed.

Lemma ins_opt_none x : forall l, ins_opt x l = None -> In x l.
Proof.
  induction l as [|y r IH]; cbn; intros H; [discriminate|].
  destruct (citem_cmp x y) eqn:E; try discriminate.
  - left. symmetry. apply citem_cmp_eq; exact E.
  - destruct (ins_opt x r); [discriminate|]. right. apply IH; reflexivity.
Qed.

Lemma In_ins x l z : In z (ins x l) <-> z = x \/ In z l.
Proof.
  unfold ins. destruct (ins_opt x l) as [l'|] eqn:E.
  - apply (ins_opt_some x l l' E).
  - apply ins_opt_none in E. split; [tauto|]. intros [->|H]; assumption.
Qed.

Lemma In_norm l z : In z (norm l) <-> In z l.
Proof.
  induction l as [|y r IH]; cbn; [tauto|]. rewrite In_ins, IH. intuition.
Qed.

Lemma cstate_eqb_eq : forall l1 l2, cstate_eqb l1 l2 = true -> l1 = l2.
Proof.
  induction l1 as [|x r IH]; destruct l2 as [|y r2]; cbn; intros H; try discriminate; [reflexivity|].
  destruct (citem_eqb x y) eqn:E; [|discriminate]. apply citem_eqb_eq in E. subst.
  f_equal. apply IH; exact H.
Qed.

Lemma dedupe_cons y r : dedupe (y :: r) = if memb y (dedupe r) then dedupe r else y :: dedupe r.
Proof. reflexivity. Qed.

Lemma In_dedupe l x : In x (dedupe l) <-> In x l.
Proof.
  induction l as [|y r IH]; [cbn; tauto|]. rewrite dedupe_cons.
  destruct (memb y (dedupe r)) eqn:E.
  - apply memb_In in E. rewrite IH. split; [intros H; right; exact H|]. intros [<-|H]; [|exact H].
    apply IH; exact E.
  - cbn [In]. rewrite IH. tauto.
Qed.

Lemma NoDup_dedupe l : NoDup (dedupe l).
Proof.
  induction l as [|y r IH]; [constructor|]. rewrite dedupe_cons.
  destruct (memb y (dedupe r)) eqn:E; [exact IH|].
  constructor; [|exact IH]. apply memb_false; exact E.
Qed.

Lemma assoc_In X : forall row v, assoc X row = Some v -> In (X, v) row.
Proof.
  induction row as [|[Y w] r IH]; cbn; intros v H; [discriminate|].
  destruct (Y =? X) eqn:E.
  - apply Nat.eqb_eq in E. inversion H; subst. left; reflexivity.
  - right. apply IH; exact H.
Qed.

Lemma assoc_None X : forall row, assoc X row = None -> forall v, ~ In (X, v) row.
Proof.
  induction row as [|[Y w] r IH]; cbn; intros H v; [tauto|].
  destruct (Y =? X) eqn:E; [discriminate|]. apply Nat.eqb_neq in E.
  intros [H1|H1]; [inversion H1; congruence|]. exact (IH H v H1).
Qed.

Lemma nth_error_seq : forall n s X, nth_error (seq s n) X = if X <? n then Some (s + X) else None.
Proof.
  induction n as [|n IH]; intros s X.
  - destruct X; reflexivity.
  - destruct X as [|X].
    + simpl. rewrite Nat.add_0_r. reflexivity.
    + simpl seq. simpl nth_error. rewrite IH. change (S X <? S n) with (X <? n).
      destruct (X <? n); [|reflexivity]. rewrite Nat.add_succ_r. reflexivity.
Qed.

Lemma fst_of_map_seq (f : nat -> list nat) n X :
  fst_of (map f (seq 0 n)) X = if X <? n then f X else [].
Proof.
  unfold fst_of. rewrite nth_error_map, nth_error_seq. destruct (X <? n); reflexivity.
Qed.

Lemma add_all_cons y r acc :
  add_all (y :: r) acc = if memb y (add_all r acc) then add_all r acc else y :: add_all r acc.
Proof. reflexivity. Qed.

Lemma In_add_all l acc a : In a (add_all l acc) <-> In a l \/ In a acc.
Proof.
  induction l as [|y r IH]; [cbn; tauto|]. rewrite add_all_cons.
  destruct (memb y (add_all r acc)) eqn:E.
  - apply memb_In in E. rewrite IH. split; [cbn; tauto|]. intros [[<-|H]|H]; [apply IH; exact E|tauto|tauto].
  - cbn [In]. rewrite IH. tauto.
Qed.

(* ------------------------------------------------------------------ *)
(* nullable *)

Section Nullable.
Variable g : grammar.

Lemma all_in_spec N l : all_in N l = true <-> (forall x, In x l -> In x N).
Proof.
  unfold all_in. rewrite forallb_forall. split; intros H x Hx.
  - apply memb_In, H, Hx.
  - apply memb_In, H, Hx.
Qed.

Lemma nullable_seq_forall l : (forall x, In x l -> nullable_sym g x) <-> nullable_seq g l.
Proof.
  induction l as [|y r IH]; split.
  - intros _. constructor.
  - intros _ x Hx. cbn in Hx. contradiction.
  - intros H. constructor; [apply H; left; reflexivity|]. apply IH. intros x Hx. apply H; right; exact Hx.
  - intros H x Hx. inversion H as [|y' r' Hy Hr]; subst. destruct Hx as [->|Hx]; [exact Hy|].
    destruct IH as [_ IH2]. exact (IH2 Hr x Hx).
Qed.

Definition nstep_f (N : list nat) (pr : prod) (acc : list nat) : list nat :=
  if all_in N (p_rhs pr)
  then (if memb (p_lhs pr) acc then acc else p_lhs pr :: acc)
  else acc.

Lemma nstep_fold_spec N : forall prods X,
  In X (fold_right (nstep_f N) N prods) <->
  In X N \/ exists pr, In pr prods /\ all_in N (p_rhs pr) = true /\ p_lhs pr = X.
Proof.
  induction prods as [|pr r IH]; intros X; cbn.
  - split; [tauto|]. intros [H|[pr [[] _]]]; exact H.
  - unfold nstep_f at 1. destruct (all_in N (p_rhs pr)) eqn:E.
    + destruct (memb (p_lhs pr) (fold_right (nstep_f N) N r)) eqn:E2.
      * rewrite IH. split.
        -- intros [H|[pr' [H1 H2]]]; [left; exact H|right; exists pr'; tauto].
        -- intros [H|[pr' [[->|H1] [H2 H3]]]]; [left; exact H| |right; exists pr'; tauto].
           apply memb_In in E2. subst X. apply IH; exact E2.
      * cbn. rewrite IH. split.
        -- intros [H|[H|[pr' [H1 H2]]]]; [right; exists pr; tauto|left; exact H|right; exists pr'; tauto].
        -- intros [H|[pr' [[->|H1] [H2 H3]]]]; [right; left; exact H|left; exact H3|].
           right; right; exists pr'; tauto.
    + rewrite IH. split.
      * intros [H|[pr' [H1 H2]]]; [left; exact H|right; exists pr'; tauto].
      * intros [H|[pr' [[->|H1] [H2 H3]]]]; [left; exact H|congruence|right; exists pr'; tauto].
Qed.

Lemma nullable_step_spec N X :
  In X (nullable_step g N) <->
  In X N \/ exists pr, In pr (g_prods g) /\ all_in N (p_rhs pr) = true /\ p_lhs pr = X.
Proof. apply nstep_fold_spec. Qed.

Definition nsound (N : list nat) : Prop := forall X, In X N -> nullable_sym g X.

Lemma nullable_step_sound N : nsound N -> nsound (nullable_step g N).
Proof.
  intros HN X HX. apply nullable_step_spec in HX. destruct HX as [HX|[pr [Hin [Hall Hl]]]]; [apply HN; exact HX|].
  subst X. apply In_nth_error in Hin. destruct Hin as [p Hp].
  apply (NullSym g p pr Hp). apply nullable_seq_forall. intros x Hx.
  apply HN. rewrite all_in_spec in Hall. apply Hall; exact Hx.
Qed.

Lemma iter_sound n : forall N, nsound N -> nsound (iter_n (nullable_step g) n N).
Proof. induction n as [|n IH]; intros N HN; cbn; [exact HN|]. apply IH, nullable_step_sound, HN. Qed.

Lemma nullable_closed_complete N :
  subsetb (nullable_step g N) N = true -> forall X, nullable_sym g X -> In X N.
Proof.
  intros Hc. rewrite subsetb_spec in Hc.
  apply (nullable_sym_min g (fun X => In X N) (fun l => forall x, In x l -> In x N)).
  - intros p pr Hp _ IH. apply Hc. apply nullable_step_spec. right. exists pr.
    split; [eapply nth_error_In; exact Hp|]. split; [|reflexivity]. apply all_in_spec; exact IH.
  - cbn beta. intros x Hx. cbn in Hx. contradiction.
  - cbn beta. intros x r _ Hx _ Hr y Hy. destruct Hy as [<-|Hy]; [exact Hx|apply Hr; exact Hy].
Qed.

Theorem nullable_set_spec N : nullable_set g = Some N -> forall X, In X N <-> nullable_sym g X.
Proof.
  unfold nullable_set. destruct (subsetb _ _) eqn:E; [|discriminate]. intros H; inversion H; subst N. clear H.
  intros X. split.
  - apply (iter_sound (S (g_nnonterm g)) []). intros Y HY. cbn in HY. contradiction.
  - apply nullable_closed_complete; exact E.
Qed.

Lemma all_in_nullable N l :
  (forall X, In X N <-> nullable_sym g X) -> (all_in N l = true <-> nullable_seq g l).
Proof.
  intros HN. rewrite all_in_spec, <- nullable_seq_forall. split; intros H x Hx; apply HN, H, Hx.
Qed.

Lemma rn_len_spec N l :
  (forall X, In X N <-> nullable_sym g X) ->
  rn_len N l <= length l /\ nullable_seq g (skipn (rn_len N l) l) /\
  forall j, j < rn_len N l -> ~ nullable_seq g (skipn j l).
Proof.
  intros HN. induction l as [|x r [IH1 [IH2 IH3]]]; cbn [rn_len].
  - cbn. split; [lia|]. split; [constructor|]. intros j Hj; lia.
  - destruct ((rn_len N r =? 0) && memb x N) eqn:E.
    + apply andb_true_iff in E. destruct E as [E1 E2]. apply Nat.eqb_eq in E1. apply memb_In in E2.
      split; [lia|]. split; [|intros j Hj; lia]. cbn. constructor; [apply HN; exact E2|].
      rewrite E1 in IH2. exact IH2.
    + split; [cbn; lia|]. split; [exact IH2|]. intros j Hj Hn. destruct j as [|j].
      * cbn in Hn. inversion Hn as [|x' r' Hx Hr]; subst.
        apply andb_false_iff in E. destruct E as [E|E].
        -- apply Nat.eqb_neq in E. apply (IH3 0); [lia|exact Hr].
        -- apply memb_false in E. apply E, HN, Hx.
      * cbn in Hn. apply (IH3 j); [lia|exact Hn].
Qed.

End Nullable.

(* ------------------------------------------------------------------ *)
(* FIRST *)

Section First.
Variable g : grammar.
Variable N : list nat.
Hypothesis HN : forall X, In X N <-> nullable_sym g X.

Lemma all_in_cons x l : all_in N (x :: l) = memb x N && all_in N l.
Proof. reflexivity. Qed.

Lemma first_rhs_spec F : forall beta a,
  In a (first_rhs N F beta) <->
  exists k Y, nth_error beta k = Some Y /\ all_in N (firstn k beta) = true /\ In a (fst_of F Y).
Proof.
  induction beta as [|x r IH]; intros a.
  - cbn. split; [tauto|]. intros [k [Y [H _]]]. destruct k; discriminate.
  - cbn [first_rhs]. rewrite in_app_iff. split.
    + intros [H|H].
      * exists 0, x. cbn. tauto.
      * destruct (memb x N) eqn:E; [|contradiction]. apply IH in H. destruct H as [k [Y [H1 [H2 H3]]]].
        exists (S k), Y. cbn [nth_error firstn]. rewrite all_in_cons, E, H2. tauto.
    + intros [k [Y [H1 [H2 H3]]]]. destruct k as [|k].
      * cbn in H1. inversion H1; subst. left; exact H3.
      * right. cbn [nth_error firstn] in H1, H2. rewrite all_in_cons in H2. apply andb_true_iff in H2.
        destruct H2 as [E H2]. rewrite E. apply IH. exists k, Y. tauto.
Qed.

Lemma first_seq_iff : forall beta a,
  first_seq g beta a <->
  exists k Y, nth_error beta k = Some Y /\ nullable_seq g (firstn k beta) /\ first_sym g Y a.
Proof.
  intros beta a. split.
  - induction 1 as [x r a Hf|x r a Hn _ [k [Y [H1 [H2 H3]]]]].
    + exists 0, x. cbn. split; [reflexivity|]. split; [constructor|exact Hf].
    + exists (S k), Y. cbn. split; [exact H1|]. split; [constructor; assumption|exact H3].
  - intros [k [Y [H1 [H2 H3]]]]. revert beta H1 H2. induction k as [|k IH]; intros beta H1 H2.
    + destruct beta as [|x r]; cbn in H1; [discriminate|]. inversion H1; subst. apply FSHead; exact H3.
    + destruct beta as [|x r]; cbn in H1; [discriminate|]. cbn in H2. inversion H2; subst.
      apply FSSkip; [assumption|]. apply IH; assumption.
Qed.

Definition first_f (F : list (list nat)) (X : nat) (pr : prod) (acc : list nat) : list nat :=
  if p_lhs pr =? X then add_all (first_rhs N F (p_rhs pr)) acc else acc.

Lemma first_fold_spec F X base : forall prods a,
  In a (fold_right (first_f F X) base prods) <->
  In a base \/ exists pr, In pr prods /\ p_lhs pr = X /\ In a (first_rhs N F (p_rhs pr)).
Proof.
  induction prods as [|pr r IH]; intros a; cbn [fold_right].
  - split; [tauto|]. intros [H|[pr [[] _]]]; exact H.
  - unfold first_f at 1. destruct (p_lhs pr =? X) eqn:E.
    + apply Nat.eqb_eq in E. rewrite In_add_all, IH. split.
      * intros [H|[H|[pr' [H1 H2]]]]; [right; exists pr; cbn; tauto|left; exact H|right; exists pr'; cbn; tauto].
      * intros [H|[pr' [[<-|H1] [H2 H3]]]]; [tauto|tauto|right; right; exists pr'; tauto].
    + apply Nat.eqb_neq in E. rewrite IH. split.
      * intros [H|[pr' [H1 H2]]]; [left; exact H|right; exists pr'; cbn; tauto].
      * intros [H|[pr' [[<-|H1] [H2 H3]]]]; [tauto|congruence|right; exists pr'; tauto].
Qed.

Lemma first_step_spec F X a :
  In a (fst_of (first_step g N F) X) <->
  X < g_nsym g /\ (In a (fst_of F X) \/
                   exists pr, In pr (g_prods g) /\ p_lhs pr = X /\ In a (first_rhs N F (p_rhs pr))).
Proof.
  unfold first_step. rewrite fst_of_map_seq. destruct (X <? g_nsym g) eqn:E.
  - apply Nat.ltb_lt in E. change (fold_right _ (fst_of F X) (g_prods g)) with
      (fold_right (first_f F X) (fst_of F X) (g_prods g)).
    rewrite first_fold_spec. tauto.
  - apply Nat.ltb_ge in E. split; [intros []|]. intros [H _]. lia.
Qed.

Definition fsound (F : list (list nat)) : Prop := forall X a, In a (fst_of F X) -> first_sym g X a.

Lemma first_rhs_sound F pr p a : fsound F -> get_prod g p = Some pr ->
  In a (first_rhs N F (p_rhs pr)) -> first_sym g (p_lhs pr) a.
Proof.
  intros HF Hp Hin. apply first_rhs_spec in Hin. destruct Hin as [k [Y [H1 [H2 H3]]]].
  apply (FirstN g p pr k Y a Hp); [|exact H1|apply HF; exact H3].
  apply (all_in_nullable g N _ HN). exact H2.
Qed.

Lemma first_step_sound F : fsound F -> fsound (first_step g N F).
Proof.
  intros HF X a Hin. apply first_step_spec in Hin. destruct Hin as [_ [Hin|[pr [Hpr [Hl Hin]]]]].
  - apply HF; exact Hin.
  - subst X. apply In_nth_error in Hpr. destruct Hpr as [p Hp]. eapply first_rhs_sound; eassumption.
Qed.

Lemma first_init_sound : fsound (first_init g).
Proof.
  intros X a. unfold first_init. rewrite fst_of_map_seq.
  destruct (X <? g_nsym g); [|intros []]. destruct (X <? g_nterm g) eqn:E; [|intros []].
  intros [<-|[]]. apply Nat.ltb_lt in E. apply FirstT; exact E.
Qed.

Definition finit (F : list (list nat)) : Prop := forall a, a < g_nterm g -> In a (fst_of F a).

Lemma first_init_finit : finit (first_init g).
Proof.
  intros a Ha. unfold first_init. rewrite fst_of_map_seq.
  assert (E1 : a <? g_nsym g = true) by (apply Nat.ltb_lt; unfold g_nsym; lia).
  assert (E2 : a <? g_nterm g = true) by (apply Nat.ltb_lt; exact Ha).
  rewrite E1, E2. left; reflexivity.
Qed.

Lemma first_step_finit F : finit F -> finit (first_step g N F).
Proof.
  intros HF a Ha. apply first_step_spec. split; [unfold g_nsym; lia|]. left. apply HF; exact Ha.
Qed.

Lemma first_iter_inv : forall fuel F F', fsound F -> finit F -> first_iter g N fuel F = Some F' ->
  fsound F' /\ finit F' /\ first_stable g N F' = true.
Proof.
  induction fuel as [|fuel IH]; intros F F' H1 H2 H; cbn in H; [discriminate|].
  destruct (first_stable g N F) eqn:E.
  - inversion H; subst. tauto.
  - apply (IH (first_step g N F)); [apply first_step_sound; exact H1|apply first_step_finit; exact H2|exact H].
Qed.

Lemma first_stable_complete F : first_stable g N F = true -> lhs_ok_b g = true -> finit F ->
  forall X a, first_sym g X a -> In a (fst_of F X).
Proof.
  intros Hst Hlhs Hin X a Hf. induction Hf as [a Ha|p pr k Y a Hp Hn Hk _ IH].
  - apply Hin; exact Ha.
  - assert (Hpr : In pr (g_prods g)) by (eapply nth_error_In; exact Hp).
    assert (Hlt : p_lhs pr < g_nsym g).
    { unfold lhs_ok_b in Hlhs. rewrite forallb_forall in Hlhs. apply Nat.ltb_lt, Hlhs, Hpr. }
    unfold first_stable in Hst. rewrite forallb_forall in Hst.
    assert (Hs : In (p_lhs pr) (seq 0 (g_nsym g))) by (apply in_seq; lia).
    specialize (Hst _ Hs). rewrite subsetb_spec in Hst. apply Hst.
    apply first_step_spec. split; [exact Hlt|]. right. exists pr. split; [exact Hpr|]. split; [reflexivity|].
    apply first_rhs_spec. exists k, Y. split; [exact Hk|]. split; [|exact IH].
    apply (all_in_nullable g N _ HN). exact Hn.
Qed.

Theorem first_table_spec F : first_table g N = Some F ->
  forall X a, In a (fst_of F X) <-> first_sym g X a.
Proof.
  unfold first_table. destruct (lhs_ok_b g) eqn:El; [|discriminate]. intros H.
  destruct (first_iter_inv _ _ _ first_init_sound first_init_finit H) as [H1 [H2 H3]].
  intros X a. split; [apply H1|]. apply first_stable_complete; assumption.
Qed.

End First.

(* ------------------------------------------------------------------ *)
(* closure and goto *)

Lemma clos_ext g (K K' : citem -> Prop) : (forall x, K x <-> K' x) -> forall x, clos g K x <-> clos g K' x.
Proof.
  intros HK. assert (A : forall K1 K2 : citem -> Prop, (forall x, K1 x -> K2 x) -> forall x, clos g K1 x -> clos g K2 x).
  { intros K1 K2 H12 x Hc. induction Hc as [x Hx|p i a X q pr b _ IH H1 H2 H3 H4 H5].
    - apply ClosK. apply H12; exact Hx.
    - eapply ClosStep; eassumption. }
  intros x. split; apply A; intros y; apply HK.
Qed.

Section Closure.
Variable g : grammar.
Variable N : list nat.
Variable F : list (list nat).
Hypothesis HN : forall X, In X N <-> nullable_sym g X.
Hypothesis HF : forall X a, In a (fst_of F X) <-> first_sym g X a.

Lemma first_rhs_first_seq beta a : In a (first_rhs N F beta) <-> first_seq g beta a.
Proof.
  rewrite first_rhs_spec, first_seq_iff. split; intros [k [Y [H1 [H2 H3]]]]; exists k, Y.
  - split; [exact H1|]. split; [apply (all_in_nullable g N _ HN); exact H2|apply HF; exact H3].
  - split; [exact H1|]. split; [apply (all_in_nullable g N _ HN); exact H2|apply HF; exact H3].
Qed.

Lemma las_spec beta a b :
  In b (first_rhs N F beta ++ (if all_in N beta then [a] else [])) <-> la_first g beta a b.
Proof.
  unfold la_first. rewrite in_app_iff, first_rhs_first_seq. split.
  - intros [H|H]; [left; exact H|]. destruct (all_in N beta) eqn:E; [|contradiction].
    destruct H as [<-|[]]. right. split; [apply (all_in_nullable g N _ HN); exact E|reflexivity].
  - intros [H|[H ->]]; [left; exact H|]. right. apply (all_in_nullable g N _ HN) in H. rewrite H. left; reflexivity.
Qed.

Lemma demands_spec it d :
  In d (demands g N F it) <->
  exists p i a X q pr b,
    it = (p, i, a) /\ nth_error (rhs g p) i = Some X /\ g_nterm g <= X /\
    get_prod g q = Some pr /\ p_lhs pr = X /\ la_first g (skipn (S i) (rhs g p)) a b /\ d = (q, 0, b).
Proof.
  destruct it as [[p i] a]. unfold demands. split.
  - destruct (nth_error (rhs g p) i) as [X|] eqn:EX; [|intros []].
    destruct (X <? g_nterm g) eqn:Et; [intros []|]. apply Nat.ltb_ge in Et.
    rewrite in_flat_map. intros [[q pr] [Hq Hin]]. apply In_indexed in Hq.
    destruct (p_lhs pr =? X) eqn:El; [|contradiction]. apply Nat.eqb_eq in El.
    apply in_map_iff in Hin. destruct Hin as [b [Hd Hb]]. apply las_spec in Hb.
    exists p, i, a, X, q, pr, b. repeat split; try assumption. symmetry; exact Hd.
  - intros [p' [i' [a' [X [q [pr [b [Hit [HX [Ht [Hq [Hl [Hla Hd]]]]]]]]]]]]].
    inversion Hit; subst p' i' a'. rewrite HX.
    assert (Et : X <? g_nterm g = false) by (apply Nat.ltb_ge; exact Ht). rewrite Et.
    apply in_flat_map. exists (q, pr). split; [apply In_indexed; exact Hq|].
    assert (El : p_lhs pr =? X = true) by (apply Nat.eqb_eq; exact Hl). rewrite El.
    apply in_map_iff. exists b. split; [symmetry; exact Hd|apply las_spec; exact Hla].
Qed.

Lemma demands_clos K it d : clos g K it -> In d (demands g N F it) -> clos g K d.
Proof.
  intros Hc Hd. apply demands_spec in Hd.
  destruct Hd as [p [i [a [X [q [pr [b [Hit [HX [Ht [Hq [Hl [Hla Hd]]]]]]]]]]]]]. subst it d.
  eapply ClosStep; eassumption.
Qed.

Lemma add_demand_spec acc d :
  (forall z, In z (snd (add_demand acc d)) <-> z = d \/ In z (snd acc)) /\
  (forall z, In z (fst (add_demand acc d)) -> z = d \/ In z (fst acc)).
Proof.
  unfold add_demand. destruct (ins_opt d (snd acc)) as [J|] eqn:E; cbn.
  - split; [apply (ins_opt_some d _ J E)|]. intros z [H|H]; [left; symmetry; exact H|right; exact H].
  - apply ins_opt_none in E. split; [|intros z H; right; exact H].
    intros z. split; [tauto|]. intros [->|H]; assumption.
Qed.

Lemma fold_add_demand : forall ds acc,
  let r := fold_left add_demand ds acc in
  (forall z, In z (snd r) <-> In z ds \/ In z (snd acc)) /\
  (forall z, In z (fst r) -> In z ds \/ In z (fst acc)).
Proof.
  induction ds as [|d ds IH]; intros acc; cbn.
  - split; intros z; tauto.
  - destruct (IH (add_demand acc d)) as [I1 I2]. destruct (add_demand_spec acc d) as [A1 A2]. split.
    + intros z. rewrite I1, A1. intuition.
    + intros z Hz. apply I2 in Hz. destruct Hz as [Hz|Hz]; [tauto|]. apply A2 in Hz. intuition.
Qed.

Lemma clos_work_sound K : forall fuel todo Ic,
  (forall x, In x todo -> In x Ic) -> (forall x, In x Ic -> clos g K x) ->
  (forall x, In x (clos_work g N F fuel todo Ic) -> clos g K x) /\
  (forall x, In x Ic -> In x (clos_work g N F fuel todo Ic)).
Proof.
  induction fuel as [|fuel IH]; intros todo Ic Ht Hs; cbn [clos_work]; [tauto|].
  destruct todo as [|t0 todo']; [tauto|].
  set (ds := flat_map (demands g N F) (t0 :: todo')).
  destruct (fold_add_demand ds ([], Ic)) as [I1 I2]. cbn in I1, I2.
  set (r := fold_left add_demand ds ([], Ic)) in *.
  assert (Hds : forall d, In d ds -> clos g K d).
  { intros d Hd. apply in_flat_map in Hd. destruct Hd as [it [Hit Hd]].
    eapply demands_clos; [|exact Hd]. apply Hs, Ht, Hit. }
  destruct (IH (fst r) (snd r)) as [J1 J2].
  - intros x Hx. apply I1. destruct (I2 x Hx) as [H|[]]. left; exact H.
  - intros x Hx. apply I1 in Hx. destruct Hx as [Hx|Hx]; [apply Hds; exact Hx|apply Hs; exact Hx].
  - split; [exact J1|]. intros x Hx. apply J2. apply I1. right; exact Hx.
Qed.

Lemma closed_b_spec Ic : closed_b g N F Ic = true ->
  forall it d, In it Ic -> In d (demands g N F it) -> In d Ic.
Proof.
  unfold closed_b. rewrite forallb_forall. intros H it d Hit Hd. specialize (H it Hit).
  rewrite forallb_forall in H. apply cmem_In, H, Hd.
Qed.

Theorem closure_spec fuel Kl Ic : closure g N F fuel Kl = Some Ic ->
  set_is Ic (clos g (fun x => In x Kl)).
Proof.
  unfold closure. set (W := clos_work g N F fuel (norm Kl) (norm Kl)).
  destruct (closed_b g N F W) eqn:E; [|discriminate]. intros H; inversion H; subst Ic. clear H.
  destruct (clos_work_sound (fun x => In x Kl) fuel (norm Kl) (norm Kl)) as [S1 S2].
  - tauto.
  - intros x Hx. apply ClosK. apply In_norm; exact Hx.
  - intros x. split; [apply S1|]. intros Hc.
    induction Hc as [x Hx|p i a X q pr b _ IH H1 H2 H3 H4 H5].
    + apply S2. apply In_norm; exact Hx.
    + eapply (closed_b_spec W E); [exact IH|]. apply demands_spec.
      exists p, i, a, X, q, pr, b. repeat split; assumption.
Qed.

Lemma goto_kernel_spec Ic X y : In y (goto_kernel g Ic X) <-> goto_K g Ic X y.
Proof.
  unfold goto_kernel, goto_K. rewrite in_flat_map. split.
  - intros [[[p i] a] [Hin Hy]]. destruct (nth_error (rhs g p) i) as [Y|] eqn:EY; [|contradiction].
    destruct (Y =? X) eqn:E; [|contradiction]. apply Nat.eqb_eq in E. subst Y.
    destruct Hy as [<-|[]]. exists p, i, a. tauto.
  - intros [p [i [a [-> [Hin HX]]]]]. exists (p, i, a). split; [exact Hin|].
    rewrite HX, Nat.eqb_refl. left; reflexivity.
Qed.

Lemma next_syms_spec Ic X :
  In X (next_syms g Ic) <-> exists p i a, In (p, i, a) Ic /\ nth_error (rhs g p) i = Some X.
Proof.
  unfold next_syms. rewrite In_dedupe, in_flat_map. split.
  - intros [[[p i] a] [Hin HX]]. destruct (nth_error (rhs g p) i) as [Y|] eqn:EY; [|contradiction].
    destruct HX as [<-|[]]. exists p, i, a. tauto.
  - intros [p [i [a [Hin HX]]]]. exists (p, i, a). split; [exact Hin|]. rewrite HX. left; reflexivity.
Qed.

Lemma next_syms_goto Ic X : In X (next_syms g Ic) <-> exists y, goto_K g Ic X y.
Proof.
  rewrite next_syms_spec. unfold goto_K. split.
  - intros [p [i [a [H1 H2]]]]. exists (p, S i, a), p, i, a. tauto.
  - intros [y [p [i [a [_ [H1 H2]]]]]]. exists p, i, a. tauto.
Qed.

(* ---------------------------------------------------------------- *)
(* the work list over states *)

Lemma find_state_spec J : forall sts k j, find_state J sts k = Some j ->
  exists j0, j = k + j0 /\ nth_error sts j0 = Some J.
Proof.
  induction sts as [|y r IH]; intros k j H; cbn in H; [discriminate|].
  destruct (cstate_eqb J y) eqn:E.
  - apply cstate_eqb_eq in E. inversion H; subst. exists 0. split; [lia|reflexivity].
  - destruct (IH (S k) j H) as [j0 [H1 H2]]. exists (S j0). split; [lia|exact H2].
Qed.

Definition good_target (sts : list cstate) (Ic : cstate) (X j : nat) : Prop :=
  exists J, nth_error sts j = Some J /\ (exists y, goto_K g Ic X y) /\
            set_is J (clos g (goto_K g Ic X)).

Lemma good_target_mono sts ext Ic X j : good_target sts Ic X j -> good_target (sts ++ ext) Ic X j.
Proof.
  intros [J [H1 H2]]. exists J. split; [|exact H2]. rewrite nth_error_app1; [exact H1|].
  apply nth_error_Some. rewrite H1. discriminate.
Qed.

Lemma fold_succ_none cfuel Ic syms : fold_left (succ_one g N F cfuel Ic) syms None = None.
Proof. induction syms; cbn; [reflexivity|assumption]. Qed.

Lemma succ_fold cfuel Ic : forall syms sts row sts' row',
  fold_left (succ_one g N F cfuel Ic) syms (Some (sts, row)) = Some (sts', row') ->
  NoDup syms ->
  (forall X, In X syms -> exists y, goto_K g Ic X y) ->
  (forall X j, assoc X row = Some j -> good_target sts Ic X j) ->
  (exists ext, sts' = sts ++ ext) /\
  (forall X j, assoc X row' = Some j -> good_target sts' Ic X j) /\
  (forall X, In X syms -> assoc X row' <> None) /\
  (forall X, ~ In X syms -> assoc X row' = assoc X row) /\
  (forall j, length sts <= j -> j < length sts' -> exists X, In X syms /\ assoc X row' = Some j).
Proof.
  induction syms as [|X syms IH]; intros sts row sts' row' Hf Hnd Hg Hrow.
  - cbn in Hf. inversion Hf; subst. split; [exists []; rewrite app_nil_r; reflexivity|].
    split; [exact Hrow|]. split; [intros X []|]. split; [reflexivity|]. intros j H1 H2. lia.
  - cbn [fold_left] in Hf. unfold succ_one at 2 in Hf.
    destruct (closure g N F cfuel (goto_kernel g Ic X)) as [J|] eqn:EJ;
      [|rewrite fold_succ_none in Hf; discriminate].
    inversion Hnd as [|X' syms' HnX Hnd']; subst.
    assert (HJ : set_is J (clos g (goto_K g Ic X))).
    { intros x. rewrite (closure_spec _ _ _ EJ x). apply clos_ext. intros y. apply goto_kernel_spec. }
    assert (HX : exists y, goto_K g Ic X y) by (apply Hg; left; reflexivity).
    destruct (find_state J sts 0) as [j|] eqn:Ef.
    + destruct (find_state_spec J sts 0 j Ef) as [j0 [Hj Hn]]. cbn in Hj. subst j0.
      destruct (IH sts ((X, j) :: row) sts' row' Hf Hnd') as [E1 [E2 [E3 [E4 E5]]]].
      * intros Y HY. apply Hg; right; exact HY.
      * intros Y k. cbn. destruct (X =? Y) eqn:E.
        -- apply Nat.eqb_eq in E. subst Y. intros H; inversion H; subst k. exists J. tauto.
        -- apply Hrow.
      * split; [exact E1|]. split; [exact E2|]. split.
        -- intros Y [<-|HY]; [|apply E3; exact HY]. rewrite (E4 X HnX). cbn. rewrite Nat.eqb_refl. discriminate.
        -- split.
           ++ intros Y HY. rewrite E4; [|intros H; apply HY; right; exact H]. cbn.
              destruct (X =? Y) eqn:E; [|reflexivity]. apply Nat.eqb_eq in E. exfalso. apply HY. left; exact E.
           ++ intros k H1 H2. destruct (E5 k H1 H2) as [Y [HY1 HY2]]. exists Y. split; [right; exact HY1|exact HY2].
    + destruct (IH (sts ++ [J]) ((X, length sts) :: row) sts' row' Hf Hnd') as [E1 [E2 [E3 [E4 E5]]]].
      * intros Y HY. apply Hg; right; exact HY.
      * intros Y k. cbn. destruct (X =? Y) eqn:E.
        -- apply Nat.eqb_eq in E. subst Y. intros H; inversion H; subst k. exists J.
           split; [|tauto]. rewrite nth_error_app2; [|lia]. rewrite Nat.sub_diag. reflexivity.
        -- intros H. apply good_target_mono. apply Hrow; exact H.
      * split.
        -- destruct E1 as [ext E1]. exists ([J] ++ ext). rewrite E1, app_assoc. reflexivity.
        -- split; [exact E2|]. split.
           ++ intros Y [<-|HY]; [|apply E3; exact HY]. rewrite (E4 X HnX). cbn. rewrite Nat.eqb_refl. discriminate.
           ++ split.
              ** intros Y HY. rewrite E4; [|intros H; apply HY; right; exact H]. cbn.
                 destruct (X =? Y) eqn:E; [|reflexivity]. apply Nat.eqb_eq in E. exfalso. apply HY. left; exact E.
              ** intros k H1 H2. destruct (Nat.eq_dec k (length sts)) as [->|Hne].
                 --- exists X. split; [left; reflexivity|]. rewrite (E4 X HnX). cbn. rewrite Nat.eqb_refl. reflexivity.
                 --- rewrite app_length in E5. cbn in E5. destruct (E5 k ltac:(lia) H2) as [Y [HY1 HY2]].
                     exists Y. split; [right; exact HY1|exact HY2].
Qed.

Definition row_ok (sts : list cstate) (Ic : cstate) (row : list (nat * nat)) : Prop :=
  (forall X j, assoc X row = Some j -> good_target sts Ic X j) /\
  (forall X, assoc X row = None -> forall y, ~ goto_K g Ic X y).

Record binv (nr : nat) (sts : list cstate) (trs : list (list (nat * nat))) : Prop := {
  bi_len : length trs <= length sts;
  bi_rows : forall i row Ic, nth_error trs i = Some row -> nth_error sts i = Some Ic -> row_ok sts Ic row;
  bi_reach : forall j, j < length sts ->
             j < nr \/ exists i X row, i < j /\ nth_error trs i = Some row /\ assoc X row = Some j
}.

Lemma build_inv nr cfuel : forall fuel sts trs C,
  binv nr sts trs -> build g N F cfuel fuel sts trs = Some C ->
  binv nr (c_states C) (c_trans C) /\ length (c_trans C) = length (c_states C) /\
  exists ext, c_states C = sts ++ ext.
Proof.
  induction fuel as [|fuel IH]; intros sts trs C Hinv Hb; cbn [build] in Hb; [discriminate|].
  destruct (nth_error sts (length trs)) as [Ic|] eqn:EI.
  - destruct (fold_left (succ_one g N F cfuel Ic) (next_syms g Ic) (Some (sts, []))) as [[sts' row]|] eqn:Ef;
      [|discriminate].
    destruct (succ_fold cfuel Ic _ _ _ _ _ Ef) as [[ext E1] [E2 [E3 [E4 E5]]]].
    + apply NoDup_dedupe.
    + intros X HX. apply next_syms_goto; exact HX.
    + intros X j H. cbn in H. discriminate.
    + assert (Hlt : length trs < length sts) by (apply nth_error_Some; rewrite EI; discriminate).
      destruct (IH sts' (trs ++ [row]) C) as [R1 [R2 [ext' R3]]]; [|exact Hb|].
      * constructor.
        -- rewrite app_length. cbn. subst sts'. rewrite app_length. lia.
        -- intros i row0 I0 Hr Hs. destruct (Nat.lt_ge_cases i (length trs)) as [Hi|Hi].
           ++ rewrite nth_error_app1 in Hr by exact Hi.
              assert (Hs' : nth_error sts i = Some I0).
              { subst sts'. rewrite nth_error_app1 in Hs by lia. exact Hs. }
              destruct (bi_rows _ _ _ Hinv i row0 I0 Hr Hs') as [A1 A2]. split; [|exact A2].
              intros X j H. subst sts'. apply good_target_mono. apply A1; exact H.
           ++ assert (Hie : i = length trs).
              { assert (i < length (trs ++ [row])) by (apply nth_error_Some; rewrite Hr; discriminate).
                rewrite app_length in H. cbn in H. lia. }
              subst i. rewrite nth_error_app2 in Hr by lia. rewrite Nat.sub_diag in Hr. cbn in Hr.
              inversion Hr; subst row0.
              assert (Hs' : nth_error sts (length trs) = Some I0).
              { subst sts'. rewrite nth_error_app1 in Hs by lia. exact Hs. }
              rewrite EI in Hs'. inversion Hs'; subst I0. split; [exact E2|].
              intros X Hn y Hy. apply (E3 X); [|exact Hn]. apply next_syms_goto. exists y; exact Hy.
        -- intros j Hj. destruct (Nat.lt_ge_cases j (length sts)) as [Hjs|Hjs].
           ++ destruct (bi_reach _ _ _ Hinv j Hjs) as [H|[i [X [row0 [H1 [H2 H3]]]]]]; [left; exact H|].
              right. exists i, X, row0. split; [exact H1|]. split; [|exact H3].
              rewrite nth_error_app1; [exact H2|]. apply nth_error_Some. rewrite H2. discriminate.
           ++ destruct (E5 j Hjs Hj) as [X [_ HX]]. right. exists (length trs), X, row.
              split; [lia|]. split; [|exact HX]. rewrite nth_error_app2 by lia. rewrite Nat.sub_diag. reflexivity.
      * split; [exact R1|]. split; [exact R2|]. exists (ext ++ ext'). rewrite R3, E1, app_assoc. reflexivity.
  - inversion Hb; subst C. cbn. split; [exact Hinv|]. split.
    + apply nth_error_None in EI. pose proof (bi_len _ _ _ Hinv). lia.
    + exists []. rewrite app_nil_r. reflexivity.
Qed.

End Closure.

(* ------------------------------------------------------------------ *)
(* the reference construction is the canonical LR(1) automaton *)

Lemma start_kernel_ext p : forall x : citem, In x [(p, 0, STOP)] <-> x = (p, 0, STOP).
Proof. intros x. cbn. split; [intros [H|[]]; symmetry; exact H|intros ->; left; reflexivity]. Qed.

Section IsCanonical.
Variable g : grammar.
Variable N : list nat.
Variable F : list (list nat).
Hypothesis HN : forall X, In X N <-> nullable_sym g X.
Hypothesis HF : forall X a, In a (fst_of F X) <-> first_sym g X a.
Variable nr : nat.
Variable C : canon.
Hypothesis Hinv : binv g nr (c_states C) (c_trans C).
Hypothesis Hlen : length (c_trans C) = length (c_states C).
Hypothesis Hroots : forall c, c < nr -> is_root g c.

Lemma items_nth c Ic : nth_error (c_states C) c = Some Ic -> c_items C c = Ic.
Proof. intros H. unfold c_items. eapply nth_error_nth_default; exact H. Qed.

Lemma goto_some c X c' : c < c_n C -> c_goto C c X = Some c' ->
  c' < c_n C /\ (exists y, goto_K g (c_items C c) X y) /\
  set_is (c_items C c') (clos g (goto_K g (c_items C c) X)).
Proof.
  intros Hc Hg. unfold c_goto in Hg. destruct (nth_error (c_trans C) c) as [row|] eqn:Er; [|discriminate].
  destruct (nth_error (c_states C) c) as [Ic|] eqn:Es; [|apply nth_error_None in Es; unfold c_n in Hc; lia].
  destruct (bi_rows _ _ _ _ Hinv c row Ic Er Es) as [A1 _]. destruct (A1 X c' Hg) as [J [H1 [H2 H3]]].
  rewrite (items_nth c Ic Es), (items_nth c' J H1). split; [|tauto].
  unfold c_n. apply nth_error_Some. rewrite H1. discriminate.
Qed.

Lemma goto_none c X : c < c_n C -> c_goto C c X = None -> forall y, ~ goto_K g (c_items C c) X y.
Proof.
  intros Hc Hg. unfold c_goto in Hg.
  destruct (nth_error (c_trans C) c) as [row|] eqn:Er;
    [|apply nth_error_None in Er; unfold c_n in Hc; lia].
  destruct (nth_error (c_states C) c) as [Ic|] eqn:Es; [|apply nth_error_None in Es; unfold c_n in Hc; lia].
  destruct (bi_rows _ _ _ _ Hinv c row Ic Er Es) as [_ A2]. rewrite (items_nth c Ic Es). apply A2; exact Hg.
Qed.

Lemma all_reach : forall c, c < c_n C -> creach g C c.
Proof.
  intros c. induction c as [c IH] using lt_wf_ind. intros Hc.
  destruct (bi_reach _ _ _ _ Hinv c Hc) as [H|[i [X [row [H1 [H2 H3]]]]]].
  - apply CRroot. apply Hroots; exact H.
  - apply (CRstep g C i X c).
    + apply IH; [exact H1|]. unfold c_n in *. lia.
    + unfold c_goto. rewrite H2. exact H3.
Qed.

Lemma trans_dom c X c' : c_goto C c X = Some c' -> c < c_n C.
Proof.
  unfold c_goto. destruct (nth_error (c_trans C) c) as [row|] eqn:Er; [|discriminate]. intros _.
  unfold c_n. rewrite <- Hlen. apply nth_error_Some. rewrite Er. discriminate.
Qed.

End IsCanonical.

Theorem canon_is_canonical_main g fuel C : canonical g fuel = Some C -> is_canonical g C.
Proof.
  unfold canonical. destruct (nullable_set g) as [N|] eqn:EN; [|discriminate].
  pose proof (nullable_set_spec g N EN) as HN.
  destruct (first_table g N) as [F|] eqn:EF; [|discriminate].
  pose proof (first_table_spec g N HN F EF) as HF.
  destruct (closure g N F (closure_fuel g) [(0, 0, STOP)]) as [I0|] eqn:E0; [|discriminate].
  assert (H0 : set_is I0 (clos g (fun y => y = (0, 0, STOP)))).
  { intros x. rewrite (closure_spec g N F HN HF _ _ _ E0 x). apply clos_ext. apply start_kernel_ext. }
  destruct (g_layout g) as [l|] eqn:EL.
  - destruct (closure g N F (closure_fuel g) [(1, 0, STOP)]) as [I1|] eqn:E1; [|discriminate].
    assert (H1 : set_is I1 (clos g (fun y => y = (1, 0, STOP)))).
    { intros x. rewrite (closure_spec g N F HN HF _ _ _ E1 x). apply clos_ext. apply start_kernel_ext. }
    destruct (cstate_eqb I0 I1) eqn:E01; [discriminate|]. intros Hb.
    assert (Hi : binv g 2 [I0; I1] []).
    { constructor; [cbn; lia|intros i row Ic H; destruct i; discriminate|intros j Hj; left; exact Hj]. }
    destruct (build_inv g N F HN HF 2 (closure_fuel g) fuel [I0; I1] [] C Hi Hb) as [R1 [R2 [ext R3]]].
    assert (Hroots : forall c, c < 2 -> is_root g c).
    { intros c Hc. destruct c as [|[|c]]; [left; reflexivity|right; split; [reflexivity|congruence]|lia]. }
    constructor.
    + unfold c_items. rewrite R3. exact H0.
    + intros _. unfold c_items. rewrite R3. exact H1.
    + unfold c_n. rewrite R3. cbn. split; [lia|intros _; lia].
    + intros c X c' Hc Hg. eapply goto_some; eassumption.
    + intros c X Hc Hg. eapply goto_none; eassumption.
    + intros c Hc. eapply all_reach; eassumption.
    + intros c X c' Hg. eapply trans_dom; eassumption.
  - intros Hb.
    assert (Hi : binv g 1 [I0] []).
    { constructor; [cbn; lia|intros i row Ic H; destruct i; discriminate|intros j Hj; left; exact Hj]. }
    destruct (build_inv g N F HN HF 1 (closure_fuel g) fuel [I0] [] C Hi Hb) as [R1 [R2 [ext R3]]].
    assert (Hroots : forall c, c < 1 -> is_root g c).
    { intros c Hc. left. lia. }
    constructor.
    + unfold c_items. rewrite R3. exact H0.
    + intros H. congruence.
    + unfold c_n. rewrite R3. cbn. split; [lia|intros H; congruence].
    + intros c X c' Hc Hg. eapply goto_some; eassumption.
    + intros c X Hc Hg. eapply goto_none; eassumption.
    + intros c Hc. eapply all_reach; eassumption.
    + intros c X c' Hg. eapply trans_dom; eassumption.
Qed.

(* ------------------------------------------------------------------ *)
(* nullable_sym means: derives the empty string (tie to Spec/Grammar derivation trees) *)

Lemma flat_map_nil {A B} (f : A -> list B) : forall l, flat_map f l = [] -> forall x, In x l -> f x = [].
Proof.
  induction l as [|y r IH]; cbn; intros H x Hx; [contradiction|].
  apply app_eq_nil in H. destruct H as [H1 H2]. destruct Hx as [<-|Hx]; [exact H1|apply IH; assumption].
Qed.

Theorem nullable_sym_tree_main g X :
  nullable_sym g X <-> exists t, valid_tree g t /\ root g t = X /\ yield t = [].
Proof.
  split.
  - apply (nullable_sym_min g
             (fun X => exists t, valid_tree g t /\ root g t = X /\ yield t = [])
             (fun l => exists cs, Forall (valid_tree g) cs /\ map (root g) cs = l /\ flat_map yield cs = [])).
    + intros p pr Hp _ [cs [H1 [H2 H3]]]. exists (Node p cs). split; [eapply VNode; eassumption|].
      split; [cbn; unfold lhs; rewrite Hp; reflexivity|exact H3].
    + exists []. split; [constructor|]. split; reflexivity.
    + intros x r _ [t [T1 [T2 T3]]] _ [cs [H1 [H2 H3]]]. exists (t :: cs).
      split; [constructor; assumption|]. split; [cbn; rewrite T2, H2; reflexivity|].
      cbn. rewrite T3, H3. reflexivity.
  - intros [t [Hv [Hr Hy]]]. subst X. revert Hy.
    apply (valid_tree_ind' g (fun t => yield t = [] -> nullable_sym g (root g t))); [| |exact Hv].
    + intros a _ Hy. discriminate.
    + intros p pr cs Hp Hmap _ HP Hy. cbn in Hy. cbn [root]. unfold lhs. rewrite Hp.
      apply (NullSym g p pr Hp). rewrite <- Hmap. apply nullable_seq_forall.
      intros x Hx. apply in_map_iff in Hx. destruct Hx as [c [<- Hc]].
      rewrite Forall_forall in HP. apply HP; [exact Hc|]. exact (flat_map_nil yield cs Hy c Hc).
Qed.

(* ------------------------------------------------------------------ *)
(* states are strictly sorted item lists, hence pairwise distinct as SETS *)

Definition clt (x y : citem) : Prop :=
  match x, y with
  | (p, i, a), (q, j, b) => p < q \/ (p = q /\ (i < j \/ (i = j /\ a < b)))
  end.

Lemma citem_cmp_spec x y :
  match citem_cmp x y with Lt => clt x y | Eq => x = y | Gt => clt y x end.
Proof.
  destruct x as [[p i] a], y as [[q j] b]; cbn.
  destruct (Nat.compare_spec p q); [|lia|lia].
  destruct (Nat.compare_spec i j); [|lia|lia].
  destruct (Nat.compare_spec a b); [subst; reflexivity|lia|lia].
Qed.

Lemma clt_trans x y z : clt x y -> clt y z -> clt x z.
Proof. destruct x as [[p i] a], y as [[q j] b], z as [[r k] c]; cbn. lia. Qed.

Lemma clt_irrefl x : ~ clt x x.
Proof. destruct x as [[p i] a]; cbn. lia. Qed.

Fixpoint ssorted (l : cstate) : Prop :=
  match l with
  | [] => True
  | x :: r => (forall y, In y r -> clt x y) /\ ssorted r
  end.

Lemma ins_opt_sorted x : forall l l', ssorted l -> ins_opt x l = Some l' -> ssorted l'.
Proof.
  induction l as [|y r IH]; intros l' Hs H; cbn in H.
  - inversion H; subst. cbn. split; [intros y []|exact Logic.I].
  - pose proof (citem_cmp_spec x y) as Hc. destruct (citem_cmp x y); try discriminate.
    + inversion H; subst. cbn. split; [|exact Hs]. destruct Hs as [Hs1 _].
      intros z [<-|Hz]; [exact Hc|]. eapply clt_trans; [exact Hc|apply Hs1; exact Hz].
    + destruct (ins_opt x r) as [r'|] eqn:E; [|discriminate]. inversion H; subst.
      destruct Hs as [Hs1 Hs2]. cbn. split; [|apply (IH r' Hs2 eq_refl)].
      intros z Hz. apply (ins_opt_some x r r' E) in Hz. destruct Hz as [->|Hz]; [exact Hc|apply Hs1; exact Hz].
Qed.

Lemma ins_sorted x l : ssorted l -> ssorted (ins x l).
Proof.
  intros Hs. unfold ins. destruct (ins_opt x l) as [l'|] eqn:E; [|exact Hs]. eapply ins_opt_sorted; eassumption.
Qed.

Lemma norm_sorted l : ssorted (norm l).
Proof. induction l as [|x r IH]; cbn; [exact Logic.I|]. apply ins_sorted; exact IH. Qed.

Lemma ssorted_unique : forall l1 l2, ssorted l1 -> ssorted l2 -> (forall x, In x l1 <-> In x l2) -> l1 = l2.
Proof.
  induction l1 as [|x r1 IH]; intros l2 H1 H2 Heq.
  - destruct l2 as [|y r2]; [reflexivity|]. exfalso. apply (Heq y). left; reflexivity.
  - destruct l2 as [|y r2]; [exfalso; apply (Heq x); left; reflexivity|].
    destruct H1 as [A1 A2], H2 as [B1 B2].
    assert (Hxy : x = y).
    { assert (Hx : In x (y :: r2)) by (apply Heq; left; reflexivity).
      assert (Hy : In y (x :: r1)) by (apply Heq; left; reflexivity).
      destruct Hx as [Hx|Hx]; [symmetry; exact Hx|]. destruct Hy as [Hy|Hy]; [exact Hy|].
      exfalso. apply (clt_irrefl x). eapply clt_trans; [apply A1; exact Hy|apply B1; exact Hx]. }
    subst y. f_equal. apply IH; [exact A2|exact B2|].
    intros z. split; intros Hz.
    + assert (Hz' : In z (x :: r2)) by (apply Heq; right; exact Hz).
      destruct Hz' as [<-|Hz']; [|exact Hz']. exfalso. apply (clt_irrefl x). apply A1; exact Hz.
    + assert (Hz' : In z (x :: r1)) by (apply Heq; right; exact Hz).
      destruct Hz' as [<-|Hz']; [|exact Hz']. exfalso. apply (clt_irrefl x). apply B1; exact Hz.
Qed.

Lemma cstate_eqb_refl : forall l, cstate_eqb l l = true.
Proof.
  induction l as [|x r IH]; cbn; [reflexivity|].
  assert (E : citem_eqb x x = true) by (apply citem_eqb_eq; reflexivity). rewrite E. exact IH.
Qed.

Lemma find_state_none J : forall sts k, find_state J sts k = None -> ~ In J sts.
Proof.
  induction sts as [|y r IH]; intros k H; cbn in H; [intros []|].
  destruct (cstate_eqb J y) eqn:E; [discriminate|]. intros [<-|Hin].
  - rewrite cstate_eqb_refl in E. discriminate.
  - exact (IH (S k) H Hin).
Qed.

Lemma NoDup_snoc {A} (x : A) : forall l, NoDup l -> ~ In x l -> NoDup (l ++ [x]).
Proof.
  induction l as [|y r IH]; intros Hnd Hx; cbn.
  - constructor; [intros []|constructor].
  - inversion Hnd as [|y' r' Hy Hr]; subst. constructor.
    + intros Hin. apply in_app_or in Hin. destruct Hin as [Hin|[<-|[]]]; [exact (Hy Hin)|].
      apply Hx. left; reflexivity.
    + apply IH; [exact Hr|]. intros Hin. apply Hx. right; exact Hin.
Qed.

Section Sorted.
Variable g : grammar.
Variable N : list nat.
Variable F : list (list nat).

Lemma fold_add_sorted : forall ds acc, ssorted (snd acc) -> ssorted (snd (fold_left add_demand ds acc)).
Proof.
  induction ds as [|d ds IH]; intros acc Hs; cbn; [exact Hs|]. apply IH.
  unfold add_demand. destruct (ins_opt d (snd acc)) as [J|] eqn:E; cbn; [|exact Hs].
  eapply ins_opt_sorted; eassumption.
Qed.

Lemma clos_work_sorted : forall fuel todo Ic, ssorted Ic -> ssorted (clos_work g N F fuel todo Ic).
Proof.
  induction fuel as [|fuel IH]; intros todo Ic Hs; cbn [clos_work]; [exact Hs|].
  destruct todo as [|t0 todo']; [exact Hs|]. apply IH. apply fold_add_sorted. exact Hs.
Qed.

Lemma closure_sorted fuel Kl Ic : closure g N F fuel Kl = Some Ic -> ssorted Ic.
Proof.
  unfold closure. destruct (closed_b g N F _); [|discriminate]. intros H; inversion H; subst.
  apply clos_work_sorted. apply norm_sorted.
Qed.

Definition sts_ok (sts : list cstate) : Prop := NoDup sts /\ Forall ssorted sts.

Lemma succ_fold_ok cfuel Ic : forall syms sts row sts' row',
  fold_left (succ_one g N F cfuel Ic) syms (Some (sts, row)) = Some (sts', row') ->
  sts_ok sts -> sts_ok sts'.
Proof.
  induction syms as [|X syms IH]; intros sts row sts' row' Hf Hok.
  - cbn in Hf. inversion Hf; subst. exact Hok.
  - cbn [fold_left] in Hf. unfold succ_one at 2 in Hf.
    destruct (closure g N F cfuel (goto_kernel g Ic X)) as [J|] eqn:EJ;
      [|rewrite fold_succ_none in Hf; discriminate].
    destruct (find_state J sts 0) as [j|] eqn:Ef.
    + eapply IH; eassumption.
    + eapply IH; [exact Hf|]. destruct Hok as [H1 H2]. split.
      * apply NoDup_snoc; [exact H1|]. exact (find_state_none _ _ _ Ef).
      * apply Forall_app. split; [exact H2|]. constructor; [eapply closure_sorted; exact EJ|constructor].
Qed.

Lemma build_ok cfuel : forall fuel sts trs C,
  build g N F cfuel fuel sts trs = Some C -> sts_ok sts -> sts_ok (c_states C).
Proof.
  induction fuel as [|fuel IH]; intros sts trs C Hb Hok; cbn [build] in Hb; [discriminate|].
  destruct (nth_error sts (length trs)) as [Ic|] eqn:EI.
  - destruct (fold_left (succ_one g N F cfuel Ic) (next_syms g Ic) (Some (sts, []))) as [[sts' row]|] eqn:Ef;
      [|discriminate].
    eapply IH; [exact Hb|]. eapply succ_fold_ok; eassumption.
  - inversion Hb; subst. exact Hok.
Qed.

End Sorted.

Theorem canon_states_distinct_main g fuel C : canonical g fuel = Some C ->
  forall c1 c2, c1 < c_n C -> c2 < c_n C ->
  (forall x, In x (c_items C c1) <-> In x (c_items C c2)) -> c1 = c2.
Proof.
  intros Hc.
  assert (Hok : sts_ok (c_states C)).
  { unfold canonical in Hc. destruct (nullable_set g) as [N|]; [|discriminate].
    destruct (first_table g N) as [F|]; [|discriminate].
    destruct (closure g N F (closure_fuel g) [(0, 0, STOP)]) as [I0|] eqn:E0; [|discriminate].
    pose proof (closure_sorted g N F _ _ _ E0) as S0.
    destruct (g_layout g).
    - destruct (closure g N F (closure_fuel g) [(1, 0, STOP)]) as [I1|] eqn:E1; [|discriminate].
      pose proof (closure_sorted g N F _ _ _ E1) as S1.
      destruct (cstate_eqb I0 I1) eqn:E01; [discriminate|].
      eapply build_ok; [exact Hc|]. split.
      + constructor; [|constructor; [intros []|constructor]].
        intros [<-|[]]. rewrite cstate_eqb_refl in E01. discriminate.
      + constructor; [exact S0|constructor; [exact S1|constructor]].
    - eapply build_ok; [exact Hc|]. split.
      + constructor; [intros []|constructor].
      + constructor; [exact S0|constructor]. }
  destruct Hok as [Hnd Hs]. intros c1 c2 H1 H2 Heq. unfold c_n in H1, H2.
  destruct (nth_error (c_states C) c1) as [J1|] eqn:N1; [|apply nth_error_None in N1; lia].
  destruct (nth_error (c_states C) c2) as [J2|] eqn:N2; [|apply nth_error_None in N2; lia].
  assert (E1 : c_items C c1 = J1) by (unfold c_items; eapply nth_error_nth_default; exact N1).
  assert (E2 : c_items C c2 = J2) by (unfold c_items; eapply nth_error_nth_default; exact N2).
  rewrite E1, E2 in Heq. rewrite Forall_forall in Hs.
  assert (EJ : J1 = J2).
  { apply ssorted_unique; [apply Hs; eapply nth_error_In; exact N1|apply Hs; eapply nth_error_In; exact N2|exact Heq]. }
  rewrite <- EJ in N2. apply (proj1 (NoDup_nth_error (c_states C)) Hnd c1 c2).
  - apply nth_error_Some. rewrite N1. discriminate.
  - rewrite N1, N2. reflexivity.
Qed.
